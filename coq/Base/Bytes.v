(* Base/Bytes.v — byte strings as [list ascii] and the Go [strings]/[unicode]
   primitives the library uses, restricted to what is exact on ASCII input.
   Definitions only compute; lemmas are in BytesFacts.v. *)
From Coq Require Export Ascii String.
From Coq Require Export List NArith ZArith Bool.
From Verif.Base Require Export Ord.
Export ListNotations.
Local Open Scope N_scope.

Definition bytes := list ascii.

(* string literals: [$"abc"] *)
Notation "$ x" := (list_ascii_of_string x%string) (at level 0, x at level 0, only parsing).

Definition code (c : ascii) : N := N_of_ascii c.
Definition chr (n : N) : ascii := ascii_of_N n.

Definition in_range (lo hi : N) (c : ascii) : bool :=
  let n := code c in (lo <=? n) && (n <=? hi).

Definition is_digit (c : ascii) : bool := in_range 48 57 c.
Definition is_lower (c : ascii) : bool := in_range 97 122 c.
Definition is_upper (c : ascii) : bool := in_range 65 90 c.
Definition is_letter (c : ascii) : bool := is_lower c || is_upper c.
Definition is_alnum (c : ascii) : bool := is_digit c || is_letter c.
Definition is_ascii (c : ascii) : bool := code c <? 128.
(* unicode.IsSpace on ASCII: TAB LF VT FF CR SP *)
Definition is_space (c : ascii) : bool :=
  let n := code c in (n =? 32) || ((9 <=? n) && (n <=? 13)).

Definition ceqb (a b : ascii) : bool := code a =? code b.

Definition to_lower_c (c : ascii) : ascii :=
  if is_upper c then chr (code c + 32) else c.
Definition to_upper_c (c : ascii) : ascii :=
  if is_lower c then chr (code c - 32) else c.
Definition to_lower (s : bytes) : bytes := map to_lower_c s.
Definition to_upper (s : bytes) : bytes := map to_upper_c s.

Fixpoint beq (a b : bytes) : bool :=
  match a, b with
  | [], [] => true
  | x :: a', y :: b' => ceqb x y && beq a' b'
  | _, _ => false
  end.

(* Go's string comparison (bytewise lexicographic) *)
Fixpoint bytes_cmp (a b : bytes) : comparison :=
  match a, b with
  | [], [] => Eq
  | [], _ :: _ => Lt
  | _ :: _, [] => Gt
  | x :: a', y :: b' =>
      thenc (code x ?= code y) (bytes_cmp a' b')
  end.

Definition all_b (p : ascii -> bool) (s : bytes) : bool := forallb p s.
Definition any_b (p : ascii -> bool) (s : bytes) : bool := existsb p s.
Definition all_ascii (s : bytes) : bool := forallb is_ascii s.

Fixpoint take_while (p : ascii -> bool) (s : bytes) : bytes :=
  match s with
  | c :: s' => if p c then c :: take_while p s' else []
  | [] => []
  end.
Fixpoint drop_while (p : ascii -> bool) (s : bytes) : bytes :=
  match s with
  | c :: s' => if p c then drop_while p s' else s
  | [] => []
  end.
Definition span (p : ascii -> bool) (s : bytes) : bytes * bytes :=
  (take_while p s, drop_while p s).

Definition trim_left (s : bytes) : bytes := drop_while is_space s.
Definition trim_right (s : bytes) : bytes := rev (drop_while is_space (rev s)).
Definition trim_space (s : bytes) : bytes := trim_right (trim_left s).

Fixpoint has_prefix (p s : bytes) : bool :=
  match p, s with
  | [], _ => true
  | x :: p', y :: s' => ceqb x y && has_prefix p' s'
  | _ :: _, [] => false
  end.
Definition has_suffix (p s : bytes) : bool := has_prefix (rev p) (rev s).
Definition strip_prefix (p s : bytes) : option bytes :=
  if has_prefix p s then Some (skipn (length p) s) else None.
(* strings.TrimPrefix / TrimSuffix *)
Definition trim_prefix (p s : bytes) : bytes :=
  if has_prefix p s then skipn (length p) s else s.
Definition trim_suffix (p s : bytes) : bytes :=
  if has_suffix p s then firstn (length s - length p) s else s.

(* strings.Contains / strings.Index for a non-empty needle; (before, after) of first occurrence *)
Fixpoint cut (sep s : bytes) : option (bytes * bytes) :=
  if has_prefix sep s then Some ([], skipn (length sep) s)
  else match s with
       | [] => None
       | c :: s' => match cut sep s' with
                    | Some (a, b) => Some (c :: a, b)
                    | None => None
                    end
       end.
Definition contains_sub (sep s : bytes) : bool :=
  match cut sep s with Some _ => true | None => false end.
Definition index_sub (sep s : bytes) : option nat :=
  match cut sep s with Some (a, _) => Some (length a) | None => None end.
Definition contains_c (c : ascii) (s : bytes) : bool := existsb (ceqb c) s.
Definition count_c (c : ascii) (s : bytes) : nat := length (filter (ceqb c) s).

(* strings.Split(s, sep) for a single-byte separator: always at least one field *)
Fixpoint split_c (sep : ascii) (s : bytes) : list bytes :=
  match s with
  | [] => [[]]
  | c :: s' =>
      if ceqb sep c then [] :: split_c sep s'
      else match split_c sep s' with
           | f :: fs => (c :: f) :: fs
           | [] => [[c]]
           end
  end.

(* strings.Split(s, sep) for a non-empty multi-byte separator; fuel = length s + 1 *)
Fixpoint split_sub_fuel (fuel : nat) (sep s : bytes) : list bytes :=
  match fuel with
  | O => [s]
  | S k => match cut sep s with
           | Some (a, b) => a :: split_sub_fuel k sep b
           | None => [s]
           end
  end.
Definition split_sub (sep s : bytes) : list bytes := split_sub_fuel (S (length s)) sep s.

(* strings.SplitN(s, sep, 2) for a single-byte separator *)
Definition split2_c (sep : ascii) (s : bytes) : bytes * option bytes :=
  match cut [sep] s with
  | Some (a, b) => (a, Some b)
  | None => (s, None)
  end.

(* strings.LastIndex for a single byte: (before, after) of the last occurrence *)
Definition cut_last_c (sep : ascii) (s : bytes) : option (bytes * bytes) :=
  match cut [sep] (rev s) with
  | Some (a, b) => Some (rev b, rev a)
  | None => None
  end.

(* strings.Fields: maximal runs of non-space bytes *)
Fixpoint fields_aux (cur : bytes) (s : bytes) : list bytes :=
  match s with
  | [] => match cur with [] => [] | _ => [rev cur] end
  | c :: s' =>
      if is_space c
      then match cur with [] => fields_aux [] s' | _ => rev cur :: fields_aux [] s' end
      else fields_aux (c :: cur) s'
  end.
Definition fields (s : bytes) : list bytes := fields_aux [] s.

Fixpoint join (sep : bytes) (l : list bytes) : bytes :=
  match l with
  | [] => []
  | [x] => x
  | x :: l' => x ++ sep ++ join sep l'
  end.

(* strings.ReplaceAll for single bytes *)
Definition replace_c (a b : ascii) (s : bytes) : bytes :=
  map (fun c => if ceqb a c then b else c) s.

(* strings.Map(drop spaces) *)
Definition strip_spaces (s : bytes) : bytes := filter (fun c => negb (is_space c)) s.

(* table lookup on byte-string keys *)
Fixpoint lookup {A} (k : bytes) (t : list (bytes * A)) : option A :=
  match t with
  | [] => None
  | (k', v) :: t' => if beq k k' then Some v else lookup k t'
  end.
Definition mem (k : bytes) (l : list bytes) : bool := existsb (beq k) l.

Definition hd_c (s : bytes) : option ascii := match s with c :: _ => Some c | [] => None end.
Definition last_c (s : bytes) : option ascii := hd_c (rev s).
