(* Base/BytesFacts.v — lemmas about Base/Bytes.v and Base/GoNum.v *)
From Coq Require Import Lia.
From Verif.Base Require Import Bytes GoNum Ord.
Local Open Scope N_scope.

Lemma code_inj a b : code a = code b -> a = b.
Proof.
  unfold code. intros H.
  rewrite <- (ascii_N_embedding a), <- (ascii_N_embedding b). congruence.
Qed.

Lemma ceqb_eq a b : ceqb a b = true <-> a = b.
Proof.
  unfold ceqb. rewrite N.eqb_eq. split; [apply code_inj | congruence].
Qed.

Lemma ceqb_refl a : ceqb a a = true.
Proof. apply ceqb_eq. reflexivity. Qed.

Lemma ceqb_neq a b : ceqb a b = false <-> a <> b.
Proof.
  split; intros H.
  - intros E. apply ceqb_eq in E. congruence.
  - destruct (ceqb a b) eqn:E; [apply ceqb_eq in E; contradiction | reflexivity].
Qed.

Lemma beq_eq a b : beq a b = true <-> a = b.
Proof.
  revert b. induction a as [|x a IH]; intros [|y b]; simpl; split; try congruence; try discriminate.
  - intros H. apply andb_true_iff in H. destruct H as [H1 H2].
    apply ceqb_eq in H1. apply IH in H2. congruence.
  - intros H. injection H as -> ->. rewrite ceqb_refl. simpl. apply IH. reflexivity.
Qed.

Lemma beq_refl a : beq a a = true.
Proof. apply beq_eq. reflexivity. Qed.

Lemma bytes_cmp_eq a b : bytes_cmp a b = Eq <-> a = b.
Proof.
  revert b. induction a as [|x a IH]; intros [|y b]; simpl; split; try congruence; try discriminate.
  - unfold thenc. destruct (code x ?= code y) eqn:E; try discriminate.
    apply N.compare_eq in E. apply code_inj in E. intros H. apply IH in H. congruence.
  - intros H. injection H as -> ->. rewrite N.compare_refl. apply IH. reflexivity.
Qed.

Lemma bytes_cmp_as_lex a b : bytes_cmp a b = lex_short (cmp_on code N.compare) a b.
Proof.
  revert b. induction a as [|x a IH]; intros [|y b]; simpl; try reflexivity.
  unfold cmp_on at 1. rewrite IH. reflexivity.
Qed.

Lemma TP_bytes_cmp : TotalPreorder bytes_cmp.
Proof.
  eapply TP_ext; [apply bytes_cmp_as_lex|].
  apply TP_lex_short, TP_on, TP_N.
Qed.

Lemma TP_digits_cmp : TotalPreorder digits_cmp.
Proof.
  eapply TP_ext with (c2 := cmp_on strip_zeros (lexc (cmp_on (@length ascii) Nat.compare) bytes_cmp)).
  - intros a b. unfold digits_cmp, cmp_on, lexc, thenc. reflexivity.
  - apply TP_on, TP_lexc; [apply TP_on, TP_nat | apply TP_bytes_cmp].
Qed.

(* ---------- whitespace ---------- *)

Lemma drop_while_app_all p (a b : bytes) :
  forallb p a = true -> drop_while p (a ++ b) = drop_while p b.
Proof.
  induction a as [|x a IH]; simpl; intros H; [reflexivity|].
  apply andb_true_iff in H. destruct H as [Hx Ha]. rewrite Hx. apply IH. assumption.
Qed.

Lemma drop_while_idem p (s : bytes) : drop_while p (drop_while p s) = drop_while p s.
Proof.
  induction s as [|c s IH]; simpl; [reflexivity|].
  destruct (p c) eqn:E; [assumption|]. simpl. rewrite E. reflexivity.
Qed.

Lemma forallb_rev {A} (p : A -> bool) l : forallb p (rev l) = forallb p l.
Proof.
  induction l as [|x l IH]; simpl; [reflexivity|].
  rewrite forallb_app, IH. simpl. rewrite andb_true_r. apply andb_comm.
Qed.

Lemma trim_left_pad p s : forallb is_space p = true -> trim_left (p ++ s) = trim_left s.
Proof. apply drop_while_app_all. Qed.

Lemma trim_right_pad s q : forallb is_space q = true -> trim_right (s ++ q) = trim_right s.
Proof.
  intros H. unfold trim_right. rewrite rev_app_distr.
  rewrite drop_while_app_all; [reflexivity|]. rewrite forallb_rev. assumption.
Qed.

(* dropping leading spaces commutes with dropping trailing spaces *)
Lemma drop_while_nil_iff p (s : bytes) : drop_while p s = [] <-> forallb p s = true.
Proof.
  induction s as [|c s IH]; simpl; [tauto|].
  destruct (p c); simpl; [exact IH|]. split; discriminate.
Qed.

Lemma trim_right_cons_nonspace c s :
  is_space c = false -> trim_right (c :: s) = c :: trim_right s.
Proof.
  intros Hc. unfold trim_right. simpl.
  destruct (forallb is_space (rev s)) eqn:E.
  - rewrite drop_while_app_all by assumption. simpl. rewrite Hc.
    apply drop_while_nil_iff in E. rewrite E. reflexivity.
  - assert (H : exists y t, drop_while is_space (rev s) = y :: t).
    { destruct (drop_while is_space (rev s)) as [|y t] eqn:D.
      - apply drop_while_nil_iff in D. congruence.
      - eauto. }
    destruct H as (y & t & D).
    assert (G : forall l r, drop_while is_space l = y :: t ->
               drop_while is_space (l ++ r) = (y :: t) ++ r).
    { induction l as [|z l IHl]; simpl; intros r Hl; [discriminate|].
      destruct (is_space z); [apply IHl; assumption|]. congruence. }
    rewrite (G _ [c] D), D. rewrite rev_app_distr. reflexivity.
Qed.

Lemma trim_right_all_space s : forallb is_space s = true -> trim_right s = [].
Proof.
  intros H. unfold trim_right.
  rewrite <- forallb_rev in H. apply drop_while_nil_iff in H. rewrite H. reflexivity.
Qed.

Lemma trim_right_cons_space c s :
  is_space c = true -> trim_right (c :: s) = match trim_right s with [] => [] | t => c :: t end.
Proof.
  intros Hc. destruct (forallb is_space s) eqn:E.
  - rewrite (trim_right_all_space s E).
    apply trim_right_all_space. simpl. rewrite Hc, E. reflexivity.
  - unfold trim_right. simpl.
    destruct (drop_while is_space (rev s)) as [|y t] eqn:D.
    + apply drop_while_nil_iff in D. rewrite forallb_rev in D. congruence.
    + assert (G : forall l r, drop_while is_space l = y :: t ->
               drop_while is_space (l ++ r) = (y :: t) ++ r).
      { induction l as [|z l IHl]; simpl; intros r Hl; [discriminate|].
        destruct (is_space z); [apply IHl; assumption|]. congruence. }
      rewrite (G _ [c] D). rewrite rev_app_distr. simpl.
      destruct (rev t ++ [y]) eqn:R; [destruct (rev t); discriminate|]. reflexivity.
Qed.

Lemma trim_space_pad p s q :
  forallb is_space p = true -> forallb is_space q = true ->
  trim_space (p ++ s ++ q) = trim_space s.
Proof.
  intros Hp Hq. unfold trim_space. rewrite trim_left_pad by assumption.
  (* trim_right (trim_left (s ++ q)) = trim_right (trim_left s) *)
  induction s as [|c s IH]; simpl.
  - unfold trim_left. apply drop_while_nil_iff in Hq. rewrite Hq. reflexivity.
  - unfold trim_left in *. simpl. destruct (is_space c) eqn:E; [exact IH|].
    change (c :: s ++ q) with ((c :: s) ++ q). apply trim_right_pad. assumption.
Qed.

Lemma trim_left_nonspace_hd s c t : trim_left s = c :: t -> is_space c = false.
Proof.
  unfold trim_left. induction s as [|x s IH]; simpl; [discriminate|].
  destruct (is_space x) eqn:E; [exact IH|]. congruence.
Qed.

Lemma trim_left_of_nonspace c t : is_space c = false -> trim_left (c :: t) = c :: t.
Proof. intros H. unfold trim_left. simpl. rewrite H. reflexivity. Qed.

Lemma trim_right_hd_nonspace c s :
  is_space c = false -> exists t, trim_right (c :: s) = c :: t.
Proof. intros H. rewrite trim_right_cons_nonspace by assumption. eauto. Qed.

Lemma trim_right_idem s : trim_right (trim_right s) = trim_right s.
Proof.
  unfold trim_right. rewrite rev_involutive, drop_while_idem. reflexivity.
Qed.

Lemma trim_space_idem s : trim_space (trim_space s) = trim_space s.
Proof.
  unfold trim_space.
  destruct (trim_left s) as [|c t] eqn:E.
  - reflexivity.
  - pose proof (trim_left_nonspace_hd _ _ _ E) as Hc.
    destruct (trim_right_hd_nonspace c t Hc) as [t' Ht]. rewrite Ht.
    rewrite (trim_left_of_nonspace c t' Hc). rewrite <- Ht. apply trim_right_idem.
Qed.
