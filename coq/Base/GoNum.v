(* Base/GoNum.v — decimal numerals as Go's strconv reads and fmt prints them. *)
From Verif.Base Require Export Bytes.
Local Open Scope N_scope.

Definition digit_val (c : ascii) : N := code c - 48.

(* value of a digit string (caller guarantees all digits) *)
Definition digits_val (s : bytes) : N :=
  fold_left (fun acc c => acc * 10 + digit_val c) s 0.

Definition all_digits (s : bytes) : bool := forallb is_digit s.
Definition nonempty_digits (s : bytes) : bool :=
  match s with [] => false | _ => forallb is_digit s end.

Definition two63 : N := 9223372036854775808.
Definition two64 : N := 18446744073709551616.
Definition max_int64 : Z := 9223372036854775807.
Definition min_int64 : Z := -9223372036854775808.

(* strconv.ParseUint(s, 10, 64) *)
Definition parse_uint64 (s : bytes) : option N :=
  if nonempty_digits s
  then let n := digits_val s in if n <? two64 then Some n else None
  else None.

(* strconv.Atoi on a 64-bit platform: optional sign, at least one digit, int64 range *)
Definition atoi (s : bytes) : option Z :=
  match s with
  | [] => None
  | c :: r =>
      if ceqb c "-"%char then
        if nonempty_digits r
        then let n := digits_val r in
             if n <=? two63 then Some (- Z.of_N n)%Z else None
        else None
      else
        let d := if ceqb c "+"%char then r else s in
        if nonempty_digits d
        then let n := digits_val d in
             if n <? two63 then Some (Z.of_N n) else None
        else None
  end.

(* value Atoi returns when its error is ignored: 0 on syntax error, saturated on range error *)
Definition atoi_sat (s : bytes) : Z :=
  match s with
  | [] => 0%Z
  | c :: r =>
      if ceqb c "-"%char then
        if nonempty_digits r
        then let n := digits_val r in
             if n <=? two63 then (- Z.of_N n)%Z else min_int64
        else 0%Z
      else
        let d := if ceqb c "+"%char then r else s in
        if nonempty_digits d
        then let n := digits_val d in
             if n <? two63 then Z.of_N n else max_int64
        else 0%Z
  end.

(* two's complement wrap of an int64 result *)
Definition wrap64 (z : Z) : Z :=
  let m := Z.of_N two64 in
  let r := (z mod m)%Z in
  if (r <? Z.of_N two63)%Z then r else (r - m)%Z.

(* fmt "%d" *)
Fixpoint dec_fuel (fuel : nat) (n : N) (acc : bytes) : bytes :=
  match fuel with
  | O => acc
  | S k =>
      let d := chr (48 + n mod 10) in
      if n <? 10 then d :: acc else dec_fuel k (n / 10) (d :: acc)
  end.
Definition dec (n : N) : bytes := dec_fuel (S (N.size_nat n)) n [].
Definition dec_z (z : Z) : bytes :=
  match z with
  | Zneg p => "-"%char :: dec (Npos p)
  | _ => dec (Z.to_N z)
  end.

(* strip leading zeros of a digit run (keeps the empty string empty) *)
Definition strip_zeros (s : bytes) : bytes := drop_while (ceqb "0"%char) s.

(* comparison of two digit strings of any length as integers *)
Definition digits_cmp (a b : bytes) : comparison :=
  let a' := strip_zeros a in
  let b' := strip_zeros b in
  thenc (Nat.compare (length a') (length b')) (bytes_cmp a' b').

Definition z_sign (c : comparison) : Z :=
  match c with Lt => (-1)%Z | Eq => 0%Z | Gt => 1%Z end.
