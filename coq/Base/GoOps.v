(* Base/GoOps.v — the few Go operators used by the generated code (Gen/Code/*.v) that have no
   name in Base/Bytes.v: ordering of strings as booleans.  (New file; nothing else depends on it.) *)
From Verif.Base Require Import Bytes GoNum.

(* a < b, a <= b on strings (bytewise lexicographic, as Go compares strings) *)
Definition str_lt (a b : bytes) : bool :=
  match bytes_cmp a b with Lt => true | _ => false end.
Definition str_le (a b : bytes) : bool :=
  match bytes_cmp a b with Gt => false | _ => true end.
