(* Base/Imp.v — a small executable first-order imperative layer: the target of the translation
   of the Go functions WITH loops and index expressions (tools/gen/loops.go, Gen/Loops/<Eco>.v).
   Definitions only; the facts are in Base/ImpFacts.v.

   A computation is a value of [res A]: it finishes ([Done a]), it panics (Go run-time panic:
   index or slice bound out of range, division by zero) or the fuel of a loop ran out
   ([OutOfFuel]: the loop has not been shown to terminate within the fuel given).  Nothing here
   is partial: [while] recurses structurally on its fuel. *)
From Coq Require Import ZArith List Ascii Bool.
From Verif.Base Require Import Bytes GoNum.
Import ListNotations.
Local Open Scope Z_scope.

Inductive res (A : Type) : Type :=
| Done (a : A)
| Panic
| OutOfFuel.
Arguments Done {A} a.
Arguments Panic {A}.
Arguments OutOfFuel {A}.

Definition bind {A B : Type} (r : res A) (k : A -> res B) : res B :=
  match r with
  | Done a => k a
  | Panic => Panic
  | OutOfFuel => OutOfFuel
  end.

Declare Scope imp_scope.
Delimit Scope imp_scope with imp.
Notation "x <- e ;; k" := (bind e (fun x => k))
  (at level 61, e at next level, right associativity) : imp_scope.
Notation "' p <- e ;; k" := (bind e (fun x => match x with p => k end))
  (at level 61, p pattern, e at next level, right associativity) : imp_scope.

Definition rmap {A B : Type} (f : A -> B) (r : res A) : res B := bind r (fun a => Done (f a)).

(* ---------- checked primitives ---------- *)

(* len(s) *)
Definition len {A : Type} (s : list A) : Z := Z.of_nat (length s).

(* s[i]: panics unless 0 <= i < len(s) *)
Definition idx {A : Type} (s : list A) (i : Z) : res A :=
  if (0 <=? i) && (i <? len s) then
    match nth_error s (Z.to_nat i) with
    | Some a => Done a
    | None => Panic
    end
  else Panic.

(* s[lo:hi]: panics unless 0 <= lo <= hi <= len(s)  (for slices: hi <= cap(s) in Go; the
   translation only produces slices whose capacity is not observable, see LOOPS.md) *)
Definition slice {A : Type} (s : list A) (lo hi : Z) : res (list A) :=
  if (0 <=? lo) && (lo <=? hi) && (hi <=? len s)
  then Done (firstn (Z.to_nat (hi - lo)) (skipn (Z.to_nat lo) s))
  else Panic.

(* s[lo:], s[:hi] *)
Definition slice_from {A : Type} (s : list A) (lo : Z) : res (list A) := slice s lo (len s).
Definition slice_to {A : Type} (s : list A) (hi : Z) : res (list A) := slice s 0 hi.

(* the same on strings *)
Definition bidx (s : bytes) (i : Z) : res ascii := idx s i.
Definition bslice (s : bytes) (lo hi : Z) : res bytes := slice s lo hi.

(* a / b, a % b on int: panic on b = 0; truncated division; MinInt64 / -1 wraps *)
Definition go_div (a b : Z) : res Z :=
  if b =? 0 then Panic else Done (wrap64 (Z.quot a b)).
Definition go_rem (a b : Z) : res Z :=
  if b =? 0 then Panic else Done (Z.rem a b).

(* a byte / a rune as an integer *)
Definition byte_z (c : ascii) : Z := Z.of_N (code c).

(* ---------- loops ---------- *)

(* what one iteration of a loop body does to the loop state St:
     Next s   — the body ran to its end (or `continue`): go on with state s
                (for a three-clause loop the post statement is already applied);
     Break s  — `break`, or the loop condition is false: leave the loop with state s;
     Ret r    — `return r` inside the loop.
   A panic in the body is [Panic] and an inner loop that ran out of fuel is [OutOfFuel] of the
   [res] around the step: a body is  St -> res (step St R). *)
Inductive step (St R : Type) : Type :=
| Next (s : St)
| Break (s : St)
| Ret (r : R).
Arguments Next {St R} s.
Arguments Break {St R} s.
Arguments Ret {St R} r.

(* how a loop was left *)
Inductive exit (St R : Type) : Type :=
| Fell (s : St)       (* condition false or break: the code after the loop runs with state s *)
| Returned (r : R).  (* the enclosing function returns r *)
Arguments Fell {St R} s.
Arguments Returned {St R} r.

Fixpoint while {St R : Type} (fuel : nat) (body : St -> res (step St R)) (s : St) : res (exit St R) :=
  match fuel with
  | O => OutOfFuel
  | S k =>
      match body s with
      | Done (Next s') => while k body s'
      | Done (Break s') => Done (Fell s')
      | Done (Ret r) => Done (Returned r)
      | Panic => Panic
      | OutOfFuel => OutOfFuel
      end
  end.

(* a nested loop inside a loop body: a `return` of the inner loop returns from the outer one *)
Definition inner {St St' R : Type} (x : exit St' R) (k : St' -> res (step St R)) : res (step St R) :=
  match x with
  | Fell s' => k s'
  | Returned r => Done (Ret r)
  end.

(* a loop at function level: a `return` inside the loop is the function's result *)
Definition after {St R : Type} (x : exit St R) (k : St -> res R) : res R :=
  match x with
  | Fell s => k s
  | Returned r => Done r
  end.

(* a loop that contains no return statement, at any level *)
Definition fell {St R : Type} (x : exit St R) (d : St) : St :=
  match x with
  | Fell s => s
  | Returned _ => d
  end.
