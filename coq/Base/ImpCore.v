(* Base/ImpCore.v — what the fourth translation pass (tools/gen/core.go, Gen/Parse/<Pkg>Core.v:
   the generic functions, nil-able pointers, dispatch tables and the CLI runners) needs on top of
   Base/Imp.v and Base/ImpErr.v.  Definitions and their small facts; nothing here is assumed.

   * A Go pointer variable that may be nil (`var lower *constraint`, `lower = nil`, `lower != nil`) is
     an [option]; `lower.version` / `*lower` is the CHECKED operation [deref] ([Panic] on [None]), so
     "no nil dereference" is part of "no panic".
   * A local `map[string]T` is an association list in which the newest entry comes first
     (`m[k] = v` is [map_set k v m], `m[k]` is [map_get zero (lookup k m)]).
   * A first-class function value `func(A, B) (C, error)` (entries of a dispatch table, closures
     stored in a map) has the uniform type [nat -> A -> B -> res (option C)] (fuel first); the nil
     function value is [nil_func..], whose call panics, as in Go. *)
From Coq Require Import ZArith List Ascii Bool Lia.
From Verif.Base Require Import Bytes GoNum Imp ImpErr.
Import ListNotations.
Local Open Scope Z_scope.

Definition deref {A : Type} (p : option A) : res A :=
  match p with Some a => Done a | None => Panic end.

Definition is_some {A : Type} (p : option A) : bool :=
  match p with Some _ => true | None => false end.

Definition is_none {A : Type} (p : option A) : bool :=
  match p with Some _ => false | None => true end.

Definition map_set {A : Type} (k : bytes) (v : A) (m : list (bytes * A)) : list (bytes * A) :=
  (k, v) :: m.

(* calling a nil function value panics *)
Definition nil_func1 {A R : Type} : nat -> A -> res R := fun _ _ => Panic.
Definition nil_func2 {A B R : Type} : nat -> A -> B -> res R := fun _ _ _ => Panic.
Definition nil_func3 {A B C R : Type} : nat -> A -> B -> C -> res R := fun _ _ _ _ => Panic.

(* fmt's %t *)
Definition fmt_bool (b : bool) : bytes := if b then $"true" else $"false".

(* fmt's %q on a string of bytes < 0x80 (strconv.Quote): the same function as Cli/Model.quote *)
Definition fmt_hexdigit (n : N) : ascii :=
  if (n <? 10)%N then chr (48 + n) else chr (87 + n).

Definition fmt_quote_c (c : ascii) : bytes :=
  let n := code c in
  if (n =? 34)%N then $"\" ++ [c]
  else if (n =? 92)%N then $"\\"
  else if (n =? 7)%N then $"\a"
  else if (n =? 8)%N then $"\b"
  else if (n =? 9)%N then $"\t"
  else if (n =? 10)%N then $"\n"
  else if (n =? 11)%N then $"\v"
  else if (n =? 12)%N then $"\f"
  else if (n =? 13)%N then $"\r"
  else if ((n <? 32) || (n =? 127))%N then $"\x" ++ [fmt_hexdigit (n / 16); fmt_hexdigit (n mod 16)]
  else [c].

Definition fmt_quote (s : bytes) : bytes :=
  """"%char :: flat_map fmt_quote_c s ++ [""""%char].

(* ---------- facts ---------- *)

Lemma deref_Some {A} (a : A) : deref (Some a) = Done a.
Proof. reflexivity. Qed.

Lemma deref_is_some {A} (p : option A) : is_some p = true -> exists a, p = Some a /\ deref p = Done a.
Proof. destruct p as [a|]; [exists a; split; reflexivity | discriminate]. Qed.

Lemma is_none_negb {A} (p : option A) : is_none p = negb (is_some p).
Proof. destruct p; reflexivity. Qed.
