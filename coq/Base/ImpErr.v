(* Base/ImpErr.v — what the translation of the PARSERS (tools/gen/parse.go, Gen/Parse/<Eco>.v)
   needs on top of Base/Imp.v.  Definitions and their small facts.

   A Go function with results (T, error) is translated to a value of [option T] ([Some v] for
   `return v, nil`, [None] for a non-nil error; error texts are not modelled), inside [res] when
   it contains a checked primitive: [res (option T)].  The type [res] of Base/Imp.v is unchanged;
   `x, err := f(a); if err != nil {..}` is a plain [match] on the option.  This file has the
   library functions the parsers call that are not in Base/Bytes.v as such (each one exact), and
   the predicates in which "no panic" is stated. *)
From Coq Require Import ZArith List Ascii Bool Lia.
From Verif.Base Require Import Bytes GoNum Imp.
Import ListNotations.
Local Open Scope Z_scope.

(* m[k] and v, ok := m[k] on a map literal (an association list with distinct keys) *)
Definition map_get {A : Type} (d : A) (o : option A) : A :=
  match o with Some v => v | None => d end.
Definition map_get2 {A : Type} (d : A) (o : option A) : A * bool :=
  match o with Some v => (v, true) | None => (d, false) end.

(* strings.Index(s, sub): -1 when absent *)
Definition go_index (sub s : bytes) : Z :=
  match index_sub sub s with Some n => Z.of_nat n | None => -1 end.

(* strings.SplitN(s, sep, 2) for a single-byte separator *)
Definition splitn2_c (sep : ascii) (s : bytes) : list bytes :=
  match split2_c sep s with
  | (a, Some b) => [a; b]
  | (a, None) => [a]
  end.

(* ---------- outcomes ---------- *)

(* the computation finished: no run-time panic, and the fuel was enough *)
Definition finished {A : Type} (r : res A) : Prop := exists a, r = Done a.

Lemma finished_Done {A} (a : A) : finished (Done a).
Proof. exists a. reflexivity. Qed.

Lemma finished_bind {A B} (r : res A) (k : A -> res B) :
  finished r -> (forall a, r = Done a -> finished (k a)) -> finished (bind r k).
Proof. intros [a E] H. rewrite E. cbn [bind]. apply H. exact E. Qed.

Lemma not_finished_Panic {A} : ~ finished (@Panic A).
Proof. intros [a E]. discriminate. Qed.

Lemma not_finished_OutOfFuel {A} : ~ finished (@OutOfFuel A).
Proof. intros [a E]. discriminate. Qed.

(* an index below the length is a value: the step of every no-panic proof *)
Lemma idx_lt_Done {A} (s : list A) (i : Z) :
  0 <= i < Z.of_nat (length s) -> exists a, idx s i = Done a /\ nth_error s (Z.to_nat i) = Some a.
Proof.
  intros H. unfold idx, len.
  replace ((0 <=? i) && (i <? Z.of_nat (length s))) with true by (symmetry; apply andb_true_intro; split; lia).
  destruct (nth_error s (Z.to_nat i)) as [a|] eqn:E.
  - exists a. split; reflexivity.
  - apply nth_error_None in E. lia.
Qed.

(* s[lo:] within bounds *)
Lemma slice_from_Done {A} (s : list A) (lo : Z) :
  0 <= lo <= Z.of_nat (length s) -> slice_from s lo = Done (skipn (Z.to_nat lo) s).
Proof.
  intros H. unfold slice_from, slice, len.
  replace ((0 <=? lo) && (lo <=? Z.of_nat (length s)) && (Z.of_nat (length s) <=? Z.of_nat (length s))) with true
    by (symmetry; repeat (apply andb_true_intro; split); lia).
  f_equal. apply firstn_all2. rewrite skipn_length. lia.
Qed.
