(* Base/ImpFacts.v — facts about the imperative layer Base/Imp.v: the checked primitives inside
   their bounds, fuel monotonicity of [while], and the invariant / variant rule. *)
From Coq Require Import ZArith List Ascii Bool Lia.
From Verif.Base Require Import Bytes GoNum Imp.
Import ListNotations.
Local Open Scope Z_scope.

(* ---------- bind ---------- *)

Lemma bind_Done {A B} (a : A) (k : A -> res B) : bind (Done a) k = k a.
Proof. reflexivity. Qed.

Lemma bind_Done_inv {A B} (r : res A) (k : A -> res B) b :
  bind r k = Done b -> exists a, r = Done a /\ k a = Done b.
Proof. destruct r; cbn; intros H; try discriminate. eauto. Qed.

Lemma bind_assoc {A B C} (r : res A) (k : A -> res B) (h : B -> res C) :
  bind (bind r k) h = bind r (fun a => bind (k a) h).
Proof. destruct r; reflexivity. Qed.

(* ---------- len ---------- *)

Lemma len_nonneg {A} (s : list A) : 0 <= len s.
Proof. unfold len. lia. Qed.

Lemma len_nil {A} : len (@nil A) = 0.
Proof. reflexivity. Qed.

Lemma len_cons {A} (x : A) s : len (x :: s) = len s + 1.
Proof. unfold len. cbn [length]. lia. Qed.

Lemma len_app {A} (s t : list A) : len (s ++ t) = len s + len t.
Proof. unfold len. rewrite app_length. lia. Qed.

Lemma len_skipn {A} (s : list A) n : len (skipn n s) = len s - Z.of_nat (Nat.min n (length s)).
Proof. unfold len. rewrite skipn_length. lia. Qed.

(* ---------- idx ---------- *)

Lemma idx_Done {A} (s : list A) i a :
  idx s i = Done a <-> (0 <= i < len s /\ nth_error s (Z.to_nat i) = Some a).
Proof.
  unfold idx. destruct (Z.leb_spec 0 i), (Z.ltb_spec i (len s)); cbn [andb].
  - destruct (nth_error s (Z.to_nat i)) eqn:E; split.
    + intros H1; inversion H1; subst. split; [lia | reflexivity].
    + intros [_ H1]; inversion H1; reflexivity.
    + discriminate.
    + intros [_ H1]; discriminate.
  - split; [discriminate | intros [? _]; lia].
  - split; [discriminate | intros [? _]; lia].
  - split; [discriminate | intros [? _]; lia].
Qed.

(* inside the bounds an index expression does not panic *)
Lemma idx_in_range {A} (s : list A) i (d : A) :
  0 <= i < len s -> idx s i = Done (nth (Z.to_nat i) s d).
Proof.
  intros H. apply idx_Done. split; [exact H|].
  apply nth_error_nth'. unfold len in H. lia.
Qed.

Lemma idx_not_OutOfFuel {A} (s : list A) i : idx s i <> OutOfFuel.
Proof.
  unfold idx. destruct (_ && _); [|discriminate].
  destruct (nth_error _ _); discriminate.
Qed.

Lemma idx_out_of_range {A} (s : list A) i : ~ (0 <= i < len s) -> idx s i = Panic.
Proof.
  intros H. unfold idx.
  destruct (Z.leb_spec 0 i), (Z.ltb_spec i (len s)); cbn [andb]; try reflexivity. lia.
Qed.

(* the element under a cursor, in terms of the unread rest *)
Lemma idx_skipn {A} (s : list A) i c r :
  0 <= i -> skipn (Z.to_nat i) s = c :: r -> idx s i = Done c.
Proof.
  intros Hi E. apply idx_Done.
  assert (L : (Z.to_nat i < length s)%nat).
  { destruct (Nat.lt_ge_cases (Z.to_nat i) (length s)) as [L|L]; [exact L|].
    rewrite skipn_all2 in E by exact L. discriminate. }
  split; [unfold len; lia|].
  rewrite <- (firstn_skipn (Z.to_nat i) s) at 1.
  rewrite nth_error_app2 by (rewrite firstn_length; lia).
  rewrite firstn_length, Nat.min_l by lia. rewrite Nat.sub_diag, E. reflexivity.
Qed.

Lemma skipn_cons_next {A} (s : list A) n c r :
  skipn n s = c :: r -> skipn (S n) s = r.
Proof.
  revert s. induction n as [|n IH]; intros [|x s] E; cbn in *; try discriminate.
  - inversion E; reflexivity.
  - destruct s; [destruct n; discriminate|]. apply IH in E. exact E.
Qed.

Lemma skipn_nil_len {A} (s : list A) n : skipn n s = [] <-> (length s <= n)%nat.
Proof.
  split.
  - intros E. pose proof (skipn_length n s) as L. rewrite E in L. cbn in L. lia.
  - apply skipn_all2.
Qed.

Lemma skipn_cons_len {A} (s : list A) n c r : skipn n s = c :: r -> (n < length s)%nat.
Proof.
  intros E. destruct (Nat.lt_ge_cases n (length s)) as [L|L]; [exact L|].
  rewrite skipn_all2 in E by exact L. discriminate.
Qed.

(* ---------- slice ---------- *)

Lemma slice_in_range {A} (s : list A) lo hi :
  0 <= lo <= hi -> hi <= len s ->
  slice s lo hi = Done (firstn (Z.to_nat (hi - lo)) (skipn (Z.to_nat lo) s)).
Proof.
  intros H1 H2. unfold slice.
  destruct (Z.leb_spec 0 lo), (Z.leb_spec lo hi), (Z.leb_spec hi (len s)); cbn [andb]; try lia.
  reflexivity.
Qed.

Lemma slice_out_of_range {A} (s : list A) lo hi :
  ~ (0 <= lo <= hi /\ hi <= len s) -> slice s lo hi = Panic.
Proof.
  intros H. unfold slice.
  destruct (Z.leb_spec 0 lo), (Z.leb_spec lo hi), (Z.leb_spec hi (len s)); cbn [andb]; try reflexivity.
  lia.
Qed.

Lemma slice_not_OutOfFuel {A} (s : list A) lo hi : slice s lo hi <> OutOfFuel.
Proof. unfold slice. destruct (_ && _); discriminate. Qed.

(* s = pre ++ mid ++ post, cursors at the two ends of mid *)
Lemma slice_app {A} (pre mid post : list A) :
  slice (pre ++ mid ++ post) (len pre) (len pre + len mid) = Done mid.
Proof.
  rewrite slice_in_range.
  - f_equal. unfold len. rewrite Nat2Z.id.
    rewrite skipn_app, skipn_all, Nat.sub_diag. cbn [app skipn].
    replace (Z.to_nat _) with (length mid) by lia.
    rewrite firstn_app, firstn_all, Nat.sub_diag. cbn [firstn]. apply app_nil_r.
  - pose proof (len_nonneg pre). pose proof (len_nonneg mid). lia.
  - rewrite !len_app. pose proof (len_nonneg post). lia.
Qed.

Lemma slice_from_in_range {A} (s : list A) lo :
  0 <= lo <= len s -> slice_from s lo = Done (skipn (Z.to_nat lo) s).
Proof.
  intros H. unfold slice_from. rewrite slice_in_range by lia. f_equal.
  apply firstn_all2. rewrite skipn_length. unfold len in *. lia.
Qed.

Lemma slice_to_in_range {A} (s : list A) hi :
  0 <= hi <= len s -> slice_to s hi = Done (firstn (Z.to_nat hi) s).
Proof.
  intros H. unfold slice_to. rewrite slice_in_range by lia. cbn [Z.to_nat skipn].
  rewrite Z.sub_0_r. reflexivity.
Qed.

(* ---------- while: fuel ---------- *)

Section While.
  Context {St R : Type}.
  Variable body : St -> res (step St R).

  Lemma while_S fuel s :
    while (S fuel) body s =
    match body s with
    | Done (Next s') => while fuel body s'
    | Done (Break s') => Done (Fell s')
    | Done (Ret r) => Done (Returned r)
    | Panic => Panic
    | OutOfFuel => OutOfFuel
    end.
  Proof. reflexivity. Qed.

  (* more fuel does not change a result *)
  Lemma while_mono_Done n m s x :
    while n body s = Done x -> (n <= m)%nat -> while m body s = Done x.
  Proof.
    revert m s. induction n as [|n IH]; intros m s H L; [discriminate|].
    destruct m as [|m]; [lia|]. cbn [while] in *.
    destruct (body s) as [[s'|s'|r]| |]; try exact H.
    apply IH; [exact H | lia].
  Qed.

  Lemma while_mono_Panic n m s :
    while n body s = Panic -> (n <= m)%nat -> while m body s = Panic.
  Proof.
    revert m s. induction n as [|n IH]; intros m s H L; [discriminate|].
    destruct m as [|m]; [lia|]. cbn [while] in *.
    destruct (body s) as [[s'|s'|r]| |]; try exact H.
    apply IH; [exact H | lia].
  Qed.

  (* never Done with little fuel and Panic with more, or the other way round *)
  Lemma while_Done_not_Panic n m s x :
    while n body s = Done x -> while m body s <> Panic.
  Proof.
    intros H1 H2. destruct (Nat.le_ge_cases n m) as [L|L].
    - rewrite (while_mono_Done _ _ _ _ H1 L) in H2. discriminate.
    - rewrite (while_mono_Panic _ _ _ H2 L) in H1. discriminate.
  Qed.

  Lemma while_Done_unique n m s x y :
    while n body s = Done x -> while m body s = Done y -> x = y.
  Proof.
    intros H1 H2. destruct (Nat.le_ge_cases n m) as [L|L].
    - rewrite (while_mono_Done _ _ _ _ H1 L) in H2. congruence.
    - rewrite (while_mono_Done _ _ _ _ H2 L) in H1. congruence.
  Qed.

  (* ---------- while: invariant and variant ---------- *)

  (* [Inv] holds on entry; one iteration from a state satisfying [Inv] does not panic, does not
     starve, and either goes on with a state that satisfies [Inv] again and has a strictly
     smaller measure, or leaves the loop establishing [Qb] (break / condition false) or [Qr]
     (return).  Then any fuel above the measure is enough, the loop does not panic, and the way
     it is left satisfies the postcondition.  [Inv], [Qb], [Qr] are arbitrary predicates: they
     may mention the initial state and the function's arguments (two cursors i, j over two
     strings: measure (len a - i) + (len b - j)). *)
  Variable Inv : St -> Prop.
  Variable m : St -> nat.
  Variable Qb : St -> Prop.
  Variable Qr : R -> Prop.

  Definition step_ok (s : St) : Prop :=
    match body s with
    | Done (Next s') => Inv s' /\ (m s' < m s)%nat
    | Done (Break s') => Qb s'
    | Done (Ret r) => Qr r
    | Panic => False
    | OutOfFuel => False
    end.

  Definition exit_ok (x : res (exit St R)) : Prop :=
    match x with
    | Done (Fell s') => Qb s'
    | Done (Returned r) => Qr r
    | Panic => False
    | OutOfFuel => False
    end.

  Hypothesis body_ok : forall s, Inv s -> step_ok s.

  Theorem while_rule_fuel : forall fuel s, Inv s -> (m s < fuel)%nat -> exit_ok (while fuel body s).
  Proof.
    induction fuel as [|fuel IH]; intros s HI L; [lia|].
    cbn [while]. pose proof (body_ok s HI) as B. unfold step_ok in B.
    destruct (body s) as [[s'|s'|r]| |]; cbn [exit_ok]; try exact B.
    destruct B as [HI' L']. apply IH; [exact HI' | lia].
  Qed.

  Theorem while_rule : forall s, Inv s -> exit_ok (while (S (m s)) body s).
  Proof. intros s HI. apply while_rule_fuel; [exact HI | lia]. Qed.

  (* the same as an existence statement *)
  Corollary while_rule_ex : forall fuel s, Inv s -> (m s < fuel)%nat ->
    exists x, while fuel body s = Done x /\
              match x with Fell s' => Qb s' | Returned r => Qr r end.
  Proof.
    intros fuel s HI L. pose proof (while_rule_fuel fuel s HI L) as H.
    destruct (while fuel body s) as [x| |]; cbn in H; try contradiction.
    exists x. split; [reflexivity | exact H].
  Qed.
End While.

(* extensionality in the body (generated bodies are closures over the arguments) *)
Lemma while_ext {St R} (b1 b2 : St -> res (step St R)) :
  (forall s, b1 s = b2 s) -> forall fuel s, while fuel b1 s = while fuel b2 s.
Proof.
  intros E. induction fuel as [|fuel IH]; intros s; [reflexivity|].
  cbn [while]. rewrite E. destruct (b2 s) as [[s'|s'|r]| |]; try reflexivity. apply IH.
Qed.

(* a scanner: a loop over one cursor that advances while a test on the byte under the cursor
   holds.  Stated on the suffix view: the cursor i stands for skipn i s. *)
Lemma len_skipn_Z {A} (s : list A) i :
  0 <= i <= len s -> len (skipn (Z.to_nat i) s) = len s - i.
Proof. intros H. rewrite len_skipn. unfold len in *. lia. Qed.
