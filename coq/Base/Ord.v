(* Base/Ord.v — total preorders given by three-way comparison functions, and the
   combinators every Compare in the library is built from, each with its
   preservation lemma. *)
From Coq Require Import List NArith ZArith Bool Lia.
Import ListNotations.


Record TotalPreorder {A} (cmp : A -> A -> comparison) : Prop := {
  tp_refl : forall a, cmp a a = Eq;
  tp_anti : forall a b, cmp b a = CompOpp (cmp a b);
  tp_trans : forall a b c x, cmp a b = x -> cmp b c = x -> cmp a c = x;
  tp_eq_l : forall a b c, cmp a b = Eq -> cmp a c = cmp b c
}.

Arguments tp_refl {A cmp} _ a.
Arguments tp_anti {A cmp} _ a b.
Arguments tp_trans {A cmp} _ a b c {x} _ _.
Arguments tp_eq_l {A cmp} _ a b c _.

Definition le_c (c : comparison) : Prop := c <> Gt.
Definition lt_c (c : comparison) : Prop := c = Lt.

Section Derived.
  Variable A : Type.
  Variable cmp : A -> A -> comparison.
  Hypothesis TP : TotalPreorder cmp.

  Lemma tp_eq_r a b c : cmp a b = Eq -> cmp c a = cmp c b.
  Proof.
    intros H. rewrite (tp_anti TP a c), (tp_anti TP b c).
    f_equal. apply (tp_eq_l TP); assumption.
  Qed.

  Lemma tp_eq_sym a b : cmp a b = Eq -> cmp b a = Eq.
  Proof. intros H. rewrite (tp_anti TP a b), H. reflexivity. Qed.

  (* the property's wording: a<=b -> b<=c -> a<=c, strictly if either step is strict *)
  Lemma tp_le_trans a b c : le_c (cmp a b) -> le_c (cmp b c) -> le_c (cmp a c).
  Proof.
    unfold le_c. intros Hab Hbc.
    destruct (cmp a b) eqn:Eab; try congruence.
    - rewrite (tp_eq_l TP a b c Eab). assumption.
    - destruct (cmp b c) eqn:Ebc; try congruence.
      + rewrite <- (tp_eq_r b c a Ebc). rewrite Eab. discriminate.
      + rewrite (tp_trans TP a b c Eab Ebc). discriminate.
  Qed.

  Lemma tp_lt_trans a b c :
    le_c (cmp a b) -> le_c (cmp b c) ->
    (lt_c (cmp a b) \/ lt_c (cmp b c)) -> lt_c (cmp a c).
  Proof.
    unfold le_c, lt_c. intros Hab Hbc Hs.
    destruct (cmp a b) eqn:Eab; try congruence.
    - rewrite (tp_eq_l TP a b c Eab). destruct Hs; congruence.
    - destruct (cmp b c) eqn:Ebc; try congruence.
      + rewrite <- (tp_eq_r b c a Ebc). assumption.
      + apply (tp_trans TP a b c Eab Ebc).
  Qed.

  Lemma tp_gt_lt a b : cmp a b = Gt <-> cmp b a = Lt.
  Proof. rewrite (tp_anti TP a b). destruct (cmp a b); simpl; split; congruence. Qed.
End Derived.
Arguments tp_eq_r {A cmp} TP a b c _.
Arguments tp_eq_sym {A cmp} TP a b _.
Arguments tp_le_trans {A cmp} TP a b c _ _.
Arguments tp_lt_trans {A cmp} TP a b c _ _ _.
Arguments tp_gt_lt {A cmp} TP a b.

(* ---------- base instances ---------- *)

Lemma TP_Z : TotalPreorder Z.compare.
Proof.
  constructor.
  - apply Z.compare_refl.
  - intros a b. apply Z.compare_antisym.
  - intros a b c x H1 H2. destruct x.
    + apply Z.compare_eq in H1, H2. subst. apply Z.compare_refl.
    + rewrite Z.compare_lt_iff in *. lia.
    + rewrite Z.compare_gt_iff in *. lia.
  - intros a b c H. apply Z.compare_eq in H. subst. reflexivity.
Qed.

Lemma TP_N : TotalPreorder N.compare.
Proof.
  constructor.
  - apply N.compare_refl.
  - intros a b. apply N.compare_antisym.
  - intros a b c x H1 H2. destruct x.
    + apply N.compare_eq in H1, H2. subst. apply N.compare_refl.
    + rewrite N.compare_lt_iff in *. lia.
    + rewrite N.compare_gt_iff in *. lia.
  - intros a b c H. apply N.compare_eq in H. subst. reflexivity.
Qed.

Lemma TP_nat : TotalPreorder Nat.compare.
Proof.
  constructor.
  - apply Nat.compare_refl.
  - intros a b. apply Nat.compare_antisym.
  - intros a b c x H1 H2. destruct x.
    + apply Nat.compare_eq in H1, H2. subst. apply Nat.compare_refl.
    + rewrite Nat.compare_lt_iff in *. lia.
    + rewrite Nat.compare_gt_iff in *. lia.
  - intros a b c H. apply Nat.compare_eq in H. subst. reflexivity.
Qed.

Definition bool_cmp (a b : bool) : comparison :=
  match a, b with
  | false, true => Lt
  | true, false => Gt
  | _, _ => Eq
  end.
Lemma TP_bool : TotalPreorder bool_cmp.
Proof.
  constructor.
  - intros []; reflexivity.
  - intros [] []; reflexivity.
  - intros [] [] [] x; simpl; congruence.
  - intros [] [] []; simpl; congruence.
Qed.

(* the trivial preorder *)
Definition triv_cmp {A} (_ _ : A) : comparison := Eq.
Lemma TP_triv A : TotalPreorder (@triv_cmp A).
Proof. constructor; unfold triv_cmp; intros; subst; reflexivity. Qed.

(* ---------- compare by key ---------- *)

Definition cmp_on {A B} (f : A -> B) (cmp : B -> B -> comparison) (x y : A) : comparison :=
  cmp (f x) (f y).

Lemma TP_on A B (f : A -> B) cmp : TotalPreorder cmp -> TotalPreorder (cmp_on f cmp).
Proof.
  intros TP. unfold cmp_on. constructor; intros.
  - apply (tp_refl TP).
  - apply (tp_anti TP).
  - eapply (tp_trans TP); eassumption.
  - apply (tp_eq_l TP); assumption.
Qed.

(* ---------- "if c != 0 return c": first non-Eq ---------- *)

Definition thenc (c1 c2 : comparison) : comparison :=
  match c1 with Eq => c2 | _ => c1 end.

Definition lexc {A} (c1 c2 : A -> A -> comparison) (x y : A) : comparison :=
  thenc (c1 x y) (c2 x y).

Lemma TP_lexc A (c1 c2 : A -> A -> comparison) :
  TotalPreorder c1 -> TotalPreorder c2 -> TotalPreorder (lexc c1 c2).
Proof.
  intros T1 T2. unfold lexc, thenc. constructor.
  - intros a. rewrite (tp_refl T1). apply (tp_refl T2).
  - intros a b. rewrite (tp_anti T1 a b), (tp_anti T2 a b).
    destruct (c1 a b); reflexivity.
  - intros a b c x Hab Hbc.
    destruct (c1 a b) eqn:E1.
    + rewrite (tp_eq_l T1 a b c E1).
      destruct (c1 b c) eqn:E2.
      * eapply (tp_trans T2); eassumption.
      * assumption.
      * assumption.
    + destruct (c1 b c) eqn:E2.
      * rewrite <- (tp_eq_r T1 b c a E2). rewrite E1. assumption.
      * rewrite (tp_trans T1 a b c E1 E2). assumption.
      * congruence.
    + destruct (c1 b c) eqn:E2.
      * rewrite <- (tp_eq_r T1 b c a E2). rewrite E1. assumption.
      * congruence.
      * rewrite (tp_trans T1 a b c E1 E2). assumption.
  - intros a b c Hab.
    destruct (c1 a b) eqn:E1; try discriminate.
    rewrite (tp_eq_l T1 a b c E1).
    rewrite (tp_eq_l T2 a b c Hab). reflexivity.
Qed.

(* pairs *)
Definition lex2 {A B} (ca : A -> A -> comparison) (cb : B -> B -> comparison)
  (x y : A * B) : comparison :=
  thenc (ca (fst x) (fst y)) (cb (snd x) (snd y)).

Lemma TP_lex2 A B (ca : A -> A -> comparison) (cb : B -> B -> comparison) :
  TotalPreorder ca -> TotalPreorder cb -> TotalPreorder (lex2 ca cb).
Proof.
  intros Ta Tb.
  change (lex2 ca cb) with (lexc (cmp_on fst ca) (cmp_on (@snd A B) cb)).
  apply TP_lexc; apply TP_on; assumption.
Qed.

(* ---------- options ---------- *)

(* None is smallest *)
Definition opt_first {A} (cmp : A -> A -> comparison) (x y : option A) : comparison :=
  match x, y with
  | None, None => Eq
  | None, Some _ => Lt
  | Some _, None => Gt
  | Some a, Some b => cmp a b
  end.
(* None is greatest (no pre-release = release) *)
Definition opt_last {A} (cmp : A -> A -> comparison) (x y : option A) : comparison :=
  match x, y with
  | None, None => Eq
  | None, Some _ => Gt
  | Some _, None => Lt
  | Some a, Some b => cmp a b
  end.

Lemma TP_opt_first A (cmp : A -> A -> comparison) :
  TotalPreorder cmp -> TotalPreorder (opt_first cmp).
Proof.
  intros T. constructor.
  - intros [a|]; simpl; [apply (tp_refl T)|reflexivity].
  - intros [a|] [b|]; simpl; try reflexivity. apply (tp_anti T).
  - intros [a|] [b|] [c|] x; simpl; try congruence. apply (tp_trans T).
  - intros [a|] [b|] [c|]; simpl; try congruence. apply (tp_eq_l T).
Qed.

Lemma TP_opt_last A (cmp : A -> A -> comparison) :
  TotalPreorder cmp -> TotalPreorder (opt_last cmp).
Proof.
  intros T. constructor.
  - intros [a|]; simpl; [apply (tp_refl T)|reflexivity].
  - intros [a|] [b|]; simpl; try reflexivity. apply (tp_anti T).
  - intros [a|] [b|] [c|] x; simpl; try congruence. apply (tp_trans T).
  - intros [a|] [b|] [c|]; simpl; try congruence. apply (tp_eq_l T).
Qed.

(* ---------- lists ---------- *)

(* lexicographic, a proper prefix is smaller ("shorter first") *)
Fixpoint lex_short {A} (cmp : A -> A -> comparison) (l1 l2 : list A) : comparison :=
  match l1, l2 with
  | [], [] => Eq
  | [], _ :: _ => Lt
  | _ :: _, [] => Gt
  | x :: l1', y :: l2' => thenc (cmp x y) (lex_short cmp l1' l2')
  end.

(* lexicographic, a proper prefix is greater ("longer first") *)
Fixpoint lex_long {A} (cmp : A -> A -> comparison) (l1 l2 : list A) : comparison :=
  match l1, l2 with
  | [], [] => Eq
  | [], _ :: _ => Gt
  | _ :: _, [] => Lt
  | x :: l1', y :: l2' => thenc (cmp x y) (lex_long cmp l1' l2')
  end.

(* lexicographic with the shorter list padded by [pad] *)
Fixpoint lex_pad_l {A} (pad : A) (cmp : A -> A -> comparison) (l2 : list A) : comparison :=
  match l2 with
  | [] => Eq
  | y :: l2' => thenc (cmp pad y) (lex_pad_l pad cmp l2')
  end.
Fixpoint lex_pad {A} (pad : A) (cmp : A -> A -> comparison) (l1 l2 : list A) {struct l1}
  : comparison :=
  match l1 with
  | [] => lex_pad_l pad cmp l2
  | x :: l1' =>
      match l2 with
      | [] => thenc (cmp x pad) (lex_pad pad cmp l1' [])
      | y :: l2' => thenc (cmp x y) (lex_pad pad cmp l1' l2')
      end
  end.

Section ListOrders.
  Variable A : Type.
  Variable cmp : A -> A -> comparison.
  Hypothesis T : TotalPreorder cmp.

  Lemma TP_lex_short : TotalPreorder (lex_short cmp).
  Proof.
    constructor.
    - induction a as [|x a IH]; simpl; [reflexivity|].
      rewrite (tp_refl T). exact IH.
    - induction a as [|x a IH]; intros [|y b]; simpl; try reflexivity.
      rewrite (tp_anti T x y), (IH b). destruct (cmp x y); reflexivity.
    - induction a as [|x a IH]; intros [|y b] [|z c] r; simpl; try congruence.
      intros Hab Hbc. unfold thenc in *.
      destruct (cmp x y) eqn:E1.
      + rewrite (tp_eq_l T x y z E1).
        destruct (cmp y z) eqn:E2; try assumption.
        eapply IH; eassumption.
      + destruct (cmp y z) eqn:E2.
        * rewrite <- (tp_eq_r T y z x E2). rewrite E1. assumption.
        * rewrite (tp_trans T x y z E1 E2). assumption.
        * congruence.
      + destruct (cmp y z) eqn:E2.
        * rewrite <- (tp_eq_r T y z x E2). rewrite E1. assumption.
        * congruence.
        * rewrite (tp_trans T x y z E1 E2). assumption.
    - induction a as [|x a IH]; intros [|y b] [|z c]; simpl; try congruence.
      unfold thenc. intros Hab.
      destruct (cmp x y) eqn:E1; try discriminate.
      rewrite (tp_eq_l T x y z E1). rewrite (IH b c Hab). reflexivity.
  Qed.

  Lemma TP_lex_long : TotalPreorder (lex_long cmp).
  Proof.
    constructor.
    - induction a as [|x a IH]; simpl; [reflexivity|].
      rewrite (tp_refl T). exact IH.
    - induction a as [|x a IH]; intros [|y b]; simpl; try reflexivity.
      rewrite (tp_anti T x y), (IH b). destruct (cmp x y); reflexivity.
    - induction a as [|x a IH]; intros [|y b] [|z c] r; simpl; try congruence.
      intros Hab Hbc. unfold thenc in *.
      destruct (cmp x y) eqn:E1.
      + rewrite (tp_eq_l T x y z E1).
        destruct (cmp y z) eqn:E2; try assumption.
        eapply IH; eassumption.
      + destruct (cmp y z) eqn:E2.
        * rewrite <- (tp_eq_r T y z x E2). rewrite E1. assumption.
        * rewrite (tp_trans T x y z E1 E2). assumption.
        * congruence.
      + destruct (cmp y z) eqn:E2.
        * rewrite <- (tp_eq_r T y z x E2). rewrite E1. assumption.
        * congruence.
        * rewrite (tp_trans T x y z E1 E2). assumption.
    - induction a as [|x a IH]; intros [|y b] [|z c]; simpl; try congruence.
      unfold thenc. intros Hab.
      destruct (cmp x y) eqn:E1; try discriminate.
      rewrite (tp_eq_l T x y z E1). rewrite (IH b c Hab). reflexivity.
  Qed.

  (* padded comparison = lex_short on streams padded to a common length *)
  Variable pad : A.

  Fixpoint pad_to (n : nat) (l : list A) : list A :=
    match n, l with
    | O, _ => l
    | S k, [] => pad :: pad_to k []
    | S k, x :: l' => x :: pad_to k l'
    end.

  Lemma pad_to_length n l : length (pad_to n l) = Nat.max n (length l).
  Proof.
    revert l. induction n as [|n IH]; intros [|x l]; simpl; auto.
    - rewrite IH. simpl. lia.
  Qed.

  Lemma lex_pad_pad_to n l1 l2 :
    length l1 <= n -> length l2 <= n ->
    lex_pad pad cmp l1 l2 = lex_short cmp (pad_to n l1) (pad_to n l2).
  Proof.
    revert l1 l2. induction n as [|n IH]; intros l1 l2 H1 H2.
    - destruct l1; destruct l2; simpl in *; try lia. reflexivity.
    - destruct l1 as [|x l1]; destruct l2 as [|y l2]; simpl in *.
      + rewrite (tp_refl T). simpl. rewrite <- (IH [] []); simpl; auto; lia.
      + rewrite <- (IH [] l2); simpl; auto; lia.
      + rewrite <- (IH l1 []); simpl; auto; lia.
      + rewrite <- (IH l1 l2); auto; lia.
  Qed.

  Lemma TP_lex_pad : TotalPreorder (lex_pad pad cmp).
  Proof.
    pose proof TP_lex_short as TS.
    constructor.
    - intros a. rewrite (lex_pad_pad_to (length a) a a); auto. apply (tp_refl TS).
    - intros a b.
      set (n := Nat.max (length a) (length b)).
      rewrite (lex_pad_pad_to n b a), (lex_pad_pad_to n a b); try lia.
      apply (tp_anti TS).
    - intros a b c x.
      set (n := Nat.max (length a) (Nat.max (length b) (length c))).
      rewrite (lex_pad_pad_to n a b), (lex_pad_pad_to n b c), (lex_pad_pad_to n a c); try lia.
      apply (tp_trans TS).
    - intros a b c.
      set (n := Nat.max (length a) (Nat.max (length b) (length c))).
      rewrite (lex_pad_pad_to n a b), (lex_pad_pad_to n b c), (lex_pad_pad_to n a c); try lia.
      apply (tp_eq_l TS).
  Qed.
End ListOrders.

(* extensionality: a comparison equal pointwise to a total preorder is one *)
Lemma TP_ext A (c1 c2 : A -> A -> comparison) :
  (forall a b, c1 a b = c2 a b) -> TotalPreorder c2 -> TotalPreorder c1.
Proof.
  intros E T. constructor; intros; repeat rewrite E in *.
  - apply (tp_refl T).
  - apply (tp_anti T).
  - eapply (tp_trans T); eassumption.
  - apply (tp_eq_l T); assumption.
Qed.

(* restriction to a subset given by an invariant: laws on well-formed values *)
Record TotalPreorderOn {A} (P : A -> Prop) (cmp : A -> A -> comparison) : Prop := {
  tpo_refl : forall a, P a -> cmp a a = Eq;
  tpo_anti : forall a b, P a -> P b -> cmp b a = CompOpp (cmp a b);
  tpo_trans : forall a b c x, P a -> P b -> P c -> cmp a b = x -> cmp b c = x -> cmp a c = x;
  tpo_eq_l : forall a b c, P a -> P b -> P c -> cmp a b = Eq -> cmp a c = cmp b c
}.

Arguments tpo_refl {A P cmp} _ a _.
Arguments tpo_anti {A P cmp} _ a b _ _.
Arguments tpo_trans {A P cmp} _ a b c {x} _ _ _ _ _.
Arguments tpo_eq_l {A P cmp} _ a b c _ _ _ _.

Lemma TPO_of_TP A (P : A -> Prop) cmp : TotalPreorder cmp -> TotalPreorderOn P cmp.
Proof.
  intros T. constructor; intros.
  - apply (tp_refl T).
  - apply (tp_anti T).
  - eapply (tp_trans T); eassumption.
  - apply (tp_eq_l T); assumption.
Qed.

Lemma TPO_ext A (P : A -> Prop) (c1 c2 : A -> A -> comparison) :
  (forall a b, P a -> P b -> c1 a b = c2 a b) -> TotalPreorderOn P c2 -> TotalPreorderOn P c1.
Proof.
  intros E T. constructor.
  - intros a Pa. rewrite E by assumption. apply (tpo_refl T); assumption.
  - intros a b Pa Pb. rewrite !E by assumption. apply (tpo_anti T); assumption.
  - intros a b c x Pa Pb Pc H1 H2. rewrite E in H1, H2 by assumption.
    rewrite E by assumption. apply (tpo_trans T a b c); assumption.
  - intros a b c Pa Pb Pc H1. rewrite E in H1 by assumption.
    rewrite !E by assumption. apply (tpo_eq_l T); assumption.
Qed.

(* the user-facing statement of C01 for a comparison on parsed values *)
Definition preorder_laws {A} (cmp : A -> A -> comparison) (a b c : A) : Prop :=
  cmp a a = Eq /\
  cmp b a = CompOpp (cmp a b) /\
  (le_c (cmp a b) -> le_c (cmp b c) -> le_c (cmp a c)) /\
  (le_c (cmp a b) -> le_c (cmp b c) -> (lt_c (cmp a b) \/ lt_c (cmp b c)) -> lt_c (cmp a c)) /\
  (cmp a b = Eq -> cmp a c = cmp b c).

Lemma TP_laws A (cmp : A -> A -> comparison) :
  TotalPreorder cmp -> forall a b c, preorder_laws cmp a b c.
Proof.
  intros T a b c. unfold preorder_laws. repeat split.
  - apply (tp_refl T).
  - apply (tp_anti T).
  - apply (tp_le_trans T).
  - apply (tp_lt_trans T).
  - apply (tp_eq_l T).
Qed.
