(* Base/Sorting.v — facts about sorting with a three-way comparison that is a total
   preorder: the model's insertion sort [isort] (Vers/Model.v) returns a sorted permutation,
   and — the fact that makes an UNSTABLE sort such as Go's slices.SortFunc acceptable —
   the sequence of equivalence classes of ANY sorted permutation of a list is determined by
   the multiset of its elements ([sorted_perm_classes_unique]).

   Everything is proved first for a comparison that obeys the laws on a subset [P]
   ([TotalPreorderOn P cmp], all elements in [P]); the unrestricted [TotalPreorder]
   versions are corollaries with [P := fun _ => True]. *)
From Coq Require Import List Permutation Sorted Lia.
From Verif.Base Require Import Ord.
From Verif.Vers Require Import Model.
Import ListNotations.

(* x <= y and x ~ y for a three-way comparison *)
Definition cle {A} (cmp : A -> A -> comparison) (x y : A) : Prop := cmp x y <> Gt.
Definition ceq {A} (cmp : A -> A -> comparison) (x y : A) : Prop := cmp x y = Eq.

(* ---------- insertion sort is a permutation (no law needed) ---------- *)

Lemma insert_by_perm A (cmp : A -> A -> comparison) x l :
  Permutation (insert_by cmp x l) (x :: l).
Proof.
  induction l as [|y r IH]; cbn [insert_by].
  - apply Permutation_refl.
  - destruct (cmp x y).
    + apply perm_trans with (y :: x :: r); [apply perm_skip; exact IH | apply perm_swap].
    + apply Permutation_refl.
    + apply perm_trans with (y :: x :: r); [apply perm_skip; exact IH | apply perm_swap].
Qed.

Lemma isort_acc_perm A (cmp : A -> A -> comparison) l acc :
  Permutation (fold_left (fun acc x => insert_by cmp x acc) l acc) (l ++ acc).
Proof.
  revert acc. induction l as [|x l IH]; intros acc; cbn [fold_left app].
  - apply Permutation_refl.
  - eapply perm_trans; [apply IH|].
    eapply perm_trans; [apply Permutation_app_head; apply insert_by_perm|].
    apply Permutation_sym, Permutation_middle.
Qed.

Theorem isort_perm A (cmp : A -> A -> comparison) l : Permutation (isort cmp l) l.
Proof.
  unfold isort. eapply perm_trans; [apply isort_acc_perm|].
  rewrite app_nil_r. apply Permutation_refl.
Qed.
Print Assumptions isort_perm.

Lemma isort_length A (cmp : A -> A -> comparison) l : length (isort cmp l) = length l.
Proof. apply Permutation_length, isort_perm. Qed.

Lemma isort_in A (cmp : A -> A -> comparison) l x : In x (isort cmp l) <-> In x l.
Proof.
  split; apply Permutation_in; [|apply Permutation_sym]; apply isort_perm.
Qed.

Lemma isort_Forall A (cmp : A -> A -> comparison) (P : A -> Prop) l :
  Forall P l -> Forall P (isort cmp l).
Proof.
  intros H. eapply Permutation_Forall; [apply Permutation_sym, isort_perm | exact H].
Qed.

(* ---------- the order facts, on a subset P ---------- *)

Section On.
  Variable A : Type.
  Variable P : A -> Prop.
  Variable cmp : A -> A -> comparison.
  Hypothesis T : TotalPreorderOn P cmp.

  Local Notation le := (cle cmp).
  Local Notation eqv := (ceq cmp).

  Lemma cle_refl_on a : P a -> le a a.
  Proof. intros Pa. unfold cle. rewrite (tpo_refl T a Pa). discriminate. Qed.

  Lemma ceq_refl_on a : P a -> eqv a a.
  Proof. intros Pa. apply (tpo_refl T a Pa). Qed.

  Lemma ceq_sym_on a b : P a -> P b -> eqv a b -> eqv b a.
  Proof.
    unfold ceq. intros Pa Pb H. rewrite (tpo_anti T a b Pa Pb), H. reflexivity.
  Qed.

  Lemma ceq_trans_on a b c : P a -> P b -> P c -> eqv a b -> eqv b c -> eqv a c.
  Proof. unfold ceq. intros Pa Pb Pc H1 H2. apply (tpo_trans T a b c Pa Pb Pc H1 H2). Qed.

  Lemma ceq_cle_on a b : P a -> P b -> eqv a b -> le a b.
  Proof. unfold ceq, cle. intros _ _ H. rewrite H. discriminate. Qed.

  Lemma cle_trans_on a b c : P a -> P b -> P c -> le a b -> le b c -> le a c.
  Proof.
    unfold cle. intros Pa Pb Pc Hab Hbc.
    destruct (cmp a b) eqn:Eab; try congruence.
    - rewrite (tpo_eq_l T a b c Pa Pb Pc Eab). assumption.
    - destruct (cmp b c) eqn:Ebc; try congruence.
      + (* a < b ~ c *)
        assert (Ecb : cmp c b = Eq) by (rewrite (tpo_anti T b c Pb Pc), Ebc; reflexivity).
        pose proof (tpo_eq_l T c b a Pc Pb Pa Ecb) as H.
        rewrite (tpo_anti T a b Pa Pb), Eab in H. cbn in H.
        rewrite (tpo_anti T c a Pc Pa), H. cbn. discriminate.
      + rewrite (tpo_trans T a b c Pa Pb Pc Eab Ebc). discriminate.
  Qed.

  Lemma cle_antisym_on a b : P a -> P b -> le a b -> le b a -> eqv a b.
  Proof.
    unfold cle, ceq. intros Pa Pb H1 H2. rewrite (tpo_anti T a b Pa Pb) in H2.
    destruct (cmp a b); cbn in H2; congruence.
  Qed.

  (* the two "else" branches of insert_by: not (x < y) means y <= x *)
  Lemma not_lt_cle_on x y : P x -> P y -> cmp x y <> Lt -> le y x.
  Proof.
    unfold cle. intros Px Py H. rewrite (tpo_anti T x y Px Py).
    destruct (cmp x y); cbn; congruence.
  Qed.

  Lemma cle_total_on x y : P x -> P y -> le x y \/ le y x.
  Proof.
    intros Px Py. destruct (cmp x y) eqn:E.
    - left. unfold cle. congruence.
    - left. unfold cle. congruence.
    - right. apply not_lt_cle_on; congruence.
  Qed.

  Lemma cle_ceq_compat_on a a' b b' :
    P a -> P a' -> P b -> P b' -> eqv a a' -> eqv b b' -> le a b -> le a' b'.
  Proof.
    intros Pa Pa' Pb Pb' Ha Hb H.
    apply (cle_trans_on a' a b'); try assumption.
    - apply ceq_cle_on; try assumption. apply ceq_sym_on; assumption.
    - apply (cle_trans_on a b b'); try assumption. apply ceq_cle_on; assumption.
  Qed.

  (* ----- sortedness ----- *)

  Lemma Sorted_StronglySorted_on l :
    Forall P l -> Sorted le l -> StronglySorted le l.
  Proof.
    induction l as [|x l IH]; intros HP HS.
    - constructor.
    - inversion HP as [|? ? Px Pl]; subst. inversion HS as [|? ? HS' Hd]; subst.
      specialize (IH Pl HS'). constructor; [exact IH|].
      destruct l as [|y l]; [constructor|].
      inversion Hd as [|? ? Hxy]; subst.
      inversion Pl as [|? ? Py Pl']; subst.
      apply StronglySorted_inv in IH. destruct IH as [_ Hy].
      constructor; [exact Hxy|].
      rewrite Forall_forall in *. intros z Hz.
      apply (cle_trans_on x y z); auto.
  Qed.

  Lemma insert_by_sorted x l :
    P x -> Forall P l -> StronglySorted le l -> StronglySorted le (insert_by cmp x l).
  Proof.
    intros Px. induction l as [|y r IH]; intros HP HS; cbn [insert_by].
    - repeat constructor.
    - inversion HP as [|? ? Py Pr]; subst.
      pose proof (StronglySorted_inv HS) as [HSr Hy].
      destruct (cmp x y) eqn:E.
      + constructor; [apply IH; assumption|].
        eapply Permutation_Forall; [apply Permutation_sym, insert_by_perm|].
        constructor; [apply not_lt_cle_on; congruence | exact Hy].
      + constructor; [exact HS|].
        assert (Hxy : le x y) by (unfold cle; congruence).
        constructor; [exact Hxy|].
        rewrite Forall_forall in *. intros z Hz.
        apply (cle_trans_on x y z); auto.
      + constructor; [apply IH; assumption|].
        eapply Permutation_Forall; [apply Permutation_sym, insert_by_perm|].
        constructor; [apply not_lt_cle_on; congruence | exact Hy].
  Qed.

  Lemma isort_acc_sorted l acc :
    Forall P l -> Forall P acc -> StronglySorted le acc ->
    StronglySorted le (fold_left (fun acc x => insert_by cmp x acc) l acc).
  Proof.
    revert acc. induction l as [|x l IH]; intros acc Pl Pacc HS; cbn [fold_left].
    - exact HS.
    - inversion Pl as [|? ? Px Pl']; subst.
      apply IH; [exact Pl' | | apply insert_by_sorted; assumption].
      eapply Permutation_Forall; [apply Permutation_sym, insert_by_perm|].
      constructor; assumption.
  Qed.

  Theorem isort_strongly_sorted_on l : Forall P l -> StronglySorted le (isort cmp l).
  Proof.
    intros Pl. unfold isort. apply isort_acc_sorted; [exact Pl | constructor | constructor].
  Qed.

  (* every adjacent pair x, y of the output has cmp x y <> Gt *)
  Theorem isort_sorted_on l : Forall P l -> Sorted le (isort cmp l).
  Proof. intros Pl. apply StronglySorted_Sorted, isort_strongly_sorted_on, Pl. Qed.

  (* ----- pointwise equivalence ----- *)

  Lemma Forall2_ceq_refl_on l : Forall P l -> Forall2 eqv l l.
  Proof.
    induction 1 as [|x l Px _ IH]; constructor; [apply ceq_refl_on; exact Px | exact IH].
  Qed.

  Lemma Forall2_ceq_sym_on l1 l2 :
    Forall P l1 -> Forall P l2 -> Forall2 eqv l1 l2 -> Forall2 eqv l2 l1.
  Proof.
    intros P1 P2 H. revert P1 P2.
    induction H as [|x y l1 l2 Hxy _ IH]; intros P1 P2; [constructor|].
    inversion P1; inversion P2; subst.
    constructor; [apply ceq_sym_on; assumption | apply IH; assumption].
  Qed.

  Lemma Forall2_ceq_trans_on l1 l2 l3 :
    Forall P l1 -> Forall P l2 -> Forall P l3 ->
    Forall2 eqv l1 l2 -> Forall2 eqv l2 l3 -> Forall2 eqv l1 l3.
  Proof.
    intros P1 P2 P3 H12. revert l3 P1 P2 P3.
    induction H12 as [|x y l1 l2 Hxy _ IH]; intros l3 P1 P2 P3 H23.
    - inversion H23; subst. constructor.
    - inversion H23 as [|? z ? l3' Hyz H23']; subst.
      inversion P1; inversion P2; inversion P3; subst.
      constructor; [apply (ceq_trans_on x y z); assumption | apply IH; assumption].
  Qed.

  (* sortedness only depends on the classes *)
  Lemma Forall2_ceq_sorted_on l1 l2 :
    Forall P l1 -> Forall P l2 -> Forall2 eqv l1 l2 ->
    StronglySorted le l1 -> StronglySorted le l2.
  Proof.
    intros P1 P2 H. revert P1 P2.
    induction H as [|x y l1 l2 Hxy H12 IH]; intros P1 P2 HS; [constructor|].
    inversion P1 as [|? ? Px Pl1]; inversion P2 as [|? ? Py Pl2]; subst.
    apply StronglySorted_inv in HS. destruct HS as [HS Hx].
    constructor; [apply IH; assumption|].
    clear IH HS P1 P2. revert Pl1 Pl2 Hx.
    induction H12 as [|a b l1 l2 Hab _ IH2]; intros Pl1 Pl2 Hx; [constructor|].
    inversion Pl1; inversion Pl2; inversion Hx; subst.
    constructor; [|apply IH2; assumption].
    apply (cle_ceq_compat_on x y a b); assumption.
  Qed.

  (* ----- the class-sequence theorem ----- *)

  (* the head of a sorted list is below every member *)
  Lemma sorted_head_le x l z :
    P x -> StronglySorted le (x :: l) -> In z (x :: l) -> le x z.
  Proof.
    intros Px HS Hz. apply StronglySorted_inv in HS. destruct HS as [_ Hx].
    destruct Hz as [->|Hz]; [apply cle_refl_on; exact Px|].
    rewrite Forall_forall in Hx. apply Hx, Hz.
  Qed.

  Lemma perm_swap_middle (x y : A) a b :
    Permutation (y :: a ++ x :: b) (x :: a ++ y :: b).
  Proof.
    eapply perm_trans; [apply perm_skip, Permutation_sym, Permutation_middle|].
    eapply perm_trans; [apply perm_swap|].
    apply perm_skip, Permutation_middle.
  Qed.

  Theorem sorted_perm_classes_unique_on l1 l2 :
    Forall P l1 -> Permutation l1 l2 ->
    StronglySorted le l1 -> StronglySorted le l2 ->
    Forall2 eqv l1 l2.
  Proof.
    revert l2. induction l1 as [|x l1 IH]; intros l2 P1 Hp S1 S2.
    - apply Permutation_nil in Hp. subst. constructor.
    - assert (P2 : Forall P l2) by (eapply Permutation_Forall; eassumption).
      destruct l2 as [|y l2].
      { apply Permutation_sym, Permutation_nil in Hp. discriminate. }
      inversion P1 as [|? ? Px Pl1]; subst. inversion P2 as [|? ? Py Pl2]; subst.
      assert (Hx : In x (y :: l2)) by (eapply Permutation_in; [exact Hp | left; reflexivity]).
      assert (Hy : In y (x :: l1)).
      { eapply Permutation_in; [apply Permutation_sym; exact Hp | left; reflexivity]. }
      assert (Exy : eqv x y).
      { apply cle_antisym_on; try assumption.
        - apply (sorted_head_le x l1 y); assumption.
        - apply (sorted_head_le y l2 x); assumption. }
      pose proof (StronglySorted_inv S1) as [S1' _].
      pose proof (StronglySorted_inv S2) as [S2' _].
      destruct Hx as [Hx|Hx].
      + subst y. constructor; [exact Exy|].
        apply IH; try assumption. eapply Permutation_cons_inv; exact Hp.
      + apply in_split in Hx. destruct Hx as [a [b ->]].
        (* replace the later occurrence of x by y: still sorted, and a permutation of l1 *)
        assert (Pab : Forall P (a ++ y :: b)).
        { rewrite Forall_app in *. destruct Pl2 as [Pa Pxb]. split; [exact Pa|].
          inversion Pxb; subst. constructor; assumption. }
        assert (Hsw : Forall2 eqv (a ++ y :: b) (a ++ x :: b)).
        { apply Forall2_app.
          - apply Forall2_ceq_refl_on. rewrite Forall_app in Pl2. apply Pl2.
          - constructor; [apply ceq_sym_on; assumption|].
            apply Forall2_ceq_refl_on. rewrite Forall_app in Pl2. destruct Pl2 as [_ Pxb].
            inversion Pxb; assumption. }
        assert (Sab : StronglySorted le (a ++ y :: b)).
        { apply (Forall2_ceq_sorted_on (a ++ x :: b) (a ++ y :: b)); try assumption.
          apply Forall2_ceq_sym_on; assumption. }
        assert (Hp' : Permutation l1 (a ++ y :: b)).
        { apply Permutation_cons_inv with (a := x).
          eapply perm_trans; [exact Hp | apply perm_swap_middle]. }
        constructor; [exact Exy|].
        apply (Forall2_ceq_trans_on l1 (a ++ y :: b) (a ++ x :: b)); try assumption.
        apply IH; assumption.
  Qed.

  (* the same with the hypotheses stated on adjacent pairs only *)
  Corollary sorted_perm_classes_unique_adj_on l1 l2 :
    Forall P l1 -> Permutation l1 l2 -> Sorted le l1 -> Sorted le l2 -> Forall2 eqv l1 l2.
  Proof.
    intros P1 Hp S1 S2.
    assert (P2 : Forall P l2) by (eapply Permutation_Forall; eassumption).
    apply sorted_perm_classes_unique_on; try assumption;
      apply Sorted_StronglySorted_on; assumption.
  Qed.

  (* any correct sort (stable or not) agrees class-wise with the model's insertion sort *)
  Corollary any_sort_agrees_with_isort_on l out :
    Forall P l -> Permutation out l -> Sorted le out -> Forall2 eqv out (isort cmp l).
  Proof.
    intros Pl Hp HS.
    assert (Pout : Forall P out).
    { eapply Permutation_Forall; [apply Permutation_sym; exact Hp | exact Pl]. }
    apply sorted_perm_classes_unique_adj_on; try assumption.
    - eapply perm_trans; [exact Hp | apply Permutation_sym, isort_perm].
    - apply isort_sorted_on; exact Pl.
  Qed.

  (* the output classes do not depend on the input order *)
  Corollary isort_perm_classes_on l l' :
    Forall P l -> Permutation l l' -> Forall2 eqv (isort cmp l) (isort cmp l').
  Proof.
    intros Pl Hp.
    assert (Pl' : Forall P l') by (eapply Permutation_Forall; eassumption).
    apply sorted_perm_classes_unique_on.
    - apply isort_Forall; exact Pl.
    - eapply perm_trans; [apply isort_perm|].
      eapply perm_trans; [exact Hp | apply Permutation_sym, isort_perm].
    - apply isort_strongly_sorted_on; exact Pl.
    - apply isort_strongly_sorted_on; exact Pl'.
  Qed.
End On.

Print Assumptions isort_sorted_on.
Print Assumptions sorted_perm_classes_unique_on.
Print Assumptions isort_perm_classes_on.

(* ---------- unrestricted versions ---------- *)

Section Total.
  Variable A : Type.
  Variable cmp : A -> A -> comparison.
  Hypothesis T : TotalPreorder cmp.

  Let PT : A -> Prop := fun _ => True.
  Let TO : TotalPreorderOn PT cmp := TPO_of_TP A PT cmp T.
  Let allT (l : list A) : Forall PT l.
  Proof. apply Forall_forall. intros; exact I. Qed.

  Theorem isort_strongly_sorted l : StronglySorted (cle cmp) (isort cmp l).
  Proof. apply (isort_strongly_sorted_on A PT cmp TO), allT. Qed.

  Theorem isort_sorted l : Sorted (cle cmp) (isort cmp l).
  Proof. apply (isort_sorted_on A PT cmp TO), allT. Qed.

  Theorem sorted_perm_classes_unique l1 l2 :
    Permutation l1 l2 ->
    StronglySorted (cle cmp) l1 -> StronglySorted (cle cmp) l2 ->
    Forall2 (ceq cmp) l1 l2.
  Proof. apply (sorted_perm_classes_unique_on A PT cmp TO), allT. Qed.

  Theorem sorted_perm_classes_unique_adj l1 l2 :
    Permutation l1 l2 -> Sorted (cle cmp) l1 -> Sorted (cle cmp) l2 ->
    Forall2 (ceq cmp) l1 l2.
  Proof. apply (sorted_perm_classes_unique_adj_on A PT cmp TO), allT. Qed.

  Theorem any_sort_agrees_with_isort l out :
    Permutation out l -> Sorted (cle cmp) out -> Forall2 (ceq cmp) out (isort cmp l).
  Proof. apply (any_sort_agrees_with_isort_on A PT cmp TO), allT. Qed.

  Theorem isort_perm_classes l l' :
    Permutation l l' -> Forall2 (ceq cmp) (isort cmp l) (isort cmp l').
  Proof. apply (isort_perm_classes_on A PT cmp TO), allT. Qed.
End Total.

Print Assumptions isort_sorted.
Print Assumptions sorted_perm_classes_unique.
Print Assumptions any_sort_agrees_with_isort.
Print Assumptions isort_perm_classes.

(* spelled out with no auxiliary definitions, as in the property text *)
Theorem isort_spec A (cmp : A -> A -> comparison) :
  TotalPreorder cmp ->
  forall l l',
    Permutation l l' ->
    Permutation (isort cmp l) l /\
    Sorted (fun x y => cmp x y <> Gt) (isort cmp l) /\
    Forall2 (fun x y => cmp x y = Eq) (isort cmp l) (isort cmp l').
Proof.
  intros T l l' Hp. split; [apply isort_perm|]. split.
  - apply (isort_sorted A cmp T).
  - apply (isort_perm_classes A cmp T), Hp.
Qed.
Print Assumptions isort_spec.
