(* Cli/Facts.v — properties C15 (the CLI is a faithful front end for the library) and C07
   (sorting) of the CLI model [Cli/Model.v], over the GENERATED registry of Gen/Registry.v,
   for an arbitrary library [lib : bytes -> lib_ops] and an arbitrary [vers].

   Contents
     registry_wf            the generated tables: key = Name constant, keys = the ecosystem
                            names the library defines, no duplicates, "vers" is a spec and not
                            an ecosystem name
     lookup_registry_iff    a name dispatches to an ecosystem iff the library defines it, and
                            then to the ecosystem of that very name
     cli_compare_* cli_contains_* cli_sort_* cli_vers_*    the results, success and failure
     cli_*_arity, cli_unknown_*, cli_no_*                  malformed invocations fail
     cli_ok_inv             exit 0 ONLY in the success cases above (complete case analysis)
     cli_ok_single_line     the line written on success contains no newline
     cli_sort_correct       C07: permutation, sorted, class sequence independent of the
                            input order and equal to that of ANY correct (unstable) sort *)
From Coq Require Import List NArith ZArith Bool Permutation Sorted Lia.
From Verif.Base Require Import Bytes BytesFacts GoNum Ord Sorting.
From Verif.Vers Require Import Model.
From Verif.Cli Require Import Model.
From Verif.Gen Require Import Registry.
Import ListNotations.
Local Open Scope N_scope.

(* ====================================================================== *)
(* generic table facts                                                     *)
(* ====================================================================== *)

Lemma mem_In k l : mem k l = true <-> In k l.
Proof.
  unfold mem. rewrite existsb_exists. split.
  - intros [x [Hx Hb]]. apply beq_eq in Hb. subst. exact Hx.
  - intros H. exists k. split; [exact H | apply beq_refl].
Qed.

Lemma mem_false_not_In k l : mem k l = false <-> ~ In k l.
Proof.
  rewrite <- mem_In. destruct (mem k l); split; congruence.
Qed.

Lemma lookup_In {A} k (t : list (bytes * A)) v : lookup k t = Some v -> In (k, v) t.
Proof.
  induction t as [|[k' v'] t IH]; cbn [lookup]; [discriminate|].
  destruct (beq k k') eqn:E.
  - apply beq_eq in E. subst. intros H. inversion H; subst. left. reflexivity.
  - intros H. right. apply IH, H.
Qed.

Lemma lookup_in_keys {A} k (t : list (bytes * A)) :
  In k (map fst t) -> exists v, lookup k t = Some v.
Proof.
  induction t as [|[k' v'] t IH]; cbn [lookup map fst]; [intros []|].
  intros H. destruct (beq k k') eqn:E; [eexists; reflexivity|].
  destruct H as [H|H]; [subst; rewrite beq_refl in E; discriminate | apply IH, H].
Qed.

Lemma lookup_not_in_keys {A} k (t : list (bytes * A)) :
  ~ In k (map fst t) -> lookup k t = None.
Proof.
  intros H. destruct (lookup k t) eqn:E; [|reflexivity].
  exfalso. apply H. apply lookup_In in E. apply (in_map fst) in E. exact E.
Qed.

Fixpoint nodup_b (l : list bytes) : bool :=
  match l with
  | [] => true
  | x :: r => negb (mem x r) && nodup_b r
  end.

Lemma nodup_b_NoDup l : nodup_b l = true -> NoDup l.
Proof.
  induction l as [|x r IH]; cbn [nodup_b]; intros H; [constructor|].
  apply andb_true_iff in H. destruct H as [H1 H2].
  constructor; [|apply IH, H2].
  apply mem_false_not_In. destruct (mem x r); [discriminate | reflexivity].
Qed.

Lemma incl_b_incl l1 l2 : forallb (fun k => mem k l2) l1 = true -> List.incl l1 l2.
Proof.
  rewrite forallb_forall. intros H k Hk. apply mem_In, H, Hk.
Qed.

(* ====================================================================== *)
(* the generated registry                                                  *)
(* ====================================================================== *)

Definition registry_keys : list bytes := map fst cli_registry.
Definition library_names : list bytes := map snd ecosystem_names.

Record registry_wf_stmt : Prop := {
  (* every key (the <pkg>.Name selector) is the Name of the ecosystem it is wired to *)
  wf_key_is_value : forall k v, In (k, v) cli_registry -> k = v;
  (* the keys are exactly the Name constants the library declares *)
  wf_keys_complete : forall k, In k registry_keys <-> In k library_names;
  wf_keys_perm : Permutation registry_keys library_names;
  wf_keys_nodup : NoDup registry_keys;
  wf_names_nodup : NoDup library_names;
  wf_count : length cli_registry = 20%nat;
  (* every package directory is named like its Name constant *)
  wf_dir_is_name : forall d n, In (d, n) ecosystem_names -> d = n;
  (* the spec table *)
  wf_specs : cli_specs = [ $"vers" ];
  wf_vers_not_eco : ~ In $"vers" library_names;
  wf_specs_disjoint : forall k, In k registry_keys -> ~ In k cli_specs;
  (* the command switch *)
  wf_commands : cli_commands = [ $"compare"; $"sort"; $"contains" ];
  wf_vers_commands : cli_vers_commands = [ $"contains" ]
}.

Theorem registry_wf : registry_wf_stmt.
Proof.
  assert (Hkv : forall k v, In (k, v) cli_registry -> k = v).
  { assert (H : forallb (fun kv => beq (fst kv) (snd kv)) cli_registry = true)
      by (vm_compute; reflexivity).
    rewrite forallb_forall in H. intros k v Hin. apply beq_eq. apply (H (k, v) Hin). }
  assert (Hnd1 : NoDup registry_keys) by (apply nodup_b_NoDup; vm_compute; reflexivity).
  assert (Hnd2 : NoDup library_names) by (apply nodup_b_NoDup; vm_compute; reflexivity).
  assert (Hi1 : List.incl registry_keys library_names) by (apply incl_b_incl; vm_compute; reflexivity).
  assert (Hi2 : List.incl library_names registry_keys) by (apply incl_b_incl; vm_compute; reflexivity).
  assert (Hiff : forall k, In k registry_keys <-> In k library_names).
  { intros k. split; [apply Hi1 | apply Hi2]. }
  constructor.
  - exact Hkv.
  - exact Hiff.
  - apply NoDup_Permutation; assumption.
  - exact Hnd1.
  - exact Hnd2.
  - reflexivity.
  - assert (H : forallb (fun kv => beq (fst kv) (snd kv)) ecosystem_names = true)
      by (vm_compute; reflexivity).
    rewrite forallb_forall in H. intros d n Hin. apply beq_eq. apply (H (d, n) Hin).
  - reflexivity.
  - apply mem_false_not_In. vm_compute. reflexivity.
  - assert (H : forallb (fun k => negb (mem k cli_specs)) registry_keys = true)
      by (vm_compute; reflexivity).
    rewrite forallb_forall in H. intros k Hk. apply mem_false_not_In.
    specialize (H k Hk). destruct (mem k cli_specs); [discriminate | reflexivity].
  - reflexivity.
  - reflexivity.
Qed.
Print Assumptions registry_wf.

(* a name reaches an ecosystem iff the library defines that name, and it reaches THAT one *)
Theorem lookup_registry_iff name eco :
  lookup name cli_registry = Some eco <-> (eco = name /\ In name library_names).
Proof.
  pose proof registry_wf as W. split.
  - intros H. apply lookup_In in H. split.
    + symmetry. apply (wf_key_is_value W), H.
    + apply (wf_keys_complete W). apply (in_map fst) in H. exact H.
  - intros [-> H]. apply (wf_keys_complete W) in H.
    destruct (lookup_in_keys name cli_registry H) as [v Hv].
    rewrite Hv. f_equal. symmetry. apply (wf_key_is_value W). apply lookup_In, Hv.
Qed.
Print Assumptions lookup_registry_iff.

Lemma lookup_registry_not_spec name eco :
  lookup name cli_registry = Some eco -> mem name cli_specs = false.
Proof.
  intros H. apply mem_false_not_In. apply (wf_specs_disjoint registry_wf).
  apply lookup_In in H. apply (in_map fst) in H. exact H.
Qed.

(* ====================================================================== *)
(* one line: no newline byte                                               *)
(* ====================================================================== *)

Definition no_nl (s : bytes) : Prop := Forall (fun c => code c <> 10) s.
Definition no_nl_b (s : bytes) : bool := forallb (fun c => negb (code c =? 10)) s.

Lemma no_nl_b_ok s : no_nl_b s = true -> no_nl s.
Proof.
  unfold no_nl_b, no_nl. rewrite forallb_forall, Forall_forall. intros H c Hc.
  specialize (H c Hc). apply negb_true_iff, N.eqb_neq in H. exact H.
Qed.

Lemma no_nl_app a b : no_nl a -> no_nl b -> no_nl (a ++ b).
Proof. unfold no_nl. intros. apply Forall_app. split; assumption. Qed.

Lemma quote_c_no_nl c : no_nl (quote_c c).
Proof.
  apply no_nl_b_ok.
  destruct c as [[] [] [] [] [] [] [] []]; vm_compute; reflexivity.
Qed.

(* fmt's %q never emits a raw newline, whatever the string *)
Theorem quote_no_nl s : no_nl (quote s).
Proof.
  unfold quote. constructor; [vm_compute; discriminate|].
  apply no_nl_app; [|apply no_nl_b_ok; reflexivity].
  induction s as [|c s IH]; cbn [flat_map]; [constructor|].
  apply no_nl_app; [apply quote_c_no_nl | exact IH].
Qed.
Print Assumptions quote_no_nl.

Lemma join_no_nl sep l : no_nl sep -> Forall no_nl l -> no_nl (join sep l).
Proof.
  intros Hs. induction 1 as [|x l Hx Hl IH]; [constructor|].
  destruct l as [|y l]; [exact Hx|].
  change (join sep (x :: y :: l)) with (x ++ sep ++ join sep (y :: l)).
  apply no_nl_app; [exact Hx|]. apply no_nl_app; [exact Hs | exact IH].
Qed.

Lemma sort_line_no_nl (show : bytes -> bytes) l :
  no_nl (join $" " (map (fun a => quote (show a)) l)).
Proof.
  apply join_no_nl; [apply no_nl_b_ok; reflexivity|].
  apply Forall_forall. intros x Hx. apply in_map_iff in Hx.
  destruct Hx as [a [<- _]]. apply quote_no_nl.
Qed.

Lemma compare_line_cases c :
  dec_z (z_sign c) = $"-1" \/ dec_z (z_sign c) = $"0" \/ dec_z (z_sign c) = $"1".
Proof. destruct c; vm_compute; auto. Qed.

Lemma compare_line_no_nl c : no_nl (dec_z (z_sign c)).
Proof. apply no_nl_b_ok. destruct c; vm_compute; reflexivity. Qed.

Lemma bool_line_no_nl (b : bool) : no_nl (if b then $"true" else $"false").
Proof. apply no_nl_b_ok. destruct b; vm_compute; reflexivity. Qed.

(* ====================================================================== *)
(* diagnostics                                                             *)
(* ====================================================================== *)

(* "Error running command '<cmd>': invalid <kind> '<arg>': " — then the library's error text *)
Definition invalid_msg (cmd kind arg : bytes) : bytes :=
  $"Error running command '" ++ cmd ++ $"': invalid " ++ kind ++ $" '" ++ arg ++ $"': ".

Lemma err_prefix_invalid_version cmd a :
  err_prefix cmd ($"invalid version " ++ q1 a ++ $": ") = Fail (invalid_msg cmd $"version" a).
Proof.
  unfold err_prefix, invalid_msg, q1. f_equal. f_equal. f_equal.
  cbn. rewrite <- app_assoc. reflexivity.
Qed.

Lemma err_prefix_invalid_range cmd a :
  err_prefix cmd ($"invalid range " ++ q1 a ++ $": ") = Fail (invalid_msg cmd $"range" a).
Proof.
  unfold err_prefix, invalid_msg, q1. f_equal. f_equal. f_equal.
  cbn. rewrite <- app_assoc. reflexivity.
Qed.

(* the diagnostic names the offending argument *)
Lemma invalid_msg_names_arg cmd kind arg :
  exists pre post, invalid_msg cmd kind arg = pre ++ arg ++ post.
Proof.
  unfold invalid_msg.
  exists ($"Error running command '" ++ cmd ++ $"': invalid " ++ kind ++ $" '"), $"': ".
  rewrite <- !app_assoc. reflexivity.
Qed.

(* ====================================================================== *)
(* first_invalid                                                           *)
(* ====================================================================== *)

Lemma first_invalid_none L args :
  first_invalid L args = None <-> Forall (fun a => l_vok L a = true) args.
Proof.
  induction args as [|a r IH]; cbn [first_invalid].
  - split; [constructor | reflexivity].
  - destruct (l_vok L a) eqn:E.
    + rewrite IH. split; [intros H; constructor; assumption | intros H; inversion H; assumption].
    + split; [discriminate | intros H; inversion H; congruence].
Qed.

(* Some bad: bad is the FIRST rejected argument *)
Lemma first_invalid_some L args bad :
  first_invalid L args = Some bad <->
  exists pre post, args = pre ++ bad :: post /\
                   Forall (fun a => l_vok L a = true) pre /\ l_vok L bad = false.
Proof.
  induction args as [|a r IH]; cbn [first_invalid].
  - split; [discriminate|]. intros [pre [post [H _]]]. destruct pre; discriminate.
  - destruct (l_vok L a) eqn:E.
    + rewrite IH. split.
      * intros [pre [post [-> [Hp Hb]]]]. exists (a :: pre), post.
        split; [reflexivity|]. split; [constructor; assumption | exact Hb].
      * intros [pre [post [H [Hp Hb]]]]. destruct pre as [|p pre].
        -- cbn in H. inversion H; subst. congruence.
        -- cbn in H. inversion H; subst. inversion Hp; subst. exists pre, post. auto.
    + split.
      * intros H. inversion H; subst. exists [], r. auto.
      * intros [pre [post [H [Hp Hb]]]]. destruct pre as [|p pre].
        -- cbn in H. inversion H; subst. reflexivity.
        -- cbn in H. inversion H; subst. inversion Hp; subst. congruence.
Qed.

(* ====================================================================== *)
(* the CLI over the generated registry                                     *)
(* ====================================================================== *)

Section Cli.
  Variable lib : bytes -> lib_ops.
  Variable vers : bytes -> bytes -> vres.

  Definition CLI (args : list bytes) : outcome := run cli_specs cli_registry lib vers args.

  (* the line printed by a successful sort *)
  Definition sort_line (L : lib_ops) (out : list bytes) : bytes :=
    join $" " (map (fun a => quote (l_vshow L a)) out).

  Definition vok (L : lib_ops) (a : bytes) : Prop := l_vok L a = true.

  (* ----- dispatch ----- *)

  Lemma cli_dispatch name eco rest :
    lookup name cli_registry = Some eco ->
    CLI (name :: rest) = run_ecosystem (lib eco) rest.
  Proof.
    intros H. unfold CLI, run. rewrite (lookup_registry_not_spec name eco H), H. reflexivity.
  Qed.

  Lemma cli_dispatch_vers rest : CLI ($"vers" :: rest) = run_vers vers rest.
  Proof. reflexivity. Qed.

  Lemma run_eco_compare L rest : run_ecosystem L ($"compare" :: rest) = cmd_compare L rest.
  Proof. reflexivity. Qed.
  Lemma run_eco_sort L rest : run_ecosystem L ($"sort" :: rest) = cmd_sort L rest.
  Proof. reflexivity. Qed.
  Lemma run_eco_contains L rest : run_ecosystem L ($"contains" :: rest) = cmd_contains L rest.
  Proof. reflexivity. Qed.

  (* ----- compare ----- *)

  Theorem cli_compare_ok name eco a b :
    lookup name cli_registry = Some eco ->
    l_vok (lib eco) a = true -> l_vok (lib eco) b = true ->
    eco = name /\
    CLI [name; $"compare"; a; b] = Ok (dec_z (z_sign (l_vcmp (lib eco) a b))).
  Proof.
    intros H Ha Hb. split; [apply lookup_registry_iff in H; apply H|].
    rewrite (cli_dispatch name eco _ H), run_eco_compare. unfold cmd_compare.
    rewrite Ha, Hb. reflexivity.
  Qed.

  Theorem cli_compare_bad_first name eco a b :
    lookup name cli_registry = Some eco ->
    l_vok (lib eco) a = false ->
    CLI [name; $"compare"; a; b] = Fail (invalid_msg $"compare" $"version" a).
  Proof.
    intros H Ha. rewrite (cli_dispatch name eco _ H), run_eco_compare. unfold cmd_compare.
    rewrite Ha. cbn [negb]. apply err_prefix_invalid_version.
  Qed.

  Theorem cli_compare_bad_second name eco a b :
    lookup name cli_registry = Some eco ->
    l_vok (lib eco) a = true -> l_vok (lib eco) b = false ->
    CLI [name; $"compare"; a; b] = Fail (invalid_msg $"compare" $"version" b).
  Proof.
    intros H Ha Hb. rewrite (cli_dispatch name eco _ H), run_eco_compare. unfold cmd_compare.
    rewrite Ha, Hb. cbn [negb]. apply err_prefix_invalid_version.
  Qed.

  Theorem cli_compare_arity name eco rest :
    lookup name cli_registry = Some eco -> length rest <> 2%nat ->
    CLI (name :: $"compare" :: rest) =
    Fail $"Error running command 'compare': compare requires exactly 2 version arguments".
  Proof.
    intros H Hl. rewrite (cli_dispatch name eco _ H), run_eco_compare. unfold cmd_compare.
    destruct rest as [|a [|b [|c r]]]; try reflexivity. exfalso. apply Hl. reflexivity.
  Qed.

  (* ----- contains: range first, version second, both of the SAME ecosystem ----- *)

  Theorem cli_contains_ok name eco r v :
    lookup name cli_registry = Some eco ->
    l_rok (lib eco) r = true -> l_vok (lib eco) v = true ->
    eco = name /\
    CLI [name; $"contains"; r; v] =
    Ok (if l_rcontains (lib eco) r v then $"true" else $"false").
  Proof.
    intros H Hr Hv. split; [apply lookup_registry_iff in H; apply H|].
    rewrite (cli_dispatch name eco _ H), run_eco_contains. unfold cmd_contains.
    rewrite Hr, Hv. reflexivity.
  Qed.

  Theorem cli_contains_bad_range name eco r v :
    lookup name cli_registry = Some eco ->
    l_rok (lib eco) r = false ->
    CLI [name; $"contains"; r; v] = Fail (invalid_msg $"contains" $"range" r).
  Proof.
    intros H Hr. rewrite (cli_dispatch name eco _ H), run_eco_contains. unfold cmd_contains.
    rewrite Hr. cbn [negb]. apply err_prefix_invalid_range.
  Qed.

  Theorem cli_contains_bad_version name eco r v :
    lookup name cli_registry = Some eco ->
    l_rok (lib eco) r = true -> l_vok (lib eco) v = false ->
    CLI [name; $"contains"; r; v] = Fail (invalid_msg $"contains" $"version" v).
  Proof.
    intros H Hr Hv. rewrite (cli_dispatch name eco _ H), run_eco_contains. unfold cmd_contains.
    rewrite Hr, Hv. cbn [negb]. apply err_prefix_invalid_version.
  Qed.

  Theorem cli_contains_arity name eco rest :
    lookup name cli_registry = Some eco -> length rest <> 2%nat ->
    CLI (name :: $"contains" :: rest) =
    Fail $"Error running command 'contains': contains requires exactly 2 arguments: <version> <range>".
  Proof.
    intros H Hl. rewrite (cli_dispatch name eco _ H), run_eco_contains. unfold cmd_contains.
    destruct rest as [|a [|b [|c r]]]; try reflexivity. exfalso. apply Hl. reflexivity.
  Qed.

  (* ----- sort ----- *)

  Theorem cli_sort_ok name eco args :
    lookup name cli_registry = Some eco ->
    args <> [] -> Forall (vok (lib eco)) args ->
    eco = name /\
    CLI (name :: $"sort" :: args) = Ok (sort_line (lib eco) (isort (l_vcmp (lib eco)) args)).
  Proof.
    intros H Hne Hok. split; [apply lookup_registry_iff in H; apply H|].
    rewrite (cli_dispatch name eco _ H), run_eco_sort. unfold cmd_sort.
    apply first_invalid_none in Hok. rewrite Hok.
    destruct args; [congruence | reflexivity].
  Qed.

  (* any invalid argument: failure naming the FIRST invalid one; no (partial) result *)
  Theorem cli_sort_invalid name eco pre bad post :
    lookup name cli_registry = Some eco ->
    Forall (vok (lib eco)) pre -> l_vok (lib eco) bad = false ->
    CLI (name :: $"sort" :: pre ++ bad :: post) = Fail (invalid_msg $"sort" $"version" bad).
  Proof.
    intros H Hp Hb. rewrite (cli_dispatch name eco _ H), run_eco_sort. unfold cmd_sort.
    assert (Hf : first_invalid (lib eco) (pre ++ bad :: post) = Some bad).
    { apply first_invalid_some. exists pre, post. auto. }
    rewrite Hf. destruct (pre ++ bad :: post) eqn:E.
    - destruct pre; discriminate.
    - apply err_prefix_invalid_version.
  Qed.

  Theorem cli_sort_arity name eco :
    lookup name cli_registry = Some eco ->
    CLI [name; $"sort"] =
    Fail $"Error running command 'sort': sort requires at least 1 version argument".
  Proof. intros H. rewrite (cli_dispatch name eco _ H). reflexivity. Qed.

  (* a sort either fails or prints a result, never both: an invalid argument anywhere means Fail *)
  Corollary cli_sort_some_invalid_fails name eco args :
    lookup name cli_registry = Some eco ->
    ~ Forall (vok (lib eco)) args ->
    exists bad, In bad args /\ l_vok (lib eco) bad = false /\
                CLI (name :: $"sort" :: args) = Fail (invalid_msg $"sort" $"version" bad).
  Proof.
    intros H Hn. destruct (first_invalid (lib eco) args) as [bad|] eqn:E.
    - apply first_invalid_some in E. destruct E as [pre [post [-> [Hp Hb]]]].
      exists bad. split; [apply in_elt|]. split; [exact Hb|].
      apply (cli_sort_invalid name eco); assumption.
    - apply first_invalid_none in E. contradiction.
  Qed.

  (* C07 for the CLI *)
  Theorem cli_sort_correct name eco args :
    lookup name cli_registry = Some eco ->
    args <> [] -> Forall (vok (lib eco)) args ->
    let L := lib eco in
    let out := isort (l_vcmp L) args in
    (* the line shows [out], quoted, space separated, on one line *)
    CLI (name :: $"sort" :: args) = Ok (sort_line L out) /\
    no_nl (sort_line L out) /\
    (* exactly the inputs, as a multiset *)
    Permutation out args /\ length out = length args /\
    (* if Compare is a total preorder on the accepted versions: *)
    (TotalPreorderOn (vok L) (l_vcmp L) ->
       (* every adjacent pair is in non-decreasing order *)
       Sorted (cle (l_vcmp L)) out /\
       (* the class sequence is the same for every ordering of the inputs *)
       (forall args', Permutation args args' ->
          CLI (name :: $"sort" :: args') = Ok (sort_line L (isort (l_vcmp L) args')) /\
          Forall2 (ceq (l_vcmp L)) out (isort (l_vcmp L) args')) /\
       (* and it is the class sequence of ANY correctly sorted permutation of the inputs, so an
          unstable sort (slices.SortFunc beyond 12 elements) can differ only inside a class *)
       (forall out', Permutation out' args -> Sorted (cle (l_vcmp L)) out' ->
          Forall2 (ceq (l_vcmp L)) out' out)).
  Proof.
    intros H Hne Hok L out.
    destruct (cli_sort_ok name eco args H Hne Hok) as [_ Hrun].
    split; [exact Hrun|]. split; [apply sort_line_no_nl|].
    split; [apply isort_perm|]. split; [apply isort_length|].
    intros T. split; [apply (isort_sorted_on _ _ _ T); exact Hok|]. split.
    - intros args' Hp.
      assert (Hok' : Forall (vok (lib eco)) args') by (eapply Permutation_Forall; eassumption).
      assert (Hne' : args' <> []).
      { intros ->. apply Permutation_sym, Permutation_nil in Hp. contradiction. }
      split; [apply (cli_sort_ok name eco args' H Hne' Hok')|].
      apply (isort_perm_classes_on _ _ _ T); assumption.
    - intros out' Hp HS. apply (any_sort_agrees_with_isort_on _ _ _ T); assumption.
  Qed.

  (* ----- other malformed invocations ----- *)

  Theorem cli_unknown_command name eco cmd rest :
    lookup name cli_registry = Some eco ->
    ~ In cmd cli_commands ->
    CLI (name :: cmd :: rest) = Fail ($"Unknown " ++ l_name (lib eco) ++ $" command: " ++ cmd).
  Proof.
    intros H Hc. rewrite (cli_dispatch name eco _ H). unfold run_ecosystem.
    rewrite (wf_commands registry_wf) in Hc.
    destruct (beq cmd $"compare") eqn:E1.
    { apply beq_eq in E1. subst. exfalso. apply Hc. cbn. auto. }
    destruct (beq cmd $"sort") eqn:E2.
    { apply beq_eq in E2. subst. exfalso. apply Hc. cbn. auto. }
    destruct (beq cmd $"contains") eqn:E3.
    { apply beq_eq in E3. subst. exfalso. apply Hc. cbn. auto. }
    reflexivity.
  Qed.

  Theorem cli_no_command name eco :
    lookup name cli_registry = Some eco ->
    CLI [name] = Fail ($"No command specified for " ++ l_name (lib eco)).
  Proof. intros H. rewrite (cli_dispatch name eco _ H). reflexivity. Qed.

  Theorem cli_unknown_name name rest :
    name <> $"vers" -> ~ In name library_names ->
    CLI (name :: rest) = Fail ($"Unknown ecosystem: " ++ name).
  Proof.
    intros Hv Hn. unfold CLI, run.
    assert (mem name cli_specs = false) as ->.
    { apply mem_false_not_In. rewrite (wf_specs registry_wf). intros [E|[]]. congruence. }
    rewrite lookup_not_in_keys; [reflexivity|].
    intros Hk. apply Hn. apply (wf_keys_complete registry_wf). exact Hk.
  Qed.

  Theorem cli_no_args : CLI [] = Fail $"Usage: univers <ecosystem|spec> <command> [args]".
  Proof. reflexivity. Qed.

  (* ----- vers ----- *)

  Theorem cli_vers_contains r v :
    CLI [$"vers"; $"contains"; r; v] =
    match vers r v with
    | VTrue => Ok $"true"
    | VFalse => Ok $"false"
    | VErr => Fail $"Error running command 'vers contains': "
    end.
  Proof. reflexivity. Qed.

  Theorem cli_vers_arity rest :
    length rest <> 2%nat ->
    CLI ($"vers" :: $"contains" :: rest) =
    Fail $"Error running command 'vers contains': contains requires exactly 2 arguments: <vers-range> <version>".
  Proof.
    intros Hl. rewrite cli_dispatch_vers.
    destruct rest as [|a [|b [|c r]]]; try reflexivity. exfalso. apply Hl. reflexivity.
  Qed.

  Theorem cli_vers_unknown_command cmd rest :
    ~ In cmd cli_vers_commands ->
    CLI ($"vers" :: cmd :: rest) =
    Fail ($"Unknown vers command: " ++ cmd ++ $". Supported commands: contains").
  Proof.
    intros Hc. rewrite cli_dispatch_vers. unfold run_vers.
    destruct (beq cmd $"contains") eqn:E; [|reflexivity].
    apply beq_eq in E. subst. exfalso. apply Hc. left. reflexivity.
  Qed.

  Theorem cli_vers_no_command : CLI [$"vers"] = Fail $"Usage: univers vers <command> [args]".
  Proof. reflexivity. Qed.

  (* ----- exit status ----- *)

  Lemma exit_code_ok line : exit_code (Ok line) = 0%Z.
  Proof. reflexivity. Qed.
  Lemma exit_code_fail p : exit_code (Fail p) = 1%Z.
  Proof. reflexivity. Qed.
  Lemma exit_code_cases args : exit_code (CLI args) = 0%Z \/ exit_code (CLI args) = 1%Z.
  Proof. destruct (CLI args); auto. Qed.
  Lemma exit_code_zero_iff args : exit_code (CLI args) = 0%Z <-> exists line, CLI args = Ok line.
  Proof.
    destruct (CLI args) as [l|p]; cbn; split; intros H.
    - eexists; reflexivity.
    - reflexivity.
    - discriminate.
    - destruct H as [l H]. discriminate.
  Qed.

  (* ----- exit 0 ONLY in the success cases: complete inversion ----- *)

  Inductive success : list bytes -> bytes -> Prop :=
  | S_compare name eco a b :
      lookup name cli_registry = Some eco -> vok (lib eco) a -> vok (lib eco) b ->
      success [name; $"compare"; a; b] (dec_z (z_sign (l_vcmp (lib eco) a b)))
  | S_sort name eco args :
      lookup name cli_registry = Some eco -> args <> [] -> Forall (vok (lib eco)) args ->
      success (name :: $"sort" :: args) (sort_line (lib eco) (isort (l_vcmp (lib eco)) args))
  | S_contains name eco r v :
      lookup name cli_registry = Some eco -> l_rok (lib eco) r = true -> vok (lib eco) v ->
      success [name; $"contains"; r; v] (if l_rcontains (lib eco) r v then $"true" else $"false")
  | S_vers_true r v :
      vers r v = VTrue -> success [$"vers"; $"contains"; r; v] $"true"
  | S_vers_false r v :
      vers r v = VFalse -> success [$"vers"; $"contains"; r; v] $"false".

  Lemma run_ecosystem_ok_inv name eco rest line :
    lookup name cli_registry = Some eco ->
    run_ecosystem (lib eco) rest = Ok line -> success (name :: rest) line.
  Proof.
    intros Hl. destruct rest as [|cmd rest]; [discriminate|].
    unfold run_ecosystem.
    destruct (beq cmd $"compare") eqn:E1.
    { apply beq_eq in E1. subst cmd. unfold cmd_compare, err_prefix.
      destruct rest as [|a [|b [|c r]]]; try discriminate.
      destruct (l_vok (lib eco) a) eqn:Ea; cbn [negb]; [|discriminate].
      destruct (l_vok (lib eco) b) eqn:Eb; cbn [negb]; [|discriminate].
      intros H. inversion H; subst. apply (S_compare name eco a b); assumption. }
    destruct (beq cmd $"sort") eqn:E2.
    { apply beq_eq in E2. subst cmd. unfold cmd_sort, err_prefix.
      destruct rest as [|a r]; [discriminate|].
      destruct (first_invalid (lib eco) (a :: r)) eqn:Ef; [discriminate|].
      intros H. inversion H; subst. apply (S_sort name eco (a :: r)); try assumption.
      - discriminate.
      - apply first_invalid_none, Ef. }
    destruct (beq cmd $"contains") eqn:E3.
    { apply beq_eq in E3. subst cmd. unfold cmd_contains, err_prefix.
      destruct rest as [|r [|v [|c rr]]]; try discriminate.
      destruct (l_rok (lib eco) r) eqn:Er; cbn [negb]; [|discriminate].
      destruct (l_vok (lib eco) v) eqn:Ev; cbn [negb]; [|discriminate].
      intros H. inversion H; subst. apply (S_contains name eco r v); assumption. }
    discriminate.
  Qed.

  Theorem cli_ok_inv args line : CLI args = Ok line -> success args line.
  Proof.
    destruct args as [|name rest]; [discriminate|].
    unfold CLI, run.
    destruct (mem name cli_specs) eqn:Em.
    - apply mem_In in Em. rewrite (wf_specs registry_wf) in Em.
      destruct Em as [<-|[]].
      destruct rest as [|cmd rest]; [discriminate|]. unfold run_vers.
      destruct (beq cmd $"contains") eqn:E; [|discriminate].
      apply beq_eq in E. subst cmd.
      destruct rest as [|r [|v [|c rr]]]; try discriminate.
      destruct (vers r v) eqn:Ev; try discriminate; intros H; inversion H; subst.
      + apply S_vers_true, Ev.
      + apply S_vers_false, Ev.
    - destruct (lookup name cli_registry) as [eco|] eqn:El; [|discriminate].
      apply run_ecosystem_ok_inv, El.
  Qed.

  Theorem cli_ok_iff args line : CLI args = Ok line <-> success args line.
  Proof.
    split; [apply cli_ok_inv|].
    intros H. destruct H as [name eco a b Hl Ha Hb | name eco args Hl Hne Hok
                            | name eco r v Hl Hr Hv | r v Hv | r v Hv].
    - apply (cli_compare_ok name eco a b Hl Ha Hb).
    - apply (cli_sort_ok name eco args Hl Hne Hok).
    - apply (cli_contains_ok name eco r v Hl Hr Hv).
    - rewrite cli_vers_contains, Hv. reflexivity.
    - rewrite cli_vers_contains, Hv. reflexivity.
  Qed.

  (* on success exactly one line is written: the result contains no newline *)
  Theorem cli_ok_single_line args line : CLI args = Ok line -> no_nl line.
  Proof.
    intros H. apply cli_ok_inv in H. destruct H.
    - apply compare_line_no_nl.
    - apply sort_line_no_nl.
    - apply bool_line_no_nl.
    - apply no_nl_b_ok. reflexivity.
    - apply no_nl_b_ok. reflexivity.
  Qed.

  (* compare / contains / vers lines are one of five words *)
  Theorem cli_ok_line_words name cmd a b line :
    cmd <> $"sort" -> CLI [name; cmd; a; b] = Ok line ->
    In line [ $"-1"; $"0"; $"1"; $"true"; $"false" ].
  Proof.
    intros Hc H. apply cli_ok_inv in H. inversion H; subst.
    - destruct (compare_line_cases (l_vcmp (lib eco) a b)) as [E|[E|E]]; rewrite E; cbn; auto 10.
    - exfalso; apply Hc; reflexivity.
    - destruct (l_rcontains (lib eco) a b); cbn; auto 10.
    - cbn; auto 10.
    - cbn; auto 10.
  Qed.
End Cli.

Print Assumptions cli_compare_ok.
Print Assumptions cli_compare_bad_first.
Print Assumptions cli_compare_bad_second.
Print Assumptions cli_contains_ok.
Print Assumptions cli_contains_bad_range.
Print Assumptions cli_contains_bad_version.
Print Assumptions cli_sort_ok.
Print Assumptions cli_sort_invalid.
Print Assumptions cli_sort_correct.
Print Assumptions cli_unknown_command.
Print Assumptions cli_unknown_name.
Print Assumptions cli_vers_contains.
Print Assumptions cli_ok_iff.
Print Assumptions cli_ok_single_line.
Print Assumptions cli_ok_line_words.
