(* Cli/Model.v — model of cmd/cli.go and cmd/commands.go.  Definitions only.
   Parametric in the library: [lib name] gives the string-level operations of the ecosystem
   whose Name() is [name]; [vers] is vers.Contains.  A failing command prints a diagnostic
   whose beginning is fixed by cmd/ and whose tail is the library's error text; the model
   produces the fixed beginning only ([Fail prefix]). *)
From Verif.Base Require Import Bytes GoNum.
From Verif.Vers Require Import Model.
Local Open Scope N_scope.

Record lib_ops := {
  l_name : bytes;                               (* e.Name() *)
  l_vok : bytes -> bool;                        (* NewVersion accepts *)
  l_vshow : bytes -> bytes;                     (* String() of an accepted version text *)
  l_vcmp : bytes -> bytes -> comparison;        (* Compare *)
  l_rok : bytes -> bool;                        (* NewVersionRange accepts *)
  l_rcontains : bytes -> bytes -> bool          (* Contains, both accepted *)
}.

Inductive outcome :=
| Ok (line : bytes)            (* exit status 0, stdout = line ++ "\n" *)
| Fail (prefix : bytes).       (* exit status 1, stdout starts with prefix and ends with "\n" *)

(* ---------- fmt %q for ASCII ---------- *)

Definition hexdigit (n : N) : ascii :=
  if n <? 10 then chr (48 + n) else chr (87 + n).

Definition quote_c (c : ascii) : bytes :=
  let n := code c in
  if n =? 34 then $"\" ++ [c]
  else if n =? 92 then $"\\"
  else if n =? 7 then $"\a"
  else if n =? 8 then $"\b"
  else if n =? 9 then $"\t"
  else if n =? 10 then $"\n"
  else if n =? 11 then $"\v"
  else if n =? 12 then $"\f"
  else if n =? 13 then $"\r"
  else if (n <? 32) || (n =? 127) then $"\x" ++ [hexdigit (n / 16); hexdigit (n mod 16)]
  else [c].

Definition quote (s : bytes) : bytes :=
  """"%char :: flat_map quote_c s ++ [""""%char].

(* ---------- commands ---------- *)

Definition q1 (s : bytes) : bytes := $"'" ++ s ++ $"'".

Definition err_prefix (cmd : bytes) (rest : bytes) : outcome :=
  Fail ($"Error running command '" ++ cmd ++ $"': " ++ rest).

Definition cmd_compare (L : lib_ops) (args : list bytes) : outcome :=
  match args with
  | [a; b] =>
      if negb (l_vok L a) then err_prefix $"compare" ($"invalid version " ++ q1 a ++ $": ")
      else if negb (l_vok L b) then err_prefix $"compare" ($"invalid version " ++ q1 b ++ $": ")
      else Ok (dec_z (z_sign (l_vcmp L a b)))
  | _ => err_prefix $"compare" $"compare requires exactly 2 version arguments"
  end.

Fixpoint first_invalid (L : lib_ops) (args : list bytes) : option bytes :=
  match args with
  | [] => None
  | a :: r => if l_vok L a then first_invalid L r else Some a
  end.

Definition cmd_sort (L : lib_ops) (args : list bytes) : outcome :=
  match args with
  | [] => err_prefix $"sort" $"sort requires at least 1 version argument"
  | _ =>
      match first_invalid L args with
      | Some bad => err_prefix $"sort" ($"invalid version " ++ q1 bad ++ $": ")
      | None =>
          let sorted := isort (l_vcmp L) args in
          Ok (join $" " (map (fun a => quote (l_vshow L a)) sorted))
      end
  end.

Definition cmd_contains (L : lib_ops) (args : list bytes) : outcome :=
  match args with
  | [r; v] =>
      if negb (l_rok L r) then err_prefix $"contains" ($"invalid range " ++ q1 r ++ $": ")
      else if negb (l_vok L v) then err_prefix $"contains" ($"invalid version " ++ q1 v ++ $": ")
      else Ok (if l_rcontains L r v then $"true" else $"false")
  | _ => err_prefix $"contains" $"contains requires exactly 2 arguments: <version> <range>"
  end.

Definition run_ecosystem (L : lib_ops) (args : list bytes) : outcome :=
  match args with
  | [] => Fail ($"No command specified for " ++ l_name L)
  | cmd :: rest =>
      if beq cmd $"compare" then cmd_compare L rest
      else if beq cmd $"sort" then cmd_sort L rest
      else if beq cmd $"contains" then cmd_contains L rest
      else Fail ($"Unknown " ++ l_name L ++ $" command: " ++ cmd)
  end.

Definition run_vers (vers : bytes -> bytes -> vres) (args : list bytes) : outcome :=
  match args with
  | [] => Fail $"Usage: univers vers <command> [args]"
  | cmd :: rest =>
      if beq cmd $"contains" then
        match rest with
        | [r; v] =>
            match vers r v with
            | VTrue => Ok $"true"
            | VFalse => Ok $"false"
            | VErr => Fail $"Error running command 'vers contains': "
            end
        | _ => Fail $"Error running command 'vers contains': contains requires exactly 2 arguments: <vers-range> <version>"
        end
      else Fail ($"Unknown vers command: " ++ cmd ++ $". Supported commands: contains")
  end.

(* run(w, args): [specs] = keys of specToRun, [registry] = key -> Name() of the ecosystem
   literal of ecosystemToRun *)
Definition run (specs : list bytes) (registry : list (bytes * bytes))
  (lib : bytes -> lib_ops) (vers : bytes -> bytes -> vres) (args : list bytes) : outcome :=
  match args with
  | [] => Fail $"Usage: univers <ecosystem|spec> <command> [args]"
  | name :: rest =>
      if mem name specs then run_vers vers rest
      else match lookup name registry with
           | Some eco => run_ecosystem (lib eco) rest
           | None => Fail ($"Unknown ecosystem: " ++ name)
           end
  end.

Definition exit_code (o : outcome) : Z := match o with Ok _ => 0%Z | Fail _ => 1%Z end.
