(* Conc/Sched.v — schedule independence for read-only operations (property C19).

   Abstract model of goroutines sharing values: a shared store [St], operations [op] with
   [run : op -> St -> St * R] (new store, result).  A thread is a list of operations; a family
   of threads is a function from thread ids to threads; a schedule is a list of thread ids.
   One step of thread [t] takes the next pending operation of [t] (if any), applies [run] to the
   CURRENT shared store, and appends the result to [t]'s result list.

   If every operation is read-only ([fst (run o s) = s] — the fact established for the
   library's operations by the purity argument: no operation writes to a value another call
   can observe), then for EVERY schedule the store never changes and every thread observes
   exactly the results of running its operations alone on the initial store.
   Stdlib only; nothing here depends on the rest of the development. *)
From Coq Require Import List Arith Lia.
Import ListNotations.

Section Sched.
  Variables St R op : Type.
  Variable run : op -> St -> St * R.

  (* ---------- sequential execution ---------- *)

  Fixpoint run_seq (ops : list op) (s : St) : St * list R :=
    match ops with
    | [] => (s, [])
    | o :: r => let (s1, x) := run o s in
                let (s2, xs) := run_seq r s1 in (s2, x :: xs)
    end.

  (* the result every operation has on the initial store *)
  Definition pure_results (s0 : St) (ops : list op) : list R :=
    map (fun o => snd (run o s0)) ops.

  (* ---------- concurrent execution under a schedule ---------- *)

  Record config := {
    store : St;
    pend : nat -> list op;       (* operations not yet executed, per thread *)
    res : nat -> list R          (* results obtained so far, per thread *)
  }.

  Definition upd {X} (f : nat -> X) (t : nat) (v : X) : nat -> X :=
    fun u => if Nat.eqb u t then v else f u.

  Definition step (t : nat) (c : config) : config :=
    match pend c t with
    | [] => c
    | o :: r =>
        let (s', x) := run o (store c) in
        {| store := s'; pend := upd (pend c) t r; res := upd (res c) t (res c t ++ [x]) |}
    end.

  Definition exec (sched : list nat) (c : config) : config :=
    fold_left (fun c t => step t c) sched c.

  Definition init (s0 : St) (threads : nat -> list op) : config :=
    {| store := s0; pend := threads; res := fun _ => [] |}.

  (* number of operations thread t has executed: its turns, at most its length *)
  Definition executed (threads : nat -> list op) (sched : list nat) (t : nat) : nat :=
    Nat.min (count_occ Nat.eq_dec sched t) (length (threads t)).

  Lemma upd_same {X} (f : nat -> X) t v : upd f t v t = v.
  Proof. unfold upd. rewrite Nat.eqb_refl. reflexivity. Qed.

  Lemma upd_other {X} (f : nat -> X) t u v : u <> t -> upd f t v u = f u.
  Proof. unfold upd. intros H. apply Nat.eqb_neq in H. rewrite H. reflexivity. Qed.

  (* ---------- the read-only hypothesis ---------- *)

  Hypothesis read_only : forall o s, fst (run o s) = s.

  Lemma run_seq_read_only ops s : run_seq ops s = (s, pure_results s ops).
  Proof.
    induction ops as [|o r IH]; cbn [run_seq pure_results map]; [reflexivity|].
    pose proof (read_only o s) as H. destruct (run o s) as [s1 x]. cbn in H. subst s1.
    rewrite IH. reflexivity.
  Qed.

  (* results do not depend on the calls made before *)
  Theorem history_independence (pre : list op) (o : op) (s : St) :
    snd (run o (fst (run_seq pre s))) = snd (run o s).
  Proof. rewrite (run_seq_read_only pre s). reflexivity. Qed.

  Corollary history_independence_seq (pre ops : list op) (s : St) :
    snd (run_seq ops (fst (run_seq pre s))) = snd (run_seq ops s).
  Proof. rewrite (run_seq_read_only pre s). reflexivity. Qed.

  (* repeated calls give the same result *)
  Corollary repeat_same_result (o : op) (s : St) :
    snd (run o (fst (run o s))) = snd (run o s).
  Proof. rewrite read_only. reflexivity. Qed.

  (* ---------- the invariant of concurrent execution ---------- *)

  Definition inv (s0 : St) (threads : nat -> list op) (k : nat -> nat) (c : config) : Prop :=
    store c = s0 /\
    forall t,
      k t <= length (threads t) /\
      pend c t = skipn (k t) (threads t) /\
      res c t = firstn (k t) (pure_results s0 (threads t)).

  Lemma inv_init s0 threads : inv s0 threads (fun _ => 0) (init s0 threads).
  Proof.
    split; [reflexivity|]. intros t. cbn. repeat split; lia.
  Qed.

  Lemma skipn_cons_nth {X} (l : list X) k o r :
    skipn k l = o :: r -> k < length l /\ skipn (S k) l = r /\ firstn (S k) l = firstn k l ++ [o].
  Proof.
    revert k. induction l as [|a l IH]; intros k H.
    - destruct k; discriminate.
    - destruct k as [|k].
      + cbn in H. inversion H; subst. cbn. repeat split. lia.
      + cbn [skipn] in H. destruct (IH k H) as [H1 [H2 H3]].
        cbn [length]. split; [lia|]. split; [exact H2|].
        change (firstn (S (S k)) (a :: l)) with (a :: firstn (S k) l).
        rewrite H3. reflexivity.
  Qed.

  Lemma inv_step s0 threads k c t :
    inv s0 threads k c ->
    inv s0 threads
        (fun u => if Nat.eqb u t
                  then (if Nat.ltb (k t) (length (threads t)) then S (k t) else k t)
                  else k u)
        (step t c).
  Proof.
    intros [Hs Ht]. unfold step.
    destruct (Ht t) as [Hk [Hp Hr]].
    destruct (pend c t) as [|o r] eqn:Ep.
    - (* nothing left: k t = length *)
      assert (Hlen : k t = length (threads t)).
      { assert (length (skipn (k t) (threads t)) = 0) by (rewrite <- Hp; reflexivity).
        rewrite skipn_length in H. lia. }
      split; [exact Hs|]. intros u.
      destruct (Nat.eqb u t) eqn:Eu.
      + apply Nat.eqb_eq in Eu. subst u.
        assert (Nat.ltb (k t) (length (threads t)) = false) as -> by (apply Nat.ltb_ge; lia).
        rewrite Ep. auto.
      + apply Ht.
    - symmetry in Hp. pose proof (skipn_cons_nth _ _ _ _ Hp) as [Hlt [Hsk Hfi]].
      pose proof (read_only o (store c)) as Hro.
      destruct (run o (store c)) as [s' x] eqn:Er. cbn in Hro.
      split; [cbn; congruence|]. intros u. cbn [pend res].
      destruct (Nat.eqb u t) eqn:Eu.
      + apply Nat.eqb_eq in Eu. subst u.
        assert (Nat.ltb (k t) (length (threads t)) = true) as -> by (apply Nat.ltb_lt; lia).
        rewrite !upd_same. split; [lia|]. split; [symmetry; exact Hsk|].
        rewrite Hr.
        (* the next element of pure_results is the result just obtained *)
        assert (Hx : x = snd (run o s0)) by (rewrite <- Hs, Er; reflexivity).
        assert (Hsk' : skipn (k t) (pure_results s0 (threads t)) =
                       snd (run o s0) :: pure_results s0 r).
        { unfold pure_results. rewrite skipn_map, Hp. reflexivity. }
        apply skipn_cons_nth in Hsk'. destruct Hsk' as [_ [_ Hf]].
        rewrite Hf, Hx. reflexivity.
      + apply Nat.eqb_neq in Eu. rewrite !upd_other by exact Eu. apply Ht.
  Qed.

  (* count of executed operations, as a function computed along the schedule *)
  Fixpoint kount (threads : nat -> list op) (sched : list nat) (k : nat -> nat) : nat -> nat :=
    match sched with
    | [] => k
    | t :: r =>
        kount threads r
          (fun u => if Nat.eqb u t
                    then (if Nat.ltb (k t) (length (threads t)) then S (k t) else k t)
                    else k u)
    end.

  Lemma inv_exec s0 threads sched : forall k c,
    inv s0 threads k c -> inv s0 threads (kount threads sched k) (exec sched c).
  Proof.
    induction sched as [|t r IH]; intros k c H; cbn [exec fold_left kount].
    - exact H.
    - apply IH. apply inv_step. exact H.
  Qed.

  Lemma kount_min threads sched : forall k t,
    k t <= length (threads t) ->
    kount threads sched k t =
    Nat.min (k t + count_occ Nat.eq_dec sched t) (length (threads t)).
  Proof.
    induction sched as [|u r IH]; intros k t Hk; cbn [kount count_occ].
    - lia.
    - rewrite IH.
      + destruct (Nat.eq_dec u t) as [->|Hne].
        * rewrite Nat.eqb_refl.
          destruct (Nat.ltb (k t) (length (threads t))) eqn:El.
          -- apply Nat.ltb_lt in El. lia.
          -- apply Nat.ltb_ge in El. lia.
        * assert (Nat.eqb t u = false) as -> by (apply Nat.eqb_neq; congruence). reflexivity.
      + destruct (Nat.eqb t u) eqn:Eu; [|exact Hk].
        apply Nat.eqb_eq in Eu. subst u.
        destruct (Nat.ltb (k t) (length (threads t))) eqn:El; [|exact Hk].
        apply Nat.ltb_lt in El. lia.
  Qed.

  (* ---------- main theorem ---------- *)

  Theorem schedule_independence (s0 : St) (threads : nat -> list op) (sched : list nat) :
    let c := exec sched (init s0 threads) in
    (* the shared store is never modified *)
    store c = s0 /\
    forall t,
      (* thread t has obtained exactly the results of the operations it has executed, each
         equal to what the operation returns when run alone on the initial store *)
      res c t = firstn (executed threads sched t) (pure_results s0 (threads t)) /\
      length (res c t) = executed threads sched t /\
      pend c t = skipn (executed threads sched t) (threads t) /\
      (* if t has had enough turns, it has all its sequential results *)
      (length (threads t) <= count_occ Nat.eq_dec sched t ->
       pend c t = [] /\ res c t = snd (run_seq (threads t) s0)).
  Proof.
    intros c.
    pose proof (inv_exec s0 threads sched _ _ (inv_init s0 threads)) as [Hs Ht].
    fold c in Hs, Ht. split; [exact Hs|]. intros t.
    destruct (Ht t) as [Hk [Hp Hr]].
    rewrite (kount_min threads sched (fun _ => 0) t) in Hk, Hp, Hr by lia.
    cbn [plus] in Hk, Hp, Hr. fold (executed threads sched t) in Hk, Hp, Hr.
    split; [exact Hr|]. split.
    { rewrite Hr, firstn_length. unfold pure_results. rewrite map_length. lia. }
    split; [exact Hp|].
    intros Hfair.
    assert (He : executed threads sched t = length (threads t)) by (unfold executed; lia).
    rewrite Hp, Hr, He. split.
    - apply skipn_all.
    - rewrite run_seq_read_only. cbn [snd].
      apply firstn_all2. unfold pure_results. rewrite map_length. lia.
  Qed.

  (* every thread finished (no pending operation) => its results are the sequential ones *)
  Corollary finished_sequential (s0 : St) (threads : nat -> list op) (sched : list nat) (t : nat) :
    pend (exec sched (init s0 threads)) t = [] ->
    res (exec sched (init s0 threads)) t = snd (run_seq (threads t) s0).
  Proof.
    intros Hfin.
    destruct (schedule_independence s0 threads sched) as [_ H].
    destruct (H t) as [Hr [_ [Hp _]]].
    rewrite Hp in Hfin.
    assert (Hlen : length (threads t) <= executed threads sched t).
    { assert (Hl : length (skipn (executed threads sched t) (threads t)) = 0)
        by (rewrite Hfin; reflexivity).
      rewrite skipn_length in Hl. lia. }
    rewrite Hr, run_seq_read_only. cbn [snd].
    apply firstn_all2. unfold pure_results. rewrite map_length. exact Hlen.
  Qed.

  (* two complete schedules give every thread the same results *)
  Corollary complete_schedules_agree (s0 : St) (threads : nat -> list op) (sc1 sc2 : list nat) :
    (forall t, pend (exec sc1 (init s0 threads)) t = []) ->
    (forall t, pend (exec sc2 (init s0 threads)) t = []) ->
    store (exec sc1 (init s0 threads)) = store (exec sc2 (init s0 threads)) /\
    forall t, res (exec sc1 (init s0 threads)) t = res (exec sc2 (init s0 threads)) t.
  Proof.
    intros F1 F2. split.
    - destruct (schedule_independence s0 threads sc1) as [H1 _].
      destruct (schedule_independence s0 threads sc2) as [H2 _]. congruence.
    - intros t. rewrite !finished_sequential by auto. reflexivity.
  Qed.
End Sched.

Print Assumptions history_independence.
Print Assumptions schedule_independence.
Print Assumptions finished_sequential.
Print Assumptions complete_schedules_agree.
