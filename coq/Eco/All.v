(* Eco/All.v — the registry of modelled ecosystems. *)
From Verif.Base Require Import Bytes.
From Verif.Eco Require Export Iface.
From Verif.Eco.Cran Require Entry.

Definition ecosystems : list eco := [
  Cran.Entry.entry
].
