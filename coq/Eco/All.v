(* Eco/All.v — the registry of modelled ecosystems. *)
From Verif.Base Require Import Bytes.
From Verif.Eco Require Export Iface.
From Verif.Eco.Cran Require Entry.
From Verif.Eco.Github Require Entry.
From Verif.Eco.Rpm Require Entry.
From Verif.Eco.Apache Require Entry.
From Verif.Eco.Mattermost Require Entry.
From Verif.Eco.Hex Require Entry.
From Verif.Eco.Semver Require Entry.
From Verif.Eco.Gentoo Require Entry.
From Verif.Eco.Nuget Require Entry.
From Verif.Eco.Debian Require Entry.
From Verif.Eco.Alpine Require Entry.
From Verif.Eco.Pypi Require Entry.
From Verif.Eco.Maven Require Entry.
From Verif.Eco.Golang Require Entry.
From Verif.Eco.Conan Require Entry.
From Verif.Eco.Npm Require Entry.
From Verif.Eco.Alpm Require Entry.
From Verif.Eco.Composer Require Entry.
From Verif.Eco.Cargo Require Entry.
From Verif.Eco.Gem Require Entry.

Definition ecosystems : list eco := [
  Cran.Entry.entry;
  Github.Entry.entry;
  Rpm.Entry.entry;
  Apache.Entry.entry;
  Mattermost.Entry.entry;
  Hex.Entry.entry;
  Semver.Entry.entry;
  Gentoo.Entry.entry;
  Nuget.Entry.entry;
  Debian.Entry.entry;
  Alpine.Entry.entry;
  Pypi.Entry.entry;
  Maven.Entry.entry;
  Golang.Entry.entry;
  Conan.Entry.entry;
  Npm.Entry.entry;
  Alpm.Entry.entry;
  Composer.Entry.entry;
  Cargo.Entry.entry;
  Gem.Entry.entry
].
