(* Eco/All.v — string-level entry points of every modelled ecosystem, in the uniform shape
   the driver, the VERS model and the CLI model consume. *)
From Verif.Base Require Import Bytes GoNum Ord.
From Verif.Eco Require Import RangeCore.
From Verif.Eco.Cran Require Version Range.

(* version layer, string level *)
Record vops := {
  v_show : bytes -> option bytes;                 (* Some (String()) iff NewVersion accepts *)
  v_cmp : bytes -> bytes -> option comparison     (* Compare of the two parsed versions *)
}.

Definition mk_vops {T} (parse : bytes -> option T) (show : T -> bytes)
  (cmp : T -> T -> comparison) : vops := {|
  v_show := fun s => option_map show (parse s);
  v_cmp := fun a b => match parse a, parse b with
                      | Some x, Some y => Some (cmp x y)
                      | _, _ => None
                      end
|}.

(* range layer over a version layer given as an oracle on texts *)
Record rops := {
  r_show : (bytes -> bool) -> bytes -> option bytes;
  r_contains : (bytes -> bool) -> (bytes -> bytes -> comparison) -> bytes -> bytes -> option bool
}.

Definition oracle_parse (vok : bytes -> bool) (s : bytes) : option bytes :=
  if vok s then Some s else None.

Definition mk_simple_rops (cfg : range_cfg) : rops := {|
  r_show := fun vok s =>
    option_map show (parse_range bytes (oracle_parse vok) cfg s);
  r_contains := fun vok vcmp r v =>
    match parse_range bytes (oracle_parse vok) cfg r with
    | Some rg => if vok v then Some (contains bytes (oracle_parse vok) vcmp cfg rg v) else None
    | None => None
    end
|}.

Record eco := { e_name : bytes; e_v : vops; e_r : rops }.

Definition cran_v := mk_vops Cran.Version.parse Cran.Version.show Cran.Version.cmp.
Definition cran_r := mk_simple_rops Cran.Range.cfg.

Definition ecosystems : list eco := [
  {| e_name := $"cran"; e_v := cran_v; e_r := cran_r |}
].

Fixpoint find_eco (name : bytes) (l : list eco) : option eco :=
  match l with
  | [] => None
  | e :: r => if beq name (e_name e) then Some e else find_eco name r
  end.

(* the model's own version layer as an oracle (end-to-end use) *)
Definition self_vok (e : eco) (s : bytes) : bool :=
  match v_show (e_v e) s with Some _ => true | None => false end.
Definition self_vcmp (e : eco) (a b : bytes) : comparison :=
  match v_cmp (e_v e) a b with Some c => c | None => Eq end.
