(* Base/DecFacts.v — fmt "%d" (GoNum.dec) prints a canonical digit run that reads back as the
   same number; joining and splitting on a separator byte. *)
From Coq Require Import Lia.
From Verif.Base Require Import Bytes BytesFacts GoNum Ord.
Local Open Scope N_scope.

Lemma code_chr n : n < 256 -> code (chr n) = n.
Proof. intros H. unfold code, chr. apply N_ascii_embedding. exact H. Qed.

Lemma digits_val_app s c : digits_val (s ++ [c]) = digits_val s * 10 + digit_val c.
Proof. unfold digits_val. rewrite fold_left_app. reflexivity. Qed.

Lemma pos_lt_pow2_size_nat p : Npos p < 2 ^ N.of_nat (Pos.size_nat p).
Proof.
  induction p as [p IH|p IH|]; cbn [Pos.size_nat].
  - rewrite Nat2N.inj_succ, N.pow_succ_r'. lia.
  - rewrite Nat2N.inj_succ, N.pow_succ_r'. lia.
  - reflexivity.
Qed.

Lemma lt_pow2_size_nat n : n < 2 ^ N.of_nat (S (N.size_nat n)).
Proof.
  rewrite Nat2N.inj_succ, N.pow_succ_r'.
  destruct n as [|p]; [simpl; lia|].
  pose proof (pos_lt_pow2_size_nat p). cbn [N.size_nat]. lia.
Qed.

(* the digits produced for n: canonical decimal *)
Definition canon_digits (ds : bytes) (n : N) : Prop :=
  all_digits ds = true /\ digits_val ds = n /\
  ((n = 0 /\ ds = $"0") \/ (n <> 0 /\ exists c r, ds = c :: r /\ 48 < code c)).

Lemma is_digit_chr d : d < 10 -> is_digit (chr (48 + d)) = true.
Proof.
  intros H. unfold is_digit, in_range. rewrite code_chr by lia.
  apply andb_true_iff. split; apply N.leb_le; lia.
Qed.

Lemma digit_val_chr d : d < 10 -> digit_val (chr (48 + d)) = d.
Proof. intros H. unfold digit_val. rewrite code_chr by lia. lia. Qed.

Lemma dec_fuel_spec fuel n acc :
  n < 2 ^ N.of_nat fuel -> fuel <> O ->
  exists ds, dec_fuel fuel n acc = ds ++ acc /\ canon_digits ds n.
Proof.
  revert n acc. induction fuel as [|k IH]; intros n acc Hn Hf; [contradiction|].
  - cbn [dec_fuel].
    assert (Hm : n mod 10 < 10) by (apply N.mod_lt; lia).
    destruct (n <? 10) eqn:E.
    + apply N.ltb_lt in E. rewrite N.mod_small by assumption.
      exists [chr (48 + n)]. split; [reflexivity|]. unfold canon_digits.
      split; [unfold all_digits; cbn [forallb]; rewrite is_digit_chr by assumption; reflexivity|].
      split; [unfold digits_val; cbn [fold_left]; rewrite digit_val_chr by assumption; reflexivity|].
      destruct (N.eq_dec n 0) as [->|Hz]; [left; split; reflexivity|].
      right. split; [assumption|]. exists (chr (48 + n)), []. split; [reflexivity|].
      rewrite code_chr by lia. lia.
    + apply N.ltb_ge in E.
      assert (Hq : n / 10 < 2 ^ N.of_nat k).
      { apply N.div_lt_upper_bound; [lia|].
        rewrite Nat2N.inj_succ, N.pow_succ_r' in Hn. lia. }
      assert (Hq0 : n / 10 <> 0).
      { intros Z. apply N.div_small_iff in Z; lia. }
      assert (Hk : k <> O).
      { intros ->. simpl in Hq. lia. }
      destruct (IH (n / 10) (chr (48 + n mod 10) :: acc) Hq Hk) as (ds & Hds & Ha & Hv & Hc).
      exists (ds ++ [chr (48 + n mod 10)]). split.
      { rewrite Hds, <- app_assoc. reflexivity. }
      unfold canon_digits. split; [|split].
      * unfold all_digits in *. rewrite forallb_app, Ha. cbn [forallb].
        rewrite is_digit_chr by assumption. reflexivity.
      * rewrite digits_val_app, Hv, digit_val_chr by assumption.
        rewrite (N.div_mod n 10) at 3 by lia. lia.
      * right. split; [lia|].
        destruct Hc as [[Z _]|(_ & c & r & -> & Hc)]; [contradiction|].
        exists c, (r ++ [chr (48 + n mod 10)]). split; [reflexivity|assumption].
Qed.

Lemma dec_canon n : canon_digits (dec n) n.
Proof.
  unfold dec. destruct (dec_fuel_spec (S (N.size_nat n)) n [] (lt_pow2_size_nat n)) as (ds & E & C); [discriminate|].
  rewrite E, app_nil_r. exact C.
Qed.

Lemma dec_all_digits n : all_digits (dec n) = true.
Proof. apply (dec_canon n). Qed.

Lemma dec_nonempty_digits n : nonempty_digits (dec n) = true.
Proof.
  destruct (dec_canon n) as (Ha & _ & [[_ E]|(_ & c & r & E & _)]); rewrite E in *.
  - reflexivity.
  - exact Ha.
Qed.

Lemma dec_val n : digits_val (dec n) = n.
Proof. apply (dec_canon n). Qed.

Lemma dec_zero : dec 0 = $"0".
Proof. reflexivity. Qed.

(* no leading zero: "0" or first digit 1..9 *)
Lemma dec_hd n : n <> 0 -> exists c r, dec n = c :: r /\ 48 < code c.
Proof.
  intros H. destruct (dec_canon n) as (_ & _ & [[Z _]|(_ & X)]); [contradiction|exact X].
Qed.

(* ---------- texts made of one class of bytes ---------- *)

Lemma take_while_all p (s : bytes) : forallb p s = true -> take_while p s = s.
Proof.
  induction s as [|c s IH]; simpl; [reflexivity|].
  intros H. apply andb_true_iff in H. destruct H as [Hc Hs]. rewrite Hc, IH by assumption. reflexivity.
Qed.

Lemma drop_while_all p (s : bytes) : forallb p s = true -> drop_while p s = [].
Proof. apply drop_while_nil_iff. Qed.

(* ---------- join / split ---------- *)

Definition no_sep (sep : ascii) (s : bytes) : bool := forallb (fun c => negb (ceqb sep c)) s.

Lemma split_c_no_sep sep s : no_sep sep s = true -> split_c sep s = [s].
Proof.
  induction s as [|c s IH]; simpl; [reflexivity|].
  intros H. apply andb_true_iff in H. destruct H as [Hc Hs].
  apply negb_true_iff in Hc. rewrite Hc, (IH Hs). reflexivity.
Qed.

Lemma split_c_app_sep sep a b :
  no_sep sep a = true -> split_c sep (a ++ sep :: b) = a :: split_c sep b.
Proof.
  induction a as [|c a IH]; simpl.
  - intros _. rewrite ceqb_refl. reflexivity.
  - intros H. apply andb_true_iff in H. destruct H as [Hc Ha].
    apply negb_true_iff in Hc. rewrite Hc, (IH Ha). reflexivity.
Qed.

Lemma split_join sep l :
  l <> [] -> forallb (no_sep sep) l = true -> split_c sep (join [sep] l) = l.
Proof.
  induction l as [|x l IH]; [contradiction|].
  intros _ H. simpl in H. apply andb_true_iff in H. destruct H as [Hx Hl].
  destruct l as [|y l].
  - simpl. apply split_c_no_sep. assumption.
  - change (join [sep] (x :: y :: l)) with (x ++ sep :: join [sep] (y :: l)).
    rewrite split_c_app_sep by assumption. rewrite IH; [reflexivity|discriminate|assumption].
Qed.

Lemma forallb_join p sep (l : list bytes) :
  forallb p sep = true -> forallb (forallb p) l = true -> forallb p (join sep l) = true.
Proof.
  intros Hs. induction l as [|x l IH]; simpl; [reflexivity|].
  intros H. apply andb_true_iff in H. destruct H as [Hx Hl].
  destruct l as [|y l]; [assumption|].
  rewrite !forallb_app, Hx, Hs. simpl. apply IH. assumption.
Qed.

Lemma join_nonempty sep (l : list bytes) x : In x l -> x <> [] -> join sep l <> [].
Proof.
  destruct l as [|y l]; [contradiction|].
  intros Hin Hx. destruct l as [|z l].
  - destruct Hin as [->|[]]. assumption.
  - change (join sep (y :: z :: l)) with (y ++ sep ++ join sep (z :: l)).
    destruct y; [|discriminate].
    destruct Hin as [<-|Hin]; [contradiction|].
    simpl. intros E. apply app_eq_nil in E. destruct E as [_ E].
    revert E. clear -Hin Hx. revert z Hin. induction l as [|w l IH]; intros z Hin E.
    + destruct Hin as [->|[]]. contradiction.
    + change (join sep (z :: w :: l)) with (z ++ sep ++ join sep (w :: l)) in E.
      apply app_eq_nil in E. destruct E as [Ez E]. apply app_eq_nil in E. destruct E as [_ E].
      destruct Hin as [->|Hin]; [contradiction|]. apply (IH w Hin E).
Qed.

Lemma forallb_weaken {A} (p q : A -> bool) l :
  (forall x, p x = true -> q x = true) -> forallb p l = true -> forallb q l = true.
Proof.
  intros H. induction l as [|x l IH]; simpl; [reflexivity|].
  intros E. apply andb_true_iff in E. destruct E as [Ex El]. rewrite (H x Ex), (IH El). reflexivity.
Qed.
