From Verif.Base Require Import Bytes.
From Verif.Eco Require Import Iface.
From Verif.Eco.Alpine Require Version Range.

Definition v : vops := mk_vops Alpine.Version.parse_core Alpine.Version.cmp_core Alpine.Version.raw_orig.
Definition r : rops := mk_simple_rops Alpine.Range.cfg.
Definition entry : eco := {| e_name := $"alpine"; e_v := v; e_r := r |}.
