(* Base/OrdMore.v — a few more general facts about the order combinators of Base/Ord.v. *)
From Coq Require Import List NArith ZArith Bool Lia.
From Verif.Base Require Import Ord.
Import ListNotations.

Lemma thenc_Eq_r c : thenc c Eq = c.
Proof. destruct c; reflexivity. Qed.

Lemma thenc_assoc a b c : thenc (thenc a b) c = thenc a (thenc b c).
Proof. destruct a; reflexivity. Qed.

(* two element comparisons that agree on a subset closed under the pad agree under lex_pad *)
Section LexPadExt.
  Variable A : Type.
  Variable P : A -> Prop.
  Variable c1 c2 : A -> A -> comparison.
  Variable pad : A.
  Hypothesis Ppad : P pad.
  Hypothesis E : forall x y, P x -> P y -> c1 x y = c2 x y.

  Lemma lex_pad_l_ext_on l : Forall P l -> lex_pad_l pad c1 l = lex_pad_l pad c2 l.
  Proof.
    induction 1 as [|y l Hy Hl IH]; simpl; [reflexivity|].
    rewrite IH, E by assumption. reflexivity.
  Qed.

  Lemma lex_pad_ext_on l1 l2 :
    Forall P l1 -> Forall P l2 -> lex_pad pad c1 l1 l2 = lex_pad pad c2 l1 l2.
  Proof.
    intros H1. revert l2. induction H1 as [|x l1 Hx Hl1 IH]; intros l2 H2.
    - simpl. apply lex_pad_l_ext_on. assumption.
    - destruct H2 as [|y l2 Hy Hl2]; simpl.
      + rewrite (IH [] (Forall_nil P)), E by assumption. reflexivity.
      + rewrite (IH l2 Hl2), E by assumption. reflexivity.
  Qed.
End LexPadExt.

(* lex_pad against the same list extended by one element: decided by that element vs the pad *)
Section LexPadSnoc.
  Variable A : Type.
  Variable cmp : A -> A -> comparison.
  Variable pad : A.
  Hypothesis R : forall x, cmp x x = Eq.

  Lemma lex_pad_snoc_l l x : lex_pad pad cmp (l ++ [x]) l = cmp x pad.
  Proof.
    induction l as [|y l IH]; simpl.
    - apply thenc_Eq_r.
    - rewrite R. simpl. exact IH.
  Qed.

  Lemma lex_pad_snoc_r l x : lex_pad pad cmp l (l ++ [x]) = cmp pad x.
  Proof.
    induction l as [|y l IH]; simpl.
    - apply thenc_Eq_r.
    - rewrite R. simpl. exact IH.
  Qed.

  Lemma lex_pad_refl l : lex_pad pad cmp l l = Eq.
  Proof. induction l as [|y l IH]; simpl; [reflexivity|]. rewrite R. exact IH. Qed.
End LexPadSnoc.

(* lex_pad on lists of equal length is lex_short *)
Lemma lex_pad_same_length A (pad : A) cmp l1 l2 :
  length l1 = length l2 -> lex_pad pad cmp l1 l2 = lex_short cmp l1 l2.
Proof.
  revert l2. induction l1 as [|x l1 IH]; intros [|y l2] H; simpl in *; try discriminate; try reflexivity.
  rewrite IH by congruence. reflexivity.
Qed.

(* disjoint sum: every [inl] below every [inr] *)
Definition sum_cmp {A B} (ca : A -> A -> comparison) (cb : B -> B -> comparison)
  (x y : A + B) : comparison :=
  match x, y with
  | inl a, inl b => ca a b
  | inl _, inr _ => Lt
  | inr _, inl _ => Gt
  | inr a, inr b => cb a b
  end.

Lemma TP_sum A B (ca : A -> A -> comparison) (cb : B -> B -> comparison) :
  TotalPreorder ca -> TotalPreorder cb -> TotalPreorder (sum_cmp ca cb).
Proof.
  intros Ta Tb. constructor.
  - intros [a|b]; simpl; [apply (tp_refl Ta)|apply (tp_refl Tb)].
  - intros [a|a] [b|b]; simpl; try reflexivity; [apply (tp_anti Ta)|apply (tp_anti Tb)].
  - intros [a|a] [b|b] [c|c] x; simpl; try congruence; [apply (tp_trans Ta)|apply (tp_trans Tb)].
  - intros [a|a] [b|b] [c|c]; simpl; try congruence; [apply (tp_eq_l Ta)|apply (tp_eq_l Tb)].
Qed.

(* TotalPreorderOn through a key function *)
Lemma TPO_on A B (f : A -> B) (P : B -> Prop) cmp :
  TotalPreorderOn P cmp -> TotalPreorderOn (fun a => P (f a)) (cmp_on f cmp).
Proof.
  intros T. unfold cmp_on. constructor; intros.
  - apply (tpo_refl T); assumption.
  - apply (tpo_anti T); assumption.
  - eapply (tpo_trans T (f a) (f b) (f c)); eassumption.
  - apply (tpo_eq_l T); assumption.
Qed.

Lemma TPO_laws A (P : A -> Prop) (cmp : A -> A -> comparison) :
  TotalPreorderOn P cmp -> forall a b c, P a -> P b -> P c -> preorder_laws cmp a b c.
Proof.
  intros T a b c Pa Pb Pc. unfold preorder_laws, le_c, lt_c.
  pose proof (tpo_anti T a b Pa Pb) as Aab.
  repeat split.
  - apply (tpo_refl T); assumption.
  - assumption.
  - intros Hab Hbc.
    destruct (cmp a b) eqn:Eab; try congruence.
    + rewrite (tpo_eq_l T a b c Pa Pb Pc Eab). assumption.
    + destruct (cmp b c) eqn:Ebc; try congruence.
      * pose proof (tpo_anti T b c Pb Pc) as Abc. rewrite Ebc in Abc. simpl in Abc.
        pose proof (tpo_eq_l T c b a Pc Pb Pa Abc) as H.
        rewrite Aab in H. simpl in H.
        rewrite (tpo_anti T c a Pc Pa), H. discriminate.
      * rewrite (tpo_trans T a b c Pa Pb Pc Eab Ebc). discriminate.
  - intros Hab Hbc Hs.
    destruct (cmp a b) eqn:Eab; try congruence.
    + rewrite (tpo_eq_l T a b c Pa Pb Pc Eab). destruct Hs; congruence.
    + destruct (cmp b c) eqn:Ebc; try congruence.
      * pose proof (tpo_anti T b c Pb Pc) as Abc. rewrite Ebc in Abc. simpl in Abc.
        pose proof (tpo_eq_l T c b a Pc Pb Pa Abc) as H.
        rewrite Aab in H. simpl in H.
        rewrite (tpo_anti T c a Pc Pa), H. reflexivity.
      * apply (tpo_trans T a b c Pa Pb Pc Eab Ebc).
  - apply (tpo_eq_l T); assumption.
Qed.
