(* Eco/Alpine/Range.v — model of pkg/ecosystem/alpine/range.go *)
From Verif.Base Require Import Bytes GoNum Ord.
From Verif.Gen Require Operators.
From Verif.Eco Require Import RangeCore.

(* operators := []string{">=", "<=", "!=", ">", "<", "="} in parseConstraint *)
(* the list is generated from the Go source on every run (tools/gen -> Gen/Operators.v) *)
Definition alpine_ops : list bytes :=
  Eval cbv delta [Verif.Gen.Operators.alpine_ops] in Verif.Gen.Operators.alpine_ops.

(* strings.Fields, HasPrefix loop (empty remainder is an error), bounds kept as text and
   parsed in Contains (an unparsable bound makes Contains false) *)
Definition cfg : range_cfg := {|
  rc_split := split_fields;
  rc_empty_ok := false;
  rc_ops := alpine_ops;
  rc_style := HasPrefixErr;
  rc_sem := sem6;
  rc_eager := false;
  rc_trimmed_orig := false
|}.
