(* Eco/Alpine/Range.v — model of pkg/ecosystem/alpine/range.go *)
From Verif.Base Require Import Bytes GoNum Ord.
From Verif.Eco Require Import RangeCore.

(* operators := []string{">=", "<=", "!=", ">", "<", "="} in parseConstraint *)
Definition alpine_ops : list bytes := [$">="; $"<="; $"!="; $">"; $"<"; $"="].

(* strings.Fields, HasPrefix loop (empty remainder is an error), bounds kept as text and
   parsed in Contains (an unparsable bound makes Contains false) *)
Definition cfg : range_cfg := {|
  rc_split := split_fields;
  rc_empty_ok := false;
  rc_ops := alpine_ops;
  rc_style := HasPrefixErr;
  rc_sem := sem6;
  rc_eager := false;
  rc_trimmed_orig := false
|}.
