(* Eco/Alpine/RangeFacts.v — the alpine range parser is an instance of Eco/RangeCore.v; the
   generic C02 / C20 / C18 theorems of RangeCoreFacts.v specialised to it, at the level of the
   string interface [Entry.r] and for arbitrary version oracles. *)
From Coq Require Import Lia.
From Verif.Base Require Import Bytes BytesFacts GoNum Ord.
From Verif.Eco.Alpine Require Import OrdMore.
From Verif.Eco Require Import RangeCore RangeCoreFacts Iface VLayer VLayerFacts.
From Verif.Eco.Alpine Require Import Version VersionFacts Range Entry.

Lemma alpine_ops_ok : ops_ok alpine_ops = true.
Proof. vm_compute. reflexivity. Qed.

(* strings.Fields of a non-empty text without whitespace *)
Lemma fields_aux_no_space cur s :
  no_space s = true -> (cur <> [] \/ s <> []) -> fields_aux cur s = [rev cur ++ s].
Proof.
  revert cur. induction s as [|c s IH]; intros cur Hs Hne.
  - simpl. destruct cur; [destruct Hne; contradiction|]. rewrite app_nil_r. reflexivity.
  - simpl in Hs. apply andb_true_iff in Hs. destruct Hs as [Hc Hs]. apply negb_true_iff in Hc.
    simpl. rewrite Hc. rewrite (IH (c :: cur) Hs); [|left; discriminate].
    simpl. rewrite <- app_assoc. reflexivity.
Qed.

Lemma fields_no_space s : no_space s = true -> s <> [] -> fields s = [s].
Proof. intros Hs Hne. unfold fields. rewrite (fields_aux_no_space [] s Hs); auto. Qed.

Section Oracle.
  Variable vok : bytes -> bool.
  Variable vcmp : bytes -> bytes -> comparison.

  Notation rcontains := (r_contains Entry.r vok vcmp).

  (* C02: every comparator spelling, with an in-scope bound the version layer accepts, contains
     exactly the versions Compare places accordingly *)
  Theorem alpine_c02 op a v :
    In op alpine_ops -> bound_in_scope a -> vok a = true -> vok v = true ->
    rcontains (op ++ a) v = Some (sat (sem6 op) (vcmp v a)).
  Proof.
    intros Hin Hsc Ha Hv.
    assert (Hsplit : rc_split cfg (op ++ a) = [op ++ a]).
    { destruct Hsc as (Hne & Hns & Hhd). simpl. unfold split_fields. apply fields_no_space.
      - rewrite no_space_app, Hns, andb_true_r. apply opchars_no_space.
        pose proof (ops_ok_opchars _ alpine_ops_ok) as Hoc. rewrite forallb_forall in Hoc. auto.
      - destruct op; destruct a; simpl; try discriminate. contradiction. }
    destruct (simple_range_c02_single bytes (oracle_parse vok) vcmp cfg op a a
                alpine_ops_ok Hin Hsc) as (r & Hr & Hc).
    - unfold oracle_parse. rewrite Ha. reflexivity.
    - exact Hsplit.
    - unfold Entry.r, mk_simple_rops. cbn [r_contains]. rewrite Hr, Hv, Hc. reflexivity.
  Qed.

  (* the bare version is "=" *)
  Theorem alpine_c02_bare a v :
    bound_in_scope a -> vok a = true -> vok v = true ->
    rcontains a v = Some (sat CEq (vcmp v a)).
  Proof.
    intros Hsc Ha Hv. pose proof Hsc as (Hne & Hns & Hhd).
    unfold Entry.r, mk_simple_rops. cbn [r_contains]. unfold parse_range.
    rewrite (trim_space_no_space a Hns). destruct a as [|c a'] eqn:E; [contradiction|]. rewrite <- E in *.
    change (rc_split cfg a) with (fields a). rewrite (fields_no_space a Hns Hne).
    cbn [parse_constraints]. rewrite (parse_constraint_bare cfg a alpine_ops_ok Hsc).
    cbn [bound_ok rc_eager cfg]. rewrite Hv. unfold contains. cbn [r_cs forallb].
    unfold sat_constraint, oracle_parse. cbn [fst snd]. rewrite Ha, andb_true_r. reflexivity.
  Qed.

  (* a bound the version layer rejects: the range is accepted and contains nothing *)
  Theorem alpine_bad_bound op a v :
    In op alpine_ops -> bound_in_scope a -> vok a = false -> vok v = true ->
    rcontains (op ++ a) v = Some false.
  Proof.
    intros Hin Hsc Ha Hv. pose proof Hsc as (Hne & Hns & Hhd).
    assert (Hop : forallb opchar op = true).
    { pose proof (ops_ok_opchars _ alpine_ops_ok) as Hoc. rewrite forallb_forall in Hoc. auto. }
    assert (Hns' : no_space (op ++ a) = true)
      by (rewrite no_space_app, Hns, andb_true_r; apply opchars_no_space, Hop).
    assert (Hne' : op ++ a <> []) by (destruct op; destruct a; simpl; try discriminate; contradiction).
    unfold Entry.r, mk_simple_rops. cbn [r_contains]. unfold parse_range.
    rewrite (trim_space_no_space _ Hns'). destruct (op ++ a) as [|c oa] eqn:E; [contradiction|]. rewrite <- E in *.
    change (rc_split cfg (op ++ a)) with (fields (op ++ a)). rewrite (fields_no_space _ Hns' Hne').
    cbn [parse_constraints]. rewrite (parse_constraint_op cfg op a alpine_ops_ok Hin Hsc).
    cbn [bound_ok rc_eager cfg]. rewrite Hv. unfold contains. cbn [r_cs forallb].
    unfold sat_constraint, oracle_parse. cbn [fst snd]. rewrite Ha. reflexivity.
  Qed.

  (* C20: membership depends only on the place in the order *)
  Theorem alpine_c20 rg a b :
    TotalPreorder vcmp -> vok a = true -> vok b = true -> vcmp a b = Eq ->
    rcontains rg a = rcontains rg b.
  Proof.
    intros TP Ha Hb E. unfold Entry.r, mk_simple_rops. cbn [r_contains].
    destruct (parse_range bytes (oracle_parse vok) cfg rg) as [r|]; [|reflexivity].
    rewrite Ha, Hb. f_equal. apply simple_range_c20_eq; assumption.
  Qed.

  (* C18: String() of an accepted range is the input *)
  Theorem alpine_range_show rg s : r_show Entry.r vok rg = Some s -> s = rg.
  Proof.
    unfold Entry.r, mk_simple_rops. cbn [r_show]. unfold parse_range.
    destruct (trim_space rg); [discriminate|].
    destruct (parse_constraints bytes (oracle_parse vok) cfg (rc_split cfg (a :: b))) as [[|c cs]|];
      cbn; try discriminate; intros H; injection H as <-; reflexivity.
  Qed.
End Oracle.

(* C20 end to end: with the model's own version layer (Compare is a total preorder on parsed
   versions only, so the generic theorem does not apply verbatim) *)
Theorem alpine_c20_self rg (a b : ver) r :
  wf_ver a -> wf_ver b ->
  RangeCore.parse_range ver Version.parse cfg rg = Some r ->
  Version.cmp a b = Eq ->
  RangeCore.contains ver Version.parse Version.cmp cfg r a =
  RangeCore.contains ver Version.parse Version.cmp cfg r b.
Proof.
  intros Wa Wb _ E. unfold contains.
  induction (r_cs r) as [|c cs IH]; simpl; [reflexivity|]. rewrite IH. f_equal.
  unfold sat_constraint. destruct (Version.parse (snd c)) as [x|] eqn:P; [|reflexivity].
  apply parse_wf in P. rewrite (tpo_eq_l cmp_tp a b x Wa Wb P E). reflexivity.
Qed.
