(* Eco/Alpine/SpecFacts.v — the alpine Compare model orders versions as the reference order
   Spec/Apk.v does (property C14), on everything the reference is defined for, provided the
   numbers fit Go's int. *)
From Coq Require Import Lia ZifyBool.
From Verif.Base Require Import Bytes BytesFacts GoNum Ord.
From Verif.Eco.Alpine Require Import OrdMore DecFacts.
From Verif.Eco Require Import VLayer VLayerFacts RangeCoreFacts Iface.
From Verif.Eco.Alpine Require Import Version VersionFacts Entry.
From Verif.Spec Require Apk ApkFacts.
Local Open Scope N_scope.

(* ====================================================================================
   scope and side condition
   ==================================================================================== *)

(* what is not claimed: numbers that do not fit a Go int.  (Everything else the property
   excludes — malformed texts, leading zeros, ~hash, different component counts — is already
   outside the domain of Apk.spec_cmp.)  Texts the reference does not parse are in scope
   vacuously. *)
Definition small (n : N) : bool := n <? two63.
Definition in_scope (s : bytes) : bool :=
  match Apk.parse s with
  | Some x =>
      forallb small (Apk.comps x)
      && forallb (fun p => small (snd p)) (Apk.suffixes x)
      && small (Apk.revision x)
  | None => true
  end.

(* the model's rank table agrees with the reference's ranks *)
Definition name_of (r : Apk.rank) : bytes :=
  match r with
  | Apk.RAlpha => $"alpha" | Apk.RBeta => $"beta" | Apk.RPre => $"pre" | Apk.RRc => $"rc"
  | Apk.RNone => []
  | Apk.RCvs => $"cvs" | Apk.RSvn => $"svn" | Apk.RGit => $"git" | Apk.RHg => $"hg" | Apk.RP => $"p"
  end.

Definition all_ranks : list Apk.rank :=
  [Apk.RAlpha; Apk.RBeta; Apk.RPre; Apk.RRc; Apk.RNone; Apk.RCvs; Apk.RSvn; Apk.RGit; Apk.RHg; Apk.RP].

Definition comparison_eqb (a b : comparison) : bool :=
  match a, b with Eq, Eq | Lt, Lt | Gt, Gt => true | _, _ => false end.

Lemma comparison_eqb_eq a b : comparison_eqb a b = true -> a = b.
Proof. destruct a; destruct b; simpl; congruence. Qed.

(* The side condition on the (generated) table, exactly what the proof of [cmp_suffix_of]
   needs: every reference rank, "no suffix" = "" included, has its name in the table, and the
   table's numbers order the ten names as the reference orders the ten ranks.  The numbers
   themselves are free: any order-preserving renumbering of the Go map satisfies it. *)
Definition ranks_iso (table : list (bytes * Z)) : bool :=
  forallb (fun r1 =>
    forallb (fun r2 =>
      match lookup (name_of r1) table, lookup (name_of r2) table with
      | Some o1, Some o2 =>
          comparison_eqb (Z.compare o1 o2) (N.compare (Apk.rank_ord r1) (Apk.rank_ord r2))
      | _, _ => false
      end) all_ranks) all_ranks.

Lemma suffixOrder_ranks_iso : ranks_iso suffixOrder = true.
Proof. vm_compute. reflexivity. Qed.

(* kept under its former name: the table check the C14 theorems rest on *)
Definition ranks_ok : list (bytes * Z) -> bool := ranks_iso.
Lemma suffixOrder_ranks_ok : ranks_ok suffixOrder = true.
Proof. exact suffixOrder_ranks_iso. Qed.

Lemma all_ranks_complete r : In r all_ranks.
Proof. destruct r; simpl; tauto. Qed.

Lemma ranks_iso_spec table r1 r2 :
  ranks_iso table = true ->
  exists o1 o2, lookup (name_of r1) table = Some o1 /\ lookup (name_of r2) table = Some o2 /\
                (o1 ?= o2)%Z = (Apk.rank_ord r1 ?= Apk.rank_ord r2).
Proof.
  unfold ranks_iso. rewrite forallb_forall. intros H.
  specialize (H r1 (all_ranks_complete r1)). rewrite forallb_forall in H.
  specialize (H r2 (all_ranks_complete r2)).
  destruct (lookup (name_of r1) table) as [o1|]; [|discriminate].
  destruct (lookup (name_of r2) table) as [o2|]; [|discriminate].
  exists o1, o2. repeat split. apply comparison_eqb_eq, H.
Qed.

(* the model's table orders the reference's suffix names as the reference ranks them *)
Lemma lookup_name_of r1 r2 :
  exists o1 o2, lookup (name_of r1) suffixOrder = Some o1 /\ lookup (name_of r2) suffixOrder = Some o2 /\
                (o1 ?= o2)%Z = (Apk.rank_ord r1 ?= Apk.rank_ord r2).
Proof. apply ranks_iso_spec, suffixOrder_ranks_iso. Qed.

(* ====================================================================================
   the structure the model builds from a reference AST
   ==================================================================================== *)

Definition nc_of_field (f : bytes) : numcomp := {| nc_value := Z.of_N (digits_val f); nc_orig := f |}.
Definition sfx_of (p : Apk.rank * N) : suffix := {| sf_name := name_of (fst p); sf_number := Z.of_N (snd p) |}.
Definition letter_of (l : option ascii) : bytes := match l with Some c => [c] | None => [] end.

Definition core_of (fs : list bytes) (x : Apk.ast) : vcore :=
  {| vc_numeric := map nc_of_field fs;
     vc_letter := letter_of (Apk.letter x);
     vc_suffixes := map sfx_of (Apk.suffixes x);
     vc_hash := [];
     vc_build := Z.of_N (Apk.revision x) |}.

(* ---------- general scanning facts ---------- *)

Lemma take_drop p (s : bytes) : take_while p s ++ drop_while p s = s.
Proof. induction s as [|c s IH]; simpl; [reflexivity|]. destruct (p c); simpl; congruence. Qed.

Lemma forallb_take_while p (s : bytes) : forallb p (take_while p s) = true.
Proof. induction s as [|c s IH]; simpl; [reflexivity|]. destruct (p c) eqn:E; simpl; [rewrite E; exact IH|reflexivity]. Qed.

Lemma drop_while_hd p (s : bytes) c r : drop_while p s = c :: r -> p c = false.
Proof.
  induction s as [|x s IH]; simpl; [discriminate|].
  destruct (p x) eqn:E; [exact IH|]. intros H. injection H as -> _. exact E.
Qed.

Lemma take_while_app_hd p (a b : bytes) :
  forallb p a = true -> match b with [] => True | c :: _ => p c = false end ->
  take_while p (a ++ b) = a /\ drop_while p (a ++ b) = b.
Proof.
  intros Ha Hb. destruct b as [|c b].
  - rewrite app_nil_r. split; [apply take_while_all|apply drop_while_all]; assumption.
  - split; [apply take_while_app_stop|apply drop_while_app_stop]; assumption.
Qed.

Lemma split_c_nil_head sep s fs :
  split_c sep s = [] :: fs -> (s = [] /\ fs = []) \/ exists r, s = sep :: r /\ split_c sep r = fs.
Proof.
  destruct s as [|c s]; simpl.
  - intros H. injection H as <-. left. split; reflexivity.
  - destruct (ceqb sep c) eqn:E.
    + apply ceqb_eq in E. subst. intros H. injection H as <-. right. eauto.
    + destruct (split_c sep s); discriminate.
Qed.

Lemma forallb_of_split p sep s :
  p sep = true -> forallb (forallb p) (split_c sep s) = true -> forallb p s = true.
Proof.
  intros Hs. induction s as [|c s IH]; simpl; [reflexivity|].
  destruct (ceqb sep c) eqn:E.
  - apply ceqb_eq in E. subst. simpl. intros H. rewrite Hs. simpl. apply IH. exact H.
  - destruct (split_c sep s) as [|f fs] eqn:S.
    + simpl. intros H. rewrite andb_true_r in H. rewrite andb_true_r in H.
      rewrite H. simpl. apply IH. reflexivity.
    + simpl. intros H. apply andb_true_iff in H. destruct H as [H1 H2].
      apply andb_true_iff in H1. destruct H1 as [Hc Hf]. rewrite Hc. simpl.
      apply IH. simpl. rewrite Hf, H2. reflexivity.
Qed.

(* ---------- suffix fields ---------- *)

Lemma lookup_key {A} k (t : list (bytes * A)) v : lookup k t = Some v -> In (k, v) t.
Proof.
  induction t as [|[k' v'] t IH]; simpl; [discriminate|].
  destruct (beq k k') eqn:E; [|auto].
  apply beq_eq in E. subst. intros H. injection H as ->. auto.
Qed.

Lemma suffix_names_name name r : lookup name Apk.suffix_names = Some r -> name = name_of r.
Proof.
  intros H. apply lookup_key in H. simpl in H.
  repeat (destruct H as [H|H]; [injection H as <- <-; reflexivity|]). contradiction.
Qed.

Lemma suffix_names_lower name r :
  lookup name Apk.suffix_names = Some r -> name <> [] /\ forallb is_lower name = true.
Proof.
  intros H. apply lookup_key in H. simpl in H.
  repeat (destruct H as [H|H]; [injection H as <- <-; split; [discriminate|reflexivity]|]). contradiction.
Qed.

(* what a successful reference parse of one field says *)
Lemma spec_parse_suffix_inv f r n :
  Apk.parse_suffix f = Some (r, n) ->
  exists name num, f = name ++ num /\ lookup name Apk.suffix_names = Some r /\
                   all_digits num = true /\ n = digits_val num /\
                   match_suffix_part f = Some (name, num).
Proof.
  unfold Apk.parse_suffix, span, Apk.opt_number.
  destruct (lookup (take_while is_lower f) Apk.suffix_names) as [r'|] eqn:L; [|discriminate].
  destruct (all_digits (drop_while is_lower f)) eqn:D; [|discriminate].
  intros H. injection H as -> <-.
  exists (take_while is_lower f), (drop_while is_lower f).
  split; [symmetry; apply take_drop|]. split; [exact L|]. split; [exact D|]. split; [reflexivity|].
  unfold match_suffix_part. rewrite D.
  destruct (suffix_names_lower _ _ L) as [Hne _].
  destruct (take_while is_lower f); [contradiction|reflexivity].
Qed.

Lemma model_parse_suffix f r n :
  Apk.parse_suffix f = Some (r, n) -> small n = true ->
  Version.parse_suffix f = Some (sfx_of (r, n)).
Proof.
  intros H Hn. destruct (spec_parse_suffix_inv f r n H) as (name & num & _ & L & D & -> & M).
  unfold Version.parse_suffix. rewrite M. unfold sfx_of. cbn [fst snd].
  rewrite <- (suffix_names_name _ _ L).
  destruct num as [|c num]; [reflexivity|].
  assert (Hnd : nonempty_digits (c :: num) = true) by exact D.
  rewrite (atoi_digits _ Hnd). unfold small in Hn. rewrite Hn. reflexivity.
Qed.

Lemma spec_suffix_field_chars f r n :
  Apk.parse_suffix f = Some (r, n) -> f <> [] /\ forallb is_suffix_char f = true.
Proof.
  intros H. destruct (spec_parse_suffix_inv f r n H) as (name & num & -> & L & D & _ & _).
  destruct (suffix_names_lower _ _ L) as [Hne Hl]. split.
  - destruct name; [contradiction|discriminate].
  - rewrite forallb_app.
    rewrite (forallb_weaken _ _ name is_lower_suffix_char Hl).
    rewrite (forallb_weaken _ _ num is_digit_suffix_char D). reflexivity.
Qed.

Lemma spec_suffix_fields fs sx :
  Apk.parse_suffix_fields fs = Some sx ->
  forallb (fun p => small (snd p)) sx = true ->
  forallb (fun p => is_some (match_suffix_part p)) fs = true /\
  forallb (forallb is_suffix_char) fs = true /\
  filter (fun p => match p with [] => false | _ => true end) fs = fs /\
  map_opt Version.parse_suffix fs = Some (map sfx_of sx).
Proof.
  revert sx. induction fs as [|f fs IH]; intros sx; simpl.
  - intros H _. injection H as <-. repeat split; reflexivity.
  - destruct (Apk.parse_suffix f) as [[r n]|] eqn:Pf; [|discriminate].
    destruct (Apk.parse_suffix_fields fs) as [xs|] eqn:Pfs; [|discriminate].
    intros H. injection H as <-. simpl. intros Hs. apply andb_true_iff in Hs. destruct Hs as [Hn Hs].
    destruct (IH xs eq_refl Hs) as (I1 & I2 & I3 & I4).
    destruct (spec_parse_suffix_inv f r n Pf) as (name & num & _ & _ & _ & _ & M).
    destruct (spec_suffix_field_chars f r n Pf) as [Hne Hc].
    rewrite M, I1, Hc, I2, (model_parse_suffix f r n Pf Hn), I4.
    repeat split; try reflexivity.
    destruct f; [contradiction|]. rewrite I3. reflexivity.
Qed.

(* the whole suffix part *)
Lemma spec_suffix_part sufpart sx :
  Apk.parse_suffixes sufpart = Some sx ->
  forallb (fun p => small (snd p)) sx = true ->
  forallb is_suffix_char sufpart = true /\
  suffix_group_ok sufpart = true /\
  Version.parse_suffixes sufpart = Some (map sfx_of sx).
Proof.
  unfold Apk.parse_suffixes. intros H Hs.
  destruct (split_c "_"%char sufpart) as [|[|c0 f0] fs] eqn:S; try discriminate.
  destruct (split_c_nil_head _ _ _ S) as [[-> ->]|(r & -> & Sr)].
  - simpl in H. injection H as <-. repeat split; reflexivity.
  - destruct (spec_suffix_fields fs sx H Hs) as (I1 & I2 & I3 & I4).
    split; [|split].
    + cbn [forallb]. change (is_suffix_char "_"%char) with true. cbn [andb].
      apply (forallb_of_split is_suffix_char "_"%char); [reflexivity|]. rewrite Sr. exact I2.
    + unfold suffix_group_ok. rewrite ceqb_refl, Sr, I1. reflexivity.
    + unfold Version.parse_suffixes.
      change (trim_prefix $"_" ("_"%char :: r)) with r. rewrite Sr, I3. exact I4.
Qed.

(* ---------- numeric part ---------- *)

Lemma num_char_eq : Apk.is_num_char = Version.is_num_char.
Proof. reflexivity. Qed.

Lemma map_opt_parse_numcomp_fields fs :
  forallb nonempty_digits fs = true -> forallb small (map digits_val fs) = true ->
  map_opt parse_numcomp fs = Some (map nc_of_field fs).
Proof.
  induction fs as [|f fs IH]; simpl; [reflexivity|].
  intros Hd Hs. apply andb_true_iff in Hd. destruct Hd as [Hf Hd].
  apply andb_true_iff in Hs. destruct Hs as [Hsf Hs].
  unfold parse_numcomp at 1. rewrite (atoi_digits f Hf). unfold small in Hsf. rewrite Hsf.
  rewrite (IH Hd Hs). reflexivity.
Qed.

Lemma spec_num_fields np fs :
  Apk.num_fields np = Some fs -> forallb small (map digits_val fs) = true ->
  fs = split_c "."%char np /\ forallb nonempty_digits fs = true /\
  parse_numeric_components np = Some (map nc_of_field fs).
Proof.
  unfold Apk.num_fields. destruct (forallb nonempty_digits (split_c "."%char np)) eqn:E; [|discriminate].
  intros H Hs. injection H as <-. split; [reflexivity|]. split; [exact E|].
  unfold parse_numeric_components. destruct np as [|c np']; [discriminate|].
  apply map_opt_parse_numcomp_fields; assumption.
Qed.

(* ---------- revision part ---------- *)

Lemma is_digit_not_space c : is_digit c = true -> negb (is_space c) = true.
Proof. intros H. apply is_num_char_not_space, is_digit_num_char, H. Qed.

Lemma spec_revision revpart rv :
  Apk.parse_revision revpart = Some rv -> small rv = true ->
  exists d, match_hash_build revpart = Some ([], d) /\ parse_build d = Some (Z.of_N rv) /\
            no_space revpart = true.
Proof.
  unfold Apk.parse_revision, strip_prefix.
  change (list_ascii_of_string "-r") with ["-"%char; "r"%char].
  destruct revpart as [|c [|c2 r]].
  - intros H _. injection H as <-. exists []. repeat split; reflexivity.
  - unfold strip_prefix. cbn [has_prefix]. rewrite andb_false_r. discriminate.
  - unfold strip_prefix. cbn [has_prefix].
    destruct (ceqb "-"%char c) eqn:E1; [|discriminate].
    destruct (ceqb "r"%char c2) eqn:E2; [|discriminate].
    apply ceqb_eq in E1, E2. subst c c2. cbn [andb length skipn].
    destruct (nonempty_digits r) eqn:D; [|discriminate].
    intros H Hs. injection H as <-. exists r. split; [|split].
    + unfold match_hash_build. change (ceqb "-"%char "~"%char) with false. cbv iota.
      unfold match_build, strip_prefix.
      change (list_ascii_of_string "-r") with ["-"%char; "r"%char]. cbn [has_prefix]. rewrite !ceqb_refl.
      cbn [andb length skipn]. rewrite D. reflexivity.
    + unfold parse_build. destruct r as [|c r']; [discriminate|].
      rewrite (atoi_digits _ D). unfold small in Hs. rewrite Hs. reflexivity.
    + unfold no_space. cbn [forallb]. change (negb (is_space "-"%char)) with true.
      change (negb (is_space "r"%char)) with true. cbn [andb].
      apply (forallb_weaken is_digit); [exact is_digit_not_space|].
      destruct r; [discriminate|exact D].
Qed.

(* ---------- everything after the letter ---------- *)

Definition pattern_tail (np letter r2 : bytes) : option groups :=
  let sp := take_while is_suffix_char r2 in
  let r3 := drop_while is_suffix_char r2 in
  if suffix_group_ok sp then
    match match_hash_build r3 with
    | Some (h, b) =>
        Some {| g_numeric := np; g_letter := letter; g_suffix := sp; g_hash := h; g_build := b |}
    | None => None
    end
  else None.

Lemma match_pattern_unfold t :
  match_pattern t =
  let np := take_while is_num_char t in
  let r1 := drop_while is_num_char t in
  if forallb nonempty_digits (split_c "."%char np) then
    let '(letter, r2) :=
      match r1 with
      | c :: r => if is_lower c then ([c], r) else ([], r1)
      | [] => ([], [])
      end in
    pattern_tail np letter r2
  else None.
Proof. reflexivity. Qed.

Lemma spec_tail np letter r2 sx rv :
  Apk.parse_suffixes (take_while Apk.not_dash r2) = Some sx ->
  Apk.parse_revision (drop_while Apk.not_dash r2) = Some rv ->
  forallb (fun p => small (snd p)) sx = true -> small rv = true ->
  exists sp d,
    pattern_tail np letter r2 =
      Some {| g_numeric := np; g_letter := letter; g_suffix := sp; g_hash := []; g_build := d |} /\
    Version.parse_suffixes sp = Some (map sfx_of sx) /\
    parse_build d = Some (Z.of_N rv) /\
    no_space r2 = true.
Proof.
  intros Hsx Hrv Ssx Srv.
  set (sufpart := take_while Apk.not_dash r2) in *.
  set (revpart := drop_while Apk.not_dash r2) in *.
  destruct (spec_suffix_part sufpart sx Hsx Ssx) as (Hc & Hok & Hps).
  destruct (spec_revision revpart rv Hrv Srv) as (d & Hb & Hpb & Hns).
  assert (Hr2 : r2 = sufpart ++ revpart) by (symmetry; apply take_drop).
  assert (Hhd : match revpart with [] => True | c :: _ => is_suffix_char c = false end).
  { destruct revpart as [|c r] eqn:E; [exact I|].
    apply drop_while_hd in E. unfold Apk.not_dash in E. apply negb_false_iff in E.
    apply ceqb_eq in E. subst c. reflexivity. }
  destruct (take_while_app_hd is_suffix_char sufpart revpart Hc Hhd) as [T D].
  exists sufpart, d. unfold pattern_tail. rewrite Hr2, T, D, Hok, Hb.
  repeat split; try assumption.
  rewrite no_space_app, Hns, andb_true_r.
  apply (forallb_weaken is_suffix_char); [exact is_suffix_char_not_space|exact Hc].
Qed.

(* ====================================================================================
   the model parses what the reference parses, into the corresponding structure
   ==================================================================================== *)

Lemma is_lower_not_space c : is_lower c = true -> negb (is_space c) = true.
Proof. intros H. apply is_suffix_char_not_space, is_lower_suffix_char, H. Qed.

Lemma parse_core_unfold t :
  t <> [] ->
  parse_core t =
  match match_pattern t with
  | None => if any_b is_digit t then Some (Invalid t) else None
  | Some g =>
      match parse_numeric_components (g_numeric g) with
      | None => None
      | Some numeric =>
          match Version.parse_suffixes (g_suffix g) with
          | None => None
          | Some suffixes =>
              match parse_build (g_build g) with
              | None => None
              | Some build =>
                  Some (Valid {| vc_numeric := numeric; vc_letter := g_letter g;
                                 vc_suffixes := suffixes; vc_hash := g_hash g;
                                 vc_build := build |})
              end
          end
      end
  end.
Proof. destruct t; [contradiction|reflexivity]. Qed.

Lemma model_of_spec s x :
  Apk.parse s = Some x -> in_scope s = true ->
  exists fs, fs = split_c "."%char (take_while is_num_char s) /\
             Apk.comps x = map digits_val fs /\
             parse_core s = Some (Valid (core_of fs x)) /\
             no_space s = true.
Proof.
  intros H Hsc. unfold in_scope in Hsc. rewrite H in Hsc.
  apply andb_true_iff in Hsc. destruct Hsc as [Hsc Srv].
  apply andb_true_iff in Hsc. destruct Hsc as [Scs Ssx].
  unfold Apk.parse, Apk.cut_parts, span in H. rewrite num_char_eq in H.
  pose proof (take_drop is_num_char s) as Hs.
  pose proof (forallb_take_while is_num_char s) as Hnpc.
  set (np := take_while is_num_char s) in *.
  set (r1 := drop_while is_num_char s) in *.
  (* the letter *)
  assert (L : exists l r2,
             match r1 with
             | c :: r' => if is_lower c then (Some c, r') else (None, r1)
             | [] => (None, r1)
             end = (l, r2) /\
             match r1 with
             | c :: r => if is_lower c then ([c], r) else ([], r1)
             | [] => ([], [])
             end = (letter_of l, r2) /\
             r1 = letter_of l ++ r2 /\ no_space (letter_of l) = true).
  { destruct r1 as [|c r'].
    - exists None, []. repeat split; reflexivity.
    - destruct (is_lower c) eqn:Lc.
      + exists (Some c), r'. repeat split; try reflexivity.
        unfold no_space. simpl. rewrite (is_lower_not_space c Lc). reflexivity.
      + exists None, (c :: r'). repeat split; reflexivity. }
  destruct L as (l & r2 & L1 & L2 & Hr1 & Hnl).
  rewrite L1 in H. cbv iota beta in H.
  destruct (Apk.num_fields np) as [fs|] eqn:Nf; [|discriminate].
  destruct (Apk.parse_suffixes (take_while Apk.not_dash r2)) as [sx|] eqn:Psx; [|discriminate].
  destruct (Apk.parse_revision (drop_while Apk.not_dash r2)) as [rv|] eqn:Prv; [|discriminate].
  injection H as <-. cbn [Apk.comps Apk.suffixes Apk.revision] in *.
  destruct (spec_num_fields np fs Nf Scs) as (Hfs & Hnd & Hpn).
  destruct (spec_tail np (letter_of l) r2 sx rv Psx Prv Ssx Srv) as (sp & d & Ht & Hps & Hpb & Hn2).
  exists fs. split; [exact Hfs|]. split; [reflexivity|]. split.
  - assert (Hne : s <> []).
    { intros E. subst np. rewrite E in Nf. simpl in Nf. discriminate. }
    rewrite (parse_core_unfold s Hne), match_pattern_unfold. cbv zeta.
    fold np. fold r1. rewrite <- Hfs, Hnd, L2, Ht.
    cbn [g_numeric g_letter g_suffix g_hash g_build]. rewrite Hpn, Hps, Hpb. reflexivity.
  - rewrite <- Hs, Hr1, !no_space_app, Hnl, Hn2, !andb_true_r.
    apply (forallb_weaken is_num_char); [exact is_num_char_not_space|exact Hnpc].
Qed.

(* ====================================================================================
   Compare on corresponding structures is the reference precedence
   ==================================================================================== *)

Lemma leading_zero_eq : Apk.leading_zero = has_leading_zero.
Proof. reflexivity. Qed.

Lemma no_lz_fields s :
  Apk.no_leading_zeros s =
  forallb (fun f => negb (has_leading_zero f)) (split_c "."%char (take_while is_num_char s)).
Proof.
  unfold Apk.no_leading_zeros, Apk.cut_parts, span. rewrite num_char_eq, leading_zero_eq.
  destruct (drop_while is_num_char s) as [|c r]; [reflexivity|].
  destruct (is_lower c); reflexivity.
Qed.

Definition no_lz (fs : list bytes) : bool := forallb (fun f => negb (has_leading_zero f)) fs.

Lemma cmp_numcomp_fields f g :
  has_leading_zero f = false -> has_leading_zero g = false ->
  cmp_numcomp (nc_of_field f) (nc_of_field g) = (digits_val f ?= digits_val g).
Proof.
  intros Hf Hg. unfold cmp_numcomp, nc_of_field. cbn [nc_orig nc_value]. rewrite Hf, Hg.
  cbn [orb]. apply N2Z.inj_compare.
Qed.

Lemma lex_short_fields fs gs :
  no_lz fs = true -> no_lz gs = true ->
  lex_short cmp_numcomp (map nc_of_field fs) (map nc_of_field gs) =
  lex_short N.compare (map digits_val fs) (map digits_val gs).
Proof.
  revert gs. induction fs as [|f fs IH]; intros [|g gs]; simpl; try reflexivity.
  intros Hf Hg. apply andb_true_iff in Hf, Hg. destruct Hf as [Hf Hfs]. destruct Hg as [Hg Hgs].
  apply negb_true_iff in Hf, Hg.
  rewrite (cmp_numcomp_fields f g Hf Hg), (IH gs Hfs Hgs). reflexivity.
Qed.

Lemma cmp_numeric_fields fs gs :
  length fs = length gs -> no_lz fs = true -> no_lz gs = true ->
  cmp_numeric (map nc_of_field fs) (map nc_of_field gs) =
  Apk.comps_cmp (map digits_val fs) (map digits_val gs).
Proof.
  intros Hl Hf Hg. unfold cmp_numeric, Apk.comps_cmp.
  destruct fs as [|f fs]; destruct gs as [|g gs]; try discriminate; [reflexivity|].
  cbn [map hd tl nc_of_field nc_value lex_short]. rewrite N2Z.inj_compare. f_equal.
  simpl in Hf, Hg. apply andb_true_iff in Hf, Hg. destruct Hf as [_ Hfs]. destruct Hg as [_ Hgs].
  rewrite lex_pad_same_length by (rewrite !map_length; simpl in Hl; congruence).
  apply lex_short_fields; assumption.
Qed.

Lemma cmp_letters_of l1 l2 : cmp_letters (letter_of l1) (letter_of l2) = Apk.letter_cmp l1 l2.
Proof.
  rewrite cmp_letters_bytes. destruct l1 as [a|]; destruct l2 as [b|]; try reflexivity.
  simpl. unfold cmp_on. apply thenc_Eq_r.
Qed.

Lemma cmp_suffix_of p q : cmp_suffix (sfx_of p) (sfx_of q) = Apk.suffix_cmp p q.
Proof.
  destruct p as [r1 n1]; destruct q as [r2 n2].
  unfold cmp_suffix, sfx_of. cbn [sf_name sf_number fst snd].
  destruct (lookup_name_of r1 r2) as (o1 & o2 & L1 & L2 & C). rewrite L1, L2, C.
  rewrite N2Z.inj_compare. reflexivity.
Qed.

Lemma lex_pad_l_map {A B} (g : A -> B) pad c1 c2 l :
  (forall x y, c2 (g x) (g y) = c1 x y) ->
  lex_pad_l (g pad) c2 (map g l) = lex_pad_l pad c1 l.
Proof. intros E. induction l as [|y l IH]; simpl; [reflexivity|]. rewrite E, IH. reflexivity. Qed.

Lemma lex_pad_map {A B} (g : A -> B) pad c1 c2 l1 l2 :
  (forall x y, c2 (g x) (g y) = c1 x y) ->
  lex_pad (g pad) c2 (map g l1) (map g l2) = lex_pad pad c1 l1 l2.
Proof.
  intros E. revert l2. induction l1 as [|x l1 IH]; intros l2.
  - simpl. apply lex_pad_l_map. exact E.
  - destruct l2 as [|y l2]; simpl.
    + rewrite E. rewrite <- (IH []). reflexivity.
    + rewrite E, IH. reflexivity.
Qed.

Lemma cmp_suffixes_of sx sy :
  cmp_suffixes (map sfx_of sx) (map sfx_of sy) = Apk.suffixes_cmp sx sy.
Proof.
  unfold cmp_suffixes, Apk.suffixes_cmp.
  change pad_suffix with (sfx_of Apk.no_suffix). apply lex_pad_map. exact cmp_suffix_of.
Qed.

Lemma cmp_valid_of fs gs x y :
  Apk.comps x = map digits_val fs -> Apk.comps y = map digits_val gs ->
  length (Apk.comps x) = length (Apk.comps y) ->
  no_lz fs = true -> no_lz gs = true ->
  cmp_valid (core_of fs x) (core_of gs y) = Apk.apk_cmp x y.
Proof.
  intros Cx Cy Hl Hf Hg. unfold cmp_valid, core_of, Apk.apk_cmp, lexc, cmp_on.
  cbn [vc_numeric vc_letter vc_suffixes vc_hash vc_build].
  rewrite Cx, Cy in *. rewrite !map_length in Hl.
  rewrite (cmp_numeric_fields fs gs Hl Hf Hg), cmp_letters_of, cmp_suffixes_of, N2Z.inj_compare.
  reflexivity.
Qed.

(* ====================================================================================
   the theorems
   ==================================================================================== *)

Lemma model_parse_of_spec s x :
  Apk.parse s = Some x -> in_scope s = true ->
  exists fs, fs = split_c "."%char (take_while is_num_char s) /\
             Apk.comps x = map digits_val fs /\
             Version.parse s = Some {| v_core := Valid (core_of fs x); v_orig := s |}.
Proof.
  intros H Hsc. destruct (model_of_spec s x H Hsc) as (fs & Hfs & Hc & Hp & Hns).
  exists fs. split; [exact Hfs|]. split; [exact Hc|].
  unfold Version.parse, VLayer.parse. rewrite (trim_space_no_space s Hns), Hp. reflexivity.
Qed.

(* every version the reference accepts (numbers fitting an int) is accepted, String() = input *)
Theorem alpine_accepts_spec_valid s :
  in_scope s = true -> Apk.spec_valid s = true -> exists t, v_show Entry.v s = Some t.
Proof.
  intros Hsc Hv. unfold Apk.spec_valid in Hv.
  destruct (Apk.parse s) as [x|] eqn:P; [|discriminate].
  destruct (model_parse_of_spec s x P Hsc) as (fs & _ & _ & Hp).
  exists s. unfold Entry.v, mk_vops. cbn [v_show].
  change (VLayer.parse parse_core raw_orig s) with (Version.parse s). rewrite Hp. reflexivity.
Qed.

(* C14: wherever the reference order is defined (both sides well formed, no leading zeros in
   the numeric components, the same number of components) and the numbers fit an int, Compare
   gives the reference answer *)
Theorem alpine_cmp_is_spec a b c :
  Apk.spec_cmp a b = Some c -> in_scope a = true -> in_scope b = true ->
  v_cmp Entry.v a b = Some c.
Proof.
  intros H Sa Sb.
  destruct (ApkFacts.spec_cmp_some a b c H) as (Va & Vb & x & y & Pa & Pb & Hl & ->).
  unfold Apk.spec_valid in Va, Vb. rewrite Pa in Va. rewrite Pb in Vb.
  rewrite no_lz_fields in Va, Vb.
  destruct (model_parse_of_spec a x Pa Sa) as (fs & Hfs & Cx & Ha).
  destruct (model_parse_of_spec b y Pb Sb) as (gs & Hgs & Cy & Hb).
  unfold Entry.v, mk_vops. cbn [v_cmp].
  change (VLayer.parse parse_core raw_orig) with Version.parse. rewrite Ha, Hb.
  unfold VLayer.cmp. cbn [v_core cmp_core]. f_equal.
  apply cmp_valid_of; try assumption; unfold no_lz; rewrite ?Hfs, ?Hgs; assumption.
Qed.

(* the same in the "valid a, valid b" form, for two versions with equally many components *)
Corollary alpine_cmp_is_spec_valid a b :
  in_scope a = true -> in_scope b = true ->
  Apk.spec_valid a = true -> Apk.spec_valid b = true ->
  Apk.spec_cmp a b <> None ->
  v_cmp Entry.v a b = Apk.spec_cmp a b.
Proof.
  intros Sa Sb _ _ H. destruct (Apk.spec_cmp a b) as [c|] eqn:E; [|contradiction].
  apply alpine_cmp_is_spec; assumption.
Qed.

(* outside the scope the statement is false: numbers that do not fit a Go int are rejected by
   the implementation while the reference compares them *)
Lemma alpine_cmp_is_spec_refuted_out_of_scope :
  exists a b c, Apk.spec_cmp a b = Some c /\ in_scope a = false /\ v_cmp Entry.v a b = None.
Proof.
  exists $"9223372036854775808", $"1", Gt. vm_compute. repeat split; reflexivity.
Qed.
