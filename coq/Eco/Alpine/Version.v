(* Eco/Alpine/Version.v — model of pkg/ecosystem/alpine/version.go (definitions only). *)
From Verif.Base Require Import Bytes GoNum.
From Verif.Gen Require Tables.
From Verif.Eco Require Import VLayer.
Local Open Scope N_scope.

(* ---------- parsed structure ---------- *)

(* numericComponent{value, originalStr} *)
Record numcomp := { nc_value : Z; nc_orig : bytes }.

(* suffix{name, number} *)
Record suffix := { sf_name : bytes; sf_number : Z }.

(* the fields of a Version whose numeric slice is non-nil *)
Record vcore := {
  vc_numeric : list numcomp;
  vc_letter : bytes;
  vc_suffixes : list suffix;
  vc_hash : bytes;
  vc_build : Z
}.

(* [Invalid t]: numeric == nil, the "string-only" version; t = TrimSpace(original) *)
Inductive core :=
| Valid (v : vcore)
| Invalid (t : bytes).

(* ---------- tables ---------- *)

(* var suffixOrder = map[string]int{...} *)
(* generated from the Go source on every run (tools/gen -> Gen/Tables.v) *)
Definition suffixOrder : list (bytes * Z) :=
  Eval cbv delta [Verif.Gen.Tables.alpine_suffixOrder] in Verif.Gen.Tables.alpine_suffixOrder.

(* const unknownSuffixPrecedence = 1000 *)
Definition unknownSuffixPrecedence : Z :=
  Eval cbv delta [Verif.Gen.Tables.alpine_unknownSuffixPrecedence] in Verif.Gen.Tables.alpine_unknownSuffixPrecedence.

(* ---------- versionPattern ----------
   Five consecutive groups, anchored at both ends:
     1: digits ( "." digits )...      2: an optional letter a-z
     3: ( "_" letters+ digits... )...  4: optional "~" hexlower+      5: optional "-r" digits+
   Every group is followed by a character class disjoint from its own, so the leftmost-first
   match is the deterministic left-to-right scan below. *)

Definition is_num_char (c : ascii) : bool := is_digit c || ceqb c "."%char.
Definition is_suffix_char (c : ascii) : bool := ceqb c "_"%char || is_lower c || is_digit c.
Definition is_hash_char (c : ascii) : bool := in_range 97 102 c || is_digit c.

(* suffixRegex, letters+ then digits (maybe none), anchored : (name, number text) *)
Definition match_suffix_part (p : bytes) : option (bytes * bytes) :=
  let name := take_while is_lower p in
  let num := drop_while is_lower p in
  match name with
  | [] => None
  | _ => if all_digits num then Some (name, num) else None
  end.

Definition is_some {A} (o : option A) : bool := match o with Some _ => true | None => false end.

(* the text matched by group 3 is well formed: empty, or "_" part ("_" part)* *)
Definition suffix_group_ok (sp : bytes) : bool :=
  match sp with
  | [] => true
  | c :: r => ceqb c "_"%char && forallb (fun p => is_some (match_suffix_part p)) (split_c "_"%char r)
  end.

(* groups 4 and 5 on the remaining text: (hashPart without "~", buildPart without "-r") *)
Definition match_build (s : bytes) : option bytes :=
  match s with
  | [] => Some []
  | _ => match strip_prefix $"-r" s with
         | Some d => if nonempty_digits d then Some d else None
         | None => None
         end
  end.

Definition match_hash_build (s : bytes) : option (bytes * bytes) :=
  match s with
  | c :: r =>
      if ceqb c "~"%char then
        let h := take_while is_hash_char r in
        match h with
        | [] => None
        | _ => match match_build (drop_while is_hash_char r) with
               | Some b => Some (h, b)
               | None => None
               end
        end
      else match match_build s with Some b => Some ([], b) | None => None end
  | [] => Some ([], [])
  end.

Record groups := {
  g_numeric : bytes;   (* matches[1] *)
  g_letter : bytes;    (* matches[2] *)
  g_suffix : bytes;    (* matches[3] *)
  g_hash : bytes;      (* matches[4] without the leading "~" ("" when absent) *)
  g_build : bytes      (* matches[5] without the leading "-r" ("" when absent) *)
}.

(* versionPattern.FindStringSubmatch *)
Definition match_pattern (t : bytes) : option groups :=
  let np := take_while is_num_char t in
  let r1 := drop_while is_num_char t in
  if forallb nonempty_digits (split_c "."%char np) then
    let '(letter, r2) :=
      match r1 with
      | c :: r => if is_lower c then ([c], r) else ([], r1)
      | [] => ([], [])
      end in
    let sp := take_while is_suffix_char r2 in
    let r3 := drop_while is_suffix_char r2 in
    if suffix_group_ok sp then
      match match_hash_build r3 with
      | Some (h, b) =>
          Some {| g_numeric := np; g_letter := letter; g_suffix := sp; g_hash := h; g_build := b |}
      | None => None
      end
    else None
  else None.

(* ---------- NewVersion ---------- *)

Fixpoint map_opt {A B} (f : A -> option B) (l : list A) : option (list B) :=
  match l with
  | [] => Some []
  | x :: r =>
      match f x with
      | Some y => match map_opt f r with Some ys => Some (y :: ys) | None => None end
      | None => None
      end
  end.

(* parseNumericComponents *)
Definition parse_numcomp (p : bytes) : option numcomp :=
  match atoi p with
  | Some n => Some {| nc_value := n; nc_orig := p |}
  | None => None
  end.
Definition parse_numeric_components (s : bytes) : option (list numcomp) :=
  match s with
  | [] => None
  | _ => map_opt parse_numcomp (split_c "."%char s)
  end.

(* parseSuffixes *)
Definition parse_suffix (p : bytes) : option suffix :=
  match match_suffix_part p with
  | Some (name, num) =>
      match num with
      | [] => Some {| sf_name := name; sf_number := 0%Z |}
      | _ => match atoi num with
             | Some n => Some {| sf_name := name; sf_number := n |}
             | None => None
             end
      end
  | None => None
  end.
Definition parse_suffixes (s : bytes) : option (list suffix) :=
  match s with
  | [] => Some []
  | _ =>
      let parts := filter (fun p => match p with [] => false | _ => true end)
                          (split_c "_"%char (trim_prefix $"_" s)) in
      map_opt parse_suffix parts
  end.

Definition parse_build (b : bytes) : option Z :=
  match b with
  | [] => Some 0%Z
  | _ => atoi b
  end.

(* applied to the trimmed text *)
Definition parse_core (t : bytes) : option core :=
  match t with
  | [] => None
  | _ =>
      match match_pattern t with
      | None => if any_b is_digit t then Some (Invalid t) else None
      | Some g =>
          match parse_numeric_components (g_numeric g) with
          | None => None
          | Some numeric =>
              match parse_suffixes (g_suffix g) with
              | None => None
              | Some suffixes =>
                  match parse_build (g_build g) with
                  | None => None
                  | Some build =>
                      Some (Valid {| vc_numeric := numeric; vc_letter := g_letter g;
                                     vc_suffixes := suffixes; vc_hash := g_hash g;
                                     vc_build := build |})
                  end
              end
          end
      end
  end.

(* ---------- Compare ---------- *)

(* hasLeadingZero *)
Definition has_leading_zero (s : bytes) : bool :=
  match s with
  | c :: _ :: _ => ceqb c "0"%char
  | _ => false
  end.

(* the i > 0 branch of compareNumericArraysNumeric *)
Definition cmp_numcomp (a b : numcomp) : comparison :=
  if has_leading_zero (nc_orig a) || has_leading_zero (nc_orig b)
  then bytes_cmp (nc_orig a) (nc_orig b)
  else Z.compare (nc_value a) (nc_value b).

Definition pad_numcomp : numcomp := {| nc_value := 0%Z; nc_orig := $"0" |}.

(* compareNumericArraysNumeric: index 0 by value, the others by cmp_numcomp, missing
   components are {0, "0"} *)
Definition cmp_numeric (a b : list numcomp) : comparison :=
  thenc (Z.compare (nc_value (hd pad_numcomp a)) (nc_value (hd pad_numcomp b)))
        (lex_pad pad_numcomp cmp_numcomp (tl a) (tl b)).

(* compareLetters *)
Definition cmp_letters (a b : bytes) : comparison :=
  match a, b with
  | [], [] => Eq
  | [], _ => Lt
  | _, [] => Gt
  | _, _ => bytes_cmp a b
  end.

(* compareSuffixes *)
Definition cmp_suffix (a b : suffix) : comparison :=
  let oa := lookup (sf_name a) suffixOrder in
  let ob := lookup (sf_name b) suffixOrder in
  match oa, ob with
  | None, None =>
      thenc (bytes_cmp (sf_name a) (sf_name b)) (Z.compare (sf_number a) (sf_number b))
  | _, _ =>
      let a_order := match oa with Some o => o | None => unknownSuffixPrecedence end in
      let b_order := match ob with Some o => o | None => unknownSuffixPrecedence end in
      thenc (Z.compare a_order b_order) (Z.compare (sf_number a) (sf_number b))
  end.

Definition pad_suffix : suffix := {| sf_name := []; sf_number := 0%Z |}.

(* compareSuffixArrays *)
Definition cmp_suffixes (a b : list suffix) : comparison := lex_pad pad_suffix cmp_suffix a b.

Definition cmp_valid (a b : vcore) : comparison :=
  thenc (cmp_numeric (vc_numeric a) (vc_numeric b))
  (thenc (cmp_letters (vc_letter a) (vc_letter b))
  (thenc (cmp_suffixes (vc_suffixes a) (vc_suffixes b))
  (thenc (bytes_cmp (vc_hash a) (vc_hash b))
         (Z.compare (vc_build a) (vc_build b))))).

Definition cmp_core (a b : core) : comparison :=
  match a, b with
  | Valid _, Invalid _ => Lt
  | Invalid _, Valid _ => Gt
  | Invalid s, Invalid t => bytes_cmp s t
  | Valid x, Valid y => cmp_valid x y
  end.

Definition raw_orig := true.

Definition ver := VLayer.ver core.
Definition parse : bytes -> option ver := VLayer.parse parse_core raw_orig.
Definition cmp : ver -> ver -> comparison := VLayer.cmp cmp_core.
Definition show : ver -> bytes := VLayer.show.
