(* Eco/Alpine/VersionFacts.v — Compare of the alpine model is a total preorder on parsed
   versions (C01), with the facts behind it. *)
From Coq Require Import Lia ZifyBool.
From Verif.Base Require Import Bytes BytesFacts GoNum Ord.
From Verif.Eco.Alpine Require Import OrdMore DecFacts.
From Verif.Eco Require Import VLayer VLayerFacts RangeCoreFacts.
From Verif.Eco.Alpine Require Import Version.
Local Open Scope N_scope.

(* ====================================================================================
   1. numeric components
   ==================================================================================== *)

(* what the parser guarantees about a numericComponent: the text is a digit run and the
   value is its value *)
Definition wf_nc (c : numcomp) : Prop :=
  nonempty_digits (nc_orig c) = true /\ nc_value c = Z.of_N (digits_val (nc_orig c)).

(* The i > 0 rule orders digit runs as:  "0"  <  runs with a leading zero (as text)
   <  non-zero runs without leading zero (by value). *)
Definition nc_key (c : numcomp) : N * bytes * Z :=
  if has_leading_zero (nc_orig c) then (1, nc_orig c, 0%Z)
  else if (nc_value c =? 0)%Z then (0, [], 0%Z)
  else (2, [], nc_value c).

Definition cmp_key3 : N * bytes * Z -> N * bytes * Z -> comparison :=
  lex2 (lex2 N.compare bytes_cmp) Z.compare.

Definition cmp_numcomp_k : numcomp -> numcomp -> comparison := cmp_on nc_key cmp_key3.

Lemma cmp_key3_tp : TotalPreorder cmp_key3.
Proof. apply TP_lex2; [apply TP_lex2; [apply TP_N|apply TP_bytes_cmp]|apply TP_Z]. Qed.

Lemma cmp_numcomp_k_tp : TotalPreorder cmp_numcomp_k.
Proof. apply TP_on, cmp_key3_tp. Qed.

Lemma is_digit_code c : is_digit c = true -> 48 <= code c <= 57.
Proof. unfold is_digit, in_range. cbv zeta. intros H. apply andb_true_iff in H. destruct H as [H1 H2]. apply N.leb_le in H1, H2. lia. Qed.

Lemma ceqb_zero_code c : ceqb c "0"%char = (code c =? 48).
Proof. reflexivity. Qed.

Lemma digits_fold_zero s acc :
  fold_left (fun a c => a * 10 + digit_val c) s acc = 0 -> acc = 0.
Proof.
  revert acc. induction s as [|c s IH]; simpl; intros acc H; [assumption|].
  apply IH in H. lia.
Qed.

(* a digit run without leading zero is "0" or starts with 1..9 and is non-zero *)
Lemma no_lz_shape s :
  nonempty_digits s = true -> has_leading_zero s = false ->
  (s = $"0" /\ digits_val s = 0) \/
  (exists c r, s = c :: r /\ 48 < code c /\ digits_val s <> 0).
Proof.
  intros Hd Hz. destruct s as [|c r]; [discriminate|].
  unfold nonempty_digits in Hd. simpl in Hd. apply andb_true_iff in Hd. destruct Hd as [Hc Hr].
  apply is_digit_code in Hc.
  destruct (code c =? 48) eqn:E0.
  - apply N.eqb_eq in E0.
    destruct r as [|d r].
    + left. assert (c = "0"%char) by (apply code_inj; exact E0). subst. split; reflexivity.
    + simpl in Hz. rewrite ceqb_zero_code in Hz. apply N.eqb_neq in Hz. contradiction.
  - apply N.eqb_neq in E0. right. exists c, r. split; [reflexivity|]. split; [lia|].
    unfold digits_val. simpl. intros H. apply digits_fold_zero in H.
    unfold digit_val in H. lia.
Qed.

Lemma lz_shape s : has_leading_zero s = true -> exists d r, s = "0"%char :: d :: r.
Proof.
  destruct s as [|c [|d r]]; simpl; try discriminate.
  intros H. apply ceqb_eq in H. subst. eauto.
Qed.

Lemma cmp_numcomp_key a b : wf_nc a -> wf_nc b -> cmp_numcomp a b = cmp_numcomp_k a b.
Proof.
  intros [Da Va] [Db Vb].
  unfold cmp_numcomp, cmp_numcomp_k, cmp_on, nc_key, cmp_key3, lex2.
  destruct (has_leading_zero (nc_orig a)) eqn:La; destruct (has_leading_zero (nc_orig b)) eqn:Lb;
    cbn [orb fst snd].
  - rewrite N.compare_refl. cbn [thenc]. symmetry. apply thenc_Eq_r.
  - destruct (lz_shape _ La) as (d & r & Ea).
    destruct (no_lz_shape _ Db Lb) as [[Eb Zb]|(c & r' & Eb & Hc & Nb)].
    + rewrite Vb, Zb. cbn [Z.eqb Z.of_N fst snd]. rewrite Ea, Eb. reflexivity.
    + destruct (nc_value b =? 0)%Z eqn:Z0; [apply Z.eqb_eq in Z0; lia|].
      cbn [fst snd]. rewrite Ea, Eb. cbn [bytes_cmp].
      change (code "0"%char) with 48.
      destruct (N.compare_spec 48 (code c)) as [C|C|C]; [lia| |lia].
      reflexivity.
  - destruct (lz_shape _ Lb) as (d & r & Eb).
    destruct (no_lz_shape _ Da La) as [[Ea Za]|(c & r' & Ea & Hc & Na)].
    + rewrite Va, Za. cbn [Z.eqb Z.of_N fst snd]. rewrite Ea, Eb. reflexivity.
    + destruct (nc_value a =? 0)%Z eqn:Z0; [apply Z.eqb_eq in Z0; lia|].
      cbn [fst snd]. rewrite Ea, Eb. cbn [bytes_cmp].
      change (code "0"%char) with 48.
      destruct (N.compare_spec (code c) 48) as [C|C|C]; [lia|lia|].
      reflexivity.
  - destruct (nc_value a =? 0)%Z eqn:Za; destruct (nc_value b =? 0)%Z eqn:Zb; cbn [fst snd].
    + apply Z.eqb_eq in Za, Zb. rewrite Za, Zb. reflexivity.
    + apply Z.eqb_eq in Za. apply Z.eqb_neq in Zb. rewrite Za.
      cbn [N.compare thenc]. apply Z.compare_lt_iff. lia.
    + apply Z.eqb_eq in Zb. apply Z.eqb_neq in Za. rewrite Zb.
      cbn [N.compare thenc]. apply Z.compare_gt_iff. lia.
    + reflexivity.
Qed.

(* ---------- the numeric array ---------- *)

Definition cmp_numeric_k (a b : list numcomp) : comparison :=
  thenc (Z.compare (nc_value (hd pad_numcomp a)) (nc_value (hd pad_numcomp b)))
        (lex_pad pad_numcomp cmp_numcomp_k (tl a) (tl b)).

Lemma cmp_numeric_k_tp : TotalPreorder cmp_numeric_k.
Proof.
  change cmp_numeric_k with
    (lexc (cmp_on (fun l => nc_value (hd pad_numcomp l)) Z.compare)
          (cmp_on (@tl numcomp) (lex_pad pad_numcomp cmp_numcomp_k))).
  apply TP_lexc; apply TP_on; [apply TP_Z|apply TP_lex_pad, cmp_numcomp_k_tp].
Qed.

Lemma wf_pad_numcomp : wf_nc pad_numcomp.
Proof. split; reflexivity. Qed.

Lemma Forall_tl {A} (P : A -> Prop) l : Forall P l -> Forall P (tl l).
Proof. intros H. destruct H; simpl; [constructor|assumption]. Qed.

Lemma cmp_numeric_key a b :
  Forall wf_nc a -> Forall wf_nc b -> cmp_numeric a b = cmp_numeric_k a b.
Proof.
  intros Ha Hb. unfold cmp_numeric, cmp_numeric_k. f_equal.
  apply (lex_pad_ext_on _ wf_nc); [exact wf_pad_numcomp|exact cmp_numcomp_key| |];
    apply Forall_tl; assumption.
Qed.

(* ====================================================================================
   2. letters, suffixes
   ==================================================================================== *)

Lemma cmp_letters_bytes a b : cmp_letters a b = bytes_cmp a b.
Proof. destruct a; destruct b; reflexivity. Qed.

(* suffix order: (table rank or the unknown rank, name if unknown, number) *)
Definition sf_key (s : suffix) : Z * bytes * Z :=
  match lookup (sf_name s) suffixOrder with
  | Some o => (o, [], sf_number s)
  | None => (unknownSuffixPrecedence, sf_name s, sf_number s)
  end.

Definition cmp_skey : Z * bytes * Z -> Z * bytes * Z -> comparison :=
  lex2 (lex2 Z.compare bytes_cmp) Z.compare.

Lemma cmp_skey_tp : TotalPreorder cmp_skey.
Proof. apply TP_lex2; [apply TP_lex2; [apply TP_Z|apply TP_bytes_cmp]|apply TP_Z]. Qed.

Lemma lookup_in {A} k (t : list (bytes * A)) o : lookup k t = Some o -> In o (map snd t).
Proof.
  induction t as [|[k' v] t IH]; simpl; [discriminate|].
  destruct (beq k k'); [intros H; injection H as ->; auto|auto].
Qed.

(* The only fact about the concrete numbers of the (generated) rank table that the order laws
   need: every rank of the table is below the rank given to unknown suffixes.  It is a computed
   side condition, so any table satisfying it re-proves everything below. *)
Definition ranks_below (table : list (bytes * Z)) (unknown : Z) : bool :=
  forallb (fun kv => (snd kv <? unknown)%Z) table.

Lemma suffixOrder_ranks_below : ranks_below suffixOrder unknownSuffixPrecedence = true.
Proof. vm_compute. reflexivity. Qed.

Lemma ranks_below_in table unknown o :
  ranks_below table unknown = true -> In o (map snd table) -> (o < unknown)%Z.
Proof.
  unfold ranks_below. rewrite forallb_forall. intros H Hin.
  apply in_map_iff in Hin. destruct Hin as (kv & <- & Hkv). apply Z.ltb_lt, H, Hkv.
Qed.

Lemma suffixOrder_below o :
  In o (map snd suffixOrder) -> (o < unknownSuffixPrecedence)%Z.
Proof. apply ranks_below_in, suffixOrder_ranks_below. Qed.

Lemma cmp_suffix_key a b : cmp_suffix a b = cmp_on sf_key cmp_skey a b.
Proof.
  unfold cmp_suffix, cmp_on, sf_key, cmp_skey, lex2.
  destruct (lookup (sf_name a) suffixOrder) as [oa|] eqn:La;
    destruct (lookup (sf_name b) suffixOrder) as [ob|] eqn:Lb; cbn [fst snd].
  - cbn [bytes_cmp]. rewrite thenc_Eq_r. reflexivity.
  - apply lookup_in, suffixOrder_below in La.
    assert (C : (oa ?= unknownSuffixPrecedence)%Z = Lt) by (apply Z.compare_lt_iff; exact La).
    rewrite C. reflexivity.
  - apply lookup_in, suffixOrder_below in Lb.
    assert (C : (unknownSuffixPrecedence ?= ob)%Z = Gt) by (apply Z.compare_gt_iff; exact Lb).
    rewrite C. reflexivity.
  - rewrite Z.compare_refl. reflexivity.
Qed.

Lemma cmp_suffix_tp : TotalPreorder cmp_suffix.
Proof. eapply TP_ext; [exact cmp_suffix_key|]. apply TP_on, cmp_skey_tp. Qed.

Lemma cmp_suffixes_tp : TotalPreorder cmp_suffixes.
Proof. apply TP_lex_pad, cmp_suffix_tp. Qed.

(* ====================================================================================
   3. whole versions
   ==================================================================================== *)

Definition cmp_valid_k : vcore -> vcore -> comparison :=
  lexc (cmp_on vc_numeric cmp_numeric_k)
  (lexc (cmp_on vc_letter bytes_cmp)
  (lexc (cmp_on vc_suffixes cmp_suffixes)
  (lexc (cmp_on vc_hash bytes_cmp)
        (cmp_on vc_build Z.compare)))).

Lemma cmp_valid_k_tp : TotalPreorder cmp_valid_k.
Proof.
  unfold cmp_valid_k.
  apply TP_lexc; [apply TP_on, cmp_numeric_k_tp|].
  apply TP_lexc; [apply TP_on, TP_bytes_cmp|].
  apply TP_lexc; [apply TP_on, cmp_suffixes_tp|].
  apply TP_lexc; [apply TP_on, TP_bytes_cmp|apply TP_on, TP_Z].
Qed.

Definition core_sum (c : core) : vcore + bytes :=
  match c with Valid v => inl v | Invalid t => inr t end.

Definition cmp_core_k : core -> core -> comparison :=
  cmp_on core_sum (sum_cmp cmp_valid_k bytes_cmp).

Lemma cmp_core_k_tp : TotalPreorder cmp_core_k.
Proof. apply TP_on, TP_sum; [apply cmp_valid_k_tp|apply TP_bytes_cmp]. Qed.

(* the parser's invariant *)
Definition wf_vcore (v : vcore) : Prop := Forall wf_nc (vc_numeric v).
Definition wf_core (c : core) : Prop :=
  match c with Valid v => wf_vcore v | Invalid _ => True end.

Lemma cmp_valid_key a b : wf_vcore a -> wf_vcore b -> cmp_valid a b = cmp_valid_k a b.
Proof.
  intros Ha Hb. unfold cmp_valid, cmp_valid_k, lexc, cmp_on.
  rewrite (cmp_numeric_key _ _ Ha Hb), cmp_letters_bytes. reflexivity.
Qed.

Lemma cmp_core_key a b : wf_core a -> wf_core b -> cmp_core a b = cmp_core_k a b.
Proof.
  destruct a as [x|s]; destruct b as [y|t]; simpl; intros Ha Hb; try reflexivity.
  apply cmp_valid_key; assumption.
Qed.

(* C01 on the parsed structure *)
Lemma cmp_core_tp : TotalPreorderOn wf_core cmp_core.
Proof.
  eapply TPO_ext; [exact cmp_core_key|]. apply TPO_of_TP, cmp_core_k_tp.
Qed.

(* ====================================================================================
   4. the parser establishes the invariant
   ==================================================================================== *)

Lemma atoi_digits p :
  nonempty_digits p = true ->
  atoi p = if digits_val p <? two63 then Some (Z.of_N (digits_val p)) else None.
Proof.
  intros H. destruct p as [|c r]; [discriminate|].
  assert (Hc : is_digit c = true).
  { unfold nonempty_digits in H. simpl in H. apply andb_true_iff in H. tauto. }
  apply is_digit_code in Hc.
  unfold atoi.
  assert (E1 : ceqb c "-"%char = false).
  { unfold ceqb. change (code "-"%char) with 45. apply N.eqb_neq. lia. }
  assert (E2 : ceqb c "+"%char = false).
  { unfold ceqb. change (code "+"%char) with 43. apply N.eqb_neq. lia. }
  rewrite E1, E2, H. reflexivity.
Qed.

Lemma parse_numcomp_wf p c :
  nonempty_digits p = true -> parse_numcomp p = Some c -> wf_nc c.
Proof.
  intros Hd. unfold parse_numcomp. rewrite (atoi_digits p Hd).
  destruct (digits_val p <? two63); [|discriminate].
  intros H. injection H as <-. split; [exact Hd|reflexivity].
Qed.

Lemma map_opt_parse_numcomp_wf parts l :
  forallb nonempty_digits parts = true ->
  map_opt parse_numcomp parts = Some l -> Forall wf_nc l.
Proof.
  revert l. induction parts as [|p parts IH]; simpl; intros l Hd H.
  - injection H as <-. constructor.
  - apply andb_true_iff in Hd. destruct Hd as [Hp Hr].
    destruct (parse_numcomp p) as [c|] eqn:Ec; [|discriminate].
    destruct (map_opt parse_numcomp parts) as [cs|] eqn:Er; [|discriminate].
    injection H as <-. constructor; [eapply parse_numcomp_wf; eassumption|].
    apply IH; [assumption|reflexivity].
Qed.

Lemma match_pattern_numeric t g :
  match_pattern t = Some g ->
  forallb nonempty_digits (split_c "."%char (g_numeric g)) = true.
Proof.
  unfold match_pattern.
  destruct (forallb nonempty_digits (split_c "."%char (take_while is_num_char t))) eqn:E;
    [|discriminate].
  destruct (match drop_while is_num_char t with
            | [] => ([], [])
            | c :: r => if is_lower c then ([c], r) else ([], drop_while is_num_char t)
            end) as [letter r2].
  destruct (suffix_group_ok (take_while is_suffix_char r2)); [|discriminate].
  destruct (match_hash_build (drop_while is_suffix_char r2)) as [[h b]|]; [|discriminate].
  intros H. injection H as <-. exact E.
Qed.

Lemma parse_core_wf t c : parse_core t = Some c -> wf_core c.
Proof.
  unfold parse_core. destruct t as [|c0 t0]; [discriminate|].
  set (t := c0 :: t0).
  destruct (match_pattern t) as [g|] eqn:M.
  - pose proof (match_pattern_numeric t g M) as Hn.
    unfold parse_numeric_components.
    destruct (g_numeric g) as [|n0 nr] eqn:En; [discriminate|].
    destruct (map_opt parse_numcomp (split_c "."%char (n0 :: nr))) as [numeric|] eqn:Enum;
      [|discriminate].
    destruct (parse_suffixes (g_suffix g)) as [suffixes|]; [|discriminate].
    destruct (parse_build (g_build g)) as [build|]; [|discriminate].
    intros H. injection H as <-. simpl. unfold wf_vcore. simpl.
    eapply map_opt_parse_numcomp_wf; eassumption.
  - destruct (any_b is_digit t); [|discriminate].
    intros H. injection H as <-. exact I.
Qed.

(* ====================================================================================
   5. C01 for Compare on parsed versions
   ==================================================================================== *)

Definition wf_ver (v : ver) : Prop := wf_core (v_core v).

Lemma parse_wf s v : parse s = Some v -> wf_ver v.
Proof.
  intros H. apply parse_core_of in H. eapply parse_core_wf. exact H.
Qed.

Lemma cmp_tp : TotalPreorderOn wf_ver cmp.
Proof. exact (TPO_on _ _ (@v_core core) wf_core cmp_core cmp_core_tp). Qed.

(* the user-facing statement: the preorder laws hold for any three accepted version strings *)
Theorem cmp_laws s1 s2 s3 v1 v2 v3 :
  parse s1 = Some v1 -> parse s2 = Some v2 -> parse s3 = Some v3 ->
  preorder_laws cmp v1 v2 v3.
Proof.
  intros H1 H2 H3. apply (TPO_laws _ wf_ver cmp cmp_tp); eapply parse_wf; eassumption.
Qed.

(* Compare is NOT a total preorder on arbitrary Version structs: the invariant matters.
   (value and originalStr disagreeing can only be built by hand, never by NewVersion.) *)
Lemma cmp_core_needs_invariant :
  exists a b c, cmp_core a b = Lt /\ cmp_core b c = Lt /\ cmp_core a c <> Lt.
Proof.
  pose (mk := fun n s => Valid {| vc_numeric := [pad_numcomp; {| nc_value := n; nc_orig := s |}];
                                 vc_letter := []; vc_suffixes := []; vc_hash := []; vc_build := 0%Z |}).
  exists (mk 5%Z $"5"), (mk 7%Z $"0"), (mk 3%Z $"03").
  vm_compute. repeat split; try reflexivity; discriminate.
Qed.

(* ====================================================================================
   6. C03: dotted numbers compare as integer tuples; suffix markers
   ==================================================================================== *)

Definition dotted (t : list N) : bytes := join ["."%char] (map dec t).

Definition nc_of (n : N) : numcomp := {| nc_value := Z.of_N n; nc_orig := dec n |}.

Definition plain (t : list N) (sfx : list suffix) : core :=
  Valid {| vc_numeric := map nc_of t; vc_letter := []; vc_suffixes := sfx;
           vc_hash := []; vc_build := 0%Z |}.

Lemma is_digit_num_char c : is_digit c = true -> is_num_char c = true.
Proof. intros H. unfold is_num_char. rewrite H. reflexivity. Qed.

Lemma is_digit_not_dot c : is_digit c = true -> negb (ceqb "."%char c) = true.
Proof.
  intros H. apply is_digit_code in H. apply negb_true_iff. unfold ceqb.
  change (code "."%char) with 46. apply N.eqb_neq. lia.
Qed.

Lemma dotted_num_chars t : forallb is_num_char (dotted t) = true.
Proof.
  apply forallb_join; [reflexivity|].
  induction t as [|n t IH]; simpl; [reflexivity|]. rewrite IH, andb_true_r.
  apply (forallb_weaken is_digit); [exact is_digit_num_char|apply dec_all_digits].
Qed.

Lemma dotted_split t : t <> [] -> split_c "."%char (dotted t) = map dec t.
Proof.
  intros H. apply split_join; [destruct t; [contradiction|discriminate]|].
  clear H. induction t as [|n t IH]; simpl; [reflexivity|]. rewrite IH, andb_true_r.
  apply (forallb_weaken is_digit); [exact is_digit_not_dot|apply dec_all_digits].
Qed.

Lemma dotted_parts_ok t : t <> [] -> forallb nonempty_digits (split_c "."%char (dotted t)) = true.
Proof.
  intros H. rewrite (dotted_split t H). clear H.
  induction t as [|n t IH]; simpl; [reflexivity|]. rewrite IH, dec_nonempty_digits. reflexivity.
Qed.

Lemma dotted_nonempty t : t <> [] -> dotted t <> [].
Proof.
  destruct t as [|n t]; [contradiction|]. intros _.
  apply (join_nonempty _ _ (dec n)); [left; reflexivity|].
  pose proof (dec_nonempty_digits n) as H. destruct (dec n); [discriminate|discriminate].
Qed.

Lemma parse_numcomp_dec n : n < two63 -> parse_numcomp (dec n) = Some (nc_of n).
Proof.
  intros H. unfold parse_numcomp. rewrite (atoi_digits _ (dec_nonempty_digits n)), dec_val.
  apply N.ltb_lt in H. rewrite H. reflexivity.
Qed.

Lemma map_opt_parse_numcomp_dec t :
  Forall (fun n => n < two63) t -> map_opt parse_numcomp (map dec t) = Some (map nc_of t).
Proof.
  induction 1 as [|n t Hn Ht IH]; simpl; [reflexivity|].
  rewrite (parse_numcomp_dec n Hn), IH. reflexivity.
Qed.

Lemma parse_numeric_components_dotted t :
  t <> [] -> Forall (fun n => n < two63) t ->
  parse_numeric_components (dotted t) = Some (map nc_of t).
Proof.
  intros Hne Hb. unfold parse_numeric_components.
  pose proof (dotted_nonempty t Hne) as Hd.
  destruct (dotted t) eqn:E; [contradiction|]. rewrite <- E.
  rewrite (dotted_split t Hne). apply map_opt_parse_numcomp_dec. assumption.
Qed.

(* the pattern on a pure numeric text *)
Lemma match_pattern_numeric_only s :
  forallb is_num_char s = true -> forallb nonempty_digits (split_c "."%char s) = true ->
  match_pattern s = Some {| g_numeric := s; g_letter := []; g_suffix := []; g_hash := []; g_build := [] |}.
Proof.
  intros H1 H2. unfold match_pattern.
  rewrite (take_while_all _ _ H1), (drop_while_all _ _ H1), H2. reflexivity.
Qed.

Lemma parse_core_dotted t :
  t <> [] -> Forall (fun n => n < two63) t -> parse_core (dotted t) = Some (plain t []).
Proof.
  intros Hne Hb. unfold parse_core.
  pose proof (dotted_nonempty t Hne) as Hd.
  destruct (dotted t) eqn:E; [contradiction|]. rewrite <- E.
  rewrite (match_pattern_numeric_only _ (dotted_num_chars t) (dotted_parts_ok t Hne)).
  cbn [g_numeric g_letter g_suffix g_hash g_build].
  rewrite (parse_numeric_components_dotted t Hne Hb). reflexivity.
Qed.

(* ---------- comparing plain numeric versions ---------- *)

Lemma has_leading_zero_dec n : has_leading_zero (dec n) = false.
Proof.
  destruct (N.eq_dec n 0) as [->|H]; [reflexivity|].
  destruct (dec_hd n H) as (c & r & E & Hc). rewrite E. simpl.
  destruct r; [reflexivity|]. unfold ceqb. change (code "0"%char) with 48. apply N.eqb_neq. lia.
Qed.

Lemma cmp_numcomp_of x y : cmp_numcomp (nc_of x) (nc_of y) = (x ?= y).
Proof.
  unfold cmp_numcomp, nc_of. cbn [nc_orig nc_value]. rewrite !has_leading_zero_dec.
  cbn [orb]. apply N2Z.inj_compare.
Qed.

Lemma lex_short_map_nc_of t1 t2 :
  lex_short cmp_numcomp (map nc_of t1) (map nc_of t2) = lex_short N.compare t1 t2.
Proof.
  revert t2. induction t1 as [|x t1 IH]; intros [|y t2]; simpl; try reflexivity.
  rewrite cmp_numcomp_of, IH. reflexivity.
Qed.

Lemma cmp_numeric_of t1 t2 :
  length t1 = length t2 -> cmp_numeric (map nc_of t1) (map nc_of t2) = lex_short N.compare t1 t2.
Proof.
  intros H. unfold cmp_numeric.
  destruct t1 as [|x t1]; destruct t2 as [|y t2]; try discriminate; [reflexivity|].
  cbn [map hd tl nc_of nc_value lex_short]. rewrite N2Z.inj_compare. f_equal.
  rewrite lex_pad_same_length by (rewrite !map_length; simpl in H; congruence).
  apply lex_short_map_nc_of.
Qed.

Lemma cmp_core_plain t1 t2 :
  length t1 = length t2 -> cmp_core (plain t1 []) (plain t2 []) = lex_short N.compare t1 t2.
Proof.
  intros H. unfold plain, cmp_core, cmp_valid.
  cbn [vc_numeric vc_letter vc_suffixes vc_hash vc_build].
  rewrite (cmp_numeric_of t1 t2 H). cbn. apply thenc_Eq_r.
Qed.

Lemma is_num_char_not_space c : is_num_char c = true -> negb (is_space c) = true.
Proof.
  unfold is_num_char. intros H. apply orb_true_iff in H. destruct H as [H|H].
  - apply is_digit_code in H. apply negb_true_iff. unfold is_space. cbv zeta.
    apply orb_false_iff. split; [apply N.eqb_neq; lia|].
    apply andb_false_iff. right. apply N.leb_gt. lia.
  - apply ceqb_eq in H. subst. reflexivity.
Qed.

Lemma parse_dotted t :
  t <> [] -> Forall (fun n => n < two63) t ->
  parse (dotted t) = Some {| v_core := plain t []; v_orig := dotted t |}.
Proof.
  intros Hne Hb. unfold parse, VLayer.parse.
  rewrite trim_space_no_space.
  - rewrite (parse_core_dotted t Hne Hb). reflexivity.
  - apply (forallb_weaken is_num_char); [exact is_num_char_not_space|apply dotted_num_chars].
Qed.

(* C03: for every arity n >= 1, "a1.a2...an" is accepted, and two such texts of the same
   arity compare as the integer tuples (components below 2^63, the Atoi limit) *)
Theorem c03_numeric_tuples t1 t2 :
  t1 <> [] -> length t1 = length t2 ->
  Forall (fun n => n < two63) t1 -> Forall (fun n => n < two63) t2 ->
  exists v1 v2, parse (dotted t1) = Some v1 /\ parse (dotted t2) = Some v2 /\
                cmp v1 v2 = lex_short N.compare t1 t2.
Proof.
  intros Hne Hl H1 H2.
  assert (Hne2 : t2 <> []) by (destruct t1; destruct t2; try discriminate; congruence).
  eexists. eexists. split; [apply (parse_dotted t1 Hne H1)|].
  split; [apply (parse_dotted t2 Hne2 H2)|].
  unfold cmp, VLayer.cmp. cbn [v_core]. apply cmp_core_plain. assumption.
Qed.

(* ---------- suffix markers, on the parsed structure ---------- *)

Definition with_suffixes (v : vcore) (sfx : list suffix) : vcore :=
  {| vc_numeric := vc_numeric v; vc_letter := vc_letter v; vc_suffixes := sfx;
     vc_hash := vc_hash v; vc_build := vc_build v |}.

Lemma cmp_numeric_refl a : Forall wf_nc a -> cmp_numeric a a = Eq.
Proof. intros H. rewrite (cmp_numeric_key a a H H). apply (tp_refl cmp_numeric_k_tp). Qed.

(* one more suffix at the end: decided by that suffix against "no suffix" *)
Lemma cmp_valid_extra_suffix v s :
  wf_vcore v -> cmp_valid (with_suffixes v (vc_suffixes v ++ [s])) v = cmp_suffix s pad_suffix.
Proof.
  intros H. unfold cmp_valid, with_suffixes. cbn [vc_numeric vc_letter vc_suffixes vc_hash vc_build].
  rewrite (cmp_numeric_refl _ H), cmp_letters_bytes, (tp_refl TP_bytes_cmp).
  unfold cmp_suffixes. rewrite (lex_pad_snoc_l _ cmp_suffix pad_suffix (tp_refl cmp_suffix_tp)).
  rewrite (tp_refl TP_bytes_cmp), Z.compare_refl. cbn [thenc]. apply thenc_Eq_r.
Qed.

Lemma cmp_suffix_vs_pad name n o r :
  lookup name suffixOrder = Some o -> lookup [] suffixOrder = Some r -> o <> r ->
  cmp_suffix {| sf_name := name; sf_number := n |} pad_suffix = (o ?= r)%Z.
Proof.
  intros Ho Hr Hne. unfold cmp_suffix, pad_suffix. cbn [sf_name sf_number]. rewrite Ho, Hr.
  destruct (o ?= r)%Z eqn:C; try reflexivity. apply Z.compare_eq in C. contradiction.
Qed.

(* a suffix the table does not know ranks above "no suffix" *)
Lemma cmp_suffix_unknown_vs_pad name n :
  lookup name suffixOrder = None ->
  cmp_suffix {| sf_name := name; sf_number := n |} pad_suffix = Gt.
Proof.
  intros Ho. unfold cmp_suffix, pad_suffix. cbn [sf_name sf_number]. rewrite Ho.
  destruct (lookup [] suffixOrder) as [r|] eqn:Hr; [|discriminate].
  apply lookup_in, suffixOrder_below in Hr.
  assert (C : (unknownSuffixPrecedence ?= r)%Z = Gt) by (apply Z.compare_gt_iff; exact Hr).
  rewrite C. reflexivity.
Qed.

Definition pre_markers : list bytes := [$"alpha"; $"beta"; $"pre"; $"rc"].
Definition post_markers : list bytes := [$"cvs"; $"svn"; $"git"; $"hg"; $"p"].

Lemma cmp_suffix_pre name n :
  In name pre_markers -> cmp_suffix {| sf_name := name; sf_number := n |} pad_suffix = Lt.
Proof.
  intros H. simpl in H.
  repeat (destruct H as [<-|H];
    [eapply eq_trans; [eapply cmp_suffix_vs_pad; [reflexivity|reflexivity|discriminate]|reflexivity]|]).
  contradiction.
Qed.

Lemma cmp_suffix_post name n :
  In name post_markers -> cmp_suffix {| sf_name := name; sf_number := n |} pad_suffix = Gt.
Proof.
  intros H. simpl in H.
  repeat (destruct H as [<-|H];
    [eapply eq_trans; [eapply cmp_suffix_vs_pad; [reflexivity|reflexivity|discriminate]|reflexivity]|]).
  contradiction.
Qed.

(* C03 on parsed versions: appending _alpha/_beta/_pre/_rc (any number) makes a version
   older, appending _cvs/_svn/_git/_hg/_p or an unknown suffix makes it newer *)
Theorem pre_release_lt v name n :
  wf_vcore v -> In name pre_markers ->
  cmp_valid (with_suffixes v (vc_suffixes v ++ [{| sf_name := name; sf_number := n |}])) v = Lt.
Proof. intros Hv Hn. rewrite (cmp_valid_extra_suffix v _ Hv). apply cmp_suffix_pre, Hn. Qed.

Theorem post_release_gt v name n :
  wf_vcore v -> In name post_markers ->
  cmp_valid (with_suffixes v (vc_suffixes v ++ [{| sf_name := name; sf_number := n |}])) v = Gt.
Proof. intros Hv Hn. rewrite (cmp_valid_extra_suffix v _ Hv). apply cmp_suffix_post, Hn. Qed.

Theorem unknown_suffix_gt v name n :
  wf_vcore v -> lookup name suffixOrder = None ->
  cmp_valid (with_suffixes v (vc_suffixes v ++ [{| sf_name := name; sf_number := n |}])) v = Gt.
Proof. intros Hv Hn. rewrite (cmp_valid_extra_suffix v _ Hv). apply cmp_suffix_unknown_vs_pad, Hn. Qed.

(* ---------- suffix markers, on version texts ---------- *)

Lemma take_while_app_stop p (a : bytes) c b :
  forallb p a = true -> p c = false -> take_while p (a ++ c :: b) = a.
Proof.
  intros Ha Hc. induction a as [|x a IH]; simpl in *.
  - rewrite Hc. reflexivity.
  - apply andb_true_iff in Ha. destruct Ha as [Hx Ha]. rewrite Hx, (IH Ha). reflexivity.
Qed.

Lemma drop_while_app_stop p (a : bytes) c b :
  forallb p a = true -> p c = false -> drop_while p (a ++ c :: b) = c :: b.
Proof.
  intros Ha Hc. rewrite (drop_while_app_all p a (c :: b) Ha). simpl. rewrite Hc. reflexivity.
Qed.

Lemma take_while_app_none p (a b : bytes) :
  forallb p a = true -> forallb (fun c => negb (p c)) b = true -> take_while p (a ++ b) = a.
Proof.
  intros Ha Hb. destruct b as [|c b].
  - rewrite app_nil_r. apply take_while_all. assumption.
  - simpl in Hb. apply andb_true_iff in Hb. destruct Hb as [Hc _]. apply negb_true_iff in Hc.
    apply take_while_app_stop; assumption.
Qed.

Lemma drop_while_app_none p (a b : bytes) :
  forallb p a = true -> forallb (fun c => negb (p c)) b = true -> drop_while p (a ++ b) = b.
Proof.
  intros Ha Hb. rewrite (drop_while_app_all p a b Ha). destruct b as [|c b]; [reflexivity|].
  simpl in *. apply andb_true_iff in Hb. destruct Hb as [Hc _]. apply negb_true_iff in Hc.
  rewrite Hc. reflexivity.
Qed.

Lemma is_digit_not_lower c : is_digit c = true -> negb (is_lower c) = true.
Proof.
  intros H. apply is_digit_code in H. apply negb_true_iff. unfold is_lower, in_range. cbv zeta.
  apply andb_false_iff. left. apply N.leb_gt. lia.
Qed.

Lemma is_lower_code c : is_lower c = true -> 97 <= code c <= 122.
Proof.
  unfold is_lower, in_range. cbv zeta. intros H. apply andb_true_iff in H.
  destruct H as [H1 H2]. apply N.leb_le in H1, H2. lia.
Qed.

Lemma is_lower_suffix_char c : is_lower c = true -> is_suffix_char c = true.
Proof. intros H. unfold is_suffix_char. rewrite H, orb_true_r. reflexivity. Qed.
Lemma is_digit_suffix_char c : is_digit c = true -> is_suffix_char c = true.
Proof. intros H. unfold is_suffix_char. rewrite H. apply orb_true_r. Qed.

Lemma is_lower_not_us c : is_lower c = true -> negb (ceqb "_"%char c) = true.
Proof.
  intros H. apply is_lower_code in H. apply negb_true_iff. unfold ceqb.
  change (code "_"%char) with 95. apply N.eqb_neq. lia.
Qed.
Lemma is_digit_not_us c : is_digit c = true -> negb (ceqb "_"%char c) = true.
Proof.
  intros H. apply is_digit_code in H. apply negb_true_iff. unfold ceqb.
  change (code "_"%char) with 95. apply N.eqb_neq. lia.
Qed.

(* one suffix part: letters then digits *)
Lemma match_suffix_part_ok name num :
  name <> [] -> forallb is_lower name = true -> all_digits num = true ->
  match_suffix_part (name ++ num) = Some (name, num).
Proof.
  intros Hne Hl Hd. unfold match_suffix_part.
  assert (Hn : forallb (fun c => negb (is_lower c)) num = true)
    by (apply (forallb_weaken is_digit); [exact is_digit_not_lower|exact Hd]).
  rewrite (take_while_app_none _ _ _ Hl Hn), (drop_while_app_none _ _ _ Hl Hn), Hd.
  destruct name; [contradiction|reflexivity].
Qed.

(* the text of one suffix: "_" name digits *)
Definition sfx_text (name num : bytes) : bytes := "_"%char :: name ++ num.

Section OneSuffix.
  Variables name num : bytes.
  Hypothesis Hne : name <> [].
  Hypothesis Hl : forallb is_lower name = true.
  Hypothesis Hd : all_digits num = true.

  Lemma sfx_body_no_us : no_sep "_"%char (name ++ num) = true.
  Proof.
    unfold no_sep. rewrite forallb_app.
    rewrite (forallb_weaken _ _ name is_lower_not_us Hl).
    rewrite (forallb_weaken _ _ num is_digit_not_us Hd). reflexivity.
  Qed.

  Lemma sfx_text_chars : forallb is_suffix_char (sfx_text name num) = true.
  Proof.
    unfold sfx_text. cbn [forallb]. rewrite forallb_app.
    rewrite (forallb_weaken _ _ name is_lower_suffix_char Hl).
    rewrite (forallb_weaken _ _ num is_digit_suffix_char Hd). reflexivity.
  Qed.

  Lemma sfx_group_ok : suffix_group_ok (sfx_text name num) = true.
  Proof.
    unfold suffix_group_ok, sfx_text. rewrite ceqb_refl.
    rewrite (split_c_no_sep _ _ sfx_body_no_us). cbn [forallb andb].
    rewrite (match_suffix_part_ok name num Hne Hl Hd). reflexivity.
  Qed.

  Lemma match_pattern_one_suffix s :
    forallb is_num_char s = true -> forallb nonempty_digits (split_c "."%char s) = true ->
    match_pattern (s ++ sfx_text name num) =
    Some {| g_numeric := s; g_letter := []; g_suffix := sfx_text name num; g_hash := []; g_build := [] |}.
  Proof.
    intros H1 H2.
    pose proof sfx_text_chars as C. pose proof sfx_group_ok as G.
    unfold sfx_text in *. unfold match_pattern.
    rewrite (take_while_app_stop _ s "_"%char (name ++ num) H1 eq_refl).
    rewrite (drop_while_app_stop _ s "_"%char (name ++ num) H1 eq_refl).
    rewrite H2. change (is_lower "_"%char) with false. cbv iota beta.
    rewrite (take_while_all _ _ C), (drop_while_all _ _ C), G. reflexivity.
  Qed.

  Lemma parse_suffixes_one n :
    match num with [] => Some 0%Z | _ => atoi num end = Some n ->
    parse_suffixes (sfx_text name num) = Some [{| sf_name := name; sf_number := n |}].
  Proof.
    intros Hn. unfold parse_suffixes, sfx_text.
    change (trim_prefix $"_" ("_"%char :: name ++ num)) with (name ++ num).
    rewrite (split_c_no_sep _ _ sfx_body_no_us). cbn [filter].
    destruct (name ++ num) eqn:E; [destruct name; [contradiction|discriminate]|]. rewrite <- E.
    cbn [map_opt]. unfold parse_suffix. rewrite (match_suffix_part_ok name num Hne Hl Hd).
    destruct num; [injection Hn as <-; reflexivity|]. rewrite Hn. reflexivity.
  Qed.
End OneSuffix.

(* optional suffix number *)
Definition num_text (k : option N) : bytes := match k with Some k => dec k | None => [] end.
Definition num_val (k : option N) : Z := match k with Some k => Z.of_N k | None => 0%Z end.

Lemma parse_core_dotted_suffix t name k :
  t <> [] -> Forall (fun n => n < two63) t ->
  name <> [] -> forallb is_lower name = true ->
  match k with Some k => k < two63 | None => True end ->
  parse_core (dotted t ++ sfx_text name (num_text k)) =
  Some (plain t [{| sf_name := name; sf_number := num_val k |}]).
Proof.
  intros Hne Hb Hn Hl Hk. unfold parse_core.
  assert (Hd : all_digits (num_text k) = true) by (destruct k; [apply dec_all_digits|reflexivity]).
  destruct (dotted t ++ sfx_text name (num_text k)) eqn:E.
  { apply app_eq_nil in E. destruct E as [_ E]. discriminate. }
  rewrite <- E.
  rewrite (match_pattern_one_suffix name _ Hn Hl Hd _ (dotted_num_chars t) (dotted_parts_ok t Hne)).
  cbn [g_numeric g_letter g_suffix g_hash g_build].
  rewrite (parse_numeric_components_dotted t Hne Hb).
  rewrite (parse_suffixes_one name _ Hn Hl Hd (num_val k)); [reflexivity|].
  destruct k as [k|]; [|reflexivity]. cbn [num_text num_val].
  pose proof (dec_nonempty_digits k) as Hnd.
  destruct (dec k) eqn:Ek; [discriminate|]. rewrite <- Ek in *.
  rewrite (atoi_digits _ Hnd), dec_val. apply N.ltb_lt in Hk. rewrite Hk. reflexivity.
Qed.

Lemma is_suffix_char_not_space c : is_suffix_char c = true -> negb (is_space c) = true.
Proof.
  unfold is_suffix_char. intros H. apply orb_true_iff in H. destruct H as [H|H].
  - apply orb_true_iff in H. destruct H as [H|H].
    + apply ceqb_eq in H. subst. reflexivity.
    + apply is_lower_code in H. apply negb_true_iff. unfold is_space. cbv zeta.
      apply orb_false_iff. split; [apply N.eqb_neq; lia|].
      apply andb_false_iff. right. apply N.leb_gt. lia.
  - apply is_digit_code in H. apply negb_true_iff. unfold is_space. cbv zeta.
    apply orb_false_iff. split; [apply N.eqb_neq; lia|].
    apply andb_false_iff. right. apply N.leb_gt. lia.
Qed.

Lemma parse_dotted_suffix t name k :
  t <> [] -> Forall (fun n => n < two63) t ->
  name <> [] -> forallb is_lower name = true ->
  match k with Some k => k < two63 | None => True end ->
  exists v, parse (dotted t ++ sfx_text name (num_text k)) = Some v /\
            v_core v = plain t [{| sf_name := name; sf_number := num_val k |}].
Proof.
  intros Hne Hb Hn Hl Hk. unfold parse, VLayer.parse.
  assert (Hd : all_digits (num_text k) = true) by (destruct k; [apply dec_all_digits|reflexivity]).
  rewrite trim_space_no_space.
  - rewrite (parse_core_dotted_suffix t name k Hne Hb Hn Hl Hk). eexists. split; reflexivity.
  - unfold no_space. rewrite forallb_app.
    rewrite (forallb_weaken _ _ _ is_num_char_not_space (dotted_num_chars t)).
    rewrite (forallb_weaken _ _ _ is_suffix_char_not_space (sfx_text_chars name _ Hl Hd)).
    reflexivity.
Qed.

Lemma wf_nc_of n : wf_nc (nc_of n).
Proof. split; [apply dec_nonempty_digits|]. cbn [nc_of nc_value nc_orig]. rewrite dec_val. reflexivity. Qed.

Lemma wf_plain t sfx : wf_core (plain t sfx).
Proof.
  simpl. unfold wf_vcore. cbn [vc_numeric]. induction t; simpl; constructor; [apply wf_nc_of|assumption].
Qed.

(* C03, markers: "X_alpha[N]", "X_beta[N]", "X_pre[N]", "X_rc[N]" are older than "X";
   "X_cvs[N]", "X_svn[N]", "X_git[N]", "X_hg[N]", "X_p[N]" are newer *)
Theorem c03_markers t name k :
  t <> [] -> Forall (fun n => n < two63) t ->
  In name (pre_markers ++ post_markers) ->
  match k with Some k => k < two63 | None => True end ->
  exists v1 v0,
    parse (dotted t ++ sfx_text name (num_text k)) = Some v1 /\ parse (dotted t) = Some v0 /\
    cmp v1 v0 = if mem name pre_markers then Lt else Gt.
Proof.
  intros Hne Hb Hin Hk.
  assert (Hname : name <> [] /\ forallb is_lower name = true).
  { simpl in Hin. repeat (destruct Hin as [<-|Hin]; [split; [discriminate|reflexivity]|]). contradiction. }
  destruct Hname as [Hn Hl].
  destruct (parse_dotted_suffix t name k Hne Hb Hn Hl Hk) as (v1 & P1 & C1).
  exists v1. eexists. split; [exact P1|]. split; [apply (parse_dotted t Hne Hb)|].
  unfold cmp, VLayer.cmp. rewrite C1. cbn [v_core].
  pose proof (wf_plain t []) as W. simpl in W.
  set (v0 := {| vc_numeric := map nc_of t; vc_letter := []; vc_suffixes := []; vc_hash := []; vc_build := 0%Z |}) in *.
  set (sf := {| sf_name := name; sf_number := num_val k |}).
  change (cmp_valid (with_suffixes v0 (vc_suffixes v0 ++ [sf])) v0 = if mem name pre_markers then Lt else Gt).
  subst sf.
  apply in_app_or in Hin. destruct Hin as [Hin|Hin].
  - rewrite (pre_release_lt _ name (num_val k) W Hin).
    simpl in Hin. repeat (destruct Hin as [<-|Hin]; [reflexivity|]). contradiction.
  - rewrite (post_release_gt _ name (num_val k) W Hin).
    simpl in Hin. repeat (destruct Hin as [<-|Hin]; [reflexivity|]). contradiction.
Qed.

(* ---------- letter and build revision, on the parsed structure ---------- *)

Definition with_letter (v : vcore) (l : bytes) : vcore :=
  {| vc_numeric := vc_numeric v; vc_letter := l; vc_suffixes := vc_suffixes v;
     vc_hash := vc_hash v; vc_build := vc_build v |}.
Definition with_build (v : vcore) (b : Z) : vcore :=
  {| vc_numeric := vc_numeric v; vc_letter := vc_letter v; vc_suffixes := vc_suffixes v;
     vc_hash := vc_hash v; vc_build := b |}.

(* "1.2a" is newer than "1.2" *)
Theorem letter_gt v c :
  wf_vcore v -> vc_letter v = [] -> cmp_valid (with_letter v [c]) v = Gt.
Proof.
  intros H E. unfold cmp_valid, with_letter. cbn [vc_numeric vc_letter vc_suffixes vc_hash vc_build].
  rewrite (cmp_numeric_refl _ H), E. reflexivity.
Qed.

(* versions differing only in -rN compare by N *)
Theorem build_cmp v b1 b2 :
  wf_vcore v -> cmp_valid (with_build v b1) (with_build v b2) = (b1 ?= b2)%Z.
Proof.
  intros H. unfold cmp_valid, with_build. cbn [vc_numeric vc_letter vc_suffixes vc_hash vc_build].
  rewrite (cmp_numeric_refl _ H), cmp_letters_bytes, (tp_refl TP_bytes_cmp).
  rewrite (tp_refl cmp_suffixes_tp), (tp_refl TP_bytes_cmp). reflexivity.
Qed.

(* the string-only versions sort after every pattern version *)
Lemma valid_lt_invalid v t : cmp_core (Valid v) (Invalid t) = Lt.
Proof. reflexivity. Qed.
