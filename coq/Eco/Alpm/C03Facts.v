(* Eco/Alpm/C03Facts.v — property C03 for alpm: dotted numeric tuples order as integer tuples
   (components unbounded: pkgver digit runs are compared as texts, never converted); a letter
   run glued to the last number makes the version older ("1.0rc" < "1.0"); anything that
   starts with a delimiter makes it newer ("1.0" < "1.0.a", "1.0" < "1.0.1"). *)
From Coq Require Import Lia.
From Verif.Base Require Import Bytes GoNum Ord BytesFacts.
From Verif.Eco.Alpm Require Import DecFacts.
From Verif.Eco Require Import VLayer VLayerFacts RangeCoreFacts.
From Verif.Eco.Alpm Require Import Version VersionFacts.
Local Open Scope N_scope.

(* ---------- characters ---------- *)

(* pkgver characters other than '-' *)
Definition plain (c : ascii) : bool := valid_char c && negb (ceqb c "-"%char).

Lemma plain_facts c :
  plain c = true ->
  valid_char c = true /\ ceqb ":"%char c = false /\ ceqb "-"%char c = false /\ is_space c = false.
Proof.
  destruct c as [b0 b1 b2 b3 b4 b5 b6 b7].
  destruct b0, b1, b2, b3, b4, b5, b6, b7; vm_compute; intros H; try discriminate H;
    repeat split.
Qed.

Lemma digit_facts c :
  is_digit c = true -> is_letter c = false /\ plain c = true.
Proof.
  destruct c as [b0 b1 b2 b3 b4 b5 b6 b7].
  destruct b0, b1, b2, b3, b4, b5, b6, b7; vm_compute; intros H; try discriminate H;
    repeat split.
Qed.

Lemma letter_facts c :
  is_letter c = true -> is_digit c = false /\ plain c = true.
Proof.
  destruct c as [b0 b1 b2 b3 b4 b5 b6 b7].
  destruct b0, b1, b2, b3, b4, b5, b6, b7; vm_compute; intros H; try discriminate H;
    repeat split.
Qed.

Lemma forallb_impl {A} (p q : A -> bool) l :
  (forall x, p x = true -> q x = true) -> forallb p l = true -> forallb q l = true.
Proof.
  intros I. induction l as [|x l IH]; [reflexivity|]. cbn [forallb].
  rewrite !andb_true_iff. intros [H1 H2]. auto.
Qed.

(* ---------- parsing a text without ':' and '-' ---------- *)

Lemma cut_c_none c s :
  forallb (fun x => negb (ceqb c x)) s = true -> cut [c] s = None.
Proof.
  induction s as [|y s IH]; [reflexivity|].
  cbn [forallb]. rewrite andb_true_iff. intros [Hy Hs].
  cbn [cut has_prefix]. apply negb_true_iff in Hy. rewrite Hy. cbn [andb].
  rewrite (IH Hs). reflexivity.
Qed.

Lemma parse_plain s :
  s <> [] -> forallb plain s = true ->
  parse_core s = Some {| c_epoch := 0; c_pkgver := s; c_pkgrel := 0; c_has_pkgrel := false |}.
Proof.
  intros Hne Hp.
  assert (Hcolon : cut $":" s = None).
  { apply cut_c_none. eapply forallb_impl; [|exact Hp].
    intros x Hx. destruct (plain_facts x Hx) as (_ & H & _). rewrite H. reflexivity. }
  assert (Hhyph : cut_last_c "-"%char s = None).
  { unfold cut_last_c. rewrite cut_c_none; [reflexivity|]. rewrite forallb_rev.
    eapply forallb_impl; [|exact Hp].
    intros x Hx. destruct (plain_facts x Hx) as (_ & _ & H & _). rewrite H. reflexivity. }
  assert (Hvalid : forallb valid_char s = true).
  { eapply forallb_impl; [|exact Hp]. intros x Hx. apply (plain_facts x Hx). }
  unfold parse_core, split_epoch, split_pkgrel.
  destruct s as [|c s]; [contradiction|].
  rewrite Hcolon, Hhyph. cbn iota. rewrite Hvalid. reflexivity.
Qed.

Lemma plain_no_space s : forallb plain s = true -> no_space s = true.
Proof.
  unfold no_space. apply forallb_impl. intros x Hx.
  destruct (plain_facts x Hx) as (_ & _ & _ & H). rewrite H. reflexivity.
Qed.

(* ---------- segments of digit runs and letter runs ---------- *)

Lemma split_segs_digits ds : forall cur last rest,
  ds <> [] -> forallb is_digit ds = true -> (last = None \/ last = Some false) ->
  split_segs cur last (ds ++ rest) = split_segs (rev ds ++ cur) (Some false) rest.
Proof.
  induction ds as [|c ds IH]; intros cur last rest Hne Hd Hl; [contradiction|].
  cbn [forallb] in Hd. apply andb_true_iff in Hd. destruct Hd as [Hc Hd].
  destruct (digit_facts c Hc) as [Lc _].
  assert (Step : split_segs cur last ((c :: ds) ++ rest) =
                 split_segs (c :: cur) (Some false) (ds ++ rest)).
  { cbn [app split_segs]. rewrite Lc, Hc. cbn [orb].
    destruct Hl as [-> | ->]; reflexivity. }
  rewrite Step. destruct ds as [|d ds].
  - reflexivity.
  - rewrite IH; [|discriminate|exact Hd|right; reflexivity].
    cbn [rev]. rewrite <- !app_assoc. reflexivity.
Qed.

Lemma split_segs_letters_same ws : forall cur rest,
  forallb is_letter ws = true ->
  split_segs cur (Some true) (ws ++ rest) = split_segs (rev ws ++ cur) (Some true) rest.
Proof.
  induction ws as [|c ws IH]; intros cur rest Hw; [reflexivity|].
  cbn [forallb] in Hw. apply andb_true_iff in Hw. destruct Hw as [Hc Hw].
  cbn [app split_segs]. rewrite Hc. cbn [orb Bool.eqb].
  rewrite IH by exact Hw. cbn [rev]. rewrite <- app_assoc. reflexivity.
Qed.

Lemma split_segs_end cur last : cur <> [] -> split_segs cur last [] = [rev cur].
Proof. intros H. destruct cur; [contradiction|reflexivity]. Qed.

(* a letter run right after a digit run: the digit run is closed, the letters form one segment *)
Lemma split_segs_digits_then_letters cur c ws :
  cur <> [] -> forallb is_letter (c :: ws) = true ->
  split_segs cur (Some false) (c :: ws) = [rev cur; c :: ws].
Proof.
  intros Hcur Hw. cbn [forallb] in Hw. apply andb_true_iff in Hw. destruct Hw as [Hc Hw].
  cbn [split_segs]. rewrite Hc. cbn [orb Bool.eqb]. f_equal.
  pose proof (split_segs_letters_same ws [c] [] Hw) as S. rewrite app_nil_r in S.
  rewrite S. rewrite split_segs_end by (destruct (rev ws); discriminate).
  rewrite rev_app_distr, rev_involutive. reflexivity.
Qed.

(* a delimiter right after a digit run *)
Lemma split_segs_delim cur last c rest :
  cur <> [] -> is_letter c = false -> is_digit c = false ->
  split_segs cur last (c :: rest) = rev cur :: [] :: split_segs [] None rest.
Proof.
  intros H Hl Hd. cbn [split_segs]. rewrite Hl, Hd. cbn [orb].
  destruct cur; [contradiction|reflexivity].
Qed.

(* ---------- dotted tuples ---------- *)

Definition dots (t : list N) : bytes := join $"." (map dec t).

(* segments of [dots t ++ rest]: number, "", number, "", ..., and the last number's run is still
   open when [rest] begins *)
Fixpoint segs_with (t : list N) (rest : bytes) : list bytes :=
  match t with
  | [] => split_segs [] None rest
  | n :: t' =>
      match t' with
      | [] => split_segs (rev (dec n)) (Some false) rest
      | _ => dec n :: [] :: segs_with t' rest
      end
  end.

Lemma rev_dec_nonempty n : rev (dec n) <> [].
Proof.
  pose proof (dec_nonempty n) as H. destruct (dec n) as [|c d]; [contradiction|].
  cbn [rev]. destruct (rev d); discriminate.
Qed.

Lemma dots_cons n m t : dots (n :: m :: t) = dec n ++ "."%char :: dots (m :: t).
Proof. reflexivity. Qed.

Lemma split_dots t rest :
  t <> [] -> split_segs [] None (dots t ++ rest) = segs_with t rest.
Proof.
  induction t as [|n t IH]; intros Hne; [contradiction|].
  destruct t as [|m t].
  - unfold dots. cbn [map join segs_with].
    rewrite split_segs_digits; [|apply dec_nonempty|apply dec_digits|left; reflexivity].
    rewrite app_nil_r. reflexivity.
  - rewrite dots_cons. cbn [segs_with]. rewrite <- app_assoc.
    rewrite split_segs_digits; [|apply dec_nonempty|apply dec_digits|left; reflexivity].
    rewrite app_nil_r. cbn [app].
    rewrite split_segs_delim; [|apply rev_dec_nonempty|reflexivity|reflexivity].
    rewrite rev_involutive. rewrite IH by discriminate. reflexivity.
Qed.

Lemma dots_nonempty t : t <> [] -> dots t <> [].
Proof.
  destruct t as [|n t]; [contradiction|]. intros _.
  pose proof (dec_nonempty n) as H.
  destruct t as [|m t]; [exact H|]. rewrite dots_cons.
  destruct (dec n); [contradiction|discriminate].
Qed.

Lemma dec_plain n : forallb plain (dec n) = true.
Proof.
  eapply forallb_impl; [|apply dec_digits]. intros x Hx. apply (digit_facts x Hx).
Qed.

Lemma dots_plain t : forallb plain (dots t) = true.
Proof.
  induction t as [|n t IH]; [reflexivity|].
  destruct t as [|m t]; [apply dec_plain|].
  rewrite dots_cons, forallb_app, dec_plain. cbn [forallb andb].
  rewrite IH. reflexivity.
Qed.

(* ---------- comparison of the segment lists ---------- *)

Lemma cmp_seg_refl x : cmp_seg x x = Eq.
Proof. exact (tp_refl ocmp_tp (Some x)). Qed.

Lemma cmp_seg_dec a b : cmp_seg (dec a) (dec b) = (a ?= b).
Proof.
  pose proof (dec_nonempty a) as Ha. pose proof (dec_nonempty b) as Hb.
  pose proof (dec_digits a) as Da. pose proof (dec_digits b) as Db.
  rewrite <- digits_cmp_dec.
  destruct (dec a) as [|x da]; [contradiction|]. destruct (dec b) as [|y db]; [contradiction|].
  cbn [forallb] in Da, Db. apply andb_true_iff in Da, Db.
  destruct Da as [Hx _], Db as [Hy _].
  cbn [cmp_seg is_num_segment compare_digits]. rewrite Hx, Hy. reflexivity.
Qed.

Lemma segs_with_end n : segs_with [n] [] = [dec n].
Proof.
  cbn [segs_with]. rewrite split_segs_end by apply rev_dec_nonempty.
  rewrite rev_involutive. reflexivity.
Qed.

Lemma segs_with_cons n m t rest :
  segs_with (n :: m :: t) rest = dec n :: [] :: segs_with (m :: t) rest.
Proof. reflexivity. Qed.

Lemma cmp_segs_tuples t1 : forall t2,
  t1 <> [] -> t2 <> [] ->
  cmp_segs (segs_with t1 []) (segs_with t2 []) = lex_short N.compare t1 t2.
Proof.
  induction t1 as [|a t1 IH]; intros t2 H1 H2; [contradiction|].
  destruct t2 as [|b t2]; [contradiction|].
  destruct t1 as [|a' t1], t2 as [|b' t2].
  - rewrite !segs_with_end. cbn [cmp_segs lex_short]. rewrite cmp_seg_dec. reflexivity.
  - rewrite segs_with_end, segs_with_cons. cbn [cmp_segs lex_short is_alpha_segment].
    rewrite cmp_seg_dec. reflexivity.
  - rewrite segs_with_end, segs_with_cons. cbn [cmp_segs lex_short is_alpha_segment].
    rewrite cmp_seg_dec. reflexivity.
  - rewrite !segs_with_cons. cbn [cmp_segs]. rewrite cmp_seg_dec.
    rewrite IH by discriminate.
    change (cmp_seg [] []) with Eq. reflexivity.
Qed.

(* ---------- C03, numeric tuples ---------- *)

Definition plain_core (s : bytes) : core :=
  {| c_epoch := 0; c_pkgver := s; c_pkgrel := 0; c_has_pkgrel := false |}.

Lemma cmp_core_plain a b : cmp_core (plain_core a) (plain_core b) = cmp_pkgver a b.
Proof.
  unfold cmp_core, plain_core, cmp_pkgrel. cbn. apply thenc_eq_r.
Qed.

Lemma parse_dots t : t <> [] -> parse_core (dots t) = Some (plain_core (dots t)).
Proof. intros H. apply parse_plain; [apply dots_nonempty; exact H|apply dots_plain]. Qed.

Theorem c03_tuples t1 t2 :
  t1 <> [] -> t2 <> [] ->
  exists c1 c2,
    parse_core (dots t1) = Some c1 /\ parse_core (dots t2) = Some c2 /\
    cmp_core c1 c2 = lex_short N.compare t1 t2.
Proof.
  intros H1 H2. exists (plain_core (dots t1)), (plain_core (dots t2)).
  split; [apply parse_dots; exact H1|]. split; [apply parse_dots; exact H2|].
  rewrite cmp_core_plain, cmp_pkgver_as_segs. unfold cmp_on, split_to_segments.
  rewrite <- (app_nil_r (dots t1)), <- (app_nil_r (dots t2)).
  rewrite !split_dots by assumption. apply cmp_segs_tuples; assumption.
Qed.

(* the same on the version layer (NewVersion on the text itself) *)
Lemma parse_plain_ver s :
  s <> [] -> forallb plain s = true ->
  exists v, parse s = Some v /\ v_core v = plain_core s.
Proof.
  intros Hne Hp. unfold parse, VLayer.parse.
  rewrite (trim_space_no_space s (plain_no_space s Hp)).
  rewrite (parse_plain s Hne Hp). eexists. split; reflexivity.
Qed.

Theorem c03_tuples_ver t1 t2 :
  t1 <> [] -> t2 <> [] ->
  exists v1 v2,
    parse (dots t1) = Some v1 /\ parse (dots t2) = Some v2 /\
    cmp v1 v2 = lex_short N.compare t1 t2.
Proof.
  intros H1 H2.
  destruct (parse_plain_ver (dots t1) (dots_nonempty t1 H1) (dots_plain t1)) as (v1 & P1 & C1).
  destruct (parse_plain_ver (dots t2) (dots_nonempty t2 H2) (dots_plain t2)) as (v2 & P2 & C2).
  exists v1, v2. repeat split; try assumption.
  unfold cmp, VLayer.cmp. rewrite C1, C2.
  destruct (c03_tuples t1 t2 H1 H2) as (c1 & c2 & Q1 & Q2 & Q).
  rewrite parse_dots in Q1, Q2 by assumption. injection Q1 as <-. injection Q2 as <-. exact Q.
Qed.

(* ---------- C03, markers ---------- *)

(* common leading segments cancel *)
Lemma cmp_segs_with_suffix t : forall r1 r2,
  t <> [] ->
  cmp_segs (segs_with t r1) (segs_with t r2) =
  cmp_segs (segs_with [last t 0] r1) (segs_with [last t 0] r2).
Proof.
  induction t as [|n t IH]; intros r1 r2 H; [contradiction|].
  destruct t as [|m t]; [reflexivity|].
  rewrite !segs_with_cons. cbn [cmp_segs]. rewrite cmp_seg_refl.
  change (cmp_seg [] []) with Eq. cbn [thenc].
  rewrite IH by discriminate. reflexivity.
Qed.

(* pre-release: a letter run glued to the last number, e.g. "1.0rc" < "1.0" *)
Theorem c03_glued_letters_older t w :
  t <> [] -> w <> [] -> forallb is_letter w = true ->
  exists c1 c2,
    parse_core (dots t ++ w) = Some c1 /\ parse_core (dots t) = Some c2 /\
    cmp_core c1 c2 = Lt.
Proof.
  intros Ht Hw Lw.
  assert (Pw : forallb plain w = true).
  { eapply forallb_impl; [|exact Lw]. intros x Hx. apply (letter_facts x Hx). }
  exists (plain_core (dots t ++ w)), (plain_core (dots t)).
  split.
  { apply parse_plain.
    - pose proof (dots_nonempty t Ht). destruct (dots t); [contradiction|discriminate].
    - rewrite forallb_app, dots_plain, Pw. reflexivity. }
  split; [apply parse_dots; exact Ht|].
  rewrite cmp_core_plain, cmp_pkgver_as_segs. unfold cmp_on, split_to_segments.
  rewrite <- (app_nil_r (dots t)) at 2.
  rewrite !split_dots by assumption. rewrite cmp_segs_with_suffix by assumption.
  rewrite segs_with_end. cbn [segs_with].
  destruct w as [|c w]; [contradiction|].
  rewrite split_segs_digits_then_letters; [|apply rev_dec_nonempty|exact Lw].
  rewrite rev_involutive. cbn [cmp_segs]. rewrite cmp_seg_refl. cbn [thenc is_alpha_segment].
  cbn [forallb] in Lw. apply andb_true_iff in Lw. destruct Lw as [Lc _].
  destruct (letter_facts c Lc) as [Dc _]. rewrite Dc. reflexivity.
Qed.

(* post-release: whatever follows a delimiter makes the version newer,
   e.g. "1.0" < "1.0.a", "1.0" < "1.0.1", "1.0" < "1.0." *)
Theorem c03_delimited_suffix_newer t d x :
  t <> [] -> plain d = true -> is_letter d = false -> is_digit d = false ->
  forallb plain x = true ->
  exists c1 c2,
    parse_core (dots t ++ d :: x) = Some c1 /\ parse_core (dots t) = Some c2 /\
    cmp_core c1 c2 = Gt.
Proof.
  intros Ht Pd Ld Dd Px.
  exists (plain_core (dots t ++ d :: x)), (plain_core (dots t)).
  split.
  { apply parse_plain.
    - destruct (dots t); discriminate.
    - rewrite forallb_app, dots_plain. cbn [forallb]. rewrite Pd, Px. reflexivity. }
  split; [apply parse_dots; exact Ht|].
  rewrite cmp_core_plain, cmp_pkgver_as_segs. unfold cmp_on, split_to_segments.
  rewrite <- (app_nil_r (dots t)) at 2.
  rewrite !split_dots by assumption. rewrite cmp_segs_with_suffix by assumption.
  rewrite segs_with_end. cbn [segs_with].
  rewrite split_segs_delim; [|apply rev_dec_nonempty|exact Ld|exact Dd].
  rewrite rev_involutive. cbn [cmp_segs]. rewrite cmp_seg_refl. reflexivity.
Qed.
