(* Base/DecFacts.v — facts about decimal numerals: [dec] prints a non-empty digit string whose
   value is the number, and [digits_cmp] on digit strings is the comparison of their values
   (unbounded).  Added by the alpm helper; general purpose. *)
From Coq Require Import Lia.
From Verif.Base Require Import Bytes GoNum BytesFacts.
Local Open Scope N_scope.

(* ---------- single digits ---------- *)

Lemma is_digit_code c : is_digit c = true <-> 48 <= code c <= 57.
Proof.
  unfold is_digit, in_range. rewrite andb_true_iff, !N.leb_le. tauto.
Qed.

Lemma digit_val_lt c : is_digit c = true -> digit_val c < 10.
Proof. rewrite is_digit_code. unfold digit_val. lia. Qed.

Lemma code_chr n : n < 256 -> code (chr n) = n.
Proof. intros H. unfold code, chr. apply N_ascii_embedding. exact H. Qed.

Lemma chr_digit m : m < 10 -> is_digit (chr (48 + m)) = true /\ digit_val (chr (48 + m)) = m.
Proof.
  intros H. unfold digit_val. rewrite is_digit_code, code_chr by lia. lia.
Qed.

Lemma digit_code_inj c d :
  is_digit c = true -> is_digit d = true -> digit_val c = digit_val d -> c = d.
Proof.
  rewrite !is_digit_code. unfold digit_val. intros Hc Hd E. apply code_inj. lia.
Qed.

(* ---------- value of a digit string ---------- *)

Definition dstep (acc : N) (c : ascii) : N := acc * 10 + digit_val c.

Lemma digits_val_fold s : digits_val s = fold_left dstep s 0.
Proof. reflexivity. Qed.

Lemma fold_dstep_acc s acc :
  fold_left dstep s acc = acc * 10 ^ N.of_nat (length s) + fold_left dstep s 0.
Proof.
  revert acc. induction s as [|c s IH]; intros acc.
  - simpl. lia.
  - cbn [fold_left length]. rewrite IH. rewrite (IH (dstep 0 c)).
    unfold dstep. rewrite Nat2N.inj_succ, N.pow_succ_r'. lia.
Qed.

Lemma digits_val_cons c s :
  digits_val (c :: s) = digit_val c * 10 ^ N.of_nat (length s) + digits_val s.
Proof.
  rewrite !digits_val_fold. cbn [fold_left]. rewrite fold_dstep_acc. unfold dstep. lia.
Qed.

Lemma digits_val_app s c : digits_val (s ++ [c]) = digits_val s * 10 + digit_val c.
Proof. rewrite !digits_val_fold, fold_left_app. reflexivity. Qed.

Lemma digits_val_nil : digits_val [] = 0.
Proof. reflexivity. Qed.

Lemma digits_val_single c : digits_val [c] = digit_val c.
Proof. unfold digits_val. cbn [fold_left]. lia. Qed.

Lemma digits_val_bound s : forallb is_digit s = true -> digits_val s < 10 ^ N.of_nat (length s).
Proof.
  induction s as [|c s IH]; intros H.
  - reflexivity.
  - cbn [forallb] in H. apply andb_true_iff in H. destruct H as [Hc Hs].
    rewrite digits_val_cons. specialize (IH Hs). pose proof (digit_val_lt c Hc) as Hd.
    cbn [length]. rewrite Nat2N.inj_succ, N.pow_succ_r'.
    set (P := 10 ^ N.of_nat (length s)) in *.
    assert (digit_val c * P <= 9 * P) by (apply N.mul_le_mono_r; lia).
    lia.
Qed.

(* leading zeros do not change the value *)
Lemma digits_val_strip s : digits_val (strip_zeros s) = digits_val s.
Proof.
  unfold strip_zeros. induction s as [|c s IH]; [reflexivity|].
  cbn [drop_while]. destruct (ceqb "0"%char c) eqn:E; [|reflexivity].
  apply ceqb_eq in E. subst c. rewrite IH, digits_val_cons.
  change (digit_val "0"%char) with 0. lia.
Qed.

Lemma strip_zeros_digits s : forallb is_digit s = true -> forallb is_digit (strip_zeros s) = true.
Proof.
  unfold strip_zeros. induction s as [|c s IH]; intros H; [reflexivity|].
  cbn [drop_while]. cbn [forallb] in H. apply andb_true_iff in H. destruct H as [Hc Hs].
  destruct (ceqb "0"%char c); [apply IH; exact Hs|]. cbn [forallb]. rewrite Hc, Hs. reflexivity.
Qed.

(* after stripping, the string is empty or starts with a non-zero digit *)
Lemma strip_zeros_hd s :
  match strip_zeros s with [] => True | c :: _ => c <> "0"%char end.
Proof.
  unfold strip_zeros. induction s as [|c s IH]; [exact I|].
  cbn [drop_while]. destruct (ceqb "0"%char c) eqn:E; [exact IH|].
  apply ceqb_neq in E. congruence.
Qed.

Lemma digits_val_lower c s :
  is_digit c = true -> c <> "0"%char -> 10 ^ N.of_nat (length s) <= digits_val (c :: s).
Proof.
  intros Hc Hz. rewrite digits_val_cons.
  assert (1 <= digit_val c).
  { destruct (N.eq_dec (digit_val c) 0) as [E|E]; [|lia].
    exfalso. apply Hz. apply digit_code_inj; [exact Hc|reflexivity|]. rewrite E. reflexivity. }
  nia.
Qed.

(* equal length: bytewise order is numeric order *)
Lemma bytes_cmp_digits a b :
  length a = length b -> forallb is_digit a = true -> forallb is_digit b = true ->
  bytes_cmp a b = (digits_val a ?= digits_val b).
Proof.
  revert b. induction a as [|x a IH]; intros [|y b] L Ha Hb; try discriminate.
  - reflexivity.
  - cbn [length] in L. injection L as L.
    cbn [forallb] in Ha, Hb. apply andb_true_iff in Ha, Hb.
    destruct Ha as [Hx Ha], Hb as [Hy Hb].
    cbn [bytes_cmp]. rewrite (IH b L Ha Hb). rewrite !digits_val_cons, <- L.
    pose proof (digits_val_bound a Ha) as Ba. pose proof (digits_val_bound b Hb) as Bb.
    rewrite <- L in Bb.
    set (P := 10 ^ N.of_nat (length a)) in *.
    assert (Hcode : (code x ?= code y) = (digit_val x ?= digit_val y)).
    { apply is_digit_code in Hx, Hy. unfold digit_val.
      destruct (N.compare_spec (code x) (code y)) as [E|E|E]; symmetry.
      - apply N.compare_eq_iff. lia.
      - apply N.compare_lt_iff. lia.
      - apply N.compare_gt_iff. lia. }
    rewrite Hcode. unfold thenc.
    destruct (N.compare_spec (digit_val x) (digit_val y)) as [E|E|E].
    + rewrite E. destruct (N.compare_spec (digits_val a) (digits_val b)) as [E2|E2|E2]; symmetry.
      * apply N.compare_eq_iff. lia.
      * apply N.compare_lt_iff. lia.
      * apply N.compare_gt_iff. lia.
    + symmetry. apply N.compare_lt_iff. nia.
    + symmetry. apply N.compare_gt_iff. nia.
Qed.

(* digit strings compare as their values, whatever their length *)
Theorem digits_cmp_val a b :
  forallb is_digit a = true -> forallb is_digit b = true ->
  digits_cmp a b = (digits_val a ?= digits_val b).
Proof.
  intros Ha Hb. unfold digits_cmp.
  rewrite <- (digits_val_strip a), <- (digits_val_strip b).
  pose proof (strip_zeros_digits a Ha) as Da. pose proof (strip_zeros_digits b Hb) as Db.
  pose proof (strip_zeros_hd a) as Za. pose proof (strip_zeros_hd b) as Zb.
  set (a' := strip_zeros a) in *. set (b' := strip_zeros b) in *.
  pose proof (digits_val_bound a' Da) as Ua. pose proof (digits_val_bound b' Db) as Ub.
  unfold thenc.
  destruct (Nat.compare_spec (length a') (length b')) as [E|E|E].
  - apply bytes_cmp_digits; assumption.
  - symmetry. apply N.compare_lt_iff.
    destruct b' as [|y b']; [simpl in E; lia|].
    cbn [forallb] in Db. apply andb_true_iff in Db. destruct Db as [Hy _].
    pose proof (digits_val_lower y b' Hy Zb) as Lb.
    cbn [length] in E.
    assert (10 ^ N.of_nat (length a') <= 10 ^ N.of_nat (length b')).
    { apply N.pow_le_mono_r; lia. }
    lia.
  - symmetry. apply N.compare_gt_iff.
    destruct a' as [|x a']; [simpl in E; lia|].
    cbn [forallb] in Da. apply andb_true_iff in Da. destruct Da as [Hx _].
    pose proof (digits_val_lower x a' Hx Za) as La.
    cbn [length] in E.
    assert (10 ^ N.of_nat (length b') <= 10 ^ N.of_nat (length a')).
    { apply N.pow_le_mono_r; lia. }
    lia.
Qed.

(* ---------- dec ---------- *)

Lemma dec_fuel_S k n acc :
  dec_fuel (S k) n acc =
  if n <? 10 then chr (48 + n mod 10) :: acc
  else dec_fuel k (n / 10) (chr (48 + n mod 10) :: acc).
Proof. reflexivity. Qed.

Lemma dec_fuel_spec k : forall n acc,
  n < 10 ^ N.of_nat (S k) ->
  exists ds, dec_fuel (S k) n acc = ds ++ acc /\ ds <> [] /\
             forallb is_digit ds = true /\ digits_val ds = n.
Proof.
  induction k as [|k IH]; intros n acc Hn.
  - change (10 ^ N.of_nat 1) with 10 in Hn.
    rewrite dec_fuel_S. apply N.ltb_lt in Hn. rewrite Hn. apply N.ltb_lt in Hn.
    exists [chr (48 + n mod 10)]. rewrite N.mod_small by exact Hn.
    destruct (chr_digit n Hn) as [D V].
    repeat split; try discriminate.
    + cbn [forallb]. rewrite D. reflexivity.
    + rewrite digits_val_single. exact V.
  - rewrite dec_fuel_S. destruct (n <? 10) eqn:E.
    + apply N.ltb_lt in E.
      exists [chr (48 + n mod 10)]. rewrite N.mod_small by exact E.
      destruct (chr_digit n E) as [D V].
      repeat split; try discriminate.
      * cbn [forallb]. rewrite D. reflexivity.
      * rewrite digits_val_single. exact V.
    + apply N.ltb_ge in E.
      assert (Hq : n / 10 < 10 ^ N.of_nat (S k)).
      { apply N.div_lt_upper_bound; [lia|].
        rewrite <- N.pow_succ_r', <- Nat2N.inj_succ. exact Hn. }
      destruct (IH (n / 10) (chr (48 + n mod 10) :: acc) Hq) as (ds & E1 & Hne & Hd & Hv).
      assert (Hm : n mod 10 < 10) by (apply N.mod_lt; lia).
      destruct (chr_digit (n mod 10) Hm) as [D V].
      exists (ds ++ [chr (48 + n mod 10)]). repeat split.
      * rewrite E1, <- app_assoc. reflexivity.
      * destruct ds; discriminate.
      * rewrite forallb_app, Hd. cbn [forallb]. rewrite D. reflexivity.
      * rewrite digits_val_app, Hv, V. rewrite (N.div_mod n 10) at 3 by lia. lia.
Qed.

Lemma size_nat_bound n : n < 10 ^ N.of_nat (S (N.size_nat n)).
Proof.
  assert (H2 : n < 2 ^ N.of_nat (N.size_nat n)).
  { destruct n as [|p]; [simpl; lia|].
    cbn [N.size_nat]. induction p as [p IH|p IH|]; cbn [Pos.size_nat].
    - rewrite Nat2N.inj_succ, N.pow_succ_r'. lia.
    - rewrite Nat2N.inj_succ, N.pow_succ_r'. lia.
    - simpl. lia. }
  eapply N.lt_le_trans; [exact H2|].
  rewrite Nat2N.inj_succ, N.pow_succ_r'.
  assert (2 ^ N.of_nat (N.size_nat n) <= 10 ^ N.of_nat (N.size_nat n)).
  { apply N.pow_le_mono_l. lia. }
  assert (0 < 10 ^ N.of_nat (N.size_nat n)) by (apply N.neq_0_lt_0, N.pow_nonzero; lia).
  lia.
Qed.

Theorem dec_spec n :
  dec n <> [] /\ forallb is_digit (dec n) = true /\ digits_val (dec n) = n.
Proof.
  unfold dec.
  destruct (dec_fuel_spec (N.size_nat n) n [] (size_nat_bound n)) as (ds & E & Hne & Hd & Hv).
  rewrite E, app_nil_r. auto.
Qed.

Lemma dec_nonempty n : dec n <> [].
Proof. apply dec_spec. Qed.
Lemma dec_digits n : forallb is_digit (dec n) = true.
Proof. apply dec_spec. Qed.
Lemma digits_val_dec n : digits_val (dec n) = n.
Proof. apply dec_spec. Qed.

Theorem digits_cmp_dec a b : digits_cmp (dec a) (dec b) = (a ?= b).
Proof.
  rewrite digits_cmp_val by apply dec_digits. rewrite !digits_val_dec. reflexivity.
Qed.
