From Verif.Base Require Import Bytes.
From Verif.Eco Require Import Iface.
From Verif.Eco.Alpm Require Version Range.

Definition v : vops := mk_vops Alpm.Version.parse_core Alpm.Version.cmp_core Alpm.Version.raw_orig.
Definition r : rops := mk_simple_rops Alpm.Range.cfg.
Definition entry : eco := {| e_name := $"alpm"; e_v := v; e_r := r |}.
