(* Eco/Alpm/Range.v — model of pkg/ecosystem/alpm/range.go *)
From Verif.Base Require Import Bytes GoNum Ord.
From Verif.Gen Require Operators.
From Verif.Eco Require Import RangeCore.

(* constraintPattern ^(>=|<=|>|<|=)?(.+)$ : alternatives in source order *)
(* the list is generated from the Go source on every run (tools/gen -> Gen/Operators.v) *)
Definition alpm_ops : list bytes :=
  Eval cbv delta [Verif.Gen.Operators.alpm_ops] in Verif.Gen.Operators.alpm_ops.

(* strings.Fields of the trimmed text, "and" (any case) skipped; a range made of "and"s only is
   accepted with no constraints; every bound goes through NewVersion at parse time; String()
   returns the untrimmed input *)
Definition cfg : range_cfg := {|
  rc_split := split_fields_no_and;
  rc_empty_ok := true;
  rc_ops := alpm_ops;
  rc_style := RegexpOpt;
  rc_sem := sem5;
  rc_eager := true;
  rc_trimmed_orig := false
|}.
