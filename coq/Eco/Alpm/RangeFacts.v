(* Eco/Alpm/RangeFacts.v — the alpm range parser is an instance of RangeCore: C02 for every
   comparator spelling and for the bare version; C20 within a class of equal hasPkgrel, and the
   witness that it fails across classes. *)
From Coq Require Import Lia.
From Verif.Base Require Import Bytes GoNum Ord BytesFacts.
From Verif.Eco Require Import VLayer VLayerFacts RangeCore RangeCoreFacts Iface.
From Verif.Eco.Alpm Require Import Version VersionFacts Range.
From Verif.Eco.Alpm Require Entry.

Lemma alpm_ops_ok : ops_ok alpm_ops = true.
Proof. reflexivity. Qed.

(* ---------- the splitter on a text without whitespace ---------- *)

Lemma fields_aux_no_space s : forall c cur,
  no_space s = true -> fields_aux (c :: cur) s = [rev (c :: cur) ++ s].
Proof.
  unfold no_space. induction s as [|x s IH]; intros c cur H.
  - cbn [fields_aux]. rewrite app_nil_r. reflexivity.
  - cbn [forallb] in H. apply andb_true_iff in H. destruct H as [Hx Hs].
    apply negb_true_iff in Hx. cbn [fields_aux]. rewrite Hx.
    rewrite IH by exact Hs. cbn [rev]. rewrite <- !app_assoc. reflexivity.
Qed.

Lemma fields_no_space s : s <> [] -> no_space s = true -> fields s = [s].
Proof.
  intros Hne H. destruct s as [|c s]; [contradiction|].
  unfold no_space in H. cbn [forallb] in H. apply andb_true_iff in H. destruct H as [Hc Hs].
  apply negb_true_iff in Hc. unfold fields. cbn [fields_aux]. rewrite Hc.
  rewrite fields_aux_no_space by exact Hs. reflexivity.
Qed.

(* the word "and" in any case is skipped by parseConstraints *)
Definition is_and (s : bytes) : bool := beq (to_lower s) $"and".

Lemma split_single s :
  s <> [] -> no_space s = true -> is_and s = false -> rc_split cfg s = [s].
Proof.
  intros Hne Hns Hand. cbn [rc_split cfg]. unfold split_fields_no_and.
  rewrite fields_no_space by assumption. cbn [filter]. unfold is_and in Hand. rewrite Hand.
  reflexivity.
Qed.

Lemma op_text_not_and op a : In op alpm_ops -> is_and (op ++ a) = false.
Proof.
  intros H. cbn in H.
  repeat (destruct H as [<-|H]; [reflexivity|]). contradiction.
Qed.

(* ---------- C02 ---------- *)

Section C02.
  Variable vok : bytes -> bool.
  Variable vcmp : bytes -> bytes -> comparison.

  (* [op ++ a] with op one of >= <= > < = *)
  Theorem alpm_c02 op a v :
    In op alpm_ops -> bound_in_scope a -> vok a = true -> vok v = true ->
    r_contains Entry.r vok vcmp (op ++ a) v = Some (sat (sem5 op) (vcmp v a)).
  Proof.
    intros Hin Hsc Ha Hv.
    assert (Hop : forallb opchar op = true).
    { pose proof (ops_ok_opchars _ alpm_ops_ok) as H. rewrite forallb_forall in H. auto. }
    destruct Hsc as (Hne & Hns & Hhd).
    assert (Hsplit : rc_split cfg (op ++ a) = [op ++ a]).
    { apply split_single.
      - destruct op; destruct a; try discriminate; contradiction.
      - rewrite no_space_app, (opchars_no_space op Hop), Hns. reflexivity.
      - apply op_text_not_and. exact Hin. }
    assert (Hp : oracle_parse vok a = Some a) by (unfold oracle_parse; rewrite Ha; reflexivity).
    destruct (simple_range_c02_single bytes (oracle_parse vok) vcmp cfg op a a
                alpm_ops_ok Hin (conj Hne (conj Hns Hhd)) Hp Hsplit) as (r & Hr & Hc).
    unfold Entry.r, mk_simple_rops, r_contains. rewrite Hr, Hv, Hc. reflexivity.
  Qed.

  (* a bare version means "=" *)
  Theorem alpm_c02_bare a v :
    bound_in_scope a -> is_and a = false -> vok a = true -> vok v = true ->
    r_contains Entry.r vok vcmp a v = Some (sat CEq (vcmp v a)).
  Proof.
    intros Hsc Hand Ha Hv. pose proof Hsc as (Hne & Hns & Hhd).
    unfold Entry.r, mk_simple_rops, r_contains, RangeCore.parse_range.
    rewrite (trim_space_no_space a Hns).
    rewrite match_nonempty by exact Hne.
    rewrite (split_single a Hne Hns Hand).
    cbn [parse_constraints].
    rewrite (parse_constraint_bare cfg a alpm_ops_ok Hsc).
    unfold bound_ok, oracle_parse. cbn [rc_eager cfg snd]. rewrite Ha, Hv.
    unfold RangeCore.contains, sat_constraint. cbn [r_cs forallb fst snd rc_sem cfg].
    rewrite Ha. rewrite andb_true_r. reflexivity.
  Qed.
End C02.

(* ---------- C20 ---------- *)

(* Compare-equal versions of the same class are indistinguishable for Compare *)
Lemma cmp_core_eq_same_class a b x :
  c_has_pkgrel a = c_has_pkgrel b -> cmp_core a b = Eq -> cmp_core a x = cmp_core b x.
Proof.
  intros Hcl. rewrite !cmp_core_refines. intros H.
  destruct (cmp_nopkgrel a b) eqn:E; try discriminate. cbn [thenc] in H.
  rewrite (tp_eq_l cmp_nopkgrel_tp a b x E). f_equal.
  unfold cmp_pkgrel in *. rewrite <- Hcl in *.
  destruct (c_has_pkgrel a); cbn [andb] in *; [|reflexivity].
  apply Z.compare_eq in H. rewrite H. reflexivity.
Qed.

Section C20.
  Variable vparse : bytes -> option ver.

  Theorem alpm_c20_same_class (r : range) (a b : ver) :
    c_has_pkgrel (v_core a) = c_has_pkgrel (v_core b) ->
    cmp a b = Eq ->
    contains ver vparse cmp cfg r a = contains ver vparse cmp cfg r b.
  Proof.
    intros Hcl Heq. unfold contains.
    induction (r_cs r) as [|c cs IH]; [reflexivity|].
    cbn [forallb]. rewrite IH. f_equal.
    unfold sat_constraint. destruct (vparse (snd c)) as [x|]; [|reflexivity].
    unfold cmp, VLayer.cmp in *.
    rewrite (cmp_core_eq_same_class _ _ (v_core x) Hcl Heq). reflexivity.
  Qed.
End C20.

(* across classes it fails: "1.0" and "1.0-2" compare equal, but only one is in ">1.0-1" *)
Lemma alpm_c20_fails_across_classes :
  let e := Entry.entry in
  v_cmp (e_v e) $"1.0" $"1.0-2" = Some Eq /\
  r_contains (e_r e) (self_vok e) (self_vcmp e) $">1.0-1" $"1.0" = Some false /\
  r_contains (e_r e) (self_vok e) (self_vcmp e) $">1.0-1" $"1.0-2" = Some true.
Proof. vm_compute. repeat split; reflexivity. Qed.

(* a range made only of the word "and" has no constraints and contains every version *)
Lemma alpm_and_only_range :
  let e := Entry.entry in
  r_contains (e_r e) (self_vok e) (self_vcmp e) $"and" $"1.0" = Some true /\
  r_contains (e_r e) (self_vok e) (self_vcmp e) $"AND and" $"0" = Some true.
Proof. vm_compute. repeat split; reflexivity. Qed.
