(* Eco/Alpm/Version.v — model of pkg/ecosystem/alpm/version.go (definitions only). *)
From Verif.Base Require Import Bytes GoNum.
From Verif.Eco Require Import VLayer.
Local Open Scope N_scope.

(* type Version struct { epoch int; pkgver string; pkgrel int; hasPkgrel bool; original string } *)
Record core := {
  c_epoch : Z;
  c_pkgver : bytes;
  c_pkgrel : Z;
  c_has_pkgrel : bool
}.

(* isValidALMPVersionChar *)
Definition valid_char (c : ascii) : bool :=
  is_letter c || is_digit c
  || ceqb c "."%char || ceqb c "_"%char || ceqb c "+"%char || ceqb c "-"%char.

(* strings.Index(version, ":"): text before the first colon is the epoch; no colon: epoch "" *)
Definition split_epoch (t : bytes) : bytes * bytes :=
  match cut $":" t with
  | Some (e, rest) => (e, rest)
  | None => ([], t)
  end.

(* "last hyphen followed by only digits": the loop walks from the right and tests, at every '-',
   whether the whole remainder is a non-empty digit run.  A remainder that starts left of the
   last '-' contains that '-', so only the last hyphen can qualify. *)
Definition split_pkgrel (vp : bytes) : bytes * bytes :=
  match cut_last_c "-"%char vp with
  | Some (before, after) => if nonempty_digits after then (before, after) else (vp, [])
  | None => (vp, [])
  end.

Definition parse_core (t : bytes) : option core :=
  match t with
  | [] => None
  | _ =>
      let '(epochStr, versionPart) := split_epoch t in
      let '(pkgver, pkgrelStr) := split_pkgrel versionPart in
      match (match epochStr with [] => Some 0%Z | _ => atoi epochStr end) with
      | None => None
      | Some epoch =>
          if (epoch <? 0)%Z then None
          else match pkgver with
               | [] => None
               | _ =>
                   if negb (forallb valid_char pkgver) then None
                   else match pkgrelStr with
                        | [] => Some {| c_epoch := epoch; c_pkgver := pkgver;
                                        c_pkgrel := 0%Z; c_has_pkgrel := false |}
                        | _ =>
                            match atoi pkgrelStr with
                            | None => None
                            | Some rel =>
                                if (rel <? 0)%Z then None
                                else Some {| c_epoch := epoch; c_pkgver := pkgver;
                                             c_pkgrel := rel; c_has_pkgrel := true |}
                            end
                        end
               end
      end
  end.

(* splitToSegments: [cur] is the strings.Builder (reversed), [last] is lastWasAlpha *)
Fixpoint split_segs (cur : bytes) (last : option bool) (s : bytes) : list bytes :=
  match s with
  | [] => match cur with [] => [] | _ => [rev cur] end
  | c :: s' =>
      if is_letter c || is_digit c then
        let isAlpha := is_letter c in
        match last with
        | Some l =>
            if Bool.eqb l isAlpha
            then split_segs (c :: cur) (Some isAlpha) s'
            else rev cur :: split_segs [c] (Some isAlpha) s'
        | None => split_segs (c :: cur) (Some isAlpha) s'
        end
      else
        match cur with
        | [] => [] :: split_segs [] last s'
        | _ => rev cur :: [] :: split_segs [] None s'
        end
  end.

Definition split_to_segments (s : bytes) : list bytes := split_segs [] None s.

(* isAlphaSegment: seg != "" && !unicode.IsDigit(seg[0]) *)
Definition is_alpha_segment (s : bytes) : bool :=
  match s with [] => false | c :: _ => negb (is_digit c) end.

(* len(a) > 0 && unicode.IsDigit(a[0]) *)
Definition is_num_segment (s : bytes) : bool :=
  match s with [] => false | c :: _ => is_digit c end.

(* compareALMPDigits *)
Definition compare_digits (a b : bytes) : comparison :=
  match a, b with
  | [], [] => Eq
  | [], _ => Lt
  | _, [] => Gt
  | _, _ => digits_cmp a b     (* TrimLeft "0", then length, then strings.Compare *)
  end.

(* compareSegments *)
Definition cmp_seg (a b : bytes) : comparison :=
  match a, b with
  | [], [] => Eq
  | [], _ => Gt
  | _, [] => Lt
  | _, _ =>
      if is_num_segment a && is_num_segment b then compare_digits a b
      else if is_num_segment a then Gt
      else if is_num_segment b then Lt
      else bytes_cmp a b
  end.

(* the loop of compareSegmentBySegment *)
Fixpoint cmp_segs (a b : list bytes) : comparison :=
  match a, b with
  | [], [] => Eq
  | [], y :: _ => if is_alpha_segment y then Gt else Lt
  | x :: _, [] => if is_alpha_segment x then Lt else Gt
  | x :: a', y :: b' => thenc (cmp_seg x y) (cmp_segs a' b')
  end.

(* compareALMPVersionString *)
Definition cmp_pkgver (a b : bytes) : comparison :=
  if beq a b then Eq
  else cmp_segs (split_to_segments a) (split_to_segments b).

(* pkgrel is compared only when both sides have one *)
Definition cmp_pkgrel (a b : core) : comparison :=
  if c_has_pkgrel a && c_has_pkgrel b then Z.compare (c_pkgrel a) (c_pkgrel b) else Eq.

Definition cmp_core (a b : core) : comparison :=
  thenc (Z.compare (c_epoch a) (c_epoch b))
        (thenc (cmp_pkgver (c_pkgver a) (c_pkgver b)) (cmp_pkgrel a b)).

Definition raw_orig := true.

Definition ver := VLayer.ver core.
Definition parse : bytes -> option ver := VLayer.parse parse_core raw_orig.
Definition cmp : ver -> ver -> comparison := VLayer.cmp cmp_core.
Definition show : ver -> bytes := VLayer.show.
