(* Eco/Alpm/VersionFacts.v — order laws of the alpm Compare model.

   Compare is NOT a total preorder on all parsed versions: pkgrel is looked at only when both
   sides carry one ("1.0-1" = "1.0" = "1.0-2" but "1.0-1" < "1.0-2", lemma
   [cmp_not_total_preorder]).  Within each class of equal hasPkgrel it is one
   ([cmp_core_tp_class], [cmp_tp_class]); epoch+pkgver alone is a total preorder on everything
   ([cmp_nopkgrel_tp]) and Compare refines it. *)
From Coq Require Import Lia.
From Verif.Base Require Import Bytes GoNum Ord BytesFacts.
From Verif.Eco Require Import VLayer VLayerFacts.
From Verif.Eco.Alpm Require Import Version.
Local Open Scope N_scope.

(* ---------- segments: alpha < (missing) < numeric < "" ---------- *)

(* a segment position: [None] = past the end of the list *)
Definition oseg := option bytes.

(* what the loop of compareSegmentBySegment does at one index *)
Definition ocmp (a b : oseg) : comparison :=
  match a, b with
  | None, None => Eq
  | None, Some y => if is_alpha_segment y then Gt else Lt
  | Some x, None => if is_alpha_segment x then Lt else Gt
  | Some x, Some y => cmp_seg x y
  end.

Definition oclass (o : oseg) : N :=
  match o with
  | None => 1
  | Some [] => 3
  | Some s => if is_num_segment s then 2 else 0
  end.
Definition okey_alpha (o : oseg) : bytes :=
  match o with
  | Some s => if is_alpha_segment s then s else []
  | None => []
  end.
Definition okey_num (o : oseg) : bytes :=
  match o with
  | Some s => if is_num_segment s then s else []
  | None => []
  end.

Definition ocmp_keyed : oseg -> oseg -> comparison :=
  lexc (cmp_on oclass N.compare)
       (lexc (cmp_on okey_alpha bytes_cmp) (cmp_on okey_num digits_cmp)).

Lemma ocmp_keyed_tp : TotalPreorder ocmp_keyed.
Proof.
  apply TP_lexc; [apply TP_on, TP_N|].
  apply TP_lexc; apply TP_on; [apply TP_bytes_cmp|apply TP_digits_cmp].
Qed.

Lemma thenc_eq_r c : thenc c Eq = c.
Proof. destruct c; reflexivity. Qed.

Lemma ocmp_as_keyed a b : ocmp a b = ocmp_keyed a b.
Proof.
  unfold ocmp_keyed, lexc, cmp_on.
  destruct a as [[|c a]|], b as [[|d b]|]; try reflexivity;
    cbn [ocmp cmp_seg oclass okey_alpha okey_num is_alpha_segment is_num_segment compare_digits];
    try (destruct (is_digit c); reflexivity);
    try (destruct (is_digit d); reflexivity).
  destruct (is_digit c), (is_digit d); cbn [negb andb]; try reflexivity.
  change (bytes_cmp [] []) with Eq. cbn [thenc N.compare].
  rewrite thenc_eq_r. reflexivity.
Qed.

Lemma ocmp_tp : TotalPreorder ocmp.
Proof. eapply TP_ext; [apply ocmp_as_keyed|apply ocmp_keyed_tp]. Qed.

Lemma cmp_segs_as_lex_pad a b :
  cmp_segs a b = lex_pad None ocmp (map Some a) (map Some b).
Proof.
  revert b. induction a as [|x a IH]; intros [|y b]; cbn [cmp_segs map lex_pad lex_pad_l ocmp].
  - reflexivity.
  - destruct (is_alpha_segment y); reflexivity.
  - destruct (is_alpha_segment x); reflexivity.
  - rewrite IH. reflexivity.
Qed.

Definition cmp_segs_tp : TotalPreorder cmp_segs.
Proof.
  eapply TP_ext with (c2 := cmp_on (map (@Some bytes)) (lex_pad None ocmp)).
  - intros a b. apply cmp_segs_as_lex_pad.
  - apply TP_on, TP_lex_pad, ocmp_tp.
Qed.

(* the [a == b] shortcut of compareALMPVersionString is redundant *)
Lemma cmp_pkgver_as_segs a b :
  cmp_pkgver a b = cmp_on split_to_segments cmp_segs a b.
Proof.
  unfold cmp_pkgver, cmp_on. destruct (beq a b) eqn:E; [|reflexivity].
  apply beq_eq in E. subst. symmetry. apply (tp_refl cmp_segs_tp).
Qed.

Lemma cmp_pkgver_tp : TotalPreorder cmp_pkgver.
Proof.
  eapply TP_ext; [apply cmp_pkgver_as_segs|]. apply TP_on, cmp_segs_tp.
Qed.

(* ---------- epoch + pkgver: a total preorder on all versions ---------- *)

Definition cmp_nopkgrel : core -> core -> comparison :=
  lexc (cmp_on c_epoch Z.compare) (cmp_on c_pkgver cmp_pkgver).

Lemma cmp_nopkgrel_tp : TotalPreorder cmp_nopkgrel.
Proof. apply TP_lexc; apply TP_on; [apply TP_Z|apply cmp_pkgver_tp]. Qed.

(* Compare refines it: a strict verdict of epoch+pkgver is the verdict of Compare *)
Lemma cmp_core_refines a b :
  cmp_core a b = thenc (cmp_nopkgrel a b) (cmp_pkgrel a b).
Proof.
  unfold cmp_core, cmp_nopkgrel, lexc, cmp_on.
  destruct (c_epoch a ?= c_epoch b)%Z; try reflexivity.
Qed.

(* ---------- Compare within a class of equal hasPkgrel ---------- *)

Definition in_class (b : bool) (c : core) : Prop := c_has_pkgrel c = b.

Definition cmp_class (b : bool) : core -> core -> comparison :=
  lexc cmp_nopkgrel (if b then cmp_on c_pkgrel Z.compare else triv_cmp).

Lemma cmp_class_tp b : TotalPreorder (cmp_class b).
Proof.
  apply TP_lexc; [apply cmp_nopkgrel_tp|].
  destruct b; [apply TP_on, TP_Z|apply TP_triv].
Qed.

Lemma cmp_core_in_class b x y :
  in_class b x -> in_class b y -> cmp_core x y = cmp_class b x y.
Proof.
  unfold in_class. intros Hx Hy. rewrite cmp_core_refines.
  unfold cmp_class, lexc, cmp_pkgrel. rewrite Hx, Hy.
  destruct b; reflexivity.
Qed.

Lemma cmp_core_tp_class b : TotalPreorderOn (in_class b) cmp_core.
Proof.
  eapply TPO_ext; [apply cmp_core_in_class|]. apply TPO_of_TP, cmp_class_tp.
Qed.

(* the two classes spelled out *)
Lemma cmp_core_tp_with_pkgrel : TotalPreorderOn (fun c => c_has_pkgrel c = true) cmp_core.
Proof. exact (cmp_core_tp_class true). Qed.
Lemma cmp_core_tp_without_pkgrel : TotalPreorderOn (fun c => c_has_pkgrel c = false) cmp_core.
Proof. exact (cmp_core_tp_class false). Qed.

Lemma cmp_tp_class b : TotalPreorderOn (fun v : ver => in_class b (v_core v)) cmp.
Proof.
  pose proof (cmp_core_tp_class b) as T. unfold cmp, VLayer.cmp. constructor.
  - intros a Pa. apply (tpo_refl T); assumption.
  - intros a c Pa Pc. apply (tpo_anti T); assumption.
  - intros a c d x Pa Pc Pd. apply (tpo_trans T); assumption.
  - intros a c d Pa Pc Pd. apply (tpo_eq_l T); assumption.
Qed.

(* Laws that hold on ALL versions, mixed classes included: reflexivity and antisymmetry. *)
Lemma cmp_pkgrel_refl a : cmp_pkgrel a a = Eq.
Proof. unfold cmp_pkgrel. destruct (c_has_pkgrel a); [apply Z.compare_refl|reflexivity]. Qed.

Lemma cmp_pkgrel_anti a b : cmp_pkgrel b a = CompOpp (cmp_pkgrel a b).
Proof.
  unfold cmp_pkgrel. rewrite andb_comm.
  destruct (c_has_pkgrel a && c_has_pkgrel b); [apply Z.compare_antisym|reflexivity].
Qed.

Lemma cmp_core_refl a : cmp_core a a = Eq.
Proof.
  rewrite cmp_core_refines, (tp_refl cmp_nopkgrel_tp). apply cmp_pkgrel_refl.
Qed.

Lemma cmp_core_anti a b : cmp_core b a = CompOpp (cmp_core a b).
Proof.
  rewrite !cmp_core_refines, (tp_anti cmp_nopkgrel_tp a b), cmp_pkgrel_anti.
  destruct (cmp_nopkgrel a b); reflexivity.
Qed.

(* parser invariant: hasPkgrel is exactly "a pkgrel text was split off", and then pkgrel >= 0 *)
Lemma parse_core_pkgrel t c :
  parse_core t = Some c -> (c_has_pkgrel c = false -> c_pkgrel c = 0%Z) /\ (0 <= c_pkgrel c)%Z /\ (0 <= c_epoch c)%Z.
Proof.
  unfold parse_core. destruct t as [|t0 t']; [discriminate|].
  destruct (split_epoch (t0 :: t')) as [e vp].
  destruct (split_pkgrel vp) as [pv pr].
  destruct (match e with [] => Some 0%Z | _ => atoi e end) as [ep|]; [|discriminate].
  destruct (ep <? 0)%Z eqn:Ee; [discriminate|].
  destruct pv as [|p0 pv']; [discriminate|].
  destruct (negb (forallb valid_char (p0 :: pv'))); [discriminate|].
  destruct pr as [|r0 pr'].
  - intros H. injection H as <-. cbn. repeat split; lia.
  - destruct (atoi (r0 :: pr')) as [rel|]; [|discriminate].
    destruct (rel <? 0)%Z eqn:Er; [discriminate|].
    intros H. injection H as <-. cbn. repeat split; try lia; try discriminate.
Qed.

(* ---------- the finding: not a total preorder across classes ---------- *)

Definition pv (s : bytes) : option ver := parse s.

Definition ex_a : core := {| c_epoch := 0; c_pkgver := $"1.0"; c_pkgrel := 1; c_has_pkgrel := true |}.
Definition ex_b : core := {| c_epoch := 0; c_pkgver := $"1.0"; c_pkgrel := 0; c_has_pkgrel := false |}.
Definition ex_c : core := {| c_epoch := 0; c_pkgver := $"1.0"; c_pkgrel := 2; c_has_pkgrel := true |}.

Lemma ex_parse :
  option_map v_core (pv $"1.0-1") = Some ex_a /\
  option_map v_core (pv $"1.0") = Some ex_b /\
  option_map v_core (pv $"1.0-2") = Some ex_c.
Proof. repeat split; vm_compute; reflexivity. Qed.

Lemma ex_cmp : cmp_core ex_a ex_b = Eq /\ cmp_core ex_b ex_c = Eq /\ cmp_core ex_a ex_c = Lt.
Proof. repeat split; vm_compute; reflexivity. Qed.

(* "1.0-1" = "1.0" = "1.0-2" but "1.0-1" < "1.0-2" *)
Lemma cmp_not_total_preorder :
  exists a b c,
    pv $"1.0-1" = Some a /\ pv $"1.0" = Some b /\ pv $"1.0-2" = Some c /\
    cmp a b = Eq /\ cmp b c = Eq /\ cmp a c = Lt.
Proof.
  exists {| v_core := ex_a; v_orig := $"1.0-1" |},
         {| v_core := ex_b; v_orig := $"1.0" |},
         {| v_core := ex_c; v_orig := $"1.0-2" |}.
  repeat split; vm_compute; reflexivity.
Qed.

Lemma cmp_core_not_total_preorder : ~ TotalPreorder cmp_core.
Proof.
  intros T. destruct ex_cmp as (Hab & Hbc & Hac).
  pose proof (tp_trans T ex_a ex_b ex_c Hab Hbc) as H.
  rewrite Hac in H. discriminate.
Qed.

(* the names the other ecosystems use, in the per-class form that is true here *)
Lemma cmp_core_tp : forall b, TotalPreorderOn (fun c => c_has_pkgrel c = b) cmp_core.
Proof. exact cmp_core_tp_class. Qed.
Lemma cmp_tp : forall b, TotalPreorderOn (fun v : ver => c_has_pkgrel (v_core v) = b) cmp.
Proof. exact cmp_tp_class. Qed.
