(* Base/DecFacts.v — facts about [dec] (fmt "%d") and digit runs: printing a number gives a
   non-empty run of digits whose value is the number; [span is_digit] recovers it. *)
From Coq Require Import Lia.
From Verif.Base Require Import Bytes GoNum Ord BytesFacts.
Local Open Scope N_scope.

Lemma code_chr n : n < 256 -> code (chr n) = n.
Proof. intros H. unfold code, chr. apply N_ascii_embedding. exact H. Qed.

Lemma is_digit_chr d : d < 10 -> is_digit (chr (48 + d)) = true.
Proof.
  intros H. unfold is_digit, in_range. rewrite code_chr by lia.
  apply andb_true_iff. split; apply N.leb_le; lia.
Qed.

Lemma digit_val_chr d : d < 10 -> digit_val (chr (48 + d)) = d.
Proof. intros H. unfold digit_val. rewrite code_chr by lia. lia. Qed.

Definition dstep (acc : N) (c : ascii) : N := acc * 10 + digit_val c.

Lemma digits_val_fold s : digits_val s = fold_left dstep s 0.
Proof. reflexivity. Qed.

Lemma pos_lt_pow2_size p : Npos p < 2 ^ N.of_nat (Pos.size_nat p).
Proof.
  induction p as [p IH|p IH|]; cbn [Pos.size_nat].
  - rewrite Nat2N.inj_succ, N.pow_succ_r'. lia.
  - rewrite Nat2N.inj_succ, N.pow_succ_r'. lia.
  - cbn. lia.
Qed.

Lemma lt_pow2_size n : n < 2 ^ N.of_nat (S (N.size_nat n)).
Proof.
  rewrite Nat2N.inj_succ, N.pow_succ_r'.
  destruct n as [|p]; cbn [N.size_nat].
  - cbn. lia.
  - pose proof (pos_lt_pow2_size p). lia.
Qed.

Lemma dec_fuel_spec fuel : forall n acc,
  (0 < fuel)%nat -> n < 2 ^ N.of_nat fuel ->
  exists ds, dec_fuel fuel n acc = ds ++ acc /\ ds <> [] /\ forallb is_digit ds = true /\
             forall a, fold_left dstep ds a = a * 10 ^ N.of_nat (length ds) + n.
Proof.
  induction fuel as [|k IH]; intros n acc Hpos Hlt; [lia|].
  cbn [dec_fuel].
  assert (Hm : n mod 10 < 10) by (apply N.mod_lt; lia).
  destruct (n <? 10) eqn:E.
  - apply N.ltb_lt in E. exists [chr (48 + n mod 10)]. repeat split.
    + discriminate.
    + cbn [forallb]. rewrite is_digit_chr by assumption. reflexivity.
    + intros a. cbn [fold_left]. unfold dstep. rewrite digit_val_chr by assumption.
      rewrite N.mod_small by assumption. cbn [length]. change (N.of_nat 1) with 1. rewrite N.pow_1_r. lia.
  - apply N.ltb_ge in E.
    assert (Hdiv : n = 10 * (n / 10) + n mod 10) by (apply N.div_mod; lia).
    rewrite Nat2N.inj_succ, N.pow_succ_r' in Hlt.
    set (q := n / 10) in *. set (m := n mod 10) in *. set (P := 2 ^ N.of_nat k) in *.
    assert (Hq : 1 <= q) by (clearbody q m P; lia).
    assert (Hk : q < P) by (clearbody q m P; lia).
    assert (Hkpos : (0 < k)%nat).
    { destruct k; [cbn in P; subst P; clearbody q; lia | lia]. }
    destruct (IH q (chr (48 + m) :: acc) Hkpos Hk) as (ds & Hds & Hne & Hdig & Hval).
    exists (ds ++ [chr (48 + m)]). repeat split.
    + rewrite Hds, <- app_assoc. reflexivity.
    + destruct ds; discriminate.
    + rewrite forallb_app, Hdig. cbn [forallb]. rewrite is_digit_chr by assumption. reflexivity.
    + intros a. rewrite fold_left_app, Hval. cbn [fold_left]. unfold dstep at 1.
      rewrite digit_val_chr by assumption.
      rewrite app_length. cbn [length]. rewrite Nat.add_1_r, Nat2N.inj_succ, N.pow_succ_r'.
      set (T := 10 ^ N.of_nat (length ds)). clearbody q m T. nia.
Qed.

Lemma dec_spec n :
  dec n <> [] /\ forallb is_digit (dec n) = true /\ digits_val (dec n) = n.
Proof.
  unfold dec.
  destruct (dec_fuel_spec (S (N.size_nat n)) n [] ltac:(lia) (lt_pow2_size n))
    as (ds & Hds & Hne & Hdig & Hval).
  rewrite Hds, app_nil_r. repeat split; try assumption.
  rewrite digits_val_fold, Hval. lia.
Qed.

Lemma dec_nonempty n : dec n <> [].
Proof. apply dec_spec. Qed.
Lemma dec_all_digits n : forallb is_digit (dec n) = true.
Proof. apply dec_spec. Qed.
Lemma digits_val_dec n : digits_val (dec n) = n.
Proof. apply dec_spec. Qed.

Lemma nonempty_digits_dec n : nonempty_digits (dec n) = true.
Proof.
  unfold nonempty_digits. pose proof (dec_nonempty n). pose proof (dec_all_digits n).
  destruct (dec n); [contradiction|assumption].
Qed.

(* ---------- maximal runs ---------- *)

Lemma take_while_app_stop p (a : bytes) c r :
  forallb p a = true -> p c = false -> take_while p (a ++ c :: r) = a.
Proof.
  induction a as [|x a IH]; cbn; intros Ha Hc.
  - rewrite Hc. reflexivity.
  - apply andb_true_iff in Ha. destruct Ha as [Hx Ha]. rewrite Hx, IH by assumption. reflexivity.
Qed.

Lemma drop_while_app_stop p (a : bytes) c r :
  forallb p a = true -> p c = false -> drop_while p (a ++ c :: r) = c :: r.
Proof.
  intros Ha Hc. rewrite drop_while_app_all by assumption. cbn. rewrite Hc. reflexivity.
Qed.

Lemma span_app_stop p (a : bytes) c r :
  forallb p a = true -> p c = false -> span p (a ++ c :: r) = (a, c :: r).
Proof.
  intros Ha Hc. unfold span. rewrite take_while_app_stop, drop_while_app_stop by assumption.
  reflexivity.
Qed.

Lemma span_all p (a : bytes) : forallb p a = true -> span p a = (a, []).
Proof.
  intros Ha. unfold span. induction a as [|x a IH]; cbn; [reflexivity|].
  cbn in Ha. apply andb_true_iff in Ha. destruct Ha as [Hx Ha]. rewrite Hx.
  specialize (IH Ha). injection IH as -> ->. reflexivity.
Qed.

(* ---------- no leading zeros ---------- *)

Lemma dec_fuel_hd fuel : forall n acc,
  (0 < fuel)%nat -> n < 2 ^ N.of_nat fuel -> 0 < n ->
  exists c t, dec_fuel fuel n acc = c :: t /\ ceqb c "0"%char = false.
Proof.
  induction fuel as [|k IH]; intros n acc Hpos Hlt Hn; [lia|].
  cbn [dec_fuel].
  destruct (n <? 10) eqn:E.
  - apply N.ltb_lt in E. eexists. eexists. split; [reflexivity|].
    unfold ceqb. rewrite N.mod_small by assumption. rewrite code_chr by lia.
    apply N.eqb_neq. change (code "0"%char) with 48. lia.
  - apply N.ltb_ge in E.
    assert (Hdiv : n = 10 * (n / 10) + n mod 10) by (apply N.div_mod; lia).
    assert (Hm : n mod 10 < 10) by (apply N.mod_lt; lia).
    rewrite Nat2N.inj_succ, N.pow_succ_r' in Hlt.
    set (q := n / 10) in *. set (m := n mod 10) in *. set (P := 2 ^ N.of_nat k) in *.
    assert (Hq : 1 <= q) by (clearbody q m P; lia).
    assert (Hk : q < P) by (clearbody q m P; lia).
    assert (Hkpos : (0 < k)%nat).
    { destruct k; [cbn in P; subst P; clearbody q; lia | lia]. }
    apply IH; [assumption|assumption|lia].
Qed.

Lemma dec_zero : dec 0 = $"0".
Proof. reflexivity. Qed.

Lemma dec_hd_nonzero n : 0 < n -> exists c t, dec n = c :: t /\ ceqb c "0"%char = false.
Proof.
  intros H. unfold dec. apply dec_fuel_hd; [lia|apply lt_pow2_size|assumption].
Qed.

Lemma dec_hd_digit n : exists c t, dec n = c :: t /\ is_digit c = true.
Proof.
  pose proof (dec_nonempty n) as Hne. pose proof (dec_all_digits n) as Hd.
  destruct (dec n) as [|c t]; [contradiction|]. cbn in Hd. apply andb_true_iff in Hd.
  exists c, t. split; [reflexivity|apply Hd].
Qed.
