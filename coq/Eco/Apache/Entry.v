From Verif.Base Require Import Bytes.
From Verif.Eco Require Import Iface.
From Verif.Eco.Apache Require Version Range.

Definition v : vops := mk_vops Apache.Version.parse_core Apache.Version.cmp_core Apache.Version.raw_orig.
Definition r : rops := mk_simple_rops Apache.Range.cfg.
Definition entry : eco := {| e_name := $"apache"; e_v := v; e_r := r |}.
