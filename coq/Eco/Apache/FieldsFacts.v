(* Base/FieldsFacts.v — strings.Fields / TrimSpace on texts built from space-free words. *)
From Coq Require Import Lia.
From Verif.Base Require Import Bytes GoNum Ord BytesFacts.

Definition nospace (s : bytes) : bool := forallb (fun c => negb (is_space c)) s.
Definition word (s : bytes) : Prop := s <> [] /\ nospace s = true.

Lemma fields_aux_word s : forall cur,
  nospace s = true -> (cur <> [] \/ s <> []) -> fields_aux cur s = [rev cur ++ s].
Proof.
  induction s as [|c s IH]; intros cur Hs Hne.
  - cbn. destruct cur; [destruct Hne; contradiction|]. rewrite app_nil_r. reflexivity.
  - cbn in Hs. apply andb_true_iff in Hs. destruct Hs as [Hc Hs]. apply negb_true_iff in Hc.
    cbn [fields_aux]. rewrite Hc. rewrite IH; [|assumption|left; discriminate].
    cbn [rev]. rewrite <- app_assoc. reflexivity.
Qed.

(* a single word is one field *)
Lemma fields_word s : word s -> fields s = [s].
Proof. intros [Hne Hs]. unfold fields. rewrite fields_aux_word; auto. Qed.

Lemma fields_aux_word_sp s : forall cur rest,
  nospace s = true -> (cur <> [] \/ s <> []) ->
  fields_aux cur (s ++ " "%char :: rest) = (rev cur ++ s) :: fields rest.
Proof.
  induction s as [|c s IH]; intros cur rest Hs Hne.
  - cbn. destruct cur; [destruct Hne; contradiction|]. rewrite app_nil_r. reflexivity.
  - cbn in Hs. apply andb_true_iff in Hs. destruct Hs as [Hc Hs]. apply negb_true_iff in Hc.
    cbn [app fields_aux]. rewrite Hc. rewrite IH; [|assumption|left; discriminate].
    cbn [rev]. rewrite <- app_assoc. reflexivity.
Qed.

(* words joined by single spaces are split back into the words *)
Lemma fields_join ws : Forall word ws -> fields (join $" " ws) = ws.
Proof.
  induction ws as [|w ws IH]; intros HF; [reflexivity|].
  inversion HF as [|? ? [Hne Hs] HF']; subst.
  destruct ws as [|w' ws].
  - cbn [join]. apply fields_word. split; assumption.
  - change (join $" " (w :: w' :: ws)) with (w ++ " "%char :: join $" " (w' :: ws)).
    unfold fields at 1. rewrite fields_aux_word_sp; auto. rewrite (IH HF'). reflexivity.
Qed.

Lemma trim_right_nospace s : nospace s = true -> trim_right s = s.
Proof.
  induction s as [|c s IH]; intros Hs; [reflexivity|].
  cbn in Hs. apply andb_true_iff in Hs. destruct Hs as [Hc Hs]. apply negb_true_iff in Hc.
  rewrite trim_right_cons_nonspace by assumption. rewrite IH by assumption. reflexivity.
Qed.

Lemma trim_right_word_app s t : nospace s = true -> trim_right (s ++ t) = s ++ trim_right t.
Proof.
  induction s as [|c s IH]; intros Hs; [reflexivity|].
  cbn in Hs. apply andb_true_iff in Hs. destruct Hs as [Hc Hs]. apply negb_true_iff in Hc.
  cbn [app]. rewrite trim_right_cons_nonspace by assumption. rewrite IH by assumption. reflexivity.
Qed.

Lemma join_words_nonempty ws : ws <> [] -> Forall word ws -> join $" " ws <> [].
Proof.
  intros Hne HF. destruct ws as [|w ws]; [contradiction|].
  inversion HF as [|? ? [Hw _] _]; subst.
  destruct ws; cbn [join]; destruct w; try contradiction; discriminate.
Qed.

Lemma trim_right_join ws : Forall word ws -> trim_right (join $" " ws) = join $" " ws.
Proof.
  induction ws as [|w ws IH]; intros HF; [reflexivity|].
  inversion HF as [|? ? [Hne Hs] HF']; subst.
  destruct ws as [|w' ws].
  - cbn [join]. apply trim_right_nospace. assumption.
  - change (join $" " (w :: w' :: ws)) with (w ++ " "%char :: join $" " (w' :: ws)).
    rewrite trim_right_word_app by assumption.
    rewrite trim_right_cons_space by reflexivity. rewrite (IH HF').
    pose proof (join_words_nonempty (w' :: ws) ltac:(discriminate) HF') as Hj.
    destruct (join $" " (w' :: ws)); [contradiction|reflexivity].
Qed.

Lemma trim_space_join ws : Forall word ws -> trim_space (join $" " ws) = join $" " ws.
Proof.
  intros HF. unfold trim_space.
  assert (L : trim_left (join $" " ws) = join $" " ws).
  { destruct ws as [|w ws]; [reflexivity|].
    inversion HF as [|? ? [Hne Hs] _]; subst.
    destruct w as [|c w]; [contradiction|].
    cbn in Hs. apply andb_true_iff in Hs. destruct Hs as [Hc _]. apply negb_true_iff in Hc.
    destruct ws; cbn [join app]; apply trim_left_of_nonspace; assumption. }
  rewrite L. apply trim_right_join. assumption.
Qed.
