(* Eco/FieldsRangeFacts.v — C02 for the instances of Eco/RangeCore.v whose splitter is
   strings.Fields (apache, mattermost, ...): single comparator, bare version, and the
   space-separated conjunction, for ANY version layer. *)
From Coq Require Import Lia.
From Verif.Base Require Import Bytes BytesFacts GoNum Ord.
From Verif.Eco.Apache Require Import FieldsFacts.
From Verif.Eco Require Import RangeCore RangeCoreFacts.

Section FieldsC02.
  Variable V : Type.
  Variable vparse : bytes -> option V.
  Variable vcmp : V -> V -> comparison.
  Variable cfg : range_cfg.
  Hypothesis Hsplit : rc_split cfg = split_fields.
  Hypothesis Hok : ops_ok (rc_ops cfg) = true.

  Notation parse_range := (parse_range V vparse cfg).
  Notation contains := (contains V vparse vcmp cfg).

  Lemma ctext_word c : cons_in_scope V vparse cfg c -> word (ctext c).
  Proof.
    intros (Hin & (Hne & Hns & _) & _). unfold ctext, word.
    pose proof (ops_ok_opchars _ Hok) as Hoc. rewrite forallb_forall in Hoc.
    specialize (Hoc _ Hin). split.
    - destruct (fst c); destruct (snd c); try discriminate; contradiction.
    - change nospace with no_space. rewrite no_space_app, (opchars_no_space _ Hoc), Hns. reflexivity.
  Qed.

  (* "op1a1 op2a2 ..." contains exactly the versions satisfying every comparator *)
  Theorem fields_c02_and cs :
    cs <> [] -> Forall (cons_in_scope V vparse cfg) cs ->
    exists r, parse_range (join $" " (map ctext cs)) = Some r /\
      forall v, contains r v =
        forallb (fun c => match vparse (snd c) with
                          | Some b => sat (rc_sem cfg (fst c)) (vcmp v b)
                          | None => false end) cs.
  Proof.
    intros Hne HF.
    assert (HW : Forall word (map ctext cs)).
    { rewrite Forall_forall in *. intros w Hw. apply in_map_iff in Hw.
      destruct Hw as (c & <- & Hc). apply ctext_word. auto. }
    apply simple_range_c02; auto.
    - rewrite trim_space_join by assumption. apply join_words_nonempty; [|assumption].
      destruct cs; [contradiction|discriminate].
    - rewrite trim_space_join by assumption. rewrite Hsplit. unfold split_fields.
      apply fields_join. assumption.
  Qed.

  Theorem fields_c02_single op a b :
    In op (rc_ops cfg) -> bound_in_scope a -> vparse a = Some b ->
    exists r, parse_range (op ++ a) = Some r /\
      forall v, contains r v = sat (rc_sem cfg op) (vcmp v b).
  Proof.
    intros Hin Hsc Hb.
    destruct (fields_c02_and [(op, a)]) as (r & Hr & Hc).
    - discriminate.
    - constructor; [|constructor]. repeat split; try apply Hsc; auto. eauto.
    - exists r. split; [exact Hr|]. intros v. rewrite Hc. cbn. rewrite Hb. apply andb_true_r.
  Qed.

  (* a bare version text means "=" *)
  Theorem fields_c02_bare a b :
    bound_in_scope a -> vparse a = Some b ->
    exists r, parse_range a = Some r /\
      forall v, contains r v = sat (rc_sem cfg $"=") (vcmp v b).
  Proof.
    intros Hsc Hb. pose proof Hsc as (Hne & Hns & Hhd).
    unfold RangeCore.parse_range. rewrite (trim_space_no_space a Hns).
    rewrite match_nonempty by assumption.
    rewrite Hsplit. unfold split_fields. rewrite (fields_word a) by (split; assumption).
    cbn [parse_constraints]. rewrite (parse_constraint_bare cfg a Hok Hsc).
    unfold bound_ok. cbn [snd]. rewrite Hb.
    assert (E : (if rc_eager cfg then true else true) = true) by (destruct (rc_eager cfg); reflexivity).
    rewrite E. eexists. split; [reflexivity|].
    intros v. unfold RangeCore.contains, sat_constraint. cbn. rewrite Hb. apply andb_true_r.
  Qed.
End FieldsC02.
