(* Eco/Apache/Version.v — model of pkg/ecosystem/apache/version.go (definitions only). *)
From Verif.Base Require Import Bytes GoNum.
From Verif.Gen Require Tables.
From Verif.Eco Require Import VLayer.
Local Open Scope N_scope.

Record core := {
  major : Z;
  minor : Z;
  patch : Z;
  qualifier : bytes;   (* lower-cased, "milestone" normalised to "m"; [] = release *)
  number : Z
}.

(* strconv.Atoi on a run of digits matched by \d+ *)
Definition atoi_digits (d : bytes) : option Z :=
  if nonempty_digits d && (digits_val d <? two63) then Some (Z.of_N (digits_val d)) else None.

(* the tail (?:-([A-Za-z]+)(\d*|v\d{8})?)?$ after the patch digits.
   Leftmost-first matching: group 4 takes the maximal run of letters, then the first alternative
   \d* takes the maximal run of digits and the text must end there.  Every text matched through
   the second alternative (v + 8 digits) is also matched this way (the "v" is absorbed by the
   greedy letter run), so group 5 never starts with "v": the date branch of NewVersion is dead
   code.  Result: (qualifier letters, digits). *)
Definition parse_tail (rest : bytes) : option (bytes * bytes) :=
  match rest with
  | [] => Some ([], [])
  | c :: r =>
      if ceqb c "-"%char then
        let (l, r1) := span is_letter r in
        let (d, r2) := span is_digit r1 in
        match l, r2 with
        | _ :: _, [] => Some (l, d)
        | _, _ => None
        end
      else None
  end.

Definition norm_qualifier (l : bytes) : bytes :=
  let q := to_lower l in
  if beq q $"milestone" then $"m" else q.

(* apacheVersionPattern ^(\d+)\.(\d+)\.(\d+)(?:-([A-Za-z]+)(\d*|v\d{8})?)?$ on the trimmed text *)
Definition parse_core (t : bytes) : option core :=
  let (d1, r1) := span is_digit t in
  match r1 with
  | c1 :: r1' =>
    if ceqb c1 "."%char then
      let (d2, r2) := span is_digit r1' in
      match r2 with
      | c2 :: r2' =>
        if ceqb c2 "."%char then
          let (d3, r3) := span is_digit r2' in
          match parse_tail r3 with
          | Some (l, d) =>
              match atoi_digits d1, atoi_digits d2, atoi_digits d3 with
              | Some ma, Some mi, Some pa =>
                  match l with
                  | [] => Some {| major := ma; minor := mi; patch := pa; qualifier := []; number := 0 |}
                  | _ =>
                      match d with
                      | [] => Some {| major := ma; minor := mi; patch := pa;
                                      qualifier := norm_qualifier l; number := 0 |}
                      | _ =>
                          match atoi_digits d with
                          | Some n => Some {| major := ma; minor := mi; patch := pa;
                                              qualifier := norm_qualifier l; number := n |}
                          | None => None
                          end
                      end
                  end
              | _, _, _ => None
              end
          | None => None
          end
        else None
      | [] => None
      end
    else None
  | [] => None
  end.

(* getQualifierPrecedence *)
(* generated from the Go source on every run (tools/gen -> Gen/Tables.v) *)
Definition qualifier_precedence_table : list (bytes * Z) :=
  Eval cbv delta [Verif.Gen.Tables.apache_getQualifierPrecedence] in Verif.Gen.Tables.apache_getQualifierPrecedence.

(* the switch's default branch, also generated *)
Definition qualifier_precedence_default : Z :=
  Eval cbv delta [Verif.Gen.Tables.apache_getQualifierPrecedence_default] in Verif.Gen.Tables.apache_getQualifierPrecedence_default.

Definition qualifier_precedence (q : bytes) : Z :=
  match lookup q qualifier_precedence_table with
  | Some p => p
  | None => qualifier_precedence_default
  end.

(* compareQualifiers: no qualifier is greatest; otherwise (precedence, number) *)
Definition qkey (c : core) : option (Z * Z) :=
  match qualifier c with
  | [] => None
  | q => Some (qualifier_precedence q, number c)
  end.

Definition cmp_core : core -> core -> comparison :=
  lexc (cmp_on major Z.compare)
    (lexc (cmp_on minor Z.compare)
      (lexc (cmp_on patch Z.compare)
        (cmp_on qkey (opt_last (lex2 Z.compare Z.compare))))).

Definition raw_orig := true.

Definition ver := VLayer.ver core.
Definition parse : bytes -> option ver := VLayer.parse parse_core raw_orig.
Definition cmp : ver -> ver -> comparison := VLayer.cmp cmp_core.
Definition show : ver -> bytes := VLayer.show.
