(* Eco/Apache/VersionFacts.v — C01 (Compare is a total preorder) and C03 (numeric triples compare
   as integer triples; every qualifier is a pre-release marker) for the apache model. *)
From Coq Require Import Lia.
From Verif.Base Require Import Bytes GoNum Ord BytesFacts.
From Verif.Eco.Apache Require Import DecFacts.
From Verif.Eco Require Import VLayer VLayerFacts.
From Verif.Eco.Apache Require Import Version.
Local Open Scope N_scope.

(* ---------- C01 ---------- *)

Lemma cmp_core_tp : TotalPreorder cmp_core.
Proof.
  unfold cmp_core.
  repeat (apply TP_lexc; [apply TP_on, TP_Z|]).
  apply TP_on, TP_opt_last, TP_lex2; apply TP_Z.
Qed.

Lemma cmp_tp : TotalPreorder cmp.
Proof. apply VLayerFacts.cmp_tp, cmp_core_tp. Qed.

(* ---------- C03: numeric part ---------- *)

Definition release (a b c : N) : core :=
  {| major := Z.of_N a; minor := Z.of_N b; patch := Z.of_N c; qualifier := []; number := 0 |}.

Definition num3 (a b c : N) : bytes := join $"." (map dec [a; b; c]).

Lemma num3_eq a b c : num3 a b c = dec a ++ "."%char :: dec b ++ "."%char :: dec c.
Proof.
  unfold num3. cbn [map join]. pose proof (dec_nonempty c).
  cbn [app]. reflexivity.
Qed.

Lemma atoi_digits_dec n : n < two63 -> atoi_digits (dec n) = Some (Z.of_N n).
Proof.
  intros H. unfold atoi_digits. rewrite nonempty_digits_dec, digits_val_dec.
  apply N.ltb_lt in H. rewrite H. reflexivity.
Qed.

Lemma dot_not_digit : is_digit "."%char = false. Proof. reflexivity. Qed.
Lemma dash_not_digit : is_digit "-"%char = false. Proof. reflexivity. Qed.

(* the three digit runs of [num3 a b c ++ rest] when [rest] does not begin with a digit *)
Lemma parse_core_num3 a b c rest :
  a < two63 -> b < two63 -> c < two63 ->
  match rest with [] => True | x :: _ => is_digit x = false end ->
  parse_core (num3 a b c ++ rest) =
  match parse_tail rest with
  | Some (l, d) =>
      match l with
      | [] => Some (release a b c)
      | _ => match d with
             | [] => Some {| major := Z.of_N a; minor := Z.of_N b; patch := Z.of_N c;
                             qualifier := norm_qualifier l; number := 0 |}
             | _ => match atoi_digits d with
                    | Some n => Some {| major := Z.of_N a; minor := Z.of_N b; patch := Z.of_N c;
                                        qualifier := norm_qualifier l; number := n |}
                    | None => None
                    end
             end
      end
  | None => None
  end.
Proof.
  intros Ha Hb Hc Hrest. rewrite num3_eq. unfold parse_core.
  rewrite <- !app_assoc. cbn [app].
  rewrite (span_app_stop is_digit (dec a)) by (auto using dec_all_digits).
  cbn [ceqb code]. change (ceqb "." ".") with true. cbv iota.
  rewrite <- app_assoc. cbn [app].
  rewrite (span_app_stop is_digit (dec b)) by (auto using dec_all_digits).
  change (ceqb "." ".") with true. cbv iota.
  assert (Hs : span is_digit (dec c ++ rest) = (dec c, rest)).
  { destruct rest as [|x rest].
    - rewrite app_nil_r. apply span_all, dec_all_digits.
    - apply span_app_stop; [apply dec_all_digits|assumption]. }
  rewrite Hs.
  destruct (parse_tail rest) as [[l d]|]; [|reflexivity].
  rewrite !atoi_digits_dec by assumption. reflexivity.
Qed.

(* every numeric triple below 2^63 parses *)
Lemma parse_core_release a b c :
  a < two63 -> b < two63 -> c < two63 ->
  parse_core (num3 a b c) = Some (release a b c).
Proof.
  intros Ha Hb Hc. rewrite <- (app_nil_r (num3 a b c)).
  rewrite parse_core_num3 by (auto; exact I). reflexivity.
Qed.

Lemma cmp_core_release a b c a' b' c' :
  cmp_core (release a b c) (release a' b' c') = lex_short N.compare [a; b; c] [a'; b'; c'].
Proof.
  unfold cmp_core, lexc, cmp_on, release. cbn [major minor patch qualifier number qkey opt_last lex_short].
  rewrite !N2Z.inj_compare.
  destruct (a ?= a'), (b ?= b'), (c ?= c'); reflexivity.
Qed.

(* C03, numeric tuples: the parser accepts exactly arity 3; two dotted triples compare as
   integer triples *)
Theorem c03_numeric t1 t2 :
  length t1 = 3%nat -> length t2 = 3%nat ->
  Forall (fun x => x < two63) t1 -> Forall (fun x => x < two63) t2 ->
  exists c1 c2,
    parse_core (join $"." (map dec t1)) = Some c1 /\
    parse_core (join $"." (map dec t2)) = Some c2 /\
    cmp_core c1 c2 = lex_short N.compare t1 t2.
Proof.
  intros L1 L2 F1 F2.
  destruct t1 as [|a [|b [|c [|]]]]; try discriminate.
  destruct t2 as [|a' [|b' [|c' [|]]]]; try discriminate.
  inversion F1 as [|? ? Ha F1']; subst. inversion F1' as [|? ? Hb F1'']; subst.
  inversion F1'' as [|? ? Hc _]; subst.
  inversion F2 as [|? ? Ha' F2']; subst. inversion F2' as [|? ? Hb' F2'']; subst.
  inversion F2'' as [|? ? Hc' _]; subst.
  exists (release a b c), (release a' b' c'). repeat split.
  - apply (parse_core_release a b c); assumption.
  - apply (parse_core_release a' b' c'); assumption.
  - apply cmp_core_release.
Qed.

(* ---------- C03: qualifiers are pre-release markers ---------- *)

(* a qualified version is below the unqualified version with the same numbers *)
Lemma qualified_lt_release c r :
  major c = major r -> minor c = minor r -> patch c = patch r ->
  qualifier c <> [] -> qualifier r = [] -> cmp_core c r = Lt.
Proof.
  intros H1 H2 H3 Hq Hr. unfold cmp_core, lexc, cmp_on, qkey.
  rewrite H1, H2, H3, !Z.compare_refl, Hr. cbn [thenc].
  destruct (qualifier c); [contradiction|reflexivity].
Qed.

(* among qualified versions with equal numbers: lower precedence first, then the number *)
Lemma qualified_order c1 c2 :
  major c1 = major c2 -> minor c1 = minor c2 -> patch c1 = patch c2 ->
  qualifier c1 <> [] -> qualifier c2 <> [] ->
  cmp_core c1 c2 =
  thenc (Z.compare (qualifier_precedence (qualifier c1)) (qualifier_precedence (qualifier c2)))
        (Z.compare (number c1) (number c2)).
Proof.
  intros H1 H2 H3 Hq1 Hq2. unfold cmp_core, lexc, cmp_on, qkey.
  rewrite H1, H2, H3, !Z.compare_refl. cbn [thenc].
  destruct (qualifier c1); [contradiction|]. destruct (qualifier c2); [contradiction|].
  reflexivity.
Qed.

(* the documented ladder alpha < beta < M = milestone < RC < SNAPSHOT < dev < (anything else) *)
(* stated on the ORDER of the generated ranks only (the reference numbering 1,2,3,3,4,5,6 / 99 of
   the Go switch is one instance): an order-preserving renumbering of the switch is harmless *)
Lemma precedence_ladder :
  let p := qualifier_precedence in
  (p $"alpha" < p $"beta" < p $"m")%Z /\ p $"m" = p $"milestone" /\
  (p $"m" < p $"rc" < p $"snapshot")%Z /\ (p $"snapshot" < p $"dev" < p $"final")%Z /\
  p $"final" = qualifier_precedence_default.
Proof. vm_compute. repeat split; reflexivity. Qed.

(* the same, as an order isomorphism with the reference ranks *)
Definition order_pattern (l : list Z) : list (list comparison) :=
  map (fun x => map (Z.compare x) l) l.
Lemma precedence_ladder_iso :
  order_pattern
    (map qualifier_precedence [$"alpha"; $"beta"; $"m"; $"milestone"; $"rc"; $"snapshot"; $"dev"; $"final"])
  = order_pattern [1; 2; 3; 3; 4; 5; 6; 99]%Z.
Proof. vm_compute. reflexivity. Qed.

(* every listed qualifier ranks strictly below the default ("anything else comes last") *)
Lemma listed_below_default q p :
  lookup q qualifier_precedence_table = Some p -> (p < qualifier_precedence_default)%Z.
Proof.
  assert (H : forallb (fun e => (snd e <? qualifier_precedence_default)%Z) qualifier_precedence_table = true)
    by (vm_compute; reflexivity).
  rewrite forallb_forall in H. intros L.
  apply Z.ltb_lt. apply (H (q, p)). revert L. generalize qualifier_precedence_table.
  induction l as [|[k v] l IH]; [discriminate|]. cbn [lookup].
  destruct (beq q k) eqn:E.
  - intros X. injection X as ->. apply beq_eq in E. subst. left. reflexivity.
  - intros X. right. auto.
Qed.

Lemma letter_not_digit x : is_digit x = true -> is_letter x = false.
Proof.
  unfold is_digit, is_letter, is_lower, is_upper, in_range.
  rewrite !andb_true_iff, !N.leb_le. intros [H1 H2].
  apply orb_false_iff. split; apply andb_false_iff; left; apply N.leb_gt; lia.
Qed.

Lemma to_lower_nonempty l : l <> [] -> to_lower l <> [].
Proof. destruct l; [contradiction|discriminate]. Qed.

Lemma norm_qualifier_nonempty l : l <> [] -> norm_qualifier l <> [].
Proof.
  intros H. unfold norm_qualifier. destruct (beq (to_lower l) $"milestone"); [discriminate|].
  apply to_lower_nonempty. assumption.
Qed.

Lemma parse_tail_qual l d :
  l <> [] -> forallb is_letter l = true -> forallb is_digit d = true ->
  parse_tail ("-"%char :: l ++ d) = Some (l, d).
Proof.
  intros Hne Hl Hd. unfold parse_tail. change (ceqb "-" "-") with true. cbv iota.
  assert (Hs : span is_letter (l ++ d) = (l, d)).
  { destruct d as [|x d].
    - rewrite app_nil_r. apply span_all. assumption.
    - apply span_app_stop; [assumption|]. cbn in Hd. apply andb_true_iff in Hd.
      apply letter_not_digit. apply Hd. }
  rewrite Hs. rewrite (span_all is_digit d Hd).
  destruct l; [contradiction|reflexivity].
Qed.

(* C03, markers: "X.Y.Z-<letters><digits>" parses and is strictly below "X.Y.Z"; apache has no
   post-release markers (every accepted suffix is of this form). *)
Theorem c03_prerelease a b c l d :
  a < two63 -> b < two63 -> c < two63 ->
  l <> [] -> forallb is_letter l = true -> forallb is_digit d = true -> digits_val d < two63 ->
  exists q, parse_core (num3 a b c ++ "-"%char :: l ++ d) = Some q /\
            cmp_core q (release a b c) = Lt /\ cmp_core (release a b c) q = Gt.
Proof.
  intros Ha Hb Hc Hne Hl Hd Hv.
  rewrite parse_core_num3 by (auto; exact dash_not_digit).
  rewrite (parse_tail_qual l d Hne Hl Hd).
  assert (Hlt : forall q, major q = Z.of_N a -> minor q = Z.of_N b -> patch q = Z.of_N c ->
                          qualifier q = norm_qualifier l ->
                          cmp_core q (release a b c) = Lt /\ cmp_core (release a b c) q = Gt).
  { intros q H1 H2 H3 H4.
    assert (E : cmp_core q (release a b c) = Lt).
    { apply qualified_lt_release; auto. rewrite H4. apply norm_qualifier_nonempty. assumption. }
    split; [exact E|]. rewrite (tp_anti cmp_core_tp q (release a b c)), E. reflexivity. }
  destruct l as [|x l]; [contradiction|].
  destruct d as [|y d].
  - eexists. split; [reflexivity|]. apply Hlt; reflexivity.
  - assert (Hat : atoi_digits (y :: d) = Some (Z.of_N (digits_val (y :: d)))).
    { unfold atoi_digits. unfold nonempty_digits. rewrite Hd.
      apply N.ltb_lt in Hv. rewrite Hv. reflexivity. }
    rewrite Hat. eexists. split; [reflexivity|]. apply Hlt; reflexivity.
Qed.

(* ---------- observations about the code, checked by computation ---------- *)

(* The date branch of NewVersion (group 5 = "v" + 8 digits) is never taken: the greedy letter
   group absorbs the "v".  "2.4.41-RCv20230415" gets the qualifier "rcv" (unknown, precedence 99)
   and the number 20230415; it is Compare-equal to "2.4.41-v20230415" and above "2.4.41-dev". *)
Lemma date_qualifier_absorbed :
  option_map (fun k => (qualifier k, number k)) (parse_core $"2.4.41-RCv20230415")
    = Some ($"rcv", 20230415%Z) /\
  option_map (fun k => (qualifier k, number k)) (parse_core $"2.4.41-v20230415")
    = Some ($"v", 20230415%Z) /\
  (match parse_core $"2.4.41-RCv20230415", parse_core $"2.4.41-v20230415", parse_core $"2.4.41-dev" with
   | Some x, Some y, Some z => cmp_core x y = Eq /\ cmp_core x z = Gt
   | _, _, _ => False
   end).
Proof. vm_compute. repeat split. Qed.

(* group 5 never begins with "v": whatever parses, the qualifier is the whole letter run *)
Lemma parse_tail_letters rest l d :
  parse_tail rest = Some (l, d) -> forallb is_letter l = true /\ forallb is_digit d = true.
Proof.
  unfold parse_tail. destruct rest as [|c r]; [intros H; injection H as <- <-; auto|].
  destruct (ceqb c "-"); [|discriminate]. unfold span.
  destruct (take_while is_letter r) as [|x l0] eqn:E1; [discriminate|].
  destruct (drop_while is_digit (drop_while is_letter r)) eqn:E2; [|discriminate].
  intros H. injection H as <- <-. split.
  - rewrite <- E1. clear. induction r as [|y r IH]; cbn; [reflexivity|].
    destruct (is_letter y) eqn:E; [cbn; rewrite E; exact IH|reflexivity].
  - generalize (drop_while is_letter r). clear. intros s.
    induction s as [|y s IH]; cbn; [reflexivity|].
    destruct (is_digit y) eqn:E; [cbn; rewrite E; exact IH|reflexivity].
Qed.

(* distinct unknown qualifiers tie: Compare("1.0.0-foo1", "1.0.0-bar1") = 0; the comment's
   "3.0.0-milestone-2" is rejected *)
Lemma unknown_qualifiers_tie :
  (match parse_core $"1.0.0-foo1", parse_core $"1.0.0-bar1" with
   | Some x, Some y => cmp_core x y = Eq
   | _, _ => False
   end) /\ parse_core $"3.0.0-milestone-2" = None.
Proof. vm_compute. split; reflexivity. Qed.

Print Assumptions cmp_core_tp.
Print Assumptions cmp_tp.
Print Assumptions c03_numeric.
Print Assumptions c03_prerelease.
Print Assumptions parse_tail_letters.
