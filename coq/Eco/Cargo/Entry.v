From Verif.Base Require Import Bytes.
From Verif.Eco Require Import Iface.
From Verif.Eco.Cargo Require Version Range.

Definition v : vops := mk_vops Cargo.Version.parse_core Cargo.Version.cmp_core Cargo.Version.raw_orig.
Definition r : rops := {|
  r_show := fun vok s => Cargo.Range.r_show vok s;
  r_contains := fun vok vcmp rg ver => Cargo.Range.r_contains vok vcmp rg ver
|}.
Definition entry : eco := {| e_name := $"cargo"; e_v := v; e_r := r |}.
