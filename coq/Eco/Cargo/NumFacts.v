(* Eco/Cargo/NumFacts.v — general lemmas about dec / digits_val / atoi / span / split_c that the
   cargo string-level facts need (nothing cargo-specific here). *)
From Coq Require Import Lia.
From Verif.Base Require Import Bytes GoNum Ord BytesFacts.
Local Open Scope N_scope.

(* ---------- characters ---------- *)

Lemma code_chr n : n < 256 -> code (chr n) = n.
Proof. intros H. unfold code, chr. apply N_ascii_embedding. exact H. Qed.

Lemma is_digit_chr m : m < 10 -> is_digit (chr (48 + m)) = true.
Proof.
  intros H. unfold is_digit, in_range. rewrite code_chr by lia.
  apply andb_true_iff. split; apply N.leb_le; lia.
Qed.

Lemma digit_val_chr m : m < 10 -> digit_val (chr (48 + m)) = m.
Proof. intros H. unfold digit_val. rewrite code_chr by lia. lia. Qed.

Lemma is_digit_code c : is_digit c = true -> 48 <= code c <= 57.
Proof.
  unfold is_digit, in_range. intros H. apply andb_true_iff in H. destruct H as [H1 H2].
  apply N.leb_le in H1. apply N.leb_le in H2. lia.
Qed.

Lemma digit_not c d : is_digit c = true -> (code d < 48 \/ 57 < code d) -> ceqb d c = false.
Proof.
  intros H1 H2. apply is_digit_code in H1. unfold ceqb. apply N.eqb_neq. lia.
Qed.

Lemma digit_not' c d : is_digit c = true -> (code d < 48 \/ 57 < code d) -> ceqb c d = false.
Proof.
  intros H1 H2. apply is_digit_code in H1. unfold ceqb. apply N.eqb_neq. lia.
Qed.

(* ---------- dec ---------- *)

Lemma dec_fuel_digits fuel : forall n acc,
  forallb is_digit acc = true -> forallb is_digit (dec_fuel fuel n acc) = true.
Proof.
  induction fuel as [|k IH]; intros n acc H; cbn [dec_fuel]; [exact H|].
  assert (Hd : is_digit (chr (48 + n mod 10)) = true).
  { apply is_digit_chr. apply N.mod_lt. lia. }
  destruct (n <? 10).
  - cbn [forallb]. rewrite Hd. exact H.
  - apply IH. cbn [forallb]. rewrite Hd. exact H.
Qed.

Lemma dec_fuel_nonempty fuel : forall n acc, acc <> [] -> dec_fuel fuel n acc <> [].
Proof.
  induction fuel as [|k IH]; intros n acc H; cbn [dec_fuel]; [exact H|].
  destruct (n <? 10); [discriminate|]. apply IH. discriminate.
Qed.

Definition dstep (acc : N) (c : ascii) : N := acc * 10 + digit_val c.

Lemma dec_fuel_S k n acc :
  dec_fuel (S k) n acc =
  if n <? 10 then chr (48 + n mod 10) :: acc else dec_fuel k (n / 10) (chr (48 + n mod 10) :: acc).
Proof. reflexivity. Qed.

Lemma dec_fuel_val k : forall n acc,
  n < 2 ^ N.of_nat k ->
  fold_left dstep (dec_fuel (S k) n acc) 0 = fold_left dstep acc n.
Proof.
  induction k as [|k IH]; intros n acc H.
  - simpl in H. assert (n = 0) by lia. subst n. reflexivity.
  - rewrite dec_fuel_S. destruct (n <? 10) eqn:E.
    + apply N.ltb_lt in E. cbn [fold_left]. unfold dstep at 2.
      rewrite digit_val_chr by (apply N.mod_lt; lia).
      rewrite N.mod_small by exact E. reflexivity.
    + apply N.ltb_ge in E. rewrite IH.
      * cbn [fold_left]. unfold dstep at 2.
        rewrite digit_val_chr by (apply N.mod_lt; lia).
        f_equal. pose proof (N.div_mod n 10). lia.
      * rewrite Nnat.Nat2N.inj_succ, N.pow_succ_r' in H.
        apply N.div_lt_upper_bound; lia.
Qed.

Lemma dec_digits n : forallb is_digit (dec n) = true.
Proof. apply dec_fuel_digits. reflexivity. Qed.

Lemma dec_nonempty n : dec n <> [].
Proof.
  unfold dec. cbn [dec_fuel]. destruct (n <? 10); [discriminate|].
  apply dec_fuel_nonempty. discriminate.
Qed.

Lemma size_nat_gt n : n < 2 ^ N.of_nat (N.size_nat n).
Proof.
  destruct n as [|p]; [reflexivity|]. cbn [N.size_nat].
  induction p as [p IH|p IH|]; cbn [Pos.size_nat].
  - rewrite Nnat.Nat2N.inj_succ, N.pow_succ_r'. lia.
  - rewrite Nnat.Nat2N.inj_succ, N.pow_succ_r'. lia.
  - reflexivity.
Qed.

Lemma dec_val n : digits_val (dec n) = n.
Proof.
  unfold digits_val, dec.
  change (fun acc c => acc * 10 + digit_val c) with dstep.
  rewrite dec_fuel_val; [reflexivity|]. apply size_nat_gt.
Qed.

Lemma dec_nonempty_digits n : nonempty_digits (dec n) = true.
Proof.
  unfold nonempty_digits. pose proof (dec_nonempty n) as H. pose proof (dec_digits n) as D.
  destruct (dec n); [congruence|exact D].
Qed.

(* ---------- atoi on a digit string ---------- *)

Lemma atoi_digits s :
  nonempty_digits s = true -> digits_val s < two63 -> atoi s = Some (Z.of_N (digits_val s)).
Proof.
  intros H V. destruct s as [|c r]; [discriminate|].
  unfold atoi.
  assert (Hc : is_digit c = true).
  { unfold nonempty_digits in H. simpl in H. apply andb_true_iff in H. tauto. }
  rewrite (digit_not' c "-"%char Hc) by (left; reflexivity).
  rewrite (digit_not' c "+"%char Hc) by (left; reflexivity).
  rewrite H. apply N.ltb_lt in V. rewrite V. reflexivity.
Qed.

Lemma atoi_dec n : n < two63 -> atoi (dec n) = Some (Z.of_N n).
Proof.
  intros H. rewrite atoi_digits; rewrite ?dec_val; auto using dec_nonempty_digits.
Qed.

(* ---------- take_while / drop_while / span ---------- *)

Lemma take_while_app p (a : bytes) c r :
  forallb p a = true -> p c = false -> take_while p (a ++ c :: r) = a.
Proof.
  induction a as [|x a IH]; simpl; intros H Hc.
  - rewrite Hc. reflexivity.
  - apply andb_true_iff in H. destruct H as [Hx Ha]. rewrite Hx. f_equal. apply IH; assumption.
Qed.

Lemma drop_while_app p (a : bytes) c r :
  forallb p a = true -> p c = false -> drop_while p (a ++ c :: r) = c :: r.
Proof.
  induction a as [|x a IH]; simpl; intros H Hc.
  - rewrite Hc. reflexivity.
  - apply andb_true_iff in H. destruct H as [Hx Ha]. rewrite Hx. apply IH; assumption.
Qed.

Lemma take_while_all p (a : bytes) : forallb p a = true -> take_while p a = a.
Proof.
  induction a as [|x a IH]; simpl; intros H; [reflexivity|].
  apply andb_true_iff in H. destruct H as [Hx Ha]. rewrite Hx. f_equal. apply IH; assumption.
Qed.

Lemma drop_while_all p (a : bytes) : forallb p a = true -> drop_while p a = [].
Proof. intros H. apply drop_while_nil_iff. exact H. Qed.

(* ---------- split_c ---------- *)

Lemma split_c_nonnil sep s : split_c sep s <> [].
Proof.
  destruct s as [|c s]; simpl; [discriminate|].
  destruct (ceqb sep c); [discriminate|]. destruct (split_c sep s); discriminate.
Qed.

Lemma split_c_none sep s : forallb (fun c => negb (ceqb sep c)) s = true -> split_c sep s = [s].
Proof.
  induction s as [|c s IH]; simpl; intros H; [reflexivity|].
  apply andb_true_iff in H. destruct H as [Hc Hs]. apply negb_true_iff in Hc.
  rewrite Hc, (IH Hs). reflexivity.
Qed.

Lemma split_c_app sep a b : split_c sep (a ++ sep :: b) = split_c sep a ++ split_c sep b.
Proof.
  induction a as [|c a IH]; simpl.
  - rewrite ceqb_refl. reflexivity.
  - destruct (ceqb sep c); [rewrite IH; reflexivity|].
    rewrite IH. pose proof (split_c_nonnil sep a) as H.
    destruct (split_c sep a); [congruence|reflexivity].
Qed.

(* every byte of every piece satisfies q  ->  every byte is a separator or satisfies q *)
Lemma split_c_pieces sep q s :
  forallb (forallb q) (split_c sep s) = true ->
  forallb (fun c => q c || ceqb sep c) s = true.
Proof.
  induction s as [|c s IH]; simpl; intros H; [reflexivity|].
  destruct (ceqb sep c) eqn:E.
  - simpl in H. rewrite orb_true_r. simpl. apply IH. exact H.
  - pose proof (split_c_nonnil sep s) as N.
    destruct (split_c sep s) as [|f fs]; [congruence|].
    simpl in H. apply andb_true_iff in H. destruct H as [H1 H2].
    apply andb_true_iff in H1. destruct H1 as [Hc Hf].
    rewrite Hc. simpl. apply IH. simpl. rewrite Hf, H2. reflexivity.
Qed.

Lemma cut1_none c s : forallb (fun x => negb (ceqb c x)) s = true -> cut [c] s = None.
Proof.
  induction s as [|x s IH]; simpl; intros H; [reflexivity|].
  apply andb_true_iff in H. destruct H as [Hx Hs]. apply negb_true_iff in Hx.
  rewrite Hx. simpl. rewrite (IH Hs). reflexivity.
Qed.

Lemma forallb_impl {A} (p q : A -> bool) l :
  (forall x, p x = true -> q x = true) -> forallb p l = true -> forallb q l = true.
Proof.
  intros I. induction l as [|x l IH]; simpl; intros H; [reflexivity|].
  apply andb_true_iff in H. destruct H as [Hx Hl]. rewrite (I x Hx). auto.
Qed.

(* ---------- trimming text that has no blanks at its ends ---------- *)

Definition trimmed_b (s : bytes) : bool :=
  match s with [] => false | c :: _ => negb (is_space c) end &&
  match rev s with [] => false | c :: _ => negb (is_space c) end.

Lemma trim_space_trimmed s : trimmed_b s = true -> trim_space s = s.
Proof.
  unfold trimmed_b. intros H. apply andb_true_iff in H. destruct H as [H1 H2].
  destruct s as [|c t]; [discriminate|]. apply negb_true_iff in H1.
  unfold trim_space. rewrite (trim_left_of_nonspace c t H1).
  unfold trim_right. destruct (rev (c :: t)) as [|d r] eqn:R; [discriminate|].
  apply negb_true_iff in H2. simpl. rewrite H2. rewrite <- R. apply rev_involutive.
Qed.

Lemma nospace_trimmed s :
  s <> [] -> forallb (fun c => negb (is_space c)) s = true -> trimmed_b s = true.
Proof.
  intros N H. unfold trimmed_b. apply andb_true_iff; split.
  - destruct s as [|c t]; [congruence|]. simpl in H. apply andb_true_iff in H. tauto.
  - rewrite <- forallb_rev in H. revert H. destruct (rev s) as [|d r] eqn:R; intros H.
    + apply (f_equal (@rev ascii)) in R. rewrite rev_involutive in R. simpl in R. congruence.
    + simpl in H. apply andb_true_iff in H. tauto.
Qed.
