(* Eco/Cargo/Range.v — model of pkg/ecosystem/cargo/range.go (definitions only).

   The version layer is an oracle on texts ([vok s] = NewVersion(s) succeeds, [vcmp a b] =
   Compare of the two parsed texts).  A constraint keeps the TEXT that range.go hands to
   NewVersion; where range.go reads the fields major/minor/patch of a parsed version the model
   calls Cargo.Version.parse_core on the same (trimmed) text. *)
From Verif.Base Require Import Bytes GoNum Ord.
From Verif.Gen Require Operators.
From Verif.Eco Require Import RangeCore.
From Verif.Eco.Cargo Require Version.

(* operators := []string{">=", "<=", "!=", ">", "<", "="} *)
(* generated from the Go source on every run (tools/gen -> Gen/Operators.v) *)
Definition cargo_ops : list bytes :=
  Eval cbv delta [Verif.Gen.Operators.cargo_ops] in Verif.Gen.Operators.cargo_ops.

Inductive kind :=
| KCmp (op : bytes)          (* one of cargo_ops *)
| KCaret (precision : nat)   (* "^" *)
| KTilde (precision : nat).  (* "~" *)

Record constraint := { c_kind : kind; c_ver : bytes }.

(* strings.IndexAny(version, "-+") *)
Definition is_suffix_start (c : ascii) : bool := ceqb c "-"%char || ceqb c "+"%char.

(* normalizePartialVersion: pad (or CUT) the dotted core to three parts, keep the -/+ suffix *)
Definition normalize_partial (version : bytes) : bytes :=
  let core := take_while (fun c => negb (is_suffix_start c)) version in
  let suffix := drop_while (fun c => negb (is_suffix_start c)) version in
  let parts := split_c "."%char core in
  join $"." (firstn 3 (parts ++ [$"0"; $"0"; $"0"])) ++ suffix.

(* countVersionComponents *)
Definition count_components (version : bytes) : nat :=
  match version with
  | [] => O
  | _ => length (split_c "."%char version)
  end.

(* countCoreComponents: the dot-separated parts of the text before any "-" / "+" *)
Definition count_core_components (version : bytes) : nat :=
  count_components (take_while (fun c => negb (is_suffix_start c)) version).

(* the field tests of satisfiesCaretConstraint (after "version.Compare(constraint) < 0") *)
Definition caret_fields (precision : nat) (fv fc : Version.core) : bool :=
  if negb (Version.major fv =? Version.major fc)%Z then false
  else if (Version.major fc >? 0)%Z || Nat.eqb precision 1 then true
  else if negb (Version.minor fv =? Version.minor fc)%Z then false
  else if (Version.minor fc >? 0)%Z || Nat.eqb precision 2 then true
  else (Version.patch fv =? Version.patch fc)%Z.

(* the field tests of satisfiesTildeConstraint *)
Definition tilde_fields (precision : nat) (fv fc : Version.core) : bool :=
  if negb (Version.major fv =? Version.major fc)%Z then false
  else match precision with
       | 1%nat => true
       | _ => (Version.minor fv =? Version.minor fc)%Z
       end.

(* the fields of ecosystem.NewVersion(text) *)
Definition fields (text : bytes) : option Version.core :=
  Version.parse_core (trim_space text).

Section Range.
  Variable vok : bytes -> bool.
  Variable vcmp : bytes -> bytes -> comparison.

  Definition mk (k : kind) (text : bytes) : option constraint :=
    if vok text then Some {| c_kind := k; c_ver := text |} else None.

  (* convertWildcardToStandardConstraint *)
  Definition parse_wildcard (s : bytes) : option constraint :=
    if beq s $"*" then mk (KCmp $">=") $"0.0.0"
    else
      let base := trim_suffix $"." (trim_suffix $"*" s) in
      match length (split_c "."%char base) with
      | 1%nat => mk (KCaret 1) (normalize_partial base)
      | 2%nat => mk (KTilde 2) (normalize_partial base)
      | _ => None
      end.

  (* parseConstraint *)
  Definition parse_constraint (s : bytes) : option constraint :=
    let s := trim_space s in
    match strip_prefix $"^" s with
    | Some rest =>
        let version := trim_space rest in
        mk (KCaret (count_core_components version)) (normalize_partial version)
    | None =>
    match strip_prefix $"~" s with
    | Some rest =>
        let version := trim_space rest in
        mk (KTilde (count_components version)) (normalize_partial version)
    | None =>
    match first_prefix cargo_ops s with
    | Some (op, rest) =>
        match trim_space rest with
        | [] => None
        | version => mk (KCmp op) version
        end
    | None =>
        if contains_c "*"%char s then parse_wildcard s
        else mk (KCmp $"=") s
    end end end.

  Fixpoint parse_constraints (parts : list bytes) : option (list constraint) :=
    match parts with
    | [] => Some []
    | p :: r =>
        match parse_constraint p with
        | None => None
        | Some c => match parse_constraints r with
                    | Some cs => Some (c :: cs)
                    | None => None
                    end
        end
    end.

  Record range := { r_cs : list constraint; r_orig : bytes }.

  (* NewVersionRange + parseConstraints: split on ",", trim, skip empty parts *)
  Definition parse_range (s : bytes) : option range :=
    let t := trim_space s in
    match t with
    | [] => None
    | _ =>
        match parse_constraints (split_comma_trim t) with
        | Some [] => None
        | Some cs => Some {| r_cs := cs; r_orig := s |}
        | None => None
        end
    end.

  (* satisfiesCaretConstraint *)
  Definition sat_caret (v c : bytes) (precision : nat) : bool :=
    match vcmp v c with
    | Lt => false
    | _ =>
        match fields v, fields c with
        | Some fv, Some fc => caret_fields precision fv fc
        | _, _ => false
        end
    end.

  (* satisfiesTildeConstraint *)
  Definition sat_tilde (v c : bytes) (precision : nat) : bool :=
    match vcmp v c with
    | Lt => false
    | _ =>
        match fields v, fields c with
        | Some fv, Some fc => tilde_fields precision fv fc
        | _, _ => false
        end
    end.

  (* satisfiesConstraint *)
  Definition sat_constraint (v : bytes) (c : constraint) : bool :=
    match c_kind c with
    | KCmp op => sat (sem6 op) (vcmp v (c_ver c))
    | KCaret p => sat_caret v (c_ver c) p
    | KTilde p => sat_tilde v (c_ver c) p
    end.

  Definition contains (r : range) (v : bytes) : bool := forallb (sat_constraint v) (r_cs r).
  Definition show (r : range) : bytes := r_orig r.

  Definition r_show (s : bytes) : option bytes := option_map show (parse_range s).
  Definition r_contains (r v : bytes) : option bool :=
    match parse_range r with
    | Some rg => if vok v then Some (contains rg v) else None
    | None => None
    end.
End Range.
