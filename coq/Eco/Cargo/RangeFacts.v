(* Eco/Cargo/RangeFacts.v — facts about the cargo range model (Eco/Cargo/Range.v):
   C02 (comparators, AND), C05 (caret / tilde / wildcard intervals), C20 (membership depends on
   the place in the order only; convexity of != -free ranges). *)
From Coq Require Import Lia.
From Verif.Base Require Import Bytes GoNum Ord BytesFacts.
From Verif.Eco Require Import RangeCore Iface.
From Verif.Eco.Cargo Require Import Version NumFacts VersionFacts Range.
From Verif.Eco.Cargo Require Entry.

(* ====================================================================================== *)
(* C02 — a comparator written directly before a valid bound                               *)
(* ====================================================================================== *)

(* first bytes that would be read as (part of) an operator *)
Definition op_chars : bytes := $"<>=!^~".
Definition is_op_char (c : ascii) : bool := existsb (fun o => ceqb o c) op_chars.

(* the scope clause of C02: the bound does not begin with an operator character and contains
   neither blanks nor the separator "," *)
Definition plain_char (c : ascii) : bool := negb (is_space c) && negb (ceqb ","%char c).
Definition bound_ok (a : bytes) : bool :=
  match a with [] => false | c :: _ => negb (is_op_char c) end && forallb plain_char a.

Lemma plain_nospace s : forallb plain_char s = true -> forallb (fun c => negb (is_space c)) s = true.
Proof.
  apply forallb_impl. intros c H. apply andb_true_iff in H. tauto.
Qed.

Lemma plain_nocomma s : forallb plain_char s = true -> forallb (fun c => negb (ceqb ","%char c)) s = true.
Proof.
  apply forallb_impl. intros c H. apply andb_true_iff in H. tauto.
Qed.

Lemma bound_ok_inv a :
  bound_ok a = true ->
  exists c a', a = c :: a' /\ is_op_char c = false /\ forallb plain_char a = true.
Proof.
  unfold bound_ok. intros H. apply andb_true_iff in H. destruct H as [H1 H2].
  destruct a as [|c a']; [discriminate|]. exists c, a'. apply negb_true_iff in H1. auto.
Qed.

Lemma op_char_facts c :
  is_op_char c = false ->
  ceqb "<" c = false /\ ceqb ">" c = false /\ ceqb "=" c = false /\
  ceqb "!" c = false /\ ceqb "^" c = false /\ ceqb "~" c = false.
Proof.
  unfold is_op_char, op_chars. cbn [list_ascii_of_string existsb]. intros H.
  repeat (apply orb_false_iff in H; destruct H as [? H]). repeat split; assumption.
Qed.

Lemma trimmed_app_op op a :
  op <> [] -> forallb plain_char op = true -> forallb plain_char a = true -> a <> [] ->
  trimmed_b (op ++ a) = true /\
  forallb (fun x => negb (ceqb ","%char x)) (op ++ a) = true.
Proof.
  intros N Ho Ha Na. split.
  - apply nospace_trimmed; [destruct op; [congruence|discriminate]|].
    rewrite forallb_app. rewrite !plain_nospace by assumption. reflexivity.
  - rewrite forallb_app. rewrite !plain_nocomma by assumption. reflexivity.
Qed.

Lemma split_comma_trim_app a b :
  split_comma_trim (a ++ ","%char :: b) = split_comma_trim a ++ split_comma_trim b.
Proof.
  unfold split_comma_trim. rewrite split_c_app, map_app, filter_app. reflexivity.
Qed.

Lemma trimmed_b_app a c b :
  trimmed_b a = true -> trimmed_b b = true -> trimmed_b (a ++ c :: b) = true.
Proof.
  unfold trimmed_b. intros Ha Hb.
  apply andb_true_iff in Ha. destruct Ha as [Ha _].
  apply andb_true_iff in Hb. destruct Hb as [_ Hb].
  apply andb_true_iff. split.
  - destruct a; [discriminate|exact Ha].
  - rewrite rev_app_distr. cbn [rev]. destruct (rev b) as [|d r]; [discriminate|exact Hb].
Qed.

Section Oracle.
  Variable vok : bytes -> bool.
  Variable vcmp : bytes -> bytes -> comparison.

  Notation parse_constraint := (parse_constraint vok).
  Notation parse_constraints := (parse_constraints vok).
  Notation parse_range := (parse_range vok).
  Notation contains := (contains vcmp).
  Notation r_contains := (r_contains vok vcmp).

  (* a trimmed, comma-free text is a single constraint *)
  Lemma parse_range_single s c :
    trimmed_b s = true -> forallb (fun x => negb (ceqb ","%char x)) s = true ->
    parse_constraint s = Some c ->
    parse_range s = Some {| r_cs := [c]; r_orig := s |}.
  Proof.
    intros T NC PC. unfold Range.parse_range. rewrite (trim_space_trimmed s T).
    destruct s as [|x s']; [discriminate|].
    unfold split_comma_trim. rewrite (split_c_none _ _ NC).
    cbn [map]. rewrite (trim_space_trimmed _ T). cbn [filter Range.parse_constraints].
    rewrite PC. reflexivity.
  Qed.

  Lemma contains_single c s v :
    contains {| r_cs := [c]; r_orig := s |} v = sat_constraint vcmp v c.
  Proof. unfold Range.contains. cbn [r_cs forallb]. apply andb_true_r. Qed.

  (* parseConstraint on  op ++ a  *)
  Lemma parse_constraint_op op a :
    In op cargo_ops -> vok a = true -> bound_ok a = true ->
    parse_constraint (op ++ a) = Some {| c_kind := KCmp op; c_ver := a |}.
  Proof.
    intros Hop Hv Hb. destruct (bound_ok_inv a Hb) as (c & a' & -> & Hc & Hp).
    destruct (op_char_facts c Hc) as (F1 & F2 & F3 & F4 & F5 & F6).
    assert (Ta : trim_space (c :: a') = c :: a').
    { apply trim_space_trimmed, nospace_trimmed; [discriminate|apply plain_nospace; exact Hp]. }
    unfold Range.parse_constraint.
    assert (T : trim_space (op ++ c :: a') = op ++ c :: a').
    { apply trim_space_trimmed.
      apply trimmed_app_op; try discriminate; try assumption.
      - cbn in Hop. intuition (subst; discriminate).
      - cbn in Hop. intuition (subst; reflexivity). }
    rewrite T.
    cbn in Hop.
    destruct Hop as [<-|[<-|[<-|[<-|[<-|[<-|[]]]]]]];
      cbn [list_ascii_of_string app strip_prefix has_prefix first_prefix cargo_ops length skipn];
      repeat match goal with
             | |- context [ceqb ?x ?y] =>
                 first [ rewrite F1 | rewrite F2 | rewrite F3 | rewrite F4 | rewrite F5 | rewrite F6
                       | let b := eval vm_compute in (ceqb x y) in change (ceqb x y) with b ];
                 cbn [andb]
             end;
      cbv iota; cbn [skipn]; rewrite Ta; unfold mk; rewrite Hv; reflexivity.
  Qed.

  Theorem C02_comparator op a v :
    In op cargo_ops -> vok a = true -> bound_ok a = true -> vok v = true ->
    r_contains (op ++ a) v = Some (sat (sem6 op) (vcmp v a)).
  Proof.
    intros Hop Ha Hb Hv.
    destruct (bound_ok_inv a Hb) as (c & a' & E & Hc & Hp).
    assert (T : trimmed_b (op ++ a) = true /\
                forallb (fun x => negb (ceqb ","%char x)) (op ++ a) = true).
    { apply trimmed_app_op; try assumption.
      - cbn in Hop. intuition (subst; discriminate).
      - cbn in Hop. intuition (subst; reflexivity).
      - subst a. discriminate. }
    destruct T as [T1 T2].
    unfold Range.r_contains.
    rewrite (parse_range_single _ _ T1 T2 (parse_constraint_op op a Hop Ha Hb)).
    rewrite Hv, contains_single. reflexivity.
  Qed.

  (* a bare version is "=" *)
  Theorem C02_bare a v :
    vok a = true -> bound_ok a = true -> contains_c "*"%char a = false -> vok v = true ->
    r_contains a v = Some (sat CEq (vcmp v a)).
  Proof.
    intros Ha Hb Hs Hv.
    destruct (bound_ok_inv a Hb) as (c & a' & E & Hc & Hp).
    destruct (op_char_facts c Hc) as (F1 & F2 & F3 & F4 & F5 & F6).
    assert (T1 : trimmed_b a = true).
    { apply nospace_trimmed; [subst a; discriminate|apply plain_nospace; exact Hp]. }
    assert (PC : parse_constraint a = Some {| c_kind := KCmp $"="; c_ver := a |}).
    { unfold Range.parse_constraint. rewrite (trim_space_trimmed a T1). rewrite Hs.
      subst a.
      unfold strip_prefix.
      cbn [list_ascii_of_string has_prefix first_prefix cargo_ops].
      rewrite F1, F2, F3, F4, F5, F6. cbn [andb]. unfold mk. rewrite Ha. reflexivity. }
    unfold Range.r_contains.
    rewrite (parse_range_single _ _ T1 (plain_nocomma _ Hp) PC).
    rewrite Hv, contains_single. reflexivity.
  Qed.

  (* ---------- AND: the comma ---------- *)

  Lemma parse_constraints_app l1 l2 :
    parse_constraints (l1 ++ l2) =
    match parse_constraints l1, parse_constraints l2 with
    | Some c1, Some c2 => Some (c1 ++ c2)
    | _, _ => None
    end.
  Proof.
    induction l1 as [|p l1 IH]; cbn [app Range.parse_constraints].
    - destruct (parse_constraints l2); reflexivity.
    - destruct (parse_constraint p); [|reflexivity]. rewrite IH.
      destruct (parse_constraints l1); [|reflexivity].
      destruct (parse_constraints l2); reflexivity.
  Qed.

  Lemma parse_range_cs s r :
    parse_range s = Some r ->
    trim_space s <> [] /\ parse_constraints (split_comma_trim (trim_space s)) = Some (r_cs r) /\ r_cs r <> [].
  Proof.
    unfold Range.parse_range. destruct (trim_space s) as [|x t] eqn:E; [discriminate|].
    destruct (parse_constraints (split_comma_trim (x :: t))) as [[|c cs]|]; try discriminate.
    intros H. injection H as <-. cbn [r_cs]. repeat split; discriminate.
  Qed.

  (* two accepted (trimmed) ranges joined by "," : accepted, and the intersection *)
  Theorem C02_and a b ra rb :
    trimmed_b a = true -> trimmed_b b = true ->
    parse_range a = Some ra -> parse_range b = Some rb ->
    exists r, parse_range (a ++ $"," ++ b) = Some r /\
              forall v, contains r v = contains ra v && contains rb v.
  Proof.
    intros Ta Tb Pa Pb.
    destruct (parse_range_cs a ra Pa) as (_ & Ca & Na).
    destruct (parse_range_cs b rb Pb) as (_ & Cb & _).
    rewrite (trim_space_trimmed a Ta) in Ca. rewrite (trim_space_trimmed b Tb) in Cb.
    exists {| r_cs := r_cs ra ++ r_cs rb; r_orig := a ++ $"," ++ b |}.
    split.
    - unfold Range.parse_range. cbn [list_ascii_of_string app].
      rewrite (trim_space_trimmed _ (trimmed_b_app a ","%char b Ta Tb)).
      rewrite split_comma_trim_app, parse_constraints_app, Ca, Cb.
      destruct (a ++ ","%char :: b) eqn:E; [destruct a; discriminate|].
      destruct (r_cs ra ++ r_cs rb) eqn:E2; [|reflexivity].
      apply app_eq_nil in E2. destruct E2; congruence.
    - intros v. unfold Range.contains. cbn [r_cs]. apply forallb_app.
  Qed.
End Oracle.

(* ====================================================================================== *)
(* C05 — what caret, tilde and the wildcards contain, at the level of parsed versions     *)
(* ====================================================================================== *)

Local Open Scope Z_scope.

(* what the parser guarantees about the three numbers *)
Definition wf (c : core) : Prop := 0 <= major c /\ 0 <= minor c /\ 0 <= patch c.

Lemma atoi_nonneg s x : nonempty_digits s = true -> atoi s = Some x -> 0 <= x.
Proof.
  intros H A. rewrite atoi_digits in A; [injection A as <-; lia|exact H|].
  destruct s as [|c r]; [discriminate|].
  assert (Hc : is_digit c = true).
  { unfold nonempty_digits in H. simpl in H. apply andb_true_iff in H. tauto. }
  unfold atoi in A.
  rewrite (digit_not' c "-"%char Hc) in A by (left; reflexivity).
  rewrite (digit_not' c "+"%char Hc) in A by (left; reflexivity).
  rewrite H in A. destruct (digits_val (c :: r) <? two63)%N eqn:E; [|discriminate].
  apply N.ltb_lt. exact E.
Qed.

Lemma parse_core_wf t c : parse_core t = Some c -> wf c.
Proof.
  unfold parse_core.
  destruct (span is_digit t) as [ma r1].
  destruct (expect_dot r1) as [r1'|]; [|discriminate].
  destruct (span is_digit r1') as [mi r2].
  destruct (expect_dot r2) as [r2'|]; [|discriminate].
  destruct (span is_digit r2') as [pa r3].
  destruct (parse_suffix r3) as [[pre bld]|]; [|discriminate].
  destruct (atoi ma) as [x|] eqn:Ex; [|discriminate].
  destruct (atoi mi) as [y|] eqn:Ey; [|discriminate].
  destruct (atoi pa) as [z|] eqn:Ez; [|discriminate].
  destruct (nonempty_digits ma) eqn:Nx; [|discriminate].
  destruct (nonempty_digits mi) eqn:Ny; [|discriminate].
  destruct (nonempty_digits pa) eqn:Nz; [|discriminate].
  cbn [andb]. intros H. injection H as <-. unfold wf. cbn [major minor patch].
  split; [|split]; [apply (atoi_nonneg ma)|apply (atoi_nonneg mi)|apply (atoi_nonneg pa)]; assumption.
Qed.

Definition is_lt (c : comparison) : bool := match c with Lt => true | _ => false end.

(* lo <= v < hi *)
Definition in_interval (fv lo hi : core) : bool :=
  negb (is_lt (cmp_core fv lo)) && is_lt (cmp_core fv hi).

Definition mkz (x y z : Z) (p : bytes) : core :=
  {| major := x; minor := y; patch := z; prerelease := p; build := [] |}.

(* the least version with the next major / minor / patch: its pre-release "0" is below every
   other pre-release, so "< X.Y.Z-0" means "numbers below (X,Y,Z)" *)
Definition upper_caret (precision : nat) (fc : core) : core :=
  if (major fc >? 0) || Nat.eqb precision 1 then mkz (major fc + 1) 0 0 $"0"
  else if (minor fc >? 0) || Nat.eqb precision 2 then mkz 0 (minor fc + 1) 0 $"0"
  else mkz 0 0 (patch fc + 1) $"0".

Definition upper_tilde (precision : nat) (fc : core) : core :=
  match precision with
  | 1%nat => mkz (major fc + 1) 0 0 $"0"
  | _ => mkz (major fc) (minor fc + 1) 0 $"0"
  end.

(* satisfiesCaretConstraint / satisfiesTildeConstraint on parsed values *)
Definition caret_core (precision : nat) (fv fc : core) : bool :=
  match cmp_core fv fc with Lt => false | _ => caret_fields precision fv fc end.
Definition tilde_core (precision : nat) (fv fc : core) : bool :=
  match cmp_core fv fc with Lt => false | _ => tilde_fields precision fv fc end.

Lemma cmp_core_unfold a b :
  cmp_core a b =
  thenc (major a ?= major b) (thenc (minor a ?= minor b) (thenc (patch a ?= patch b)
    (pre_cmp (prerelease a) (prerelease b)))).
Proof. reflexivity. Qed.

Lemma try_parse_int_nonneg s n : try_parse_int s = Some n -> 0 <= n.
Proof.
  unfold try_parse_int. destruct (all_digits s) eqn:E; [|discriminate].
  intros A. destruct s as [|c r]; [discriminate|].
  apply (atoi_nonneg (c :: r)); [exact E|exact A].
Qed.

(* "0" is the least pre-release *)
Lemma pre_zero_min p : pre_cmp p $"0" <> Lt.
Proof.
  unfold pre_cmp, cmp_on, pre_key. destruct p as [|c p]; [discriminate|].
  change (match $"0" with [] => None | _ :: _ => Some (split_c "." $"0") end) with (Some [$"0"]).
  pose proof (split_c_nonnil "."%char (c :: p)) as N.
  destruct (split_c "."%char (c :: p)) as [|f fs]; [congruence|].
  cbn [opt_last]. unfold idents_cmp. cbn [lex_short].
  unfold ident_cmp at 1. unfold cmp_on, ident_key.
  change (try_parse_int $"0") with (Some 0).
  destruct (try_parse_int f) as [n|] eqn:E.
  - apply try_parse_int_nonneg in E.
    unfold lex2. cbn [fst snd bool_cmp thenc].
    destruct (Z.compare_spec n 0); try lia.
    + cbn [bytes_cmp thenc]. destruct fs; discriminate.
    + discriminate.
  - discriminate.
Qed.

Lemma lt_upper fv X Y Z' :
  is_lt (cmp_core fv (mkz X Y Z' $"0")) = true <->
  (major fv < X \/ major fv = X /\ (minor fv < Y \/ minor fv = Y /\ patch fv < Z')).
Proof.
  rewrite cmp_core_unfold. unfold mkz. cbn [major minor patch prerelease].
  destruct (Z.compare_spec (major fv) X); cbn [thenc is_lt];
    [|split; [lia|reflexivity]|split; [discriminate|lia]].
  destruct (Z.compare_spec (minor fv) Y); cbn [thenc is_lt];
    [|split; [lia|reflexivity]|split; [discriminate|lia]].
  destruct (Z.compare_spec (patch fv) Z'); cbn [thenc is_lt];
    [|split; [lia|reflexivity]|split; [discriminate|lia]].
  pose proof (pre_zero_min (prerelease fv)) as P.
  destruct (pre_cmp (prerelease fv) $"0"); [|congruence|]; cbn [is_lt]; split; try discriminate; lia.
Qed.

Lemma ge_base fv fc :
  cmp_core fv fc <> Lt ->
  (major fv > major fc \/ major fv = major fc /\
     (minor fv > minor fc \/ minor fv = minor fc /\ patch fv >= patch fc)).
Proof.
  rewrite cmp_core_unfold.
  destruct (Z.compare_spec (major fv) (major fc)); cbn [thenc]; try (intros; lia); try congruence.
  destruct (Z.compare_spec (minor fv) (minor fc)); cbn [thenc]; try (intros; lia); try congruence.
  destruct (Z.compare_spec (patch fv) (patch fc)); cbn [thenc]; try (intros; lia); try congruence.
Qed.

Lemma bool_eq_iff (b : bool) (P : Prop) (c : bool) :
  (c = true <-> P) -> (b = true <-> P) -> b = c.
Proof. intros H1 H2. destruct b, c; intuition congruence. Qed.

(* ^base (written with p numeric components) contains exactly  base <= v < upper_caret p base *)
Theorem caret_interval p fv fc :
  wf fv -> wf fc -> caret_core p fv fc = in_interval fv fc (upper_caret p fc).
Proof.
  intros (V1 & V2 & V3) (C1 & C2 & C3). unfold caret_core, in_interval.
  destruct (cmp_core fv fc) eqn:E; [| reflexivity |];
    (assert (G : cmp_core fv fc <> Lt) by (rewrite E; discriminate));
    apply ge_base in G; cbn [is_lt negb andb];
    unfold upper_caret, caret_fields;
    (destruct ((major fc >? 0) || Nat.eqb p 1) eqn:M1;
     [| destruct ((minor fc >? 0) || Nat.eqb p 2) eqn:M2]);
    (eapply bool_eq_iff; [apply lt_upper|]);
    destruct (Z.eqb_spec (major fv) (major fc)); cbn [negb];
    try destruct (Z.eqb_spec (minor fv) (minor fc)); cbn [negb];
    try destruct (Z.eqb_spec (patch fv) (patch fc));
    split; intros; try discriminate; try reflexivity; try lia.
Qed.

(* ~base with precision p contains exactly  base <= v < upper_tilde p base *)
Theorem tilde_interval p fv fc :
  wf fv -> wf fc -> tilde_core p fv fc = in_interval fv fc (upper_tilde p fc).
Proof.
  intros (V1 & V2 & V3) (C1 & C2 & C3). unfold tilde_core, in_interval.
  destruct (cmp_core fv fc) eqn:E; [| reflexivity |];
    (assert (G : cmp_core fv fc <> Lt) by (rewrite E; discriminate));
    apply ge_base in G; cbn [is_lt negb andb];
    unfold upper_tilde, tilde_fields;
    destruct p as [|[|p]];
    (eapply bool_eq_iff; [apply lt_upper|]);
    destruct (Z.eqb_spec (major fv) (major fc)); cbn [negb];
    try destruct (Z.eqb_spec (minor fv) (minor fc));
    split; intros; try discriminate; try reflexivity; try lia.
Qed.

(* ====================================================================================== *)
(* The model's own version layer as the oracle (the range predicates read version fields, *)
(* so the interval statements are end to end)                                             *)
(* ====================================================================================== *)

Definition svok (s : bytes) : bool := match fields s with Some _ => true | None => false end.
Definition svcmp (a b : bytes) : comparison :=
  match fields a, fields b with
  | Some x, Some y => cmp_core x y
  | _, _ => Eq
  end.

Lemma self_vok_eq s : self_vok Entry.entry s = svok s.
Proof.
  unfold self_vok, svok, fields, Entry.entry, Entry.v, mk_vops. cbn [e_v v_show].
  unfold VLayer.parse. destruct (parse_core (trim_space s)); reflexivity.
Qed.

Lemma self_vcmp_eq a b : self_vcmp Entry.entry a b = svcmp a b.
Proof.
  unfold self_vcmp, svcmp, fields, Entry.entry, Entry.v, mk_vops. cbn [e_v v_cmp].
  unfold VLayer.parse.
  destruct (parse_core (trim_space a)); destruct (parse_core (trim_space b)); reflexivity.
Qed.

(* satisfiesConstraint on parsed values *)
Definition sat_kind (k : kind) (fv fc : core) : bool :=
  match k with
  | KCmp op => sat (sem6 op) (cmp_core fv fc)
  | KCaret p => caret_core p fv fc
  | KTilde p => tilde_core p fv fc
  end.

Lemma sat_constraint_self v c fv fc :
  fields v = Some fv -> fields (c_ver c) = Some fc ->
  sat_constraint svcmp v c = sat_kind (c_kind c) fv fc.
Proof.
  intros Hv Hc. unfold sat_constraint, sat_kind, sat_caret, sat_tilde, caret_core, tilde_core, svcmp.
  rewrite Hv, Hc. destruct (c_kind c); reflexivity.
Qed.

Lemma shorthand_contains s k t v fv fc :
  trimmed_b s = true -> forallb (fun x => negb (ceqb ","%char x)) s = true ->
  parse_constraint svok s = Some {| c_kind := k; c_ver := t |} ->
  fields t = Some fc -> fields v = Some fv ->
  r_contains svok svcmp s v = Some (sat_kind k fv fc).
Proof.
  intros T NC PC Ft Fv. unfold r_contains.
  rewrite (parse_range_single svok s _ T NC PC).
  unfold svok at 1. rewrite Fv. rewrite contains_single.
  rewrite (sat_constraint_self v {| c_kind := k; c_ver := t |} fv fc Fv Ft). reflexivity.
Qed.

(* ---------- characters of numeric texts and identifiers ---------- *)

Ltac code_consts :=
  repeat match goal with
         | |- context [code (Ascii ?a ?b ?c ?d ?e ?f ?g ?h)] =>
             let v := eval vm_compute in (code (Ascii a b c d e f g h)) in
             change (code (Ascii a b c d e f g h)) with v
         end.

Ltac n_cases :=
  repeat match goal with
         | |- context [N.eqb ?a ?b] => destruct (N.eqb_spec a b)
         | |- context [N.leb ?a ?b] => destruct (N.leb_spec a b)
         | |- context [N.ltb ?a ?b] => destruct (N.ltb_spec a b)
         end.

Definition vchar (c : ascii) : bool := is_digit c || ceqb "."%char c.

(* what the proofs below need to know about a byte of a text *)
Definition good_char (c : ascii) : bool :=
  plain_char c && negb (ceqb "*"%char c) && negb (ceqb "+"%char c).

Lemma in_range_code lo hi c : in_range lo hi c = true -> (lo <= code c <= hi)%N.
Proof.
  unfold in_range. intros H. apply andb_true_iff in H. destruct H as [H1 H2].
  apply N.leb_le in H1. apply N.leb_le in H2. lia.
Qed.

Lemma ceqb_code x c : ceqb x c = true -> code c = code x.
Proof. unfold ceqb. intros H. apply N.eqb_eq in H. congruence. Qed.

Lemma ceqb_code' x c : ceqb c x = true -> code c = code x.
Proof. unfold ceqb. intros H. apply N.eqb_eq in H. congruence. Qed.

Lemma good_char_by_code c :
  (code c = 45 \/ code c = 46 \/ 48 <= code c <= 57 \/ 65 <= code c <= 90 \/ 97 <= code c <= 122)%N ->
  good_char c = true.
Proof.
  unfold good_char, plain_char, is_space, ceqb.
  code_consts. set (n := code c). intros H. cbv zeta.
  n_cases; cbn; try reflexivity; lia.
Qed.

Lemma vchar_good c : vchar c = true -> good_char c = true /\ is_suffix_start c = false.
Proof.
  unfold vchar. intros H. apply orb_true_iff in H. split.
  - apply good_char_by_code. destruct H as [H|H].
    + apply in_range_code in H. lia.
    + apply ceqb_code in H. rewrite H. vm_compute. lia.
  - unfold is_suffix_start, ceqb. code_consts.
    assert (R : (code c = 46 \/ 48 <= code c <= 57)%N).
    { destruct H as [H|H]; [apply in_range_code in H; lia|apply ceqb_code in H; rewrite H; vm_compute; lia]. }
    n_cases; cbn; try reflexivity; lia.
Qed.

Lemma ident_good c : is_ident_c c || ceqb "."%char c = true -> good_char c = true.
Proof.
  intros H. apply good_char_by_code.
  unfold is_ident_c, is_alnum, is_letter, is_lower, is_upper, is_digit in H.
  repeat (apply orb_true_iff in H; destruct H as [H|H]);
    try (apply in_range_code in H; lia);
    try (apply ceqb_code in H; rewrite H; vm_compute; lia);
    try (apply ceqb_code' in H; rewrite H; vm_compute; lia).
Qed.

Lemma good_plain s : forallb good_char s = true -> forallb plain_char s = true.
Proof.
  apply forallb_impl. intros c H. unfold good_char in H.
  apply andb_true_iff in H. destruct H as [H _]. apply andb_true_iff in H. tauto.
Qed.

Lemma good_nostar s : forallb good_char s = true -> contains_c "*"%char s = false.
Proof.
  induction s as [|c s IH]; cbn [forallb contains_c existsb]; intros H; [reflexivity|].
  apply andb_true_iff in H. destruct H as [Hc Hs]. unfold contains_c in IH. rewrite (IH Hs).
  unfold good_char in Hc. apply andb_true_iff in Hc. destruct Hc as [Hc _].
  apply andb_true_iff in Hc. destruct Hc as [_ Hc]. apply negb_true_iff in Hc. rewrite Hc. reflexivity.
Qed.

Lemma dec_vchars n : forallb vchar (dec n) = true.
Proof.
  eapply forallb_impl; [|apply dec_digits]. intros c H. unfold vchar. rewrite H. reflexivity.
Qed.

Lemma dec_nodot n : forallb (fun c => negb (ceqb "."%char c)) (dec n) = true.
Proof.
  eapply forallb_impl; [|apply dec_digits]. intros c H.
  apply negb_true_iff. apply digit_not; [exact H|left; reflexivity].
Qed.

(* ---------- numeric (possibly partial) bases with an optional pre-release suffix ---------- *)

Arguments dec : simpl never.
Local Open Scope N_scope.

Definition zeros3 : list bytes := [$"0"; $"0"; $"0"].

(* the three shapes X, X.Y, X.Y.Z and the numbers they denote after padding *)
Inductive base_of : bytes -> nat -> N -> N -> N -> Prop :=
| base1 x : base_of (dec x) 1 x 0 0
| base2 x y : base_of (dec x ++ $"." ++ dec y) 2 x y 0
| base3 x y z : base_of (plain x y z) 3 x y z.

(* no suffix, or "-" and dot-separated identifiers *)
Inductive suffix_of : bytes -> bytes -> Prop :=
| suf_none : suffix_of [] []
| suf_pre p : dotted_idents p = true -> suffix_of ("-"%char :: p) p.

Lemma forallb_vchar_app a b :
  forallb vchar a = true -> forallb vchar b = true -> forallb vchar (a ++ "."%char :: b) = true.
Proof. intros Ha Hb. rewrite forallb_app. cbn [forallb]. rewrite Ha, Hb. reflexivity. Qed.

Lemma base_vchars core n x y z : base_of core n x y z -> forallb vchar core = true.
Proof.
  intros [a|a b|a b c]; unfold plain; cbn [list_ascii_of_string app];
    repeat apply forallb_vchar_app; apply dec_vchars.
Qed.

Lemma base_nonempty core n x y z : base_of core n x y z -> core <> [].
Proof.
  intros [a|a b|a b c]; unfold plain; intros E.
  - exact (dec_nonempty _ E).
  - apply app_eq_nil in E. destruct E as [E _]. exact (dec_nonempty _ E).
  - apply app_eq_nil in E. destruct E as [E _]. exact (dec_nonempty _ E).
Qed.

Lemma split_dec x : split_c "."%char (dec x) = [dec x].
Proof. apply split_c_none, dec_nodot. Qed.

Lemma base_split core n x y z :
  base_of core n x y z ->
  length (split_c "."%char core) = n /\
  firstn 3 (split_c "."%char core ++ zeros3) = [dec x; dec y; dec z].
Proof.
  intros [a|a b|a b c]; unfold plain; cbn [list_ascii_of_string app];
    rewrite ?split_c_app, ?split_dec; split; reflexivity.
Qed.

Lemma suffix_good suf p : suffix_of suf p -> forallb good_char suf = true.
Proof.
  intros [|q H]; [reflexivity|]. cbn [forallb]. change (good_char "-") with true. cbn [andb].
  eapply forallb_impl; [|apply dotted_idents_chars; exact H]. apply ident_good.
Qed.

Lemma suffix_parse suf p : suffix_of suf p -> parse_suffix suf = Some (p, []).
Proof. intros [|q H]; [reflexivity|]. apply parse_suffix_pre. exact H. Qed.

Lemma suffix_head suf p :
  suffix_of suf p -> suf = [] \/ exists c r, suf = c :: r /\ negb (is_suffix_start c) = false.
Proof. intros [|q H]; [left; reflexivity|right; eexists _, _; split; reflexivity]. Qed.

Lemma vchars_good s : forallb vchar s = true -> forallb good_char s = true.
Proof. apply forallb_impl. intros c H. apply vchar_good in H. tauto. Qed.

Lemma vchars_core s : forallb vchar s = true -> forallb (fun c => negb (is_suffix_start c)) s = true.
Proof. apply forallb_impl. intros c H. apply vchar_good in H. destruct H as [_ H]. rewrite H. reflexivity. Qed.

Lemma core_suffix_split core suf p :
  forallb vchar core = true -> suffix_of suf p ->
  take_while (fun c => negb (is_suffix_start c)) (core ++ suf) = core /\
  drop_while (fun c => negb (is_suffix_start c)) (core ++ suf) = suf.
Proof.
  intros Hc Hs. apply vchars_core in Hc.
  destruct (suffix_head suf p Hs) as [->|(c & r & -> & Hh)].
  - rewrite app_nil_r. split; [apply take_while_all|apply drop_while_all]; exact Hc.
  - split; [apply take_while_app|apply drop_while_app]; assumption.
Qed.

Lemma good_trimmed s : s <> [] -> forallb good_char s = true -> trim_space s = s.
Proof.
  intros N H. apply trim_space_trimmed. apply nospace_trimmed; [exact N|].
  apply plain_nospace. apply good_plain. exact H.
Qed.

Lemma join3 a b c : join $"." [a; b; c] = a ++ $"." ++ b ++ $"." ++ c.
Proof. reflexivity. Qed.

(* normalizePartialVersion pads the base; the padded text parses to the expected fields *)
Lemma base_normalize core n x y z suf p :
  base_of core n x y z -> suffix_of suf p -> x < two63 -> y < two63 -> z < two63 ->
  normalize_partial (core ++ suf) = plain x y z ++ suf /\
  fields (plain x y z ++ suf) = Some (mkc x y z p []) /\
  count_core_components (core ++ suf) = n /\
  trim_space (core ++ suf) = core ++ suf.
Proof.
  intros B S Hx Hy Hz.
  pose proof (base_vchars _ _ _ _ _ B) as V.
  destruct (core_suffix_split core suf p V S) as [T D].
  destruct (base_split _ _ _ _ _ B) as [L F].
  repeat split.
  - unfold normalize_partial. rewrite T, D. fold zeros3. rewrite F. rewrite join3. reflexivity.
  - unfold fields. rewrite good_trimmed.
    + apply parse_core_plain; auto. apply (suffix_parse _ _ S).
    + intros E. apply app_eq_nil in E. destruct E as [E _]. unfold plain in E.
      apply app_eq_nil in E. destruct E as [E _]. exact (dec_nonempty _ E).
    + rewrite forallb_app. rewrite (suffix_good _ _ S), andb_true_r.
      apply vchars_good. apply (base_vchars _ 3%nat x y z). constructor.
  - unfold count_core_components. rewrite T. unfold count_components.
    pose proof (base_nonempty _ _ _ _ _ B) as N. destruct core; [congruence|exact L].
  - apply good_trimmed.
    + intros E. apply app_eq_nil in E. destruct E as [E _]. exact (base_nonempty _ _ _ _ _ B E).
    + rewrite forallb_app. rewrite (suffix_good _ _ S), andb_true_r. apply vchars_good, V.
Qed.

Lemma svok_fields t c : fields t = Some c -> svok t = true.
Proof. unfold svok. intros ->. reflexivity. Qed.

Lemma fields_wf t c : fields t = Some c -> wf c.
Proof. unfold fields. apply parse_core_wf. Qed.

Lemma text_shape (o : ascii) core suf p n x y z :
  plain_char o = true -> is_space o = false ->
  base_of core n x y z -> suffix_of suf p ->
  trimmed_b (o :: core ++ suf) = true /\
  forallb (fun c => negb (ceqb ","%char c)) (o :: core ++ suf) = true.
Proof.
  intros Ho Hs B S.
  assert (G : forallb plain_char (o :: core ++ suf) = true).
  { cbn [forallb]. rewrite Ho. cbn [andb]. apply good_plain. rewrite forallb_app.
    rewrite (suffix_good _ _ S), andb_true_r. apply vchars_good, (base_vchars _ _ _ _ _ B). }
  split; [apply nospace_trimmed; [discriminate|apply plain_nospace, G]|apply plain_nocomma, G].
Qed.

(* C05, caret: ^X, ^X.Y, ^X.Y.Z, each also with a pre-release suffix *)
Theorem C05_caret core n x y z suf p v fv :
  base_of core n x y z -> suffix_of suf p -> x < two63 -> y < two63 -> z < two63 ->
  fields v = Some fv ->
  r_contains svok svcmp ("^"%char :: core ++ suf) v =
  Some (in_interval fv (mkc x y z p []) (upper_caret n (mkc x y z p []))).
Proof.
  intros B S Hx Hy Hz Fv.
  destruct (base_normalize core n x y z suf p B S Hx Hy Hz) as (Nm & Fl & Cn & Tr).
  destruct (text_shape "^"%char core suf p n x y z eq_refl eq_refl B S) as [T NC].
  rewrite (shorthand_contains _ (KCaret n) (plain x y z ++ suf) v fv (mkc x y z p []) T NC).
  - cbn [sat_kind]. rewrite caret_interval; [reflexivity|exact (fields_wf _ _ Fv)|exact (fields_wf _ _ Fl)].
  - unfold parse_constraint. rewrite (trim_space_trimmed _ T).
    unfold strip_prefix. cbn [list_ascii_of_string has_prefix length skipn].
    change (ceqb "^" "^") with true. cbn [andb]. cbv iota.
    rewrite Tr, Nm, Cn. unfold mk. rewrite (svok_fields _ _ Fl). reflexivity.
  - exact Fl.
  - exact Fv.
Qed.

(* C05, tilde: the precision is the number of dot-separated parts of the WHOLE text after "~" *)
Theorem C05_tilde core n x y z suf p v fv :
  base_of core n x y z -> suffix_of suf p -> x < two63 -> y < two63 -> z < two63 ->
  fields v = Some fv ->
  r_contains svok svcmp ("~"%char :: core ++ suf) v =
  Some (in_interval fv (mkc x y z p [])
          (upper_tilde (count_components (core ++ suf)) (mkc x y z p []))).
Proof.
  intros B S Hx Hy Hz Fv.
  destruct (base_normalize core n x y z suf p B S Hx Hy Hz) as (Nm & Fl & Cn & Tr).
  destruct (text_shape "~"%char core suf p n x y z eq_refl eq_refl B S) as [T NC].
  rewrite (shorthand_contains _ (KTilde (count_components (core ++ suf))) (plain x y z ++ suf)
             v fv (mkc x y z p []) T NC).
  - cbn [sat_kind]. rewrite tilde_interval; [reflexivity|exact (fields_wf _ _ Fv)|exact (fields_wf _ _ Fl)].
  - unfold parse_constraint. rewrite (trim_space_trimmed _ T).
    unfold strip_prefix. cbn [list_ascii_of_string has_prefix length skipn].
    change (ceqb "^" "~") with false. change (ceqb "~" "~") with true. cbn [andb]. cbv iota.
    rewrite Tr, Nm. unfold mk. rewrite (svok_fields _ _ Fl). reflexivity.
  - exact Fl.
  - exact Fv.
Qed.

(* the precision of the documented tilde forms *)
Lemma tilde_precision_plain core n x y z :
  base_of core n x y z -> count_components (core ++ []) = n.
Proof.
  intros B. rewrite app_nil_r. unfold count_components.
  pose proof (base_nonempty _ _ _ _ _ B) as N. destruct (base_split _ _ _ _ _ B) as [L _].
  destruct core; [congruence|exact L].
Qed.

(* ---------- wildcards ---------- *)

Theorem C05_star v fv :
  fields v = Some fv ->
  r_contains svok svcmp $"*" v = Some (sat CGe (cmp_core fv (mkc 0 0 0 [] []))).
Proof.
  intros Fv.
  rewrite (shorthand_contains $"*" (KCmp $">=") $"0.0.0" v fv (mkc 0 0 0 [] [])); auto.
Qed.

Lemma base_head core n x y z :
  base_of core n x y z -> exists d r, core = d :: r /\ is_digit d = true.
Proof.
  assert (D : forall a t, exists d r, dec a ++ t = d :: r /\ is_digit d = true).
  { intros a t. pose proof (dec_nonempty a) as N. pose proof (dec_digits a) as G.
    destruct (dec a) as [|d r]; [congruence|]. exists d, (r ++ t). split; [reflexivity|].
    cbn [forallb] in G. apply andb_true_iff in G. tauto. }
  intros [a|a b|a b c]; unfold plain.
  - destruct (D a []) as (d & r & E & H). rewrite app_nil_r in E. eauto.
  - apply D.
  - apply D.
Qed.

Lemma digit_not_op d : is_digit d = true -> is_op_char d = false.
Proof.
  intros H. unfold is_op_char, op_chars. cbn [list_ascii_of_string existsb].
  rewrite !(digit_not d) by (exact H || (left; reflexivity) || (right; reflexivity)).
  reflexivity.
Qed.

Lemma trim_suffix_snoc c (a : bytes) : trim_suffix [c] (a ++ [c]) = a.
Proof.
  unfold trim_suffix, has_suffix. rewrite rev_app_distr. cbn [rev app has_prefix].
  rewrite ceqb_refl. cbn [andb]. rewrite app_length. cbn [length].
  replace (length a + 1 - 1)%nat with (length a) by lia.
  rewrite firstn_app, Nat.sub_diag, firstn_all. cbn [firstn]. apply app_nil_r.
Qed.

Lemma contains_c_app c a b : contains_c c (a ++ b) = contains_c c a || contains_c c b.
Proof. unfold contains_c. apply existsb_app. Qed.

(* X.* and X.Y.* : the text handed to parseConstraint reaches convertWildcardToStandardConstraint
   with base = X resp. X.Y *)
Lemma wildcard_parse core n x y z :
  base_of core n x y z -> (n = 1 \/ n = 2)%nat -> x < two63 -> y < two63 ->
  parse_constraint svok (core ++ $".*") =
  Some {| c_kind := match n with 1%nat => KCaret 1 | _ => KTilde 2 end; c_ver := plain x y z |} /\
  trimmed_b (core ++ $".*") = true /\
  forallb (fun c => negb (ceqb ","%char c)) (core ++ $".*") = true /\
  fields (plain x y z) = Some (mkc x y z [] []).
Proof.
  intros B Hn Hx Hy.
  assert (Hz : z < two63) by (destruct B; try reflexivity; lia).
  destruct (base_normalize core n x y z [] [] B suf_none Hx Hy Hz) as (Nm & Fl & _ & _).
  rewrite !app_nil_r in *.
  pose proof (base_vchars _ _ _ _ _ B) as V.
  assert (G : forallb good_char (core ++ $".") = true).
  { rewrite forallb_app. rewrite (vchars_good _ V). reflexivity. }
  assert (P : forallb plain_char (core ++ $".*") = true).
  { change $".*" with ($"." ++ $"*"). rewrite app_assoc, forallb_app.
    rewrite (good_plain _ G). reflexivity. }
  destruct (base_head _ _ _ _ _ B) as (d & r & E & Hd).
  assert (T : trimmed_b (core ++ $".*") = true).
  { apply nospace_trimmed; [rewrite E; discriminate|apply plain_nospace, P]. }
  repeat split; [|exact T|apply plain_nocomma, P|exact Fl].
  unfold parse_constraint. rewrite (trim_space_trimmed _ T).
  destruct (op_char_facts d (digit_not_op d Hd)) as (F1 & F2 & F3 & F4 & F5 & F6).
  assert (W : parse_wildcard svok (core ++ $".*") =
              Some {| c_kind := match n with 1%nat => KCaret 1 | _ => KTilde 2 end;
                      c_ver := plain x y z |}).
  { unfold parse_wildcard.
    assert (Bq : beq (core ++ $".*") $"*" = false).
    { rewrite E. cbn [app list_ascii_of_string beq].
      rewrite (digit_not' d "*"%char Hd) by (left; reflexivity). reflexivity. }
    rewrite Bq.
    change $".*" with ($"." ++ $"*"). rewrite app_assoc.
    rewrite (trim_suffix_snoc "*"%char), (trim_suffix_snoc "."%char).
    destruct (base_split _ _ _ _ _ B) as [L _]. rewrite L, Nm.
    unfold mk. rewrite (svok_fields _ _ Fl).
    destruct Hn as [->| ->]; reflexivity. }
  rewrite contains_c_app. change (contains_c "*" $".*") with true. rewrite orb_true_r.
  rewrite W. rewrite E. unfold strip_prefix.
  cbn [app list_ascii_of_string has_prefix first_prefix cargo_ops].
  rewrite F1, F2, F3, F4, F5, F6. reflexivity.
Qed.

(* X.*  =  ^X  *)
Theorem C05_wildcard_major x v fv :
  x < two63 -> fields v = Some fv ->
  r_contains svok svcmp (dec x ++ $".*") v =
  Some (in_interval fv (mkc x 0 0 [] []) (upper_caret 1 (mkc x 0 0 [] []))).
Proof.
  intros Hx Fv.
  destruct (wildcard_parse (dec x) 1 x 0 0 (base1 x) (or_introl eq_refl) Hx eq_refl)
    as (PC & T & NC & Fl).
  rewrite (shorthand_contains _ _ _ v fv _ T NC PC Fl Fv).
  cbn [sat_kind]. rewrite caret_interval; [reflexivity|exact (fields_wf _ _ Fv)|exact (fields_wf _ _ Fl)].
Qed.

(* X.Y.*  =  ~X.Y  *)
Theorem C05_wildcard_minor x y v fv :
  x < two63 -> y < two63 -> fields v = Some fv ->
  r_contains svok svcmp ((dec x ++ $"." ++ dec y) ++ $".*") v =
  Some (in_interval fv (mkc x y 0 [] []) (upper_tilde 2 (mkc x y 0 [] []))).
Proof.
  intros Hx Hy Fv.
  destruct (wildcard_parse _ 2 x y 0 (base2 x y) (or_intror eq_refl) Hx Hy)
    as (PC & T & NC & Fl).
  rewrite (shorthand_contains _ _ _ v fv _ T NC PC Fl Fv).
  cbn [sat_kind]. rewrite tilde_interval; [reflexivity|exact (fields_wf _ _ Fv)|exact (fields_wf _ _ Fl)].
Qed.

(* ---------- behaviours worth knowing (evaluated on the model, end to end) ---------- *)

(* normalizePartialVersion cuts a base with more than three parts instead of rejecting it *)
Lemma over_long_base_accepted :
  r_contains svok svcmp $"^1.2.3.4" $"1.9.0" = Some true /\
  r_contains svok svcmp $"~1.2.3.x" $"1.2.9" = Some true /\
  r_contains svok svcmp $"^1.2.3.gar-bage" $"1.2.3" = Some true.
Proof. vm_compute. repeat split. Qed.

(* the tilde precision counts the dots of a pre-release suffix as well *)
Lemma tilde_precision_counts_suffix_dots :
  r_contains svok svcmp $"~1-a" $"1.5.0" = Some true /\
  r_contains svok svcmp $"~1-a.b" $"1.5.0" = Some false.
Proof. vm_compute. repeat split. Qed.

(* "*" is ">=0.0.0", which leaves out the pre-releases of 0.0.0 *)
Lemma star_excludes_prerelease_of_zero :
  r_contains svok svcmp $"*" $"0.0.0-alpha" = Some false.
Proof. vm_compute. reflexivity. Qed.

(* ====================================================================================== *)
(* C20 — membership depends only on the place in the order                                *)
(* ====================================================================================== *)

Local Open Scope Z_scope.

Definition triple (c : core) : Z * Z * Z := (major c, minor c, patch c).

Lemma caret_fields_triple p fa fb fc :
  triple fa = triple fb -> caret_fields p fa fc = caret_fields p fb fc.
Proof. unfold triple, caret_fields. intros H. injection H as -> -> ->. reflexivity. Qed.

Lemma tilde_fields_triple p fa fb fc :
  triple fa = triple fb -> tilde_fields p fa fc = tilde_fields p fb fc.
Proof. unfold triple, tilde_fields. intros H. injection H as H1 H2 H3. rewrite H1, H2. reflexivity. Qed.

Lemma cmp_core_eq_triple x y : cmp_core x y = Eq -> triple x = triple y.
Proof.
  rewrite cmp_core_unfold. unfold triple.
  destruct (Z.compare_spec (major x) (major y)); cbn [thenc]; try discriminate.
  destruct (Z.compare_spec (minor x) (minor y)); cbn [thenc]; try discriminate.
  destruct (Z.compare_spec (patch x) (patch y)); cbn [thenc]; try discriminate.
  intros _. congruence.
Qed.

Section C20.
  Variable vcmp : bytes -> bytes -> comparison.

  (* every constraint kind of the AST, parsed or not *)
  Lemma sat_constraint_eqv a b c :
    (forall t, vcmp a t = vcmp b t) ->
    option_map triple (fields a) = option_map triple (fields b) ->
    sat_constraint vcmp a c = sat_constraint vcmp b c.
  Proof.
    intros Hc Hf. unfold sat_constraint, sat_caret, sat_tilde. rewrite !Hc.
    destruct (c_kind c) as [op|p|p]; [reflexivity| |];
      (destruct (vcmp b (c_ver c)); try reflexivity;
       destruct (fields a) as [fa|], (fields b) as [fb|]; cbn [option_map] in Hf;
       try discriminate; try reflexivity;
       injection Hf as H1 H2 H3; destruct (fields (c_ver c)); try reflexivity;
       first [apply caret_fields_triple | apply tilde_fields_triple]; unfold triple; congruence).
  Qed.

  Theorem C20_generic r a b :
    (forall t, vcmp a t = vcmp b t) ->
    option_map triple (fields a) = option_map triple (fields b) ->
    contains vcmp r a = contains vcmp r b.
  Proof.
    intros Hc Hf. unfold contains. induction (r_cs r) as [|c cs IH]; [reflexivity|].
    cbn [forallb]. rewrite IH, (sat_constraint_eqv a b c Hc Hf). reflexivity.
  Qed.

  (* for an arbitrary total-preorder oracle whose equivalence respects the three numbers *)
  Theorem C20_oracle r a b :
    TotalPreorder vcmp ->
    (forall x y, vcmp x y = Eq -> option_map triple (fields x) = option_map triple (fields y)) ->
    vcmp a b = Eq -> contains vcmp r a = contains vcmp r b.
  Proof.
    intros T F E. apply C20_generic; [|apply F, E].
    intros t. apply (tp_eq_l T). exact E.
  Qed.
End C20.

(* end to end: the model's own Compare *)
Theorem C20_self r a b :
  svok a = true -> svok b = true -> svcmp a b = Eq ->
  contains svcmp r a = contains svcmp r b.
Proof.
  unfold svok. intros Ha Hb E.
  destruct (fields a) as [fa|] eqn:Fa; [|discriminate].
  destruct (fields b) as [fb|] eqn:Fb; [|discriminate].
  assert (E' : cmp_core fa fb = Eq) by (unfold svcmp in E; rewrite Fa, Fb in E; exact E).
  apply C20_generic.
  - intros t. unfold svcmp. rewrite Fa, Fb. destruct (fields t); [|reflexivity].
    apply (tp_eq_l cmp_core_tp). exact E'.
  - rewrite Fa, Fb. cbn [option_map]. f_equal. apply cmp_core_eq_triple, E'.
Qed.

Corollary C20_self_text rs a b :
  svok a = true -> svok b = true -> svcmp a b = Eq ->
  r_contains svok svcmp rs a = r_contains svok svcmp rs b.
Proof.
  intros Ha Hb E. unfold r_contains. destruct (parse_range svok rs) as [r|]; [|reflexivity].
  rewrite Ha, Hb, (C20_self r a b Ha Hb E). reflexivity.
Qed.

(* ---------- convexity of ranges without "!=" ---------- *)

Definition is_ne (o : cop) : bool := match o with CNe => true | _ => false end.
Definition conj_only (r : range) : bool :=
  forallb (fun c => match c_kind c with KCmp op => negb (is_ne (sem6 op)) | _ => true end) (r_cs r).

Section Mono.
  Variable A : Type.
  Variable cmp : A -> A -> comparison.
  Hypothesis T : TotalPreorder cmp.

  Lemma mono_up_lt b c t : cmp b c <> Gt -> cmp c t = Lt -> cmp b t = Lt.
  Proof. intros H1 H2. apply (tp_lt_trans T b c t); unfold le_c, lt_c; auto. rewrite H2. discriminate. Qed.

  Lemma mono_up_le b c t : cmp b c <> Gt -> cmp c t <> Gt -> cmp b t <> Gt.
  Proof. apply (tp_le_trans T). Qed.

  Lemma mono_dn_ge a b t : cmp a b <> Gt -> cmp a t <> Lt -> cmp b t <> Lt.
  Proof.
    intros H1 H2.
    assert (L : cmp t a <> Gt). { rewrite (tp_anti T a t). destruct (cmp a t); simpl; congruence. }
    pose proof (tp_le_trans T t a b L H1) as L2. unfold le_c in L2.
    rewrite (tp_anti T b t) in L2. destruct (cmp b t); simpl in L2; congruence.
  Qed.

  Lemma mono_dn_gt a b t : cmp a b <> Gt -> cmp a t = Gt -> cmp b t = Gt.
  Proof.
    intros H1 H2.
    assert (L : cmp t a = Lt). { rewrite (tp_anti T a t), H2. reflexivity. }
    assert (L2 : cmp t b = Lt).
    { apply (tp_lt_trans T t a b); unfold le_c, lt_c; auto. rewrite L. discriminate. }
    rewrite (tp_anti T t b), L2. reflexivity.
  Qed.
End Mono.

Lemma in_interval_convex fa fb fc lo hi :
  cmp_core fa fb <> Gt -> cmp_core fb fc <> Gt ->
  in_interval fa lo hi = true -> in_interval fc lo hi = true -> in_interval fb lo hi = true.
Proof.
  unfold in_interval. intros Hab Hbc Ha Hc.
  apply andb_true_iff in Ha. destruct Ha as [Ha _].
  apply andb_true_iff in Hc. destruct Hc as [_ Hc].
  apply andb_true_iff. split.
  - assert (G : cmp_core fb lo <> Lt).
    { apply (mono_dn_ge _ _ cmp_core_tp fa fb lo Hab). destruct (cmp_core fa lo); try discriminate. }
    destruct (cmp_core fb lo); try reflexivity. congruence.
  - assert (G : cmp_core fb hi = Lt).
    { apply (mono_up_lt _ _ cmp_core_tp fb fc hi Hbc). destruct (cmp_core fc hi); try discriminate. reflexivity. }
    rewrite G. reflexivity.
Qed.

Lemma sat_cmp_convex o fa fb fc ft :
  is_ne o = false ->
  cmp_core fa fb <> Gt -> cmp_core fb fc <> Gt ->
  sat o (cmp_core fa ft) = true -> sat o (cmp_core fc ft) = true -> sat o (cmp_core fb ft) = true.
Proof.
  intros Ho Hab Hbc Ha Hc.
  pose proof (mono_up_lt _ _ cmp_core_tp fb fc ft Hbc) as U1.
  pose proof (mono_up_le _ _ cmp_core_tp fb fc ft Hbc) as U2.
  pose proof (mono_dn_ge _ _ cmp_core_tp fa fb ft Hab) as D1.
  pose proof (mono_dn_gt _ _ cmp_core_tp fa fb ft Hab) as D2.
  destruct o; try discriminate;
    destruct (cmp_core fa ft); try discriminate;
    destruct (cmp_core fc ft); try discriminate;
    destruct (cmp_core fb ft); try reflexivity; exfalso;
    try (specialize (U1 eq_refl); discriminate);
    try (specialize (D2 eq_refl); discriminate);
    try (apply U2; [discriminate|reflexivity]);
    try (apply D1; [discriminate|reflexivity]).
Qed.

Theorem convex_self r a b c fa fb fc :
  fields a = Some fa -> fields b = Some fb -> fields c = Some fc ->
  conj_only r = true ->
  cmp_core fa fb <> Gt -> cmp_core fb fc <> Gt ->
  contains svcmp r a = true -> contains svcmp r c = true -> contains svcmp r b = true.
Proof.
  intros Fa Fb Fc. unfold conj_only, contains.
  induction (r_cs r) as [|k ks IH]; [reflexivity|].
  cbn [forallb]. intros Hk Hab Hbc Ha Hc.
  apply andb_true_iff in Hk. destruct Hk as [Hk Hks].
  apply andb_true_iff in Ha. destruct Ha as [Ha Has].
  apply andb_true_iff in Hc. destruct Hc as [Hc Hcs].
  rewrite (IH Hks Hab Hbc Has Hcs), andb_true_r. clear IH Hks Has Hcs.
  destruct (fields (c_ver k)) as [ft|] eqn:Ft.
  - rewrite (sat_constraint_self _ _ _ _ Fa Ft) in Ha.
    rewrite (sat_constraint_self _ _ _ _ Fc Ft) in Hc.
    rewrite (sat_constraint_self _ _ _ _ Fb Ft).
    pose proof (fields_wf _ _ Fa) as Wa. pose proof (fields_wf _ _ Fb) as Wb.
    pose proof (fields_wf _ _ Fc) as Wc. pose proof (fields_wf _ _ Ft) as Wt.
    destruct (c_kind k) as [op|p|p]; cbn [sat_kind] in *.
    + apply negb_true_iff in Hk. eapply sat_cmp_convex; eassumption.
    + rewrite caret_interval in * by assumption. eapply in_interval_convex; eassumption.
    + rewrite tilde_interval in * by assumption. eapply in_interval_convex; eassumption.
  - unfold sat_constraint, sat_caret, sat_tilde, svcmp in *.
    rewrite Ft in *. rewrite Fa in Ha. rewrite Fb.
    destruct (c_kind k); [exact Ha|discriminate|discriminate].
Qed.

(* ---------- the statements above speak about the registered entry ---------- *)

Section Ext.
  Variables vok vok' : bytes -> bool.
  Variables vcmp vcmp' : bytes -> bytes -> comparison.
  Hypothesis Hok : forall s, vok s = vok' s.
  Hypothesis Hcmp : forall a b, vcmp a b = vcmp' a b.

  Lemma mk_ext k t : mk vok k t = mk vok' k t.
  Proof. unfold mk. rewrite Hok. reflexivity. Qed.

  Lemma parse_constraint_ext s : parse_constraint vok s = parse_constraint vok' s.
  Proof.
    unfold parse_constraint, parse_wildcard.
    destruct (strip_prefix $"^" (trim_space s)); [apply mk_ext|].
    destruct (strip_prefix $"~" (trim_space s)); [apply mk_ext|].
    destruct (first_prefix cargo_ops (trim_space s)) as [[op rest]|].
    - destruct (trim_space rest); [reflexivity|apply mk_ext].
    - destruct (contains_c "*"%char (trim_space s)); [|apply mk_ext].
      destruct (beq (trim_space s) $"*"); [apply mk_ext|].
      destruct (length (split_c "."%char (trim_suffix $"." (trim_suffix $"*" (trim_space s)))))
        as [|[|[|n]]]; try reflexivity; apply mk_ext.
  Qed.

  Lemma parse_constraints_ext l : parse_constraints vok l = parse_constraints vok' l.
  Proof.
    induction l as [|p l IH]; [reflexivity|]. cbn [parse_constraints].
    rewrite parse_constraint_ext, IH. reflexivity.
  Qed.

  Lemma parse_range_ext s : parse_range vok s = parse_range vok' s.
  Proof. unfold parse_range. rewrite parse_constraints_ext. reflexivity. Qed.

  Lemma contains_ext r v : contains vcmp r v = contains vcmp' r v.
  Proof.
    unfold contains. induction (r_cs r) as [|c cs IH]; [reflexivity|]. cbn [forallb].
    rewrite IH. f_equal. unfold sat_constraint, sat_caret, sat_tilde. rewrite !Hcmp. reflexivity.
  Qed.

  Lemma r_contains_ext rs v : r_contains vok vcmp rs v = r_contains vok' vcmp' rs v.
  Proof.
    unfold r_contains. rewrite parse_range_ext, Hok.
    destruct (parse_range vok' rs); [|reflexivity]. rewrite contains_ext. reflexivity.
  Qed.
End Ext.

(* the registered model, run end to end, is [r_contains svok svcmp] *)
Theorem entry_self rs v :
  Iface.r_contains (e_r Entry.entry) (self_vok Entry.entry) (self_vcmp Entry.entry) rs v =
  r_contains svok svcmp rs v.
Proof.
  unfold Entry.entry at 1. cbn [e_r Entry.r Iface.r_contains].
  apply r_contains_ext; [apply self_vok_eq|apply self_vcmp_eq].
Qed.

Print Assumptions C02_comparator.
Print Assumptions C02_bare.
Print Assumptions C02_and.
Print Assumptions caret_interval.
Print Assumptions tilde_interval.
Print Assumptions C05_caret.
Print Assumptions C05_tilde.
Print Assumptions C05_star.
Print Assumptions C05_wildcard_major.
Print Assumptions C05_wildcard_minor.
Print Assumptions C20_oracle.
Print Assumptions C20_self.
Print Assumptions convex_self.
Print Assumptions entry_self.
