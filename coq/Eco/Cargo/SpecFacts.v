(* Eco/Cargo/SpecFacts.v — C08 for cargo: the Compare model orders versions as SemVer 2.0.0
   section 11 does (reference: Spec/SemVer.v, denotation den_cargo = parse_loose 3 3), on every
   spec-valid text whose numbers fit int64; and where the numbers do not fit, it does not. *)
From Coq Require Import Lia.
From Verif.Base Require Import Bytes GoNum Ord BytesFacts.
From Verif.Eco Require Import VLayer Iface.
From Verif.Spec Require SemVer SemVerFacts All.
From Verif.Eco.Cargo Require Import Version NumFacts VersionFacts RangeFacts.
From Verif.Eco.Cargo Require Entry.
Local Open Scope N_scope.

(* ---------- scope ---------- *)

(* the value of a digit string fits int64 (leading zeros do not count) *)
Definition small (s : bytes) : bool := digits_val s <? two63.

(* Not claimed: texts with a numeric component, or an all-digit pre-release identifier, whose
   value is 2^63 or more (strconv.Atoi fails there: NewVersion rejects the component, and
   tryParseInt falls back to comparing the identifier as text).  The text is cut exactly as the
   grammar cuts it: build metadata after the first "+", pre-release after the first "-". *)
Definition in_scope (s : bytes) : bool :=
  let '(main, _) := split2_c "+"%char s in
  let '(core, prerel) := split2_c "-"%char main in
  forallb small (split_c "."%char core) &&
  match prerel with
  | None => true
  | Some p => forallb (fun i => negb (all_digits i) || small i) (split_c "."%char p)
  end.

Definition sp_valid (s : bytes) : bool := SemVer.isSome (SemVer.den_cargo s).
Definition sp_cmp : bytes -> bytes -> option comparison := SemVer.spec_cmp_with SemVer.den_cargo.

(* ---------- what is outside the scope really deviates ---------- *)

Lemma cargo_cmp_is_spec_refuted :
  exists a b, sp_valid a = true /\ sp_valid b = true /\
              v_cmp Entry.v a b = Some Gt /\ sp_cmp a b = Some Lt.
Proof.
  exists $"1.0.0-9223372036854775808", $"1.0.0-10000000000000000000".
  vm_compute. repeat split.
Qed.

Lemma cargo_accepts_spec_valid_refuted :
  exists s, sp_valid s = true /\ v_show Entry.v s = None.
Proof. exists $"9223372036854775808.0.0". vm_compute. split; reflexivity. Qed.

(* ---------- general list / string lemmas ---------- *)

Lemma cut1_some c s a b : cut [c] s = Some (a, b) -> s = a ++ c :: b.
Proof.
  revert a b. induction s as [|x s IH]; intros a b; cbn [cut has_prefix].
  - discriminate.
  - destruct (ceqb c x) eqn:E; cbn [andb].
    + apply ceqb_eq in E. subst x. cbn [length skipn]. intros H. injection H as <- <-. reflexivity.
    + destruct (cut [c] s) as [[a' b']|]; [|discriminate].
      intros H. injection H as <- <-. rewrite (IH a' b' eq_refl). reflexivity.
Qed.

Lemma join_split sep s : join [sep] (split_c sep s) = s.
Proof.
  induction s as [|c s IH]; [reflexivity|]. cbn [split_c].
  pose proof (split_c_nonnil sep s) as N.
  destruct (ceqb sep c) eqn:E.
  - apply ceqb_eq in E. subst c.
    destruct (split_c sep s) as [|f fs]; [congruence|].
    change (join [sep] ([] :: f :: fs)) with ([] ++ [sep] ++ join [sep] (f :: fs)).
    rewrite IH. reflexivity.
  - destruct (split_c sep s) as [|f fs]; [congruence|].
    rewrite <- IH. destruct fs; reflexivity.
Qed.

Lemma map_opt_length {A B} (f : A -> option B) l r :
  SemVer.map_opt f l = Some r -> length r = length l.
Proof.
  revert r. induction l as [|x l IH]; intros r; cbn [SemVer.map_opt].
  - intros H. injection H as <-. reflexivity.
  - destruct (f x); [|discriminate]. destruct (SemVer.map_opt f l); [|discriminate].
    intros H. injection H as <-. cbn [length]. f_equal. apply IH. reflexivity.
Qed.

Lemma map_opt_forall {A B} (f : A -> option B) l r :
  SemVer.map_opt f l = Some r -> forall x, In x l -> exists y, f x = Some y.
Proof.
  revert r. induction l as [|a l IH]; intros r H x Hx; [destruct Hx|].
  cbn [SemVer.map_opt] in H. destruct (f a) eqn:Fa; [|discriminate].
  destruct (SemVer.map_opt f l) eqn:Fl; [|discriminate].
  destruct Hx as [<-|Hx]; [eauto|]. eapply IH; [reflexivity|exact Hx].
Qed.

Lemma forallb_of_In {A} (p : A -> bool) l : (forall x, In x l -> p x = true) -> forallb p l = true.
Proof. intros H. apply forallb_forall. exact H. Qed.

Lemma thenc_eq_r c : thenc c Eq = c.
Proof. destruct c; reflexivity. Qed.

(* ---------- parse_core on digits "." digits "." digits suffix ---------- *)

Lemma span_digits a r :
  forallb is_digit a = true ->
  (r = [] \/ exists c r', r = c :: r' /\ is_digit c = false) ->
  span is_digit (a ++ r) = (a, r).
Proof.
  intros D [->|(c & r' & -> & Hc)]; unfold span.
  - rewrite app_nil_r, take_while_all, drop_while_all by exact D. reflexivity.
  - rewrite take_while_app, drop_while_app by assumption. reflexivity.
Qed.

Lemma nonempty_digits_all s : nonempty_digits s = true -> forallb is_digit s = true.
Proof. destruct s; [discriminate|auto]. Qed.

Lemma parse_core_digits a b c r p bld :
  nonempty_digits a = true -> nonempty_digits b = true -> nonempty_digits c = true ->
  small a = true -> small b = true -> small c = true ->
  parse_suffix r = Some (p, bld) ->
  parse_core (a ++ "."%char :: b ++ "."%char :: c ++ r) =
  Some (mkc (digits_val a) (digits_val b) (digits_val c) p bld).
Proof.
  intros Na Nb Nc Sa Sb Sc Hs. unfold small in *.
  apply N.ltb_lt in Sa. apply N.ltb_lt in Sb. apply N.ltb_lt in Sc.
  unfold parse_core.
  rewrite span_digits by (auto using nonempty_digits_all; right; eexists _, _; split; reflexivity).
  cbn [expect_dot]. change (ceqb "." ".") with true. cbv iota.
  rewrite span_digits by (auto using nonempty_digits_all; right; eexists _, _; split; reflexivity).
  cbn [expect_dot]. change (ceqb "." ".") with true. cbv iota.
  rewrite span_digits by (auto using nonempty_digits_all; eapply parse_suffix_head; exact Hs).
  rewrite Hs. rewrite !atoi_digits by assumption. rewrite Na, Nb, Nc. reflexivity.
Qed.

(* ---------- from the grammar of the reference to the shape parse_core reads ---------- *)

Lemma numeric_loose_inv s n :
  SemVer.numeric false s = Some n -> nonempty_digits s = true /\ n = digits_val s.
Proof.
  unfold SemVer.numeric. cbn [negb orb]. rewrite andb_true_r.
  destruct (nonempty_digits s); [|discriminate]. intros H. injection H as <-. auto.
Qed.

Lemma pre_ident_chars s i :
  SemVer.pre_ident false s = Some i -> s <> [] /\ forallb is_ident_c s = true.
Proof.
  unfold SemVer.pre_ident. destruct s as [|c s]; [discriminate|]. intros H. split; [discriminate|].
  destruct (all_digits (c :: s)) eqn:D.
  - eapply forallb_impl; [|exact D]. intros x Hx. unfold is_ident_c, is_alnum. rewrite Hx. reflexivity.
  - destruct (forallb SemVer.is_ident_char (c :: s)) eqn:I; [exact I|discriminate].
Qed.

Lemma parse_pre_dotted p ids : SemVer.parse_pre false p = Some ids -> dotted_idents p = true.
Proof.
  unfold SemVer.parse_pre, dotted_idents. intros H. apply forallb_of_In. intros x Hx.
  destruct (map_opt_forall _ _ _ H x Hx) as [i Hi].
  destruct (pre_ident_chars x i Hi) as [N F]. destruct x; [congruence|exact F].
Qed.

Lemma build_ok_dotted b : SemVer.build_ok b = true -> dotted_idents b = true.
Proof.
  unfold SemVer.build_ok, dotted_idents. apply forallb_impl.
  intros [|c x]; [discriminate|]. unfold SemVer.build_ident_ok. auto.
Qed.

(* the identifiers of the reference and the texts the model compares *)
Definition ident_scope (i : bytes) : bool := negb (all_digits i) || small i.

Lemma ident_cmp_spec x y i j :
  SemVer.pre_ident false x = Some i -> SemVer.pre_ident false y = Some j ->
  ident_scope x = true -> ident_scope y = true ->
  Version.ident_cmp x y = SemVer.ident_cmp i j.
Proof.
  intros Hx Hy Sx Sy.
  assert (K : forall s k, SemVer.pre_ident false s = Some k -> ident_scope s = true ->
              (all_digits s = true /\ k = SemVer.INum (digits_val s) /\
               ident_key s = (false, (Z.of_N (digits_val s), []))) \/
              (all_digits s = false /\ k = SemVer.IAlnum s /\ ident_key s = (true, (0%Z, s)))).
  { intros s k H S. unfold SemVer.pre_ident in H. destruct s as [|c s]; [discriminate|].
    unfold ident_key, try_parse_int. unfold ident_scope in S.
    destruct (all_digits (c :: s)) eqn:D.
    - left. cbn [negb orb] in S. unfold small in S. apply N.ltb_lt in S.
      unfold SemVer.numeric in H. cbn [negb orb] in H. rewrite andb_true_r in H.
      assert (ND : nonempty_digits (c :: s) = true) by exact D.
      rewrite ND in H. cbn [option_map] in H. injection H as <-.
      rewrite atoi_digits by assumption. auto.
    - right. destruct (forallb SemVer.is_ident_char (c :: s)); [|discriminate].
      injection H as <-. auto. }
  unfold Version.ident_cmp, cmp_on.
  destruct (K x i Hx Sx) as [(_ & -> & ->)|(_ & -> & ->)];
    destruct (K y j Hy Sy) as [(_ & -> & ->)|(_ & -> & ->)];
    unfold lex2; cbn [fst snd bool_cmp thenc SemVer.ident_cmp bytes_cmp].
  - rewrite thenc_eq_r. apply N2Z.inj_compare.
  - reflexivity.
  - reflexivity.
  - reflexivity.
Qed.

Lemma idents_cmp_spec l1 : forall l2 i1 i2,
  SemVer.map_opt (SemVer.pre_ident false) l1 = Some i1 ->
  SemVer.map_opt (SemVer.pre_ident false) l2 = Some i2 ->
  forallb ident_scope l1 = true -> forallb ident_scope l2 = true ->
  lex_short Version.ident_cmp l1 l2 = lex_short SemVer.ident_cmp i1 i2.
Proof.
  induction l1 as [|x l1 IH]; intros [|y l2] i1 i2 H1 H2 S1 S2; cbn [SemVer.map_opt] in H1, H2.
  - injection H1 as <-. injection H2 as <-. reflexivity.
  - injection H1 as <-.
    destruct (SemVer.pre_ident false y); [|discriminate].
    destruct (SemVer.map_opt (SemVer.pre_ident false) l2); [|discriminate].
    injection H2 as <-. reflexivity.
  - injection H2 as <-.
    destruct (SemVer.pre_ident false x); [|discriminate].
    destruct (SemVer.map_opt (SemVer.pre_ident false) l1); [|discriminate].
    injection H1 as <-. reflexivity.
  - destruct (SemVer.pre_ident false x) as [i|] eqn:Ex; [|discriminate].
    destruct (SemVer.map_opt (SemVer.pre_ident false) l1) as [is1|] eqn:E1; [|discriminate].
    destruct (SemVer.pre_ident false y) as [j|] eqn:Ey; [|discriminate].
    destruct (SemVer.map_opt (SemVer.pre_ident false) l2) as [is2|] eqn:E2; [|discriminate].
    injection H1 as <-. injection H2 as <-.
    cbn [forallb] in S1, S2.
    apply andb_true_iff in S1. destruct S1 as [Sx S1].
    apply andb_true_iff in S2. destruct S2 as [Sy S2].
    cbn [lex_short]. rewrite (ident_cmp_spec x y i j Ex Ey Sx Sy).
    rewrite (IH l2 is1 is2 eq_refl E2 S1 S2). reflexivity.
Qed.

(* the correspondence between a denotation and a parsed core *)
Definition pre_matches (p : bytes) (ids : list SemVer.ident) : Prop :=
  (p = [] /\ ids = []) \/
  (p <> [] /\ SemVer.map_opt (SemVer.pre_ident false) (split_c "."%char p) = Some ids /\
   forallb ident_scope (split_c "."%char p) = true).

Definition matches (c : core) (v : SemVer.sv) : Prop :=
  exists x y z, major c = Z.of_N x /\ minor c = Z.of_N y /\ patch c = Z.of_N z /\
                SemVer.nums v = [x; y; z] /\ pre_matches (prerelease c) (SemVer.pre v).

Lemma map_opt_nonnil {A B} (f : A -> option B) l r :
  SemVer.map_opt f l = Some r -> l <> [] -> r <> [].
Proof.
  intros H N E. subst r. apply map_opt_length in H. destruct l; [congruence|discriminate].
Qed.

Lemma pre_cmp_spec p1 p2 ids1 ids2 :
  pre_matches p1 ids1 -> pre_matches p2 ids2 ->
  Version.pre_cmp p1 p2 = SemVer.pre_cmp ids1 ids2.
Proof.
  unfold Version.pre_cmp, SemVer.pre_cmp, cmp_on.
  intros [[-> ->]|(N1 & M1 & S1)] [[-> ->]|(N2 & M2 & S2)].
  - reflexivity.
  - pose proof (map_opt_nonnil _ _ _ M2 (split_c_nonnil _ _)) as R.
    destruct p2; [congruence|]. destruct ids2; [congruence|]. reflexivity.
  - pose proof (map_opt_nonnil _ _ _ M1 (split_c_nonnil _ _)) as R.
    destruct p1; [congruence|]. destruct ids1; [congruence|]. reflexivity.
  - pose proof (map_opt_nonnil _ _ _ M1 (split_c_nonnil _ _)) as R1.
    pose proof (map_opt_nonnil _ _ _ M2 (split_c_nonnil _ _)) as R2.
    unfold Version.pre_key, SemVer.pre_key.
    destruct p1 as [|c1 p1]; [congruence|]. destruct p2 as [|c2 p2]; [congruence|].
    destruct ids1 as [|i1 ids1]; [congruence|]. destruct ids2 as [|i2 ids2]; [congruence|].
    cbn [opt_last]. apply idents_cmp_spec; assumption.
Qed.

Lemma cmp_core_spec c1 c2 v1 v2 :
  matches c1 v1 -> matches c2 v2 -> cmp_core c1 c2 = SemVer.prec v1 v2.
Proof.
  intros (x1 & y1 & z1 & A1 & B1 & C1 & N1 & P1) (x2 & y2 & z2 & A2 & B2 & C2 & N2 & P2).
  rewrite cmp_core_unfold. unfold SemVer.prec, lexc, cmp_on.
  rewrite N1, N2, SemVerFacts.nums_cmp_3.
  rewrite A1, A2, B1, B2, C1, C2, !N2Z.inj_compare.
  rewrite (pre_cmp_spec _ _ _ _ P1 P2).
  destruct (x1 ?= x2), (y1 ?= y2), (z1 ?= z2); reflexivity.
Qed.

(* ---------- a spec-valid text in scope is parsed, to the corresponding structure ---------- *)

Notation nospace := (fun c : ascii => negb (is_space c)).

Lemma dotted_nospace p : dotted_idents p = true -> forallb nospace p = true.
Proof.
  intros H. apply plain_nospace, good_plain.
  eapply forallb_impl; [|apply dotted_idents_chars; exact H]. apply ident_good.
Qed.

Lemma digits_nospace a : forallb is_digit a = true -> forallb nospace a = true.
Proof.
  intros H. apply plain_nospace, good_plain, vchars_good.
  eapply forallb_impl; [|exact H]. intros c Hc. unfold vchar. rewrite Hc. reflexivity.
Qed.

Lemma split2_app c s m o :
  split2_c c s = (m, o) -> s = m ++ match o with Some b => c :: b | None => [] end.
Proof.
  unfold split2_c. destruct (cut [c] s) as [[a b]|] eqn:E; intros H; injection H as <- <-.
  - apply cut1_some. exact E.
  - symmetry. apply app_nil_r.
Qed.

Lemma parse_nums_3 core ns :
  SemVer.parse_nums false 3 3 core = Some ns ->
  exists a b c, split_c "."%char core = [a; b; c] /\
                nonempty_digits a = true /\ nonempty_digits b = true /\ nonempty_digits c = true /\
                ns = [digits_val a; digits_val b; digits_val c].
Proof.
  unfold SemVer.parse_nums.
  destruct (SemVer.map_opt (SemVer.numeric false) (split_c "."%char core)) as [l|] eqn:M; [|discriminate].
  destruct (Nat.leb 3 (length l) && Nat.leb (length l) 3)%bool eqn:L; [|discriminate].
  intros H. injection H as <-.
  apply andb_true_iff in L. destruct L as [L1 L2].
  apply Nat.leb_le in L1. apply Nat.leb_le in L2.
  pose proof (map_opt_length _ _ _ M) as Len.
  destruct (split_c "."%char core) as [|a [|b [|c [|d r]]]]; cbn [length] in Len; try lia.
  exists a, b, c. cbn [SemVer.map_opt] in M.
  destruct (SemVer.numeric false a) as [x|] eqn:Ea; [|discriminate].
  destruct (SemVer.numeric false b) as [y|] eqn:Eb; [|discriminate].
  destruct (SemVer.numeric false c) as [z|] eqn:Ec; [|discriminate].
  injection M as <-.
  destruct (numeric_loose_inv _ _ Ea) as [Na ->].
  destruct (numeric_loose_inv _ _ Eb) as [Nb ->].
  destruct (numeric_loose_inv _ _ Ec) as [Nc ->]. auto 10.
Qed.

Theorem den_parse_core s v :
  SemVer.den_cargo s = Some v -> in_scope s = true ->
  exists c, parse_core s = Some c /\ matches c v /\ trim_space s = s.
Proof.
  unfold SemVer.den_cargo, SemVer.parse_loose, SemVer.parse_gen, in_scope.
  destruct (split2_c "+"%char s) as [main build] eqn:E1.
  destruct (split2_c "-"%char main) as [core prerel] eqn:E2.
  apply split2_app in E1. apply split2_app in E2.
  intros D S. apply andb_true_iff in S. destruct S as [Sn Sp].
  assert (B : match build with None => True | Some b => dotted_idents b = true end).
  { destruct build as [b|]; [|exact I]. apply build_ok_dotted.
    destruct (SemVer.build_ok b); [reflexivity|discriminate]. }
  assert (D' : match SemVer.parse_nums false 3 3 core with
               | Some ns =>
                   match prerel with
                   | None => Some {| SemVer.nums := SemVer.pad_nums 3 ns; SemVer.pre := [] |}
                   | Some p =>
                       match SemVer.parse_pre false p with
                       | Some ids => Some {| SemVer.nums := SemVer.pad_nums 3 ns; SemVer.pre := ids |}
                       | None => None
                       end
                   end
               | None => None
               end = Some v).
  { destruct build as [b|]; [destruct (SemVer.build_ok b); [exact D|discriminate]|exact D]. }
  clear D.
  destruct (SemVer.parse_nums false 3 3 core) as [ns|] eqn:PN; [|discriminate].
  destruct (parse_nums_3 core ns PN) as (a & b & c & Sc & Na & Nb & Nc & ->).
  rewrite Sc in Sn. cbn [forallb] in Sn.
  apply andb_true_iff in Sn. destruct Sn as [Sa Sn].
  apply andb_true_iff in Sn. destruct Sn as [Sb Sn].
  apply andb_true_iff in Sn. destruct Sn as [Sc' _].
  assert (Ec : core = a ++ "."%char :: b ++ "."%char :: c).
  { rewrite <- (join_split "."%char core), Sc. reflexivity. }
  (* the suffix and the pre-release *)
  assert (R : exists r p bld ids,
             s = core ++ r /\ parse_suffix r = Some (p, bld) /\ forallb nospace r = true /\
             SemVer.pre v = ids /\ pre_matches p ids /\
             SemVer.nums v = [digits_val a; digits_val b; digits_val c]).
  { destruct prerel as [p|].
    - destruct (SemVer.parse_pre false p) as [ids|] eqn:PP; [|discriminate].
      injection D' as <-. pose proof (parse_pre_dotted p ids PP) as Dp.
      assert (PM : pre_matches p ids).
      { right. repeat split; [apply dotted_idents_nonempty, Dp|exact PP|exact Sp]. }
      destruct build as [bd|].
      + exists ("-"%char :: p ++ "+"%char :: bd), p, bd, ids. repeat split; auto.
        * rewrite E1, E2, <- app_assoc. reflexivity.
        * apply parse_suffix_pre_build; assumption.
        * cbn [forallb]. rewrite forallb_app. cbn [forallb].
          rewrite (dotted_nospace p Dp), (dotted_nospace bd B). reflexivity.
      + exists ("-"%char :: p), p, [], ids. repeat split; auto.
        * rewrite E1, E2, app_nil_r. reflexivity.
        * apply parse_suffix_pre; assumption.
        * cbn [forallb]. rewrite (dotted_nospace p Dp). reflexivity.
    - injection D' as <-.
      destruct build as [bd|].
      + exists ("+"%char :: bd), [], bd, []. repeat split; auto.
        * rewrite E1, E2, app_nil_r. reflexivity.
        * apply parse_suffix_build; assumption.
        * cbn [forallb]. rewrite (dotted_nospace bd B). reflexivity.
        * left. auto.
      + exists [], [], [], []. repeat split; auto.
        * rewrite E1, E2, !app_nil_r. reflexivity.
        * left. auto. }
  destruct R as (r & p & bld & ids & Es & PS & NS & Pv & PM & Nv).
  exists (mkc (digits_val a) (digits_val b) (digits_val c) p bld).
  assert (Es' : s = a ++ "."%char :: b ++ "."%char :: c ++ r).
  { rewrite Es, Ec, <- app_assoc. cbn [app]. rewrite <- app_assoc. reflexivity. }
  split; [|split].
  - rewrite Es'. apply parse_core_digits; assumption.
  - exists (digits_val a), (digits_val b), (digits_val c). unfold mkc. cbn [major minor patch prerelease].
    rewrite Pv. auto 10.
  - apply trim_space_trimmed, nospace_trimmed.
    + rewrite Es'. destruct a; [discriminate|discriminate].
    + rewrite Es'. repeat (rewrite forallb_app; cbn [forallb]).
      rewrite !digits_nospace by (apply nonempty_digits_all; assumption).
      rewrite NS. reflexivity.
Qed.

(* ---------- the two theorems ---------- *)

Theorem cargo_accepts_spec_valid s :
  in_scope s = true -> sp_valid s = true -> exists t, v_show Entry.v s = Some t.
Proof.
  unfold sp_valid. intros S V. destruct (SemVer.den_cargo s) as [v|] eqn:D; [|discriminate].
  destruct (den_parse_core s v D S) as (c & P & _ & T).
  exists s. unfold Entry.v, mk_vops. cbn [v_show]. unfold VLayer.parse.
  rewrite T, P. reflexivity.
Qed.

Theorem cargo_cmp_is_spec a b :
  in_scope a = true -> in_scope b = true -> sp_valid a = true -> sp_valid b = true ->
  v_cmp Entry.v a b = sp_cmp a b.
Proof.
  unfold sp_valid, sp_cmp, SemVer.spec_cmp_with. intros Sa Sb Va Vb.
  destruct (SemVer.den_cargo a) as [va|] eqn:Da; [|discriminate].
  destruct (SemVer.den_cargo b) as [vb|] eqn:Db; [|discriminate].
  destruct (den_parse_core a va Da Sa) as (ca & Pa & Ma & Ta).
  destruct (den_parse_core b vb Db Sb) as (cb & Pb & Mb & Tb).
  unfold Entry.v, mk_vops. cbn [v_cmp]. unfold VLayer.parse.
  rewrite Ta, Pa, Tb, Pb. unfold VLayer.cmp. cbn [v_core].
  rewrite (cmp_core_spec ca cb va vb Ma Mb). reflexivity.
Qed.

(* the registered reference is the one used above *)
Lemma sp_is_registered :
  exists sp, Spec.All.find_spec $"cargo" Spec.All.specs = Some sp /\
             (forall s, Spec.All.sp_valid sp s = sp_valid s) /\
             (forall a b, Spec.All.sp_cmp sp a b = sp_cmp a b).
Proof. eexists. split; [vm_compute; reflexivity|]. split; reflexivity. Qed.

(* the scope of the task statement (at most 18 digits everywhere) lies inside in_scope *)
Lemma small_of_18_digits s : (length s <= 18)%nat -> forallb is_digit s = true -> small s = true.
Proof.
  intros L D. unfold small. apply N.ltb_lt.
  assert (G : forall l acc, forallb is_digit l = true ->
              fold_left (fun a c => a * 10 + digit_val c) l acc < (acc + 1) * 10 ^ N.of_nat (length l)).
  { induction l as [|c l IH]; intros acc H; cbn [fold_left length].
    - cbn. lia.
    - cbn [forallb] in H. apply andb_true_iff in H. destruct H as [Hc Hl].
      specialize (IH (acc * 10 + digit_val c) Hl).
      apply is_digit_code in Hc. unfold digit_val in *.
      rewrite Nnat.Nat2N.inj_succ, N.pow_succ_r'.
      set (P := 10 ^ N.of_nat (length l)) in *.
      set (d := code c - 48) in *. assert (Hd : d <= 9) by (unfold d; lia).
      clearbody d P. nia. }
  specialize (G s 0 D). unfold digits_val.
  eapply N.lt_le_trans; [exact G|].
  replace ((0 + 1) * 10 ^ N.of_nat (length s)) with (10 ^ N.of_nat (length s)) by lia.
  apply N.le_trans with (10 ^ 18); [|vm_compute; discriminate].
  apply N.pow_le_mono_r; lia.
Qed.

Print Assumptions cargo_cmp_is_spec.
Print Assumptions cargo_accepts_spec_valid.
Print Assumptions cargo_cmp_is_spec_refuted.
Print Assumptions cargo_accepts_spec_valid_refuted.
