(* Eco/Cargo/Version.v — model of pkg/ecosystem/cargo/version.go (definitions only). *)
From Verif.Base Require Import Bytes GoNum.
From Verif.Eco Require Import VLayer.
Local Open Scope N_scope.

(* type Version struct { major, minor, patch int; prerelease, build string; original string } *)
Record core := {
  major : Z;
  minor : Z;
  patch : Z;
  prerelease : bytes;   (* "" = none *)
  build : bytes         (* "" = none; never looked at by Compare *)
}.

(* [0-9A-Za-z-] *)
Definition is_ident_c (c : ascii) : bool := is_alnum c || ceqb c "-"%char.

(* the whole of [s] matches [0-9A-Za-z-]+(?:\.[0-9A-Za-z-]+)* *)
Definition dotted_idents (s : bytes) : bool :=
  forallb (fun p => match p with [] => false | _ => forallb is_ident_c p end)
          (split_c "."%char s).

(* the tail of versionPattern after the three numbers:
   (?:-(idents))?(?:\+(idents))?$   -> (prerelease, build) *)
Definition parse_suffix (r : bytes) : option (bytes * bytes) :=
  match r with
  | [] => Some ([], [])
  | c :: r' =>
      if ceqb c "-"%char then
        match split2_c "+"%char r' with
        | (p, None) => if dotted_idents p then Some (p, []) else None
        | (p, Some b) => if dotted_idents p && dotted_idents b then Some (p, b) else None
        end
      else if ceqb c "+"%char then
        if dotted_idents r' then Some ([], r') else None
      else None
  end.

(* "." followed by the rest *)
Definition expect_dot (r : bytes) : option bytes :=
  match r with
  | c :: r' => if ceqb c "."%char then Some r' else None
  | [] => None
  end.

(* versionPattern
   ^(\d+)\.(\d+)\.(\d+)(?:-(IDS))?(?:\+(IDS))?$   with IDS = [0-9A-Za-z-]+(?:\.[0-9A-Za-z-]+)* ,
   on the trimmed text, then strconv.Atoi of the three numbers *)
Definition parse_core (t : bytes) : option core :=
  let (ma, r1) := span is_digit t in
  match expect_dot r1 with
  | None => None
  | Some r1' =>
      let (mi, r2) := span is_digit r1' in
      match expect_dot r2 with
      | None => None
      | Some r2' =>
          let (pa, r3) := span is_digit r2' in
          match parse_suffix r3 with
          | None => None
          | Some (pre, bld) =>
              match atoi ma, atoi mi, atoi pa with
              | Some x, Some y, Some z =>
                  if nonempty_digits ma && nonempty_digits mi && nonempty_digits pa
                  then Some {| major := x; minor := y; patch := z; prerelease := pre; build := bld |}
                  else None
              | _, _, _ => None
              end
          end
      end
  end.

(* tryParseInt: digits only, and Atoi succeeds (an all-digit identifier >= 2^63 is "not a number") *)
Definition try_parse_int (s : bytes) : option Z :=
  if all_digits s then atoi s else None.

(* numeric identifiers first (by value), then the others (bytewise) *)
Definition ident_key (s : bytes) : bool * (Z * bytes) :=
  match try_parse_int s with
  | Some n => (false, (n, []))
  | None => (true, (0%Z, s))
  end.

Definition ident_cmp : bytes -> bytes -> comparison :=
  cmp_on ident_key (lex2 bool_cmp (lex2 Z.compare bytes_cmp)).

(* comparePrereleaseIdentifiers on strings.Split(.., "."): common identifiers left to right,
   then the shorter list is smaller *)
Definition idents_cmp : list bytes -> list bytes -> comparison := lex_short ident_cmp.

(* "" (no pre-release) is greater than any pre-release *)
Definition pre_key (p : bytes) : option (list bytes) :=
  match p with
  | [] => None
  | _ => Some (split_c "."%char p)
  end.

Definition pre_cmp : bytes -> bytes -> comparison := cmp_on pre_key (opt_last idents_cmp).

Definition cmp_core : core -> core -> comparison :=
  lexc (cmp_on major Z.compare)
    (lexc (cmp_on minor Z.compare)
       (lexc (cmp_on patch Z.compare)
          (cmp_on prerelease pre_cmp))).

Definition raw_orig := true.

Definition ver := VLayer.ver core.
Definition parse : bytes -> option ver := VLayer.parse parse_core raw_orig.
Definition cmp : ver -> ver -> comparison := VLayer.cmp cmp_core.
Definition show : ver -> bytes := VLayer.show.
