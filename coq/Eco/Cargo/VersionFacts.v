(* Eco/Cargo/VersionFacts.v *)
From Coq Require Import Lia.
From Verif.Base Require Import Bytes GoNum Ord BytesFacts.
From Verif.Eco Require Import VLayer VLayerFacts.
From Verif.Eco.Cargo Require Import Version NumFacts.

Lemma ident_cmp_tp : TotalPreorder ident_cmp.
Proof.
  apply TP_on, TP_lex2; [apply TP_bool|].
  apply TP_lex2; [apply TP_Z | apply TP_bytes_cmp].
Qed.

Lemma pre_cmp_tp : TotalPreorder pre_cmp.
Proof. apply TP_on, TP_opt_last, TP_lex_short, ident_cmp_tp. Qed.

Lemma cmp_core_tp : TotalPreorder cmp_core.
Proof.
  unfold cmp_core.
  repeat (apply TP_lexc; [apply TP_on, TP_Z|]).
  apply TP_on, pre_cmp_tp.
Qed.

Lemma cmp_tp : TotalPreorder cmp.
Proof. apply VLayerFacts.cmp_tp, cmp_core_tp. Qed.

Print Assumptions cmp_core_tp.
Print Assumptions cmp_tp.

(* ====================================================================================== *)
(* C03: numbers order numerically; pre-release < release; build metadata is ignored       *)
(* ====================================================================================== *)

Local Open Scope N_scope.

(* "X.Y.Z" *)
Definition plain (x y z : N) : bytes := dec x ++ $"." ++ dec y ++ $"." ++ dec z.

Definition mkc (x y z : N) (p b : bytes) : core :=
  {| major := Z.of_N x; minor := Z.of_N y; patch := Z.of_N z; prerelease := p; build := b |}.

Lemma plain_join x y z : plain x y z = join $"." (map dec [x; y; z]).
Proof. reflexivity. Qed.

Lemma parse_suffix_head r pb :
  parse_suffix r = Some pb -> r = [] \/ exists c r', r = c :: r' /\ is_digit c = false.
Proof.
  destruct r as [|c r']; [auto|]. intros H. right. exists c, r'. split; [reflexivity|].
  unfold parse_suffix in H.
  destruct (ceqb c "-"%char) eqn:E1.
  - apply ceqb_eq in E1. subst c. reflexivity.
  - destruct (ceqb c "+"%char) eqn:E2; [|discriminate].
    apply ceqb_eq in E2. subst c. reflexivity.
Qed.

Lemma span_digits_dec n r :
  (r = [] \/ exists c r', r = c :: r' /\ is_digit c = false) ->
  span is_digit (dec n ++ r) = (dec n, r).
Proof.
  intros [->|(c & r' & -> & Hc)]; unfold span.
  - rewrite app_nil_r, take_while_all, drop_while_all by apply dec_digits. reflexivity.
  - rewrite take_while_app, drop_while_app by (apply dec_digits || exact Hc). reflexivity.
Qed.

(* the three numbers followed by any suffix the grammar accepts *)
Lemma parse_core_plain x y z r p b :
  x < two63 -> y < two63 -> z < two63 ->
  parse_suffix r = Some (p, b) ->
  parse_core (plain x y z ++ r) = Some (mkc x y z p b).
Proof.
  intros Hx Hy Hz Hs.
  assert (E : plain x y z ++ r = dec x ++ "."%char :: (dec y ++ "."%char :: (dec z ++ r))).
  { unfold plain. cbn [list_ascii_of_string]. rewrite <- !app_assoc. reflexivity. }
  rewrite E. unfold parse_core.
  rewrite span_digits_dec by (right; eexists _, _; split; reflexivity).
  cbn [expect_dot]. change (ceqb "." ".") with true. cbv iota.
  rewrite span_digits_dec by (right; eexists _, _; split; reflexivity).
  cbn [expect_dot]. change (ceqb "." ".") with true. cbv iota.
  rewrite span_digits_dec by (eapply parse_suffix_head; exact Hs).
  rewrite Hs. rewrite !atoi_dec by assumption. rewrite !dec_nonempty_digits. reflexivity.
Qed.

Lemma parse_plain x y z :
  x < two63 -> y < two63 -> z < two63 ->
  parse_core (plain x y z) = Some (mkc x y z [] []).
Proof.
  intros Hx Hy Hz. rewrite <- (app_nil_r (plain x y z)).
  apply parse_core_plain; auto.
Qed.

Lemma pre_cmp_nil : pre_cmp [] [] = Eq.
Proof. reflexivity. Qed.

(* C03 (a): same-arity numeric versions compare as their integer tuples *)
Lemma cmp_core_plain x y z x' y' z' b b' :
  cmp_core (mkc x y z [] b) (mkc x' y' z' [] b') = lex_short N.compare [x; y; z] [x'; y'; z'].
Proof.
  unfold cmp_core, lexc, cmp_on, mkc. cbn [major minor patch prerelease lex_short].
  rewrite !N2Z.inj_compare. rewrite pre_cmp_nil. reflexivity.
Qed.

Theorem C03_tuples x y z x' y' z' :
  x < two63 -> y < two63 -> z < two63 -> x' < two63 -> y' < two63 -> z' < two63 ->
  exists c c',
    parse_core (join $"." (map dec [x; y; z])) = Some c /\
    parse_core (join $"." (map dec [x'; y'; z'])) = Some c' /\
    cmp_core c c' = lex_short N.compare [x; y; z] [x'; y'; z'].
Proof.
  intros. exists (mkc x y z [] []), (mkc x' y' z' [] []).
  rewrite <- !plain_join. rewrite !parse_plain by assumption.
  repeat split. apply cmp_core_plain.
Qed.

(* the only arity the parser accepts is three *)
Lemma arity_1_rejected x : parse_core (dec x) = None.
Proof.
  unfold parse_core. rewrite <- (app_nil_r (dec x)).
  rewrite span_digits_dec by (left; reflexivity). reflexivity.
Qed.

Lemma arity_2_rejected x y : parse_core (dec x ++ $"." ++ dec y) = None.
Proof.
  unfold parse_core. cbn [list_ascii_of_string app].
  rewrite span_digits_dec by (right; eexists _, _; split; reflexivity).
  cbn [expect_dot]. change (ceqb "." ".") with true. cbv iota.
  rewrite <- (app_nil_r (dec y)).
  rewrite span_digits_dec by (left; reflexivity). reflexivity.
Qed.

(* a pre-release suffix: "-" followed by dot-separated identifiers *)
Lemma dotted_idents_chars p :
  dotted_idents p = true -> forallb (fun c => is_ident_c c || ceqb "."%char c) p = true.
Proof.
  intros H. apply split_c_pieces. unfold dotted_idents in H.
  eapply forallb_impl; [|exact H]. intros [|c q]; [discriminate|auto].
Qed.

Lemma dotted_idents_nonempty p : dotted_idents p = true -> p <> [].
Proof. intros H E. subst p. discriminate. Qed.

Lemma ident_c_not_plus c : is_ident_c c || ceqb "."%char c = true -> negb (ceqb "+"%char c) = true.
Proof.
  intros H. apply negb_true_iff. destruct (ceqb "+"%char c) eqn:E; [|reflexivity].
  apply ceqb_eq in E. subst c. discriminate.
Qed.

Lemma parse_suffix_pre p :
  dotted_idents p = true -> parse_suffix ("-"%char :: p) = Some (p, []).
Proof.
  intros H. unfold parse_suffix. change (ceqb "-" "-") with true. cbv iota.
  unfold split2_c. rewrite cut1_none.
  - rewrite H. reflexivity.
  - eapply forallb_impl; [|apply dotted_idents_chars; exact H]. apply ident_c_not_plus.
Qed.

Lemma parse_suffix_build b :
  dotted_idents b = true -> parse_suffix ("+"%char :: b) = Some ([], b).
Proof.
  intros H. unfold parse_suffix. change (ceqb "+" "-") with false. change (ceqb "+" "+") with true.
  cbv iota. rewrite H. reflexivity.
Qed.

Lemma parse_suffix_pre_build p b :
  dotted_idents p = true -> dotted_idents b = true ->
  parse_suffix ("-"%char :: p ++ "+"%char :: b) = Some (p, b).
Proof.
  intros Hp Hb. unfold parse_suffix. change (ceqb "-" "-") with true. cbv iota.
  assert (C : cut ["+"%char] (p ++ "+"%char :: b) = Some (p, b)).
  { pose proof (dotted_idents_chars p Hp) as Hc. clear Hp.
    induction p as [|c p IH].
    - reflexivity.
    - simpl in Hc. apply andb_true_iff in Hc. destruct Hc as [H1 H2].
      apply ident_c_not_plus, negb_true_iff in H1.
      cbn [app cut has_prefix]. rewrite H1. cbn [andb]. rewrite (IH H2). reflexivity. }
  unfold split2_c. rewrite C, Hp, Hb. reflexivity.
Qed.

(* C03 (b): X.Y.Z-<identifiers> is accepted and strictly older than X.Y.Z *)
Theorem C03_prerelease_lt x y z p :
  x < two63 -> y < two63 -> z < two63 -> dotted_idents p = true ->
  exists c c',
    parse_core (plain x y z ++ $"-" ++ p) = Some c /\
    parse_core (plain x y z) = Some c' /\
    cmp_core c c' = Lt /\ cmp_core c' c = Gt.
Proof.
  intros Hx Hy Hz Hp. exists (mkc x y z p []), (mkc x y z [] []).
  split; [|split].
  - apply parse_core_plain; auto. apply parse_suffix_pre; exact Hp.
  - apply parse_plain; auto.
  - pose proof (dotted_idents_nonempty p Hp) as N.
    unfold cmp_core, lexc, cmp_on, mkc. cbn [major minor patch prerelease].
    rewrite !Z.compare_refl. cbn [thenc].
    unfold pre_cmp, cmp_on, pre_key. destruct p; [congruence|]. split; reflexivity.
Qed.

(* build metadata never matters: X.Y.Z[-pre]+<identifiers> compares Eq to X.Y.Z[-pre]
   (cargo has no post-release marker) *)
Lemma cmp_core_build_irrelevant x y z p b b' :
  cmp_core (mkc x y z p b) (mkc x y z p b') = Eq.
Proof. apply (tp_refl cmp_core_tp (mkc x y z p b)). Qed.

Theorem C03_build_eq x y z b :
  x < two63 -> y < two63 -> z < two63 -> dotted_idents b = true ->
  exists c c',
    parse_core (plain x y z ++ $"+" ++ b) = Some c /\
    parse_core (plain x y z) = Some c' /\
    cmp_core c c' = Eq.
Proof.
  intros Hx Hy Hz Hb. exists (mkc x y z [] b), (mkc x y z [] []).
  split; [|split].
  - apply parse_core_plain; auto. apply parse_suffix_build; exact Hb.
  - apply parse_plain; auto.
  - apply cmp_core_build_irrelevant.
Qed.

(* worth knowing: an all-digit identifier that does not fit int64 is "not a number" for tryParseInt
   (Atoi fails), so it is compared as TEXT: above every identifier that is a number, and bytewise
   among its like - 2^63 sorts above 10^19 *)
Lemma big_numeric_identifier_is_text :
  cmp_core (mkc 1 0 0 $"9223372036854775808" []) (mkc 1 0 0 $"9223372036854775807" []) = Gt /\
  cmp_core (mkc 1 0 0 $"9223372036854775808" []) (mkc 1 0 0 $"10000000000000000000" []) = Gt /\
  cmp_core (mkc 1 0 0 $"10000000000000000000" []) (mkc 1 0 0 $"9223372036854775807" []) = Gt.
Proof. vm_compute. repeat split. Qed.

Print Assumptions C03_tuples.
Print Assumptions C03_prerelease_lt.
Print Assumptions C03_build_eq.
