(* Base/DecFacts.v — facts about fmt "%d" (GoNum.dec), digit scanning and strconv.Atoi on
   printed numbers. *)
From Coq Require Import Lia.
From Verif.Base Require Import Bytes GoNum Ord BytesFacts.
Local Open Scope N_scope.

Lemma code_chr n : n < 256 -> code (chr n) = n.
Proof. intros H. unfold code, chr. apply N_ascii_embedding. exact H. Qed.

Lemma is_digit_chr m : m < 10 -> is_digit (chr (48 + m)) = true.
Proof.
  intros H. unfold is_digit, in_range. rewrite code_chr by lia.
  apply andb_true_iff. split; apply N.leb_le; lia.
Qed.

Lemma digit_val_chr m : m < 10 -> digit_val (chr (48 + m)) = m.
Proof. intros H. unfold digit_val. rewrite code_chr by lia. lia. Qed.

Lemma digits_val_app a b :
  digits_val (a ++ b) = fold_left (fun acc c => acc * 10 + digit_val c) b (digits_val a).
Proof. unfold digits_val. apply fold_left_app. Qed.

Lemma digits_val_snoc a c : digits_val (a ++ [c]) = digits_val a * 10 + digit_val c.
Proof. rewrite digits_val_app. reflexivity. Qed.

Lemma dec_fuel_S k n acc :
  dec_fuel (S k) n acc =
  if n <? 10 then chr (48 + n mod 10) :: acc
  else dec_fuel k (n / 10) (chr (48 + n mod 10) :: acc).
Proof. reflexivity. Qed.

Lemma dec_fuel_spec k : forall n acc, n < 2 ^ N.of_nat k ->
  exists l, dec_fuel (S k) n acc = l ++ acc /\ l <> [] /\
            forallb is_digit l = true /\ digits_val l = n.
Proof.
  induction k as [|k IH]; intros n acc Hn.
  - simpl in Hn. assert (n = 0) by lia. subst n.
    exists [chr 48]. repeat split; try reflexivity. discriminate.
  - rewrite dec_fuel_S. destruct (n <? 10) eqn:E.
    + apply N.ltb_lt in E. exists [chr (48 + n mod 10)].
      assert (Hm : n mod 10 = n) by (apply N.mod_small; lia).
      repeat split.
      * discriminate.
      * cbn [forallb]. rewrite is_digit_chr by lia. reflexivity.
      * unfold digits_val. cbn [fold_left]. rewrite digit_val_chr by lia. lia.
    + apply N.ltb_ge in E.
      assert (Hd : n / 10 < 2 ^ N.of_nat k).
      { rewrite Nnat.Nat2N.inj_succ, N.pow_succ_r' in Hn.
        apply N.div_lt_upper_bound; lia. }
      destruct (IH (n / 10) (chr (48 + n mod 10) :: acc) Hd) as (l & Hl & Hne & Hdig & Hval).
      exists (l ++ [chr (48 + n mod 10)]).
      assert (Hm : n mod 10 < 10) by (apply N.mod_lt; lia).
      repeat split.
      * rewrite Hl, <- app_assoc. reflexivity.
      * destruct l; discriminate.
      * rewrite forallb_app, Hdig. cbn [forallb]. rewrite is_digit_chr by lia. reflexivity.
      * rewrite digits_val_snoc, Hval, digit_val_chr by lia.
        rewrite (N.div_mod n 10) at 3 by lia. lia.
Qed.

Lemma size_nat_bound n : n < 2 ^ N.of_nat (N.size_nat n).
Proof.
  destruct n as [|p]; [reflexivity|].
  simpl N.size_nat.
  induction p as [p IH|p IH|]; simpl Pos.size_nat;
    rewrite ?Nnat.Nat2N.inj_succ, ?N.pow_succ_r'; try lia.
Qed.

Lemma dec_spec n :
  dec n <> [] /\ forallb is_digit (dec n) = true /\ digits_val (dec n) = n.
Proof.
  unfold dec.
  destruct (dec_fuel_spec (N.size_nat n) n [] (size_nat_bound n)) as (l & Hl & Hne & Hd & Hv).
  rewrite Hl, app_nil_r. auto.
Qed.

Lemma dec_nonempty n : dec n <> [].
Proof. apply dec_spec. Qed.
Lemma dec_digits n : forallb is_digit (dec n) = true.
Proof. apply dec_spec. Qed.
Lemma digits_val_dec n : digits_val (dec n) = n.
Proof. apply dec_spec. Qed.

Lemma dec_cons n : exists c l, dec n = c :: l /\ is_digit c = true /\ forallb is_digit l = true.
Proof.
  pose proof (dec_nonempty n) as Hne. pose proof (dec_digits n) as Hd.
  destruct (dec n) as [|c l]; [congruence|].
  simpl in Hd. apply andb_true_iff in Hd. destruct Hd. eauto.
Qed.

Lemma nonempty_digits_dec n : nonempty_digits (dec n) = true.
Proof.
  destruct (dec_cons n) as (c & l & E & Hc & Hl). rewrite E.
  simpl. rewrite Hc, Hl. reflexivity.
Qed.

(* a digit is none of the other characters a scanner tests for *)
Lemma digit_not c x : is_digit c = true -> is_digit x = false -> ceqb c x = false.
Proof.
  intros Hc Hx. apply ceqb_neq. intros ->. congruence.
Qed.
Lemma digit_not' c x : is_digit c = true -> is_digit x = false -> ceqb x c = false.
Proof.
  intros Hc Hx. apply ceqb_neq. intros ->. congruence.
Qed.

(* strconv.Atoi of a printed number *)
Lemma atoi_dec n : n < two63 -> atoi (dec n) = Some (Z.of_N n).
Proof.
  intros H. pose proof (nonempty_digits_dec n) as Hn. pose proof (digits_val_dec n) as Hv.
  destruct (dec_cons n) as (c & l & E & Hc & Hl). rewrite E in *.
  unfold atoi.
  rewrite (digit_not c "-"%char Hc eq_refl), (digit_not c "+"%char Hc eq_refl).
  rewrite Hn, Hv. apply N.ltb_lt in H. rewrite H. reflexivity.
Qed.

(* scanning a maximal digit run *)
Lemma take_while_digits l r :
  forallb is_digit l = true ->
  match r with [] => True | c :: _ => is_digit c = false end ->
  take_while is_digit (l ++ r) = l /\ drop_while is_digit (l ++ r) = r.
Proof.
  intros Hl Hr. induction l as [|x l IH]; simpl.
  - destruct r as [|c r]; [auto|]. simpl. rewrite Hr. auto.
  - simpl in Hl. apply andb_true_iff in Hl. destruct Hl as [Hx Hl]. rewrite Hx.
    destruct (IH Hl) as [-> ->]. auto.
Qed.

Lemma dec_z_of_N n : dec_z (Z.of_N n) = dec n.
Proof. destruct n; reflexivity. Qed.
