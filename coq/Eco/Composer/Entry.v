From Verif.Base Require Import Bytes.
From Verif.Eco Require Import Iface.
From Verif.Eco.Composer Require Version Range.

Definition v : vops :=
  mk_vops Composer.Version.parse_core Composer.Version.cmp_core Composer.Version.raw_orig.

Definition r : rops := {|
  r_show := fun vok s => option_map Composer.Range.show (Composer.Range.parse_range vok s);
  r_contains := fun vok vcmp rg ver =>
    match Composer.Range.parse_range vok rg with
    | Some x => if vok ver then Composer.Range.contains vcmp x ver else None
    | None => None
    end
|}.

Definition entry : eco := {| e_name := $"composer"; e_v := v; e_r := r |}.
