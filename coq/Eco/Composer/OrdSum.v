(* Base/OrdSum.v — order combinator for sums: every [inl] is smaller than every [inr]
   (Go: "if v.isX && !other.isX { return -1 }" followed by per-class comparisons). *)
From Coq Require Import List NArith ZArith Bool Lia.
From Verif.Base Require Import Ord.

Definition sum_cmp {A B} (ca : A -> A -> comparison) (cb : B -> B -> comparison)
  (x y : A + B) : comparison :=
  match x, y with
  | inl a, inl b => ca a b
  | inl _, inr _ => Lt
  | inr _, inl _ => Gt
  | inr a, inr b => cb a b
  end.

Lemma TP_sum A B (ca : A -> A -> comparison) (cb : B -> B -> comparison) :
  TotalPreorder ca -> TotalPreorder cb -> TotalPreorder (sum_cmp ca cb).
Proof.
  intros Ta Tb. constructor.
  - intros [a|a]; simpl; [apply (tp_refl Ta)|apply (tp_refl Tb)].
  - intros [a|a] [b|b]; simpl; try reflexivity; [apply (tp_anti Ta)|apply (tp_anti Tb)].
  - intros [a|a] [b|b] [c|c] x; simpl; try congruence;
      [apply (tp_trans Ta)|apply (tp_trans Tb)].
  - intros [a|a] [b|b] [c|c]; simpl; try congruence;
      [apply (tp_eq_l Ta)|apply (tp_eq_l Tb)].
Qed.
