(* Base/PrefixFacts.v — facts about has_prefix / cut / split_c / trim_space on texts built by
   concatenation, and a decision procedure for "which alternative of an ordered list of literal
   prefixes matches first" (used for regexp alternations and operator tables). *)
From Coq Require Import Lia.
From Verif.Base Require Import Bytes GoNum Ord BytesFacts.

Lemma has_prefix_app w r : has_prefix w (w ++ r) = true.
Proof. induction w as [|x w IH]; simpl; [reflexivity|]. rewrite ceqb_refl. exact IH. Qed.

Lemma skipn_app_len (w r : bytes) : skipn (length w) (w ++ r) = r.
Proof. induction w; simpl; auto. Qed.

Lemma has_prefix_split n : forall w tl,
  has_prefix n (w ++ tl) =
  if (length n <=? length w)%nat then has_prefix n w
  else has_prefix (firstn (length w) n) w && has_prefix (skipn (length w) n) tl.
Proof.
  induction n as [|x n IH]; intros w tl.
  - reflexivity.
  - destruct w as [|y w].
    + reflexivity.
    + cbn [app has_prefix length firstn skipn]. rewrite IH.
      change (S (length n) <=? S (length w))%nat with (length n <=? length w)%nat.
      destruct (length n <=? length w)%nat; [reflexivity|].
      rewrite andb_assoc. reflexivity.
Qed.

Section Alternation.
  (* [P] : a class of characters; the text after the matched literal must not start in it *)
  Variable P : ascii -> bool.

  Definition headnot (tl : bytes) : bool :=
    match tl with [] => true | c :: _ => negb (P c) end.

  Lemma has_prefix_class x p tl : P x = true -> headnot tl = true -> has_prefix (x :: p) tl = false.
  Proof.
    intros Hx Ht. destruct tl as [|c l]; [reflexivity|]. simpl in Ht.
    cbn [has_prefix]. replace (ceqb x c) with false; [reflexivity|].
    symmetry. apply ceqb_neq. intros ->. rewrite Hx in Ht. discriminate.
  Qed.

  (* the literal [n] cannot match at the start of [w ++ tl] *)
  Definition blocks (n w : bytes) : bool :=
    if (length n <=? length w)%nat then negb (has_prefix n w)
    else negb (has_prefix (firstn (length w) n) w)
         || match skipn (length w) n with x :: _ => P x | [] => false end.

  (* [w] is in the list and every earlier literal is blocked *)
  Fixpoint first_hit (names : list bytes) (w : bytes) : bool :=
    match names with
    | [] => false
    | n :: ns => if beq n w then true else blocks n w && first_hit ns w
    end.

  Lemma blocks_ok n w tl : blocks n w = true -> headnot tl = true -> has_prefix n (w ++ tl) = false.
  Proof.
    unfold blocks. intros H Ht. rewrite has_prefix_split.
    destruct (length n <=? length w)%nat.
    - apply negb_true_iff in H. exact H.
    - apply orb_true_iff in H. destruct H as [H|H].
      + apply negb_true_iff in H. rewrite H. reflexivity.
      + destruct (skipn (length w) n) as [|x p]; [discriminate|].
        rewrite (has_prefix_class x p tl H Ht). apply andb_false_r.
  Qed.

  (* every literal starts in the class: none matches a text that does not *)
  Definition all_start (names : list bytes) : bool :=
    forallb (fun n => match n with x :: _ => P x | [] => false end) names.

  Lemma no_prefix_class names tl n :
    all_start names = true -> headnot tl = true -> In n names -> has_prefix n tl = false.
  Proof.
    intros Ha Ht Hn. unfold all_start in Ha. rewrite forallb_forall in Ha.
    specialize (Ha n Hn). destruct n as [|x p]; [discriminate|].
    apply has_prefix_class; assumption.
  Qed.
End Alternation.

(* ---------- texts without certain characters ---------- *)

Definition lacks (x : ascii) (s : bytes) : bool := forallb (fun c => negb (ceqb x c)) s.

Lemma lacks_contains x s : lacks x s = true -> contains_c x s = false.
Proof.
  unfold lacks, contains_c. induction s as [|c s IH]; simpl; [reflexivity|].
  intros H. apply andb_true_iff in H. destruct H as [H1 H2].
  apply negb_true_iff in H1. rewrite H1. apply IH, H2.
Qed.

Lemma lacks_app x a b : lacks x (a ++ b) = lacks x a && lacks x b.
Proof. unfold lacks. apply forallb_app. Qed.

Lemma cut_none x sep s : lacks x s = true -> cut (x :: sep) s = None.
Proof.
  induction s as [|c s IH]; intros H.
  - reflexivity.
  - simpl in H. apply andb_true_iff in H. destruct H as [H1 H2]. apply negb_true_iff in H1.
    cbn [cut has_prefix]. rewrite H1. cbn [andb]. rewrite (IH H2). reflexivity.
Qed.

Lemma contains_sub_none x sep s : lacks x s = true -> contains_sub (x :: sep) s = false.
Proof. intros H. unfold contains_sub. rewrite (cut_none x sep s H). reflexivity. Qed.

Lemma cut_app x sep a b :
  lacks x a = true -> cut (x :: sep) (a ++ x :: sep ++ b) = Some (a, b).
Proof.
  induction a as [|c a IH]; intros H.
  - cbn [app]. cbn [cut has_prefix]. rewrite ceqb_refl, has_prefix_app. cbn [andb].
    cbn [length skipn]. rewrite skipn_app_len. reflexivity.
  - simpl in H. apply andb_true_iff in H. destruct H as [H1 H2]. apply negb_true_iff in H1.
    specialize (IH H2).
    cbn [app]. cbn [cut has_prefix]. rewrite H1. cbn [andb].
    cbn [cut has_prefix app] in IH. rewrite IH. reflexivity.
Qed.

Lemma split_c_nosep sep p : lacks sep p = true -> split_c sep p = [p].
Proof.
  induction p as [|c p IH]; intros H; [reflexivity|].
  simpl in H. apply andb_true_iff in H. destruct H as [H1 H2]. apply negb_true_iff in H1.
  cbn [split_c]. rewrite H1, (IH H2). reflexivity.
Qed.

Lemma split_c_app sep p r :
  lacks sep p = true -> split_c sep (p ++ sep :: r) = p :: split_c sep r.
Proof.
  induction p as [|c p IH]; intros H.
  - cbn [app split_c]. rewrite ceqb_refl. reflexivity.
  - simpl in H. apply andb_true_iff in H. destruct H as [H1 H2]. apply negb_true_iff in H1.
    cbn [app split_c]. rewrite H1, (IH H2). reflexivity.
Qed.

(* ---------- whitespace-free texts ---------- *)

Definition nospace (s : bytes) : bool := forallb (fun c => negb (is_space c)) s.

Lemma nospace_app a b : nospace (a ++ b) = nospace a && nospace b.
Proof. apply forallb_app. Qed.

Lemma drop_while_head_false p (s : bytes) :
  match s with [] => True | c :: _ => p c = false end -> drop_while p s = s.
Proof. destruct s as [|c s]; [reflexivity|]. simpl. intros ->. reflexivity. Qed.

Lemma trim_space_nospace s : nospace s = true -> trim_space s = s.
Proof.
  intros H. unfold trim_space, trim_left, trim_right.
  rewrite (drop_while_head_false is_space s).
  - rewrite (drop_while_head_false is_space (rev s)); [apply rev_involutive|].
    assert (Hr : nospace (rev s) = true) by (unfold nospace; rewrite forallb_rev; exact H).
    destruct (rev s) as [|c r]; [exact I|]. simpl in Hr.
    apply andb_true_iff in Hr. destruct Hr as [Hc _]. apply negb_true_iff in Hc. exact Hc.
  - destruct s as [|c r]; [exact I|]. simpl in H.
    apply andb_true_iff in H. destruct H as [Hc _]. apply negb_true_iff in Hc. exact Hc.
Qed.

Lemma nospace_lacks_space s : nospace s = true -> lacks " "%char s = true.
Proof.
  unfold nospace, lacks. induction s as [|c s IH]; simpl; [reflexivity|].
  intros H. apply andb_true_iff in H. destruct H as [H1 H2]. rewrite (IH H2), andb_true_r.
  apply negb_true_iff. apply ceqb_neq. intros <-. discriminate.
Qed.
