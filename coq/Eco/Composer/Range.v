(* Eco/Composer/Range.v — model of pkg/ecosystem/composer/range.go (definitions only).

   Bounds are kept as texts (the Go code keeps the parsed *Version, a function of the text).
   [vok]/[vcmp] stand for NewVersion / Compare; where the Go code reads fields of a parsed
   version (v.major, v.stability, v.isDev ...) the model calls Version.parse_core. *)
From Verif.Base Require Import Bytes GoNum Ord.
From Verif.Gen Require Operators.
From Verif.Eco Require Import RangeCore.
From Verif.Eco.Composer Require Import Version.
Local Open Scope Z_scope.

(* operators := []string{">=", "<=", "!=", "<>", "==", ">", "<", "="}  (source order) *)
(* the list is generated from the Go source on every run (tools/gen -> Gen/Operators.v) *)
Definition composer_ops : list bytes :=
  Eval cbv delta [Verif.Gen.Operators.composer_ops] in Verif.Gen.Operators.composer_ops.

(* normalizeOperator followed by the switch in matches *)
Definition sem_op (op : bytes) : cop :=
  if beq op $"=" then CEq
  else if beq op $"==" then CEq
  else if beq op $"!=" then CNe
  else if beq op $"<>" then CNe
  else if beq op $">" then CGt
  else if beq op $">=" then CGe
  else if beq op $"<" then CLt
  else if beq op $"<=" then CLe
  else CNever.

(* one *constraint *)
Inductive con :=
| KAny                               (* operator "*" *)
| KStab (s : bytes)                  (* operator "@", stability flag text *)
| KCaret (ma mi pa : Z)              (* "caret",     bound "ma.mi.pa" *)
| KCaret0x (mi pa : Z)               (* "caret-0x",  bound "0.mi.pa" *)
| KCaret00x (pa : Z)                 (* "caret-00x", bound "0.0.pa" *)
| KCmp (op : cop) (b : bytes).       (* = != < <= > >= *)

Record range := { r_groups : list (list con); r_orig : bytes }.

(* fmt.Sprintf("%d.%d.%d", a, b, c) *)
Definition fmt3 (a b c : Z) : bytes :=
  dec_z a ++ "."%char :: dec_z b ++ "."%char :: dec_z c.

Definition is_wild (p : bytes) : bool := beq p $"*" || beq p $"x".

Fixpoint wild_index (parts : list bytes) : option nat :=
  match parts with
  | [] => None
  | p :: r => if is_wild p then Some O
              else match wild_index r with Some i => Some (S i) | None => None end
  end.

Section Parse.
  Variable vok : bytes -> bool.

  (* e.NewVersion(s) followed by reads of the result's fields *)
  Definition vfields (s : bytes) : option core :=
    if vok s then Version.parse_core (trim_space s) else None.

  Definition ge_lt (lo up : bytes) : option (list con) :=
    if vok lo && vok up then Some [KCmp CGe lo; KCmp CLt up] else None.

  (* parseCaretConstraint *)
  Definition parse_caret (version : bytes) : option (list con) :=
    match vfields version with
    | None => None
    | Some (CDev _) => Some [KCmp CEq version]
    | Some (CRel ma mi pa _ st _) =>
        if 0 <? ma then
          if st =? stabilityStable
          then (if vok (fmt3 ma mi pa) then Some [KCaret ma mi pa] else None)
          else ge_lt version (fmt3 (wrap64 (ma + 1)) 0 0)
        else if 0 <? mi then
          if st =? stabilityStable
          then (if vok (fmt3 0 mi pa) then Some [KCaret0x mi pa] else None)
          else ge_lt version (fmt3 0 (wrap64 (mi + 1)) 0)
        else
          (* components that were not written are free: ^0.0 is [0.0, 0.1.0), ^0 is [0, 1.0.0);
             "written" counts the dot-separated parts of the raw text before its first '-' *)
          let written := length (split_c "."%char (fst (split2_c "-"%char version))) in
          if (written <? 3)%nat then
            ge_lt version (if (written =? 1)%nat then $"1.0.0" else $"0.1.0")
          else if st =? stabilityStable
          then (if vok (fmt3 0 0 pa) then Some [KCaret00x pa] else None)
          else ge_lt version (fmt3 0 0 (wrap64 (pa + 1)))
    end.

  (* parseTildeConstraint *)
  Definition parse_tilde (version : bytes) : option (list con) :=
    match vfields version with
    | None => None
    | Some (CDev _) => Some [KCmp CEq version]
    | Some (CRel ma mi pa _ _ _) =>
        match split_c "."%char version with
        | [_] => ge_lt (fmt3 ma 0 0) (fmt3 (wrap64 (ma + 1)) 0 0)
        | [_; _] => ge_lt (fmt3 ma mi 0) (fmt3 (wrap64 (ma + 1)) 0 0)
        | _ => ge_lt version (fmt3 ma (wrap64 (mi + 1)) 0)
        end
    end.

  (* parseWildcardConstraint *)
  Definition parse_wildcard (c : bytes) : option (list con) :=
    let parts := split_c "."%char c in
    match wild_index parts with
    | Some 1%nat =>
        match atoi (nth 0 parts []) with
        | Some ma => ge_lt (fmt3 ma 0 0) (fmt3 (wrap64 (ma + 1)) 0 0)
        | None => None
        end
    | Some 2%nat =>
        match atoi (nth 0 parts []), atoi (nth 1 parts []) with
        | Some ma, Some mi => ge_lt (fmt3 ma mi 0) (fmt3 ma (wrap64 (mi + 1)) 0)
        | _, _ => None
        end
    | _ => None
    end.

  (* parseStabilityConstraint *)
  Definition parse_stability (version : bytes) : option (list con) :=
    match split_c "@"%char version with
    | [p0; p1] =>
        let vp := trim_space p0 in
        let sp := trim_space p1 in
        match vp with
        | [] => Some [KStab sp]
        | _ => let w := vp ++ "-"%char :: sp in
               if vok w then Some [KCmp CEq w] else None
        end
    | _ => None
    end.

  (* parseSingleConstraint *)
  Definition parse_single (c0 : bytes) : option (list con) :=
    let c := trim_space c0 in
    if beq c $"*" then Some [KAny]
    else if has_prefix $"^" c then parse_caret (skipn 1 c)
    else if has_prefix $"~" c then parse_tilde (skipn 1 c)
    else if existsb is_wild (split_c "."%char c) then parse_wildcard c
    else
      match first_prefix composer_ops c with
      | Some (op, rest) =>
          let vs := trim_space rest in
          if contains_c "@"%char vs then parse_stability vs
          else if vok vs then Some [KCmp (sem_op op) vs] else None
      | None =>
          if contains_c "@"%char c then parse_stability c
          else if vok c then Some [KCmp CEq c] else None
      end.

  (* parseHyphenRange *)
  Definition parse_hyphen (r : bytes) : option (list con) :=
    if has_suffix $" -" r then None
    else
      match split_sub $" - " r with
      | [a; b] =>
          let s := trim_space a in
          let e := trim_space b in
          match s, e with
          | [], _ => None
          | _, [] => None
          | _, _ => if vok s && vok e then Some [KCmp CGe s; KCmp CLe e] else None
          end
      | _ => None
      end.

  (* parseSpaceSeparatedConstraints *)
  Fixpoint parse_parts (parts : list bytes) : option (list con) :=
    match parts with
    | [] => Some []
    | p :: r =>
        match parse_single p with
        | None => None
        | Some cs => match parse_parts r with
                     | Some cs' => Some (cs ++ cs')
                     | None => None
                     end
        end
    end.

  Definition parse_space (r : bytes) : option (list con) :=
    parse_parts (fields (replace_c ","%char " "%char r)).

  (* parseRange *)
  Definition parse_one (r0 : bytes) : option (list con) :=
    let r := trim_space r0 in
    if contains_sub $" - " r then parse_hyphen r
    else if contains_c " "%char r || contains_c ","%char r then parse_space r
    else parse_single r.

  Fixpoint parse_all (parts : list bytes) : option (list (list con)) :=
    match parts with
    | [] => Some []
    | p :: r =>
        match parse_one (trim_space p) with
        | None => None
        | Some g => match parse_all r with
                    | Some gs => Some (g :: gs)
                    | None => None
                    end
        end
    end.

  (* parseRangeGroups *)
  Definition parse_groups (t : bytes) : option (list (list con)) :=
    if contains_sub $"||" t then parse_all (split_sub $"||" t)
    else match parse_one t with
         | Some g => Some [g]
         | None => None
         end.

  (* NewVersionRange *)
  Definition parse_range (s : bytes) : option range :=
    let t := trim_space s in
    match t with
    | [] => None
    | _ => match parse_groups t with
           | Some gs => Some {| r_groups := gs; r_orig := t |}
           | None => None
           end
    end.
End Parse.

Section Contains.
  Variable vcmp : bytes -> bytes -> comparison.
  (* the probed version: its original text and its parsed fields *)
  Variable vtext : bytes.
  Variable vc : core.

  Definition ge0 (c : comparison) : bool := match c with Lt => false | _ => true end.

  (* matchesCaret *)
  Definition matches_caret (ma mi pa : Z) : bool :=
    if negb (c_major vc =? ma) then false
    else if negb (c_stab vc =? stabilityStable) then
      (* the bound is a plain "ma.mi.pa", hence stable *)
      if (c_major vc =? ma) && (c_minor vc =? mi) && (c_patch vc =? pa)
      then beq (fmt3 ma mi pa) $"1.0.0" && beq vtext $"1.0b1"
      else false
    else ge0 (vcmp vtext (fmt3 ma mi pa)) && (c_major vc <? wrap64 (ma + 1)).

  (* matchesCaretZeroX *)
  Definition matches_caret0x (mi pa : Z) : bool :=
    if negb (c_major vc =? 0) || negb (c_minor vc =? mi) then false
    else if (c_minor vc =? mi) && (c_patch vc =? pa) then true
    else ge0 (vcmp vtext (fmt3 0 mi pa)) && (c_minor vc <? wrap64 (mi + 1)).

  (* matchesCaretZeroZeroX *)
  Definition matches_caret00x (pa : Z) : bool :=
    if negb (c_major vc =? 0) || negb (c_minor vc =? 0) || negb (c_patch vc =? pa) then false
    else if c_patch vc =? pa then true
    else ge0 (vcmp vtext (fmt3 0 0 pa)) && (c_patch vc =? pa).

  (* constraint.matches *)
  Definition matches (k : con) : bool :=
    match k with
    | KAny => true
    | KStab s => match lookup s stabilityMap with
                 | Some e => c_stab vc =? e
                 | None => false
                 end
    | KCaret ma mi pa => matches_caret ma mi pa
    | KCaret0x mi pa => matches_caret0x mi pa
    | KCaret00x pa => matches_caret00x pa
    | KCmp op b => sat op (vcmp vtext b)
    end.

  Definition contains_groups (gs : list (list con)) : bool :=
    existsb (fun g => forallb matches g) gs.
End Contains.

(* VersionRange.Contains; [v] is the text the version was made from *)
Definition contains (vcmp : bytes -> bytes -> comparison) (r : range) (v : bytes) : option bool :=
  match Version.parse_core (trim_space v) with
  | Some vc => Some (contains_groups vcmp v vc (r_groups r))
  | None => None
  end.

Definition show (r : range) : bytes := r_orig r.
