(* Eco/Composer/RangeFacts.v — facts about the model of composer/range.go:
   C02 (comparators), C05 (shorthands), C20 (Compare-equal versions) and findings. *)
From Coq Require Import Lia.
From Verif.Base Require Import Bytes GoNum Ord BytesFacts.
From Verif.Eco.Composer Require Import DecFacts PrefixFacts.
From Verif.Eco Require Import RangeCore Iface.
From Verif.Eco.Composer Require Import Version Range VersionFacts.
From Verif.Eco.Composer Require Entry.
Local Open Scope Z_scope.

(* ====================================================================================== *)
(* ranges that consist of one constraint                                                   *)
(* ====================================================================================== *)

(* no whitespace, no comma, no bar: such a text is handed to parseSingleConstraint as it is *)
Definition simple_char (c : ascii) : bool :=
  negb (is_space c) && negb (ceqb ","%char c) && negb (ceqb "|"%char c).
Definition simple (s : bytes) : bool :=
  match s with [] => false | _ => forallb simple_char s end.

Lemma simple_facts s : simple s = true ->
  s <> [] /\ nospace s = true /\ lacks ","%char s = true /\ lacks "|"%char s = true.
Proof.
  unfold simple. destruct s as [|c s]; [discriminate|]. intros H. split; [discriminate|].
  revert H. generalize (c :: s). intros l H.
  unfold nospace, lacks. induction l as [|x l IH]; [auto|].
  simpl in H. apply andb_true_iff in H. destruct H as [Hx Hl].
  destruct (IH Hl) as (A & B & C). unfold simple_char in Hx.
  apply andb_true_iff in Hx. destruct Hx as [Hx H3]. apply andb_true_iff in Hx. destruct Hx as [H1 H2].
  simpl. rewrite A, B, C, H1, H2, H3. auto.
Qed.

Lemma parse_range_simple vok s : simple s = true ->
  parse_range vok s =
  match parse_single vok s with
  | Some cs => Some {| r_groups := [cs]; r_orig := s |}
  | None => None
  end.
Proof.
  intros H. destruct (simple_facts s H) as (Hne & Hsp & Hco & Hba).
  unfold parse_range. rewrite (trim_space_nospace s Hsp).
  destruct s as [|c s']; [congruence|]. set (s := c :: s') in *.
  unfold parse_groups. cbn [list_ascii_of_string]. rewrite (contains_sub_none "|"%char _ s Hba).
  unfold parse_one. cbn [list_ascii_of_string]. rewrite (trim_space_nospace s Hsp).
  rewrite (contains_sub_none " "%char _ s (nospace_lacks_space s Hsp)).
  rewrite (lacks_contains " "%char s (nospace_lacks_space s Hsp)).
  rewrite (lacks_contains ","%char s Hco). cbn [orb].
  destruct (parse_single vok s); reflexivity.
Qed.

Section Oracle.
  Variable vok : bytes -> bool.
  Variable vcmp : bytes -> bytes -> comparison.

  Notation rcontains := (r_contains Entry.r vok vcmp).

  Lemma contains_single s cs v vc :
    simple s = true -> parse_single vok s = Some cs ->
    vok v = true -> parse_core (trim_space v) = Some vc ->
    rcontains s v = Some (forallb (matches vcmp v vc) cs).
  Proof.
    intros Hs Hp Hv Hc. unfold Entry.r, r_contains.
    rewrite (parse_range_simple vok s Hs), Hp, Hv.
    unfold contains. rewrite Hc. unfold contains_groups. cbn [r_groups existsb].
    rewrite orb_false_r. reflexivity.
  Qed.

  (* ==================================================================================== *)
  (* C02: comparators                                                                      *)
  (* ==================================================================================== *)

  Definition opchar (c : ascii) : bool :=
    ceqb c "<"%char || ceqb c ">"%char || ceqb c "="%char || ceqb c "!"%char.

  (* bound texts in scope: non-empty, no whitespace , | @, not starting with an operator
     character or ^ ~, no dot-separated component equal to * or x *)
  Definition bound_char (c : ascii) : bool := simple_char c && negb (ceqb "@"%char c).
  Definition head_ok (a : bytes) : bool :=
    match a with
    | [] => false
    | c :: _ => negb (opchar c) && negb (ceqb "^"%char c) && negb (ceqb "~"%char c)
    end.
  Definition in_scope (a : bytes) : bool :=
    head_ok a && forallb bound_char a && negb (existsb is_wild (split_c "."%char a)).

  Lemma in_scope_facts a : in_scope a = true ->
    head_ok a = true /\ simple a = true /\ lacks "@"%char a = true /\
    existsb is_wild (split_c "."%char a) = false.
  Proof.
    unfold in_scope. intros H. apply andb_true_iff in H. destruct H as [H H3].
    apply andb_true_iff in H. destruct H as [H1 H2]. apply negb_true_iff in H3.
    repeat split; auto.
    - unfold simple. destruct a as [|c a]; [discriminate|].
      revert H2. generalize (c :: a). intros l H2.
      induction l as [|x l IH]; [reflexivity|]. simpl in *.
      apply andb_true_iff in H2. destruct H2 as [Hx Hl]. unfold bound_char in Hx.
      apply andb_true_iff in Hx. destruct Hx as [Hx _]. rewrite Hx, (IH Hl). reflexivity.
    - unfold lacks. clear H1 H3. induction a as [|x l IH]; [reflexivity|]. simpl in *.
      apply andb_true_iff in H2. destruct H2 as [Hx Hl]. unfold bound_char in Hx.
      apply andb_true_iff in Hx. destruct Hx as [_ Hx]. rewrite Hx, (IH Hl). reflexivity.
  Qed.

  Lemma simple_app a b : simple a = true -> simple b = true -> simple (a ++ b) = true.
  Proof.
    unfold simple. destruct a as [|c a]; [discriminate|]. destruct b as [|d b]; [discriminate|].
    intros Ha Hb. cbn [app]. change (c :: a ++ d :: b) with ((c :: a) ++ d :: b).
    rewrite forallb_app, Ha, Hb. reflexivity.
  Qed.

  Lemma first_prefix_hit ops op a :
    first_hit opchar ops op = true -> headnot opchar a = true ->
    first_prefix ops (op ++ a) = Some (op, a).
  Proof.
    intros H Ha. induction ops as [|n ns IH]; [discriminate|].
    cbn [first_hit] in H. cbn [first_prefix].
    destruct (beq n op) eqn:E.
    - apply beq_eq in E. subst n. rewrite has_prefix_app, skipn_app_len. reflexivity.
    - apply andb_true_iff in H. destruct H as [Hb Hf].
      rewrite (blocks_ok opchar n op a Hb Ha). apply IH, Hf.
  Qed.

  Lemma first_prefix_none ops a :
    all_start opchar ops = true -> headnot opchar a = true -> first_prefix ops a = None.
  Proof.
    intros H Ha. induction ops as [|n ns IH]; [reflexivity|].
    cbn [first_prefix].
    rewrite (no_prefix_class opchar (n :: ns) a n H Ha (or_introl eq_refl)).
    apply IH. unfold all_start in *. simpl in H. apply andb_true_iff in H. apply H.
  Qed.

  Lemma split_c_prepend sep p s : lacks sep p = true ->
    split_c sep (p ++ s) =
    match split_c sep s with f :: fs => (p ++ f) :: fs | [] => [p] end.
  Proof.
    induction p as [|c p IH]; intros H.
    - cbn [app]. destruct (split_c sep s) eqn:E; [|reflexivity].
      destruct s as [|x s]; [discriminate|]. simpl in E.
      destruct (ceqb sep x); [discriminate|]. destruct (split_c sep s); discriminate.
    - simpl in H. apply andb_true_iff in H. destruct H as [H1 H2]. apply negb_true_iff in H1.
      cbn [app split_c]. rewrite H1, (IH H2). destruct (split_c sep s); reflexivity.
  Qed.

  Lemma opchar_not_wild x r : opchar x = true -> is_wild (x :: r) = false.
  Proof.
    intros H. unfold is_wild. cbn [list_ascii_of_string beq].
    replace (ceqb x "*"%char) with false by (symmetry; apply ceqb_neq; intros ->; discriminate).
    replace (ceqb x "x"%char) with false by (symmetry; apply ceqb_neq; intros ->; discriminate).
    reflexivity.
  Qed.

  (* closed facts about the operator table *)
  Lemma ops_hits : forallb (first_hit opchar composer_ops) composer_ops = true.
  Proof. vm_compute. reflexivity. Qed.
  Lemma ops_start : all_start opchar composer_ops = true.
  Proof. vm_compute. reflexivity. Qed.
  Lemma ops_simple : forallb simple composer_ops = true.
  Proof. vm_compute. reflexivity. Qed.
  Lemma ops_nodot : forallb (lacks "."%char) composer_ops = true.
  Proof. vm_compute. reflexivity. Qed.

  Lemma head_ok_headnot a : head_ok a = true -> headnot opchar a = true.
  Proof.
    destruct a as [|c a]; [reflexivity|]. simpl. intros H.
    apply andb_true_iff in H. destruct H as [H _]. apply andb_true_iff in H. apply H.
  Qed.

  Lemma not_star s : existsb is_wild (split_c "."%char s) = false -> beq s $"*" = false.
  Proof.
    intros H. destruct (beq s $"*") eqn:E; [|reflexivity].
    apply beq_eq in E. subst s. discriminate.
  Qed.

  Lemma parse_single_op op a :
    In op composer_ops -> in_scope a = true -> vok a = true ->
    parse_single vok (op ++ a) = Some [KCmp (sem_op op) a].
  Proof.
    intros Hop Hin Hv.
    destruct (in_scope_facts a Hin) as (Hh & Hs & Hat & Hw).
    pose proof (In_mem _ _ Hop _ ops_hits) as Hhit.
    pose proof (In_mem _ _ Hop _ ops_simple) as Hops.
    pose proof (In_mem _ _ Hop _ ops_nodot) as Hnd.
    pose proof (In_mem _ _ Hop _ ops_start) as Hst. cbv beta in Hst.
    destruct (simple_facts _ (simple_app _ _ Hops Hs)) as (_ & Hsp & _ & _).
    destruct (simple_facts _ Hs) as (_ & Hspa & _ & _).
    destruct op as [|x op]; [discriminate|].
    (* no wildcard component in op ++ a *)
    assert (W : existsb is_wild (split_c "."%char ((x :: op) ++ a)) = false).
    { rewrite (split_c_prepend _ _ _ Hnd).
      destruct (split_c "."%char a) as [|f fs]; cbn [existsb] in *.
      - rewrite (opchar_not_wild x op Hst). reflexivity.
      - apply orb_false_iff in Hw. destruct Hw as [_ Hw]. rewrite Hw.
        change ((x :: op) ++ f) with (x :: op ++ f). rewrite (opchar_not_wild x _ Hst). reflexivity. }
    unfold parse_single. rewrite (trim_space_nospace _ Hsp).
    rewrite (not_star _ W).
    change (has_prefix $"^" ((x :: op) ++ a)) with (ceqb "^"%char x && true).
    change (has_prefix $"~" ((x :: op) ++ a)) with (ceqb "~"%char x && true).
    replace (ceqb "^"%char x) with false by (symmetry; apply ceqb_neq; intros <-; discriminate).
    replace (ceqb "~"%char x) with false by (symmetry; apply ceqb_neq; intros <-; discriminate).
    cbn [andb]. rewrite W.
    rewrite (first_prefix_hit composer_ops (x :: op) a Hhit (head_ok_headnot a Hh)).
    rewrite (trim_space_nospace a Hspa), (lacks_contains _ _ Hat), Hv. reflexivity.
  Qed.

  Lemma parse_single_bare a :
    in_scope a = true -> vok a = true -> parse_single vok a = Some [KCmp CEq a].
  Proof.
    intros Hin Hv.
    destruct (in_scope_facts a Hin) as (Hh & Hs & Hat & Hw).
    destruct (simple_facts _ Hs) as (_ & Hspa & _ & _).
    unfold parse_single. rewrite (trim_space_nospace a Hspa), (not_star _ Hw), Hw.
    destruct a as [|c a']; [discriminate|].
    cbn [list_ascii_of_string has_prefix].
    pose proof Hh as Hh'. simpl in Hh'. apply andb_true_iff in Hh'. destruct Hh' as [Hh' H3].
    apply andb_true_iff in Hh'. destruct Hh' as [_ H2].
    apply negb_true_iff in H2, H3. rewrite H2, H3. cbn [andb].
    rewrite (first_prefix_none composer_ops (c :: a') ops_start (head_ok_headnot _ Hh)).
    rewrite (lacks_contains _ _ Hat), Hv. reflexivity.
  Qed.

  (* C02 for every comparator spelling of the operator table ... *)
  Theorem c02_comparators op a v vc :
    In op composer_ops -> in_scope a = true -> vok a = true ->
    vok v = true -> parse_core (trim_space v) = Some vc ->
    rcontains (op ++ a) v = Some (sat (sem_op op) (vcmp v a)).
  Proof.
    intros Hop Hin Ha Hv Hc.
    destruct (in_scope_facts a Hin) as (_ & Hs & _ & _).
    rewrite (contains_single (op ++ a) [KCmp (sem_op op) a] v vc); auto.
    - cbn [forallb matches]. rewrite andb_true_r. reflexivity.
    - apply simple_app; [apply (In_mem _ _ Hop _ ops_simple)|exact Hs].
    - apply parse_single_op; assumption.
  Qed.

  (* ... and for a bare version (exact match) *)
  Theorem c02_bare a v vc :
    in_scope a = true -> vok a = true ->
    vok v = true -> parse_core (trim_space v) = Some vc ->
    rcontains a v = Some (sat CEq (vcmp v a)).
  Proof.
    intros Hin Ha Hv Hc.
    destruct (in_scope_facts a Hin) as (_ & Hs & _ & _).
    rewrite (contains_single a [KCmp CEq a] v vc); auto.
    - cbn [forallb matches]. rewrite andb_true_r. reflexivity.
    - apply parse_single_bare; assumption.
  Qed.

  (* the meaning of each spelling *)
  Lemma sem_op_table :
    map sem_op composer_ops = [CGe; CLe; CNe; CNe; CEq; CGt; CLt; CEq].
  Proof. reflexivity. Qed.
End Oracle.


(* ====================================================================================== *)
(* texts made of numbers and dots                                                          *)
(* ====================================================================================== *)
Local Open Scope N_scope.

Lemma digit_code c : is_digit c = true -> 48 <= code c <= 57.
Proof.
  unfold is_digit, in_range. intros H. apply andb_true_iff in H. destruct H as [H1 H2].
  apply N.leb_le in H1, H2. lia.
Qed.

Lemma digit_simple c : is_digit c = true -> simple_char c = true.
Proof.
  intros H. apply digit_code in H. unfold simple_char, is_space, ceqb.
  change (code ","%char) with 44. change (code "|"%char) with 124.
  repeat (apply andb_true_iff; split); apply negb_true_iff.
  - apply orb_false_iff. split; [apply N.eqb_neq; lia|].
    apply andb_false_iff. right. apply N.leb_gt. lia.
  - apply N.eqb_neq. lia.
  - apply N.eqb_neq. lia.
Qed.

Lemma digit_not_dot c : is_digit c = true -> negb (ceqb "."%char c) = true.
Proof.
  intros H. apply negb_true_iff. apply (digit_not' c "."%char H eq_refl).
Qed.

Definition numchar (c : ascii) : bool := is_digit c || ceqb "."%char c.

Lemma numchar_simple c : numchar c = true -> simple_char c = true.
Proof.
  unfold numchar. intros H. apply orb_true_iff in H. destruct H as [H|H].
  - apply digit_simple, H.
  - apply ceqb_eq in H. subst c. reflexivity.
Qed.

Lemma forallb_impl {A} (p q : A -> bool) l :
  (forall x, p x = true -> q x = true) -> forallb p l = true -> forallb q l = true.
Proof.
  intros H. induction l as [|x l IH]; simpl; [auto|]. intros Hl.
  apply andb_true_iff in Hl. destruct Hl as [Hx Hl]. rewrite (H x Hx), (IH Hl). reflexivity.
Qed.

Lemma dec_numchars x : forallb numchar (dec x) = true.
Proof.
  apply (forallb_impl is_digit); [|apply dec_digits].
  intros c H. unfold numchar. rewrite H. reflexivity.
Qed.

Lemma dots_numchars ds : forallb numchar (dots ds) = true.
Proof.
  induction ds as [|x ds IH]; [reflexivity|].
  unfold dots in *. cbn [map concat]. rewrite forallb_app. cbn [forallb].
  rewrite dec_numchars, IH. reflexivity.
Qed.

Lemma numtext_numchars a ds : forallb numchar (numtext (a :: ds)) = true.
Proof. rewrite numtext_dots, forallb_app, dec_numchars, dots_numchars. reflexivity. Qed.

Lemma numchars_simple s : s <> [] -> forallb numchar s = true -> simple s = true.
Proof.
  intros Hne H. unfold simple. destruct s; [congruence|].
  apply (forallb_impl numchar); [apply numchar_simple|exact H].
Qed.

Lemma numtext_nonempty a ds : numtext (a :: ds) <> [].
Proof.
  rewrite numtext_dots. pose proof (dec_nonempty a). destruct (dec a); [congruence|discriminate].
Qed.

Lemma numtext_simple a ds : simple (numtext (a :: ds)) = true.
Proof. apply numchars_simple; [apply numtext_nonempty|apply numtext_numchars]. Qed.

Lemma dec_lacks_dot x : lacks "."%char (dec x) = true.
Proof.
  unfold lacks. apply (forallb_impl is_digit); [apply digit_not_dot|apply dec_digits].
Qed.

Lemma numtext_cons2 a b ds : numtext (a :: b :: ds) = dec a ++ "."%char :: numtext (b :: ds).
Proof. reflexivity. Qed.

Lemma split_numtext a ds : split_c "."%char (numtext (a :: ds)) = map dec (a :: ds).
Proof.
  revert a. induction ds as [|b ds IH]; intros a.
  - unfold numtext. cbn [map join]. apply split_c_nosep, dec_lacks_dot.
  - rewrite numtext_cons2, (split_c_app _ _ _ (dec_lacks_dot a)), IH. reflexivity.
Qed.

Lemma simple_cons c s : simple_char c = true -> simple s = true -> simple (c :: s) = true.
Proof.
  intros Hc Hs. unfold simple in *. destruct s; [discriminate|].
  cbn [forallb] in *. rewrite Hc, Hs. reflexivity.
Qed.

Lemma simple_nospace s : simple s = true -> nospace s = true.
Proof. intros H. apply simple_facts, H. Qed.

Local Open Scope Z_scope.

Lemma wrap64_small z : 0 <= z < 9223372036854775808 -> wrap64 z = z.
Proof.
  intros H. unfold wrap64.
  change (Z.of_N two64) with 18446744073709551616. change (Z.of_N two63) with 9223372036854775808.
  rewrite Z.mod_small by lia.
  destruct (z <? 9223372036854775808) eqn:E; [reflexivity|]. apply Z.ltb_ge in E. lia.
Qed.

Lemma wrap64_succ (n : N) : (n + 1 < two63)%N -> wrap64 (Z.of_N n + 1) = Z.of_N n + 1.
Proof. intros H. apply wrap64_small. unfold two63 in H. lia. Qed.

(* ====================================================================================== *)
(* C05: shorthands                                                                         *)
(* ====================================================================================== *)
Section Shorthands.
  Variable vok : bytes -> bool.
  Variable vcmp : bytes -> bytes -> comparison.
  Notation rcontains := (r_contains Entry.r vok vcmp).

  Definition between (v lo up : bytes) : bool := sat CGe (vcmp v lo) && sat CLt (vcmp v up).

  Lemma contains_ge_lt s lo up v vc :
    simple s = true -> parse_single vok s = Some [KCmp CGe lo; KCmp CLt up] ->
    vok v = true -> parse_core (trim_space v) = Some vc ->
    rcontains s v = Some (between v lo up).
  Proof.
    intros Hs Hp Hv Hc. rewrite (contains_single vok vcmp s _ v vc Hs Hp Hv Hc).
    cbn [forallb matches]. rewrite andb_true_r. reflexivity.
  Qed.

  Lemma vfields_nums a ds :
    (a < two63)%N -> Forall (fun x => (x < two63)%N) ds -> (length ds <= 4)%nat ->
    vok (numtext (a :: ds)) = true ->
    vfields vok (numtext (a :: ds)) =
    Some (CRel (Z.of_N a) (zn ds 0) (zn ds 1) (zn ds 2) stabilityStable 0).
  Proof.
    intros Ha Hds Hl Hv. unfold vfields. rewrite Hv.
    rewrite (trim_space_nospace _ (simple_nospace _ (numtext_simple a ds))).
    apply parse_core_nums; assumption.
  Qed.

  Lemma parse_single_tilde t : simple t = true ->
    parse_single vok ("~"%char :: t) = parse_tilde vok t.
  Proof.
    intros Hs. unfold parse_single.
    rewrite (trim_space_nospace _ (simple_nospace _ (simple_cons "~"%char t eq_refl Hs))).
    reflexivity.
  Qed.

  Lemma parse_single_caret t : simple t = true ->
    parse_single vok ("^"%char :: t) = parse_caret vok t.
  Proof.
    intros Hs. unfold parse_single.
    rewrite (trim_space_nospace _ (simple_nospace _ (simple_cons "^"%char t eq_refl Hs))).
    reflexivity.
  Qed.

  (* ---------- tilde ---------- *)
  Lemma parse_tilde_nums a ds :
    (a < two63)%N -> Forall (fun x => (x < two63)%N) ds -> (length ds <= 4)%nat ->
    vok (numtext (a :: ds)) = true ->
    parse_tilde vok (numtext (a :: ds)) =
    match ds with
    | [] => ge_lt vok (fmt3 (Z.of_N a) 0 0) (fmt3 (wrap64 (Z.of_N a + 1)) 0 0)
    | [_] => ge_lt vok (fmt3 (Z.of_N a) (zn ds 0) 0) (fmt3 (wrap64 (Z.of_N a + 1)) 0 0)
    | _ => ge_lt vok (numtext (a :: ds)) (fmt3 (Z.of_N a) (wrap64 (zn ds 0 + 1)) 0)
    end.
  Proof.
    intros Ha Hds Hl Hv. unfold parse_tilde.
    rewrite (vfields_nums a ds Ha Hds Hl Hv), split_numtext.
    destruct ds as [|b [|c ds]]; reflexivity.
  Qed.

  (* ~M  =  [M.0.0, (M+1).0.0) *)
  Theorem tilde_1 M v vc :
    (M + 1 < two63)%N -> vok (numtext [M]) = true ->
    vok (fmt3 (Z.of_N M) 0 0) = true -> vok (fmt3 (Z.of_N M + 1) 0 0) = true ->
    vok v = true -> parse_core (trim_space v) = Some vc ->
    rcontains ("~"%char :: numtext [M]) v =
    Some (between v (fmt3 (Z.of_N M) 0 0) (fmt3 (Z.of_N M + 1) 0 0)).
  Proof.
    intros HM Hv0 Hlo Hup Hv Hc.
    apply (contains_ge_lt _ _ _ v vc); auto.
    - apply simple_cons; [reflexivity|apply numtext_simple].
    - rewrite (parse_single_tilde _ (numtext_simple M [])).
      rewrite parse_tilde_nums; auto; try (unfold two63 in *; lia).
      rewrite (wrap64_succ M HM). unfold ge_lt. rewrite Hlo, Hup. reflexivity.
  Qed.

  (* ~M.m  =  [M.m.0, (M+1).0.0) *)
  Theorem tilde_2 M m v vc :
    (M + 1 < two63)%N -> (m < two63)%N -> vok (numtext [M; m]) = true ->
    vok (fmt3 (Z.of_N M) (Z.of_N m) 0) = true -> vok (fmt3 (Z.of_N M + 1) 0 0) = true ->
    vok v = true -> parse_core (trim_space v) = Some vc ->
    rcontains ("~"%char :: numtext [M; m]) v =
    Some (between v (fmt3 (Z.of_N M) (Z.of_N m) 0) (fmt3 (Z.of_N M + 1) 0 0)).
  Proof.
    intros HM Hm Hv0 Hlo Hup Hv Hc.
    apply (contains_ge_lt _ _ _ v vc); auto.
    - apply simple_cons; [reflexivity|apply numtext_simple].
    - rewrite (parse_single_tilde _ (numtext_simple M [m])).
      rewrite parse_tilde_nums; auto; try (unfold two63 in *; simpl; lia).
      rewrite (wrap64_succ M HM). unfold ge_lt, zn. cbn [nth]. rewrite Hlo, Hup. reflexivity.
  Qed.

  (* ~M.m.p[.e]  =  [M.m.p[.e], M.(m+1).0) *)
  Theorem tilde_3 M m ds v vc :
    (M < two63)%N -> (m + 1 < two63)%N -> Forall (fun x => (x < two63)%N) ds ->
    (1 <= length ds <= 3)%nat ->
    vok (numtext (M :: m :: ds)) = true -> vok (fmt3 (Z.of_N M) (Z.of_N m + 1) 0) = true ->
    vok v = true -> parse_core (trim_space v) = Some vc ->
    rcontains ("~"%char :: numtext (M :: m :: ds)) v =
    Some (between v (numtext (M :: m :: ds)) (fmt3 (Z.of_N M) (Z.of_N m + 1) 0)).
  Proof.
    intros HM Hm Hds Hl Hv0 Hup Hv Hc.
    apply (contains_ge_lt _ _ _ v vc); auto.
    - apply simple_cons; [reflexivity|apply numtext_simple].
    - rewrite (parse_single_tilde _ (numtext_simple M (m :: ds))).
      rewrite parse_tilde_nums; auto.
      + destruct ds as [|p ds]; [simpl in Hl; lia|].
        unfold zn. cbn [nth]. rewrite (wrap64_succ m Hm). unfold ge_lt. rewrite Hv0, Hup. reflexivity.
      + constructor; [unfold two63 in *; lia|assumption].
      + simpl. lia.
  Qed.

  (* ---------- wildcards ---------- *)
  Definition wildcard_mark (w : bytes) : Prop := w = $"*" \/ w = $"x".

  Lemma digits_not_wild d : d <> [] -> forallb is_digit d = true -> is_wild d = false.
  Proof.
    intros Hne Hd. destruct d as [|c l]; [congruence|]. simpl in Hd.
    apply andb_true_iff in Hd. destruct Hd as [Hc _].
    unfold is_wild. cbn [list_ascii_of_string beq].
    rewrite (digit_not c "*"%char Hc eq_refl), (digit_not c "x"%char Hc eq_refl). reflexivity.
  Qed.

  Lemma digits_head d r : d <> [] -> forallb is_digit d = true ->
    beq (d ++ r) $"*" = false /\ has_prefix $"^" (d ++ r) = false /\ has_prefix $"~" (d ++ r) = false.
  Proof.
    intros Hne Hd. destruct d as [|c l]; [congruence|]. simpl in Hd.
    apply andb_true_iff in Hd. destruct Hd as [Hc _].
    cbn [app list_ascii_of_string beq has_prefix].
    rewrite (digit_not c "*"%char Hc eq_refl), (digit_not' c "^"%char Hc eq_refl),
      (digit_not' c "~"%char Hc eq_refl). auto.
  Qed.

  Lemma wild_simple w : wildcard_mark w -> simple w = true /\ is_wild w = true /\ lacks "."%char w = true.
  Proof. intros [->| ->]; repeat split. Qed.

  (* M.* , M.x  =  [M.0.0, (M+1).0.0) *)
  Theorem wildcard_1 M w v vc :
    (M + 1 < two63)%N -> wildcard_mark w ->
    vok (fmt3 (Z.of_N M) 0 0) = true -> vok (fmt3 (Z.of_N M + 1) 0 0) = true ->
    vok v = true -> parse_core (trim_space v) = Some vc ->
    rcontains (dec M ++ "."%char :: w) v =
    Some (between v (fmt3 (Z.of_N M) 0 0) (fmt3 (Z.of_N M + 1) 0 0)).
  Proof.
    intros HM Hw Hlo Hup Hv Hc.
    destruct (wild_simple w Hw) as (Hws & Hww & Hwd).
    assert (Hs : simple (dec M ++ "."%char :: w) = true).
    { apply simple_app; [apply numchars_simple; [apply dec_nonempty|apply dec_numchars]|].
      apply simple_cons; [reflexivity|exact Hws]. }
    apply (contains_ge_lt _ _ _ v vc); auto.
    unfold parse_single. rewrite (trim_space_nospace _ (simple_nospace _ Hs)).
    destruct (digits_head (dec M) ("."%char :: w) (dec_nonempty M) (dec_digits M)) as (-> & -> & ->).
    assert (Hsp : split_c "."%char (dec M ++ "."%char :: w) = [dec M; w]).
    { rewrite (split_c_app _ _ _ (dec_lacks_dot M)), (split_c_nosep _ _ Hwd). reflexivity. }
    rewrite Hsp. cbn [existsb]. rewrite Hww, orb_true_r.
    unfold parse_wildcard. rewrite Hsp. cbn [wild_index].
    rewrite (digits_not_wild _ (dec_nonempty M) (dec_digits M)), Hww. cbn [nth].
    rewrite atoi_dec by (unfold two63 in *; lia).
    rewrite (wrap64_succ M HM). unfold ge_lt. rewrite Hlo, Hup. reflexivity.
  Qed.

  (* M.m.* , M.m.x  =  [M.m.0, M.(m+1).0) *)
  Theorem wildcard_2 M m w v vc :
    (M < two63)%N -> (m + 1 < two63)%N -> wildcard_mark w ->
    vok (fmt3 (Z.of_N M) (Z.of_N m) 0) = true -> vok (fmt3 (Z.of_N M) (Z.of_N m + 1) 0) = true ->
    vok v = true -> parse_core (trim_space v) = Some vc ->
    rcontains (dec M ++ "."%char :: dec m ++ "."%char :: w) v =
    Some (between v (fmt3 (Z.of_N M) (Z.of_N m) 0) (fmt3 (Z.of_N M) (Z.of_N m + 1) 0)).
  Proof.
    intros HM Hm Hw Hlo Hup Hv Hc.
    destruct (wild_simple w Hw) as (Hws & Hww & Hwd).
    assert (Hs : simple (dec M ++ "."%char :: dec m ++ "."%char :: w) = true).
    { apply simple_app; [apply numchars_simple; [apply dec_nonempty|apply dec_numchars]|].
      apply simple_cons; [reflexivity|].
      apply simple_app; [apply numchars_simple; [apply dec_nonempty|apply dec_numchars]|].
      apply simple_cons; [reflexivity|exact Hws]. }
    apply (contains_ge_lt _ _ _ v vc); auto.
    unfold parse_single. rewrite (trim_space_nospace _ (simple_nospace _ Hs)).
    destruct (digits_head (dec M) ("."%char :: dec m ++ "."%char :: w) (dec_nonempty M) (dec_digits M))
      as (-> & -> & ->).
    assert (Hsp : split_c "."%char (dec M ++ "."%char :: dec m ++ "."%char :: w) = [dec M; dec m; w]).
    { rewrite (split_c_app _ _ _ (dec_lacks_dot M)), (split_c_app _ _ _ (dec_lacks_dot m)),
        (split_c_nosep _ _ Hwd). reflexivity. }
    rewrite Hsp. cbn [existsb]. rewrite Hww, !orb_true_r.
    unfold parse_wildcard. rewrite Hsp. cbn [wild_index].
    rewrite (digits_not_wild _ (dec_nonempty M) (dec_digits M)),
      (digits_not_wild _ (dec_nonempty m) (dec_digits m)), Hww. cbn [nth].
    rewrite !atoi_dec by (unfold two63 in *; lia).
    rewrite (wrap64_succ m Hm). unfold ge_lt. rewrite Hlo, Hup. reflexivity.
  Qed.

  (* ---------- hyphen ranges ---------- *)
  Lemma trim_space_ends s :
    match s with [] => True | c :: _ => is_space c = false end ->
    match rev s with [] => True | c :: _ => is_space c = false end ->
    trim_space s = s.
  Proof.
    intros H1 H2. unfold trim_space, trim_left, trim_right.
    rewrite (drop_while_head_false is_space s H1), (drop_while_head_false is_space (rev s) H2).
    apply rev_involutive.
  Qed.

  Lemma nospace_head s : nospace s = true -> match s with [] => True | c :: _ => is_space c = false end.
  Proof.
    destruct s as [|c s]; [auto|]. simpl. intros H. apply andb_true_iff in H.
    destruct H as [H _]. apply negb_true_iff in H. exact H.
  Qed.

  Lemma nospace_rev s : nospace s = true -> nospace (rev s) = true.
  Proof. unfold nospace. rewrite forallb_rev. auto. Qed.

  Lemma lacks_rev x s : lacks x (rev s) = lacks x s.
  Proof. unfold lacks. apply forallb_rev. Qed.

  (* a - b  =  [a, b]  for bound texts without whitespace , | ; b must not end in '-' *)
  Theorem hyphen_range a b v vc :
    simple a = true -> simple b = true -> has_suffix $"-" b = false ->
    vok a = true -> vok b = true ->
    vok v = true -> parse_core (trim_space v) = Some vc ->
    rcontains (a ++ $" - " ++ b) v = Some (sat CGe (vcmp v a) && sat CLe (vcmp v b)).
  Proof.
    intros Ha Hb Hsuf Hva Hvb Hv Hc.
    destruct (simple_facts a Ha) as (Hane & Hasp & Haco & Haba).
    destruct (simple_facts b Hb) as (Hbne & Hbsp & Hbco & Hbba).
    set (s := a ++ $" - " ++ b).
    assert (Htrim : trim_space s = s).
    { apply trim_space_ends.
      - unfold s. destruct a as [|c a']; [congruence|]. apply (nospace_head _ Hasp).
      - unfold s. rewrite !rev_app_distr.
        pose proof (nospace_head _ (nospace_rev _ Hbsp)) as Hh.
        destruct (rev b) as [|c rb] eqn:E.
        + apply (f_equal (@rev ascii)) in E. rewrite rev_involutive in E. simpl in E. congruence.
        + exact Hh. }
    assert (Hbar : lacks "|"%char s = true).
    { unfold s. rewrite !lacks_app, Haba, Hbba. reflexivity. }
    assert (Hne : s <> []).
    { unfold s. destruct a; [congruence|discriminate]. }
    assert (Hcut : cut $" - " s = Some (a, b)).
    { unfold s.
      exact (cut_app " "%char ["-"%char; " "%char] a b (nospace_lacks_space a Hasp)). }
    assert (Hsfx : has_suffix $" -" s = false).
    { unfold has_suffix in *. unfold s. rewrite !rev_app_distr.
      cbn [list_ascii_of_string rev app] in *.
      destruct (rev b) as [|c rb] eqn:E.
      - apply (f_equal (@rev ascii)) in E. rewrite rev_involutive in E. simpl in E. congruence.
      - cbn [app has_prefix] in *. rewrite andb_true_r in Hsuf. rewrite Hsuf. reflexivity. }
    unfold Entry.r, r_contains, parse_range. rewrite Htrim.
    destruct s as [|c0 s0] eqn:Es; [congruence|]. rewrite <- Es in *.
    unfold parse_groups. cbn [list_ascii_of_string].
    rewrite (contains_sub_none "|"%char _ s Hbar).
    unfold parse_one. rewrite Htrim.
    unfold contains_sub at 1. rewrite Hcut.
    unfold parse_hyphen. rewrite Hsfx.
    unfold split_sub. destruct (length s) as [|k] eqn:El.
    { destruct s; [congruence|discriminate]. }
    cbn [split_sub_fuel]. rewrite Hcut.
    assert (Hcb : cut $" - " b = None).
    { cbn [list_ascii_of_string]. apply cut_none, nospace_lacks_space, Hbsp. }
    destruct k as [|k]; cbn [split_sub_fuel]; rewrite ?Hcb;
      rewrite (trim_space_nospace a Hasp), (trim_space_nospace b Hbsp);
      (destruct a as [|ca a']; [congruence|]); (destruct b as [|cb b']; [congruence|]);
      rewrite Hva, Hvb, Hv; cbn [andb]; unfold contains; rewrite Hc;
      unfold contains_groups; cbn [r_groups existsb forallb matches];
      rewrite andb_true_r, orb_false_r; reflexivity.
  Qed.

  (* ---------- caret ---------- *)
  Lemma numtext_lacks_hyphen a ds : lacks "-"%char (numtext (a :: ds)) = true.
  Proof.
    unfold lacks. apply (forallb_impl numchar); [|apply numtext_numchars].
    intros c H. unfold numchar in H. apply orb_true_iff in H. destruct H as [H|H].
    - apply negb_true_iff. apply (digit_not' c "-"%char H eq_refl).
    - apply ceqb_eq in H. subst c. reflexivity.
  Qed.

  Lemma written_numtext a ds :
    length (split_c "."%char (fst (split2_c "-"%char (numtext (a :: ds))))) = S (length ds).
  Proof.
    unfold split2_c. rewrite (cut_none "-"%char [] _ (numtext_lacks_hyphen a ds)).
    cbn [fst]. rewrite split_numtext. cbn [map length]. rewrite map_length. reflexivity.
  Qed.

  Lemma parse_caret_nums a ds :
    (a < two63)%N -> Forall (fun x => (x < two63)%N) ds -> (length ds <= 4)%nat ->
    vok (numtext (a :: ds)) = true ->
    parse_caret vok (numtext (a :: ds)) =
    if 0 <? Z.of_N a then
      if vok (fmt3 (Z.of_N a) (zn ds 0) (zn ds 1)) then Some [KCaret (Z.of_N a) (zn ds 0) (zn ds 1)] else None
    else if 0 <? zn ds 0 then
      if vok (fmt3 0 (zn ds 0) (zn ds 1)) then Some [KCaret0x (zn ds 0) (zn ds 1)] else None
    else if (S (length ds) <? 3)%nat then
      ge_lt vok (numtext (a :: ds)) (if (S (length ds) =? 1)%nat then $"1.0.0" else $"0.1.0")
    else
      if vok (fmt3 0 0 (zn ds 1)) then Some [KCaret00x (zn ds 1)] else None.
  Proof.
    intros Ha Hds Hl Hv. unfold parse_caret. rewrite (vfields_nums a ds Ha Hds Hl Hv).
    cbv zeta. rewrite written_numtext.
    change (stabilityStable =? stabilityStable) with true. reflexivity.
  Qed.

  (* what Contains computes for the three caret operators *)
  Lemma matches_caret_stable v vc ma mi pa :
    c_stab vc = stabilityStable -> 0 <= ma -> ma + 1 < 9223372036854775808 ->
    matches_caret vcmp v vc ma mi pa = (c_major vc =? ma) && ge0 (vcmp v (fmt3 ma mi pa)).
  Proof.
    intros Hs H0 H1. unfold matches_caret. rewrite Hs.
    change (negb (stabilityStable =? stabilityStable)) with false.
    destruct (c_major vc =? ma) eqn:E; cbn [negb andb]; [|reflexivity].
    apply Z.eqb_eq in E. rewrite E, (wrap64_small (ma + 1)) by lia.
    replace (ma <? ma + 1) with true by (symmetry; apply Z.ltb_lt; lia).
    rewrite andb_true_r. reflexivity.
  Qed.

  Lemma matches_caret_unstable v vc ma mi pa :
    c_stab vc <> stabilityStable ->
    matches_caret vcmp v vc ma mi pa =
    (c_major vc =? ma) && (c_minor vc =? mi) && (c_patch vc =? pa)
    && beq (fmt3 ma mi pa) $"1.0.0" && beq v $"1.0b1".
  Proof.
    intros Hs. unfold matches_caret.
    replace (c_stab vc =? stabilityStable) with false by (symmetry; apply Z.eqb_neq; exact Hs).
    destruct (c_major vc =? ma); cbn [negb andb]; [|reflexivity].
    destruct ((c_minor vc =? mi) && (c_patch vc =? pa)); reflexivity.
  Qed.

  Lemma matches_caret0x_spec v vc mi pa :
    0 <= mi -> mi + 1 < 9223372036854775808 ->
    matches_caret0x vcmp v vc mi pa =
    (c_major vc =? 0) && (c_minor vc =? mi)
    && ((c_patch vc =? pa) || ge0 (vcmp v (fmt3 0 mi pa))).
  Proof.
    intros H0 H1. unfold matches_caret0x.
    destruct (c_major vc =? 0); cbn [negb andb orb]; [|reflexivity].
    destruct (c_minor vc =? mi) eqn:E; cbn [negb andb orb]; [|reflexivity].
    destruct (c_patch vc =? pa); cbn [orb]; [reflexivity|].
    apply Z.eqb_eq in E. rewrite E, (wrap64_small (mi + 1)) by lia.
    replace (mi <? mi + 1) with true by (symmetry; apply Z.ltb_lt; lia).
    rewrite andb_true_r. reflexivity.
  Qed.

  Lemma matches_caret00x_spec v vc pa :
    matches_caret00x vcmp v vc pa = (c_major vc =? 0) && (c_minor vc =? 0) && (c_patch vc =? pa).
  Proof.
    unfold matches_caret00x.
    destruct (c_major vc =? 0), (c_minor vc =? 0), (c_patch vc =? pa); reflexivity.
  Qed.

  (* ^M.m.p with M > 0, for a stable probe: same major and >= M.m.p.
     For an unstable probe: false, except the literal text "1.0b1" against base 1.0.0. *)
  Theorem caret_major M ds v vc :
    (0 < M)%N -> (M + 1 < two63)%N -> Forall (fun x => (x < two63)%N) ds -> (length ds <= 4)%nat ->
    vok (numtext (M :: ds)) = true -> vok (fmt3 (Z.of_N M) (zn ds 0) (zn ds 1)) = true ->
    vok v = true -> parse_core (trim_space v) = Some vc ->
    rcontains ("^"%char :: numtext (M :: ds)) v =
    Some (if c_stab vc =? stabilityStable
          then (c_major vc =? Z.of_N M) && ge0 (vcmp v (fmt3 (Z.of_N M) (zn ds 0) (zn ds 1)))
          else (c_major vc =? Z.of_N M) && (c_minor vc =? zn ds 0) && (c_patch vc =? zn ds 1)
               && beq (fmt3 (Z.of_N M) (zn ds 0) (zn ds 1)) $"1.0.0" && beq v $"1.0b1").
  Proof.
    intros H0 HM Hds Hl Hv0 Hvb Hv Hc.
    rewrite (contains_single vok vcmp _ [KCaret (Z.of_N M) (zn ds 0) (zn ds 1)] v vc); auto.
    - cbn [forallb matches]. rewrite andb_true_r.
      destruct (c_stab vc =? stabilityStable) eqn:E.
      + apply Z.eqb_eq in E. f_equal. apply matches_caret_stable; auto; unfold two63 in *; lia.
      + apply Z.eqb_neq in E. f_equal. apply matches_caret_unstable; auto.
    - apply simple_cons; [reflexivity|apply numtext_simple].
    - rewrite (parse_single_caret _ (numtext_simple M ds)).
      rewrite parse_caret_nums; auto; try (unfold two63 in *; lia).
      replace (0 <? Z.of_N M) with true by (symmetry; apply Z.ltb_lt; lia).
      rewrite Hvb. reflexivity.
  Qed.

  (* ^0.m.p with m > 0: major 0, minor m, and (patch p  or  >= 0.m.p) *)
  Theorem caret_zero_minor m ds v vc :
    (0 < m)%N -> (m + 1 < two63)%N -> Forall (fun x => (x < two63)%N) ds -> (length ds <= 3)%nat ->
    vok (numtext (0%N :: m :: ds)) = true -> vok (fmt3 0 (Z.of_N m) (zn ds 0)) = true ->
    vok v = true -> parse_core (trim_space v) = Some vc ->
    rcontains ("^"%char :: numtext (0%N :: m :: ds)) v =
    Some ((c_major vc =? 0) && (c_minor vc =? Z.of_N m)
          && ((c_patch vc =? zn ds 0) || ge0 (vcmp v (fmt3 0 (Z.of_N m) (zn ds 0))))).
  Proof.
    intros H0 Hm Hds Hl Hv0 Hvb Hv Hc.
    rewrite (contains_single vok vcmp _ [KCaret0x (Z.of_N m) (zn ds 0)] v vc); auto.
    - cbn [forallb matches]. rewrite andb_true_r.
      f_equal. apply matches_caret0x_spec; unfold two63 in *; lia.
    - apply simple_cons; [reflexivity|apply numtext_simple].
    - rewrite (parse_single_caret _ (numtext_simple 0%N (m :: ds))).
      rewrite parse_caret_nums; auto.
      + change (0 <? Z.of_N 0) with false.
        change (zn (m :: ds) 0) with (Z.of_N m). change (zn (m :: ds) 1) with (zn ds 0).
        replace (0 <? Z.of_N m) with true by (symmetry; apply Z.ltb_lt; lia).
        rewrite Hvb. reflexivity.
      + reflexivity.
      + constructor; [unfold two63 in *; lia|assumption].
      + simpl. lia.
  Qed.

  (* ^0.0.p[.e]: exactly the versions 0.0.p, of any stability *)
  Theorem caret_zero_zero ds v vc :
    Forall (fun x => (x < two63)%N) ds -> (1 <= length ds <= 2)%nat ->
    vok (numtext (0%N :: 0%N :: ds)) = true -> vok (fmt3 0 0 (zn ds 0)) = true ->
    vok v = true -> parse_core (trim_space v) = Some vc ->
    rcontains ("^"%char :: numtext (0%N :: 0%N :: ds)) v =
    Some ((c_major vc =? 0) && (c_minor vc =? 0) && (c_patch vc =? zn ds 0)).
  Proof.
    intros Hds Hl Hv0 Hvb Hv Hc.
    rewrite (contains_single vok vcmp _ [KCaret00x (zn ds 0)] v vc); auto.
    - cbn [forallb matches]. rewrite andb_true_r. f_equal. apply matches_caret00x_spec.
    - apply simple_cons; [reflexivity|apply numtext_simple].
    - rewrite (parse_single_caret _ (numtext_simple 0%N (0%N :: ds))).
      rewrite parse_caret_nums; auto.
      + change (0 <? Z.of_N 0) with false. change (zn (0%N :: ds) 0) with 0.
        change (0 <? 0) with false. change (zn (0%N :: ds) 1) with (zn ds 0).
        destruct ds as [|p ds]; [simpl in Hl; lia|].
        cbn [length Nat.ltb Nat.leb]. rewrite Hvb. reflexivity.
      + reflexivity.
      + constructor; [reflexivity|assumption].
      + simpl. lia.
  Qed.

  (* ^0.0  =  [0.0, 0.1.0)   and   ^0  =  [0, 1.0.0) : unwritten components are free *)
  Theorem caret_0_0 v vc :
    vok $"0.0" = true -> vok $"0.1.0" = true ->
    vok v = true -> parse_core (trim_space v) = Some vc ->
    rcontains $"^0.0" v = Some (between v $"0.0" $"0.1.0").
  Proof.
    intros Hlo Hup Hv Hc.
    apply (contains_ge_lt _ _ _ v vc); auto.
    change $"^0.0" with ("^"%char :: numtext [0%N; 0%N]).
    rewrite (parse_single_caret _ (numtext_simple 0%N [0%N])).
    rewrite parse_caret_nums;
      [|reflexivity|repeat constructor|simpl; lia|exact Hlo].
    change (numtext [0%N; 0%N]) with $"0.0". change (0 <? Z.of_N 0) with false.
    change (0 <? zn [0%N] 0) with false. cbn [length Nat.ltb Nat.leb Nat.eqb].
    unfold ge_lt. rewrite Hlo, Hup. reflexivity.
  Qed.

  Theorem caret_0 v vc :
    vok $"0" = true -> vok $"1.0.0" = true ->
    vok v = true -> parse_core (trim_space v) = Some vc ->
    rcontains $"^0" v = Some (between v $"0" $"1.0.0").
  Proof.
    intros Hlo Hup Hv Hc.
    apply (contains_ge_lt _ _ _ v vc); auto.
    change $"^0" with ("^"%char :: numtext [0%N]).
    rewrite (parse_single_caret _ (numtext_simple 0%N [])).
    rewrite parse_caret_nums;
      [|reflexivity|constructor|simpl; lia|exact Hlo].
    change (numtext [0%N]) with $"0". change (0 <? Z.of_N 0) with false.
    change (0 <? zn [] 0) with false. cbn [length Nat.ltb Nat.leb Nat.eqb].
    unfold ge_lt. rewrite Hlo, Hup. reflexivity.
  Qed.
End Shorthands.

(* ====================================================================================== *)
(* C05 for ^M.m.p (M > 0) restricted to stable probes                                      *)
(* ====================================================================================== *)

Lemma ge0_sat c : ge0 c = sat CGe c.
Proof. destruct c; reflexivity. Qed.

Lemma fmt3_numtext (a b c : N) : fmt3 (Z.of_N a) (Z.of_N b) (Z.of_N c) = numtext [a; b; c].
Proof. unfold fmt3, numtext. rewrite !dec_z_of_N. reflexivity. Qed.

Lemma cmp_up_not_lt a b c d s n M :
  M < a -> 0 <= b -> 0 <= c -> 0 <= d -> 0 <= n ->
  cmp_core (CRel a b c d s n) (CRel (M + 1) 0 0 0 s 0) <> Lt.
Proof.
  intros Ha Hb Hc Hd Hn. unfold cmp_core, rel_key.
  cbn [c_major c_minor c_patch c_extra c_stab c_stabnum lex_short].
  destruct (Z.compare_spec a (M + 1)); cbn [thenc]; try lia; try discriminate.
  destruct (Z.compare_spec b 0); cbn [thenc]; try lia; try discriminate.
  destruct (Z.compare_spec c 0); cbn [thenc]; try lia; try discriminate.
  destruct (Z.compare_spec d 0); cbn [thenc]; try lia; try discriminate.
  rewrite Z.compare_refl. cbn [thenc].
  destruct (Z.compare_spec n 0); cbn [thenc]; try lia; discriminate.
Qed.

(* For a probe that is stable and an oracle that compares by the parsed fields, ^M.m.p is the
   documented interval [M.m.p, (M+1).0.0).  (For unstable probes it is not: see
   caret_excludes_prerelease_in_interval.) *)
Theorem caret_major_interval_stable vok vcmp (M m p : N) v vc :
  (0 < M)%N -> (M + 1 < two63)%N -> (m < two63)%N -> (p < two63)%N ->
  vok (numtext [M; m; p]) = true ->
  vok v = true -> parse_core (trim_space v) = Some vc -> c_stab vc = stabilityStable ->
  (forall x cx, parse_core (trim_space x) = Some cx -> vcmp v x = cmp_core vc cx) ->
  r_contains Entry.r vok vcmp ("^"%char :: numtext [M; m; p]) v =
  Some (between vcmp v (numtext [M; m; p]) (numtext [(M + 1)%N; 0%N; 0%N])).
Proof.
  intros H0 HM Hm Hp Hv0 Hv Hc Hst Hor.
  assert (Hds : Forall (fun x => (x < two63)%N) [m; p]) by (repeat constructor; assumption).
  assert (Hl : (length [m; p] <= 4)%nat) by (simpl; lia).
  assert (Hvb : vok (fmt3 (Z.of_N M) (zn [m; p] 0) (zn [m; p] 1)) = true).
  { change (zn [m; p] 0) with (Z.of_N m). change (zn [m; p] 1) with (Z.of_N p).
    rewrite fmt3_numtext. exact Hv0. }
  rewrite (caret_major vok vcmp M [m; p] v vc H0 HM Hds Hl Hv0 Hvb Hv Hc).
  change (zn [m; p] 0) with (Z.of_N m). change (zn [m; p] 1) with (Z.of_N p).
  rewrite fmt3_numtext. rewrite Hst. change (stabilityStable =? stabilityStable) with true. cbv iota.
  f_equal. unfold between.
  (* the two bounds as parsed versions *)
  assert (Pb : parse_core (trim_space (numtext [M; m; p])) =
               Some (CRel (Z.of_N M) (Z.of_N m) (Z.of_N p) 0 stabilityStable 0)).
  { rewrite (trim_space_nospace _ (simple_nospace _ (numtext_simple M [m; p]))).
    assert (HM' : (M < two63)%N) by (unfold two63 in *; lia).
    rewrite (parse_core_nums M [m; p] HM' Hds Hl). reflexivity. }
  assert (Pu : parse_core (trim_space (numtext [(M + 1)%N; 0%N; 0%N])) =
               Some (CRel (Z.of_N M + 1) 0 0 0 stabilityStable 0)).
  { rewrite (trim_space_nospace _ (simple_nospace _ (numtext_simple (M + 1)%N [0%N; 0%N]))).
    assert (Hz : Forall (fun x => (x < two63)%N) [0%N; 0%N]) by (repeat constructor; reflexivity).
    rewrite (parse_core_nums (M + 1)%N [0%N; 0%N] HM Hz Hl).
    unfold zn. cbn [nth]. rewrite N2Z.inj_add. reflexivity. }
  rewrite (Hor _ _ Pb), (Hor _ _ Pu), ge0_sat.
  pose proof (parse_core_wf _ _ Hc) as W.
  destruct vc as [br|a b c d st n]; [discriminate|].
  cbn [c_stab] in Hst. subst st. cbn [wf] in W. unfold int63 in W.
  destruct W as (Wa & Wb & Wc & Wd & _ & Wn).
  cbn [c_major].
  destruct (Z.compare_spec a (Z.of_N M)) as [E|E|E].
  - subst a. rewrite Z.eqb_refl. cbn [andb].
    replace (cmp_core (CRel (Z.of_N M) b c d stabilityStable n)
                      (CRel (Z.of_N M + 1) 0 0 0 stabilityStable 0)) with Lt.
    + rewrite andb_true_r. reflexivity.
    + unfold cmp_core, rel_key. cbn [c_major lex_short].
      replace (Z.of_N M ?= Z.of_N M + 1) with Lt by (symmetry; apply Z.compare_lt_iff; lia).
      reflexivity.
  - replace (a =? Z.of_N M) with false by (symmetry; apply Z.eqb_neq; lia). cbn [andb].
    unfold cmp_core at 1, rel_key. cbn [c_major lex_short].
    replace (a ?= Z.of_N M) with Lt by (symmetry; apply Z.compare_lt_iff; lia).
    reflexivity.
  - replace (a =? Z.of_N M) with false by (symmetry; apply Z.eqb_neq; lia). cbn [andb].
    pose proof (cmp_up_not_lt a b c d stabilityStable n (Z.of_N M) E) as NL.
    destruct (cmp_core (CRel a b c d stabilityStable n)
                       (CRel (Z.of_N M + 1) 0 0 0 stabilityStable 0)) eqn:E2;
      cbn [sat]; rewrite ?andb_false_r; try reflexivity.
    exfalso. apply NL; try lia. reflexivity.
Qed.

(* ====================================================================================== *)
(* C20: Compare-equal versions                                                             *)
(* ====================================================================================== *)

Lemma thenc_eq c1 c2 : thenc c1 c2 = Eq -> c1 = Eq /\ c2 = Eq.
Proof. destruct c1; simpl; intros H; try discriminate; auto. Qed.

(* Compare-equal versions agree on every field Contains reads *)
Lemma cmp_core_eq_fields ca cb : cmp_core ca cb = Eq ->
  c_major ca = c_major cb /\ c_minor ca = c_minor cb /\ c_patch ca = c_patch cb /\
  c_stab ca = c_stab cb.
Proof.
  destruct ca, cb; cbn [cmp_core]; intros H; try discriminate.
  - repeat split.
  - unfold rel_key in H. cbn [lex_short c_major c_minor c_patch c_extra c_stab c_stabnum] in *.
    repeat match goal with
           | H : thenc _ _ = Eq |- _ => apply thenc_eq in H; destruct H as [?H H]
           end.
    repeat match goal with H : (_ ?= _) = Eq |- _ => apply Z.compare_eq in H end.
    cbn. auto.
Qed.

Section C20.
  Variable vcmp : bytes -> bytes -> comparison.

  Lemma matches_eq a b ca cb k :
    (forall x, vcmp a x = vcmp b x) ->
    c_major ca = c_major cb -> c_minor ca = c_minor cb -> c_patch ca = c_patch cb ->
    c_stab ca = c_stab cb -> beq a $"1.0b1" = beq b $"1.0b1" ->
    matches vcmp a ca k = matches vcmp b cb k.
  Proof.
    intros Hv H1 H2 H3 H4 H5.
    destruct k; cbn [matches]; unfold matches_caret, matches_caret0x, matches_caret00x;
      rewrite ?H1, ?H2, ?H3, ?H4, ?H5, ?Hv; reflexivity.
  Qed.

  (* C20, for an arbitrary total-preorder oracle that agrees with the parsed fields: two
     Compare-equal versions are in the same ranges, PROVIDED neither or both are spelled
     exactly "1.0b1" (see c20_counterexample below for why the proviso is needed). *)
  Theorem c20 r a b ca cb :
    TotalPreorder vcmp -> vcmp a b = Eq ->
    parse_core (trim_space a) = Some ca -> parse_core (trim_space b) = Some cb ->
    cmp_core ca cb = Eq -> beq a $"1.0b1" = beq b $"1.0b1" ->
    contains vcmp r a = contains vcmp r b.
  Proof.
    intros T Hab Ha Hb Hc Hs. unfold contains. rewrite Ha, Hb. f_equal.
    destruct (cmp_core_eq_fields ca cb Hc) as (H1 & H2 & H3 & H4).
    unfold contains_groups. induction (r_groups r) as [|g gs IH]; [reflexivity|].
    cbn [existsb]. rewrite IH. f_equal.
    induction g as [|k g IHg]; [reflexivity|]. cbn [forallb]. rewrite IHg. f_equal.
    apply matches_eq; auto. intros x. apply (tp_eq_l T), Hab.
  Qed.

  (* ranges without a stable caret constraint and without stability flags only look at
     the oracle: C20 holds for them with no side condition on the fields *)
  Definition cmp_only (k : con) : bool :=
    match k with KAny | KCmp _ _ => true | _ => false end.

  Theorem c20_cmp_only r a b ca cb :
    TotalPreorder vcmp -> vcmp a b = Eq ->
    parse_core (trim_space a) = Some ca -> parse_core (trim_space b) = Some cb ->
    forallb (forallb cmp_only) (r_groups r) = true ->
    contains vcmp r a = contains vcmp r b.
  Proof.
    intros T Hab Ha Hb Hr. unfold contains. rewrite Ha, Hb. f_equal.
    unfold contains_groups. induction (r_groups r) as [|g gs IH]; [reflexivity|].
    cbn [forallb] in Hr. apply andb_true_iff in Hr. destruct Hr as [Hg Hgs].
    cbn [existsb]. rewrite (IH Hgs). f_equal.
    induction g as [|k g IHg]; [reflexivity|].
    cbn [forallb] in *. apply andb_true_iff in Hg. destruct Hg as [Hk Hg].
    rewrite (IHg Hg). f_equal.
    destruct k; try discriminate; cbn [matches]; [reflexivity|].
    rewrite (tp_eq_l T a b _ Hab). reflexivity.
  Qed.
End C20.

(* ====================================================================================== *)
(* findings (closed computations with the model's own version layer as the oracle)         *)
(* ====================================================================================== *)
Definition sok : bytes -> bool := self_vok Entry.entry.
Definition scmp : bytes -> bytes -> comparison := self_vcmp Entry.entry.
Definition rc (r v : bytes) : option bool := r_contains Entry.r sok scmp r v.
Definition racc (r : bytes) : bool :=
  match r_show Entry.r sok r with Some _ => true | None => false end.

(* C20 fails: Contains looks at the spelling of the probed version *)
Lemma c20_counterexample :
  scmp $"1.0b1" $"1.0-b1" = Eq /\ scmp $"1.0b1" $" 1.0b1" = Eq /\
  rc $"^1.0.0" $"1.0b1" = Some true /\ rc $"^1.0.0" $"1.0-b1" = Some false /\
  rc $"^1.0.0" $" 1.0b1" = Some false.
Proof. vm_compute. repeat split. Qed.

(* C05 fails for ^ on a stable base: pre-releases inside the documented interval are
   excluded (M > 0), pre-releases below the lower bound are included (0.m.p, 0.0.p) *)
Lemma caret_excludes_prerelease_in_interval :
  scmp $"1.5.0-beta" $"1.2.3" = Gt /\ scmp $"1.5.0-beta" $"2.0.0" = Lt /\
  rc $"^1.2.3" $"1.5.0-beta" = Some false /\ rc $">=1.2.3 <2.0.0" $"1.5.0-beta" = Some true.
Proof. vm_compute. repeat split. Qed.

Lemma caret_zero_includes_below_lower_bound :
  scmp $"0.2.3-alpha" $"0.2.3" = Lt /\ rc $"^0.2.3" $"0.2.3-alpha" = Some true /\
  scmp $"0.0.3-dev" $"0.0.3" = Lt /\ rc $"^0.0.3" $"0.0.3-dev" = Some true.
Proof. vm_compute. repeat split. Qed.

(* ~ counts the dot-separated parts of the raw text, suffix included *)
Lemma tilde_arity_counts_suffix_dots :
  rc $"~1.2" $"1.5" = Some true /\ rc $"~1.2-beta" $"1.5" = Some true /\
  rc $"~1.2-beta.1" $"1.5" = Some false.
Proof. vm_compute. repeat split. Qed.

(* an operator in front of version@flag is dropped: the constraint is "= version-flag" *)
Lemma operator_dropped_before_flag :
  rc $">=1.0@dev" $"2.0" = Some false /\ rc $">=1.0@dev" $"1.0-dev" = Some true /\
  rc $"<1.0@dev" $"1.0-dev" = Some true.
Proof. vm_compute. repeat split. Qed.

(* "@stable" matches nothing: stabilityMap has no entry for it *)
Lemma stable_flag_matches_nothing :
  racc $"@stable" = true /\ rc $"@stable" $"1.0" = Some false /\ rc $"@stable" $"1.0-beta" = Some false.
Proof. vm_compute. repeat split. Qed.

(* a group made of separators only is accepted and contains everything *)
Lemma separators_only_range_contains_all :
  racc $"," = true /\ rc $"," $"dev-x" = Some true /\ rc $"9.9 || ," $"1.0" = Some true.
Proof. vm_compute. repeat split. Qed.

(* wildcard: components after the wildcard are ignored; signed numbers are accepted *)
Lemma wildcard_ignores_rest :
  racc $"1.*.garbage" = true /\ rc $"1.x.^" $"1.5" = Some true /\ rc $"+1.*" $"1.5" = Some true.
Proof. vm_compute. repeat split. Qed.

(* ^ on the largest major is accepted and contains nothing, not even its own base *)
Lemma caret_maxint_contains_nothing :
  racc $"^9223372036854775807" = true /\
  rc $"^9223372036854775807" $"9223372036854775807.0.0" = Some false.
Proof. vm_compute. repeat split. Qed.

(* isBranchName accepts texts that look like constraints or contain inner whitespace *)
Lemma odd_branch_names_are_versions :
  sok $">1.x-dev" = true /\ sok $"=1.0-dev" = true /\ sok $"1.0@-dev" = true /\
  sok $"a b-dev" = true /\ sok $"1.0-Beta" = false /\ sok $"1.0-ALPHA1" = false.
Proof. vm_compute. repeat split. Qed.

(* the "written components" count of ^0 / ^0.0 also counts dots inside build metadata *)
Lemma caret_written_counts_build_dots :
  rc $"^0.0" $"0.0.5" = Some true /\ rc $"^0.0+a.b" $"0.0.5" = Some false /\
  rc $"^0" $"0.5" = Some true /\ rc $"^0+a.b.c" $"0.5" = Some false.
Proof. vm_compute. repeat split. Qed.

Print Assumptions c02_comparators.
Print Assumptions c02_bare.
Print Assumptions tilde_1.
Print Assumptions tilde_2.
Print Assumptions tilde_3.
Print Assumptions wildcard_1.
Print Assumptions wildcard_2.
Print Assumptions hyphen_range.
Print Assumptions caret_major.
Print Assumptions caret_zero_minor.
Print Assumptions caret_zero_zero.
Print Assumptions caret_0_0.
Print Assumptions caret_0.
Print Assumptions c20.
Print Assumptions c20_cmp_only.
Print Assumptions c20_counterexample.
Print Assumptions caret_major_interval_stable.
