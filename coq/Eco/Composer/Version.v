(* Eco/Composer/Version.v — model of pkg/ecosystem/composer/version.go (definitions only). *)
From Verif.Base Require Import Bytes GoNum.
From Verif.Gen Require Tables.
From Verif.Eco Require Import VLayer.
Local Open Scope Z_scope.

(* the named stability levels: generated from the Go source on every run (tools/gen ->
   Gen/Tables.v); the model never writes their numbers *)
Definition stabilityDev : Z :=
  Eval cbv delta [Verif.Gen.Tables.composer_stabilityDev] in Verif.Gen.Tables.composer_stabilityDev.
Definition stabilityAlpha : Z :=
  Eval cbv delta [Verif.Gen.Tables.composer_stabilityAlpha] in Verif.Gen.Tables.composer_stabilityAlpha.
Definition stabilityBeta : Z :=
  Eval cbv delta [Verif.Gen.Tables.composer_stabilityBeta] in Verif.Gen.Tables.composer_stabilityBeta.
Definition stabilityRC : Z :=
  Eval cbv delta [Verif.Gen.Tables.composer_stabilityRC] in Verif.Gen.Tables.composer_stabilityRC.
Definition stabilityStable : Z :=
  Eval cbv delta [Verif.Gen.Tables.composer_stabilityStable] in Verif.Gen.Tables.composer_stabilityStable.

(* Version struct.  A dev version (isDev) has only its branch name; its numeric fields keep
   Go's zero value, except stability which NewVersion sets to stabilityDev.  [build] is never
   read: left out. *)
Inductive core :=
| CDev (branch : bytes)
| CRel (major minor patch extra stab stabnum : Z).

Definition c_isdev (c : core) : bool := match c with CDev _ => true | _ => false end.
Definition c_major (c : core) : Z := match c with CRel m _ _ _ _ _ => m | _ => 0 end.
Definition c_minor (c : core) : Z := match c with CRel _ m _ _ _ _ => m | _ => 0 end.
Definition c_patch (c : core) : Z := match c with CRel _ _ p _ _ _ => p | _ => 0 end.
Definition c_extra (c : core) : Z := match c with CRel _ _ _ e _ _ => e | _ => 0 end.
Definition c_stab (c : core) : Z := match c with CRel _ _ _ _ s _ => s | _ => stabilityDev end.
Definition c_stabnum (c : core) : Z := match c with CRel _ _ _ _ _ n => n | _ => 0 end.

(* generated from the Go source on every run (tools/gen -> Gen/Tables.v) *)
Definition stabilityMap : list (bytes * Z) :=
  Eval cbv delta [Verif.Gen.Tables.composer_stabilityMap] in Verif.Gen.Tables.composer_stabilityMap.

(* ---------- devVersionPattern: dev- followed by one or more non-newline bytes ---------- *)
Definition nl : ascii := "010"%char.

Definition dev_match (t : bytes) : option bytes :=
  match strip_prefix $"dev-" t with
  | Some r => match r with
              | [] => None
              | _ => if contains_c nl r then None else Some r
              end
  | None => None
  end.

(* ---------- semanticVersionPattern ---------- *)

(* optional build part: '+' then dot-separated non-empty runs of [0-9A-Za-z-], then end of text *)
Definition seg_char (c : ascii) : bool := is_alnum c || ceqb c "-"%char.
Definition build_ok (b : bytes) : bool :=
  forallb (fun seg => match seg with [] => false | _ => forallb seg_char seg end)
          (split_c "."%char b).
Definition tail_ok (r : bytes) : bool :=
  match r with
  | [] => true
  | c :: b => ceqb c "+"%char && build_ok b
  end.

(* up to [n] optional groups (dot, digits): the digit runs taken and the remaining text *)
Fixpoint dotted (n : nat) (r : bytes) : list bytes * bytes :=
  match n with
  | O => ([], r)
  | S k =>
      match r with
      | c :: r1 =>
          if ceqb c "."%char then
            match take_while is_digit r1 with
            | [] => ([], r)
            | d => let (ds, r2) := dotted k (drop_while is_digit r1) in (d :: ds, r2)
            end
          else ([], r)
      | [] => ([], r)
      end
  end.

Definition hyphen_names : list bytes :=
  [ $"alpha"; $"beta"; $"RC"; $"a"; $"b"; $"rc"; $"dev"; $"patch" ].
Definition direct_names : list bytes :=
  [ $"alpha"; $"beta"; $"RC"; $"a"; $"b"; $"rc"; $"dev"; $"pl" ].

(* after the stability word: optional (optional dot [allow_dot], digits), then the tail.
   Result: the captured digits ([] when the group did not take part). *)
Definition stab_num (allow_dot : bool) (r : bytes) : option bytes :=
  let r' := match r with
            | c :: r1 => if allow_dot && ceqb c "."%char then r1 else r
            | [] => r
            end in
  match take_while is_digit r' with
  | [] => if tail_ok r then Some [] else None
  | d => if tail_ok (drop_while is_digit r') then Some d
         else if tail_ok r then Some [] else None
  end.

(* alternation, leftmost alternative whose continuation matches *)
Fixpoint try_names (names : list bytes) (allow_dot : bool) (r : bytes) : option (bytes * bytes) :=
  match names with
  | [] => None
  | n :: ns =>
      if has_prefix n r then
        match stab_num allow_dot (skipn (length n) r) with
        | Some d => Some (n, d)
        | None => try_names ns allow_dot r
        end
      else try_names ns allow_dot r
  end.

(* first alternative of the stability group: hyphen, word, optional [.]number *)
Definition hyphen_part (r : bytes) : option (bytes * bytes) :=
  match r with
  | c :: r1 => if ceqb c "-"%char then try_names hyphen_names true r1 else None
  | [] => None
  end.

(* None: no match; Some None: no stability suffix; Some (Some (word, digits)) *)
Definition stab_suffix (r : bytes) : option (option (bytes * bytes)) :=
  match hyphen_part r with
  | Some x => Some (Some x)
  | None =>
      match try_names direct_names false r with
      | Some x => Some (Some x)
      | None => if tail_ok r then Some None else None
      end
  end.

Definition stab_of (word : bytes) : Z :=
  let l := to_lower word in
  if beq l $"patch" || beq l $"pl" then stabilityStable
  else match lookup l stabilityMap with
       | Some s => s
       | None => stabilityStable
       end.

(* a capture group that is empty leaves the field 0; otherwise strconv.Atoi, whose error aborts *)
Definition atoi_opt (d : bytes) : option Z :=
  match d with [] => Some 0 | _ => atoi d end.

Inductive sem_res := SemNo | SemErr | SemOk (c : core).

(* the optional leading v *)
Definition strip_v (t : bytes) : bytes :=
  match t with
  | c :: r => if ceqb c "v"%char then r else t
  | [] => t
  end.

Definition parse_semantic (t : bytes) : sem_res :=
  let t1 := strip_v t in
  match take_while is_digit t1 with
  | [] => SemNo
  | d1 =>
      let (ds, r) := dotted 4 (drop_while is_digit t1) in
      match stab_suffix r with
      | None => SemNo
      | Some st =>
          match atoi d1, atoi_opt (nth 0 ds []), atoi_opt (nth 1 ds []), atoi_opt (nth 2 ds []) with
          | Some ma, Some mi, Some pa, Some ex =>
              match st with
              | None => SemOk (CRel ma mi pa ex stabilityStable 0)
              | Some (word, d) =>
                  match atoi_opt d with
                  | Some n => SemOk (CRel ma mi pa ex (stab_of word) n)
                  | None => SemErr
                  end
              end
          | _, _, _, _ => SemErr
          end
      end
  end.

(* ---------- isBranchName ---------- *)
Definition commonBranches : list bytes :=
  [ $"main"; $"master"; $"develop"; $"development"; $"trunk";
    $"stable"; $"staging"; $"production"; $"prod" ].
Definition branchPrefixes : list bytes :=
  [ $"feature/"; $"feature-"; $"feat/"; $"feat-";
    $"bugfix/"; $"bugfix-"; $"fix/"; $"fix-";
    $"hotfix/"; $"hotfix-"; $"patch/"; $"patch-";
    $"release/"; $"release-"; $"rel/"; $"rel-";
    $"chore/"; $"chore-"; $"docs/"; $"docs-"; $"doc/"; $"doc-";
    $"refactor/"; $"refactor-"; $"style/"; $"style-" ].

Definition is_branch_name (t : bytes) : bool :=
  match t with
  | [] => false
  | _ =>
      if contains_c "."%char t && negb (contains_c "/"%char t) && negb (contains_c "-"%char t)
      then false
      else if mem t commonBranches then true
      else if existsb (fun p => has_prefix p t && (length p <? length t)%nat) branchPrefixes then true
      else has_suffix $"-dev" t && (4 <? length t)%nat
  end.

(* ---------- NewVersion on the trimmed text ---------- *)
Definition parse_core (t : bytes) : option core :=
  match t with
  | [] => None
  | _ =>
      match dev_match t with
      | Some b => Some (CDev b)
      | None =>
          match parse_semantic t with
          | SemOk c => Some c
          | SemErr => None
          | SemNo => if is_branch_name t then Some (CDev t) else None
          end
      end
  end.

(* ---------- Compare ---------- *)
Definition rel_key (c : core) : list Z :=
  [c_major c; c_minor c; c_patch c; c_extra c; c_stab c; c_stabnum c].

Definition cmp_core (a b : core) : comparison :=
  match a, b with
  | CDev _, CRel _ _ _ _ _ _ => Lt
  | CRel _ _ _ _ _ _, CDev _ => Gt
  | CDev x, CDev y => bytes_cmp x y
  | CRel _ _ _ _ _ _, CRel _ _ _ _ _ _ => lex_short Z.compare (rel_key a) (rel_key b)
  end.

Definition raw_orig := true.

Definition ver := VLayer.ver core.
Definition parse : bytes -> option ver := VLayer.parse parse_core raw_orig.
Definition cmp : ver -> ver -> comparison := VLayer.cmp cmp_core.
Definition show : ver -> bytes := VLayer.show.
