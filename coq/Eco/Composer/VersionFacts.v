(* Eco/Composer/VersionFacts.v — facts about the model of composer/version.go *)
From Coq Require Import Lia.
From Verif.Base Require Import Bytes GoNum Ord BytesFacts.
From Verif.Eco.Composer Require Import OrdSum.
From Verif.Eco Require Import VLayer VLayerFacts.
From Verif.Eco.Composer Require Import Version.

(* Compare = "dev branches (by name) below everything else (by the six numbers)" *)
Definition to_sum (c : core) : bytes + list Z :=
  match c with
  | CDev b => inl b
  | CRel _ _ _ _ _ _ => inr (rel_key c)
  end.

Lemma cmp_core_as_sum a b :
  cmp_core a b = cmp_on to_sum (sum_cmp bytes_cmp (lex_short Z.compare)) a b.
Proof. destruct a, b; reflexivity. Qed.

Lemma cmp_core_tp : TotalPreorder cmp_core.
Proof.
  eapply TP_ext; [apply cmp_core_as_sum|].
  apply TP_on, TP_sum; [apply TP_bytes_cmp | apply TP_lex_short, TP_Z].
Qed.

Lemma cmp_tp : TotalPreorder cmp.
Proof. apply VLayerFacts.cmp_tp, cmp_core_tp. Qed.

Print Assumptions cmp_core_tp.
Print Assumptions cmp_tp.

(* ====================================================================================== *)
(* C03: numeric versions                                                                   *)
(* ====================================================================================== *)
From Verif.Eco.Composer Require Import DecFacts.
Local Open Scope N_scope.

(* ".x.y.z" *)
Definition dots (ds : list N) : bytes := concat (map (fun x => "."%char :: dec x) ds).
Definition numtext (t : list N) : bytes := join $"." (map dec t).

Lemma numtext_dots a ds : numtext (a :: ds) = dec a ++ dots ds.
Proof.
  unfold numtext. revert a. induction ds as [|b ds IH]; intros a.
  - simpl. rewrite app_nil_r. reflexivity.
  - change (map dec (a :: b :: ds)) with (dec a :: map dec (b :: ds)).
    change (join $"." (dec a :: map dec (b :: ds)))
      with (dec a ++ $"." ++ join $"." (map dec (b :: ds))).
    rewrite IH. reflexivity.
Qed.

(* a suffix that cannot extend the numeric part *)
Definition nd (sfx : bytes) : Prop :=
  match sfx with [] => True | c :: _ => is_digit c = false /\ ceqb c "."%char = false end.

Lemma nd_head_nondigit sfx : nd sfx -> match sfx with [] => True | c :: _ => is_digit c = false end.
Proof. destruct sfx; simpl; tauto. Qed.

Lemma dots_sfx_head ds sfx : nd sfx ->
  match dots ds ++ sfx with [] => True | c :: _ => is_digit c = false end.
Proof.
  intros H. destruct ds as [|x ds]; simpl.
  - apply nd_head_nondigit, H.
  - reflexivity.
Qed.

Lemma dotted_step k d r :
  d <> [] -> forallb is_digit d = true ->
  match r with [] => True | c :: _ => is_digit c = false end ->
  dotted (S k) ("."%char :: d ++ r) = let (ds, r2) := dotted k r in (d :: ds, r2).
Proof.
  intros Hne Hd Hr. cbn [dotted].
  change (ceqb "."%char "."%char) with true. cbv iota.
  destruct (take_while_digits d r Hd Hr) as [-> ->].
  destruct d; [congruence|reflexivity].
Qed.

Lemma dotted_nd k sfx : nd sfx -> dotted k sfx = ([], sfx).
Proof.
  intros H. destruct k; [reflexivity|]. destruct sfx as [|c s]; [reflexivity|].
  simpl in H. destruct H as [_ H]. cbn [dotted]. rewrite H. reflexivity.
Qed.

Lemma dotted_dots ds : forall k sfx, (length ds <= k)%nat -> nd sfx ->
  dotted k (dots ds ++ sfx) = (map dec ds, sfx).
Proof.
  induction ds as [|x ds IH]; intros k sfx Hk Hs.
  - simpl. apply dotted_nd, Hs.
  - destruct k as [|k]; [simpl in Hk; lia|].
    replace (dots (x :: ds) ++ sfx) with ("."%char :: dec x ++ (dots ds ++ sfx))
      by (unfold dots; cbn [map concat]; rewrite <- app_assoc; reflexivity).
    rewrite dotted_step.
    + rewrite IH by (simpl in Hk; try lia; assumption). reflexivity.
    + apply dec_nonempty.
    + apply dec_digits.
    + apply dots_sfx_head, Hs.
Qed.

Definition zn (ds : list N) (i : nat) : Z := Z.of_N (nth i ds 0).

Lemma atoi_opt_dec x : x < two63 -> atoi_opt (dec x) = Some (Z.of_N x).
Proof.
  intros H. unfold atoi_opt. pose proof (dec_nonempty x).
  destruct (dec x) eqn:E; [congruence|]. rewrite <- E. apply atoi_dec, H.
Qed.

Lemma atoi_opt_nth ds i :
  Forall (fun x => x < two63) ds -> atoi_opt (nth i (map dec ds) []) = Some (zn ds i).
Proof.
  unfold zn. revert i. induction ds as [|x ds IH]; intros i H.
  - destruct i; reflexivity.
  - inversion H; subst. destruct i; simpl.
    + apply atoi_opt_dec. assumption.
    + apply IH. assumption.
Qed.

(* what NewVersion makes of "a.b.c.d[.e]" followed by a suffix [sfx] *)
Definition sem_of (a : N) (ds : list N) (sfx : bytes) : sem_res :=
  match stab_suffix sfx with
  | None => SemNo
  | Some None => SemOk (CRel (Z.of_N a) (zn ds 0) (zn ds 1) (zn ds 2) stabilityStable 0)
  | Some (Some (w, d)) =>
      match atoi_opt d with
      | Some n => SemOk (CRel (Z.of_N a) (zn ds 0) (zn ds 1) (zn ds 2) (stab_of w) n)
      | None => SemErr
      end
  end.

Lemma parse_semantic_nums a ds sfx :
  a < two63 -> Forall (fun x => x < two63) ds -> (length ds <= 4)%nat -> nd sfx ->
  parse_semantic (dec a ++ dots ds ++ sfx) = sem_of a ds sfx.
Proof.
  intros Ha Hds Hl Hs. unfold parse_semantic, sem_of. cbv zeta.
  destruct (dec_cons a) as (c & l & E & Hc & Hdl).
  pose proof (dec_digits a) as Hd.
  assert (Ht1 : strip_v (dec a ++ dots ds ++ sfx) = dec a ++ dots ds ++ sfx).
  { rewrite E. simpl. rewrite (digit_not c "v"%char Hc eq_refl). reflexivity. }
  rewrite Ht1.
  destruct (take_while_digits (dec a) (dots ds ++ sfx) Hd (dots_sfx_head ds sfx Hs)) as [-> ->].
  rewrite (dotted_dots ds 4 sfx Hl Hs).
  rewrite E. cbv iota beta. rewrite <- E.
  rewrite !atoi_opt_nth by assumption.
  rewrite (atoi_dec a Ha).
  destruct (stab_suffix sfx) as [[[w d]|]|]; reflexivity.
Qed.

Lemma dev_match_digit c l : is_digit c = true -> dev_match (c :: l) = None.
Proof.
  intros H. unfold dev_match, strip_prefix. cbn [list_ascii_of_string has_prefix].
  rewrite (digit_not' c "d"%char H eq_refl). reflexivity.
Qed.

Lemma parse_core_nums_sfx a ds sfx :
  a < two63 -> Forall (fun x => x < two63) ds -> (length ds <= 4)%nat -> nd sfx ->
  parse_core (dec a ++ dots ds ++ sfx) =
  match sem_of a ds sfx with
  | SemOk c => Some c
  | SemErr => None
  | SemNo => if is_branch_name (dec a ++ dots ds ++ sfx) then Some (CDev (dec a ++ dots ds ++ sfx)) else None
  end.
Proof.
  intros Ha Hds Hl Hs. unfold parse_core.
  rewrite (parse_semantic_nums a ds sfx Ha Hds Hl Hs).
  destruct (dec_cons a) as (c & l & E & Hc & Hdl). rewrite E.
  cbn [app]. rewrite (dev_match_digit c _ Hc). reflexivity.
Qed.

(* one to five numeric components: accepted; the first four are the fields (missing = 0) *)
Theorem parse_core_nums a ds :
  a < two63 -> Forall (fun x => x < two63) ds -> (length ds <= 4)%nat ->
  parse_core (numtext (a :: ds)) =
  Some (CRel (Z.of_N a) (zn ds 0) (zn ds 1) (zn ds 2) stabilityStable 0).
Proof.
  intros Ha Hds Hl. rewrite numtext_dots.
  rewrite <- (app_nil_r (dots ds)).
  rewrite (parse_core_nums_sfx a ds [] Ha Hds Hl I). reflexivity.
Qed.

Lemma thenc_eq_r c : thenc c Eq = c.
Proof. destruct c; reflexivity. Qed.

(* C03 (numeric part): versions of 1..4 components below 2^63 compare as integer tuples *)
Theorem cmp_nums t1 t2 :
  length t1 = length t2 -> (1 <= length t1 <= 4)%nat ->
  Forall (fun x => x < two63) t1 -> Forall (fun x => x < two63) t2 ->
  exists c1 c2, parse_core (numtext t1) = Some c1 /\ parse_core (numtext t2) = Some c2 /\
                cmp_core c1 c2 = lex_short N.compare t1 t2.
Proof.
  intros Hlen Hr H1 H2.
  destruct t1 as [|a1 d1]; [simpl in Hr; lia|].
  destruct t2 as [|a2 d2]; [discriminate|].
  inversion H1 as [|? ? Ha1 Hd1]; subst. inversion H2 as [|? ? Ha2 Hd2]; subst.
  simpl in Hlen, Hr.
  rewrite (parse_core_nums a1 d1), (parse_core_nums a2 d2) by (auto; lia).
  do 2 eexists. split; [reflexivity|]. split; [reflexivity|].
  unfold cmp_core, rel_key, c_major, c_minor, c_patch, c_extra, c_stab, c_stabnum, zn.
  destruct d1 as [|b1 [|c1 [|e1 [|f1 d1]]]]; destruct d2 as [|b2 [|c2 [|e2 [|f2 d2]]]];
    simpl in Hlen, Hr; try discriminate; try lia;
    cbn [lex_short nth]; rewrite ?N2Z.inj_compare;
    change (Z.of_N 0 ?= Z.of_N 0)%Z with Eq; change (stabilityStable ?= stabilityStable)%Z with Eq;
    change (0 ?= 0)%Z with Eq; cbn [thenc]; rewrite ?thenc_eq_r; try reflexivity.
Qed.

(* finding: a fifth component is accepted and ignored *)
Theorem fifth_component_ignored a b c d e1 e2 :
  Forall (fun x => x < two63) [a; b; c; d; e1; e2] ->
  exists c1 c2, parse_core (numtext [a; b; c; d; e1]) = Some c1 /\
                parse_core (numtext [a; b; c; d; e2]) = Some c2 /\ cmp_core c1 c2 = Eq.
Proof.
  intros H.
  repeat match goal with H : Forall _ (_ :: _) |- _ => inversion H; clear H; subst end.
  rewrite !parse_core_nums by (repeat constructor; auto).
  do 2 eexists. split; [reflexivity|]. split; [reflexivity|].
  apply (tp_refl cmp_core_tp).
Qed.

Lemma fifth_component_example :
  exists a b, parse $"1.2.3.4.5" = Some a /\ parse $"1.2.3.4.6" = Some b /\ cmp a b = Eq.
Proof. vm_compute. do 2 eexists. repeat split. Qed.

(* ====================================================================================== *)
(* C03: stability markers                                                                  *)
(* ====================================================================================== *)

From Verif.Eco.Composer Require Import PrefixFacts.

(* what may follow a stability word: nothing, or something that does not start with a letter *)
Definition nolet (tl : bytes) : bool := headnot is_letter tl.

Lemma try_names_hit names ad w tl d :
  first_hit is_letter names w = true -> nolet tl = true -> stab_num ad tl = Some d ->
  try_names names ad (w ++ tl) = Some (w, d).
Proof.
  intros H Ht Hs. induction names as [|n ns IH]; [discriminate|].
  cbn [first_hit] in H. cbn [try_names].
  destruct (beq n w) eqn:E.
  - apply beq_eq in E. subst n.
    rewrite has_prefix_app, skipn_app_len, Hs. reflexivity.
  - apply andb_true_iff in H. destruct H as [Hb Hf].
    rewrite (blocks_ok is_letter n w tl Hb Ht). apply IH, Hf.
Qed.

(* forms of the part after the word *)
Lemma stab_num_nil ad : stab_num ad [] = Some [].
Proof. reflexivity. Qed.

Lemma stab_num_digits ad d :
  d <> [] -> forallb is_digit d = true -> stab_num ad d = Some d.
Proof.
  intros Hne Hd. destruct d as [|c l]; [congruence|].
  pose proof Hd as Hd'. simpl in Hd'. apply andb_true_iff in Hd'. destruct Hd' as [Hc Hl].
  unfold stab_num. rewrite (digit_not c "."%char Hc eq_refl), andb_false_r.
  destruct (take_while_digits (c :: l) [] Hd I) as [H1 H2]. rewrite app_nil_r in H1, H2.
  rewrite H1, H2. reflexivity.
Qed.

Lemma stab_num_dot_digits d :
  d <> [] -> forallb is_digit d = true -> stab_num true ("."%char :: d) = Some d.
Proof.
  intros Hne Hd. unfold stab_num. change (true && ceqb "."%char "."%char) with true. cbv iota.
  destruct (take_while_digits d [] Hd I) as [H1 H2]. rewrite app_nil_r in H1, H2.
  rewrite H1, H2. destruct d; [congruence|reflexivity].
Qed.

Lemma nolet_digits d : forallb is_digit d = true -> nolet d = true.
Proof.
  destruct d as [|c l]; [reflexivity|]. simpl. intros H. apply andb_true_iff in H. destruct H as [H _].
  apply negb_true_iff. unfold is_letter, is_lower, is_upper. unfold is_digit in H.
  unfold in_range in *. apply andb_true_iff in H. destruct H as [H1 H2].
  apply N.leb_le in H1, H2. apply orb_false_iff. split; apply andb_false_iff; left; apply N.leb_gt; lia.
Qed.

Lemma hyphen_hits : forallb (first_hit is_letter hyphen_names) hyphen_names = true.
Proof. vm_compute. reflexivity. Qed.
Lemma direct_hits : forallb (first_hit is_letter direct_names) direct_names = true.
Proof. vm_compute. reflexivity. Qed.
Lemma direct_letters :
  forallb (fun w => match w with c :: _ => is_letter c | [] => false end) direct_names = true.
Proof. vm_compute. reflexivity. Qed.

Lemma In_mem {A} (w : A) (l : list A) : In w l -> forall f, forallb f l = true -> f w = true.
Proof. intros H f Hf. rewrite forallb_forall in Hf. apply Hf, H. Qed.

Lemma stab_suffix_hyphen w tl d :
  In w hyphen_names -> nolet tl = true -> stab_num true tl = Some d ->
  stab_suffix ("-"%char :: w ++ tl) = Some (Some (w, d)).
Proof.
  intros Hw Ht Hs. unfold stab_suffix, hyphen_part. change (ceqb "-"%char "-"%char) with true. cbv iota.
  rewrite (try_names_hit hyphen_names true w tl d (In_mem _ _ Hw _ hyphen_hits) Ht Hs).
  reflexivity.
Qed.

Lemma stab_suffix_direct w tl d :
  In w direct_names -> nolet tl = true -> stab_num false tl = Some d ->
  stab_suffix (w ++ tl) = Some (Some (w, d)).
Proof.
  intros Hw Ht Hs. unfold stab_suffix, hyphen_part.
  pose proof (In_mem _ _ Hw _ direct_letters) as Hl. cbv beta in Hl.
  destruct w as [|c w]; [discriminate|]. cbn [app].
  replace (ceqb c "-"%char) with false
    by (symmetry; apply ceqb_neq; intros ->; discriminate).
  change (c :: w ++ tl) with ((c :: w) ++ tl).
  rewrite (try_names_hit direct_names false (c :: w) tl d (In_mem _ _ Hw _ direct_hits) Ht Hs).
  reflexivity.
Qed.

(* the shapes a marked version takes: <numbers>-<word>[[.]<n>]  and  <numbers><word>[<n>] *)
Inductive marked : bytes -> bytes -> option N -> Prop :=
| M_hyphen w : In w hyphen_names -> marked ("-"%char :: w) w None
| M_hyphen_num w k : In w hyphen_names -> k < two63 -> marked ("-"%char :: w ++ dec k) w (Some k)
| M_hyphen_dot w k : In w hyphen_names -> k < two63 ->
    marked ("-"%char :: w ++ "."%char :: dec k) w (Some k)
| M_direct w : In w direct_names -> marked w w None
| M_direct_num w k : In w direct_names -> k < two63 -> marked (w ++ dec k) w (Some k).

Definition num_of (k : option N) : Z := match k with Some k => Z.of_N k | None => 0%Z end.

Lemma marked_nd sfx w k : marked sfx w k -> nd sfx.
Proof.
  intros H.
  assert (D : forall w', In w' direct_names -> forall tl, nd (w' ++ tl)).
  { intros w' Hw tl. pose proof (In_mem _ _ Hw _ direct_letters) as Hl. cbv beta in Hl.
    destruct w' as [|c w']; [discriminate|]. simpl. split.
    - unfold is_letter, is_lower, is_upper, is_digit, in_range in *.
      apply orb_true_iff in Hl.
      destruct Hl as [Hl|Hl]; apply andb_true_iff in Hl; destruct Hl as [H1 H2];
        apply N.leb_le in H1, H2; apply andb_false_iff; right; apply N.leb_gt; lia.
    - apply ceqb_neq. intros ->. discriminate. }
  destruct H; try (simpl; split; reflexivity).
  - rewrite <- (app_nil_r w). apply D. assumption.
  - apply D. assumption.
Qed.

Lemma marked_suffix sfx w k :
  marked sfx w k -> exists d, stab_suffix sfx = Some (Some (w, d)) /\ atoi_opt d = Some (num_of k).
Proof.
  intros H. destruct H.
  - exists []. split; [|reflexivity]. rewrite <- (app_nil_r w) at 1.
    apply stab_suffix_hyphen; auto.
  - exists (dec k). split; [|apply atoi_opt_dec; assumption].
    apply stab_suffix_hyphen; auto.
    + apply nolet_digits, dec_digits.
    + apply stab_num_digits; [apply dec_nonempty|apply dec_digits].
  - exists (dec k). split; [|apply atoi_opt_dec; assumption].
    apply stab_suffix_hyphen; auto.
    apply stab_num_dot_digits; [apply dec_nonempty|apply dec_digits].
  - exists []. split; [|reflexivity]. rewrite <- (app_nil_r w) at 1.
    apply stab_suffix_direct; auto.
  - exists (dec k). split; [|apply atoi_opt_dec; assumption].
    apply stab_suffix_direct; auto.
    + apply nolet_digits, dec_digits.
    + apply stab_num_digits; [apply dec_nonempty|apply dec_digits].
Qed.

(* NewVersion on a marked numeric version *)
Theorem parse_core_marked a ds sfx w k :
  a < two63 -> Forall (fun x => x < two63) ds -> (length ds <= 4)%nat -> marked sfx w k ->
  parse_core (numtext (a :: ds) ++ sfx) =
  Some (CRel (Z.of_N a) (zn ds 0) (zn ds 1) (zn ds 2) (stab_of w) (num_of k)).
Proof.
  intros Ha Hds Hl Hm. rewrite numtext_dots, <- app_assoc.
  rewrite (parse_core_nums_sfx a ds sfx Ha Hds Hl (marked_nd _ _ _ Hm)).
  unfold sem_of. destruct (marked_suffix _ _ _ Hm) as (d & -> & ->). reflexivity.
Qed.

Definition pre_words : list bytes := [ $"alpha"; $"beta"; $"RC"; $"a"; $"b"; $"rc"; $"dev" ].
Definition post_words : list bytes := [ $"patch"; $"pl" ].

Lemma pre_words_unstable : forallb (fun w => (stab_of w <? stabilityStable)%Z) pre_words = true.
Proof. vm_compute. reflexivity. Qed.
Lemma post_words_stable : forallb (fun w => (stab_of w =? stabilityStable)%Z) post_words = true.
Proof. vm_compute. reflexivity. Qed.

Lemma cmp_same_nums a b c d s n s' n' :
  cmp_core (CRel a b c d s n) (CRel a b c d s' n') = thenc (s ?= s')%Z (n ?= n')%Z.
Proof.
  unfold cmp_core, rel_key. cbn [c_major c_minor c_patch c_extra c_stab c_stabnum lex_short].
  rewrite !Z.compare_refl. cbn [thenc]. rewrite thenc_eq_r. reflexivity.
Qed.

(* C03: a pre-release marker (alpha beta RC a b rc dev, any spelling, any number) makes the
   version smaller than the unmarked one *)
Theorem pre_marker_lt a ds sfx w k :
  a < two63 -> Forall (fun x => x < two63) ds -> (length ds <= 4)%nat ->
  marked sfx w k -> In w pre_words ->
  exists c1 c0, parse_core (numtext (a :: ds) ++ sfx) = Some c1 /\
                parse_core (numtext (a :: ds)) = Some c0 /\ cmp_core c1 c0 = Lt.
Proof.
  intros Ha Hds Hl Hm Hw.
  rewrite (parse_core_marked a ds sfx w k Ha Hds Hl Hm), (parse_core_nums a ds Ha Hds Hl).
  do 2 eexists. split; [reflexivity|]. split; [reflexivity|].
  rewrite cmp_same_nums.
  pose proof (In_mem _ _ Hw _ pre_words_unstable) as Hs. cbv beta in Hs.
  apply Z.ltb_lt in Hs. apply Z.compare_lt_iff in Hs. rewrite Hs. reflexivity.
Qed.

(* patch / pl with a positive number is greater than the unmarked version ... *)
Theorem post_marker_gt a ds sfx w k :
  a < two63 -> Forall (fun x => x < two63) ds -> (length ds <= 4)%nat ->
  marked sfx w (Some k) -> In w post_words -> 0 < k ->
  exists c1 c0, parse_core (numtext (a :: ds) ++ sfx) = Some c1 /\
                parse_core (numtext (a :: ds)) = Some c0 /\ cmp_core c1 c0 = Gt.
Proof.
  intros Ha Hds Hl Hm Hw Hk.
  rewrite (parse_core_marked a ds sfx w (Some k) Ha Hds Hl Hm), (parse_core_nums a ds Ha Hds Hl).
  do 2 eexists. split; [reflexivity|]. split; [reflexivity|].
  rewrite cmp_same_nums.
  pose proof (In_mem _ _ Hw _ post_words_stable) as Hs. cbv beta in Hs.
  apply Z.eqb_eq in Hs. rewrite Hs, Z.compare_refl. cbn [thenc num_of].
  apply Z.compare_gt_iff. lia.
Qed.

(* ... but without a number (or with 0) it is Compare-equal to it (finding: a bare
   "-patch" / "pl" is not a post-release) *)
Theorem post_marker_bare_eq a ds sfx w :
  a < two63 -> Forall (fun x => x < two63) ds -> (length ds <= 4)%nat ->
  marked sfx w None -> In w post_words ->
  exists c1 c0, parse_core (numtext (a :: ds) ++ sfx) = Some c1 /\
                parse_core (numtext (a :: ds)) = Some c0 /\ cmp_core c1 c0 = Eq.
Proof.
  intros Ha Hds Hl Hm Hw.
  rewrite (parse_core_marked a ds sfx w None Ha Hds Hl Hm), (parse_core_nums a ds Ha Hds Hl).
  do 2 eexists. split; [reflexivity|]. split; [reflexivity|].
  rewrite cmp_same_nums.
  pose proof (In_mem _ _ Hw _ post_words_stable) as Hs. cbv beta in Hs.
  apply Z.eqb_eq in Hs. rewrite Hs, Z.compare_refl. reflexivity.
Qed.

(* dev branches sort below every numbered version *)
Lemma dev_lt_rel b ma mi pa ex st n : cmp_core (CDev b) (CRel ma mi pa ex st n) = Lt.
Proof. reflexivity. Qed.


(* ====================================================================================== *)
(* parser invariant: fields are non-negative int64, stability lies in stabilityDev..Stable  *)
(* ====================================================================================== *)
Local Open Scope Z_scope.

Definition int63 (z : Z) : Prop := 0 <= z < 9223372036854775808.

Definition wf (c : core) : Prop :=
  match c with
  | CDev _ => True
  | CRel ma mi pa ex st n =>
      int63 ma /\ int63 mi /\ int63 pa /\ int63 ex /\ stabilityDev <= st <= stabilityStable /\ int63 n
  end.

Definition digit_headed (d : bytes) : Prop :=
  match d with [] => True | c :: _ => is_digit c = true end.

Lemma take_while_headed p (s : bytes) :
  match take_while p s with [] => True | c :: _ => p c = true end.
Proof.
  destruct s as [|c s]; [exact I|]. simpl. destruct (p c) eqn:E; [exact E|exact I].
Qed.

Lemma atoi_digit_headed d z : d <> [] -> digit_headed d -> atoi d = Some z -> int63 z.
Proof.
  destruct d as [|c l]; [congruence|]. intros _ Hc. simpl in Hc. unfold atoi.
  rewrite (digit_not c "-"%char Hc eq_refl), (digit_not c "+"%char Hc eq_refl).
  destruct (nonempty_digits (c :: l)); [|discriminate].
  destruct (digits_val (c :: l) <? two63)%N eqn:E; [|discriminate].
  intros H. injection H as <-. apply N.ltb_lt in E. unfold int63, two63 in *. lia.
Qed.

Lemma atoi_opt_headed d z : digit_headed d -> atoi_opt d = Some z -> int63 z.
Proof.
  intros Hd. unfold atoi_opt. destruct d as [|c l] eqn:E.
  - intros H. injection H as <-. unfold int63. lia.
  - apply atoi_digit_headed; [discriminate|exact Hd].
Qed.

Lemma dotted_headed k : forall r, Forall digit_headed (fst (dotted k r)).
Proof.
  induction k as [|k IH]; intros r; [constructor|].
  cbn [dotted]. destruct r as [|c r1]; [constructor|].
  destruct (ceqb c "."%char); [|constructor].
  pose proof (take_while_headed is_digit r1) as Hh.
  destruct (take_while is_digit r1) as [|x d] eqn:E; [constructor|].
  specialize (IH (drop_while is_digit r1)).
  destruct (dotted k (drop_while is_digit r1)) as [ds r2]. simpl in *.
  constructor; [exact Hh|exact IH].
Qed.

Lemma nth_headed ds i : Forall digit_headed ds -> digit_headed (nth i ds []).
Proof.
  intros H. revert i. induction H as [|d ds Hd _ IH]; intros i.
  - destruct i; exact I.
  - destruct i; [exact Hd|apply IH].
Qed.

Lemma stab_num_headed ad r d : stab_num ad r = Some d -> digit_headed d.
Proof.
  unfold stab_num.
  set (r' := match r with c :: r1 => if ad && ceqb c "."%char then r1 else r | [] => r end).
  pose proof (take_while_headed is_digit r') as Hh.
  destruct (take_while is_digit r') as [|x l].
  - destruct (tail_ok r); intros H; [injection H as <-; exact I|discriminate].
  - destruct (tail_ok (drop_while is_digit r')).
    + intros H. injection H as <-. exact Hh.
    + destruct (tail_ok r); intros H; [injection H as <-; exact I|discriminate].
Qed.

Lemma try_names_headed names ad r w d : try_names names ad r = Some (w, d) -> digit_headed d.
Proof.
  induction names as [|n ns IH]; [discriminate|]. cbn [try_names].
  destruct (has_prefix n r); [|exact IH].
  destruct (stab_num ad (skipn (length n) r)) as [d'|] eqn:E; [|exact IH].
  intros H. injection H as _ <-. apply (stab_num_headed _ _ _ E).
Qed.

Lemma stab_suffix_headed r w d : stab_suffix r = Some (Some (w, d)) -> digit_headed d.
Proof.
  unfold stab_suffix.
  destruct (hyphen_part r) as [[w' d']|] eqn:E.
  - intros H. injection H as _ <-. unfold hyphen_part in E.
    destruct r as [|c r1]; [discriminate|]. destruct (ceqb c "-"%char); [|discriminate].
    apply (try_names_headed _ _ _ _ _ E).
  - destruct (try_names direct_names false r) as [[w' d']|] eqn:E2.
    + intros H. injection H as _ <-. apply (try_names_headed _ _ _ _ _ E2).
    + destruct (tail_ok r); discriminate.
Qed.

(* The named levels are strictly increasing, and every rank of stabilityMap is one of the
   pre-release levels.  Both are computed on the generated table as it is, so they are
   re-checked whenever the Go constants change; nothing below looks at the numbers. *)
Lemma stability_levels_increasing :
  stabilityDev < stabilityAlpha /\ stabilityAlpha < stabilityBeta /\
  stabilityBeta < stabilityRC /\ stabilityRC < stabilityStable.
Proof. vm_compute. repeat split. Qed.

Lemma stabilityMap_ranks_bounded :
  forallb (fun kv => (stabilityDev <=? snd kv) && (snd kv <? stabilityStable)) stabilityMap = true.
Proof. vm_compute. reflexivity. Qed.

Lemma lookup_in {A} k (l : list (bytes * A)) v : lookup k l = Some v -> In (k, v) l.
Proof.
  induction l as [|[k' v'] l IH]; [discriminate|]. cbn [lookup].
  destruct (beq k k') eqn:E.
  - intros H. injection H as <-. apply beq_eq in E. subst k'. left. reflexivity.
  - intros H. right. apply IH, H.
Qed.

Lemma stab_of_range w : stabilityDev <= stab_of w <= stabilityStable.
Proof.
  pose proof stability_levels_increasing as (H1 & H2 & H3 & H4).
  unfold stab_of. destruct (beq (to_lower w) $"patch" || beq (to_lower w) $"pl"); [lia|].
  destruct (lookup (to_lower w) stabilityMap) as [s|] eqn:E; [|lia].
  apply lookup_in in E.
  pose proof (proj1 (forallb_forall _ _) stabilityMap_ranks_bounded _ E) as Hb. cbv beta in Hb.
  cbn [snd] in Hb. apply andb_true_iff in Hb. destruct Hb as [Ha Hb].
  apply Z.leb_le in Ha. apply Z.ltb_lt in Hb. lia.
Qed.

(* which named level each stability word gets (version.go: "alpha": stabilityAlpha, ...;
   patch / pl and unknown words are stable).  Together with stability_levels_increasing this
   fixes the relative order of the words without mentioning any number. *)
Lemma stab_of_words :
  stab_of $"dev" = stabilityDev /\
  stab_of $"alpha" = stabilityAlpha /\ stab_of $"a" = stabilityAlpha /\
  stab_of $"beta" = stabilityBeta /\ stab_of $"b" = stabilityBeta /\
  stab_of $"RC" = stabilityRC /\ stab_of $"rc" = stabilityRC /\
  stab_of $"patch" = stabilityStable /\ stab_of $"pl" = stabilityStable.
Proof. vm_compute. repeat split. Qed.

(* C03: with the same numbers, the marker word of the lower level gives the smaller version,
   whatever numbers follow the words *)
Theorem marker_level_lt a ds sfx1 w1 k1 sfx2 w2 k2 :
  (a < two63)%N -> Forall (fun x => (x < two63)%N) ds -> (length ds <= 4)%nat ->
  marked sfx1 w1 k1 -> marked sfx2 w2 k2 -> stab_of w1 < stab_of w2 ->
  exists c1 c2, parse_core (numtext (a :: ds) ++ sfx1) = Some c1 /\
                parse_core (numtext (a :: ds) ++ sfx2) = Some c2 /\ cmp_core c1 c2 = Lt.
Proof.
  intros Ha Hds Hl Hm1 Hm2 Hlt.
  rewrite (parse_core_marked a ds sfx1 w1 k1 Ha Hds Hl Hm1),
          (parse_core_marked a ds sfx2 w2 k2 Ha Hds Hl Hm2).
  do 2 eexists. split; [reflexivity|]. split; [reflexivity|].
  rewrite cmp_same_nums. apply Z.compare_lt_iff in Hlt. rewrite Hlt. reflexivity.
Qed.

Lemma marker_words_order :
  stab_of $"dev" < stab_of $"alpha" /\ stab_of $"alpha" = stab_of $"a" /\
  stab_of $"alpha" < stab_of $"beta" /\ stab_of $"beta" = stab_of $"b" /\
  stab_of $"beta" < stab_of $"RC" /\ stab_of $"RC" = stab_of $"rc" /\
  stab_of $"RC" < stab_of $"patch" /\ stab_of $"patch" = stab_of $"pl".
Proof.
  pose proof stability_levels_increasing as (H1 & H2 & H3 & H4).
  pose proof stab_of_words as (D & A & A' & B & B' & R & R' & P & P').
  rewrite D, A, A', B, B', R, R', P, P'. repeat split; assumption.
Qed.

Lemma parse_semantic_wf t c : parse_semantic t = SemOk c -> wf c.
Proof.
  unfold parse_semantic.
  pose proof (take_while_headed is_digit (strip_v t)) as Hh.
  destruct (take_while is_digit (strip_v t)) as [|x d1] eqn:E1; [discriminate|].
  pose proof (dotted_headed 4 (drop_while is_digit (strip_v t))) as Hds.
  destruct (dotted 4 (drop_while is_digit (strip_v t))) as [ds r]. simpl in Hds.
  destruct (stab_suffix r) as [st|] eqn:Es; [|discriminate].
  destruct (atoi (x :: d1)) as [ma|] eqn:A0; [|discriminate].
  destruct (atoi_opt (nth 0 ds [])) as [mi|] eqn:A1; [|discriminate].
  destruct (atoi_opt (nth 1 ds [])) as [pa|] eqn:A2; [|discriminate].
  destruct (atoi_opt (nth 2 ds [])) as [ex|] eqn:A3; [|discriminate].
  assert (Hne : x :: d1 <> []) by discriminate.
  pose proof (atoi_digit_headed _ _ Hne Hh A0) as W0.
  pose proof (atoi_opt_headed _ _ (nth_headed ds 0 Hds) A1) as W1.
  pose proof (atoi_opt_headed _ _ (nth_headed ds 1 Hds) A2) as W2.
  pose proof (atoi_opt_headed _ _ (nth_headed ds 2 Hds) A3) as W3.
  destruct st as [[w d]|].
  - destruct (atoi_opt d) as [n|] eqn:A4; [|discriminate].
    pose proof (atoi_opt_headed _ _ (stab_suffix_headed _ _ _ Es) A4) as W4.
    intros H. injection H as <-. simpl. pose proof (stab_of_range w). tauto.
  - intros H. injection H as <-. simpl.
    pose proof stability_levels_increasing as (H1 & H2 & H3 & H4).
    unfold int63. repeat split; try lia;
      try apply W0; try apply W1; try apply W2; try apply W3.
Qed.

Theorem parse_core_wf t c : parse_core t = Some c -> wf c.
Proof.
  unfold parse_core. destruct t as [|x t']; [discriminate|].
  destruct (dev_match (x :: t')); [intros H; injection H as <-; exact I|].
  destruct (parse_semantic (x :: t')) eqn:E.
  - destruct (is_branch_name (x :: t')); [intros H; injection H as <-; exact I|discriminate].
  - discriminate.
  - intros H. injection H as <-. apply (parse_semantic_wf _ _ E).
Qed.

Print Assumptions cmp_nums.
Print Assumptions pre_marker_lt.
Print Assumptions post_marker_gt.
Print Assumptions post_marker_bare_eq.
Print Assumptions fifth_component_ignored.
Print Assumptions parse_core_wf.
Print Assumptions marker_level_lt.
Print Assumptions marker_words_order.
