(* Eco/Conan/DecFacts.v — general facts about Base/GoNum.v's [dec] / [digits_val] / [atoi_sat]
   and Base/Bytes.v's [split_c] / [join] (nothing conan-specific; could live in Base). *)
From Coq Require Import Lia.
From Verif.Base Require Import Bytes BytesFacts GoNum Ord.
Local Open Scope N_scope.

Lemma code_chr n : n < 256 -> code (chr n) = n.
Proof. intros H. unfold code, chr. apply N_ascii_embedding. exact H. Qed.

Lemma digits_val_app a b :
  digits_val (a ++ b) = fold_left (fun acc c => acc * 10 + digit_val c) b (digits_val a).
Proof. unfold digits_val. apply fold_left_app. Qed.

Lemma digit_chr d : d < 10 -> is_digit (chr (48 + d)) = true /\ digit_val (chr (48 + d)) = d.
Proof.
  intros H. unfold is_digit, in_range, digit_val. rewrite code_chr by lia.
  split; [|lia].
  apply andb_true_iff. split; apply N.leb_le; lia.
Qed.

Lemma dec_fuel_S k n acc :
  dec_fuel (S k) n acc =
  if n <? 10 then chr (48 + n mod 10) :: acc
  else dec_fuel k (n / 10) (chr (48 + n mod 10) :: acc).
Proof. reflexivity. Qed.

Lemma dec_fuel_spec k : forall n acc,
  n < 2 ^ N.of_nat (S k) ->
  exists ds, dec_fuel (S k) n acc = ds ++ acc /\ ds <> [] /\
             forallb is_digit ds = true /\ digits_val ds = n.
Proof.
  induction k as [|k IH]; intros n acc Hn.
  - assert (n < 10) by (change (2 ^ N.of_nat 1) with 2 in Hn; lia).
    rewrite dec_fuel_S. apply N.ltb_lt in H as Hb. rewrite Hb.
    rewrite N.mod_small by assumption.
    destruct (digit_chr n H) as [Hd Hv].
    exists [chr (48 + n)]. repeat split.
    + discriminate.
    + cbn [forallb]. rewrite Hd. reflexivity.
    + unfold digits_val. cbn [fold_left]. rewrite Hv. reflexivity.
  - rewrite dec_fuel_S. destruct (n <? 10) eqn:Hb.
    + apply N.ltb_lt in Hb. rewrite N.mod_small by assumption.
      destruct (digit_chr n Hb) as [Hd Hv].
      exists [chr (48 + n)]. repeat split.
      * discriminate.
      * cbn [forallb]. rewrite Hd. reflexivity.
      * unfold digits_val. cbn [fold_left]. rewrite Hv. reflexivity.
    + apply N.ltb_ge in Hb.
      assert (Hq : n / 10 < 2 ^ N.of_nat (S k)).
      { rewrite Nat2N.inj_succ, N.pow_succ_r' in Hn.
        apply N.div_lt_upper_bound; lia. }
      destruct (IH (n / 10) (chr (48 + n mod 10) :: acc) Hq) as (ds & E & Hne & Hd & Hv).
      assert (Hm : n mod 10 < 10) by (apply N.mod_lt; lia).
      destruct (digit_chr (n mod 10) Hm) as [Hd1 Hv1].
      exists (ds ++ [chr (48 + n mod 10)]). repeat split.
      * rewrite E, <- app_assoc. reflexivity.
      * destruct ds; discriminate.
      * rewrite forallb_app, Hd. cbn [forallb]. rewrite Hd1. reflexivity.
      * rewrite digits_val_app, Hv. cbn [fold_left]. rewrite Hv1.
        rewrite (N.div_mod n 10) at 3 by lia. lia.
Qed.

Lemma size_nat_pow n : n < 2 ^ N.of_nat (N.size_nat n).
Proof.
  destruct n as [|p]; [reflexivity|].
  cbn [N.size_nat]. induction p as [p IH|p IH|].
  - cbn [Pos.size_nat]. rewrite Nat2N.inj_succ, N.pow_succ_r'. lia.
  - cbn [Pos.size_nat]. rewrite Nat2N.inj_succ, N.pow_succ_r'. lia.
  - reflexivity.
Qed.

Lemma dec_spec n :
  dec n <> [] /\ forallb is_digit (dec n) = true /\ digits_val (dec n) = n.
Proof.
  unfold dec.
  destruct (dec_fuel_spec (N.size_nat n) n []) as (ds & E & Hne & Hd & Hv).
  - pose proof (size_nat_pow n) as H.
    rewrite Nat2N.inj_succ, N.pow_succ_r'. lia.
  - rewrite E, app_nil_r. auto.
Qed.

Lemma dec_nonempty_digits n : nonempty_digits (dec n) = true.
Proof.
  destruct (dec_spec n) as (Hne & Hd & _). unfold nonempty_digits.
  destruct (dec n); [contradiction|exact Hd].
Qed.

Lemma digits_val_dec n : digits_val (dec n) = n.
Proof. apply dec_spec. Qed.

(* Atoi on a digit string *)
Lemma atoi_sat_digits s :
  nonempty_digits s = true -> digits_val s < two63 -> atoi_sat s = Z.of_N (digits_val s).
Proof.
  intros Hd Hv. unfold atoi_sat. destruct s as [|c r] eqn:Es; [discriminate|].
  rewrite <- Es in *.
  assert (Hc : is_digit c = true).
  { rewrite Es in Hd. cbn in Hd. apply andb_true_iff in Hd. tauto. }
  assert (ceqb c "-"%char = false /\ ceqb c "+"%char = false) as [H1 H2].
  { revert Hc. clear. destruct c as [[] [] [] [] [] [] [] []]; vm_compute; intros; split; congruence. }
  rewrite H1, H2, Hd. apply N.ltb_lt in Hv. rewrite Hv. reflexivity.
Qed.

Lemma atoi_sat_dec n : n < two63 -> atoi_sat (dec n) = Z.of_N n.
Proof.
  intros H. rewrite atoi_sat_digits; rewrite ?digits_val_dec; auto using dec_nonempty_digits.
Qed.

(* ---------- split_c / join ---------- *)

Definition no_c (sep : ascii) (s : bytes) : bool := forallb (fun c => negb (ceqb sep c)) s.

Lemma split_c_no_sep sep x : no_c sep x = true -> split_c sep x = [x].
Proof.
  induction x as [|c x IH]; intros H; [reflexivity|].
  cbn in H. apply andb_true_iff in H. destruct H as [Hc Hx].
  cbn. apply negb_true_iff in Hc. rewrite Hc, (IH Hx). reflexivity.
Qed.

Lemma split_c_app sep x rest :
  no_c sep x = true -> split_c sep (x ++ sep :: rest) = x :: split_c sep rest.
Proof.
  induction x as [|c x IH]; intros H.
  - cbn. rewrite ceqb_refl. reflexivity.
  - cbn in H. apply andb_true_iff in H. destruct H as [Hc Hx].
    cbn. apply negb_true_iff in Hc. rewrite Hc, (IH Hx). reflexivity.
Qed.

Lemma split_c_join sep l :
  l <> [] -> forallb (no_c sep) l = true -> split_c sep (join [sep] l) = l.
Proof.
  induction l as [|x l IH]; intros Hne H; [contradiction|].
  cbn in H. apply andb_true_iff in H. destruct H as [Hx Hl].
  destruct l as [|y l].
  - cbn. apply split_c_no_sep. exact Hx.
  - change (join [sep] (x :: y :: l)) with (x ++ [sep] ++ join [sep] (y :: l)).
    cbn [app]. rewrite split_c_app by exact Hx.
    rewrite IH; [reflexivity|discriminate|exact Hl].
Qed.

Lemma forallb_join (p : ascii -> bool) sep l :
  forallb p sep = true -> forallb (forallb p) l = true -> forallb p (join sep l) = true.
Proof.
  intros Hs. induction l as [|x l IH]; intros H; [reflexivity|].
  cbn in H. apply andb_true_iff in H. destruct H as [Hx Hl].
  destruct l as [|y l]; [exact Hx|].
  change (join sep (x :: y :: l)) with (x ++ sep ++ join sep (y :: l)).
  rewrite !forallb_app, Hx, Hs, (IH Hl). reflexivity.
Qed.

Lemma take_while_all p (s : bytes) : forallb p s = true -> take_while p s = s.
Proof.
  induction s as [|c s IH]; intros H; [reflexivity|].
  cbn in H. apply andb_true_iff in H. destruct H as [Hc Hs].
  cbn. rewrite Hc, (IH Hs). reflexivity.
Qed.

Lemma drop_while_all p (s : bytes) : forallb p s = true -> drop_while p s = [].
Proof.
  induction s as [|c s IH]; intros H; [reflexivity|].
  cbn in H. apply andb_true_iff in H. destruct H as [Hc Hs].
  cbn. rewrite Hc. apply IH, Hs.
Qed.

Lemma take_while_app_stop p (a : bytes) c b :
  forallb p a = true -> p c = false -> take_while p (a ++ c :: b) = a.
Proof.
  induction a as [|x a IH]; intros H Hc.
  - cbn. rewrite Hc. reflexivity.
  - cbn in H. apply andb_true_iff in H. destruct H as [Hx Ha].
    cbn. rewrite Hx, (IH Ha Hc). reflexivity.
Qed.

Lemma drop_while_app_stop p (a : bytes) c b :
  forallb p a = true -> p c = false -> drop_while p (a ++ c :: b) = c :: b.
Proof.
  induction a as [|x a IH]; intros H Hc.
  - cbn. rewrite Hc. reflexivity.
  - cbn in H. apply andb_true_iff in H. destruct H as [Hx Ha].
    cbn. rewrite Hx. apply IH; assumption.
Qed.

Lemma forallb_impl {A} (p q : A -> bool) l :
  (forall x, p x = true -> q x = true) -> forallb p l = true -> forallb q l = true.
Proof.
  intros I. induction l as [|x l IH]; intros H; [reflexivity|].
  cbn in *. apply andb_true_iff in H. destruct H as [Hx Hl].
  rewrite (I x Hx), (IH Hl). reflexivity.
Qed.

Lemma to_lower_id s : forallb (fun c => negb (is_upper c)) s = true -> to_lower s = s.
Proof.
  induction s as [|c s IH]; intros H; [reflexivity|].
  cbn in H. apply andb_true_iff in H. destruct H as [Hc Hs].
  cbn. unfold to_lower_c. apply negb_true_iff in Hc. rewrite Hc.
  f_equal. apply IH, Hs.
Qed.

(* lex_pad on lists of equal length is the plain lexicographic order *)
Lemma lex_pad_same_length {A} (pad : A) cmp l1 : forall l2,
  length l1 = length l2 -> lex_pad pad cmp l1 l2 = lex_short cmp l1 l2.
Proof.
  induction l1 as [|x l1 IH]; intros [|y l2] H; try discriminate; [reflexivity|].
  cbn. rewrite IH by (cbn in H; lia). reflexivity.
Qed.
