From Verif.Base Require Import Bytes.
From Verif.Eco Require Import Iface.
From Verif.Eco.Conan Require Version Range.

Definition v : vops := mk_vops Conan.Version.parse_core Conan.Version.cmp_core Conan.Version.raw_orig.
Definition r : rops := {|
  r_show := fun vok s => option_map Conan.Range.show (Conan.Range.parse_range vok s);
  r_contains := fun vok vcmp rg ver =>
    match Conan.Range.parse_range vok rg with
    | Some x => if vok ver then Some (Conan.Range.contains vcmp x ver) else None
    | None => None
    end
|}.
Definition entry : eco := {| e_name := $"conan"; e_v := v; e_r := r |}.
