(* Eco/Conan/Range.v — model of pkg/ecosystem/conan/range.go (definitions only).

   "||" separates OR groups; inside a group commas, then whitespace, separate constraints, with
   "operator version" pairs (operator and version as separate fields) glued back together;
   every constraint goes through constraintPattern.  ~ and ^ read the main parts of both
   versions (Version.parse_core on the same texts). *)
From Verif.Base Require Import Bytes GoNum Ord.
From Verif.Gen Require Operators.
From Verif.Eco Require Import RangeCore.
From Verif.Eco.Conan Require Version.

(* the alternation of constraintPattern, in source order; also the cases of isOperator *)
(* the list is generated from the Go source on every run (tools/gen -> Gen/Operators.v) *)
Definition conan_ops : list bytes :=
  Eval cbv delta [Verif.Gen.Operators.conan_ops] in Verif.Gen.Operators.conan_ops.

Definition is_operator (s : bytes) : bool := mem s conan_ops.

(* rebuildConstraintsFromParts; structural on the field list by looking one field ahead *)
Fixpoint rebuild (parts : list bytes) : list bytes :=
  match parts with
  | [] => []
  | p :: rest =>
      if is_operator p then
        match rest with
        | q :: rest' => (p ++ $" " ++ q) :: rebuild rest'
        | [] => []                        (* operator without version: skipped *)
        end
      else p :: rebuild rest
  end.

(* findConstraints on a trimmed, non-empty comma part *)
Definition find_constraints (s : bytes) : list bytes :=
  let fs := fields s in
  match fs with
  | [f0; _] => if is_operator f0 then [s] else rebuild fs
  | [_] => [s]
  | [] => [s]
  | _ => rebuild fs
  end.

(* splitConstraints on a trimmed OR part *)
Definition split_constraints (s : bytes) : list bytes :=
  flat_map (fun part =>
              let part := trim_space part in
              match part with [] => [] | _ => find_constraints part end)
           (split_c ","%char s).

(* \s of RE2: [\t\n\f\r ]  (no vertical tab, unlike unicode.IsSpace) *)
Definition re_space (c : ascii) : bool :=
  let n := code c in
  (n =? 9)%N || (n =? 10)%N || (n =? 12)%N || (n =? 13)%N || (n =? 32)%N.

(* \s*(\S+)\s*$ *)
Definition match_tail (s : bytes) : option bytes :=
  let s1 := drop_while re_space s in
  let v := take_while (fun c => negb (re_space c)) s1 in
  let rest := drop_while (fun c => negb (re_space c)) s1 in
  match v with
  | [] => None
  | _ => if forallb re_space rest then Some v else None
  end.

(* (>=|>|<=|<|~|\^|!=|=)? : first alternative after which the rest of the pattern matches *)
Fixpoint try_ops (ops : list bytes) (s : bytes) : option (bytes * bytes) :=
  match ops with
  | [] => None
  | op :: r =>
      if has_prefix op s then
        match match_tail (skipn (length op) s) with
        | Some v => Some (op, v)
        | None => try_ops r s
        end
      else try_ops r s
  end.

(* constraintPattern ^\s*(>=|>|<=|<|~|\^|!=|=)?\s*(\S+)\s*$ ; absent operator is "=" *)
Definition match_constraint (c : bytes) : option (bytes * bytes) :=
  let c1 := drop_while re_space c in
  match try_ops conan_ops c1 with
  | Some x => Some x
  | None => match match_tail c1 with
            | Some v => Some ($"=", v)
            | None => None
            end
  end.

Definition constraint := (bytes * bytes)%type.   (* operator, version text *)

Record range := { r_groups : list (list constraint); r_orig : bytes }.

Section Conan.
  Variable vok : bytes -> bool.
  Variable vcmp : bytes -> bytes -> comparison.

  Definition parse_constraint (c : bytes) : option constraint :=
    match match_constraint c with
    | Some (op, v) => if vok v then Some (op, v) else None
    | None => None
    end.

  Fixpoint parse_constraints (cs : list bytes) : option (list constraint) :=
    match cs with
    | [] => Some []
    | c :: r =>
        match trim_space c with
        | [] => parse_constraints r
        | c' =>
            match parse_constraint c' with
            | None => None
            | Some x => match parse_constraints r with
                        | Some xs => Some (x :: xs)
                        | None => None
                        end
            end
        end
    end.

  (* the loop over OR parts: empty parts and empty groups are skipped, the first error aborts *)
  Fixpoint parse_groups (ors : list bytes) : option (list (list constraint)) :=
    match ors with
    | [] => Some []
    | o :: r =>
        match trim_space o with
        | [] => parse_groups r
        | o' =>
            match parse_constraints (split_constraints o') with
            | None => None
            | Some g =>
                match parse_groups r with
                | None => None
                | Some gs => Some (match g with [] => gs | _ => g :: gs end)
                end
            end
        end
    end.

  Definition parse_range (s : bytes) : option range :=
    let t := trim_space (to_lower s) in
    match t with
    | [] => None
    | _ =>
        match parse_groups (split_sub $"||" t) with
        | Some [] => None
        | Some gs => Some {| r_groups := gs; r_orig := s |}
        | None => None
        end
    end.

  (* ---------- Contains ---------- *)

  Definition parts_of (v : bytes) : option (list bytes) :=
    option_map Version.c_parts (Version.parse_core (trim_space v)).

  (* version.parts[i], "0" when missing *)
  Definition part_at (i : nat) (ps : list bytes) : bytes := nth i ps $"0".

  Definition part_eq (a b : bytes) : bool :=
    match Version.natural_cmp a b with Eq => true | _ => false end.

  (* the first [n] parts of the version, padded with "0", equal those of the constraint *)
  Fixpoint parts_match (n : nat) (vp cp : list bytes) : bool :=
    match n with
    | O => true
    | S k =>
        part_eq (match vp with x :: _ => x | [] => $"0" end)
                (match cp with y :: _ => y | [] => $"0" end)
        && parts_match k (tl vp) (tl cp)
    end.

  Definition tilde_parts (vp cp : list bytes) : bool :=
    match cp with
    | [] => true
    | [_] => parts_match 1 vp cp
    | _ => parts_match 2 vp cp
    end.

  Definition caret_parts (vp cp : list bytes) : bool :=
    match cp with
    | [] => true
    | c0 :: cr =>
        if negb (part_eq c0 $"0") then parts_match 1 vp cp
        else match cr with
             | c1 :: _ =>
                 if negb (part_eq c1 $"0") then parts_match 2 vp cp
                 else parts_match (length cp - 1) vp cp
             | [] => parts_match (length cp - 1) vp cp
             end
    end.

  Definition ge_c (c : comparison) : bool := match c with Lt => false | _ => true end.

  Definition sat_constraint (v : bytes) (c : constraint) : bool :=
    let (op, b) := c in
    if beq op $"~" then
      ge_c (vcmp v b) &&
      match parts_of v, parts_of b with
      | Some vp, Some cp => tilde_parts vp cp
      | _, _ => false
      end
    else if beq op $"^" then
      ge_c (vcmp v b) &&
      match parts_of v, parts_of b with
      | Some vp, Some cp => caret_parts vp cp
      | _, _ => false
      end
    else sat (sem6 op) (vcmp v b).

  Definition contains (r : range) (v : bytes) : bool :=
    existsb (fun g => forallb (sat_constraint v) g) (r_groups r).

  Definition show (r : range) : bytes := r_orig r.
End Conan.
