(* Eco/Conan/RangeFacts.v — facts about the conan range model (Eco/Conan/Range.v).
   C02: a single comparator contains exactly what Compare says (arbitrary oracles).
   C20: membership respects Compare-equality.
   C05: ~ and ^ on numeric versions are the documented intervals (and where they are not). *)
From Coq Require Import Lia.
From Verif.Base Require Import Bytes BytesFacts GoNum Ord.
From Verif.Eco Require Import RangeCore RangeCoreFacts Iface.
From Verif.Eco.Conan Require Import Version VersionFacts DecFacts Range.
From Verif.Eco.Conan Require Entry.

(* ================= C02 ================= *)

(* bytes a bound may consist of to be "in scope": no whitespace, no separators of this grammar
   (comma, '|'), no upper-case letter (the range text is lower-cased as a whole) *)
Definition scope_c (c : ascii) : bool :=
  negb (is_space c) && negb (ceqb ","%char c) && negb (ceqb "|"%char c) && negb (is_upper c).

(* ... and the bound is non-empty and does not begin with an operator character *)
Definition bound_scope (a : bytes) : bool :=
  match a with [] => false | c :: _ => negb (opchar c) end && forallb scope_c a.

Lemma scope_c_facts c : scope_c c = true ->
  negb (is_space c) = true /\ negb (ceqb ","%char c) = true /\ negb (ceqb "|"%char c) = true
  /\ negb (is_upper c) = true /\ negb (re_space c) = true.
Proof.
  destruct c as [[] [] [] [] [] [] [] []]; vm_compute; intros H; try discriminate H; auto.
Qed.

Lemma opchar_scope c : opchar c = true -> scope_c c = true.
Proof.
  destruct c as [[] [] [] [] [] [] [] []]; vm_compute; intros H; try discriminate H; auto.
Qed.

Lemma conan_ops_ok : ops_ok conan_ops = true.
Proof. reflexivity. Qed.

Lemma cut_pipes_none s :
  forallb (fun c => negb (ceqb "|"%char c)) s = true -> cut $"||" s = None.
Proof.
  induction s as [|c s IH]; intros H; [reflexivity|].
  cbn [forallb] in H. apply andb_true_iff in H. destruct H as [Hc Hs].
  apply negb_true_iff in Hc.
  cbn [cut]. change (has_prefix $"||" (c :: s)) with (ceqb "|"%char c && has_prefix $"|" s).
  rewrite Hc. cbn [andb]. rewrite (IH Hs). reflexivity.
Qed.

Lemma split_sub_pipes_none s :
  forallb (fun c => negb (ceqb "|"%char c)) s = true -> split_sub $"||" s = [s].
Proof.
  intros H. unfold split_sub. cbn [split_sub_fuel]. rewrite (cut_pipes_none s H). reflexivity.
Qed.

Lemma fields_aux_no_space s : forall cur,
  no_space s = true ->
  fields_aux cur s = match rev cur ++ s with [] => [] | x => [x] end.
Proof.
  induction s as [|c s IH]; intros cur H.
  - cbn [fields_aux]. rewrite app_nil_r. destruct cur as [|x cur]; [reflexivity|].
    destruct (rev (x :: cur)) eqn:E; [|reflexivity].
    apply (f_equal (@length ascii)) in E. rewrite rev_length in E. discriminate.
  - unfold no_space in H. cbn [forallb] in H. apply andb_true_iff in H. destruct H as [Hc Hs].
    apply negb_true_iff in Hc. cbn [fields_aux]. rewrite Hc.
    rewrite (IH (c :: cur) Hs). cbn [rev]. rewrite <- app_assoc. reflexivity.
Qed.

Lemma fields_no_space s : s <> [] -> no_space s = true -> fields s = [s].
Proof.
  intros Hne H. unfold fields. rewrite (fields_aux_no_space s [] H). cbn [rev app].
  destruct s; [contradiction|reflexivity].
Qed.

Lemma try_ops_of_first_prefix ops s op rest v :
  first_prefix ops s = Some (op, rest) -> match_tail rest = Some v ->
  try_ops ops s = Some (op, v).
Proof.
  induction ops as [|o ops IH]; cbn [first_prefix try_ops]; [discriminate|].
  destruct (has_prefix o s); [|exact IH].
  intros H Hv. injection H as <- <-. rewrite Hv. reflexivity.
Qed.

Lemma try_ops_none ops s : first_prefix ops s = None -> try_ops ops s = None.
Proof.
  induction ops as [|o ops IH]; cbn [first_prefix try_ops]; [reflexivity|].
  destruct (has_prefix o s); [discriminate|exact IH].
Qed.

Lemma match_tail_plain a :
  a <> [] -> forallb (fun c => negb (re_space c)) a = true -> match_tail a = Some a.
Proof.
  intros Hne H. unfold match_tail.
  assert (D : drop_while re_space a = a).
  { destruct a as [|c a]; [reflexivity|]. cbn [forallb] in H. apply andb_true_iff in H.
    destruct H as [Hc _]. apply negb_true_iff in Hc. cbn [drop_while]. rewrite Hc. reflexivity. }
  rewrite D, (take_while_all _ _ H), (drop_while_all _ _ H).
  destruct a; [contradiction|reflexivity].
Qed.

(* what a text without whitespace / separators / upper case goes through on its way to
   parse_constraint *)
Lemma single_text_route vok s :
  s <> [] -> forallb scope_c s = true ->
  parse_range vok s =
  match parse_constraint vok s with
  | Some x => Some {| r_groups := [[x]]; r_orig := s |}
  | None => None
  end.
Proof.
  intros Hne H.
  assert (Hns : no_space s = true).
  { unfold no_space. eapply forallb_impl; [|exact H]. intros c Hc. apply scope_c_facts, Hc. }
  assert (Hup : forallb (fun c => negb (is_upper c)) s = true).
  { eapply forallb_impl; [|exact H]. intros c Hc. apply scope_c_facts, Hc. }
  assert (Hpi : forallb (fun c => negb (ceqb "|"%char c)) s = true).
  { eapply forallb_impl; [|exact H]. intros c Hc. apply scope_c_facts, Hc. }
  assert (Hco : no_c ","%char s = true).
  { unfold no_c. eapply forallb_impl; [|exact H]. intros c Hc. apply scope_c_facts, Hc. }
  destruct s as [|c0 s0]; [contradiction|].
  unfold parse_range. rewrite (to_lower_id _ Hup), (trim_space_no_space _ Hns).
  rewrite (split_sub_pipes_none _ Hpi).
  cbn [parse_groups]. rewrite (trim_space_no_space _ Hns). cbv match.
  unfold split_constraints. rewrite (split_c_no_sep _ _ Hco). cbn [flat_map].
  rewrite (trim_space_no_space _ Hns). cbv match. unfold find_constraints.
  rewrite (fields_no_space _ Hne Hns). cbv match. rewrite app_nil_r.
  cbn [parse_constraints]. rewrite (trim_space_no_space _ Hns). cbv match.
  destruct (parse_constraint vok (c0 :: s0)) as [x|]; reflexivity.
Qed.

Lemma parse_constraint_op vok op a :
  In op conan_ops -> bound_scope a = true -> vok a = true ->
  parse_constraint vok (op ++ a) = Some (op, a).
Proof.
  intros Hin Hsc Hv. unfold bound_scope in Hsc. apply andb_true_iff in Hsc.
  destruct Hsc as [Hhd Hall].
  assert (Hne : a <> []) by (destruct a; [discriminate|discriminate]).
  assert (Hhd' : match a with [] => True | c :: _ => opchar c = false end).
  { destruct a; [exact I|]. apply negb_true_iff. exact Hhd. }
  assert (Hre : forallb (fun c => negb (re_space c)) a = true).
  { eapply forallb_impl; [|exact Hall]. intros c Hc. apply scope_c_facts, Hc. }
  pose proof (ops_ok_opchars _ conan_ops_ok) as Hoc.
  assert (Hop : forallb opchar op = true) by (rewrite forallb_forall in Hoc; auto).
  unfold parse_constraint, match_constraint.
  assert (D : drop_while re_space (op ++ a) = op ++ a).
  { destruct op as [|o op'].
    - cbn [app]. destruct a as [|c a']; [reflexivity|]. cbn [forallb] in Hre.
      apply andb_true_iff in Hre. destruct Hre as [Hc _]. apply negb_true_iff in Hc.
      cbn [drop_while]. rewrite Hc. reflexivity.
    - cbn [forallb] in Hop. apply andb_true_iff in Hop. destruct Hop as [Ho _].
      apply opchar_scope, scope_c_facts in Ho. destruct Ho as (_ & _ & _ & _ & Ho).
      apply negb_true_iff in Ho. cbn [app drop_while]. rewrite Ho. reflexivity. }
  rewrite D.
  rewrite (try_ops_of_first_prefix conan_ops (op ++ a) op a a).
  - rewrite Hv. reflexivity.
  - apply first_prefix_hit; [exact conan_ops_ok|exact Hin|exact Hhd'].
  - apply match_tail_plain; assumption.
Qed.

Lemma parse_constraint_bare vok a :
  bound_scope a = true -> vok a = true ->
  parse_constraint vok a = Some ($"=", a).
Proof.
  intros Hsc Hv. unfold bound_scope in Hsc. apply andb_true_iff in Hsc.
  destruct Hsc as [Hhd Hall].
  assert (Hne : a <> []) by (destruct a; [discriminate|discriminate]).
  assert (Hhd' : match a with [] => True | c :: _ => opchar c = false end).
  { destruct a; [exact I|]. apply negb_true_iff. exact Hhd. }
  assert (Hre : forallb (fun c => negb (re_space c)) a = true).
  { eapply forallb_impl; [|exact Hall]. intros c Hc. apply scope_c_facts, Hc. }
  unfold parse_constraint, match_constraint.
  assert (D : drop_while re_space a = a).
  { destruct a as [|c a']; [reflexivity|]. cbn [forallb] in Hre.
    apply andb_true_iff in Hre. destruct Hre as [Hc _]. apply negb_true_iff in Hc.
    cbn [drop_while]. rewrite Hc. reflexivity. }
  rewrite D. rewrite try_ops_none.
  - rewrite (match_tail_plain a Hne Hre), Hv. reflexivity.
  - apply first_prefix_none; [|exact Hhd'].
    pose proof conan_ops_ok as H. unfold ops_ok in H. apply andb_true_iff in H. tauto.
Qed.

Lemma scope_app op a :
  forallb opchar op = true -> forallb scope_c a = true -> forallb scope_c (op ++ a) = true.
Proof.
  intros Ho Ha. rewrite forallb_app, Ha, andb_true_r.
  eapply forallb_impl; [|exact Ho]. apply opchar_scope.
Qed.

Notation r_contains_conan := (r_contains Conan.Entry.r).

(* C02, operator form: [op ++ a] contains v iff the constraint (op, a) holds of v *)
Theorem conan_c02_op vok vcmp op a v :
  In op conan_ops -> bound_scope a = true -> vok a = true -> vok v = true ->
  r_contains_conan vok vcmp (op ++ a) v = Some (sat_constraint vcmp v (op, a)).
Proof.
  intros Hin Hsc Ha Hv.
  pose proof (ops_ok_opchars _ conan_ops_ok) as Hoc.
  assert (Hop : forallb opchar op = true) by (rewrite forallb_forall in Hoc; auto).
  assert (Hall : forallb scope_c (op ++ a) = true).
  { apply scope_app; [exact Hop|]. unfold bound_scope in Hsc. apply andb_true_iff in Hsc. tauto. }
  assert (Hne : op ++ a <> []).
  { destruct a; [discriminate Hsc|]. destruct op; discriminate. }
  cbn [r_contains Conan.Entry.r].
  rewrite (single_text_route vok _ Hne Hall), (parse_constraint_op vok op a Hin Hsc Ha), Hv.
  unfold contains. cbn [r_groups existsb forallb]. rewrite andb_true_r, orb_false_r. reflexivity.
Qed.

(* the six comparators: exactly what Compare says *)
Theorem conan_c02 vok vcmp op a v :
  In op [ $">="; $">"; $"<="; $"<"; $"!="; $"=" ] ->
  bound_scope a = true -> vok a = true -> vok v = true ->
  r_contains_conan vok vcmp (op ++ a) v = Some (sat (sem6 op) (vcmp v a)).
Proof.
  intros Hin Hsc Ha Hv.
  assert (Hin' : In op conan_ops).
  { cbn [In] in Hin. unfold conan_ops. cbn [In].
    repeat destruct Hin as [<-|Hin]; auto 10; contradiction. }
  rewrite (conan_c02_op vok vcmp op a v Hin' Hsc Ha Hv).
  cbn [In] in Hin. repeat destruct Hin as [<-|Hin]; try reflexivity; contradiction.
Qed.

(* a bare version is "=" *)
Theorem conan_c02_bare vok vcmp a v :
  bound_scope a = true -> vok a = true -> vok v = true ->
  r_contains_conan vok vcmp a v = Some (sat CEq (vcmp v a)).
Proof.
  intros Hsc Ha Hv.
  assert (Hall : forallb scope_c a = true).
  { unfold bound_scope in Hsc. apply andb_true_iff in Hsc. tauto. }
  assert (Hne : a <> []) by (destruct a; [discriminate Hsc|discriminate]).
  cbn [r_contains Conan.Entry.r].
  rewrite (single_text_route vok _ Hne Hall), (parse_constraint_bare vok a Hsc Ha), Hv.
  unfold contains. cbn [r_groups existsb forallb]. rewrite andb_true_r, orb_false_r. reflexivity.
Qed.

(* ================= C20 ================= *)

Lemma lex_pad_hd_tl {A} (pad : A) cmp (l1 l2 : list A) :
  cmp pad pad = Eq ->
  lex_pad pad cmp l1 l2 =
  thenc (cmp (hd pad l1) (hd pad l2)) (lex_pad pad cmp (tl l1) (tl l2)).
Proof.
  intros R. destruct l1 as [|x l1]; destruct l2 as [|y l2]; cbn [lex_pad lex_pad_l hd tl].
  - rewrite R. reflexivity.
  - destruct l2; reflexivity.
  - reflexivity.
  - reflexivity.
Qed.

Lemma thenc_eq c1 c2 : thenc c1 c2 = Eq -> c1 = Eq /\ c2 = Eq.
Proof. destruct c1; cbn; intros H; try discriminate; auto. Qed.

Lemma parts_match_hd_tl n vp cp :
  parts_match (S n) vp cp =
  part_eq (hd $"0" vp) (hd $"0" cp) && parts_match n (tl vp) (tl cp).
Proof. destruct vp; destruct cp; reflexivity. Qed.

(* the first parts of Compare-equal part lists match the same constraints *)
Lemma parts_match_eq n : forall pa pb cp,
  parts_cmp pa pb = Eq -> parts_match n pa cp = parts_match n pb cp.
Proof.
  induction n as [|n IH]; intros pa pb cp H; [reflexivity|].
  unfold parts_cmp in H. rewrite lex_pad_hd_tl in H by apply (tp_refl natural_cmp_tp).
  apply thenc_eq in H. destruct H as [H1 H2].
  rewrite !parts_match_hd_tl. rewrite (IH (tl pa) (tl pb) (tl cp) H2).
  unfold part_eq. rewrite (tp_eq_l natural_cmp_tp _ _ (hd $"0" cp) H1). reflexivity.
Qed.

Lemma tilde_parts_eq pa pb cp : parts_cmp pa pb = Eq -> tilde_parts pa cp = tilde_parts pb cp.
Proof.
  intros H. unfold tilde_parts. destruct cp as [|c0 [|c1 cr]]; auto using parts_match_eq.
Qed.

Lemma caret_parts_eq pa pb cp : parts_cmp pa pb = Eq -> caret_parts pa cp = caret_parts pb cp.
Proof.
  intros H. unfold caret_parts. destruct cp as [|c0 cr]; [reflexivity|].
  destruct (negb (part_eq c0 $"0")); [apply parts_match_eq, H|].
  destruct cr as [|c1 cr]; [apply parts_match_eq, H|].
  destruct (negb (part_eq c1 $"0")); apply parts_match_eq, H.
Qed.

Definition plain_op (op : bytes) : bool := negb (beq op $"~") && negb (beq op $"^").
Definition plain_range (r : range) : bool :=
  forallb (forallb (fun c : constraint => plain_op (fst c))) (r_groups r).

Section C20.
  Variable vcmp : bytes -> bytes -> comparison.
  Variables a b : bytes.
  (* a and b are indistinguishable by Compare (true when vcmp is a total preorder and
     vcmp a b = Eq) *)
  Hypothesis Hab : forall c, vcmp a c = vcmp b c.

  Lemma sat_constraint_eq_plain c :
    plain_op (fst c) = true -> sat_constraint vcmp a c = sat_constraint vcmp b c.
  Proof.
    destruct c as [op bnd]. unfold plain_op. cbn [fst]. intros H.
    apply andb_true_iff in H. destruct H as [H1 H2].
    apply negb_true_iff in H1, H2. unfold sat_constraint. rewrite H1, H2, Hab. reflexivity.
  Qed.

  Lemma sat_constraint_eq_full pa pb c :
    parts_of a = Some pa -> parts_of b = Some pb -> parts_cmp pa pb = Eq ->
    sat_constraint vcmp a c = sat_constraint vcmp b c.
  Proof.
    intros Ha Hb H. destruct c as [op bnd]. unfold sat_constraint.
    rewrite Ha, Hb, Hab.
    destruct (beq op $"~").
    - destruct (parts_of bnd); [|reflexivity]. rewrite (tilde_parts_eq pa pb _ H). reflexivity.
    - destruct (beq op $"^"); [|reflexivity].
      destruct (parts_of bnd); [|reflexivity]. rewrite (caret_parts_eq pa pb _ H). reflexivity.
  Qed.

  Lemma contains_ext r :
    (forall c, In c (concat (r_groups r)) -> sat_constraint vcmp a c = sat_constraint vcmp b c) ->
    contains vcmp r a = contains vcmp r b.
  Proof.
    unfold contains. induction (r_groups r) as [|g gs IH]; intros H; [reflexivity|].
    cbn [existsb]. f_equal.
    - clear IH. induction g as [|c g IHg]; [reflexivity|].
      cbn [forallb]. f_equal.
      + apply H. cbn [concat]. apply in_or_app. left. left. reflexivity.
      + apply IHg. intros c' Hc'. apply H. cbn [concat] in *. apply in_app_or in Hc'.
        apply in_or_app. destruct Hc' as [Hc'|Hc']; [left; right; exact Hc'|right; exact Hc'].
    - apply IH. intros c Hc. apply H. cbn [concat]. apply in_or_app. right. exact Hc.
  Qed.

  Theorem c20_plain_gen r : plain_range r = true -> contains vcmp r a = contains vcmp r b.
  Proof.
    intros Hp. apply contains_ext. intros c Hc. apply sat_constraint_eq_plain.
    unfold plain_range in Hp. rewrite forallb_forall in Hp.
    apply in_concat in Hc. destruct Hc as (g & Hg & Hc).
    specialize (Hp g Hg). rewrite forallb_forall in Hp. apply (Hp c Hc).
  Qed.

  Theorem c20_full_gen r pa pb :
    parts_of a = Some pa -> parts_of b = Some pb -> parts_cmp pa pb = Eq ->
    contains vcmp r a = contains vcmp r b.
  Proof.
    intros Ha Hb H. apply contains_ext. intros c _. apply (sat_constraint_eq_full pa pb); assumption.
  Qed.
End C20.

(* C20 for an ARBITRARY total-preorder oracle: ranges built from the six comparators *)
Theorem conan_c20_plain vcmp r a b :
  TotalPreorder vcmp -> plain_range r = true ->
  vcmp a b = Eq -> contains vcmp r a = contains vcmp r b.
Proof.
  intros TP Hp H. apply c20_plain_gen; [|exact Hp]. intros c. apply (tp_eq_l TP), H.
Qed.

(* ... and with ~ / ^ constraints, which read the main parts of the version: any
   total-preorder oracle for which Compare-equal versions have Compare-equal main parts *)
Theorem conan_c20 vcmp r a b pa pb :
  TotalPreorder vcmp ->
  parts_of a = Some pa -> parts_of b = Some pb -> parts_cmp pa pb = Eq ->
  vcmp a b = Eq -> contains vcmp r a = contains vcmp r b.
Proof.
  intros TP Ha Hb Hp H. apply (c20_full_gen vcmp a b) with (pa := pa) (pb := pb); auto.
  intros c. apply (tp_eq_l TP), H.
Qed.

(* the model's own version layer as the oracle: every range, all accepted versions *)
Definition m_vok : bytes -> bool := self_vok Conan.Entry.entry.
Definition m_vcmp : bytes -> bytes -> comparison := self_vcmp Conan.Entry.entry.

Lemma m_vok_core s : m_vok s = true -> exists c, parse_core (trim_space s) = Some c.
Proof.
  unfold m_vok, self_vok. cbn. unfold VLayer.parse.
  destruct (parse_core (trim_space s)) as [c|]; [eauto|discriminate].
Qed.

Lemma m_vcmp_core x y cx cy :
  parse_core (trim_space x) = Some cx -> parse_core (trim_space y) = Some cy ->
  m_vcmp x y = cmp_core cx cy.
Proof.
  intros Hx Hy. unfold m_vcmp, self_vcmp. cbn. unfold VLayer.parse. rewrite Hx, Hy. reflexivity.
Qed.

Lemma m_vcmp_none_r x y : parse_core (trim_space y) = None -> m_vcmp x y = Eq.
Proof.
  intros Hy. unfold m_vcmp, self_vcmp. cbn. unfold VLayer.parse. rewrite Hy.
  destruct (parse_core (trim_space x)); reflexivity.
Qed.

Theorem conan_c20_self r a b :
  m_vok a = true -> m_vok b = true ->
  m_vcmp a b = Eq -> contains m_vcmp r a = contains m_vcmp r b.
Proof.
  intros Ha Hb H.
  destruct (m_vok_core a Ha) as [ca Hca]. destruct (m_vok_core b Hb) as [cb Hcb].
  rewrite (m_vcmp_core a b ca cb Hca Hcb) in H.
  apply (c20_full_gen m_vcmp a b) with (pa := c_parts ca) (pb := c_parts cb).
  - intros c. destruct (parse_core (trim_space c)) as [cc|] eqn:Hc.
    + rewrite (m_vcmp_core a c ca cc Hca Hc), (m_vcmp_core b c cb cc Hcb Hc).
      apply (tp_eq_l cmp_core_tp), H.
    + rewrite !m_vcmp_none_r by exact Hc. reflexivity.
  - unfold parts_of. rewrite Hca. reflexivity.
  - unfold parts_of. rewrite Hcb. reflexivity.
  - unfold cmp_core, lexc, cmp_on in H. apply thenc_eq in H. tauto.
Qed.

(* ================= C05: ~ and ^ on numeric versions ================= *)
Local Open Scope N_scope.

(* the tuple with its last component incremented *)
Fixpoint incr_last (l : list N) : list N :=
  match l with
  | [] => []
  | [y] => [y + 1]
  | y :: l' => y :: incr_last l'
  end.

(* the first n components, missing ones read as 0, are equal *)
Fixpoint prefix_eqb (n : nat) (tv tc : list N) : bool :=
  match n with
  | O => true
  | S k => (hd 0 tv =? hd 0 tc) && prefix_eqb k (tl tv) (tl tc)
  end.

Notation ncmp := (lex_pad 0 N.compare).
Definition small (t : list N) : Prop := Forall (fun n => n < two63) t.

Lemma small_tl t : small t -> small (tl t).
Proof. destruct t; [auto|]. intros H. inversion H; assumption. Qed.

Lemma small_hd t : small t -> hd 0 t < two63.
Proof. destruct t; [reflexivity|]. intros H. inversion H; assumption. Qed.

Lemma part_eq_dec a b : a < two63 -> b < two63 -> part_eq (dec a) (dec b) = (a =? b).
Proof.
  intros Ha Hb. unfold part_eq. rewrite natural_cmp_dec by assumption.
  destruct (N.compare_spec a b) as [->|H|H].
  - symmetry. apply N.eqb_refl.
  - symmetry. apply N.eqb_neq. lia.
  - symmetry. apply N.eqb_neq. lia.
Qed.

Lemma hd_map_dec t : hd $"0" (map dec t) = dec (hd 0 t).
Proof. destruct t; reflexivity. Qed.

Lemma tl_map_dec t : tl (map dec t) = map dec (tl t).
Proof. destruct t; reflexivity. Qed.

Lemma parts_match_dec n : forall tv tc,
  small tv -> small tc -> parts_match n (map dec tv) (map dec tc) = prefix_eqb n tv tc.
Proof.
  induction n as [|n IH]; intros tv tc Hv Hc; [reflexivity|].
  rewrite parts_match_hd_tl, !hd_map_dec, !tl_map_dec. cbn [prefix_eqb].
  rewrite part_eq_dec by (apply small_hd; assumption).
  rewrite IH by (apply small_tl; assumption). reflexivity.
Qed.

Lemma ncmp_nil_ge l : ncmp l [] <> Lt.
Proof.
  induction l as [|x l IH]; [discriminate|].
  cbn [lex_pad]. destruct (N.compare_spec x 0) as [->|H|H]; cbn [thenc]; [exact IH|lia|discriminate].
Qed.

Lemma ncmp_hd_tl l1 l2 :
  ncmp l1 l2 = thenc (hd 0 l1 ?= hd 0 l2) (ncmp (tl l1) (tl l2)).
Proof. apply lex_pad_hd_tl. reflexivity. Qed.

(* given tc <= tv: the first n+1 components agree iff tv is below tc's (n+1)-prefix with its
   last component incremented *)
Lemma prefix_interval n : forall tv tc,
  (n < length tc)%nat -> ncmp tv tc <> Lt ->
  (prefix_eqb (S n) tv tc = true <-> ncmp tv (incr_last (firstn (S n) tc)) = Lt).
Proof.
  induction n as [|n IH]; intros tv tc Hlen Hlow.
  - destruct tc as [|y tc']; [cbn in Hlen; lia|].
    rewrite ncmp_hd_tl in Hlow. cbn [hd tl] in Hlow.
    cbn [firstn incr_last prefix_eqb hd tl]. rewrite ncmp_hd_tl. cbn [hd tl].
    rewrite andb_true_r. pose proof (ncmp_nil_ge (tl tv)) as Hnil.
    split.
    + intros E. apply N.eqb_eq in E. rewrite E.
      assert (L : (y ?= y + 1) = Lt) by (apply N.compare_lt_iff; lia). rewrite L. reflexivity.
    + intros H. apply N.eqb_eq.
      destruct (N.compare_spec (hd 0 tv) y) as [E|E|E]; [exact E|exfalso; apply Hlow; reflexivity|].
      destruct (N.compare_spec (hd 0 tv) (y + 1)) as [E2|E2|E2]; cbn [thenc] in H;
        [contradiction|lia|discriminate].
  - destruct tc as [|y tc']; [cbn in Hlen; lia|].
    destruct tc' as [|y' tc'']; [cbn in Hlen; lia|].
    rewrite ncmp_hd_tl in Hlow. cbn [hd tl] in Hlow.
    assert (Hlen' : (n < length (y' :: tc''))%nat) by (cbn [length] in *; lia).
    change (prefix_eqb (S (S n)) tv (y :: y' :: tc''))
      with ((hd 0 tv =? y) && prefix_eqb (S n) (tl tv) (y' :: tc'')).
    assert (F : incr_last (firstn (S (S n)) (y :: y' :: tc''))
                = y :: incr_last (firstn (S n) (y' :: tc''))) by reflexivity.
    rewrite F, ncmp_hd_tl. cbn [hd tl].
    destruct (N.compare_spec (hd 0 tv) y) as [E|E|E]; cbn [thenc] in *.
    + rewrite E, N.eqb_refl. cbn [andb]. apply IH; assumption.
    + exfalso. apply Hlow. reflexivity.
    + split; [|discriminate]. intros H. apply andb_true_iff in H. destruct H as [H _].
      apply N.eqb_eq in H. lia.
Qed.

Definition is_lt (c : comparison) : bool := match c with Lt => true | _ => false end.

Lemma prefix_interval_b n tv tc :
  (n < length tc)%nat -> ncmp tv tc <> Lt ->
  prefix_eqb (S n) tv tc = is_lt (ncmp tv (incr_last (firstn (S n) tc))).
Proof.
  intros Hlen Hlow. pose proof (prefix_interval n tv tc Hlen Hlow) as [H1 H2].
  destruct (prefix_eqb (S n) tv tc).
  - rewrite H1; reflexivity.
  - destruct (ncmp tv (incr_last (firstn (S n) tc))); try reflexivity.
    discriminate H2. reflexivity.
Qed.

(* ---- tilde ---- *)

(* ~X := [X, X+1) ;  ~X.Y[.Z...] := [X.Y[.Z...], X.(Y+1)) *)
Definition tilde_upper (tc : list N) : list N :=
  match tc with
  | [x] => [x + 1]
  | x :: y :: _ => [x; y + 1]
  | [] => []
  end.

Theorem tilde_interval tv tc :
  tc <> [] -> small tv -> small tc -> ncmp tv tc <> Lt ->
  tilde_parts (map dec tv) (map dec tc) = is_lt (ncmp tv (tilde_upper tc)).
Proof.
  intros Hne Hv Hc Hlow. destruct tc as [|x [|y tr]]; [contradiction| |].
  - change (tilde_parts (map dec tv) (map dec [x])) with (parts_match 1 (map dec tv) (map dec [x])).
    rewrite parts_match_dec by assumption.
    apply (prefix_interval_b 0 tv [x]); [cbn; lia|exact Hlow].
  - change (tilde_parts (map dec tv) (map dec (x :: y :: tr)))
      with (parts_match 2 (map dec tv) (map dec (x :: y :: tr))).
    rewrite parts_match_dec by assumption.
    apply (prefix_interval_b 1 tv (x :: y :: tr)); [cbn; lia|exact Hlow].
Qed.

(* ---- caret ---- *)

(* how many leading components ^ pins down *)
Definition caret_n (tc : list N) : nat :=
  match tc with
  | [] => O
  | x :: r =>
      if negb (x =? 0) then 1%nat
      else match r with
           | y :: _ => if negb (y =? 0) then 2%nat else (length tc - 1)%nat
           | [] => (length tc - 1)%nat
           end
  end.

Lemma caret_parts_dec tv tc :
  small tv -> small tc ->
  caret_parts (map dec tv) (map dec tc) = prefix_eqb (caret_n tc) tv tc.
Proof.
  intros Hv Hc. rewrite <- parts_match_dec by assumption.
  assert (Z0 : 0 < two63) by reflexivity.
  destruct tc as [|x r]; [reflexivity|].
  inversion Hc as [|? ? Hx Hr]; subst.
  unfold caret_parts, caret_n. cbn [map]. change $"0" with (dec 0).
  rewrite part_eq_dec by assumption.
  destruct (negb (x =? 0)); [reflexivity|].
  destruct r as [|y r']; cbn [map].
  - reflexivity.
  - inversion Hr as [|? ? Hy Hr']; subst. rewrite part_eq_dec by assumption.
    destruct (negb (y =? 0)); [reflexivity|].
    change (dec x :: dec y :: map dec r') with (map dec (x :: y :: r')).
    rewrite !map_length. reflexivity.
Qed.

Lemma caret_n_le tc : tc <> [] -> (caret_n tc <= length tc)%nat /\ (caret_n tc = length tc -> caret_n tc <> O).
Proof.
  intros Hne. destruct tc as [|x r]; [contradiction|]. unfold caret_n.
  destruct (negb (x =? 0)); [cbn [length]; lia|].
  destruct r as [|y r']; [cbn [length]; lia|].
  destruct (negb (y =? 0)); cbn [length]; lia.
Qed.

(* ^X.. (X<>0) := [.., X+1) ;  ^0.Y.. (Y<>0) := [.., 0.(Y+1)) ;
   ^0.0...0.Z (n components) := [.., prefix of n-1 components with its last incremented)
   — which is [0.0.Z, 0.1) for ^0.0.Z, [0.0, 1) for ^0.0 and NO upper bound at all for ^0 *)
Definition caret_upper (tc : list N) : option (list N) :=
  match caret_n tc with
  | O => None
  | n => Some (incr_last (firstn n tc))
  end.

Theorem caret_interval tv tc :
  tc <> [] -> small tv -> small tc -> ncmp tv tc <> Lt ->
  caret_parts (map dec tv) (map dec tc) =
  match caret_upper tc with
  | Some u => is_lt (ncmp tv u)
  | None => true
  end.
Proof.
  intros Hne Hv Hc Hlow. rewrite caret_parts_dec by assumption.
  unfold caret_upper. destruct (caret_n tc) as [|n] eqn:E; [reflexivity|].
  apply prefix_interval_b; [|exact Hlow].
  pose proof (caret_n_le tc Hne) as [H _]. lia.
Qed.

(* the documented cases *)
Example caret_upper_123 : caret_upper [1; 2; 3] = Some [2]. Proof. reflexivity. Qed.
Example caret_upper_023 : caret_upper [0; 2; 3] = Some [0; 3]. Proof. reflexivity. Qed.
Example caret_upper_003 : caret_upper [0; 0; 3] = Some [0; 1]. Proof. reflexivity. Qed.
(* ... and the surprising ones *)
Example caret_upper_00 : caret_upper [0; 0] = Some [1]. Proof. reflexivity. Qed.
Example caret_upper_0 : caret_upper [0] = None. Proof. reflexivity. Qed.

(* ---- end to end, on range and version TEXTS, the model's own version layer as oracle ---- *)

Definition numv (t : list N) : bytes := join ["."%char] (map dec t).

Lemma digit_scope c : is_digit c = true ->
  scope_c c = true /\ opchar c = false /\ negb (is_space c) = true.
Proof.
  destruct c as [[] [] [] [] [] [] [] []]; vm_compute; intros H; try discriminate H; auto.
Qed.

Lemma numv_all (q : ascii -> bool) t :
  q "."%char = true -> (forall c, is_digit c = true -> q c = true) -> forallb q (numv t) = true.
Proof.
  intros Hdot Hq. unfold numv. apply forallb_join; [cbn; rewrite Hdot; reflexivity|].
  rewrite forallb_forall. intros x Hx. apply in_map_iff in Hx. destruct Hx as (n & <- & _).
  eapply forallb_impl; [exact Hq|]. apply dec_spec.
Qed.

Lemma numv_hd t : t <> [] -> exists c s, numv t = c :: s /\ is_digit c = true.
Proof.
  intros Hne. destruct t as [|x t]; [contradiction|].
  destruct (dec_spec x) as (Hn & Hd & _). unfold numv. cbn [map].
  destruct (dec x) as [|c s] eqn:E; [contradiction|].
  cbn [forallb] in Hd. apply andb_true_iff in Hd. destruct Hd as [Hc _].
  destruct t as [|y t].
  - exists c, s. cbn [join]. auto.
  - exists c. eexists. split; [|exact Hc].
    change (join ["."%char] ((c :: s) :: map dec (y :: t)))
      with ((c :: s) ++ ["."%char] ++ join ["."%char] (map dec (y :: t))).
    cbn [app]. reflexivity.
Qed.

Lemma numv_scope t : t <> [] -> bound_scope (numv t) = true.
Proof.
  intros Hne. destruct (numv_hd t Hne) as (c & s & E & Hc).
  unfold bound_scope. apply andb_true_iff. split.
  - rewrite E. apply negb_true_iff. apply digit_scope, Hc.
  - apply numv_all; [reflexivity|]. intros d Hd. apply digit_scope, Hd.
Qed.

Lemma numv_trim t : trim_space (numv t) = numv t.
Proof.
  apply trim_space_no_space. unfold no_space. apply numv_all; [reflexivity|].
  intros d Hd. apply digit_scope, Hd.
Qed.

Lemma numv_core t : t <> [] ->
  parse_core (trim_space (numv t)) = Some {| c_parts := map dec t; c_pre := None |}.
Proof.
  intros Hne. rewrite numv_trim. unfold numv. apply parse_main; [|apply main_ok_dec].
  destruct t; [contradiction|discriminate].
Qed.

Lemma m_vok_numv t : t <> [] -> m_vok (numv t) = true.
Proof.
  intros Hne. unfold m_vok, self_vok. cbn. unfold VLayer.parse. rewrite (numv_core t Hne). reflexivity.
Qed.

Lemma m_vcmp_numv tv tc :
  tv <> [] -> tc <> [] -> small tv -> small tc -> m_vcmp (numv tv) (numv tc) = ncmp tv tc.
Proof.
  intros Hv Hc Sv Sc.
  rewrite (m_vcmp_core _ _ _ _ (numv_core tv Hv) (numv_core tc Hc)).
  unfold cmp_core, lexc, cmp_on. cbn [c_parts c_pre].
  rewrite (c03_numeric_pad tv tc Sv Sc). destruct (ncmp tv tc); reflexivity.
Qed.

Lemma parts_of_numv t : t <> [] -> parts_of (numv t) = Some (map dec t).
Proof. intros Hne. unfold parts_of. rewrite (numv_core t Hne). reflexivity. Qed.

Lemma ge_c_is_lt c : ge_c c = negb (is_lt c).
Proof. destruct c; reflexivity. Qed.

(* C05 for ~ : "~tc" contains the numeric version tv iff tc <= tv < tilde_upper tc *)
Theorem conan_c05_tilde tv tc :
  tv <> [] -> tc <> [] -> small tv -> small tc ->
  r_contains_conan m_vok m_vcmp ($"~" ++ numv tc) (numv tv)
  = Some (negb (is_lt (ncmp tv tc)) && is_lt (ncmp tv (tilde_upper tc))).
Proof.
  intros Hv Hc Sv Sc.
  rewrite conan_c02_op;
    [|unfold conan_ops; cbn [In]; auto 10|apply numv_scope, Hc|apply m_vok_numv, Hc|apply m_vok_numv, Hv].
  f_equal. unfold sat_constraint. change (beq $"~" $"~") with true. cbv iota.
  rewrite (m_vcmp_numv tv tc Hv Hc Sv Sc), (parts_of_numv tv Hv), (parts_of_numv tc Hc), ge_c_is_lt.
  destruct (ncmp tv tc) eqn:E; cbn [is_lt negb andb]; try reflexivity;
    apply tilde_interval; auto; rewrite E; discriminate.
Qed.

(* C05 for ^ : "^tc" contains the numeric version tv iff tc <= tv and tv < caret_upper tc
   (no upper bound when caret_upper is None, i.e. for ^0) *)
Theorem conan_c05_caret tv tc :
  tv <> [] -> tc <> [] -> small tv -> small tc ->
  r_contains_conan m_vok m_vcmp ($"^" ++ numv tc) (numv tv)
  = Some (negb (is_lt (ncmp tv tc)) &&
          match caret_upper tc with Some u => is_lt (ncmp tv u) | None => true end).
Proof.
  intros Hv Hc Sv Sc.
  rewrite conan_c02_op;
    [|unfold conan_ops; cbn [In]; auto 10|apply numv_scope, Hc|apply m_vok_numv, Hc|apply m_vok_numv, Hv].
  f_equal. unfold sat_constraint. change (beq $"^" $"~") with false. change (beq $"^" $"^") with true.
  cbv iota.
  rewrite (m_vcmp_numv tv tc Hv Hc Sv Sc), (parts_of_numv tv Hv), (parts_of_numv tc Hc), ge_c_is_lt.
  destruct (ncmp tv tc) eqn:E; cbn [is_lt negb andb]; try reflexivity;
    apply caret_interval; auto; rewrite E; discriminate.
Qed.

(* ^0 has no upper bound: it contains every numeric version *)
Corollary caret_zero_contains_all tv :
  tv <> [] -> small tv ->
  r_contains_conan m_vok m_vcmp $"^0" (numv tv) = Some true.
Proof.
  intros Hv Sv. change $"^0" with ($"^" ++ numv [0]).
  rewrite conan_c05_caret; auto; [|discriminate|repeat constructor].
  change (caret_upper [0]) with (@None (list N)). rewrite andb_true_r.
  assert (H : ncmp tv [0] <> Lt).
  { rewrite ncmp_hd_tl. cbn [hd tl]. pose proof (ncmp_nil_ge (tl tv)).
    destruct (N.compare_spec (hd 0 tv) 0); cbn [thenc]; [assumption|lia|discriminate]. }
  destruct (ncmp tv [0]); [reflexivity|contradiction|reflexivity].
Qed.

(* ================= C02, several constraints: AND = intersection, || = union ================= *)

Definition ctext (c : constraint) : bytes := fst c ++ snd c.

Definition cons_ok (vok : bytes -> bool) (c : constraint) : Prop :=
  In (fst c) conan_ops /\ bound_scope (snd c) = true /\ vok (snd c) = true.

Definition pipe_free (s : bytes) : bool := forallb (fun c => negb (ceqb "|"%char c)) s.
Definition upper_free (s : bytes) : bool := forallb (fun c => negb (is_upper c)) s.

(* first and last byte are not whitespace *)
Definition ends_ok (s : bytes) : bool :=
  match s with [] => false | c :: _ => negb (is_space c) end
  && match rev s with [] => false | c :: _ => negb (is_space c) end.

Lemma trim_space_ends s : ends_ok s = true -> trim_space s = s.
Proof.
  intros H. unfold ends_ok in H. apply andb_true_iff in H. destruct H as [H1 H2].
  unfold trim_space.
  assert (L : trim_left s = s).
  { unfold trim_left. destruct s as [|c s]; [reflexivity|].
    apply negb_true_iff in H1. cbn [drop_while]. rewrite H1. reflexivity. }
  rewrite L. unfold trim_right.
  assert (R : drop_while is_space (rev s) = rev s).
  { destruct (rev s) as [|c t]; [reflexivity|].
    apply negb_true_iff in H2. cbn [drop_while]. rewrite H2. reflexivity. }
  rewrite R. apply rev_involutive.
Qed.

Lemma ends_ok_ne s : ends_ok s = true -> s <> [].
Proof. destruct s; [discriminate|discriminate]. Qed.

Lemma ends_ok_no_space s : s <> [] -> no_space s = true -> ends_ok s = true.
Proof.
  intros Hne H. unfold ends_ok. apply andb_true_iff. split.
  - destruct s as [|c s]; [contradiction|]. unfold no_space in H. cbn [forallb] in H.
    apply andb_true_iff in H. tauto.
  - unfold no_space in H. rewrite <- forallb_rev in H.
    destruct (rev s) as [|c t] eqn:E.
    + apply (f_equal (@length ascii)) in E. rewrite rev_length in E.
      destruct s; [contradiction|discriminate].
    + cbn [forallb] in H. apply andb_true_iff in H. tauto.
Qed.

Lemma ends_ok_join sep l :
  l <> [] -> forallb ends_ok l = true -> ends_ok (join sep l) = true.
Proof.
  induction l as [|x l IH]; intros Hne H; [contradiction|].
  cbn [forallb] in H. apply andb_true_iff in H. destruct H as [Hx Hl].
  destruct l as [|y l]; [exact Hx|].
  specialize (IH ltac:(discriminate) Hl).
  change (join sep (x :: y :: l)) with (x ++ sep ++ join sep (y :: l)).
  set (J := join sep (y :: l)) in *.
  unfold ends_ok in *. apply andb_true_iff in Hx, IH. destruct Hx as [Hx1 _]. destruct IH as [_ HJ].
  apply andb_true_iff. split.
  - destruct x as [|c x]; [discriminate|]. exact Hx1.
  - rewrite !rev_app_distr. destruct (rev J) as [|d t]; [discriminate|]. exact HJ.
Qed.

(* ---- "||" ---- *)

Lemma cut_pipes_app x rest :
  pipe_free x = true -> cut $"||" (x ++ $"||" ++ rest) = Some (x, rest).
Proof.
  induction x as [|c x IH]; intros H; [reflexivity|].
  unfold pipe_free in H. cbn [forallb] in H. apply andb_true_iff in H. destruct H as [Hc Hx].
  apply negb_true_iff in Hc.
  change ((c :: x) ++ $"||" ++ rest) with (c :: (x ++ $"||" ++ rest)).
  cbn [cut].
  change (has_prefix $"||" (c :: x ++ $"||" ++ rest))
    with (ceqb "|"%char c && has_prefix $"|" (x ++ $"||" ++ rest)).
  rewrite Hc. cbn [andb]. rewrite (IH Hx). reflexivity.
Qed.

Lemma split_sub_fuel_join l : forall fuel,
  l <> [] -> forallb pipe_free l = true -> (length l <= fuel)%nat ->
  split_sub_fuel fuel $"||" (join $"||" l) = l.
Proof.
  induction l as [|x l IH]; intros fuel Hne H Hf; [contradiction|].
  cbn [forallb] in H. apply andb_true_iff in H. destruct H as [Hx Hl].
  destruct fuel as [|k]; [cbn in Hf; lia|].
  destruct l as [|y l].
  - cbn [join split_sub_fuel]. rewrite (cut_pipes_none x Hx). reflexivity.
  - change (join $"||" (x :: y :: l)) with (x ++ $"||" ++ join $"||" (y :: l)).
    cbn [split_sub_fuel]. rewrite (cut_pipes_app x _ Hx).
    rewrite IH; [reflexivity|discriminate|exact Hl|cbn [length] in *; lia].
Qed.

Lemma join_len (sep : bytes) l :
  sep <> [] -> l <> [] -> (length l <= S (length (join sep l)))%nat.
Proof.
  intros Hs. assert (1 <= length sep)%nat by (destruct sep; [contradiction|cbn; lia]).
  induction l as [|x l IH]; intros Hne; [contradiction|].
  destruct l as [|y l]; [cbn; lia|].
  change (join sep (x :: y :: l)) with (x ++ sep ++ join sep (y :: l)).
  rewrite !app_length. specialize (IH ltac:(discriminate)). cbn [length] in *. lia.
Qed.

Lemma split_sub_join l :
  l <> [] -> forallb pipe_free l = true -> split_sub $"||" (join $"||" l) = l.
Proof.
  intros Hne H. unfold split_sub. apply split_sub_fuel_join; auto. apply join_len; [discriminate|exact Hne].
Qed.

(* ---- the parser on well-formed pieces ---- *)

Lemma parse_constraints_cons vok c r :
  ends_ok c = true ->
  parse_constraints vok (c :: r) =
  match parse_constraint vok c with
  | None => None
  | Some x => match parse_constraints vok r with Some xs => Some (x :: xs) | None => None end
  end.
Proof.
  intros H. pose proof (trim_space_ends c H) as T. destruct c as [|a c]; [discriminate|].
  cbn [parse_constraints]. rewrite T. reflexivity.
Qed.

Lemma parse_groups_cons vok t r :
  ends_ok t = true ->
  parse_groups vok (t :: r) =
  match parse_constraints vok (split_constraints t) with
  | None => None
  | Some g => match parse_groups vok r with
              | None => None
              | Some gs => Some (match g with [] => gs | _ => g :: gs end)
              end
  end.
Proof.
  intros H. pose proof (trim_space_ends t H) as T. destruct t as [|a t]; [discriminate|].
  cbn [parse_groups]. rewrite T. reflexivity.
Qed.

Lemma parse_range_trimmed vok s :
  upper_free s = true -> ends_ok s = true ->
  parse_range vok s =
  match parse_groups vok (split_sub $"||" s) with
  | Some [] => None
  | Some gs => Some {| r_groups := gs; r_orig := s |}
  | None => None
  end.
Proof.
  intros Hu He. unfold parse_range. rewrite (to_lower_id _ Hu), (trim_space_ends _ He).
  destruct s; [discriminate|reflexivity].
Qed.

Lemma ctext_scope vok c : cons_ok vok c -> forallb scope_c (ctext c) = true /\ ctext c <> [].
Proof.
  intros (Hin & Hsc & _). pose proof (ops_ok_opchars _ conan_ops_ok) as Hoc.
  assert (Hop : forallb opchar (fst c) = true) by (rewrite forallb_forall in Hoc; auto).
  unfold bound_scope in Hsc. apply andb_true_iff in Hsc. destruct Hsc as [Hh Ha].
  split; [apply scope_app; assumption|].
  unfold ctext. destruct (snd c); [discriminate|]. destruct (fst c); discriminate.
Qed.

Lemma scope_no_space s : forallb scope_c s = true -> no_space s = true.
Proof. intros H. unfold no_space. eapply forallb_impl; [|exact H]. intros c Hc. apply scope_c_facts, Hc. Qed.

Lemma ctext_ends vok c : cons_ok vok c -> ends_ok (ctext c) = true.
Proof.
  intros H. destruct (ctext_scope vok c H) as [Hs Hne].
  apply ends_ok_no_space; [exact Hne|apply scope_no_space, Hs].
Qed.

Lemma parse_constraints_texts vok g :
  Forall (cons_ok vok) g -> parse_constraints vok (map ctext g) = Some g.
Proof.
  induction g as [|c g IH]; intros H; [reflexivity|].
  inversion H as [|? ? Hc Hg]; subst. cbn [map].
  rewrite parse_constraints_cons by (apply (ctext_ends vok), Hc).
  destruct Hc as (Hin & Hsc & Hv). unfold ctext at 1.
  rewrite (parse_constraint_op vok _ _ Hin Hsc Hv), (IH Hg).
  destruct c; reflexivity.
Qed.

(* a group text: splits into the constraint texts of g *)
Record group_ok (vok : bytes -> bool) (t : bytes) (g : list constraint) : Prop := {
  go_ends : ends_ok t = true;
  go_split : split_constraints t = map ctext g;
  go_ne : g <> [];
  go_cons : Forall (cons_ok vok) g
}.

Lemma parse_groups_texts vok ts gs :
  Forall2 (group_ok vok) ts gs -> parse_groups vok ts = Some gs.
Proof.
  induction 1 as [|t g ts gs Hg _ IH]; [reflexivity|].
  destruct Hg as [He Hs Hne Hc].
  rewrite (parse_groups_cons vok t ts He), Hs, (parse_constraints_texts vok g Hc), IH.
  destruct g; [contradiction|reflexivity].
Qed.

(* C02 for whole ranges: OR of ANDs of single constraints *)
Theorem conan_c02_groups vok vcmp ts gs v :
  ts <> [] -> Forall2 (group_ok vok) ts gs ->
  forallb pipe_free ts = true -> forallb upper_free ts = true -> vok v = true ->
  r_contains_conan vok vcmp (join $"||" ts) v
  = Some (existsb (fun g => forallb (sat_constraint vcmp v) g) gs).
Proof.
  intros Hne HF Hp Hu Hv.
  assert (He : forallb ends_ok ts = true).
  { rewrite forallb_forall. intros t Ht. clear - HF Ht.
    induction HF as [|t' g ts gs Hg _ IH]; [contradiction|].
    destruct Ht as [<-|Ht]; [apply Hg|auto]. }
  cbn [r_contains Conan.Entry.r].
  rewrite parse_range_trimmed;
    [|apply forallb_join; [reflexivity|exact Hu]|apply ends_ok_join; assumption].
  rewrite (split_sub_join ts Hne Hp), (parse_groups_texts vok ts gs HF), Hv.
  destruct gs as [|g gs]; [inversion HF; subst; contradiction|reflexivity].
Qed.

(* ---- comma-separated groups ---- *)

Lemma flat_map_single {A} (f : A -> list A) l :
  (forall x, In x l -> f x = [x]) -> flat_map f l = l.
Proof.
  induction l as [|x l IH]; intros H; [reflexivity|].
  cbn [flat_map]. rewrite (H x (or_introl eq_refl)), IH; [reflexivity|].
  intros y Hy. apply H. right. exact Hy.
Qed.

Lemma find_constraints_plain t : t <> [] -> no_space t = true -> find_constraints t = [t].
Proof. intros Hne H. unfold find_constraints. rewrite (fields_no_space t Hne H). reflexivity. Qed.

Lemma join_ne sep (l : list bytes) : l <> [] -> (forall x, In x l -> x <> []) -> join sep l <> [].
Proof.
  destruct l as [|x l]; [contradiction|]. intros _ H.
  assert (Hx : x <> []) by (apply H; left; reflexivity).
  destruct l as [|y l]; [exact Hx|].
  change (join sep (x :: y :: l)) with (x ++ sep ++ join sep (y :: l)).
  destruct x; [contradiction|discriminate].
Qed.

Lemma texts_facts vok g : Forall (cons_ok vok) g ->
  forallb (forallb scope_c) (map ctext g) = true /\ (forall x, In x (map ctext g) -> x <> []).
Proof.
  intros H. split.
  - rewrite forallb_forall. intros x Hx. apply in_map_iff in Hx. destruct Hx as (c & <- & Hc).
    rewrite Forall_forall in H. apply (ctext_scope vok c (H c Hc)).
  - intros x Hx. apply in_map_iff in Hx. destruct Hx as (c & <- & Hc).
    rewrite Forall_forall in H. apply (ctext_scope vok c (H c Hc)).
Qed.

Lemma group_ok_comma vok g :
  g <> [] -> Forall (cons_ok vok) g -> group_ok vok (join $"," (map ctext g)) g.
Proof.
  intros Hne H. destruct (texts_facts vok g H) as [Hsc Hnes].
  assert (Hmne : map ctext g <> []) by (destruct g; [contradiction|discriminate]).
  assert (Hall : no_space (join $"," (map ctext g)) = true).
  { unfold no_space. apply forallb_join; [reflexivity|].
    eapply forallb_impl; [|exact Hsc]. apply scope_no_space. }
  constructor; auto.
  - apply ends_ok_no_space; [apply join_ne; assumption|exact Hall].
  - unfold split_constraints.
    rewrite split_c_join; [|exact Hmne|].
    + apply flat_map_single. intros x Hx.
      rewrite forallb_forall in Hsc. pose proof (scope_no_space x (Hsc x Hx)) as Hns.
      rewrite (trim_space_no_space x Hns). pose proof (Hnes x Hx) as Hx0.
      destruct x as [|c x]; [contradiction|]. apply find_constraints_plain; [discriminate|exact Hns].
    + eapply forallb_impl; [|exact Hsc]. intros x Hx. unfold no_c.
      eapply forallb_impl; [|exact Hx]. intros c Hc. apply scope_c_facts, Hc.
Qed.

(* ---- whitespace-separated groups (the operator/operand re-pairing path) ---- *)

Lemma fields_aux_app x : forall cur rest,
  no_space x = true -> fields_aux cur (x ++ rest) = fields_aux (rev x ++ cur) rest.
Proof.
  induction x as [|c x IH]; intros cur rest H; [reflexivity|].
  unfold no_space in H. cbn [forallb] in H. apply andb_true_iff in H. destruct H as [Hc Hx].
  apply negb_true_iff in Hc. cbn [app fields_aux]. rewrite Hc, (IH _ _ Hx).
  cbn [rev]. rewrite <- app_assoc. reflexivity.
Qed.

Lemma fields_join_space l :
  (forall x, In x l -> x <> []) -> forallb no_space l = true -> fields (join $" " l) = l.
Proof.
  induction l as [|x l IH]; intros Hne H; [reflexivity|].
  cbn [forallb] in H. apply andb_true_iff in H. destruct H as [Hx Hl].
  assert (Hx0 : x <> []) by (apply Hne; left; reflexivity).
  destruct l as [|y l].
  - cbn [join]. apply fields_no_space; assumption.
  - change (join $" " (x :: y :: l)) with (x ++ $" " ++ join $" " (y :: l)).
    unfold fields. rewrite (fields_aux_app x [] _ Hx). rewrite app_nil_r.
    change ($" " ++ join $" " (y :: l)) with (" "%char :: join $" " (y :: l)).
    cbn [fields_aux]. change (is_space " "%char) with true. cbv iota.
    destruct (rev x) as [|d t] eqn:E.
    + apply (f_equal (@length ascii)) in E. rewrite rev_length in E.
      destruct x; [contradiction|discriminate].
    + rewrite <- E, rev_involutive. f_equal. apply IH; [|exact Hl].
      intros z Hz. apply Hne. right. exact Hz.
Qed.

Lemma rebuild_id l : forallb (fun p => negb (is_operator p)) l = true -> rebuild l = l.
Proof.
  induction l as [|p l IH]; intros H; [reflexivity|].
  cbn [forallb] in H. apply andb_true_iff in H. destruct H as [Hp Hl].
  apply negb_true_iff in Hp. cbn [rebuild]. rewrite Hp, (IH Hl). reflexivity.
Qed.

Lemma ctext_not_operator vok c : cons_ok vok c -> is_operator (ctext c) = false.
Proof.
  intros (Hin & Hsc & _). unfold is_operator, mem.
  destruct (existsb (beq (ctext c)) conan_ops) eqn:E; [|reflexivity]. exfalso.
  apply existsb_exists in E. destruct E as (o & Ho & Hb). apply beq_eq in Hb.
  pose proof (ops_ok_opchars _ conan_ops_ok) as Hoc. rewrite forallb_forall in Hoc.
  pose proof (Hoc o Ho) as Hoo. rewrite <- Hb in Hoo. unfold ctext in Hoo.
  rewrite forallb_app in Hoo. apply andb_true_iff in Hoo. destruct Hoo as [_ Ha].
  unfold bound_scope in Hsc. apply andb_true_iff in Hsc. destruct Hsc as [Hh _].
  destruct (snd c) as [|x a]; [discriminate|]. cbn [forallb] in Ha.
  apply andb_true_iff in Ha. destruct Ha as [Hx _]. rewrite Hx in Hh. discriminate.
Qed.

Lemma group_ok_space vok g :
  g <> [] -> Forall (cons_ok vok) g -> group_ok vok (join $" " (map ctext g)) g.
Proof.
  intros Hne H. destruct (texts_facts vok g H) as [Hsc Hnes].
  assert (Hmne : map ctext g <> []) by (destruct g; [contradiction|discriminate]).
  assert (Hns : forallb no_space (map ctext g) = true).
  { eapply forallb_impl; [|exact Hsc]. apply scope_no_space. }
  assert (Hends : forallb ends_ok (map ctext g) = true).
  { rewrite forallb_forall. intros x Hx. apply ends_ok_no_space; [apply Hnes, Hx|].
    rewrite forallb_forall in Hns. apply Hns, Hx. }
  assert (He : ends_ok (join $" " (map ctext g)) = true) by (apply ends_ok_join; assumption).
  assert (Hnop : forallb (fun p => negb (is_operator p)) (map ctext g) = true).
  { rewrite forallb_forall. intros x Hx. apply in_map_iff in Hx. destruct Hx as (c & <- & Hc).
    rewrite Forall_forall in H. rewrite (ctext_not_operator vok c (H c Hc)). reflexivity. }
  constructor; auto.
  unfold split_constraints. rewrite split_c_no_sep.
  - cbn [flat_map]. rewrite app_nil_r, (trim_space_ends _ He).
    pose proof (ends_ok_ne _ He) as HJ.
    destruct (join $" " (map ctext g)) as [|j0 J] eqn:EJ; [contradiction|]. rewrite <- EJ.
    unfold find_constraints. rewrite (fields_join_space _ Hnes Hns).
    destruct (map ctext g) as [|t0 [|t1 [|t2 tr]]] eqn:Eg.
    + contradiction.
    + cbn [join] in EJ. rewrite EJ. reflexivity.
    + cbn [forallb] in Hnop. apply andb_true_iff in Hnop. destruct Hnop as [H0 Hr].
      apply negb_true_iff in H0. rewrite H0. apply rebuild_id. cbn [forallb]. rewrite H0. exact Hr.
    + apply rebuild_id. exact Hnop.
  - unfold no_c. apply forallb_join; [reflexivity|].
    eapply forallb_impl; [|exact Hsc]. intros x Hx.
    eapply forallb_impl; [|exact Hx]. intros c Hc. apply scope_c_facts, Hc.
Qed.

(* the two-sided range, both spellings: AND is intersection *)
Corollary conan_c02_and vok vcmp sep c1 c2 v :
  sep = $"," \/ sep = $" " ->
  cons_ok vok c1 -> cons_ok vok c2 -> vok v = true ->
  r_contains_conan vok vcmp (ctext c1 ++ sep ++ ctext c2) v
  = Some (sat_constraint vcmp v c1 && sat_constraint vcmp v c2).
Proof.
  intros Hsep H1 H2 Hv.
  assert (G : group_ok vok (ctext c1 ++ sep ++ ctext c2) [c1; c2]).
  { destruct Hsep as [-> | ->].
    - apply (group_ok_comma vok [c1; c2]); [discriminate|constructor; [assumption|constructor; [assumption|constructor]]].
    - apply (group_ok_space vok [c1; c2]); [discriminate|constructor; [assumption|constructor; [assumption|constructor]]]. }
  destruct (ctext_scope vok c1 H1) as [S1 _]. destruct (ctext_scope vok c2 H2) as [S2 _].
  change (ctext c1 ++ sep ++ ctext c2) with (join $"||" [ctext c1 ++ sep ++ ctext c2]).
  rewrite (conan_c02_groups vok vcmp _ [[c1; c2]]); auto.
  - cbn [existsb forallb]. rewrite andb_true_r, orb_false_r. reflexivity.
  - discriminate.
  - cbn [forallb]. rewrite andb_true_r. unfold pipe_free. rewrite !forallb_app.
    assert (P : forall s, forallb scope_c s = true -> forallb (fun c => negb (ceqb "|"%char c)) s = true).
    { intros s Hs. eapply forallb_impl; [|exact Hs]. intros c Hc. apply scope_c_facts, Hc. }
    rewrite (P _ S1), (P _ S2). destruct Hsep as [-> | ->]; reflexivity.
  - cbn [forallb]. rewrite andb_true_r. unfold upper_free. rewrite !forallb_app.
    assert (P : forall s, forallb scope_c s = true -> forallb (fun c => negb (is_upper c)) s = true).
    { intros s Hs. eapply forallb_impl; [|exact Hs]. intros c Hc. apply scope_c_facts, Hc. }
    rewrite (P _ S1), (P _ S2). destruct Hsep as [-> | ->]; reflexivity.
Qed.

(* || is union *)
Corollary conan_c02_or vok vcmp c1 c2 v :
  cons_ok vok c1 -> cons_ok vok c2 -> vok v = true ->
  r_contains_conan vok vcmp (ctext c1 ++ $"||" ++ ctext c2) v
  = Some (sat_constraint vcmp v c1 || sat_constraint vcmp v c2).
Proof.
  intros H1 H2 Hv.
  destruct (ctext_scope vok c1 H1) as [S1 _]. destruct (ctext_scope vok c2 H2) as [S2 _].
  assert (P : forall s, forallb scope_c s = true -> pipe_free s = true /\ upper_free s = true).
  { intros s Hs. split; (eapply forallb_impl; [|exact Hs]); intros c Hc; apply scope_c_facts, Hc. }
  change (ctext c1 ++ $"||" ++ ctext c2) with (join $"||" [ctext c1; ctext c2]).
  rewrite (conan_c02_groups vok vcmp _ [[c1]; [c2]]); auto.
  - cbn [existsb forallb]. rewrite !andb_true_r, orb_false_r. reflexivity.
  - discriminate.
  - constructor; [|constructor; [|constructor]].
    + apply (group_ok_comma vok [c1]); [discriminate|constructor; [assumption|constructor]].
    + apply (group_ok_comma vok [c2]); [discriminate|constructor; [assumption|constructor]].
  - cbn [forallb]. rewrite (proj1 (P _ S1)), (proj1 (P _ S2)). reflexivity.
  - cbn [forallb]. rewrite (proj2 (P _ S1)), (proj2 (P _ S2)). reflexivity.
Qed.

(* ================= witnesses (vm_compute) ================= *)

Notation rc := (r_contains_conan m_vok m_vcmp).
Notation rs := (r_show Conan.Entry.r m_vok).

(* ^0 / ^0.0 are wider than the documented "left-most non-zero digit" rule *)
Example w_caret0 : rc $"^0" $"5.0.0" = Some true. Proof. vm_compute. reflexivity. Qed.
Example w_caret00 : rc $"^0.0" $"0.5" = Some true. Proof. vm_compute. reflexivity. Qed.
Example w_caret000 : rc $"^0.0.0" $"0.0.9" = Some true. Proof. vm_compute. reflexivity. Qed.
(* a comparator range lets in pre-releases of its excluded upper bound, ~ and ^ do not *)
Example w_pre_upper : rc $">=1.0 <2.0" $"2.0-alpha" = Some true. Proof. vm_compute. reflexivity. Qed.
Example w_pre_tilde : rc $"~1.2" $"1.3-alpha" = Some false. Proof. vm_compute. reflexivity. Qed.
(* ~X.Y is not the interval [X.Y, X.(Y+1)) once parts are alphanumeric *)
Example w_tilde_alnum :
  rc $">=1.2 <1.3" $"1.2a" = Some true /\ rc $"~1.2" $"1.2a" = Some false.
Proof. vm_compute. auto. Qed.
(* operator/operand re-pairing: a trailing operator is dropped, a doubled one is an error *)
Example w_trailing_op : rs $"1.0 >=" = Some $"1.0 >=" /\ rc $"1.0 >=" $"1.0" = Some true.
Proof. vm_compute. auto. Qed.
Example w_double_op : rs $">= >= 1.0" = None. Proof. vm_compute. reflexivity. Qed.
(* strings.Fields splits at a vertical tab, the regexp's \s does not know it *)
Example w_vtab :
  rs ($">=" ++ [chr 11] ++ $"1.0") = Some ($">=" ++ [chr 11] ++ $"1.0") /\
  rs ($">=" ++ [chr 11] ++ $" 1.0") = None /\ rs $">=  1.0" = Some $">=  1.0".
Proof. vm_compute. auto. Qed.
(* Atoi saturates: distinct huge numbers compare equal *)
Example w_saturate :
  v_cmp Conan.Entry.v $"9223372036854775807" $"99999999999999999999" = Some Eq.
Proof. vm_compute. reflexivity. Qed.

Print Assumptions conan_c02.
Print Assumptions conan_c02_bare.
Print Assumptions conan_c02_groups.
Print Assumptions conan_c02_and.
Print Assumptions conan_c02_or.
Print Assumptions conan_c20.
Print Assumptions conan_c20_plain.
Print Assumptions conan_c20_self.
Print Assumptions conan_c05_tilde.
Print Assumptions conan_c05_caret.
Print Assumptions caret_zero_contains_all.
