(* Eco/Conan/Version.v — model of pkg/ecosystem/conan/version.go (definitions only).

   NewVersion does TrimSpace(ToLower(s)); on ASCII ToLower and TrimSpace commute, so the core is
   computed from the lower-cased trimmed text (VLayer shape, String() = untrimmed input). *)
From Verif.Base Require Import Bytes GoNum.
From Verif.Eco Require Import VLayer.
Local Open Scope N_scope.

(* ---------- the parsed structure ---------- *)

(* parts: the dot-separated main parts (texts);  pre: the dot-separated pre-release identifiers,
   None when there is no pre-release ("" in Go);  build metadata is validated and dropped
   (Compare never looks at it). *)
Record core := { c_parts : list bytes; c_pre : option (list bytes) }.

(* ---------- parsing ---------- *)

Definition is_part_c (c : ascii) : bool := is_digit c || is_lower c.          (* [0-9a-z] *)
Definition is_ident_c (c : ascii) : bool := is_part_c c || ceqb c "-"%char.   (* [0-9a-z\-] *)

Definition nonempty_all (p : ascii -> bool) (s : bytes) : bool :=
  match s with [] => false | _ => forallb p s end.

(* main group: one or more [0-9a-z]+ joined by dots *)
Definition main_ok (parts : list bytes) : bool := forallb (nonempty_all is_part_c) parts.

(* validateIdentifiers after the regexp: every identifier is [0-9a-z\-]+ and a purely numeric
   identifier longer than one byte does not start with '0' *)
Definition ident_ok (p : bytes) : bool :=
  nonempty_all is_ident_c p
  && negb (nonempty_digits p && (1 <? length p)%nat
           && match p with c :: _ => ceqb c "0"%char | [] => false end).
Definition idents_ok (parts : list bytes) : bool := forallb ident_ok parts.

(* versionPattern: ^ MAIN (?: - IDS )? (?: \+ IDS )? $  with MAIN = dot-joined [0-9a-z]+ and
   IDS = dot-joined [0-9a-z\-]+ .
   The main group contains neither '-' nor '+', the pre-release group no '+': the main group ends
   at the first '-' or '+', the pre-release group at the first '+', the build group at the end. *)
Definition is_pm (c : ascii) : bool := ceqb c "-"%char || ceqb c "+"%char.
Definition is_plus (c : ascii) : bool := ceqb c "+"%char.

Definition parse_lower (t : bytes) : option core :=
  let main := take_while (fun c => negb (is_pm c)) t in
  let rest := drop_while (fun c => negb (is_pm c)) t in
  let parts := split_c "."%char main in
  if main_ok parts then
    match rest with
    | [] => Some {| c_parts := parts; c_pre := None |}
    | c :: rest' =>
        if ceqb c "-"%char then
          let pre := take_while (fun c => negb (is_plus c)) rest' in
          let rest2 := drop_while (fun c => negb (is_plus c)) rest' in
          let pres := split_c "."%char pre in
          if idents_ok pres then
            match rest2 with
            | [] => Some {| c_parts := parts; c_pre := Some pres |}
            | _ :: build =>
                if idents_ok (split_c "."%char build)
                then Some {| c_parts := parts; c_pre := Some pres |}
                else None
            end
          else None
        else (* '+' *)
          if idents_ok (split_c "."%char rest')
          then Some {| c_parts := parts; c_pre := None |}
          else None
    end
  else None.

Definition parse_core (t : bytes) : option core := parse_lower (to_lower t).

(* ---------- comparison ---------- *)

(* naturalCompare: leading digit run (as a saturating Atoi) and remainder.  A part without a
   leading number sorts after every part with one. *)
Definition nat_key (p : bytes) : option Z * bytes :=
  let num := take_while is_digit p in
  let rem := drop_while is_digit p in
  (match num with [] => None | _ => Some (atoi_sat num) end, rem).

Definition nat_key_cmp : (option Z * bytes) -> (option Z * bytes) -> comparison :=
  lex2 (opt_last Z.compare) bytes_cmp.

Definition natural_cmp (a b : bytes) : comparison := cmp_on nat_key nat_key_cmp a b.

(* compareVersionParts: missing parts are "0" *)
Definition parts_cmp : list bytes -> list bytes -> comparison := lex_pad $"0" natural_cmp.

(* one pre-release identifier: numeric ones (saturating Atoi) before non-numeric ones (bytewise) *)
Definition ident_key (p : bytes) : bool * (Z * bytes) :=
  if nonempty_digits p then (false, (atoi_sat p, [])) else (true, (0%Z, p)).
Definition ident_cmp : bytes -> bytes -> comparison :=
  cmp_on ident_key (lex2 bool_cmp (lex2 Z.compare bytes_cmp)).

(* comparePrerelease: no pre-release is greatest; identifiers left to right, fewer first *)
Definition pre_cmp : option (list bytes) -> option (list bytes) -> comparison :=
  opt_last (lex_short ident_cmp).

Definition cmp_core : core -> core -> comparison :=
  lexc (cmp_on c_parts parts_cmp) (cmp_on c_pre pre_cmp).

Definition raw_orig := true.

Definition ver := VLayer.ver core.
Definition parse : bytes -> option ver := VLayer.parse parse_core raw_orig.
Definition cmp : ver -> ver -> comparison := VLayer.cmp cmp_core.
Definition show : ver -> bytes := VLayer.show.
