(* Eco/Conan/VersionFacts.v — facts about the conan version model. *)
From Coq Require Import Lia.
From Verif.Base Require Import Bytes BytesFacts GoNum Ord.
From Verif.Eco Require Import VLayer VLayerFacts.
From Verif.Eco.Conan Require Import Version.

(* ---------- C01: Compare is a total preorder ---------- *)

Lemma natural_cmp_tp : TotalPreorder natural_cmp.
Proof.
  apply TP_on, TP_lex2; [apply TP_opt_last, TP_Z|apply TP_bytes_cmp].
Qed.

Lemma parts_cmp_tp : TotalPreorder parts_cmp.
Proof. apply TP_lex_pad, natural_cmp_tp. Qed.

Lemma ident_cmp_tp : TotalPreorder ident_cmp.
Proof.
  apply TP_on, TP_lex2; [apply TP_bool|apply TP_lex2; [apply TP_Z|apply TP_bytes_cmp]].
Qed.

Lemma pre_cmp_tp : TotalPreorder pre_cmp.
Proof. apply TP_opt_last, TP_lex_short, ident_cmp_tp. Qed.

Lemma cmp_core_tp : TotalPreorder cmp_core.
Proof.
  apply TP_lexc; apply TP_on; [apply parts_cmp_tp|apply pre_cmp_tp].
Qed.

Lemma cmp_tp : TotalPreorder cmp.
Proof. apply VLayerFacts.cmp_tp, cmp_core_tp. Qed.

(* ---------- C03: what the parser reads, and how numeric tuples / markers compare ---------- *)
From Verif.Eco.Conan Require Import DecFacts.
Local Open Scope N_scope.

Lemma part_c_facts c : is_part_c c = true ->
  negb (is_upper c) = true /\ negb (is_pm c) = true /\ negb (ceqb "."%char c) = true
  /\ is_ident_c c = true.
Proof.
  destruct c as [[] [] [] [] [] [] [] []]; vm_compute; intros H; try discriminate H; auto.
Qed.

Lemma ident_c_facts c : is_ident_c c = true ->
  negb (is_upper c) = true /\ negb (is_plus c) = true /\ negb (ceqb "."%char c) = true.
Proof.
  destruct c as [[] [] [] [] [] [] [] []]; vm_compute; intros H; try discriminate H; auto.
Qed.

Lemma digit_part_c c : is_digit c = true -> is_part_c c = true.
Proof. unfold is_part_c. intros ->. reflexivity. Qed.

Lemma nonempty_all_forallb p s : nonempty_all p s = true -> forallb p s = true.
Proof. destruct s; [discriminate|auto]. Qed.

Lemma main_ok_all (q : ascii -> bool) ps :
  (forall c, is_part_c c = true -> q c = true) ->
  main_ok ps = true -> forallb (forallb q) ps = true.
Proof.
  intros I H. unfold main_ok in H. eapply forallb_impl; [|exact H].
  intros x Hx. apply nonempty_all_forallb in Hx. eapply forallb_impl; eauto.
Qed.

Lemma ident_ok_all (q : ascii -> bool) ids :
  (forall c, is_ident_c c = true -> q c = true) ->
  idents_ok ids = true -> forallb (forallb q) ids = true.
Proof.
  intros I H. unfold idents_ok in H. eapply forallb_impl; [|exact H].
  intros x Hx. unfold ident_ok in Hx. apply andb_true_iff in Hx. destruct Hx as [Hx _].
  apply nonempty_all_forallb in Hx. eapply forallb_impl; eauto.
Qed.

Notation dot := ["."%char] (only parsing).

(* the main text alone *)
Lemma main_text_facts ps : main_ok ps = true ->
  let t := join dot ps in
  forallb (fun c => negb (is_upper c)) t = true /\
  forallb (fun c => negb (is_pm c)) t = true /\
  forallb (no_c "."%char) ps = true.
Proof.
  intros H t. repeat split.
  - apply forallb_join; [reflexivity|]. apply main_ok_all; [|exact H]. intros c Hc. apply part_c_facts, Hc.
  - apply forallb_join; [reflexivity|]. apply main_ok_all; [|exact H]. intros c Hc. apply part_c_facts, Hc.
  - apply (main_ok_all (fun c => negb (ceqb "."%char c))); [|exact H]. intros c Hc. apply part_c_facts, Hc.
Qed.

Lemma idents_text_facts ids : idents_ok ids = true ->
  let t := join dot ids in
  forallb (fun c => negb (is_upper c)) t = true /\
  forallb (fun c => negb (is_plus c)) t = true /\
  forallb (no_c "."%char) ids = true.
Proof.
  intros H t. repeat split.
  - apply forallb_join; [reflexivity|]. apply ident_ok_all; [|exact H]. intros c Hc. apply ident_c_facts, Hc.
  - apply forallb_join; [reflexivity|]. apply ident_ok_all; [|exact H]. intros c Hc. apply ident_c_facts, Hc.
  - apply (ident_ok_all (fun c => negb (ceqb "."%char c))); [|exact H]. intros c Hc. apply ident_c_facts, Hc.
Qed.

Lemma to_lower_app a b : to_lower (a ++ b) = to_lower a ++ to_lower b.
Proof. apply map_app. Qed.

(* MAJOR[.MINOR[.PATCH[.EXTRA...]]] : any number of parts >= 1 is accepted *)
Theorem parse_main ps :
  ps <> [] -> main_ok ps = true ->
  parse_core (join dot ps) = Some {| c_parts := ps; c_pre := None |}.
Proof.
  intros Hne H. destruct (main_text_facts ps H) as (Hu & Hpm & Hdot).
  unfold parse_core. rewrite (to_lower_id _ Hu). unfold parse_lower.
  rewrite (take_while_all _ _ Hpm), (drop_while_all _ _ Hpm).
  rewrite (split_c_join _ _ Hne Hdot), H. reflexivity.
Qed.

(* ... -PRERELEASE *)
Theorem parse_main_pre ps ids :
  ps <> [] -> main_ok ps = true -> ids <> [] -> idents_ok ids = true ->
  parse_core (join dot ps ++ "-"%char :: join dot ids)
  = Some {| c_parts := ps; c_pre := Some ids |}.
Proof.
  intros Hne H Hine Hi.
  destruct (main_text_facts ps H) as (Hu & Hpm & Hdot).
  destruct (idents_text_facts ids Hi) as (Hiu & Hipl & Hidot).
  unfold parse_core.
  change ("-"%char :: join dot ids) with (["-"%char] ++ join dot ids).
  rewrite !to_lower_app, (to_lower_id _ Hu), (to_lower_id _ Hiu).
  change (to_lower ["-"%char]) with ["-"%char]. cbn [app].
  unfold parse_lower.
  rewrite (take_while_app_stop _ _ _ _ Hpm) by reflexivity.
  rewrite (drop_while_app_stop _ _ _ _ Hpm) by reflexivity.
  rewrite (split_c_join _ _ Hne Hdot), H.
  change (ceqb "-"%char "-"%char) with true. cbv iota.
  rewrite (take_while_all _ _ Hipl), (drop_while_all _ _ Hipl).
  rewrite (split_c_join _ _ Hine Hidot), Hi. reflexivity.
Qed.

(* ... +BUILD : accepted, and the core is that of the text without the build metadata *)
Theorem parse_main_build ps bs :
  ps <> [] -> main_ok ps = true -> bs <> [] -> idents_ok bs = true ->
  parse_core (join dot ps ++ "+"%char :: join dot bs)
  = Some {| c_parts := ps; c_pre := None |}.
Proof.
  intros Hne H Hbne Hb.
  destruct (main_text_facts ps H) as (Hu & Hpm & Hdot).
  destruct (idents_text_facts bs Hb) as (Hbu & _ & Hbdot).
  unfold parse_core.
  change ("+"%char :: join dot bs) with (["+"%char] ++ join dot bs).
  rewrite !to_lower_app, (to_lower_id _ Hu), (to_lower_id _ Hbu).
  change (to_lower ["+"%char]) with ["+"%char]. cbn [app].
  unfold parse_lower.
  rewrite (take_while_app_stop _ _ _ _ Hpm) by reflexivity.
  rewrite (drop_while_app_stop _ _ _ _ Hpm) by reflexivity.
  rewrite (split_c_join _ _ Hne Hdot), H.
  change (ceqb "+"%char "-"%char) with false. cbv iota.
  rewrite (split_c_join _ _ Hbne Hbdot), Hb. reflexivity.
Qed.

Theorem parse_main_pre_build ps ids bs :
  ps <> [] -> main_ok ps = true -> ids <> [] -> idents_ok ids = true ->
  bs <> [] -> idents_ok bs = true ->
  parse_core (join dot ps ++ "-"%char :: join dot ids ++ "+"%char :: join dot bs)
  = Some {| c_parts := ps; c_pre := Some ids |}.
Proof.
  intros Hne H Hine Hi Hbne Hb.
  destruct (main_text_facts ps H) as (Hu & Hpm & Hdot).
  destruct (idents_text_facts ids Hi) as (Hiu & Hipl & Hidot).
  destruct (idents_text_facts bs Hb) as (Hbu & _ & Hbdot).
  unfold parse_core.
  change ("-"%char :: join dot ids ++ "+"%char :: join dot bs)
    with (["-"%char] ++ join dot ids ++ ["+"%char] ++ join dot bs).
  rewrite !to_lower_app, (to_lower_id _ Hu), (to_lower_id _ Hiu), (to_lower_id _ Hbu).
  change (to_lower ["-"%char]) with ["-"%char]. change (to_lower ["+"%char]) with ["+"%char].
  cbn [app].
  unfold parse_lower.
  rewrite (take_while_app_stop _ _ _ _ Hpm) by reflexivity.
  rewrite (drop_while_app_stop _ _ _ _ Hpm) by reflexivity.
  rewrite (split_c_join _ _ Hne Hdot), H.
  change (ceqb "-"%char "-"%char) with true. cbv iota.
  rewrite (take_while_app_stop _ _ _ _ Hipl) by reflexivity.
  rewrite (drop_while_app_stop _ _ _ _ Hipl) by reflexivity.
  rewrite (split_c_join _ _ Hine Hidot), Hi.
  rewrite (split_c_join _ _ Hbne Hbdot), Hb. reflexivity.
Qed.

(* a pre-release sorts before its release; build metadata does not matter (same core) *)
Theorem pre_lt_release ps ids :
  cmp_core {| c_parts := ps; c_pre := Some ids |} {| c_parts := ps; c_pre := None |} = Lt.
Proof.
  unfold cmp_core, lexc, cmp_on. cbn [c_parts c_pre].
  rewrite (tp_refl parts_cmp_tp). reflexivity.
Qed.

(* conan has no post-release markers: the only way to be greater with equal parts is to have
   no pre-release or a greater pre-release *)
Theorem release_gt_pre ps ids :
  cmp_core {| c_parts := ps; c_pre := None |} {| c_parts := ps; c_pre := Some ids |} = Gt.
Proof.
  unfold cmp_core, lexc, cmp_on. cbn [c_parts c_pre].
  rewrite (tp_refl parts_cmp_tp). reflexivity.
Qed.

(* numeric parts compare as integers *)
Lemma nat_key_dec n : n < two63 -> nat_key (dec n) = (Some (Z.of_N n), []).
Proof.
  intros H. destruct (dec_spec n) as (Hne & Hd & _).
  unfold nat_key. rewrite (take_while_all _ _ Hd), (drop_while_all _ _ Hd).
  rewrite (atoi_sat_dec n H). destruct (dec n); [contradiction|reflexivity].
Qed.

Lemma natural_cmp_dec a b : a < two63 -> b < two63 -> natural_cmp (dec a) (dec b) = (a ?= b).
Proof.
  intros Ha Hb. unfold natural_cmp, cmp_on. rewrite (nat_key_dec a Ha), (nat_key_dec b Hb).
  unfold nat_key_cmp, lex2, opt_last. cbn [fst snd bytes_cmp].
  rewrite N2Z.inj_compare. destruct (a ?= b); reflexivity.
Qed.

Lemma lex_short_dec t1 : forall t2,
  Forall (fun n => n < two63) t1 -> Forall (fun n => n < two63) t2 ->
  lex_short natural_cmp (map dec t1) (map dec t2) = lex_short N.compare t1 t2.
Proof.
  induction t1 as [|a t1 IH]; intros [|b t2] H1 H2; try reflexivity.
  inversion H1; inversion H2; subst. cbn [map lex_short].
  rewrite natural_cmp_dec, IH; auto.
Qed.

Lemma main_ok_dec t : main_ok (map dec t) = true.
Proof.
  unfold main_ok. rewrite forallb_forall. intros x Hx. apply in_map_iff in Hx.
  destruct Hx as (n & <- & _). destruct (dec_spec n) as (Hne & Hd & _).
  unfold nonempty_all. destruct (dec n) eqn:E; [contradiction|].
  eapply forallb_impl; [|exact Hd]. apply digit_part_c.
Qed.

(* C03: numeric tuples of any arity n >= 1 are accepted and compare as integer tuples *)
Theorem c03_numeric t1 t2 :
  t1 <> [] -> length t1 = length t2 ->
  Forall (fun n => n < two63) t1 -> Forall (fun n => n < two63) t2 ->
  exists c1 c2,
    parse_core (join dot (map dec t1)) = Some c1 /\
    parse_core (join dot (map dec t2)) = Some c2 /\
    cmp_core c1 c2 = lex_short N.compare t1 t2.
Proof.
  intros Hne Hlen H1 H2.
  assert (Hne2 : t2 <> []) by (destruct t1; destruct t2; try discriminate; congruence).
  do 2 eexists. repeat split.
  - apply parse_main; [destruct t1; [contradiction|discriminate]|apply main_ok_dec].
  - apply parse_main; [destruct t2; [contradiction|discriminate]|apply main_ok_dec].
  - unfold cmp_core, lexc, cmp_on. cbn [c_parts c_pre]. unfold parts_cmp.
    rewrite lex_pad_same_length by (rewrite !map_length; exact Hlen).
    rewrite lex_short_dec by assumption.
    unfold pre_cmp, opt_last. destruct (lex_short N.compare t1 t2); reflexivity.
Qed.

(* different arities: the shorter tuple is padded with zeros *)
Theorem c03_numeric_pad t1 t2 :
  Forall (fun n => n < two63) t1 -> Forall (fun n => n < two63) t2 ->
  parts_cmp (map dec t1) (map dec t2) = lex_pad 0 N.compare t1 t2.
Proof.
  unfold parts_cmp. change $"0" with (dec 0). revert t2.
  assert (Z0 : 0 < two63) by reflexivity.
  assert (P : forall t2, Forall (fun n => n < two63) t2 ->
              lex_pad_l (dec 0) natural_cmp (map dec t2) = lex_pad_l 0 N.compare t2).
  { induction t2 as [|b t2 IH]; intros H2; [reflexivity|].
    inversion H2 as [|? ? Hb Ht2]; subst.
    cbn [map lex_pad_l]. rewrite natural_cmp_dec, IH by auto. reflexivity. }
  induction t1 as [|a t1 IH]; intros t2 H1 H2.
  - cbn [map lex_pad]. apply P, H2.
  - inversion H1 as [|? ? Ha Ht1]; subst. destruct t2 as [|b t2].
    + cbn [map lex_pad]. rewrite natural_cmp_dec by auto.
      specialize (IH [] Ht1 H2). cbn [map] in IH. f_equal. exact IH.
    + inversion H2 as [|? ? Hb Ht2]; subst. cbn [map lex_pad].
      rewrite natural_cmp_dec by auto. f_equal. apply IH; auto.
Qed.

Print Assumptions cmp_core_tp.
Print Assumptions cmp_tp.
Print Assumptions c03_numeric.
Print Assumptions c03_numeric_pad.
Print Assumptions parse_main_pre_build.
