From Verif.Base Require Import Bytes.
From Verif.Eco Require Import Iface.
From Verif.Eco.Cran Require Version Range.

Definition v : vops := mk_vops Cran.Version.parse_core Cran.Version.cmp_core Cran.Version.raw_orig.
Definition r : rops := mk_simple_rops Cran.Range.cfg.
Definition entry : eco := {| e_name := $"cran"; e_v := v; e_r := r |}.
