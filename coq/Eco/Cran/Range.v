(* Eco/Cran/Range.v — model of pkg/ecosystem/cran/range.go *)
From Verif.Base Require Import Bytes GoNum Ord.
From Verif.Eco Require Import RangeCore.
From Verif.Gen Require Import Operators.

Definition cfg : range_cfg := {|
  rc_split := split_comma_trim;
  rc_empty_ok := false;
  rc_ops := cran_ops;
  rc_style := HasPrefixErr;
  rc_sem := sem6;
  rc_eager := true;
  rc_trimmed_orig := false
|}.
