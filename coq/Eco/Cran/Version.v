(* Eco/Cran/Version.v — model of pkg/ecosystem/cran/version.go (definitions only). *)
From Verif.Base Require Import Bytes GoNum.
From Verif.Eco Require Import VLayer.
Local Open Scope N_scope.

Definition core := list Z.

(* versionPattern ^(\d+(?:[.-]\d+)+)$ on the trimmed text, then the per-component MaxInt check *)
Definition parse_core (t : bytes) : option core :=
  let parts := split_c "."%char (replace_c "-"%char "."%char t) in
  if (2 <=? length parts)%nat
     && forallb nonempty_digits parts
     && forallb (fun p => digits_val p <? two63) parts
  then Some (map (fun p => Z.of_N (digits_val p)) parts)
  else None.

(* common components left to right, then the longer one is greater *)
Definition cmp_core (a b : core) : comparison := lex_short Z.compare a b.

Definition raw_orig := true.

Definition ver := VLayer.ver core.
Definition parse : bytes -> option ver := VLayer.parse parse_core raw_orig.
Definition cmp : ver -> ver -> comparison := VLayer.cmp cmp_core.
Definition show : ver -> bytes := VLayer.show.
