(* Eco/Cran/Version.v — model of pkg/ecosystem/cran/version.go (definitions only). *)
From Verif.Base Require Import Bytes GoNum Ord.
Local Open Scope N_scope.

Record ver := { comps : list Z; orig : bytes }.

(* versionPattern ^(\d+(?:[.-]\d+)+)$ followed by the per-component MaxInt check *)
Definition parse (s : bytes) : option ver :=
  let t := trim_space s in
  let parts := split_c "."%char (replace_c "-"%char "."%char t) in
  if (2 <=? length parts)%nat
     && forallb nonempty_digits parts
     && forallb (fun p => digits_val p <? two63) parts
  then Some {| comps := map (fun p => Z.of_N (digits_val p)) parts; orig := s |}
  else None.

Definition show (v : ver) : bytes := orig v.

(* common components left to right, then the longer one is greater *)
Definition cmp (a b : ver) : comparison := lex_short Z.compare (comps a) (comps b).
