From Verif.Base Require Import Bytes GoNum Ord.
From Verif.Eco Require Import VLayer VLayerFacts.
From Verif.Eco.Cran Require Import Version.

Lemma cmp_core_tp : TotalPreorder cmp_core.
Proof. apply TP_lex_short, TP_Z. Qed.

Lemma cmp_tp : TotalPreorder cmp.
Proof. apply VLayerFacts.cmp_tp, cmp_core_tp. Qed.
