From Verif.Base Require Import Bytes GoNum Ord.
From Verif.Eco.Cran Require Import Version.

Lemma cmp_tp : TotalPreorder cmp.
Proof.
  change cmp with (cmp_on comps (lex_short Z.compare)).
  apply TP_on, TP_lex_short, TP_Z.
Qed.
