(* Base/DecFacts.v — decimal numerals: the value of a digit string, comparison of digit strings
   of any length as integers ([digits_cmp]), and [dec] (fmt "%d"). *)
From Coq Require Import Lia ZifyBool.
From Verif.Base Require Import Bytes GoNum Ord BytesFacts.
Local Open Scope N_scope.

(* ---------- digits_val ---------- *)

Definition dstep (acc : N) (c : ascii) : N := acc * 10 + digit_val c.

Lemma digits_val_fold s : digits_val s = fold_left dstep s 0.
Proof. reflexivity. Qed.

Lemma fold_dstep_acc s acc :
  fold_left dstep s acc = acc * 10 ^ N.of_nat (length s) + fold_left dstep s 0.
Proof.
  revert acc. induction s as [|c s IH]; intros acc.
  - cbn. lia.
  - cbn [fold_left length]. rewrite (IH (dstep acc c)), (IH (dstep 0 c)).
    rewrite Nat2N.inj_succ, N.pow_succ_r'. unfold dstep. lia.
Qed.

Lemma digits_val_cons c s :
  digits_val (c :: s) = digit_val c * 10 ^ N.of_nat (length s) + digits_val s.
Proof.
  rewrite !digits_val_fold. cbn [fold_left]. rewrite fold_dstep_acc.
  unfold dstep at 1. rewrite N.mul_0_l, N.add_0_l. reflexivity.
Qed.

Lemma digits_val_app1 s c : digits_val (s ++ [c]) = digits_val s * 10 + digit_val c.
Proof. rewrite !digits_val_fold, fold_left_app. reflexivity. Qed.

Lemma digit_val_bound c : is_digit c = true -> digit_val c < 10.
Proof. unfold is_digit, in_range, digit_val. lia. Qed.

Lemma digits_val_bound s : forallb is_digit s = true -> digits_val s < 10 ^ N.of_nat (length s).
Proof.
  induction s as [|c s IH]; intros H.
  - cbn. lia.
  - cbn [forallb] in H. apply andb_true_iff in H. destruct H as [Hc Hs].
    rewrite digits_val_cons. cbn [length]. rewrite Nat2N.inj_succ, N.pow_succ_r'.
    pose proof (digit_val_bound c Hc). specialize (IH Hs). nia.
Qed.

Lemma digit_val_zero c : ceqb "0"%char c = true -> digit_val c = 0.
Proof. intros H. apply ceqb_eq in H. subst c. reflexivity. Qed.

Lemma digit_val_nonzero c : is_digit c = true -> ceqb "0"%char c = false -> 1 <= digit_val c.
Proof.
  intros Hd Hz. apply ceqb_neq in Hz.
  assert (code c <> 48). { intros E. apply Hz. apply code_inj. rewrite E. reflexivity. }
  unfold is_digit, in_range, digit_val in *. lia.
Qed.

Lemma strip_zeros_val s : digits_val (strip_zeros s) = digits_val s.
Proof.
  unfold strip_zeros. induction s as [|c s IH]; [reflexivity|].
  cbn [drop_while]. destruct (ceqb "0"%char c) eqn:E; [|reflexivity].
  rewrite IH, digits_val_cons, (digit_val_zero c E). lia.
Qed.

Lemma strip_zeros_digits s : forallb is_digit s = true -> forallb is_digit (strip_zeros s) = true.
Proof.
  unfold strip_zeros. induction s as [|c s IH]; [reflexivity|].
  cbn [drop_while forallb]. intros H. destruct (ceqb "0"%char c); [|exact H].
  apply andb_true_iff in H. apply IH. tauto.
Qed.

(* a stripped string does not begin with a zero *)
Lemma strip_zeros_hd s :
  match strip_zeros s with [] => True | c :: _ => ceqb "0"%char c = false end.
Proof.
  unfold strip_zeros. induction s as [|c s IH]; [exact I|].
  cbn [drop_while]. destruct (ceqb "0"%char c) eqn:E; [exact IH|exact E].
Qed.

(* lower bound of a digit string without leading zero *)
Lemma digits_val_lower c s :
  is_digit c = true -> ceqb "0"%char c = false ->
  10 ^ N.of_nat (length s) <= digits_val (c :: s).
Proof.
  intros Hd Hz. rewrite digits_val_cons. pose proof (digit_val_nonzero c Hd Hz). nia.
Qed.

Lemma digit_val_compare x y :
  is_digit x = true -> is_digit y = true -> (code x ?= code y) = (digit_val x ?= digit_val y).
Proof.
  unfold is_digit, in_range, digit_val. intros Hx Hy.
  destruct (code x ?= code y) eqn:E; symmetry.
  - apply N.compare_eq in E. rewrite E. apply N.compare_refl.
  - rewrite N.compare_lt_iff in *. lia.
  - rewrite N.compare_gt_iff in *. lia.
Qed.

(* same length: the bytewise order is the numeric order *)
Lemma bytes_cmp_val a b :
  length a = length b -> forallb is_digit a = true -> forallb is_digit b = true ->
  bytes_cmp a b = (digits_val a ?= digits_val b).
Proof.
  revert b. induction a as [|x a IH]; intros [|y b] L Ha Hb; try discriminate.
  - reflexivity.
  - cbn [length] in L. injection L as L. cbn [forallb] in Ha, Hb.
    apply andb_true_iff in Ha, Hb. destruct Ha as [Hx Ha]. destruct Hb as [Hy Hb].
    cbn [bytes_cmp]. rewrite (IH b L Ha Hb), (digit_val_compare x y Hx Hy).
    rewrite !digits_val_cons, <- L.
    pose proof (digits_val_bound a Ha) as Ba. pose proof (digits_val_bound b Hb) as Bb.
    rewrite <- L in Bb.
    set (P := 10 ^ N.of_nat (length a)) in *.
    unfold thenc.
    destruct (digit_val x ?= digit_val y) eqn:E.
    + apply N.compare_eq in E. rewrite E.
      destruct (digits_val a ?= digits_val b) eqn:E2; symmetry.
      * apply N.compare_eq in E2. rewrite E2. apply N.compare_refl.
      * rewrite N.compare_lt_iff in *. lia.
      * rewrite N.compare_gt_iff in *. lia.
    + symmetry. rewrite N.compare_lt_iff in *. nia.
    + symmetry. rewrite N.compare_gt_iff in *. nia.
Qed.

Lemma pow10_mono (m n : nat) : (m <= n)%nat -> 10 ^ N.of_nat m <= 10 ^ N.of_nat n.
Proof. intros H. apply N.pow_le_mono_r; lia. Qed.

(* shorter stripped string: smaller number *)
Lemma stripped_shorter_lt a b :
  forallb is_digit a = true -> forallb is_digit b = true ->
  match b with [] => True | c :: _ => ceqb "0"%char c = false end ->
  (length a < length b)%nat -> digits_val a < digits_val b.
Proof.
  intros Ha Hb Hz L. destruct b as [|c b]; [cbn in L; lia|].
  cbn [forallb] in Hb. apply andb_true_iff in Hb. destruct Hb as [Hc Hb].
  pose proof (digits_val_bound a Ha) as Ba.
  pose proof (digits_val_lower c b Hc Hz) as Lb.
  cbn [length] in L. pose proof (pow10_mono (length a) (length b) ltac:(lia)). lia.
Qed.

(* [digits_cmp] compares the numeric values of two digit strings *)
Theorem digits_cmp_val a b :
  forallb is_digit a = true -> forallb is_digit b = true ->
  digits_cmp a b = (digits_val a ?= digits_val b).
Proof.
  intros Ha Hb. unfold digits_cmp.
  rewrite <- (strip_zeros_val a), <- (strip_zeros_val b).
  pose proof (strip_zeros_digits a Ha) as Da. pose proof (strip_zeros_digits b Hb) as Db.
  pose proof (strip_zeros_hd a) as Za. pose proof (strip_zeros_hd b) as Zb.
  set (a' := strip_zeros a) in *. set (b' := strip_zeros b) in *.
  unfold thenc. destruct (Nat.compare (length a') (length b')) eqn:E.
  - apply Nat.compare_eq in E. apply bytes_cmp_val; assumption.
  - apply Nat.compare_lt_iff in E. symmetry. apply N.compare_lt_iff.
    apply stripped_shorter_lt; assumption.
  - apply Nat.compare_gt_iff in E. symmetry. apply N.compare_gt_iff.
    apply stripped_shorter_lt; assumption.
Qed.

(* ---------- dec ---------- *)

Lemma size_nat_gt n : n < 2 ^ N.of_nat (N.size_nat n).
Proof.
  destruct n as [|p]; [cbn; lia|]. cbn [N.size_nat].
  induction p as [p IH|p IH|]; cbn [Pos.size_nat].
  - rewrite Nat2N.inj_succ, N.pow_succ_r'. lia.
  - rewrite Nat2N.inj_succ, N.pow_succ_r'. lia.
  - cbn. lia.
Qed.

Lemma chr_digit d : d < 10 -> is_digit (chr (48 + d)) = true /\ digit_val (chr (48 + d)) = d.
Proof.
  intros H.
  assert (E : code (chr (48 + d)) = 48 + d).
  { unfold code, chr. apply N_ascii_embedding. lia. }
  unfold is_digit, in_range, digit_val. rewrite E. split; lia.
Qed.

Lemma dec_fuel_S k n acc :
  dec_fuel (S k) n acc =
  if n <? 10 then chr (48 + n mod 10) :: acc
  else dec_fuel k (n / 10) (chr (48 + n mod 10) :: acc).
Proof. reflexivity. Qed.

Lemma dec_fuel_spec k n acc :
  n < 2 ^ N.of_nat k ->
  exists ds, dec_fuel (S k) n acc = ds ++ acc /\ ds <> [] /\
             forallb is_digit ds = true /\ digits_val ds = n.
Proof.
  revert n acc. induction k as [|k IH]; intros n acc Hn.
  - assert (n = 0) by (cbn in Hn; lia). subst n.
    exists [chr 48]. cbn. repeat split; try reflexivity. discriminate.
  - rewrite dec_fuel_S. destruct (n <? 10) eqn:E.
    + apply N.ltb_lt in E. exists [chr (48 + n mod 10)].
      rewrite (N.mod_small n 10 E). destruct (chr_digit n E) as [H1 H2].
      repeat split; try discriminate.
      * cbn [forallb]. rewrite H1. reflexivity.
      * unfold digits_val. cbn [fold_left]. lia.
    + apply N.ltb_ge in E.
      assert (Hq : n / 10 < 2 ^ N.of_nat k).
      { rewrite Nat2N.inj_succ, N.pow_succ_r' in Hn.
        apply N.div_lt_upper_bound; lia. }
      destruct (IH (n / 10) (chr (48 + n mod 10) :: acc) Hq) as (ds & E1 & E2 & E3 & E4).
      exists (ds ++ [chr (48 + n mod 10)]).
      assert (Hm : n mod 10 < 10) by (apply N.mod_lt; lia).
      destruct (chr_digit _ Hm) as [H1 H2].
      repeat split.
      * rewrite E1, <- app_assoc. reflexivity.
      * destruct ds; discriminate.
      * rewrite forallb_app, E3. cbn [forallb]. rewrite H1. reflexivity.
      * rewrite digits_val_app1, E4, H2. pose proof (N.div_mod' n 10). lia.
Qed.

Theorem dec_spec n :
  dec n <> [] /\ forallb is_digit (dec n) = true /\ digits_val (dec n) = n.
Proof.
  unfold dec. destruct (dec_fuel_spec (N.size_nat n) n [] (size_nat_gt n)) as (ds & E & H1 & H2 & H3).
  rewrite E, app_nil_r. auto.
Qed.

Lemma dec_digits n : forallb is_digit (dec n) = true.
Proof. apply dec_spec. Qed.
Lemma dec_nonempty n : dec n <> [].
Proof. apply dec_spec. Qed.
Lemma dec_val n : digits_val (dec n) = n.
Proof. apply dec_spec. Qed.

(* printing and comparing as digit strings is comparing the numbers *)
Theorem digits_cmp_dec a b : digits_cmp (dec a) (dec b) = (a ?= b).
Proof. rewrite digits_cmp_val by apply dec_digits. rewrite !dec_val. reflexivity. Qed.

Print Assumptions digits_cmp_dec.
