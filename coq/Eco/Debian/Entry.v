From Verif.Base Require Import Bytes.
From Verif.Eco Require Import Iface.
From Verif.Eco.Debian Require Version Range.

Definition v : vops := mk_vops Debian.Version.parse_core Debian.Version.cmp_core Debian.Version.raw_orig.
Definition r : rops := mk_simple_rops Debian.Range.cfg.
Definition entry : eco := {| e_name := $"debian"; e_v := v; e_r := r |}.
