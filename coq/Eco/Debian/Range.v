(* Eco/Debian/Range.v — model of pkg/ecosystem/debian/range.go *)
From Verif.Base Require Import Bytes GoNum Ord.
From Verif.Gen Require Operators.
From Verif.Eco Require Import RangeCore.

(* operators := []string{">=", "<=", ">>", "<<", "!=", ">", "<", "="} in parseConstraint *)
(* the list is generated from the Go source on every run (tools/gen -> Gen/Operators.v) *)
Definition debian_ops : list bytes :=
  Eval cbv delta [Verif.Gen.Operators.debian_ops] in Verif.Gen.Operators.debian_ops.

(* the switch in satisfiesConstraint *)
Definition debian_sem (op : bytes) : cop :=
  if beq op $"=" then CEq
  else if beq op $"!=" then CNe
  else if beq op $">" then CGt
  else if beq op $">=" then CGe
  else if beq op $"<" then CLt
  else if beq op $"<=" then CLe
  else if beq op $">>" then CGt
  else if beq op $"<<" then CLt
  else CNever.

Definition cfg : range_cfg := {|
  rc_split := split_comma_trim;
  rc_empty_ok := false;
  rc_ops := debian_ops;
  rc_style := HasPrefixErr;
  rc_sem := debian_sem;
  rc_eager := true;
  rc_trimmed_orig := false
|}.
