(* Eco/Debian/RangeFacts.v — the debian range parser is an instance of RangeCore; the generic
   C02 / C20 theorems of RangeCoreFacts.v are instantiated here at the string-level interface,
   for ARBITRARY version oracles vok / vcmp. *)
From Coq Require Import Lia.
From Verif.Base Require Import Bytes BytesFacts GoNum Ord.
From Verif.Eco Require Import RangeCore RangeCoreFacts Iface.
From Verif.Eco.Debian Require Import Range Entry.

Lemma debian_ops_ok : ops_ok debian_ops = true.
Proof. reflexivity. Qed.

(* the operator table: ">>" and "<<" are the strict comparisons, exactly like ">" and "<" *)
Lemma debian_sem_table :
  debian_sem $"=" = CEq /\ debian_sem $"!=" = CNe /\
  debian_sem $">" = CGt /\ debian_sem $">>" = CGt /\ debian_sem $">=" = CGe /\
  debian_sem $"<" = CLt /\ debian_sem $"<<" = CLt /\ debian_sem $"<=" = CLe.
Proof. repeat split; reflexivity. Qed.

(* every listed operator has a meaning (no operator falls to the "default: return false") *)
Lemma debian_sem_total op : In op debian_ops -> debian_sem op <> CNever.
Proof.
  simpl. intros H. repeat destruct H as [<-|H]; try discriminate. contradiction.
Qed.

Definition no_comma (s : bytes) : bool := negb (contains_c ","%char s).

Lemma split_c_no_sep sep s : contains_c sep s = false -> split_c sep s = [s].
Proof.
  unfold contains_c. induction s as [|c s IH]; simpl; [reflexivity|].
  intros H. apply orb_false_iff in H. destruct H as [Hc Hs].
  rewrite Hc, (IH Hs). reflexivity.
Qed.

Lemma split_comma_trim_single s :
  s <> [] -> no_space s = true -> no_comma s = true -> split_comma_trim s = [s].
Proof.
  intros Hne Hns Hnc. unfold split_comma_trim, no_comma in *.
  apply negb_true_iff in Hnc. rewrite (split_c_no_sep _ _ Hnc). simpl.
  rewrite (trim_space_no_space s Hns). destruct s; [contradiction|reflexivity].
Qed.

(* the scope of C02: a non-empty bound without blanks and commas that does not begin with a
   comparator character *)
Definition in_scope (a : bytes) : bool :=
  match a with [] => false | c :: _ => negb (opchar c) end && no_space a && no_comma a.

Lemma in_scope_bound a : in_scope a = true -> bound_in_scope a.
Proof.
  unfold in_scope, bound_in_scope. destruct a as [|c a]; [discriminate|].
  rewrite !andb_true_iff. intros [[H1 H2] _]. apply negb_true_iff in H1.
  repeat split; auto. discriminate.
Qed.

Lemma opchars_no_comma op : forallb opchar op = true -> no_comma op = true.
Proof.
  unfold no_comma, contains_c. induction op as [|c op IH]; simpl; [reflexivity|].
  intros H. apply andb_true_iff in H. destruct H as [Hc H].
  specialize (IH H). apply negb_true_iff in IH. rewrite IH, orb_false_r.
  apply negb_true_iff. apply ceqb_neq. intros <-. discriminate.
Qed.

Lemma no_comma_app a b : no_comma (a ++ b) = no_comma a && no_comma b.
Proof.
  unfold no_comma, contains_c. rewrite existsb_app, negb_orb. reflexivity.
Qed.

(* C02 for debian: "<op><a>" contains v iff Compare(v, a) satisfies op *)
Theorem debian_c02 (vok : bytes -> bool) (vcmp : bytes -> bytes -> comparison) op a v :
  In op debian_ops -> in_scope a = true -> vok a = true -> vok v = true ->
  r_contains Entry.r vok vcmp (op ++ a) v = Some (sat (debian_sem op) (vcmp v a)).
Proof.
  intros Hin Hsc Ha Hv.
  pose proof (in_scope_bound a Hsc) as Hb.
  assert (Hop : forallb opchar op = true).
  { pose proof (ops_ok_opchars _ debian_ops_ok) as Hoc. rewrite forallb_forall in Hoc. auto. }
  assert (Hsplit : rc_split cfg (op ++ a) = [op ++ a]).
  { unfold in_scope in Hsc. rewrite !andb_true_iff in Hsc. destruct Hsc as [[_ Hns] Hnc].
    apply split_comma_trim_single.
    - destruct op; destruct a; simpl; try discriminate. destruct Hb as [Hb _]. contradiction.
    - rewrite no_space_app, (opchars_no_space op Hop), Hns. reflexivity.
    - rewrite no_comma_app, (opchars_no_comma op Hop), Hnc. reflexivity. }
  destruct (simple_range_c02_single bytes (oracle_parse vok) vcmp cfg op a a
              debian_ops_ok Hin Hb) as (r & Hr & Hc).
  - unfold oracle_parse. rewrite Ha. reflexivity.
  - exact Hsplit.
  - unfold Entry.r, mk_simple_rops. cbn [r_contains]. rewrite Hr, Hv, Hc. reflexivity.
Qed.

(* a bare version is "=" *)
Theorem debian_c02_bare (vok : bytes -> bool) (vcmp : bytes -> bytes -> comparison) a v :
  in_scope a = true -> vok a = true -> vok v = true ->
  r_contains Entry.r vok vcmp a v = Some (sat CEq (vcmp v a)).
Proof.
  intros Hsc Ha Hv.
  pose proof (in_scope_bound a Hsc) as Hb.
  unfold in_scope in Hsc. rewrite !andb_true_iff in Hsc. destruct Hsc as [[_ Hns] Hnc].
  assert (Hne : a <> []) by (destruct Hb; assumption).
  unfold Entry.r, mk_simple_rops. cbn [r_contains].
  unfold RangeCore.parse_range. rewrite (trim_space_no_space a Hns).
  rewrite (match_nonempty a _ Hne).
  change (rc_split cfg a) with (split_comma_trim a).
  rewrite (split_comma_trim_single a Hne Hns Hnc).
  cbn [parse_constraints].
  rewrite (parse_constraint_bare cfg a debian_ops_ok Hb).
  unfold bound_ok. cbn [rc_eager cfg snd]. unfold oracle_parse at 1. rewrite Ha.
  cbn [rc_empty_ok rc_trimmed_orig]. rewrite Hv.
  unfold RangeCore.contains. cbn [r_cs forallb]. unfold sat_constraint. cbn [fst snd].
  unfold oracle_parse. rewrite Ha. cbn [rc_sem cfg]. rewrite andb_true_r. reflexivity.
Qed.

(* C20: membership depends only on the place of the version in the order *)
Theorem debian_c20 (vok : bytes -> bool) (vcmp : bytes -> bytes -> comparison) rg a b :
  TotalPreorder vcmp -> vok a = true -> vok b = true -> vcmp a b = Eq ->
  r_contains Entry.r vok vcmp rg a = r_contains Entry.r vok vcmp rg b.
Proof.
  intros TP Ha Hb E. unfold Entry.r, mk_simple_rops. cbn [r_contains].
  destruct (RangeCore.parse_range bytes (oracle_parse vok) cfg rg) as [r|]; [|reflexivity].
  rewrite Ha, Hb. f_equal. apply simple_range_c20_eq; assumption.
Qed.

Print Assumptions debian_c02.
Print Assumptions debian_c02_bare.
Print Assumptions debian_c20.
