(* Eco/Debian/SpecFacts.v — the model of go-univers' debian package against the independent
   reference definition of dpkg's version order (Spec/Dpkg.v):
   every dpkg-valid string is accepted by the model's parser, with the same
   (epoch, upstream, revision) split, and on such strings the model's Compare is dpkg's order. *)
From Coq Require Import Lia ZifyBool.
From Verif.Base Require Import Bytes GoNum Ord BytesFacts.
From Verif.Eco Require Import VLayer VLayerFacts RangeCoreFacts Iface.
From Verif.Spec Require Import Dpkg DpkgFacts.
From Verif.Eco.Debian Require Import Version VersionFacts Entry.

(* ---------- cutting ---------- *)

Lemma cut1_spec c s e r :
  cut [c] s = Some (e, r) -> s = e ++ c :: r /\ contains_c c e = false.
Proof.
  revert e r. induction s as [|x s IH]; intros e r H; [discriminate|].
  cbn [cut has_prefix] in H. rewrite andb_true_r in H.
  destruct (ceqb c x) eqn:E.
  - injection H as <- <-. apply ceqb_eq in E. subst x. split; reflexivity.
  - destruct (cut [c] s) as [[e' r']|] eqn:C; [|discriminate].
    injection H as <- <-. destruct (IH e' r' eq_refl) as [-> Hn].
    split; [reflexivity|]. unfold contains_c in *. cbn [existsb]. rewrite E, Hn. reflexivity.
Qed.

Lemma cut1_none_inv c s : cut [c] s = None -> contains_c c s = false.
Proof.
  unfold contains_c. induction s as [|x s IH]; intros H; [reflexivity|].
  cbn [cut has_prefix] in H. rewrite andb_true_r in H.
  destruct (ceqb c x) eqn:E; [discriminate|].
  destruct (cut [c] s) as [[e' r']|] eqn:C; [discriminate|].
  cbn [existsb]. rewrite E, (IH eq_refl). reflexivity.
Qed.

Lemma cut_last_spec c s u r :
  cut_last_c c s = Some (u, r) -> s = u ++ c :: r /\ contains_c c r = false.
Proof.
  unfold cut_last_c. destruct (cut [c] (rev s)) as [[a b]|] eqn:C; [|discriminate].
  intros H. injection H as <- <-. destruct (cut1_spec _ _ _ _ C) as [E Hn].
  split.
  - rewrite <- (rev_involutive s), E, rev_app_distr. cbn [rev]. rewrite <- app_assoc. reflexivity.
  - rewrite contains_c_rev. assumption.
Qed.

Lemma span_digits_app e c r :
  forallb is_digit e = true -> is_digit c = false ->
  span is_digit (e ++ c :: r) = (e, c :: r).
Proof.
  intros He Hc. unfold span. induction e as [|x e IH]; cbn [app take_while drop_while forallb] in *.
  - rewrite Hc. reflexivity.
  - apply andb_true_iff in He. destruct He as [Hx He]. rewrite Hx.
    specialize (IH He). injection IH as -> ->. reflexivity.
Qed.

Lemma contains_c_drop_while c p s :
  contains_c c s = false -> contains_c c (drop_while p s) = false.
Proof.
  unfold contains_c. induction s as [|x s IH]; cbn [drop_while existsb]; intros H; [reflexivity|].
  apply orb_false_iff in H. destruct H as [Hx Hs].
  destruct (p x); [apply IH; assumption|]. cbn [existsb]. rewrite Hx, Hs. reflexivity.
Qed.

Lemma nonempty_digits_all t : nonempty_digits t = true -> t <> [] /\ forallb is_digit t = true.
Proof. destruct t; [discriminate|]. intros H. split; [discriminate|exact H]. Qed.

(* ---------- characters ---------- *)

Lemma upstream_char_valid c : is_upstream_char c = true -> valid_char c = true.
Proof.
  unfold is_upstream_char, valid_char, is_alnum.
  destruct (is_letter c), (is_digit c), (ceqb c "."), (ceqb c "+"), (ceqb c "-"), (ceqb c "~");
    cbn; congruence.
Qed.

Lemma revision_char_valid c : is_revision_char c = true -> valid_char c = true.
Proof.
  unfold is_revision_char, valid_char, is_alnum.
  destruct (is_letter c), (is_digit c), (ceqb c "."), (ceqb c "+"), (ceqb c "-"), (ceqb c "~");
    cbn; congruence.
Qed.

Lemma valid_char_not_nl c : valid_char c = true -> is_nl c = false.
Proof.
  destruct c as [[] [] [] [] [] [] [] []]; vm_compute; congruence.
Qed.

Lemma valid_char_not_nul c : valid_char c = true -> (code c =? 0)%N = false.
Proof.
  destruct c as [[] [] [] [] [] [] [] []]; vm_compute; congruence.
Qed.

Lemma forallb_impl {A} (p q : A -> bool) l :
  (forall x, p x = true -> q x = true) -> forallb p l = true -> forallb q l = true.
Proof.
  intros H. rewrite !forallb_forall. auto.
Qed.

Lemma any_nl_valid s : forallb valid_char s = true -> any_b is_nl s = false.
Proof.
  unfold any_b. induction s as [|c s IH]; cbn [forallb existsb]; intros H; [reflexivity|].
  apply andb_true_iff in H. destruct H as [Hc Hs].
  rewrite (valid_char_not_nl c Hc), (IH Hs). reflexivity.
Qed.

(* ---------- the split of a valid string ---------- *)

(* upstream and revision of the text after the epoch *)
Lemma split_ur_valid rest u r :
  split_revision rest = (u, r) ->
  upstream_ok is_upstream_char u = true -> revision_ok r = true ->
  split_ur rest = Some (u, match r with Some t => t | None => [] end)
  /\ forallb valid_char u = true
  /\ forallb valid_char (match r with Some t => t | None => [] end) = true.
Proof.
  intros Hs Hu Hr.
  assert (Vu : forallb valid_char u = true).
  { destruct u as [|c u]; [reflexivity|]. cbn [upstream_ok forallb] in *.
    apply andb_true_iff in Hu. destruct Hu as [Hc Hu].
    rewrite (forallb_impl _ _ _ upstream_char_valid Hu), andb_true_r.
    unfold valid_char. rewrite Hc. destruct (is_letter c); reflexivity. }
  assert (Vr : forallb valid_char (match r with Some t => t | None => [] end) = true).
  { destruct r as [[|c t]|]; try reflexivity.
    cbn [revision_ok] in Hr. exact (forallb_impl _ _ _ revision_char_valid Hr). }
  split; [|split; assumption].
  unfold split_revision in Hs. unfold split_ur.
  destruct (cut_last_c "-" rest) as [[u' r']|] eqn:C.
  - injection Hs as <- <-. destruct (cut_last_spec _ _ _ _ C) as [E _].
    destruct u' as [|c u']; [discriminate|].
    destruct r' as [|d r']; [discriminate|].
    assert (V : forallb valid_char rest = true).
    { rewrite E, forallb_app, Vu. cbn [forallb andb] in *. rewrite Vr. reflexivity. }
    destruct rest as [|x rest0] eqn:Er; [discriminate|]. rewrite <- Er in *.
    rewrite (any_nl_valid _ V). reflexivity.
  - injection Hs as <- <-. destruct rest as [|c rest]; [discriminate|].
    rewrite (any_nl_valid _ Vu). reflexivity.
Qed.

Lemma int_max_lt_two63 n : (n <=? int_max)%N = true -> (n <? two63)%N = true.
Proof. unfold int_max, two63. lia. Qed.

Lemma atoi_digits e :
  nonempty_digits e = true -> (digits_val e <? two63)%N = true ->
  atoi e = Some (Z.of_N (digits_val e)).
Proof.
  intros He Hv. destruct e as [|c e]; [discriminate|]. unfold atoi.
  assert (Hc : is_digit c = true).
  { cbn [nonempty_digits forallb] in He. apply andb_true_iff in He. tauto. }
  assert (H1 : ceqb c "-"%char = false).
  { apply ceqb_neq. intros ->. discriminate. }
  assert (H2 : ceqb c "+"%char = false).
  { apply ceqb_neq. intros ->. discriminate. }
  rewrite H1, H2, He, Hv. reflexivity.
Qed.

(* the regexp finds the same three parts as dpkg's parseversion *)
Lemma match_version_valid s :
  dpkg_valid s = true ->
  let '(e, rest) := split_epoch s in
  let '(u, r) := split_revision rest in
  match_version s = Some (match e with Some t => t | None => [] end, u,
                          match r with Some t => t | None => [] end)
  /\ forallb valid_char u = true
  /\ forallb valid_char (match r with Some t => t | None => [] end) = true.
Proof.
  unfold dpkg_valid, valid_with, split_epoch.
  destruct (cut [":"%char] s) as [[e rest]|] eqn:C.
  - destruct (split_revision rest) as [u r] eqn:R.
    rewrite !andb_true_iff. intros [[He Hu] Hr].
    destruct (split_ur_valid rest u r R Hu Hr) as (S1 & S2 & S3).
    split; [|split; assumption].
    destruct (cut1_spec _ _ _ _ C) as [-> _].
    cbn [epoch_ok] in He. apply andb_true_iff in He. destruct He as [He _].
    destruct (nonempty_digits_all e He) as [Hne Hd].
    unfold match_version. rewrite (span_digits_app e ":"%char rest Hd eq_refl).
    destruct e as [|x e]; [contradiction|]. rewrite ceqb_refl, S1. reflexivity.
  - destruct (split_revision s) as [u r] eqn:R.
    rewrite !andb_true_iff. intros [[_ Hu] Hr].
    destruct (split_ur_valid s u r R Hu Hr) as (S1 & S2 & S3).
    split; [|split; assumption].
    unfold match_version, span.
    pose proof (contains_c_drop_while ":"%char is_digit s (cut1_none_inv _ _ C)) as Hn.
    destruct (take_while is_digit s) as [|x ds].
    + rewrite S1. reflexivity.
    + destruct (drop_while is_digit s) as [|c rest'].
      * rewrite S1. reflexivity.
      * unfold contains_c in Hn. cbn [existsb] in Hn. apply orb_false_iff in Hn.
        destruct Hn as [Hn _]. rewrite ceqb_neq in Hn.
        assert (Hc : ceqb c ":"%char = false) by (apply ceqb_neq; congruence).
        rewrite Hc, S1. reflexivity.
Qed.

(* the core the model computes for a dpkg-valid string *)
Definition core_of_evr (t : N * bytes * bytes) : core :=
  {| epoch := Z.of_N (fst (fst t)); upstream := snd (fst t); revision := snd t |}.

Theorem parse_core_valid s :
  dpkg_valid s = true -> parse_core s = Some (core_of_evr (split_evr s)).
Proof.
  intros Hv. pose proof (match_version_valid s Hv) as M.
  unfold split_evr, core_of_evr.
  unfold dpkg_valid, valid_with in Hv.
  destruct (split_epoch s) as [e rest]. destruct (split_revision rest) as [u r].
  destruct M as (M & Vu & Vr).
  rewrite !andb_true_iff in Hv. destruct Hv as [[He Hu] Hr].
  cbn [fst snd].
  assert (Hs : s <> []).
  { intros ->. vm_compute in M. discriminate. }
  unfold parse_core. destruct s as [|c0 s0]; [contradiction|]. rewrite M.
  assert (Hep : (match (match e with Some t => t | None => [] end) with
                 | [] => Some 0%Z | _ :: _ => atoi (match e with Some t => t | None => [] end) end)
                = Some (Z.of_N (match e with Some t => digits_val t | None => 0%N end))).
  { destruct e as [t|]; [|reflexivity]. cbn [epoch_ok] in He.
    apply andb_true_iff in He. destruct He as [Hd Hm].
    rewrite (atoi_digits t Hd (int_max_lt_two63 _ Hm)).
    destruct t; [discriminate|reflexivity]. }
  rewrite Hep.
  destruct u as [|c u]; [discriminate|].
  cbn [upstream_ok] in Hu. apply andb_true_iff in Hu. destruct Hu as [Hc _].
  rewrite Hc, Vu. cbn [andb].
  match goal with |- (if ?b then _ else _) = _ => replace b with true by (symmetry; exact Vr) end.
  reflexivity.
Qed.

(* ---------- the comparison of one component ---------- *)

Lemma tokens_fuel_same k s : Version.tokens_fuel k s = Dpkg.tokens_fuel k s.
Proof.
  revert s. induction k as [|k IH]; intros s; [reflexivity|].
  destruct s as [|c s]; [reflexivity|].
  cbn [Version.tokens_fuel Dpkg.tokens_fuel].
  change Version.is_nondigit with Dpkg.is_nondigit.
  destruct (span Dpkg.is_nondigit (c :: s)) as [nd r].
  destruct (span is_digit r) as [d r']. rewrite IH. reflexivity.
Qed.

Lemma tokens_same s : Version.tokens s = Dpkg.tokens s.
Proof. apply tokens_fuel_same. Qed.

(* getDebianCharWeight is dpkg's order() on every byte that can stand in a non-digit run,
   except NUL (which no accepted version contains) *)
Lemma weight_order c : is_digit c = false -> (code c =? 0)%N = false -> weight c = order c.
Proof.
  destruct c as [[] [] [] [] [] [] [] []]; vm_compute; congruence.
Qed.

Definition clean_c (c : ascii) : bool := negb (is_digit c) && negb (code c =? 0)%N.
Definition clean_tok (t : bytes * bytes) : Prop := forallb clean_c (fst t) = true.

Lemma map_weight_order x : forallb clean_c x = true -> map weight x = map order x.
Proof.
  induction x as [|c x IH]; cbn [forallb map]; intros H; [reflexivity|].
  apply andb_true_iff in H. destruct H as [Hc Hx]. unfold clean_c in Hc.
  apply andb_true_iff in Hc. destruct Hc as [H1 H2].
  apply negb_true_iff in H1, H2. rewrite (weight_order c H1 H2), (IH Hx). reflexivity.
Qed.

Lemma token_cmp_same t1 t2 : clean_tok t1 -> clean_tok t2 -> token_cmp t1 t2 = cmp_token t1 t2.
Proof.
  unfold clean_tok, token_cmp, cmp_token, lex2, nondigits_cmp, cmp_nondigit, cmp_digits.
  intros H1 H2. rewrite (map_weight_order _ H1), (map_weight_order _ H2). reflexivity.
Qed.

Lemma lex_pad_ext_on {A} (P : A -> Prop) pad (c1 c2 : A -> A -> comparison) l1 l2 :
  P pad -> (forall x y, P x -> P y -> c1 x y = c2 x y) ->
  Forall P l1 -> Forall P l2 -> lex_pad pad c1 l1 l2 = lex_pad pad c2 l1 l2.
Proof.
  intros Hp He. revert l2. induction l1 as [|x l1 IH]; intros l2 H1 H2.
  - cbn [lex_pad]. induction H2 as [|y l2 Hy H2 IH2]; cbn [lex_pad_l]; [reflexivity|].
    rewrite (He pad y Hp Hy), IH2. reflexivity.
  - inversion H1 as [|? ? Hx H1']; subst. cbn [lex_pad].
    destruct l2 as [|y l2].
    + rewrite (He x pad Hx Hp), (IH [] H1' (Forall_nil _)). reflexivity.
    + inversion H2 as [|? ? Hy H2']; subst.
      rewrite (He x y Hx Hy), (IH l2 H1' H2'). reflexivity.
Qed.

Definition nonnul (s : bytes) : bool := forallb (fun c => negb (code c =? 0)%N) s.

Lemma take_while_self p (s : bytes) : forallb p (take_while p s) = true.
Proof.
  induction s as [|c s IH]; cbn [take_while]; [reflexivity|].
  destruct (p c) eqn:E; [|reflexivity]. cbn [forallb]. rewrite E, IH. reflexivity.
Qed.

Lemma tokens_fuel_clean k s : nonnul s = true -> Forall clean_tok (Version.tokens_fuel k s).
Proof.
  revert s. induction k as [|k IH]; intros s Hs; [constructor|].
  destruct s as [|c s]; [constructor|].
  cbn [Version.tokens_fuel]. unfold span.
  constructor.
  - unfold clean_tok. cbn [fst].
    pose proof (take_while_self Version.is_nondigit (c :: s)) as H1.
    pose proof (take_while_forall Version.is_nondigit _ (c :: s) Hs) as H2.
    rewrite forallb_forall in *. intros x Hx. unfold clean_c.
    specialize (H1 x Hx). specialize (H2 x Hx). unfold Version.is_nondigit in H1.
    rewrite H1, H2. reflexivity.
  - apply IH. unfold nonnul in *. apply (drop_while_forall is_digit), (drop_while_forall Version.is_nondigit). assumption.
Qed.

Theorem vstring_cmp_verrevcmp a b :
  nonnul a = true -> nonnul b = true -> vstring_cmp a b = verrevcmp a b.
Proof.
  intros Ha Hb. unfold vstring_cmp, verrevcmp. rewrite <- (tokens_same a), <- (tokens_same b).
  apply (lex_pad_ext_on clean_tok).
  - reflexivity.
  - apply token_cmp_same.
  - apply tokens_fuel_clean; assumption.
  - apply tokens_fuel_clean; assumption.
Qed.

Lemma valid_nonnul s : forallb valid_char s = true -> nonnul s = true.
Proof.
  unfold nonnul. apply forallb_impl. intros c H. rewrite (valid_char_not_nul c H). reflexivity.
Qed.

(* ---------- the implicit revision ---------- *)

Notation rev0 := implicit0.

Lemma verrevcmp_rev0 r : verrevcmp (rev0 r) r = Eq.
Proof.
  destruct r as [|c r]; [vm_compute; reflexivity|]. apply (tp_refl TP_verrevcmp).
Qed.

Lemma verrevcmp_rev0_both r1 r2 : verrevcmp (rev0 r1) (rev0 r2) = verrevcmp r1 r2.
Proof.
  rewrite (tp_eq_l TP_verrevcmp _ _ (rev0 r2) (verrevcmp_rev0 r1)).
  apply (tp_eq_r TP_verrevcmp _ _ r1 (verrevcmp_rev0 r2)).
Qed.

Lemma rev0_nonnul r : nonnul r = true -> nonnul (rev0 r) = true.
Proof. destruct r; [reflexivity|auto]. Qed.

(* ---------- the main theorems ---------- *)

(* on cores whose upstream and revision texts contain no NUL byte, Compare is dpkg's
   (epoch, upstream, revision) comparison *)
Theorem cmp_core_cmp_evr e1 u1 r1 e2 u2 r2 :
  nonnul u1 = true -> nonnul r1 = true -> nonnul u2 = true -> nonnul r2 = true ->
  cmp_core (core_of_evr (e1, u1, r1)) (core_of_evr (e2, u2, r2)) = cmp_evr (e1, u1, r1) (e2, u2, r2).
Proof.
  intros Hu1 Hr1 Hu2 Hr2.
  unfold cmp_core, cmp_evr, lexc, lex2, cmp_on, core_of_evr, revision0. cbn [fst snd epoch upstream revision].
  rewrite N2Z.inj_compare.
  rewrite (vstring_cmp_verrevcmp u1 u2 Hu1 Hu2).
  rewrite (vstring_cmp_verrevcmp _ _ (rev0_nonnul _ Hr1) (rev0_nonnul _ Hr2)).
  rewrite verrevcmp_rev0_both.
  destruct (e1 ?= e2)%N; reflexivity.
Qed.

Lemma split_evr_nonnul s :
  dpkg_valid s = true ->
  nonnul (snd (fst (split_evr s))) = true /\ nonnul (snd (split_evr s)) = true.
Proof.
  intros Hv. pose proof (match_version_valid s Hv) as M. unfold split_evr.
  destruct (split_epoch s) as [e rest]. destruct (split_revision rest) as [u r].
  destruct M as (_ & Vu & Vr). cbn [fst snd]. split; apply valid_nonnul; assumption.
Qed.

(* C-spec: for dpkg-valid strings the parser accepts both and Compare is dpkg's order *)
Theorem debian_cmp_is_dpkg a b :
  dpkg_valid a = true -> dpkg_valid b = true ->
  exists ca cb, parse_core a = Some ca /\ parse_core b = Some cb /\
                cmp_core ca cb = dpkg_cmp a b.
Proof.
  intros Ha Hb.
  exists (core_of_evr (split_evr a)), (core_of_evr (split_evr b)).
  split; [apply parse_core_valid; assumption|].
  split; [apply parse_core_valid; assumption|].
  destruct (split_evr_nonnul a Ha) as [A1 A2]. destruct (split_evr_nonnul b Hb) as [B1 B2].
  unfold dpkg_cmp.
  destruct (split_evr a) as [[e1 u1] r1]. destruct (split_evr b) as [[e2 u2] r2].
  cbn [fst snd] in *. apply cmp_core_cmp_evr; assumption.
Qed.

(* ---------- the same at the string-level interface (NewVersion + Compare) ---------- *)

Lemma upstream_char_not_space c : is_upstream_char c = true -> negb (is_space c) = true.
Proof. destruct c as [[] [] [] [] [] [] [] []]; vm_compute; congruence. Qed.
Lemma revision_char_not_space c : is_revision_char c = true -> negb (is_space c) = true.
Proof. destruct c as [[] [] [] [] [] [] [] []]; vm_compute; congruence. Qed.
Lemma digit_not_space c : is_digit c = true -> negb (is_space c) = true.
Proof. destruct c as [[] [] [] [] [] [] [] []]; vm_compute; congruence. Qed.

Lemma rest_no_space rest :
  (let '(u, r) := split_revision rest in
   upstream_ok is_upstream_char u && revision_ok r) = true -> no_space rest = true.
Proof.
  unfold split_revision. destruct (cut_last_c "-"%char rest) as [[u r]|] eqn:C.
  - destruct (cut_last_spec _ _ _ _ C) as [-> _].
    rewrite andb_true_iff. intros [Hu Hr].
    rewrite no_space_app. apply andb_true_iff. split.
    + destruct u as [|c u]; [discriminate|]. cbn [upstream_ok] in Hu.
      apply andb_true_iff in Hu. destruct Hu as [Hc Hu]. unfold no_space. cbn [forallb].
      rewrite (digit_not_space c Hc). exact (forallb_impl _ _ _ upstream_char_not_space Hu).
    + unfold no_space. cbn [forallb]. destruct r as [|d r]; [discriminate|].
      cbn [revision_ok] in Hr. exact (forallb_impl _ _ _ revision_char_not_space Hr).
  - rewrite andb_true_iff. intros [Hu _].
    destruct rest as [|c u]; [discriminate|]. cbn [upstream_ok] in Hu.
    apply andb_true_iff in Hu. destruct Hu as [Hc Hu]. unfold no_space. cbn [forallb].
    rewrite (digit_not_space c Hc). exact (forallb_impl _ _ _ upstream_char_not_space Hu).
Qed.

Lemma dpkg_valid_no_space s : dpkg_valid s = true -> no_space s = true.
Proof.
  unfold dpkg_valid, valid_with, split_epoch.
  destruct (cut [":"%char] s) as [[e rest]|] eqn:C.
  - destruct (cut1_spec _ _ _ _ C) as [-> _].
    intros H.
    assert (He : epoch_ok (Some e) = true /\
                 (let '(u, r) := split_revision rest in
                  upstream_ok is_upstream_char u && revision_ok r) = true).
    { destruct (split_revision rest) as [u r]. rewrite !andb_true_iff in *. tauto. }
    destruct He as [He Hr]. cbn [epoch_ok] in He. apply andb_true_iff in He.
    destruct He as [He _]. destruct (nonempty_digits_all e He) as [_ Hd].
    rewrite no_space_app. apply andb_true_iff. split.
    + exact (forallb_impl _ _ _ digit_not_space Hd).
    + unfold no_space. cbn [forallb]. exact (rest_no_space rest Hr).
  - intros H. apply rest_no_space. destruct (split_revision s) as [u r].
    rewrite !andb_true_iff in *. tauto.
Qed.

(* NewVersion accepts every dpkg-valid string and String() gives it back *)
Theorem debian_accepts_dpkg_valid s :
  spec_valid s = true -> v_show Entry.v s = Some s.
Proof.
  intros Hv. unfold spec_valid in Hv.
  unfold Entry.v, mk_vops. cbn [v_show]. unfold VLayer.parse.
  rewrite (trim_space_no_space s (dpkg_valid_no_space s Hv)), (parse_core_valid s Hv).
  reflexivity.
Qed.

(* Compare of two dpkg-valid strings is the reference order *)
Theorem debian_v_cmp_is_spec a b :
  spec_valid a = true -> spec_valid b = true -> v_cmp Entry.v a b = spec_cmp a b.
Proof.
  intros Ha Hb. rewrite (spec_cmp_some a b Ha Hb). unfold spec_valid in *.
  unfold Entry.v, mk_vops. cbn [v_cmp]. unfold VLayer.parse.
  rewrite (trim_space_no_space a (dpkg_valid_no_space a Ha)), (parse_core_valid a Ha).
  rewrite (trim_space_no_space b (dpkg_valid_no_space b Hb)), (parse_core_valid b Hb).
  unfold VLayer.cmp. cbn [v_core]. f_equal.
  destruct (split_evr_nonnul a Ha) as [A1 A2]. destruct (split_evr_nonnul b Hb) as [B1 B2].
  unfold dpkg_cmp.
  destruct (split_evr a) as [[e1 u1] r1]. destruct (split_evr b) as [[e2 u2] r2].
  cbn [fst snd] in *. apply cmp_core_cmp_evr; assumption.
Qed.

Print Assumptions parse_core_valid.
Print Assumptions debian_cmp_is_dpkg.
Print Assumptions debian_accepts_dpkg_valid.
Print Assumptions debian_v_cmp_is_spec.
