(* Eco/Debian/Version.v — model of pkg/ecosystem/debian/version.go (definitions only). *)
From Verif.Base Require Import Bytes GoNum.
From Verif.Eco Require Import VLayer.
Local Open Scope N_scope.

Record core := { epoch : Z; upstream : bytes; revision : bytes }.

(* ---------- NewVersion ---------- *)

Definition is_nl (c : ascii) : bool := code c =? 10.
Definition is_hyphen (c : ascii) : bool := ceqb c "-"%char.

(* the tail  (.+?)(?:-([^-]+))?$  of versionPattern, anchored at the start of [rest]:
   the lazy group takes the shortest non-empty, newline-free prefix after which either
   "-" + (non-empty, hyphen-free) or nothing remains: the split is at the LAST hyphen, provided
   that hyphen is neither the first nor the last byte; otherwise the whole text is the upstream
   part and there is no revision. *)
Definition split_ur (rest : bytes) : option (bytes * bytes) :=
  match rest with
  | [] => None
  | _ :: _ =>
      if any_b is_nl rest then
        (* "." does not match a newline; only the revision group could hold one *)
        match cut_last_c "-"%char rest with
        | Some (u, rv) =>
            match u, rv with
            | _ :: _, _ :: _ => if any_b is_nl u then None else Some (u, rv)
            | _, _ => None
            end
        | None => None
        end
      else
        match cut_last_c "-"%char rest with
        | Some (u, rv) =>
            match u, rv with
            | _ :: _, _ :: _ => Some (u, rv)
            | _, _ => Some (rest, [])
            end
        | None => Some (rest, [])
        end
  end.

(* versionPattern ^(?:(\d+):)?(.+?)(?:-([^-]+))?$ : (epoch text, upstream, revision).
   The optional epoch group is tried first (greedy "?"); when the rest of the pattern cannot
   match after it, the regexp engine backtracks and tries without the epoch group. *)
Definition match_version (t : bytes) : option (bytes * bytes * bytes) :=
  let (ds, r) := span is_digit t in
  let with_epoch :=
    match ds, r with
    | _ :: _, c :: rest =>
        if ceqb c ":"%char
        then match split_ur rest with
             | Some (u, rv) => Some (ds, u, rv)
             | None => None
             end
        else None
    | _, _ => None
    end in
  match with_epoch with
  | Some m => Some m
  | None => match split_ur t with
            | Some (u, rv) => Some ([], u, rv)
            | None => None
            end
  end.

(* isValidVersionChar (ASCII) *)
Definition valid_char (c : ascii) : bool :=
  is_letter c || is_digit c || ceqb c "."%char || ceqb c "+"%char || ceqb c "-"%char
  || ceqb c "~"%char.

Definition parse_core (t : bytes) : option core :=
  match t with
  | [] => None
  | _ :: _ =>
      match match_version t with
      | None => None
      | Some (e, u, rv) =>
          match (match e with [] => Some 0%Z | _ :: _ => atoi e end) with
          | None => None
          | Some ep =>
              match u with
              | [] => None
              | c :: _ =>
                  if is_digit c && forallb valid_char u && forallb valid_char rv
                  then Some {| epoch := ep; upstream := u; revision := rv |}
                  else None
              end
          end
      end
  end.

(* ---------- Compare ---------- *)

Definition is_nondigit (c : ascii) : bool := negb (is_digit c).

(* compareDebianVersionString reads both strings as sequences of rounds
   (maximal non-digit run, maximal digit run); an exhausted string yields empty runs.
   fuel = length s + 1: a round on a non-empty string consumes at least one byte. *)
Fixpoint tokens_fuel (fuel : nat) (s : bytes) : list (bytes * bytes) :=
  match fuel with
  | O => []
  | S k =>
      match s with
      | [] => []
      | _ :: _ =>
          let (nd, r) := span is_nondigit s in
          let (d, r') := span is_digit r in
          (nd, d) :: tokens_fuel k r'
      end
  end.
Definition tokens (s : bytes) : list (bytes * bytes) := tokens_fuel (S (length s)) s.

(* getDebianCharWeight *)
Definition weight (c : ascii) : Z :=
  if ceqb c "~"%char then (-1)%Z
  else if code c =? 0 then 0%Z
  else if is_letter c then Z.of_N (code c)
  else (Z.of_N (code c) + 256)%Z.

(* compareDebianNonDigits: position by position, a missing character weighs 0 *)
Definition nondigits_cmp (x y : bytes) : comparison :=
  lex_pad 0%Z Z.compare (map weight x) (map weight y).

(* compareDebianDigits: strip leading zeros, then length, then strings.Compare *)
Definition token_cmp : bytes * bytes -> bytes * bytes -> comparison :=
  lex2 nondigits_cmp digits_cmp.

Definition empty_token : bytes * bytes := ([], []).

(* compareDebianVersionString *)
Definition vstring_cmp (a b : bytes) : comparison :=
  lex_pad empty_token token_cmp (tokens a) (tokens b).

(* "Native packages (no revision) have implicit revision 0" *)
Definition implicit0 (r : bytes) : bytes :=
  match r with [] => $"0" | _ :: _ => r end.
Definition revision0 (c : core) : bytes := implicit0 (revision c).

Definition cmp_core : core -> core -> comparison :=
  lexc (cmp_on epoch Z.compare)
       (lexc (cmp_on upstream vstring_cmp) (cmp_on revision0 vstring_cmp)).

Definition raw_orig := true.

Definition ver := VLayer.ver core.
Definition parse : bytes -> option ver := VLayer.parse parse_core raw_orig.
Definition cmp : ver -> ver -> comparison := VLayer.cmp cmp_core.
Definition show : ver -> bytes := VLayer.show.
