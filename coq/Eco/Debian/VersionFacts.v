From Verif.Base Require Import Bytes GoNum Ord BytesFacts.
From Verif.Eco Require Import VLayer VLayerFacts.
From Verif.Eco.Debian Require Import Version.

Lemma TP_nondigits_cmp : TotalPreorder nondigits_cmp.
Proof.
  apply (TP_on _ _ (map weight) (lex_pad 0%Z Z.compare)), TP_lex_pad, TP_Z.
Qed.

Lemma TP_token_cmp : TotalPreorder token_cmp.
Proof. apply TP_lex2; [apply TP_nondigits_cmp | apply TP_digits_cmp]. Qed.

Lemma TP_vstring_cmp : TotalPreorder vstring_cmp.
Proof.
  apply (TP_on _ _ tokens (lex_pad empty_token token_cmp)), TP_lex_pad, TP_token_cmp.
Qed.

Lemma cmp_core_tp : TotalPreorder cmp_core.
Proof.
  unfold cmp_core. apply TP_lexc; [apply TP_on, TP_Z|].
  apply TP_lexc; apply TP_on, TP_vstring_cmp.
Qed.

Lemma cmp_tp : TotalPreorder cmp.
Proof. apply VLayerFacts.cmp_tp, cmp_core_tp. Qed.

Print Assumptions cmp_tp.

(* =====================================================================================
   C03: what the order does on the usual shapes of version strings
   ===================================================================================== *)
From Coq Require Import Lia ZifyBool.
From Verif.Eco.Debian Require Import DecFacts.

(* ---------- take_while / drop_while ---------- *)

Definition hd_fails (p : ascii -> bool) (b : bytes) : Prop :=
  match b with [] => True | c :: _ => p c = false end.

Lemma take_drop p (s : bytes) : take_while p s ++ drop_while p s = s.
Proof.
  induction s as [|c s IH]; cbn [take_while drop_while]; [reflexivity|].
  destruct (p c); [cbn [app]; rewrite IH|]; reflexivity.
Qed.

Lemma drop_while_hd p (s : bytes) : hd_fails p (drop_while p s).
Proof.
  induction s as [|c s IH]; cbn [drop_while]; [exact I|].
  destruct (p c) eqn:E; [exact IH|exact E].
Qed.

Lemma take_while_all p (s : bytes) : forallb p (take_while p s) = true.
Proof.
  induction s as [|c s IH]; cbn [take_while]; [reflexivity|].
  destruct (p c) eqn:E; [|reflexivity]. cbn [forallb]. rewrite E, IH. reflexivity.
Qed.

Lemma take_while_app_all p (a b : bytes) :
  forallb p a = true -> take_while p (a ++ b) = a ++ take_while p b.
Proof.
  induction a as [|x a IH]; cbn [forallb app take_while]; intros H; [reflexivity|].
  apply andb_true_iff in H. destruct H as [Hx Ha]. rewrite Hx, (IH Ha). reflexivity.
Qed.

Lemma take_while_hd_fails p (b : bytes) : hd_fails p b -> take_while p b = [].
Proof. destruct b as [|c b]; cbn; [reflexivity|]. intros ->. reflexivity. Qed.

Lemma drop_while_hd_fails p (b : bytes) : hd_fails p b -> drop_while p b = b.
Proof. destruct b as [|c b]; cbn; [reflexivity|]. intros ->. reflexivity. Qed.

Lemma span_app p (a b : bytes) :
  forallb p a = true -> hd_fails p b ->
  take_while p (a ++ b) = a /\ drop_while p (a ++ b) = b.
Proof.
  intros Ha Hb. split.
  - rewrite (take_while_app_all p a b Ha), (take_while_hd_fails p b Hb). apply app_nil_r.
  - rewrite (drop_while_app_all p a b Ha). apply drop_while_hd_fails. assumption.
Qed.

Lemma take_while_id p (s : bytes) : forallb p s = true -> take_while p s = s.
Proof.
  intros H. rewrite <- (app_nil_r s) at 1. apply span_app; [assumption|exact I].
Qed.

Lemma take_while_forall p q (s : bytes) :
  forallb q s = true -> forallb q (take_while p s) = true.
Proof.
  induction s as [|c s IH]; cbn [take_while forallb]; intros H; [reflexivity|].
  apply andb_true_iff in H. destruct H as [Hc Hs].
  destruct (p c); [|reflexivity]. cbn [forallb]. rewrite Hc, (IH Hs). reflexivity.
Qed.

Lemma drop_while_forall p q (s : bytes) :
  forallb q s = true -> forallb q (drop_while p s) = true.
Proof.
  induction s as [|c s IH]; cbn [drop_while forallb]; intros H; [reflexivity|].
  apply andb_true_iff in H. destruct H as [Hc Hs].
  destruct (p c); [apply IH; assumption|]. cbn [forallb]. rewrite Hc, Hs. reflexivity.
Qed.

Lemma drop_while_len p (s : bytes) : (length (drop_while p s) <= length s)%nat.
Proof. induction s as [|c s IH]; cbn [drop_while length]; [lia|]. destruct (p c); cbn [length]; lia. Qed.

(* ---------- one round of compareDebianVersionString ---------- *)

Definition tok1 (s : bytes) : bytes * bytes :=
  (take_while is_nondigit s, take_while is_digit (drop_while is_nondigit s)).
Definition rest1 (s : bytes) : bytes := drop_while is_digit (drop_while is_nondigit s).

Lemma tokens_fuel_cons k c s :
  tokens_fuel (S k) (c :: s) = tok1 (c :: s) :: tokens_fuel k (rest1 (c :: s)).
Proof. reflexivity. Qed.

Lemma rest1_len_cons c s : (length (rest1 (c :: s)) <= length s)%nat.
Proof.
  unfold rest1. cbn [drop_while]. unfold is_nondigit at 1.
  destruct (is_digit c) eqn:E; cbn [negb].
  - cbn [drop_while]. rewrite E. apply drop_while_len.
  - pose proof (drop_while_len is_digit (drop_while is_nondigit s)).
    pose proof (drop_while_len is_nondigit s). lia.
Qed.

Lemma tokens_fuel_enough k k' s :
  (length s < k)%nat -> (length s < k')%nat -> tokens_fuel k s = tokens_fuel k' s.
Proof.
  revert k' s. induction k as [|k IH]; intros k' s H H'; [lia|].
  destruct k' as [|k']; [lia|].
  destruct s as [|c s]; [reflexivity|].
  rewrite !tokens_fuel_cons. f_equal.
  pose proof (rest1_len_cons c s). cbn [length] in H, H'. apply IH; lia.
Qed.

Lemma tokens_cons c s : tokens (c :: s) = tok1 (c :: s) :: tokens (rest1 (c :: s)).
Proof.
  unfold tokens at 1. cbn [length]. rewrite tokens_fuel_cons. f_equal.
  pose proof (rest1_len_cons c s). apply tokens_fuel_enough; lia.
Qed.

Lemma vstring_cmp_step a b :
  a <> [] \/ b <> [] ->
  vstring_cmp a b = thenc (token_cmp (tok1 a) (tok1 b)) (vstring_cmp (rest1 a) (rest1 b)).
Proof.
  intros H. unfold vstring_cmp.
  destruct a as [|x a]; destruct b as [|y b].
  - destruct H; congruence.
  - rewrite tokens_cons. reflexivity.
  - rewrite tokens_cons. reflexivity.
  - rewrite !tokens_cons. reflexivity.
Qed.

Lemma thenc_neq c x : c <> Eq -> thenc c x = c.
Proof. destruct c; cbn; congruence. Qed.
Lemma thenc_Eq_r c : thenc c Eq = c.
Proof. destruct c; reflexivity. Qed.

(* ---------- C03 (a): dotted numeric versions compare as tuples of integers ---------- *)

Definition numtext (t : list N) : bytes := join $"." (map dec t).

Lemma numtext_cons2 n m t : numtext (n :: m :: t) = dec n ++ "."%char :: numtext (m :: t).
Proof. reflexivity. Qed.

Definition dot_tok (m : N) : bytes * bytes := ($".", dec m).

Lemma hd_fails_dot_digit s : hd_fails is_digit ("."%char :: s).
Proof. reflexivity. Qed.

Lemma dec_hd_digit n s : hd_fails is_nondigit (dec n ++ s).
Proof.
  pose proof (dec_nonempty n) as H1. pose proof (dec_digits n) as H2.
  destruct (dec n) as [|c d]; [contradiction|]. cbn [forallb] in H2.
  apply andb_true_iff in H2. destruct H2 as [Hc _]. cbn. unfold is_nondigit. rewrite Hc. reflexivity.
Qed.

(* tokens of ".m1.m2...": one round per component *)
Lemma tokens_dot_num m t : tokens ("."%char :: numtext (m :: t)) = map dot_tok (m :: t).
Proof.
  revert m. induction t as [|m' t IH]; intros m.
  - rewrite tokens_cons. unfold numtext. cbn [map join].
    assert (T : tok1 ("."%char :: dec m) = dot_tok m /\ rest1 ("."%char :: dec m) = []).
    { unfold tok1, rest1.
      destruct (span_app is_nondigit ["."%char] (dec m) eq_refl) as [E1 E2].
      { rewrite <- (app_nil_r (dec m)). apply dec_hd_digit. }
      cbn [app] in E1, E2. rewrite E1, E2.
      rewrite (take_while_id is_digit (dec m) (dec_digits m)).
      pose proof (proj2 (drop_while_nil_iff is_digit (dec m)) (dec_digits m)) as D. rewrite D.
      split; reflexivity. }
    destruct T as [-> ->]. reflexivity.
  - rewrite tokens_cons, numtext_cons2.
    assert (T : tok1 ("."%char :: dec m ++ "."%char :: numtext (m' :: t)) = dot_tok m /\
                rest1 ("."%char :: dec m ++ "."%char :: numtext (m' :: t)) = "."%char :: numtext (m' :: t)).
    { unfold tok1, rest1.
      destruct (span_app is_nondigit ["."%char] (dec m ++ "."%char :: numtext (m' :: t)) eq_refl
                  (dec_hd_digit m _)) as [E1 E2].
      cbn [app] in E1, E2. rewrite E1, E2.
      destruct (span_app is_digit (dec m) ("."%char :: numtext (m' :: t)) (dec_digits m)
                  (hd_fails_dot_digit _)) as [E3 E4].
      rewrite E3, E4. split; reflexivity. }
    destruct T as [-> ->]. rewrite IH. reflexivity.
Qed.

Lemma tokens_num n t : tokens (numtext (n :: t)) = ([], dec n) :: map dot_tok t.
Proof.
  pose proof (dec_nonempty n) as Hne.
  destruct t as [|m t].
  - unfold numtext. cbn [map join]. destruct (dec n) as [|c d] eqn:E; [contradiction|].
    rewrite tokens_cons, <- E.
    assert (T : tok1 (dec n) = ([], dec n) /\ rest1 (dec n) = []).
    { unfold tok1, rest1.
      pose proof (dec_hd_digit n []) as H. rewrite app_nil_r in H.
      rewrite (take_while_hd_fails _ _ H), (drop_while_hd_fails _ _ H).
      rewrite (take_while_id is_digit (dec n) (dec_digits n)).
      rewrite (proj2 (drop_while_nil_iff is_digit (dec n)) (dec_digits n)). split; reflexivity. }
    destruct T as [-> ->]. reflexivity.
  - rewrite numtext_cons2.
    destruct (dec n ++ "."%char :: numtext (m :: t)) as [|c d] eqn:E.
    { destruct (dec n); discriminate. }
    rewrite tokens_cons, <- E.
    assert (T : tok1 (dec n ++ "."%char :: numtext (m :: t)) = ([], dec n) /\
                rest1 (dec n ++ "."%char :: numtext (m :: t)) = "."%char :: numtext (m :: t)).
    { unfold tok1, rest1.
      pose proof (dec_hd_digit n ("."%char :: numtext (m :: t))) as H.
      rewrite (take_while_hd_fails _ _ H), (drop_while_hd_fails _ _ H).
      destruct (span_app is_digit (dec n) ("."%char :: numtext (m :: t)) (dec_digits n)
                  (hd_fails_dot_digit _)) as [E3 E4].
      rewrite E3, E4. split; reflexivity. }
    destruct T as [-> ->]. rewrite tokens_dot_num. reflexivity.
Qed.

Lemma token_cmp_dot a b : token_cmp (dot_tok a) (dot_tok b) = (a ?= b)%N.
Proof.
  unfold token_cmp, lex2, dot_tok. cbn [fst snd].
  replace (nondigits_cmp $"." $".") with Eq by (vm_compute; reflexivity).
  cbn [thenc]. apply digits_cmp_dec.
Qed.

Lemma token_cmp_pad_dot m : token_cmp empty_token (dot_tok m) = Lt.
Proof.
  unfold token_cmp, lex2, dot_tok, empty_token. cbn [fst snd].
  replace (nondigits_cmp [] $".") with Lt by (vm_compute; reflexivity). reflexivity.
Qed.

Lemma token_cmp_dot_pad m : token_cmp (dot_tok m) empty_token = Gt.
Proof.
  unfold token_cmp, lex2, dot_tok, empty_token. cbn [fst snd].
  replace (nondigits_cmp $"." []) with Gt by (vm_compute; reflexivity). reflexivity.
Qed.

Lemma lex_pad_dot t1 t2 :
  lex_pad empty_token token_cmp (map dot_tok t1) (map dot_tok t2) = lex_short N.compare t1 t2.
Proof.
  revert t2. induction t1 as [|a t1 IH]; intros [|b t2]; cbn [map lex_pad lex_pad_l lex_short].
  - reflexivity.
  - rewrite token_cmp_pad_dot. reflexivity.
  - rewrite token_cmp_dot_pad. reflexivity.
  - rewrite token_cmp_dot, IH. reflexivity.
Qed.

(* a longer tuple with a common prefix is greater: 1.0 > 1 *)
Theorem vstring_cmp_num t1 t2 :
  t1 <> [] -> t2 <> [] ->
  vstring_cmp (numtext t1) (numtext t2) = lex_short N.compare t1 t2.
Proof.
  intros H1 H2. destruct t1 as [|a t1]; [contradiction|]. destruct t2 as [|b t2]; [contradiction|].
  unfold vstring_cmp. rewrite !tokens_num. cbn [lex_pad lex_short].
  rewrite lex_pad_dot. f_equal.
  unfold token_cmp, lex2. cbn [fst snd].
  replace (nondigits_cmp [] []) with Eq by reflexivity. cbn [thenc]. apply digits_cmp_dec.
Qed.

(* the characters of a dotted numeric text *)
Definition numchar (c : ascii) : bool := is_digit c || ceqb c "."%char.

Lemma numtext_chars t : forallb numchar (numtext t) = true.
Proof.
  assert (D : forall n, forallb numchar (dec n) = true).
  { intros n. pose proof (dec_digits n) as H. rewrite forallb_forall in *.
    intros x Hx. unfold numchar. rewrite (H x Hx). reflexivity. }
  induction t as [|n t IH]; [reflexivity|].
  destruct t as [|m t]; [apply D|].
  rewrite numtext_cons2, forallb_app, D. cbn [forallb andb]. exact IH.
Qed.

Lemma numchar_facts c :
  numchar c = true -> valid_char c = true /\ is_nl c = false /\ ceqb "-"%char c = false
                      /\ ceqb c ":"%char = false.
Proof. destruct c as [[] [] [] [] [] [] [] []]; vm_compute; intuition congruence. Qed.

Lemma forallb_imp {A} (p q : A -> bool) l :
  (forall x, p x = true -> q x = true) -> forallb p l = true -> forallb q l = true.
Proof. intros H. rewrite !forallb_forall. auto. Qed.

Lemma existsb_none {A} (p q : A -> bool) l :
  (forall x, p x = true -> q x = false) -> forallb p l = true -> existsb q l = false.
Proof.
  intros H. induction l as [|x l IH]; cbn [forallb existsb]; intros Hl; [reflexivity|].
  apply andb_true_iff in Hl. destruct Hl as [Hx Hl]. rewrite (H x Hx), (IH Hl). reflexivity.
Qed.

Lemma cut1_none_c c s : contains_c c s = false -> cut [c] s = None.
Proof.
  unfold contains_c. induction s as [|x s IH]; intros H; [reflexivity|].
  cbn [existsb] in H. apply orb_false_iff in H. destruct H as [Hx Hs].
  cbn [cut has_prefix]. rewrite Hx. cbn [andb]. rewrite (IH Hs). reflexivity.
Qed.

Lemma existsb_rev {A} (p : A -> bool) l : existsb p (rev l) = existsb p l.
Proof.
  induction l as [|x l IH]; [reflexivity|]. cbn [rev existsb].
  rewrite existsb_app, IH. cbn [existsb]. rewrite orb_false_r. apply orb_comm.
Qed.

Lemma parse_core_plain s c r :
  s = c :: r -> is_digit c = true -> forallb valid_char s = true ->
  match_version s = Some ([], s, []) ->
  parse_core s = Some {| epoch := 0; upstream := s; revision := [] |}.
Proof.
  intros E Hd Hv Hm. unfold parse_core. rewrite Hm. subst s. cbv beta iota.
  rewrite Hd, Hv. reflexivity.
Qed.

(* every dotted numeric text of one or more components is accepted, as an upstream version
   without epoch and revision *)
Theorem parse_core_num t :
  t <> [] ->
  parse_core (numtext t) = Some {| epoch := 0; upstream := numtext t; revision := [] |}.
Proof.
  intros Ht. destruct t as [|n t]; [contradiction|].
  pose proof (numtext_chars (n :: t)) as Hc.
  set (s := numtext (n :: t)) in *.
  assert (Hv : forallb valid_char s = true).
  { apply (forallb_imp numchar); [|assumption]. intros x Hx. apply (numchar_facts x Hx). }
  assert (Hnl : any_b is_nl s = false).
  { apply (existsb_none numchar); [|assumption]. intros x Hx. apply (numchar_facts x Hx). }
  assert (Hhy : cut_last_c "-"%char s = None).
  { unfold cut_last_c. rewrite cut1_none_c; [reflexivity|].
    unfold contains_c. rewrite existsb_rev.
    apply (existsb_none numchar); [|assumption]. intros x Hx. apply (numchar_facts x Hx). }
  (* the text begins with the digits of the first component *)
  assert (Hhd : exists c r, s = c :: r /\ is_digit c = true).
  { pose proof (dec_nonempty n) as H1. pose proof (dec_digits n) as H2.
    unfold s. destruct t as [|m t].
    - unfold numtext. cbn [map join]. destruct (dec n) as [|c d]; [contradiction|].
      cbn [forallb] in H2. apply andb_true_iff in H2. exists c, d. tauto.
    - rewrite numtext_cons2. destruct (dec n) as [|c d]; [contradiction|].
      cbn [forallb] in H2. apply andb_true_iff in H2. eexists c, _. cbn [app]. tauto. }
  destruct Hhd as (c & r & Es & Hd).
  assert (Hsu : split_ur s = Some (s, [])).
  { unfold split_ur. rewrite Es. rewrite <- Es. rewrite Hnl, Hhy. reflexivity. }
  (* no epoch: the digit run is not followed by a colon *)
  assert (Hm : match_version s = Some ([], s, [])).
  { unfold match_version, span.
    assert (Hco : hd_fails (fun x => ceqb x ":"%char) (drop_while is_digit s)
                  \/ True) by (right; exact I).
    destruct (take_while is_digit s) as [|x ds]; [rewrite Hsu; reflexivity|].
    destruct (drop_while is_digit s) as [|y rest] eqn:Ed; [rewrite Hsu; reflexivity|].
    assert (Hy : numchar y = true).
    { pose proof (drop_while_forall is_digit numchar s Hc) as H. rewrite Ed in H.
      cbn [forallb] in H. apply andb_true_iff in H. tauto. }
    destruct (numchar_facts y Hy) as (_ & _ & _ & ->). rewrite Hsu. reflexivity. }
  exact (parse_core_plain s c r Es Hd Hv Hm).
Qed.

(* C03 (a): any arity >= 1, components of any size: Compare of "a.b.c" and "x.y" is the
   lexicographic comparison of the integer tuples (a proper prefix is smaller) *)
Theorem cmp_core_num t1 t2 c1 c2 :
  t1 <> [] -> t2 <> [] ->
  parse_core (numtext t1) = Some c1 -> parse_core (numtext t2) = Some c2 ->
  cmp_core c1 c2 = lex_short N.compare t1 t2.
Proof.
  intros H1 H2. rewrite (parse_core_num t1 H1), (parse_core_num t2 H2).
  intros E1 E2. injection E1 as <-. injection E2 as <-.
  unfold cmp_core, lexc, cmp_on, revision0. cbn [epoch upstream revision implicit0 Z.compare thenc].
  rewrite (vstring_cmp_num t1 t2 H1 H2).
  replace (vstring_cmp $"0" $"0") with Eq by (vm_compute; reflexivity).
  apply thenc_Eq_r.
Qed.

(* ---------- C03 (b): markers ---------- *)

Lemma nondigits_cmp_marker u m x :
  weight m <> 0%Z -> nondigits_cmp (u ++ m :: x) u = Z.compare (weight m) 0.
Proof.
  intros Hm. unfold nondigits_cmp. induction u as [|c u IH].
  - cbn [app map lex_pad]. apply thenc_neq. intros E. apply Z.compare_eq in E. contradiction.
  - cbn [app map lex_pad]. rewrite Z.compare_refl. exact IH.
Qed.

Lemma nondigits_cmp_refl x : nondigits_cmp x x = Eq.
Proof. apply (tp_refl TP_nondigits_cmp). Qed.

Lemma marker_cmp_neq m : weight m <> 0%Z -> Z.compare (weight m) 0 <> Eq.
Proof. intros H E. apply Z.compare_eq in E. contradiction. Qed.

(* after a run of non-digits *)
Lemma marker_base u m w :
  forallb is_nondigit u = true -> is_digit m = false -> weight m <> 0%Z ->
  vstring_cmp (u ++ m :: w) u = Z.compare (weight m) 0.
Proof.
  intros Hu Hm Hw.
  rewrite vstring_cmp_step by (left; destruct u; discriminate).
  assert (Hmn : is_nondigit m = true) by (unfold is_nondigit; rewrite Hm; reflexivity).
  assert (T1 : fst (tok1 (u ++ m :: w)) = u ++ m :: take_while is_nondigit w).
  { unfold tok1. cbn [fst]. rewrite (take_while_app_all _ u _ Hu). cbn [take_while].
    rewrite Hmn. reflexivity. }
  assert (T2 : fst (tok1 u) = u).
  { unfold tok1. cbn [fst]. apply take_while_id. assumption. }
  unfold token_cmp, lex2. rewrite T1, T2, nondigits_cmp_marker by assumption.
  rewrite (thenc_neq (Z.compare (weight m) 0) _ (marker_cmp_neq m Hw)).
  apply (thenc_neq _ _ (marker_cmp_neq m Hw)).
Qed.

(* A non-digit byte m appended to ANY text u (followed by anything) moves the text in the
   direction of m's weight: below u for '~', above u for every other non-digit byte
   (letters, '+', '.', '-'). *)
Theorem marker_cmp m w :
  is_digit m = false -> weight m <> 0%Z ->
  forall u, vstring_cmp (u ++ m :: w) u = Z.compare (weight m) 0.
Proof.
  intros Hm Hw u.
  remember (length u) as n eqn:Hn.
  assert (Hle : (length u <= n)%nat) by lia. clear Hn.
  revert u Hle. induction n as [|n IH]; intros u Hle.
  - destruct u; [|cbn in Hle; lia]. apply (marker_base [] m w eq_refl Hm Hw).
  - pose proof (take_drop is_nondigit u) as Eu.
    pose proof (take_while_all is_nondigit u) as Hnd.
    pose proof (drop_while_hd is_nondigit u) as Hh.
    set (nd := take_while is_nondigit u) in *.
    destruct (drop_while is_nondigit u) as [|c s1] eqn:Es1.
    + (* u is one run of non-digits *)
      rewrite app_nil_r in Eu. rewrite <- Eu. apply marker_base; assumption.
    + cbn in Hh. unfold is_nondigit in Hh. apply negb_false_iff in Hh.
      pose proof (take_drop is_digit (c :: s1)) as Es.
      pose proof (take_while_all is_digit (c :: s1)) as Hd.
      pose proof (drop_while_hd is_digit (c :: s1)) as Hr.
      assert (Hrl : (length (drop_while is_digit (c :: s1)) <= length s1)%nat).
      { cbn [drop_while]. rewrite Hh. apply drop_while_len. }
      assert (T2 : tok1 u = (nd, take_while is_digit (c :: s1)) /\
                   rest1 u = drop_while is_digit (c :: s1)).
      { unfold tok1, rest1. rewrite Es1. split; reflexivity. }
      set (d := take_while is_digit (c :: s1)) in *.
      set (r := drop_while is_digit (c :: s1)) in *.
      assert (Ea : u ++ m :: w = nd ++ (d ++ (r ++ m :: w))).
      { rewrite <- Eu, <- Es, <- !app_assoc. reflexivity. }
      assert (Hdne : hd_fails is_nondigit (d ++ (r ++ m :: w))).
      { unfold d. cbn [take_while]. rewrite Hh. cbn. unfold is_nondigit. rewrite Hh. reflexivity. }
      assert (Hrm : hd_fails is_digit (r ++ m :: w)).
      { destruct r as [|x r']; [exact Hm|exact Hr]. }
      assert (T1 : tok1 (u ++ m :: w) = (nd, d) /\ rest1 (u ++ m :: w) = r ++ m :: w).
      { unfold tok1, rest1. rewrite Ea.
        destruct (span_app is_nondigit nd _ Hnd Hdne) as [E1 E2]. rewrite E1, E2.
        destruct (span_app is_digit d _ Hd Hrm) as [E3 E4]. rewrite E3, E4.
        split; reflexivity. }
      rewrite vstring_cmp_step by (left; destruct u; discriminate).
      destruct T1 as [-> ->]. destruct T2 as [-> ->].
      rewrite (tp_refl TP_token_cmp). cbn [thenc].
      apply IH.
      assert (Hlu : length u = (length nd + S (length s1))%nat).
      { rewrite <- Eu, app_length. reflexivity. }
      lia.
Qed.

Lemma weight_tilde : weight "~"%char = (-1)%Z.
Proof. reflexivity. Qed.

(* '~' sorts before the end of the text: u~w < u  (pre-release marker) *)
Corollary tilde_lt u w : vstring_cmp (u ++ "~"%char :: w) u = Lt.
Proof. rewrite (marker_cmp "~"%char w eq_refl) by discriminate. reflexivity. Qed.

(* every other non-digit byte of the version alphabet sorts after the end of the text:
   u+w > u, u.w > u, uaw > u, u-w > u  (post-release markers) *)
Definition post_marker (c : ascii) : bool :=
  is_letter c || ceqb c "+"%char || ceqb c "."%char || ceqb c "-"%char.

Lemma post_marker_weight c : post_marker c = true -> is_digit c = false /\ (0 < weight c)%Z.
Proof. destruct c as [[] [] [] [] [] [] [] []]; vm_compute; intuition congruence. Qed.

Corollary post_marker_gt c u w : post_marker c = true -> vstring_cmp (u ++ c :: w) u = Gt.
Proof.
  intros H. destruct (post_marker_weight c H) as [Hd Hw].
  rewrite (marker_cmp c w Hd) by lia. apply Z.compare_gt_iff. lia.
Qed.

(* the same for parsed versions: a marker in the upstream part decides, whatever the revisions *)
Corollary cmp_core_tilde_lt e u w r r' :
  cmp_core {| epoch := e; upstream := u ++ "~"%char :: w; revision := r |}
           {| epoch := e; upstream := u; revision := r' |} = Lt.
Proof.
  unfold cmp_core, lexc, cmp_on. cbn [epoch upstream]. rewrite Z.compare_refl, tilde_lt. reflexivity.
Qed.

Corollary cmp_core_post_gt c e u w r r' :
  post_marker c = true ->
  cmp_core {| epoch := e; upstream := u ++ c :: w; revision := r |}
           {| epoch := e; upstream := u; revision := r' |} = Gt.
Proof.
  intros H. unfold cmp_core, lexc, cmp_on. cbn [epoch upstream].
  rewrite Z.compare_refl, (post_marker_gt c u w H). reflexivity.
Qed.

(* and in the revision part (a present revision r) *)
Corollary cmp_core_rev_tilde_lt e u c r w :
  cmp_core {| epoch := e; upstream := u; revision := (c :: r) ++ "~"%char :: w |}
           {| epoch := e; upstream := u; revision := c :: r |} = Lt.
Proof.
  unfold cmp_core, lexc, cmp_on, revision0. cbn [epoch upstream revision].
  rewrite Z.compare_refl, (tp_refl TP_vstring_cmp). cbn [thenc app implicit0].
  apply (tilde_lt (c :: r) w).
Qed.

(* a larger epoch wins over everything else *)
Lemma cmp_core_epoch c1 c2 : (epoch c1 < epoch c2)%Z -> cmp_core c1 c2 = Lt.
Proof.
  intros H. unfold cmp_core, lexc, cmp_on. apply Z.compare_lt_iff in H. rewrite H. reflexivity.
Qed.

(* no revision is revision "0" *)
Lemma cmp_core_native e u :
  cmp_core {| epoch := e; upstream := u; revision := [] |}
           {| epoch := e; upstream := u; revision := $"0" |} = Eq.
Proof.
  unfold cmp_core, lexc, cmp_on, revision0. cbn [epoch upstream revision implicit0].
  rewrite Z.compare_refl, !(tp_refl TP_vstring_cmp). reflexivity.
Qed.

(* sample points, through the parser *)
Definition scmp (a b : bytes) : option comparison :=
  match parse a, parse b with Some x, Some y => Some (cmp x y) | _, _ => None end.

Example ex_markers :
  map (fun p => scmp (fst p) (snd p))
    [($"1.0~rc1", $"1.0"); ($"1.0", $"1.0+b1"); ($"1.0~~", $"1.0~"); ($"1.0-1~bpo1", $"1.0-1");
     ($"1.0", $"1.0-0"); ($"1.0-1", $"1:0.1"); ($"1.0a", $"1.0+"); ($"1.09", $"1.10"); ($"1.0", $"1.00")]
  = [Some Lt; Some Lt; Some Lt; Some Lt; Some Eq; Some Lt; Some Lt; Some Lt; Some Eq].
Proof. vm_compute. reflexivity. Qed.

Print Assumptions cmp_core_num.
Print Assumptions marker_cmp.
