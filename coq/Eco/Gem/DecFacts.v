(* Base/DecFacts.v — facts about fmt "%d" ([dec]) read back by strconv ([digits_val], [atoi]),
   and about joining / splitting on a byte that does not occur in the pieces. *)
From Coq Require Import Lia.
From Verif.Base Require Import Bytes BytesFacts GoNum.
Local Open Scope N_scope.

Lemma code_chr k : k < 256 -> code (chr k) = k.
Proof. intros H. unfold code, chr. apply N_ascii_embedding. assumption. Qed.

Lemma is_digit_chr m : m < 10 -> is_digit (chr (48 + m)) = true.
Proof.
  intros H. unfold is_digit, in_range. rewrite code_chr by lia.
  apply andb_true_iff. split; apply N.leb_le; lia.
Qed.

Lemma digit_val_chr m : m < 10 -> digit_val (chr (48 + m)) = m.
Proof. intros H. unfold digit_val. rewrite code_chr by lia. lia. Qed.

Lemma is_digit_range c : is_digit c = true -> 48 <= code c <= 57.
Proof.
  unfold is_digit, in_range. intros H. apply andb_true_iff in H. destruct H as [H1 H2].
  apply N.leb_le in H1, H2. lia.
Qed.

Lemma is_digit_not c d : is_digit c = true -> is_digit d = false -> ceqb c d = false.
Proof.
  intros Hc Hd. apply ceqb_neq. intros ->. congruence.
Qed.

Lemma dec_fuel_digits k : forall n acc,
  forallb is_digit acc = true -> forallb is_digit (dec_fuel k n acc) = true.
Proof.
  induction k as [|k IH]; intros n acc H; cbn [dec_fuel]; [assumption|].
  assert (Hd : is_digit (chr (48 + n mod 10)) = true).
  { apply is_digit_chr. apply N.mod_lt. discriminate. }
  destruct (n <? 10).
  - cbn [forallb]. rewrite Hd. assumption.
  - apply IH. cbn [forallb]. rewrite Hd. assumption.
Qed.

Lemma dec_fuel_len k : forall n acc, (length acc <= length (dec_fuel k n acc))%nat.
Proof.
  induction k as [|k IH]; intros n acc; cbn [dec_fuel]; [lia|].
  destruct (n <? 10); cbn [length]; [lia|].
  specialize (IH (n / 10) (chr (48 + n mod 10) :: acc)). cbn [length] in IH. lia.
Qed.

Definition dstep (acc : N) (c : ascii) : N := acc * 10 + digit_val c.

Lemma dec_fuel_val k : forall n acc,
  n < 2 ^ N.of_nat k ->
  fold_left dstep (dec_fuel k n acc) 0 = fold_left dstep acc n.
Proof.
  induction k as [|k IH]; intros n acc H.
  - simpl in *. assert (n = 0) by lia. subst. reflexivity.
  - cbn [dec_fuel].
    assert (Hm : n mod 10 < 10) by (apply N.mod_lt; discriminate).
    destruct (n <? 10) eqn:E.
    + apply N.ltb_lt in E. cbn [fold_left]. unfold dstep at 2.
      rewrite N.mod_small by assumption. rewrite digit_val_chr by assumption.
      reflexivity.
    + apply N.ltb_ge in E. rewrite IH.
      * cbn [fold_left]. unfold dstep at 2. rewrite digit_val_chr by assumption.
        f_equal. pose proof (N.div_mod n 10). lia.
      * rewrite Nat2N.inj_succ, N.pow_succ_r' in H.
        apply N.div_lt_upper_bound; lia.
Qed.

Lemma pos_size_nat_bound p : N.pos p < 2 ^ N.of_nat (Pos.size_nat p).
Proof.
  induction p as [p IH|p IH|]; cbn [Pos.size_nat]; rewrite ?Nat2N.inj_succ, ?N.pow_succ_r'.
  - change (N.pos p~1) with (2 * N.pos p + 1). lia.
  - change (N.pos p~0) with (2 * N.pos p). lia.
  - simpl. lia.
Qed.

Lemma size_nat_bound n : n < 2 ^ N.of_nat (S (N.size_nat n)).
Proof.
  rewrite Nat2N.inj_succ, N.pow_succ_r'.
  destruct n as [|p]; simpl N.size_nat.
  - simpl. lia.
  - pose proof (pos_size_nat_bound p). lia.
Qed.

Lemma dec_all_digits n : forallb is_digit (dec n) = true.
Proof. unfold dec. apply dec_fuel_digits. reflexivity. Qed.

Lemma dec_nonempty n : dec n <> [].
Proof.
  unfold dec. cbn [dec_fuel]. destruct (n <? 10); [discriminate|].
  pose proof (dec_fuel_len (N.size_nat n) (n / 10) [chr (48 + n mod 10)]) as H.
  destruct (dec_fuel _ _ _); [simpl in H; lia|discriminate].
Qed.

Lemma dec_nonempty_digits n : nonempty_digits (dec n) = true.
Proof.
  unfold nonempty_digits. pose proof (dec_nonempty n). pose proof (dec_all_digits n).
  destruct (dec n); [contradiction|assumption].
Qed.

Lemma digits_val_dec n : digits_val (dec n) = n.
Proof.
  unfold digits_val, dec. change (fun acc c => acc * 10 + digit_val c) with dstep.
  rewrite dec_fuel_val; [reflexivity|apply size_nat_bound].
Qed.

Lemma dec_hd_digit n : exists c r, dec n = c :: r /\ is_digit c = true.
Proof.
  pose proof (dec_nonempty n). pose proof (dec_all_digits n) as H1.
  destruct (dec n) as [|c r]; [contradiction|].
  simpl in H1. apply andb_true_iff in H1. destruct H1. eauto.
Qed.

(* strconv.Atoi reads back what %d printed, within int64 *)
Lemma atoi_dec n : n < two63 -> atoi (dec n) = Some (Z.of_N n).
Proof.
  intros H. destruct (dec_hd_digit n) as (c & r & E & Hc).
  pose proof (dec_nonempty_digits n) as Hd. pose proof (digits_val_dec n) as Hv.
  unfold atoi. rewrite E in *.
  rewrite (is_digit_not c "-"%char Hc eq_refl), (is_digit_not c "+"%char Hc eq_refl).
  rewrite Hd, Hv. apply N.ltb_lt in H. rewrite H. reflexivity.
Qed.

(* ---------- a byte that does not occur ---------- *)

Lemma contains_c_app c a b : contains_c c (a ++ b) = contains_c c a || contains_c c b.
Proof. unfold contains_c. apply existsb_app. Qed.

Lemma cut_single_absent c s : contains_c c s = false -> cut [c] s = None.
Proof.
  unfold contains_c. induction s as [|x s IH]; simpl; [reflexivity|].
  intros H. apply orb_false_iff in H. destruct H as [Hx Hs].
  rewrite Hx. simpl. rewrite (IH Hs). reflexivity.
Qed.

Lemma split_c_absent c s : contains_c c s = false -> split_c c s = [s].
Proof.
  unfold contains_c. induction s as [|x s IH]; simpl; [reflexivity|].
  intros H. apply orb_false_iff in H. destruct H as [Hx Hs].
  rewrite Hx, (IH Hs). reflexivity.
Qed.

Lemma split_c_app_sep c x r :
  contains_c c x = false -> split_c c (x ++ c :: r) = x :: split_c c r.
Proof.
  unfold contains_c. induction x as [|y x IH]; simpl.
  - intros _. rewrite ceqb_refl. reflexivity.
  - intros H. apply orb_false_iff in H. destruct H as [Hy Hx].
    rewrite Hy, (IH Hx). reflexivity.
Qed.

Lemma split_c_join c l :
  l <> [] -> forallb (fun x => negb (contains_c c x)) l = true ->
  split_c c (join [c] l) = l.
Proof.
  induction l as [|x l IH]; intros Hne H; [contradiction|].
  simpl in H. apply andb_true_iff in H. destruct H as [Hx Hl].
  apply negb_true_iff in Hx.
  destruct l as [|y l].
  - simpl. apply split_c_absent. assumption.
  - change (join [c] (x :: y :: l)) with (x ++ c :: join [c] (y :: l)).
    rewrite split_c_app_sep by assumption. rewrite IH; [reflexivity|discriminate|assumption].
Qed.

(* a property of every byte of a joined string *)
Lemma forallb_join (p : ascii -> bool) sep l :
  forallb p sep = true -> forallb (forallb p) l = true -> forallb p (join sep l) = true.
Proof.
  intros Hs. induction l as [|x l IH]; simpl; [reflexivity|].
  intros H. apply andb_true_iff in H. destruct H as [Hx Hl].
  destruct l as [|y l]; [assumption|].
  rewrite !forallb_app, Hx, Hs. simpl. apply IH. assumption.
Qed.
