From Verif.Base Require Import Bytes.
From Verif.Eco Require Import Iface.
From Verif.Eco.Gem Require Version Range.

Definition v : vops := mk_vops Gem.Version.parse_core Gem.Version.cmp_core Gem.Version.raw_orig.
Definition r : rops := {| r_show := Gem.Range.r_show; r_contains := Gem.Range.r_contains |}.
Definition entry : eco := {| e_name := $"gem"; e_v := v; e_r := r |}.
