(* Base/FieldsFunc.v — strings.FieldsFunc for a byte predicate, and list-level
   take_while / drop_while (the ones of Bytes.v are specialised to bytes). *)
From Verif.Base Require Import Bytes.

(* strings.FieldsFunc(s, p): maximal runs of bytes NOT satisfying p; no empty fields *)
Fixpoint fields_func_aux (p : ascii -> bool) (cur : bytes) (s : bytes) : list bytes :=
  match s with
  | [] => match cur with [] => [] | _ => [rev cur] end
  | c :: s' =>
      if p c
      then match cur with
           | [] => fields_func_aux p [] s'
           | _ => rev cur :: fields_func_aux p [] s'
           end
      else fields_func_aux p (c :: cur) s'
  end.
Definition fields_func (p : ascii -> bool) (s : bytes) : list bytes := fields_func_aux p [] s.

Fixpoint take_while_l {A} (p : A -> bool) (l : list A) : list A :=
  match l with
  | x :: l' => if p x then x :: take_while_l p l' else []
  | [] => []
  end.
Fixpoint drop_while_l {A} (p : A -> bool) (l : list A) : list A :=
  match l with
  | x :: l' => if p x then drop_while_l p l' else l
  | [] => []
  end.

Definition nonempty_b (s : bytes) : bool := match s with [] => false | _ => true end.
