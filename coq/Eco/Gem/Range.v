(* Eco/Gem/Range.v — model of pkg/ecosystem/gem/range.go (definitions only).

   Parsing is of the simple "split on commas, strip operator prefix" kind (RangeCore, with "~>"
   tried before the six comparators, bounds not validated at parse time).  Contains is custom
   because of the pessimistic operator "~>", which counts the dot-separated pieces of the
   constraint TEXT and reads the numeric segments of both parsed versions. *)
From Verif.Base Require Import Bytes GoNum Ord.
From Verif.Gen Require Operators.
From Verif.Eco.Gem Require Import FieldsFunc.
From Verif.Eco Require Import RangeCore VLayer Iface.
From Verif.Eco.Gem Require Version.

(* operators := []string{">=", "<=", "!=", ">", "<", "="} *)
(* generated from the Go source on every run (tools/gen -> Gen/Operators.v) *)
Definition gem_ops : list bytes :=
  Eval cbv delta [Verif.Gen.Operators.gem_ops] in Verif.Gen.Operators.gem_ops.
Definition pess : bytes := $"~>".

Definition cfg : range_cfg := {|
  rc_split := split_comma_trim;
  rc_empty_ok := false;
  rc_ops := pess :: gem_ops;
  rc_style := HasPrefixErr;
  rc_sem := sem6;
  rc_eager := false;
  rc_trimmed_orig := false
|}.

(* numValue of the numeric segments of NewVersion(text) (reads fields of the parsed version) *)
Definition seg_num (x : Version.seg) : Z :=
  match x with Version.SNum z => z | Version.SStr _ => 0%Z end.
Definition core_of (s : bytes) : Version.core :=
  match Version.parse s with
  | Some v => v_core v
  | None => []
  end.
Definition numeric_of (s : bytes) : list Z := map seg_num (Version.numeric_part (core_of s)).
Definition has_prerelease (s : bytes) : bool :=
  match Version.prerelease_part (core_of s) with [] => false | _ => true end.

(* len(strings.Split(mainPart, ".")) where mainPart is the constraint text up to its first "-" *)
Definition text_segments (c : bytes) : nat :=
  let main := match cut $"-" c with Some (a, _) => a | None => c end in
  length (split_c "."%char main).

Definition segments_to_check (c : bytes) : nat :=
  let n := text_segments c in
  if has_prerelease c then n
  else if Nat.eqb n 1 then 1%nat
  else (n - 1)%nat.

(* for i < n: vSeg (0 when absent) == cSeg (0 when absent) *)
Fixpoint prefix_eq (n : nat) (vs cs : list Z) : bool :=
  match n with
  | O => true
  | S k => Z.eqb (hd 0%Z vs) (hd 0%Z cs) && prefix_eq k (tl vs) (tl cs)
  end.

Section Contains.
  Variable vok : bytes -> bool.
  Variable vcmp : bytes -> bytes -> comparison.

  (* satisfiesPessimistic(version, constraint); [c] is the constraint text, [v] the version text *)
  Definition sat_pessimistic (v c : bytes) : bool :=
    match vcmp v c with
    | Lt => false
    | _ => prefix_eq (segments_to_check c) (numeric_of v) (numeric_of c)
    end.

  Definition sat_constraint (v : bytes) (c : constraint) : bool :=
    if vok (snd c) then
      if beq (fst c) pess then sat_pessimistic v (snd c)
      else sat (sem6 (fst c)) (vcmp v (snd c))
    else false.

  Definition range := RangeCore.range.

  (* bounds are not validated by NewVersionRange (rc_eager = false) *)
  Definition parse_range (s : bytes) : option range :=
    RangeCore.parse_range bytes (oracle_parse vok) cfg s.

  Definition contains (r : range) (v : bytes) : bool := forallb (sat_constraint v) (r_cs r).
  Definition show (r : range) : bytes := RangeCore.show r.
End Contains.

Definition r_show (vok : bytes -> bool) (s : bytes) : option bytes :=
  option_map show (parse_range vok s).

Definition r_contains (vok : bytes -> bool) (vcmp : bytes -> bytes -> comparison)
  (r v : bytes) : option bool :=
  match parse_range vok r with
  | Some rg => if vok v then Some (contains vok vcmp rg v) else None
  | None => None
  end.
