(* Eco/Gem/RangeFacts.v — facts about the gem range model (C02, C20, C05). *)
From Coq Require Import Lia.
From Verif.Base Require Import Bytes BytesFacts GoNum Ord.
From Verif.Eco.Gem Require Import FieldsFunc DecFacts.
From Verif.Eco Require Import RangeCore RangeCoreFacts VLayer Iface.
From Verif.Eco.Gem Require Version.
From Verif.Eco.Gem Require Import Range.

(* ====================================================================================== *)
(* C02: a single comparator directly before a valid bound contains exactly what Compare    *)
(*      says; for ARBITRARY oracles vok / vcmp.                                            *)
(* ====================================================================================== *)

Definition no_comma (s : bytes) : bool := negb (contains_c ","%char s).

(* the scope clause: a non-empty text without whitespace and commas that does not begin with a
   comparator character *)
Definition bound_scope (a : bytes) : bool :=
  nonempty_b a && no_space a && no_comma a
  && match a with [] => true | c :: _ => negb (opchar c) end.

Lemma bound_scope_in_scope a : bound_scope a = true -> bound_in_scope a.
Proof.
  unfold bound_scope. intros H. repeat (apply andb_true_iff in H; destruct H as [H ?]).
  repeat split.
  - destruct a; [discriminate|discriminate].
  - assumption.
  - destruct a; [exact I|]. apply negb_true_iff. assumption.
Qed.

Lemma split_comma_trim_single s :
  s <> [] -> no_space s = true -> no_comma s = true -> split_comma_trim s = [s].
Proof.
  intros Hne Hns Hnc. unfold split_comma_trim, no_comma in *.
  apply negb_true_iff in Hnc. rewrite (split_c_absent _ _ Hnc). simpl.
  rewrite (trim_space_no_space s Hns). destruct s; [contradiction|reflexivity].
Qed.

Lemma ops_ok_gem : ops_ok (rc_ops cfg) = true.
Proof. reflexivity. Qed.

Lemma op_props op :
  In op (pess :: gem_ops) ->
  op <> [] /\ forallb opchar op = true /\ no_comma op = true.
Proof.
  intros H. simpl in H.
  repeat (destruct H as [<-|H]; [repeat split; discriminate|]). contradiction.
Qed.

Lemma no_comma_app a b : no_comma (a ++ b) = no_comma a && no_comma b.
Proof. unfold no_comma, contains_c. rewrite existsb_app, negb_orb. reflexivity. Qed.

Section C02.
  Variable vok : bytes -> bool.
  Variable vcmp : bytes -> bytes -> comparison.

  Lemma parse_single op a :
    In op (pess :: gem_ops) -> bound_scope a = true ->
    parse_range vok (op ++ a) = Some {| r_cs := [(op, a)]; r_orig := op ++ a |}.
  Proof.
    intros Hin Hsc.
    destruct (op_props op Hin) as (Hne & Hoc & Hncm).
    pose proof (bound_scope_in_scope a Hsc) as Hin_scope.
    unfold bound_scope in Hsc.
    repeat (apply andb_true_iff in Hsc; destruct Hsc as [Hsc ?]).
    assert (Hns : no_space (op ++ a) = true).
    { rewrite no_space_app, (opchars_no_space op Hoc). assumption. }
    assert (Hnc : no_comma (op ++ a) = true).
    { rewrite no_comma_app, Hncm. assumption. }
    assert (Hnn : op ++ a <> []).
    { destruct op; [contradiction|discriminate]. }
    unfold parse_range, RangeCore.parse_range.
    rewrite (trim_space_no_space _ Hns).
    rewrite (match_nonempty _ _ Hnn).
    cbn [rc_split cfg]. rewrite (split_comma_trim_single _ Hnn Hns Hnc).
    cbn [parse_constraints].
    rewrite (parse_constraint_op cfg op a ops_ok_gem Hin Hin_scope).
    reflexivity.
  Qed.

  Lemma parse_bare a :
    bound_scope a = true ->
    parse_range vok a = Some {| r_cs := [($"=", a)]; r_orig := a |}.
  Proof.
    intros Hsc.
    pose proof (bound_scope_in_scope a Hsc) as Hin_scope.
    unfold bound_scope in Hsc.
    repeat (apply andb_true_iff in Hsc; destruct Hsc as [Hsc ?]).
    assert (Hnn : a <> []) by (destruct a; discriminate).
    unfold parse_range, RangeCore.parse_range.
    rewrite (trim_space_no_space a) by assumption.
    rewrite (match_nonempty _ _ Hnn).
    cbn [rc_split cfg]. rewrite (split_comma_trim_single a) by assumption.
    cbn [parse_constraints].
    rewrite (parse_constraint_bare cfg a ops_ok_gem Hin_scope).
    reflexivity.
  Qed.

  (* the six comparators *)
  Theorem gem_c02 op a v :
    In op gem_ops -> bound_scope a = true -> vok a = true -> vok v = true ->
    r_contains vok vcmp (op ++ a) v = Some (sat (sem6 op) (vcmp v a)).
  Proof.
    intros Hin Hsc Ha Hv. unfold r_contains.
    rewrite (parse_single op a (or_intror Hin) Hsc). rewrite Hv.
    unfold contains, sat_constraint. cbn [r_cs forallb fst snd]. rewrite Ha.
    assert (Hp : beq op pess = false).
    { simpl in Hin. repeat (destruct Hin as [<-|Hin]; [reflexivity|]). contradiction. }
    rewrite Hp, andb_true_r. reflexivity.
  Qed.

  (* a bare version is "=" *)
  Theorem gem_c02_bare a v :
    bound_scope a = true -> vok a = true -> vok v = true ->
    r_contains vok vcmp a v = Some (sat CEq (vcmp v a)).
  Proof.
    intros Hsc Ha Hv. unfold r_contains.
    rewrite (parse_bare a Hsc). rewrite Hv.
    unfold contains, sat_constraint. cbn [r_cs forallb fst snd]. rewrite Ha.
    rewrite andb_true_r. reflexivity.
  Qed.

  (* the pessimistic operator parses to its own constraint *)
  Lemma gem_pess_parse a v :
    bound_scope a = true -> vok a = true -> vok v = true ->
    r_contains vok vcmp (pess ++ a) v = Some (sat_pessimistic vcmp v a).
  Proof.
    intros Hsc Ha Hv. unfold r_contains.
    rewrite (parse_single pess a (or_introl eq_refl) Hsc). rewrite Hv.
    unfold contains, sat_constraint. cbn [r_cs forallb fst snd]. rewrite Ha.
    rewrite andb_true_r. reflexivity.
  Qed.
End C02.

(* ====================================================================================== *)
(* C20: membership depends only on the place of the version in the order                   *)
(* ====================================================================================== *)

Import Version.

Lemma thenc_eq a b : thenc a b = Eq -> a = Eq /\ b = Eq.
Proof. destruct a; simpl; intros H; try discriminate. auto. Qed.

Lemma seg_cmp_eq_num x y : seg_cmp x y = Eq -> seg_num x = seg_num y.
Proof.
  destruct x as [a|a], y as [b|b]; simpl; try discriminate; [|reflexivity].
  intros H. apply Z.compare_eq in H. assumption.
Qed.

Lemma prefix_eq_sym n : forall a b, prefix_eq n a b = prefix_eq n b a.
Proof.
  induction n as [|n IH]; intros a b; simpl; [reflexivity|]. rewrite Z.eqb_sym, IH. reflexivity.
Qed.

Lemma prefix_eq_pad_l lb :
  lex_pad_l (SNum 0%Z) seg_cmp lb = Eq ->
  forall n cs, prefix_eq n [] cs = prefix_eq n (map seg_num lb) cs.
Proof.
  induction lb as [|y lb IH]; intros H n cs; [reflexivity|].
  cbn [lex_pad_l] in H. apply thenc_eq in H. destruct H as [Hy Hl].
  apply seg_cmp_eq_num in Hy. cbn [seg_num] in Hy.
  destruct n as [|n]; [reflexivity|]. cbn [prefix_eq map hd tl]. rewrite <- Hy.
  rewrite <- (IH Hl n). reflexivity.
Qed.

Lemma prefix_eq_segs la : forall lb,
  segs_cmp la lb = Eq ->
  forall n cs, prefix_eq n (map seg_num la) cs = prefix_eq n (map seg_num lb) cs.
Proof.
  unfold segs_cmp. induction la as [|x la IH]; intros lb H n cs.
  - apply prefix_eq_pad_l. exact H.
  - destruct lb as [|y lb]; cbn [lex_pad] in H; apply thenc_eq in H; destruct H as [Hx Hl];
      apply seg_cmp_eq_num in Hx; destruct n as [|n]; try reflexivity;
      cbn [prefix_eq map hd tl]; rewrite Hx.
    + rewrite (IH [] Hl n). reflexivity.
    + rewrite (IH lb Hl n). reflexivity.
Qed.

Section C20.
  Variable vok : bytes -> bool.
  Variable vcmp : bytes -> bytes -> comparison.

  (* what the statement needs of the version oracle: Compare-equal versions compare alike with
     every bound, and (because "~>" reads the numeric segments of the probe) have the same
     numeric segments up to trailing zeros.  Both hold for the model's own version layer
     (lemmas [self_eq_l], [self_eq_num] below). *)
  Hypothesis vcmp_eq_l : forall a b c,
    vok a = true -> vok b = true -> vok c = true -> vcmp a b = Eq -> vcmp a c = vcmp b c.
  Hypothesis vcmp_eq_num : forall a b,
    vok a = true -> vok b = true -> vcmp a b = Eq ->
    forall n cs, prefix_eq n (numeric_of a) cs = prefix_eq n (numeric_of b) cs.

  Theorem gem_c20 r a b :
    vok a = true -> vok b = true -> vcmp a b = Eq ->
    contains vok vcmp r a = contains vok vcmp r b.
  Proof.
    intros Ha Hb E. unfold contains.
    induction (r_cs r) as [|c cs IH]; [reflexivity|]. cbn [forallb]. rewrite IH. f_equal.
    unfold sat_constraint. destruct (vok (snd c)) eqn:Hc; [|reflexivity].
    unfold sat_pessimistic.
    rewrite (vcmp_eq_l a b (snd c) Ha Hb Hc E).
    rewrite (vcmp_eq_num a b Ha Hb E). reflexivity.
  Qed.
End C20.

(* ---------- the model's own version layer as the oracle ---------- *)

From Verif.Eco.Gem Require Entry VersionFacts.

Definition self_ok : bytes -> bool := self_vok Entry.entry.
Definition self_cmp : bytes -> bytes -> comparison := self_vcmp Entry.entry.

Lemma self_ok_parse s : self_ok s = true <-> exists v, Version.parse s = Some v.
Proof.
  unfold self_ok, self_vok, Entry.entry, Entry.v, mk_vops. cbn [e_v v_show].
  change (VLayer.parse parse_core raw_orig s) with (Version.parse s).
  destruct (Version.parse s); simpl; split; intros H; eauto; try discriminate.
  destruct H; discriminate.
Qed.

Lemma self_cmp_parse a b va vb :
  Version.parse a = Some va -> Version.parse b = Some vb ->
  self_cmp a b = Version.cmp va vb.
Proof.
  intros Ha Hb. unfold self_cmp, self_vcmp, Entry.entry, Entry.v, mk_vops. cbn [e_v v_cmp].
  change (VLayer.parse parse_core raw_orig a) with (Version.parse a).
  change (VLayer.parse parse_core raw_orig b) with (Version.parse b).
  rewrite Ha, Hb. reflexivity.
Qed.

Lemma core_of_parse a va : Version.parse a = Some va -> core_of a = v_core va.
Proof. intros H. unfold core_of. rewrite H. reflexivity. Qed.

Lemma self_eq_l a b c :
  self_ok a = true -> self_ok b = true -> self_ok c = true ->
  self_cmp a b = Eq -> self_cmp a c = self_cmp b c.
Proof.
  intros Ha Hb Hc. apply self_ok_parse in Ha, Hb, Hc.
  destruct Ha as [va Ha], Hb as [vb Hb], Hc as [vc Hc].
  rewrite (self_cmp_parse a b va vb Ha Hb), (self_cmp_parse a c va vc Ha Hc),
          (self_cmp_parse b c vb vc Hb Hc).
  apply (tp_eq_l VersionFacts.cmp_tp).
Qed.

Lemma cmp_core_eq_numeric x y :
  cmp_core x y = Eq -> segs_cmp (numeric_part x) (numeric_part y) = Eq.
Proof.
  rewrite VersionFacts.cmp_core_unfold.
  destruct (segs_cmp (numeric_part x) (numeric_part y)); try discriminate. reflexivity.
Qed.

Lemma self_eq_num a b :
  self_ok a = true -> self_ok b = true -> self_cmp a b = Eq ->
  forall n cs, prefix_eq n (numeric_of a) cs = prefix_eq n (numeric_of b) cs.
Proof.
  intros Ha Hb. apply self_ok_parse in Ha, Hb.
  destruct Ha as [va Ha], Hb as [vb Hb].
  rewrite (self_cmp_parse a b va vb Ha Hb). unfold Version.cmp, VLayer.cmp. intros E.
  unfold numeric_of. rewrite (core_of_parse a va Ha), (core_of_parse b vb Hb).
  apply prefix_eq_segs, cmp_core_eq_numeric, E.
Qed.

(* C20 for the model end to end *)
Theorem gem_c20_self r a b :
  self_ok a = true -> self_ok b = true -> self_cmp a b = Eq ->
  contains self_ok self_cmp r a = contains self_ok self_cmp r b.
Proof. apply gem_c20; [apply self_eq_l|apply self_eq_num]. Qed.

Theorem gem_c20_self_text r a b :
  self_ok a = true -> self_ok b = true -> self_cmp a b = Eq ->
  r_contains self_ok self_cmp r a = r_contains self_ok self_cmp r b.
Proof.
  intros Ha Hb E. unfold r_contains. destruct (parse_range self_ok r) as [rg|]; [|reflexivity].
  rewrite Ha, Hb, (gem_c20_self rg a b Ha Hb E). reflexivity.
Qed.

(* ====================================================================================== *)
(* C05: the pessimistic operator                                                           *)
(*   "~> t1.t2...tn" contains v  iff  v >= t  and  release(v) < bump(t)                     *)
(*   where bump drops the last component (none when n = 1) and increments the new last one *)
(*   and release(v) is the numeric head of v (RubyGems: v >= r && v.release < r.bump).     *)
(* ====================================================================================== *)

Local Open Scope Z_scope.

Definition zcmp : list Z -> list Z -> comparison := lex_pad 0 Z.compare.

(* the first j components kept, component j incremented, the rest dropped *)
Fixpoint bump_at (j : nat) (t : list Z) : list Z :=
  match j with
  | O => [hd 0 t + 1]
  | S j' => hd 0 t :: bump_at j' (tl t)
  end.

Lemma bump_at_firstn j : forall t,
  (j < length t)%nat -> bump_at j t = firstn j t ++ [nth j t 0 + 1].
Proof.
  induction j as [|j IH]; intros [|x t] H; simpl in *; try lia; [reflexivity|].
  rewrite IH by lia. reflexivity.
Qed.

Lemma lex_pad_step (l1 l2 : list Z) :
  zcmp l1 l2 = thenc (hd 0 l1 ?= hd 0 l2) (zcmp (tl l1) (tl l2)).
Proof.
  unfold zcmp. destruct l1 as [|x l1], l2 as [|y l2]; simpl; reflexivity.
Qed.

Lemma nonneg_ge_nil l : Forall (fun x => 0 <= x) l -> zcmp l [] <> Lt.
Proof.
  unfold zcmp. induction 1 as [|x l Hx _ IH]; cbn [lex_pad lex_pad_l]; [discriminate|].
  destruct (x ?= 0) eqn:E; cbn [thenc]; try discriminate; [exact IH|].
  rewrite Z.compare_lt_iff in E. cbv beta in Hx. lia.
Qed.

Lemma Forall_tl {A} (P : A -> Prop) l : Forall P l -> Forall P (tl l).
Proof. destruct 1; simpl; [constructor|assumption]. Qed.

Lemma pess_interval j : forall nv t,
  Forall (fun x => 0 <= x) nv -> zcmp nv t <> Lt ->
  (prefix_eq (S j) nv t = true <-> zcmp nv (bump_at j t) = Lt).
Proof.
  induction j as [|j IH]; intros nv t Hnn Hge; rewrite lex_pad_step in Hge.
  - cbn [prefix_eq bump_at]. rewrite andb_true_r, lex_pad_step. cbn [hd tl].
    pose proof (nonneg_ge_nil (tl nv) (Forall_tl _ _ Hnn)) as Hr.
    destruct (hd 0 nv ?= hd 0 t) eqn:E1.
    + apply Z.compare_eq in E1. rewrite E1, Z.eqb_refl.
      assert (X : (hd 0 t ?= hd 0 t + 1) = Lt) by (rewrite Z.compare_lt_iff; lia).
      rewrite X. simpl. tauto.
    + simpl in Hge. congruence.
    + rewrite Z.compare_gt_iff in E1.
      assert (X : (hd 0 nv =? hd 0 t) = false) by (apply Z.eqb_neq; lia). rewrite X.
      split; [discriminate|]. intros H.
      destruct (hd 0 nv ?= hd 0 t + 1) eqn:E2; simpl in H; try congruence.
      rewrite Z.compare_lt_iff in E2. lia.
  - cbn [prefix_eq bump_at]. rewrite lex_pad_step. cbn [hd tl].
    destruct (hd 0 nv ?= hd 0 t) eqn:E1.
    + simpl in Hge. apply Z.compare_eq in E1. rewrite E1, Z.eqb_refl. simpl.
      apply IH; [apply Forall_tl, Hnn|exact Hge].
    + simpl in Hge. congruence.
    + rewrite Z.compare_gt_iff in E1.
      assert (X : (hd 0 nv =? hd 0 t) = false) by (apply Z.eqb_neq; lia). rewrite X.
      simpl. split; discriminate.
Qed.

(* ---------- the bound is a dotted tuple ---------- *)

Import VersionFacts.

Definition is_lt (c : comparison) : bool := match c with Lt => true | _ => false end.

(* numSegmentsToCheck for a bound of n numeric components without prerelease *)
Definition kk (t : list N) : nat := if Nat.eqb (length t) 1 then 1%nat else (length t - 1)%nat.

Definition bump (t : list N) : list Z := bump_at (kk t - 1) (map Z.of_N t).

Lemma text_segments_dots t : t <> [] -> text_segments (dots t) = length t.
Proof.
  intros Hne. unfold text_segments.
  rewrite (cut_single_absent "-"%char) by (apply dd_absent; [reflexivity|apply dd_dots]).
  rewrite (split_dots t Hne). apply map_length.
Qed.

Lemma core_of_dots t :
  t <> [] -> small t -> core_of (dots t) = remove_trailing_zeros (map num_seg t).
Proof. intros Hne Hs. unfold core_of. rewrite (parse_dots t Hne Hs). reflexivity. Qed.

Lemma has_prerelease_dots t : t <> [] -> small t -> has_prerelease (dots t) = false.
Proof.
  intros Hne Hs. unfold has_prerelease. rewrite (core_of_dots t Hne Hs).
  rewrite prerelease_part_all; [reflexivity|apply rtz_all_num, all_num_map].
Qed.

Lemma segments_to_check_dots t : t <> [] -> small t -> segments_to_check (dots t) = kk t.
Proof.
  intros Hne Hs. unfold segments_to_check.
  rewrite (has_prerelease_dots t Hne Hs), (text_segments_dots t Hne). reflexivity.
Qed.

Lemma map_seg_num_num_seg t : map seg_num (map num_seg t) = map Z.of_N t.
Proof. rewrite map_map. reflexivity. Qed.

Lemma prefix_eq_numeric_dots t n vs :
  t <> [] -> small t ->
  prefix_eq n vs (numeric_of (dots t)) = prefix_eq n vs (map Z.of_N t).
Proof.
  intros Hne Hs. unfold numeric_of. rewrite (core_of_dots t Hne Hs).
  rewrite numeric_part_all by (apply rtz_all_num, all_num_map).
  rewrite (prefix_eq_sym n vs), (prefix_eq_sym n vs (map Z.of_N t)).
  rewrite <- map_seg_num_num_seg. apply prefix_eq_segs, rtz_cmp_eq.
Qed.

Lemma sat_pess_dots vcmp v t :
  t <> [] -> small t ->
  sat_pessimistic vcmp v (dots t) =
  match vcmp v (dots t) with
  | Lt => false
  | _ => prefix_eq (kk t) (numeric_of v) (map Z.of_N t)
  end.
Proof.
  intros Hne Hs. unfold sat_pessimistic.
  rewrite (segments_to_check_dots t Hne Hs), (prefix_eq_numeric_dots t _ _ Hne Hs). reflexivity.
Qed.

Lemma dd_not_opchar c : dd c = true -> opchar c = false.
Proof.
  unfold dd. intros H. apply orb_true_iff in H. destruct H as [H|H].
  - unfold opchar. simpl.
    rewrite (is_digit_not c "<"%char H eq_refl), (is_digit_not c ">"%char H eq_refl),
            (is_digit_not c "="%char H eq_refl), (is_digit_not c "!"%char H eq_refl),
            (is_digit_not c "~"%char H eq_refl), (is_digit_not c "^"%char H eq_refl).
    reflexivity.
  - apply ceqb_eq in H. subst. reflexivity.
Qed.

Lemma bound_scope_dots t : t <> [] -> bound_scope (dots t) = true.
Proof.
  intros Hne. unfold bound_scope.
  destruct (dots_hd t Hne) as (c & r & E & Hc).
  pose proof (dd_dots t) as Hdd.
  assert (H1 : nonempty_b (dots t) = true) by (rewrite E; reflexivity).
  assert (H2 : no_space (dots t) = true).
  { unfold no_space. rewrite forallb_forall in *. intros x Hx.
    rewrite (dd_not_space x (Hdd x Hx)). reflexivity. }
  assert (H3 : no_comma (dots t) = true).
  { unfold no_comma. rewrite (dd_absent ","%char); [reflexivity|reflexivity|exact Hdd]. }
  rewrite H1, H2, H3. rewrite E. simpl.
  rewrite dd_not_opchar; [reflexivity|]. unfold dd. rewrite Hc. reflexivity.
Qed.

Lemma self_ok_dots t : t <> [] -> small t -> self_ok (dots t) = true.
Proof. intros Hne Hs. apply self_ok_parse. rewrite (parse_dots t Hne Hs). eauto. Qed.

(* all-numeric segment arrays compare as their integer arrays *)
Lemma segs_cmp_zcmp la : forall lb,
  forallb seg_is_num la = true -> forallb seg_is_num lb = true ->
  segs_cmp la lb = zcmp (map seg_num la) (map seg_num lb).
Proof.
  unfold segs_cmp, zcmp.
  assert (L : forall lb, forallb seg_is_num lb = true ->
            lex_pad_l (SNum 0) seg_cmp lb = lex_pad_l 0 Z.compare (map seg_num lb)).
  { induction lb as [|[y|y] lb IH]; cbn [forallb seg_is_num map lex_pad_l seg_num andb];
      intros H; try discriminate; [reflexivity|]. rewrite (IH H). reflexivity. }
  induction la as [|[x|x] la IH]; intros lb Ha Hb; cbn [forallb seg_is_num andb] in Ha;
    try discriminate; [apply L, Hb|].
  destruct lb as [|[y|y] lb]; cbn [forallb seg_is_num andb] in Hb; try discriminate;
    cbn [map lex_pad seg_num].
  - rewrite (IH [] Ha eq_refl). reflexivity.
  - rewrite (IH lb Ha Hb). reflexivity.
Qed.

Lemma numeric_part_all_num c : forallb seg_is_num (numeric_part c) = true.
Proof.
  unfold numeric_part. induction c as [|x c IH]; simpl; [reflexivity|].
  destruct (seg_is_num x) eqn:E; simpl; [rewrite E; exact IH|reflexivity].
Qed.

Lemma cmp_core_ge_numeric x y :
  cmp_core x y <> Lt -> segs_cmp (numeric_part x) (numeric_part y) <> Lt.
Proof.
  rewrite cmp_core_unfold.
  destruct (segs_cmp (numeric_part x) (numeric_part y)); congruence.
Qed.

(* v >= t implies release(v) >= t, as integer arrays *)
Lemma self_ge_numeric v t :
  t <> [] -> small t -> self_ok v = true ->
  self_cmp v (dots t) <> Lt -> zcmp (numeric_of v) (map Z.of_N t) <> Lt.
Proof.
  intros Hne Hs Hv. apply self_ok_parse in Hv. destruct Hv as [pv Hv].
  rewrite (self_cmp_parse v (dots t) pv _ Hv (parse_dots t Hne Hs)).
  unfold Version.cmp, VLayer.cmp. cbn [v_core]. intros H.
  apply cmp_core_ge_numeric in H.
  rewrite (numeric_part_all (remove_trailing_zeros _)) in H by (apply rtz_all_num, all_num_map).
  rewrite segs_cmp_rtz_r in H.
  rewrite segs_cmp_zcmp in H; [|apply numeric_part_all_num|apply all_num_map].
  rewrite map_seg_num_num_seg in H.
  unfold numeric_of. rewrite (core_of_parse v pv Hv). exact H.
Qed.

Lemma kk_pos t : t <> [] -> S (kk t - 1) = kk t.
Proof.
  intros Hne. unfold kk. destruct t as [|a [|b t]]; simpl; try contradiction; try reflexivity.
  lia.
Qed.

(* C05, general probe: "~> t" contains v iff v >= t and release(v) < bump(t)
   (probes whose numeric head has a negative component - only reachable through a build part such
   as "1+.-5" - are excluded) *)
Theorem gem_c05 t v :
  t <> [] -> small t -> self_ok v = true ->
  Forall (fun x => 0 <= x) (numeric_of v) ->
  r_contains self_ok self_cmp (pess ++ dots t) v
  = Some (negb (is_lt (self_cmp v (dots t))) && is_lt (zcmp (numeric_of v) (bump t))).
Proof.
  intros Hne Hs Hv Hnn.
  rewrite (gem_pess_parse self_ok self_cmp (dots t) v (bound_scope_dots t Hne)
             (self_ok_dots t Hne Hs) Hv).
  rewrite (sat_pess_dots self_cmp v t Hne Hs). f_equal.
  pose proof (self_ge_numeric v t Hne Hs Hv) as Hge.
  pose proof (pess_interval (kk t - 1) (numeric_of v) (map Z.of_N t) Hnn) as HI.
  rewrite (kk_pos t Hne) in HI. fold (bump t) in HI.
  assert (X : self_cmp v (dots t) <> Lt ->
              prefix_eq (kk t) (numeric_of v) (map Z.of_N t) = is_lt (zcmp (numeric_of v) (bump t))).
  { intros G. specialize (HI (Hge G)).
    destruct (prefix_eq (kk t) (numeric_of v) (map Z.of_N t)).
    - rewrite (proj1 HI eq_refl). reflexivity.
    - destruct (zcmp (numeric_of v) (bump t)); try reflexivity.
      destruct HI as [_ HI]. specialize (HI eq_refl). discriminate. }
  destruct (self_cmp v (dots t)); simpl; try (apply X; discriminate). reflexivity.
Qed.

(* ---------- tuple probes: the documented interval  t <= u < bump t ---------- *)

Fixpoint bump_atN (j : nat) (t : list N) : list N :=
  match j with
  | O => [(hd 0 t + 1)%N]
  | S j' => hd 0%N t :: bump_atN j' (tl t)
  end.

(* "~> 1.2.3" -> 1.3 ; "~> 1.2" -> 2 ; "~> 1" -> 2 *)
Definition bumpN (t : list N) : list N := bump_atN (kk t - 1) t.

Lemma bump_atN_Z j : forall t, map Z.of_N (bump_atN j t) = bump_at j (map Z.of_N t).
Proof.
  induction j as [|j IH]; intros [|x t]; cbn [bump_atN bump_at map hd tl]; try reflexivity.
  - rewrite N2Z.inj_add. reflexivity.
  - specialize (IH []). cbn [map] in IH. rewrite IH. reflexivity.
  - rewrite IH. reflexivity.
Qed.

Lemma bumpN_Z t : map Z.of_N (bumpN t) = bump t.
Proof. apply bump_atN_Z. Qed.

Lemma bump_atN_nonempty j t : bump_atN j t <> [].
Proof. destruct j; discriminate. Qed.

Lemma zcmp_of_N a b : zcmp (map Z.of_N a) (map Z.of_N b) = lex_pad 0%N N.compare a b.
Proof.
  rewrite <- segs_cmp_nums, <- !map_seg_num_num_seg.
  symmetry. apply segs_cmp_zcmp; apply all_num_map.
Qed.

Lemma self_cmp_dots a b :
  a <> [] -> b <> [] -> small a -> small b ->
  self_cmp (dots a) (dots b) = zcmp (map Z.of_N a) (map Z.of_N b).
Proof.
  intros Ha Hb Sa Sb.
  rewrite (self_cmp_parse _ _ _ _ (parse_dots a Ha Sa) (parse_dots b Hb Sb)).
  unfold Version.cmp, VLayer.cmp. cbn [v_core]. rewrite cmp_core_dots. symmetry. apply zcmp_of_N.
Qed.

Lemma seg_num_SNum l : map seg_num (map SNum l) = l.
Proof. rewrite map_map. apply map_id. Qed.

Lemma all_num_SNum l : forallb seg_is_num (map SNum l) = true.
Proof. induction l; simpl; auto. Qed.

Lemma zcmp_numeric_dots u B :
  u <> [] -> small u -> zcmp (numeric_of (dots u)) B = zcmp (map Z.of_N u) B.
Proof.
  intros Hne Hs. unfold numeric_of. rewrite (core_of_dots u Hne Hs).
  rewrite numeric_part_all by (apply rtz_all_num, all_num_map).
  rewrite <- (seg_num_SNum B) at 1 2.
  rewrite <- !segs_cmp_zcmp; try apply all_num_SNum; try apply all_num_map;
    try (apply rtz_all_num, all_num_map).
  rewrite <- map_seg_num_num_seg, <- segs_cmp_zcmp; try apply all_num_SNum; try apply all_num_map.
  apply segs_cmp_rtz_l.
Qed.

Lemma Forall_rtz (P : seg -> Prop) l : Forall P l -> Forall P (remove_trailing_zeros l).
Proof.
  intros H. destruct (rtz_spec l) as (zs & E & _). rewrite E in H.
  apply Forall_app in H. tauto.
Qed.

Lemma numeric_dots_nonneg u :
  u <> [] -> small u -> Forall (fun x => 0 <= x) (numeric_of (dots u)).
Proof.
  intros Hne Hs. unfold numeric_of. rewrite (core_of_dots u Hne Hs).
  rewrite numeric_part_all by (apply rtz_all_num, all_num_map).
  apply Forall_map. apply Forall_rtz. apply Forall_map.
  apply Forall_forall. intros n _. simpl. lia.
Qed.

(* C05 for release probes: "~> t" contains the tuple u exactly when t <= u < bump t in the
   order of Compare.  [small (bumpN t)] only excludes a component equal to 2^63-1. *)
Theorem gem_c05_tuples t u :
  t <> [] -> u <> [] -> small t -> small u -> small (bumpN t) ->
  r_contains self_ok self_cmp (pess ++ dots t) (dots u)
  = Some (negb (is_lt (self_cmp (dots u) (dots t)))
          && is_lt (self_cmp (dots u) (dots (bumpN t)))).
Proof.
  intros Ht Hu St Su Sb.
  rewrite (gem_c05 t (dots u) Ht St (self_ok_dots u Hu Su) (numeric_dots_nonneg u Hu Su)).
  rewrite (zcmp_numeric_dots u _ Hu Su).
  rewrite (self_cmp_dots u (bumpN t) Hu (bump_atN_nonempty _ _) Su Sb), bumpN_Z.
  reflexivity.
Qed.

(* corollaries: the base is contained; nothing below the base; nothing at/after the bump *)
Corollary gem_c05_base t :
  t <> [] -> small t -> small (bumpN t) ->
  r_contains self_ok self_cmp (pess ++ dots t) (dots t) = Some true.
Proof.
  intros Ht St Sb. rewrite (gem_c05_tuples t t Ht Ht St St Sb).
  rewrite (self_cmp_dots t t Ht Ht St St).
  rewrite (self_cmp_dots t (bumpN t) Ht (bump_atN_nonempty _ _) St Sb), bumpN_Z.
  unfold zcmp. rewrite (tp_refl (TP_lex_pad _ _ TP_Z 0)). simpl. f_equal.
  pose proof (pess_interval (kk t - 1) (map Z.of_N t) (map Z.of_N t)) as HI.
  rewrite (kk_pos t Ht) in HI. fold (bump t) in HI. unfold zcmp in HI.
  assert (X : lex_pad 0 Z.compare (map Z.of_N t) (bump t) = Lt).
  { apply HI.
    - apply Forall_map, Forall_forall. intros n _. simpl. lia.
    - rewrite (tp_refl (TP_lex_pad _ _ TP_Z 0)). discriminate.
    - clear. generalize (kk t). intros n. generalize (map Z.of_N t). intros l. revert l.
      induction n as [|n IH]; intros l; simpl; [reflexivity|]. rewrite Z.eqb_refl, IH. reflexivity. }
  rewrite X. reflexivity.
Qed.

(* The documented reading ">= 1.2, < 2" taken literally in the order of Compare would admit the
   pre-releases of the upper bound; the code (like RubyGems, which tests v.release < r.bump)
   does not: *)
Lemma pess_excludes_prerelease_of_bump :
  self_cmp $"2.rc1" $"1.2" = Gt /\ self_cmp $"2.rc1" $"2" = Lt /\
  r_contains self_ok self_cmp $"~> 1.2" $"2.rc1" = Some false.
Proof. vm_compute. auto. Qed.

(* "~>" counts the dot-separated pieces of the constraint TEXT before the first "-", a leading "v"
   and the pieces of a ".rc1"-style prerelease included; the numeric head is compared on that many
   positions when the bound has a prerelease: *)
Lemma pess_examples :
  r_contains self_ok self_cmp $"~> 1.2.3" $"1.2.9" = Some true /\
  r_contains self_ok self_cmp $"~> 1.2.3" $"1.3.0" = Some false /\
  r_contains self_ok self_cmp $"~> 1.2" $"1.9" = Some true /\
  r_contains self_ok self_cmp $"~> 1" $"1.9" = Some true /\
  r_contains self_ok self_cmp $"~> 1" $"2.0" = Some false /\
  r_contains self_ok self_cmp $"~> 1.0.0-alpha" $"1.0.5" = Some false /\
  r_contains self_ok self_cmp $"~> 1.0.0-alpha" $"1.0.0" = Some true /\
  r_contains self_ok self_cmp $"~> 1.0.rc1" $"1.1" = Some false.
Proof. vm_compute. repeat split. Qed.

(* When the bound has a prerelease part, every dot-separated piece of its text before the first
   "-" is counted and compared, so the range collapses to one patch level / one version
   (RubyGems: "~> 1.0.0-alpha" is >= 1.0.0-alpha, < 1.1 and "~> 1.0.rc1" is >= 1.0.rc1, < 2). *)
Lemma finding_pess_prerelease_bound :
  r_contains self_ok self_cmp $"~> 1.0.0-alpha" $"1.0.5" = Some false /\
  r_contains self_ok self_cmp $"~> 1.0.rc1" $"1.0.5" = Some false /\
  r_contains self_ok self_cmp $"~> 1.0.rc1" $"1.1" = Some false /\
  r_contains self_ok self_cmp $"~> 1.0.rc1" $"1.0" = Some true.
Proof. vm_compute. repeat split. Qed.

(* a bound that is not a version is accepted by NewVersionRange and then matches nothing,
   not even under "!=" *)
Lemma finding_invalid_bound_accepted :
  r_show self_ok $"!= x" = Some $"!= x" /\
  r_contains self_ok self_cmp $"!= x" $"1" = Some false.
Proof. vm_compute. split; reflexivity. Qed.
