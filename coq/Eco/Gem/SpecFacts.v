(* Eco/Gem/SpecFacts.v — the gem Compare model orders versions as the RubyGems reference order
   (Spec/GemVersion.v: Gem::Version#<=>) does, on the class [in_scope]; and where it does not. *)
From Coq Require Import Lia.
From Verif.Base Require Import Bytes BytesFacts GoNum Ord.
From Verif.Eco.Gem Require Import FieldsFunc DecFacts.
From Verif.Eco Require Import VLayer VLayerFacts RangeCoreFacts Iface.
From Verif.Eco.Gem Require Import Version VersionFacts.
From Verif.Eco.Gem Require Entry.
From Verif.Spec Require GemVersion GemVersionFacts.
Module G := GemVersion.
Module GF := GemVersionFacts.
Local Open Scope N_scope.

(* ====================================================================================== *)
(* Part 1.  Segment lists: Compare on embedded reference segments = the reference order    *)
(* ====================================================================================== *)

(* a reference segment as a model segment *)
Definition emb (x : G.seg) : seg :=
  match x with
  | G.SInt n => SNum (Z.of_N n)
  | G.SStr s => SStr s
  end.

Lemma emb_cmp x y : seg_cmp (emb x) (emb y) = G.seg_cmp x y.
Proof.
  destruct x as [a|a], y as [b|b]; simpl; try reflexivity. apply N2Z.inj_compare.
Qed.

Lemma lex_pad_map {A B} (f : A -> B) (c1 : A -> A -> comparison) (c2 : B -> B -> comparison) pad :
  (forall x y, c2 (f x) (f y) = c1 x y) ->
  forall l r, lex_pad (f pad) c2 (map f l) (map f r) = lex_pad pad c1 l r.
Proof.
  intros H.
  assert (L : forall r, lex_pad_l (f pad) c2 (map f r) = lex_pad_l pad c1 r).
  { induction r as [|y r IH]; cbn [map lex_pad_l]; [reflexivity|]. rewrite H, IH. reflexivity. }
  induction l as [|x l IH]; intros r; [apply L|].
  destruct r as [|y r]; cbn [map lex_pad].
  - rewrite H. specialize (IH []). cbn [map] in IH. rewrite IH. reflexivity.
  - rewrite H, IH. reflexivity.
Qed.

Definition LP : list G.seg -> list G.seg -> comparison := lex_pad (G.SInt 0) G.seg_cmp.

Lemma TP_LP : TotalPreorder LP.
Proof. apply TP_lex_pad, GF.TP_seg_cmp. Qed.

Lemma segs_cmp_emb l r : segs_cmp (map emb l) (map emb r) = LP l r.
Proof. unfold segs_cmp, LP. apply (lex_pad_map emb G.seg_cmp seg_cmp (G.SInt 0)), emb_cmp. Qed.

Lemma seg_is_num_emb x : seg_is_num (emb x) = G.seg_is_int x.
Proof. destruct x; reflexivity. Qed.

Lemma numeric_part_emb l :
  numeric_part (map emb l) = map emb (G.seg_take_while G.seg_is_int l).
Proof.
  unfold numeric_part. induction l as [|x l IH]; [reflexivity|].
  cbn [map take_while_l G.seg_take_while]. rewrite seg_is_num_emb.
  destruct (G.seg_is_int x); [cbn [map]; rewrite IH|]; reflexivity.
Qed.

Lemma prerelease_part_emb l :
  prerelease_part (map emb l) = map emb (G.seg_drop_while G.seg_is_int l).
Proof.
  unfold prerelease_part. induction l as [|x l IH]; [reflexivity|].
  cbn [map drop_while_l G.seg_drop_while]. rewrite seg_is_num_emb.
  destruct (G.seg_is_int x); [exact IH|reflexivity].
Qed.

(* --- removeTrailingZeros does not change Compare --- *)

Lemma first_str_split (X : list seg) :
  forallb seg_is_num X = true \/
  exists a w b, X = a ++ SStr w :: b /\ forallb seg_is_num a = true.
Proof.
  induction X as [|x X IH]; [left; reflexivity|].
  destruct x as [z|w].
  - destruct IH as [IH|(a & w & b & E & Ha)].
    + left. simpl. exact IH.
    + right. exists (SNum z :: a), w, b. split; [rewrite E; reflexivity|simpl; exact Ha].
  - right. exists [], w, X. split; reflexivity.
Qed.

Lemma cmp_core_rtz_eq X : cmp_core (remove_trailing_zeros X) X = Eq.
Proof.
  destruct (first_str_split X) as [H|(a & w & b & E & Ha)].
  - rewrite cmp_core_all_num; [apply rtz_cmp_eq|apply rtz_all_num, H|exact H].
  - subst X. destruct (rtz_str a w b) as [b' E'].
    destruct (rtz_spec (a ++ SStr w :: b)) as (zs & E2 & F).
    rewrite E' in E2. rewrite <- app_assoc in E2. cbn [app] in E2.
    apply app_inv_head in E2. injection E2 as E2.
    rewrite E', cmp_core_unfold.
    rewrite !numeric_part_app_str, !prerelease_part_app_str by exact Ha.
    rewrite (tp_refl segs_cmp_tp). rewrite E2.
    change (SStr w :: b' ++ zs) with ((SStr w :: b') ++ zs).
    apply segs_cmp_app_zeros, F.
Qed.

Lemma cmp_core_rtz X Y :
  cmp_core (remove_trailing_zeros X) (remove_trailing_zeros Y) = cmp_core X Y.
Proof.
  rewrite (tp_eq_l cmp_core_tp _ _ _ (cmp_core_rtz_eq X)).
  apply (tp_eq_r cmp_core_tp), cmp_core_rtz_eq.
Qed.

(* --- the reference order on canonical segments, in structured form --- *)

Definition all_int (l : list G.seg) : bool := forallb G.seg_is_int l.
Definition str_head (l : list G.seg) : bool :=
  match l with [] => true | G.SStr _ :: _ => true | G.SInt _ :: _ => false end.
(* no trailing zero *)
Fixpoint ntz (l : list G.seg) : bool :=
  match l with
  | [] => true
  | x :: l' => match l' with [] => negb (G.seg_is_zero x) | _ => ntz l' end
  end.

Definition structured (cAB : comparison) (S T : list G.seg) : comparison :=
  match cAB with
  | Eq => match S, T with
          | [], [] => Eq
          | [], _ :: _ => Gt
          | _ :: _, [] => Lt
          | _, _ => LP S T
          end
  | c => c
  end.

Lemma pad_vs_int n : G.seg_cmp (G.SInt 0) (G.SInt n) <> Gt.
Proof. simpl. destruct n; discriminate. Qed.

(* zeros against a non-empty integer list without trailing zero: smaller *)
Lemma LP_nil_ints B T :
  B <> [] -> all_int B = true -> ntz B = true -> lex_pad_l (G.SInt 0) G.seg_cmp (B ++ T) = Lt.
Proof.
  induction B as [|y B IH]; intros Hne Hi Hz; [contradiction|].
  cbn [all_int forallb] in Hi. apply andb_true_iff in Hi. destruct Hi as [Hy Hi].
  destruct y as [n|w]; [|discriminate]. cbn [app lex_pad_l].
  destruct B as [|y' B].
  - cbn [ntz] in Hz. apply negb_true_iff in Hz. simpl in Hz.
    simpl. destruct n; [discriminate|reflexivity].
  - cbn [ntz] in Hz. rewrite (IH ltac:(discriminate) Hi Hz).
    simpl. destruct n; reflexivity.
Qed.

Lemma LP_ints_nil A S :
  A <> [] -> all_int A = true -> ntz A = true -> LP (A ++ S) [] = Gt.
Proof.
  intros Hne Hi Hz. rewrite (tp_anti TP_LP [] (A ++ S)). unfold LP. cbn [lex_pad].
  rewrite (LP_nil_ints A S Hne Hi Hz). reflexivity.
Qed.

Lemma LP_cons x l y r : LP (x :: l) (y :: r) = thenc (G.seg_cmp x y) (LP l r).
Proof. reflexivity. Qed.

Lemma ntz_tl x l : l <> [] -> ntz (x :: l) = ntz l.
Proof. destruct l; [contradiction|reflexivity]. Qed.

Lemma structured_eq A : forall B S T,
  all_int A = true -> all_int B = true -> ntz A = true -> ntz B = true ->
  str_head S = true -> str_head T = true ->
  LP (A ++ S) (B ++ T) = structured (LP A B) S T.
Proof.
  induction A as [|x A IH]; intros B S T HA HB ZA ZB HS HT.
  - destruct B as [|y B].
    + cbn [app]. change (LP [] []) with Eq. unfold structured.
      destruct S as [|[n|w] S], T as [|[m|v] T]; try discriminate; reflexivity.
    + assert (E : LP [] (y :: B) = Lt).
      { unfold LP. cbn [lex_pad]. rewrite <- (app_nil_r (y :: B)).
        apply LP_nil_ints; [discriminate|exact HB|exact ZB]. }
      rewrite E. unfold structured. cbn [app].
      destruct S as [|[n|w] S]; try discriminate.
      * unfold LP. cbn [lex_pad]. change (y :: B ++ T) with ((y :: B) ++ T).
        apply LP_nil_ints; [discriminate|exact HB|exact ZB].
      * cbn [all_int forallb] in HB. apply andb_true_iff in HB. destruct HB as [Hy _].
        destruct y as [m|v]; [|discriminate]. reflexivity.
  - cbn [all_int forallb] in HA. apply andb_true_iff in HA. destruct HA as [Hx HA].
    destruct x as [n|w]; [|discriminate].
    destruct B as [|y B].
    + assert (E : LP (G.SInt n :: A) [] = Gt).
      { rewrite <- (app_nil_r (G.SInt n :: A)). apply LP_ints_nil; [discriminate| |exact ZA].
        cbn [all_int forallb]. rewrite HA. reflexivity. }
      rewrite E. unfold structured. cbn [app].
      destruct T as [|[m|v] T]; try discriminate.
      * change (G.SInt n :: A ++ S) with ((G.SInt n :: A) ++ S).
        apply LP_ints_nil; [discriminate| |exact ZA]. cbn [all_int forallb]. rewrite HA. reflexivity.
      * reflexivity.
    + cbn [all_int forallb] in HB. apply andb_true_iff in HB. destruct HB as [Hy HB].
      cbn [app]. rewrite !LP_cons.
      destruct (G.seg_cmp (G.SInt n) y) eqn:E1; cbn [thenc]; try reflexivity.
      (* heads equal: recurse; the tails keep "no trailing zero" unless empty *)
      assert (ZA' : ntz A = true) by (destruct A; [reflexivity|exact ZA]).
      assert (ZB' : ntz B = true) by (destruct B; [reflexivity|exact ZB]).
      apply IH; assumption.
Qed.

(* --- drop_trailing_zeros --- *)

Definition zero_i : G.seg := G.SInt 0.

Lemma seg_is_zero_eq_i x : G.seg_is_zero x = true -> x = zero_i.
Proof. destruct x as [n|w]; simpl; [|discriminate]. intros H. apply N.eqb_eq in H. subst. reflexivity. Qed.

Lemma sdw_spec l :
  exists zs, l = zs ++ G.seg_drop_while G.seg_is_zero l /\ Forall (eq zero_i) zs.
Proof.
  induction l as [|x l IH]; [exists []; split; [reflexivity|constructor]|].
  cbn [G.seg_drop_while]. destruct (G.seg_is_zero x) eqn:Z.
  - destruct IH as (zs & E & F). exists (x :: zs). split; [simpl; f_equal; exact E|].
    constructor; [symmetry; apply seg_is_zero_eq_i, Z|exact F].
  - exists []. split; [reflexivity|constructor].
Qed.

Lemma sdw_head l :
  match G.seg_drop_while G.seg_is_zero l with [] => True | x :: _ => G.seg_is_zero x = false end.
Proof.
  induction l as [|x l IH]; [exact I|]. cbn [G.seg_drop_while].
  destruct (G.seg_is_zero x) eqn:Z; [exact IH|exact Z].
Qed.

Lemma dtz_spec l : exists zs, l = G.drop_trailing_zeros l ++ zs /\ Forall (eq zero_i) zs.
Proof.
  unfold G.drop_trailing_zeros. destruct (sdw_spec (rev l)) as (zs & E & F).
  exists (rev zs). split; [|apply Forall_rev, F].
  rewrite <- rev_app_distr, <- E. symmetry. apply rev_involutive.
Qed.

Lemma ntz_snoc l x : ntz (l ++ [x]) = negb (G.seg_is_zero x).
Proof.
  induction l as [|y l IH]; [reflexivity|]. cbn [app]. rewrite ntz_tl; [exact IH|].
  destruct l; discriminate.
Qed.

Lemma ntz_dtz l : ntz (G.drop_trailing_zeros l) = true.
Proof.
  unfold G.drop_trailing_zeros. pose proof (sdw_head (rev l)) as H.
  destruct (G.seg_drop_while G.seg_is_zero (rev l)) as [|x r]; [reflexivity|].
  cbn [rev]. rewrite ntz_snoc, H. reflexivity.
Qed.

Lemma LP_app_zeros l zs : Forall (eq zero_i) zs -> LP l (l ++ zs) = Eq.
Proof.
  intros F. unfold LP. induction l as [|x l IH]; cbn [app lex_pad].
  - induction F as [|z zs <- _ IHz]; [reflexivity|]. cbn [lex_pad_l]. exact IHz.
  - rewrite (tp_refl GF.TP_seg_cmp). exact IH.
Qed.

Lemma LP_dtz l : LP (G.drop_trailing_zeros l) l = Eq.
Proof.
  destruct (dtz_spec l) as (zs & E & F). rewrite E at 2. apply LP_app_zeros, F.
Qed.

Lemma all_int_dtz l : all_int l = true -> all_int (G.drop_trailing_zeros l) = true.
Proof.
  intros H. destruct (dtz_spec l) as (zs & E & _). rewrite E in H. unfold all_int in *.
  rewrite forallb_app in H. apply andb_true_iff in H. tauto.
Qed.

(* a list starting with a string keeps its head *)
Lemma dtz_str w b : exists b', G.drop_trailing_zeros (G.SStr w :: b) = G.SStr w :: b'.
Proof.
  destruct (dtz_spec (G.SStr w :: b)) as (zs & E & F).
  destruct (G.drop_trailing_zeros (G.SStr w :: b)) as [|x r].
  - simpl in E. subst zs. inversion F as [|? ? H]. discriminate.
  - simpl in E. injection E as <- _. eauto.
Qed.

Lemma all_int_take l : all_int (G.seg_take_while G.seg_is_int l) = true.
Proof.
  unfold all_int. induction l as [|x l IH]; [reflexivity|]. cbn [G.seg_take_while].
  destruct (G.seg_is_int x) eqn:E; [cbn [forallb]; rewrite E; exact IH|reflexivity].
Qed.

Lemma str_head_drop l : str_head (G.seg_drop_while G.seg_is_int l) = true.
Proof.
  induction l as [|x l IH]; [reflexivity|]. cbn [G.seg_drop_while].
  destruct x as [n|w]; [exact IH|reflexivity].
Qed.

Lemma structured_dtz c S T :
  str_head S = true -> str_head T = true ->
  structured c (G.drop_trailing_zeros S) (G.drop_trailing_zeros T) = structured c S T.
Proof.
  intros HS HT. destruct c; try reflexivity. unfold structured.
  assert (E : LP (G.drop_trailing_zeros S) (G.drop_trailing_zeros T) = LP S T).
  { rewrite (tp_eq_l TP_LP _ _ _ (LP_dtz S)). apply (tp_eq_r TP_LP), LP_dtz. }
  destruct S as [|[n|w] S], T as [|[m|v] T]; try discriminate; try reflexivity.
  - destruct (dtz_str v T) as [b' ->]. reflexivity.
  - destruct (dtz_str w S) as [b' ->]. reflexivity.
  - destruct (dtz_str w S) as [b1 E1], (dtz_str v T) as [b2 E2].
    rewrite E1, E2 in *. exact E.
Qed.

(* the reference order in structured form *)
Lemma gem_cmp_segs_structured L R :
  G.gem_cmp_segs (G.gem_canonical_of_segments L) (G.gem_canonical_of_segments R)
  = structured (LP (G.seg_take_while G.seg_is_int L) (G.seg_take_while G.seg_is_int R))
               (G.seg_drop_while G.seg_is_int L) (G.seg_drop_while G.seg_is_int R).
Proof.
  rewrite GF.gem_cmp_segs_lex_pad. fold LP.
  unfold G.gem_canonical_of_segments, G.gem_split_segments.
  set (nL := G.seg_take_while G.seg_is_int L). set (nR := G.seg_take_while G.seg_is_int R).
  set (sL := G.seg_drop_while G.seg_is_int L). set (sR := G.seg_drop_while G.seg_is_int R).
  assert (HsL : str_head sL = true) by apply str_head_drop.
  assert (HsR : str_head sR = true) by apply str_head_drop.
  rewrite structured_eq.
  - rewrite (structured_dtz _ sL sR HsL HsR). f_equal.
    rewrite (tp_eq_l TP_LP _ _ _ (LP_dtz nL)). apply (tp_eq_r TP_LP), LP_dtz.
  - apply all_int_dtz, all_int_take.
  - apply all_int_dtz, all_int_take.
  - apply ntz_dtz.
  - apply ntz_dtz.
  - destruct sL as [|[n|w] S]; try discriminate; [reflexivity|].
    destruct (dtz_str w S) as [b' ->]. reflexivity.
  - destruct sR as [|[n|w] S]; try discriminate; [reflexivity|].
    destruct (dtz_str w S) as [b' ->]. reflexivity.
Qed.

(* Compare in the same structured form *)
Lemma cmp_core_structured L R :
  cmp_core (map emb L) (map emb R)
  = structured (LP (G.seg_take_while G.seg_is_int L) (G.seg_take_while G.seg_is_int R))
               (G.seg_drop_while G.seg_is_int L) (G.seg_drop_while G.seg_is_int R).
Proof.
  rewrite cmp_core_unfold, !numeric_part_emb, !prerelease_part_emb, segs_cmp_emb.
  unfold structured.
  destruct (LP _ _); try reflexivity.
  destruct (G.seg_drop_while G.seg_is_int L) as [|x S], (G.seg_drop_while G.seg_is_int R) as [|y T];
    try reflexivity.
  cbn [map]. change (segs_cmp (map emb (x :: S)) (map emb (y :: T)) = LP (x :: S) (y :: T)).
  apply segs_cmp_emb.
Qed.

(* Part 1, conclusion *)
Theorem cmp_core_is_gem_cmp_segs L R :
  cmp_core (remove_trailing_zeros (map emb L)) (remove_trailing_zeros (map emb R))
  = G.gem_cmp_segs (G.gem_canonical_of_segments L) (G.gem_canonical_of_segments R).
Proof. rewrite cmp_core_rtz, cmp_core_structured, gem_cmp_segs_structured. reflexivity. Qed.

(* ====================================================================================== *)
(* Part 2.  Texts: the segments of NewVersion are the segments Gem::Version reads          *)
(* ====================================================================================== *)

(* digits, lower-case letters, dots *)
Definition lc (c : ascii) : bool := is_digit c || is_lower c || ceqb c "."%char.

Lemma is_lower_range c : is_lower c = true -> 97 <= code c <= 122.
Proof.
  unfold is_lower, in_range. intros H. apply andb_true_iff in H. destruct H as [H1 H2].
  apply N.leb_le in H1, H2. lia.
Qed.

Lemma lower_not_upper c : is_lower c = true -> is_upper c = false.
Proof.
  intros H. apply is_lower_range in H. unfold is_upper, in_range.
  apply andb_false_iff. right. apply N.leb_gt. lia.
Qed.

Lemma lc_not_upper c : lc c = true -> is_upper c = false.
Proof.
  unfold lc. intros H. apply orb_true_iff in H. destruct H as [H|H];
    [apply orb_true_iff in H; destruct H as [H|H]|].
  - apply is_digit_range in H. unfold is_upper, in_range.
    apply andb_false_iff. left. apply N.leb_gt. lia.
  - apply lower_not_upper, H.
  - apply ceqb_eq in H. subst. reflexivity.
Qed.

Lemma lc_dl c : lc c = true -> dl c = true.
Proof.
  unfold lc, dl, is_letter. intros H. apply orb_true_iff in H. destruct H as [H|H];
    [apply orb_true_iff in H; destruct H as [H|H]|]; rewrite H; rewrite ?orb_true_r; reflexivity.
Qed.

Lemma to_lower_lc s : forallb lc s = true -> to_lower s = s.
Proof.
  unfold to_lower. induction s as [|c s IH]; [reflexivity|]. cbn [forallb map].
  intros H. apply andb_true_iff in H. destruct H as [Hc Hs].
  rewrite (IH Hs). unfold to_lower_c. rewrite (lc_not_upper c Hc). reflexivity.
Qed.

(* --- generic facts about take_while / drop_while --- *)

Lemma take_drop (p : ascii -> bool) s : take_while p s ++ drop_while p s = s.
Proof.
  induction s as [|c s IH]; [reflexivity|]. cbn [take_while drop_while].
  destruct (p c); [cbn [app]; rewrite IH|]; reflexivity.
Qed.

Lemma take_while_all (p : ascii -> bool) s : forallb p (take_while p s) = true.
Proof.
  induction s as [|c s IH]; [reflexivity|]. cbn [take_while].
  destruct (p c) eqn:E; [cbn [forallb]; rewrite E; exact IH|reflexivity].
Qed.

Lemma drop_while_head (p : ascii -> bool) s :
  match drop_while p s with [] => True | x :: _ => p x = false end.
Proof.
  induction s as [|c s IH]; [exact I|]. cbn [drop_while].
  destruct (p c) eqn:E; [exact IH|exact E].
Qed.

Lemma forallb_take (q p : ascii -> bool) s :
  forallb q s = true -> forallb q (take_while p s) = true.
Proof.
  intros H. rewrite <- (take_drop p s), forallb_app in H. apply andb_true_iff in H. tauto.
Qed.

Lemma forallb_drop (q p : ascii -> bool) s :
  forallb q s = true -> forallb q (drop_while p s) = true.
Proof.
  intros H. rewrite <- (take_drop p s), forallb_app in H. apply andb_true_iff in H. tauto.
Qed.

(* --- addDots on a run followed by something of another class --- *)

Lemma add_dots_aux_dotprev b : add_dots_aux "."%char b = add_dots b.
Proof.
  destruct b as [|c b]; [reflexivity|].
  cbn [add_dots_aux add_dots]. rewrite ceqb_refl. cbn [negb]. rewrite andb_false_r. reflexivity.
Qed.

Definition sepd (rest : bytes) : bytes :=
  match rest with
  | [] => []
  | x :: rest' => "."%char :: add_dots (if ceqb x "."%char then rest' else rest)
  end.

Definition cls (isd : bool) (c : ascii) : bool :=
  Bool.eqb (is_digit c) isd && negb (ceqb c "."%char).

Lemma add_dots_aux_same isd r : forall prev,
  is_digit prev = isd -> forallb (cls isd) r = true -> add_dots_aux prev r = r.
Proof.
  induction r as [|x r IH]; intros prev Hp H; [reflexivity|].
  cbn [forallb] in H. apply andb_true_iff in H. destruct H as [Hx Hr].
  unfold cls in Hx. apply andb_true_iff in Hx. destruct Hx as [Hx _].
  apply Bool.eqb_prop in Hx.
  cbn [add_dots_aux]. rewrite Hx, Hp, xorb_nilpotent. cbn [andb app].
  rewrite (IH x Hx Hr). reflexivity.
Qed.

Lemma last_cls isd r : forall c, cls isd c = true -> forallb (cls isd) r = true -> cls isd (last r c) = true.
Proof.
  induction r as [|x r IH]; intros c Hc H; [exact Hc|].
  cbn [forallb] in H. apply andb_true_iff in H. destruct H as [Hx Hr].
  rewrite last_cons_default. apply IH; assumption.
Qed.

Lemma add_dots_run isd run rest :
  run <> [] -> forallb (cls isd) run = true ->
  match rest with [] => True | x :: _ => ceqb x "."%char = true \/ is_digit x = negb isd end ->
  add_dots (run ++ rest) = run ++ sepd rest.
Proof.
  intros Hne Hrun Hrest. destruct run as [|c r]; [contradiction|].
  cbn [forallb] in Hrun. apply andb_true_iff in Hrun. destruct Hrun as [Hc Hr].
  cbn [app add_dots]. rewrite add_dots_aux_app.
  assert (Hcd : is_digit c = isd).
  { unfold cls in Hc. apply andb_true_iff in Hc. destruct Hc as [Hc _]. apply Bool.eqb_prop, Hc. }
  rewrite (add_dots_aux_same isd r c Hcd Hr). f_equal. f_equal.
  pose proof (last_cls isd r c Hc Hr) as Hl. set (d := last r c) in *.
  unfold cls in Hl. apply andb_true_iff in Hl. destruct Hl as [Hd1 Hd2].
  apply Bool.eqb_prop in Hd1. apply negb_true_iff in Hd2.
  destruct rest as [|x rest']; [reflexivity|]. unfold sepd.
  cbn [add_dots_aux]. rewrite Hd1, Hd2. cbn [negb]. rewrite andb_true_r.
  destruct (ceqb x ".") eqn:Ex.
  - cbn [negb]. rewrite andb_false_r. cbn [app]. apply ceqb_eq in Ex. subst x.
    rewrite add_dots_aux_dotprev. reflexivity.
  - destruct Hrest as [Hx|Hx]; [discriminate|]. rewrite Hx.
    destruct isd; reflexivity.
Qed.

Lemma dot_parts_single run :
  run <> [] -> contains_c "."%char run = false -> dot_parts run = [create_segment run].
Proof.
  intros Hne H. unfold dot_parts. rewrite (split_c_absent _ _ H).
  destruct run; [contradiction|reflexivity].
Qed.

Lemma dot_parts_run run rest :
  run <> [] -> contains_c "."%char run = false ->
  dot_parts (run ++ sepd rest)
  = create_segment run :: match rest with
                          | [] => []
                          | x :: rest' => dot_parts (add_dots (if ceqb x "."%char then rest' else rest))
                          end.
Proof.
  intros Hne H. destruct rest as [|x rest']; cbn [sepd].
  - rewrite app_nil_r. apply dot_parts_single; assumption.
  - rewrite dot_parts_app, (dot_parts_single run Hne H). reflexivity.
Qed.

Lemma cls_no_dot isd run : forallb (cls isd) run = true -> contains_c "."%char run = false.
Proof.
  unfold contains_c. induction run as [|c r IH]; [reflexivity|]. cbn [forallb existsb].
  intros H. apply andb_true_iff in H. destruct H as [Hc Hr]. rewrite (IH Hr), orb_false_r.
  unfold cls in Hc. apply andb_true_iff in Hc. destruct Hc as [_ Hc].
  apply negb_true_iff in Hc. apply ceqb_neq. intros <-. rewrite ceqb_refl in Hc. discriminate.
Qed.

(* --- createSegment on a run --- *)

Lemma atoi_digits run :
  run <> [] -> forallb is_digit run = true -> digits_val run < two63 ->
  atoi run = Some (Z.of_N (digits_val run)).
Proof.
  intros Hne Hd Hv. destruct run as [|c r]; [contradiction|].
  pose proof Hd as Hd'. cbn [forallb] in Hd'. apply andb_true_iff in Hd'. destruct Hd' as [Hc _].
  unfold atoi.
  rewrite (is_digit_not c "-"%char Hc eq_refl), (is_digit_not c "+"%char Hc eq_refl).
  unfold nonempty_digits. rewrite Hd. apply N.ltb_lt in Hv. rewrite Hv. reflexivity.
Qed.

Definition seg_small (x : G.seg) : bool :=
  match x with G.SInt n => n <? two63 | G.SStr _ => true end.

(* --- S1: on lower-case texts without "-", the segments are the scanner's --- *)

Lemma scan_is_dot_parts n : forall u,
  (length u <= n)%nat -> forallb lc u = true -> forallb seg_small (G.gem_scan u) = true ->
  dot_parts (add_dots u) = map emb (G.gem_scan u).
Proof.
  induction n as [|n IH]; intros u Hlen Hlc Hsm.
  - destruct u; [reflexivity|simpl in Hlen; lia].
  - destruct u as [|c u']; [reflexivity|].
    rewrite GF.gem_scan_cons in *.
    pose proof Hlc as Hlc'. cbn [forallb] in Hlc'. apply andb_true_iff in Hlc'.
    destruct Hlc' as [Hc Hu'].
    destruct (is_digit c) eqn:Dc; [|destruct (is_letter c) eqn:Lc].
    + (* a digit run *)
      set (u := c :: u') in *.
      set (run := take_while is_digit u) in *. set (rest := drop_while is_digit u) in *.
      assert (Hrun_ne : run <> []) by (unfold run, u; cbn [take_while]; rewrite Dc; discriminate).
      assert (Hrun_d : forallb is_digit run = true) by apply take_while_all.
      assert (Hrun_cls : forallb (cls true) run = true).
      { apply (forallb_impl is_digit); [|exact Hrun_d]. intros x Hx. unfold cls. rewrite Hx.
        rewrite (is_digit_not x "."%char Hx eq_refl). reflexivity. }
      assert (Hrest_hd : match rest with [] => True | x :: _ => ceqb x "." = true \/ is_digit x = negb true end).
      { pose proof (drop_while_head is_digit u) as H. fold rest in H.
        destruct rest; [exact I|right; exact H]. }
      assert (Hrest_len : (length rest <= n)%nat).
      { unfold rest, u. cbn [drop_while]. rewrite Dc.
        pose proof (GF.drop_while_length is_digit u'). simpl in Hlen. lia. }
      assert (Hrest_lc : forallb lc rest = true) by (apply forallb_drop; exact Hlc).
      cbn [forallb seg_small] in Hsm. apply andb_true_iff in Hsm. destruct Hsm as [Hv Hsm].
      apply N.ltb_lt in Hv.
      rewrite <- (take_drop is_digit u). fold run rest.
      rewrite (add_dots_run true run rest Hrun_ne Hrun_cls Hrest_hd).
      rewrite (dot_parts_run run rest Hrun_ne (cls_no_dot true run Hrun_cls)).
      cbn [map]. f_equal.
      * unfold create_segment. rewrite (atoi_digits run Hrun_ne Hrun_d Hv). reflexivity.
      * destruct rest as [|x rest'] eqn:Er; [reflexivity|].
        destruct (ceqb x ".") eqn:Ex.
        -- apply ceqb_eq in Ex. subst x. rewrite GF.gem_scan_cons in *.
           change (is_digit ".") with false in *. change (is_letter ".") with false in *. cbv iota in *.
           apply IH; [simpl in Hrest_len; lia| |exact Hsm].
           cbn [forallb] in Hrest_lc. apply andb_true_iff in Hrest_lc. tauto.
        -- apply IH; assumption.
    + (* a letter run *)
      set (u := c :: u') in *.
      set (run := take_while is_letter u) in *. set (rest := drop_while is_letter u) in *.
      assert (Hrun_ne : run <> []) by (unfold run, u; cbn [take_while]; rewrite Lc; discriminate).
      assert (Hrun_l : forallb is_letter run = true) by apply take_while_all.
      assert (Hrun_lc : forallb lc run = true) by (apply forallb_take; exact Hlc).
      assert (Hrun_cls : forallb (cls false) run = true).
      { apply (forallb_impl is_letter); [|exact Hrun_l]. intros x Hx. unfold cls.
        rewrite (is_letter_not_digit x Hx). rewrite (pred_not is_letter x "."%char Hx eq_refl).
        reflexivity. }
      assert (Hrest_lc : forallb lc rest = true) by (apply forallb_drop; exact Hlc).
      assert (Hrest_hd : match rest with [] => True | x :: _ => ceqb x "." = true \/ is_digit x = negb false end).
      { pose proof (drop_while_head is_letter u) as H. fold rest in H.
        destruct rest as [|x rest']; [exact I|].
        cbn [forallb] in Hrest_lc. apply andb_true_iff in Hrest_lc. destruct Hrest_lc as [Hx _].
        unfold lc in Hx. apply orb_true_iff in Hx. destruct Hx as [Hx|Hx]; [|left; exact Hx].
        apply orb_true_iff in Hx. destruct Hx as [Hx|Hx]; [right; exact Hx|].
        unfold is_letter in H. rewrite Hx in H. discriminate. }
      assert (Hrest_len : (length rest <= n)%nat).
      { unfold rest, u. cbn [drop_while]. rewrite Lc.
        pose proof (GF.drop_while_length is_letter u'). simpl in Hlen. lia. }
      cbn [forallb seg_small] in Hsm.
      rewrite <- (take_drop is_letter u). fold run rest.
      rewrite (add_dots_run false run rest Hrun_ne Hrun_cls Hrest_hd).
      rewrite (dot_parts_run run rest Hrun_ne (cls_no_dot false run Hrun_cls)).
      cbn [map]. f_equal.
      * unfold create_segment. destruct run as [|y run'] eqn:Er; [contradiction|].
        cbn [forallb] in Hrun_l. apply andb_true_iff in Hrun_l. destruct Hrun_l as [Hy _].
        rewrite (atoi_letter y run' Hy). rewrite (to_lower_lc _ Hrun_lc). reflexivity.
      * destruct rest as [|x rest'] eqn:Er; [reflexivity|].
        destruct (ceqb x ".") eqn:Ex.
        -- apply ceqb_eq in Ex. subst x. rewrite GF.gem_scan_cons in *.
           change (is_digit ".") with false in *. change (is_letter ".") with false in *. cbv iota in *.
           apply IH; [simpl in Hrest_len; lia| |exact Hsm].
           cbn [forallb] in Hrest_lc. apply andb_true_iff in Hrest_lc. tauto.
        -- apply IH; assumption.
    + (* a dot *)
      assert (Ec : c = "."%char).
      { unfold lc in Hc. rewrite Dc in Hc. simpl in Hc.
        apply orb_true_iff in Hc. destruct Hc as [Hc|Hc]; [|apply ceqb_eq, Hc].
        unfold is_letter in Lc. rewrite Hc in Lc. discriminate. }
      subst c. cbn [add_dots]. rewrite add_dots_aux_dotprev.
      change ("."%char :: add_dots u') with ([] ++ "."%char :: add_dots u').
      rewrite dot_parts_app. change (dot_parts []) with (@nil seg). cbn [app].
      apply IH; [simpl in Hlen; lia|exact Hu'|exact Hsm].
Qed.

Lemma scan_dot_parts u :
  forallb lc u = true -> forallb seg_small (G.gem_scan u) = true ->
  dot_parts (add_dots u) = map emb (G.gem_scan u).
Proof. apply (scan_is_dot_parts (length u)). lia. Qed.

(* --- joining and splitting on "-" --- *)

Definition dash : bytes := ["-"%char].
Definition dotpre : bytes := $".pre.".

Lemma join_cons2 sep (x y : bytes) l : join sep (x :: y :: l) = x ++ sep ++ join sep (y :: l).
Proof. reflexivity. Qed.

Lemma join_split c s : join [c] (split_c c s) = s.
Proof.
  induction s as [|x s IH]; [reflexivity|]. cbn [split_c].
  destruct (ceqb c x) eqn:E.
  - apply ceqb_eq in E. subst x. pose proof (split_c_nonempty c s) as N.
    destruct (split_c c s) as [|f fs]; [contradiction|]. rewrite join_cons2, IH. reflexivity.
  - pose proof (split_c_nonempty c s) as N.
    destruct (split_c c s) as [|f fs]; [contradiction|].
    destruct fs as [|g fs]; cbn [join] in *; rewrite <- IH; reflexivity.
Qed.

Lemma split_c_pieces c s : forallb (fun p => negb (contains_c c p)) (split_c c s) = true.
Proof.
  induction s as [|x s IH]; [reflexivity|]. cbn [split_c].
  destruct (ceqb c x) eqn:E; [cbn [forallb]; exact IH|].
  pose proof (split_c_nonempty c s) as N.
  destruct (split_c c s) as [|f fs]; [contradiction|].
  cbn [forallb] in *. apply andb_true_iff in IH. destruct IH as [Hf Hfs].
  rewrite Hfs, andb_true_r. unfold contains_c in *. cbn [existsb]. rewrite E. exact Hf.
Qed.

Lemma split_c_class (P : ascii -> bool) c s :
  forallb P s = true -> forallb (forallb P) (split_c c s) = true.
Proof.
  induction s as [|x s IH]; [reflexivity|]. cbn [forallb split_c]. intros H.
  apply andb_true_iff in H. destruct H as [Hx Hs]. specialize (IH Hs).
  destruct (ceqb c x); [cbn [forallb]; exact IH|].
  pose proof (split_c_nonempty c s) as N.
  destruct (split_c c s) as [|f fs]; [contradiction|].
  cbn [forallb] in *. rewrite Hx. exact IH.
Qed.

Lemma fields_func_app_sep a x :
  a <> [] -> forallb (fun c => negb (is_sep c)) a = true ->
  fields_func is_sep (a ++ "-"%char :: x) = a :: fields_func is_sep x.
Proof.
  intros Ha Na. unfold fields_func.
  assert (Gn : forall cur, rev cur ++ a <> [] ->
            fields_func_aux is_sep cur (a ++ "-"%char :: x)
            = (rev cur ++ a) :: fields_func_aux is_sep [] x).
  { clear Ha. induction a as [|c a IH]; intros cur Hne.
    - cbn [app fields_func_aux]. change (is_sep "-") with true. cbv iota.
      rewrite app_nil_r in *. destruct cur as [|y cur]; [contradiction|reflexivity].
    - cbn [app fields_func_aux]. cbn [forallb] in Na. apply andb_true_iff in Na.
      destruct Na as [Hc Na]. apply negb_true_iff in Hc. rewrite Hc. rewrite (IH Na (c :: cur)).
      + simpl. rewrite <- app_assoc. reflexivity.
      + simpl. rewrite <- app_assoc. simpl. destruct (rev cur); discriminate. }
  apply (Gn []). simpl. assumption.
Qed.

Definition nosep (p : bytes) : bool := forallb (fun c => negb (is_sep c)) p.

Lemma fields_func_join Gs :
  forallb nonempty_b Gs = true -> forallb nosep Gs = true ->
  fields_func is_sep (join dash Gs) = Gs.
Proof.
  induction Gs as [|g Gs IH]; intros Hn Hs; [reflexivity|].
  cbn [forallb] in Hn, Hs. apply andb_true_iff in Hn, Hs.
  destruct Hn as [Hg Hn], Hs as [Sg Hs].
  assert (Hgne : g <> []) by (destruct g; [discriminate|discriminate]).
  destruct Gs as [|h Gs].
  - cbn [join]. unfold fields_func. rewrite (fields_func_aux_none is_sep g [] Sg); [reflexivity|].
    simpl. exact Hgne.
  - rewrite join_cons2. unfold dash at 1. cbn [app].
    rewrite (fields_func_app_sep g _ Hgne Sg). rewrite (IH Hn Hs). reflexivity.
Qed.

Lemma join_hd_prefix sep (f : bytes) l : exists b, join sep (f :: l) = f ++ b.
Proof.
  destruct l as [|g l]; [exists []; simpl; rewrite app_nil_r; reflexivity|].
  rewrite join_cons2. eauto.
Qed.

Lemma join_occurs p : forall F main,
  In p F -> exists a b, join dash (main :: F) = a ++ ("-"%char :: p) ++ b.
Proof.
  induction F as [|f F IH]; intros main Hin; [contradiction|].
  rewrite join_cons2. destruct Hin as [->|Hin].
  - destruct (join_hd_prefix dash p F) as [b E]. rewrite E.
    exists main, b. unfold dash. cbn [app]. reflexivity.
  - destruct (IH f Hin) as (a & b & E). rewrite E.
    exists (main ++ dash ++ a), b. rewrite <- !app_assoc. reflexivity.
Qed.

Lemma flat_map_ext_in {A B} (f g : A -> list B) l :
  (forall x, In x l -> f x = g x) -> flat_map f l = flat_map g l.
Proof.
  induction l as [|x l IH]; intros H; [reflexivity|]. cbn [flat_map].
  rewrite (H x (or_introl eq_refl)), IH; [reflexivity|]. intros y Hy. apply H. right. exact Hy.
Qed.

Lemma join_flat (f : bytes -> bytes) l : forall a,
  a ++ flat_map (fun p => "-"%char :: f p) l = join dash (a :: map f l).
Proof.
  induction l as [|x l IH]; intros a; [simpl; apply app_nil_r|].
  cbn [flat_map map]. rewrite join_cons2. f_equal. unfold dash. cbn [app]. f_equal.
  exact (IH (f x)).
Qed.

(* canonicalizeVersion on a text whose dash-fields are non-empty *)
Lemma canonicalize_join main F :
  forallb nonempty_b (main :: F) = true -> forallb nosep (main :: F) = true ->
  canonicalize (join dash (main :: F)) = join dash (map add_dots (main :: F)).
Proof.
  intros Hn Hs. unfold canonicalize. rewrite (fields_func_join _ Hn Hs).
  rewrite (flat_map_ext_in _ (fun p => "-"%char :: add_dots p)).
  - apply join_flat.
  - intros p Hp. destruct (join_occurs p F main Hp) as (a & b & E).
    rewrite E, (contains_sub_occurs ("-"%char :: p) a b). reflexivity.
Qed.

(* --- ".pre." --- *)

Lemma add_dots_join_pre Gs :
  forallb nonempty_b Gs = true -> add_dots (join dotpre Gs) = join dotpre (map add_dots Gs).
Proof.
  induction Gs as [|g Gs IH]; intros Hn; [reflexivity|].
  cbn [forallb] in Hn. apply andb_true_iff in Hn. destruct Hn as [Hg Hn].
  destruct Gs as [|h Gs]; [reflexivity|].
  cbn [map]. rewrite !join_cons2. cbn [map] in IH. rewrite <- (IH Hn).
  change (g ++ dotpre ++ join dotpre (h :: Gs))
    with (g ++ "."%char :: ($"pre" ++ "."%char :: join dotpre (h :: Gs))).
  rewrite add_dots_app_dot by (destruct g; discriminate).
  rewrite add_dots_app_dot by discriminate. reflexivity.
Qed.

Lemma dash_to_pre_app a b : dash_to_pre (a ++ b) = dash_to_pre a ++ dash_to_pre b.
Proof. unfold dash_to_pre. apply flat_map_app. Qed.

Definition nodash (p : bytes) : bool := negb (contains_c "-"%char p).

Lemma dash_to_pre_join Hs :
  forallb nodash Hs = true -> dash_to_pre (join dash Hs) = join dotpre Hs.
Proof.
  induction Hs as [|h Hs IH]; intros Hn; [reflexivity|].
  cbn [forallb] in Hn. apply andb_true_iff in Hn. destruct Hn as [Hh Hn].
  unfold nodash in Hh. apply negb_true_iff in Hh.
  destruct Hs as [|k Hs]; [cbn [join]; apply dash_to_pre_none, Hh|].
  rewrite !join_cons2, !dash_to_pre_app, (dash_to_pre_none h Hh), (IH Hn). reflexivity.
Qed.

Lemma dot_parts_pre a b :
  dot_parts (a ++ dotpre ++ b) = dot_parts a ++ SStr $"pre" :: dot_parts b.
Proof.
  change (a ++ dotpre ++ b) with (a ++ "."%char :: ($"pre" ++ "."%char :: b)).
  rewrite !dot_parts_app. reflexivity.
Qed.

Definition nosep_ne (p : bytes) : bool := nonempty_b p && nosep p.

Lemma nosep_no_char c p : is_sep c = true -> nosep p = true -> contains_c c p = false.
Proof.
  intros Hc. unfold nosep, contains_c. induction p as [|x p IH]; [reflexivity|].
  cbn [forallb existsb]. intros H. apply andb_true_iff in H. destruct H as [Hx Hp].
  rewrite (IH Hp), orb_false_r. apply ceqb_neq. intros <-. rewrite Hc in Hx. discriminate.
Qed.

Lemma nosep_join_plus Hs : forallb nosep Hs = true -> contains_c "+"%char (join dash Hs) = false.
Proof.
  induction Hs as [|h Hs IH]; intros H; [reflexivity|].
  cbn [forallb] in H. apply andb_true_iff in H. destruct H as [Hh H].
  destruct Hs as [|k Hs]; [cbn [join]; apply (nosep_no_char "+"%char h eq_refl Hh)|].
  rewrite join_cons2, !contains_c_app, (nosep_no_char "+"%char h eq_refl Hh), (IH H). reflexivity.
Qed.

(* parseSegments on a canonical text: "-" is ".pre.", then split at dots *)
Lemma parse_segments_join h Hs :
  forallb nosep_ne (h :: Hs) = true ->
  parse_segments (join dash (h :: Hs))
  = remove_trailing_zeros (dot_parts (dash_to_pre (join dash (h :: Hs)))).
Proof.
  intros H.
  assert (Hns : forallb nosep (h :: Hs) = true).
  { apply (forallb_impl nosep_ne); [|exact H]. intros x Hx. unfold nosep_ne in Hx.
    apply andb_true_iff in Hx. tauto. }
  assert (Hnd : forallb nodash (h :: Hs) = true).
  { apply (forallb_impl nosep); [|exact Hns]. intros x Hx. unfold nodash.
    rewrite (nosep_no_char "-"%char x eq_refl Hx). reflexivity. }
  unfold parse_segments.
  rewrite (cut_single_absent "+"%char) by (apply nosep_join_plus, Hns).
  cbv beta iota.
  cbn [forallb] in H, Hnd. apply andb_true_iff in H, Hnd. destruct H as [Hh H], Hnd as [Dh Hnd].
  unfold nodash in Dh. apply negb_true_iff in Dh.
  destruct Hs as [|k Hs].
  - cbn [join]. rewrite (cut_single_absent "-"%char) by exact Dh. cbv beta iota.
    rewrite (dash_to_pre_none h Dh).
    change (dot_parts []) with (@nil seg). rewrite !app_nil_r. reflexivity.
  - rewrite join_cons2. unfold dash at 1 3. cbn [app].
    rewrite (cut_single_first "-"%char) by exact Dh. cbv beta iota.
    change (h ++ "-"%char :: join dash (k :: Hs)) with (h ++ dash ++ join dash (k :: Hs)).
    rewrite !dash_to_pre_app, (dash_to_pre_none h Dh).
    change (dash_to_pre dash) with dotpre. rewrite dot_parts_pre.
    change (dot_parts []) with (@nil seg). rewrite app_nil_r.
    cbn [forallb] in H. apply andb_true_iff in H. destruct H as [Hk _].
    unfold nosep_ne in Hk. apply andb_true_iff in Hk. destruct Hk as [Hk _].
    destruct (join_hd_prefix dash k Hs) as [b E]. rewrite E.
    destruct k as [|c k]; [discriminate|]. reflexivity.
Qed.

(* --- NewVersion on a text given by its non-empty dash-fields --- *)

Lemma lc_nosep p : forallb lc p = true -> nosep p = true.
Proof.
  unfold nosep. apply forallb_impl. intros c H. apply negb_true_iff, dl_not_sep, lc_dl, H.
Qed.

Lemma gsub_is_dash_to_pre s : G.gem_gsub_pre s = dash_to_pre s.
Proof. reflexivity. Qed.

Lemma parse_core_join main F c r :
  join dash (main :: F) = c :: r -> is_digit c = true ->
  pattern (join dash (main :: F)) = true ->
  forallb nonempty_b (main :: F) = true ->
  forallb (forallb lc) (main :: F) = true ->
  forallb seg_small (G.gem_scan (join dotpre (main :: F))) = true ->
  parse_core (join dash (main :: F))
  = Some (remove_trailing_zeros (map emb (G.gem_scan (join dotpre (main :: F))))).
Proof.
  intros E Hc Hpat Hne Hlc Hsm.
  set (Gs := main :: F) in *.
  assert (Hns : forallb nosep Gs = true).
  { apply (forallb_impl (forallb lc)); [|exact Hlc]. apply lc_nosep. }
  assert (Hv : trim_prefix $"v" (join dash Gs) = join dash Gs).
  { unfold trim_prefix. rewrite E. simpl.
    assert (X : ceqb "v" c = false) by (apply ceqb_neq; intros <-; discriminate).
    rewrite X. reflexivity. }
  unfold parse_core. rewrite Hv, Hpat. rewrite E at 1. f_equal.
  unfold Gs at 1. rewrite (canonicalize_join main F Hne Hns). fold Gs.
  assert (Hmap : forallb nosep_ne (map add_dots Gs) = true).
  { rewrite forallb_forall. intros y Hy. apply in_map_iff in Hy. destruct Hy as (x & <- & Hx).
    rewrite forallb_forall in Hne, Hns. specialize (Hne x Hx). specialize (Hns x Hx).
    unfold nosep_ne. apply andb_true_iff. split.
    - destruct x; [discriminate|reflexivity].
    - unfold nosep in *. apply add_dots_class; [reflexivity|exact Hns]. }
  unfold Gs at 1. cbn [map]. rewrite parse_segments_join by exact Hmap.
  change (add_dots main :: map add_dots F) with (map add_dots Gs). f_equal.
  rewrite dash_to_pre_join.
  2:{ apply (forallb_impl nosep_ne); [|exact Hmap]. intros x Hx. unfold nosep_ne in Hx.
      apply andb_true_iff in Hx. destruct Hx as [_ Hx]. unfold nodash.
      rewrite (nosep_no_char "-"%char x eq_refl Hx). reflexivity. }
  rewrite <- (add_dots_join_pre Gs Hne).
  apply scan_dot_parts; [|exact Hsm].
  apply forallb_join; [reflexivity|exact Hlc].
Qed.

(* --- RubyGems' pattern: character class and first byte --- *)

Definition rb (c : ascii) : bool := is_alnum c || G.is_dot c || G.is_dash c.

Lemma vstep_char st c st' : G.vstep st c = Some st' -> rb c = true.
Proof.
  unfold G.vstep, rb, G.is_alnum_dash, is_alnum.
  destruct st; destruct (is_digit c), (is_letter c), (G.is_dot c), (G.is_dash c); simpl;
    intros H; try discriminate; reflexivity.
Qed.

Lemma vrun_chars s : forall st, G.vrun st s = true -> forallb rb s = true.
Proof.
  induction s as [|c s IH]; intros st H; [reflexivity|]. cbn [G.vrun] in H.
  destruct (G.vstep st c) as [st'|] eqn:E; [|discriminate].
  cbn [forallb]. rewrite (vstep_char st c st' E), (IH st' H). reflexivity.
Qed.

Lemma gem_pattern_hd s : G.gem_pattern s = true -> exists c r, s = c :: r /\ is_digit c = true.
Proof.
  unfold G.gem_pattern. destruct s as [|c r]; [discriminate|]. cbn [G.vrun G.vstep].
  destruct (is_digit c) eqn:D; [eauto|discriminate].
Qed.

Lemma piece_lc p :
  forallb (fun c => rb c && negb (is_upper c)) p = true -> contains_c "-"%char p = false ->
  forallb lc p = true.
Proof.
  unfold contains_c. induction p as [|x p IH]; [reflexivity|]. cbn [forallb existsb].
  intros H N. apply andb_true_iff in H. destruct H as [Hx Hp].
  apply orb_false_iff in N. destruct N as [Nx Np]. rewrite (IH Hp Np), andb_true_r.
  apply andb_true_iff in Hx. destruct Hx as [R U]. apply negb_true_iff in U.
  unfold rb, is_alnum, is_letter in R. unfold lc. rewrite U, orb_false_r in R.
  unfold G.is_dash in R.
  assert (X : ceqb x "-" = false).
  { apply ceqb_neq. intros ->. rewrite ceqb_refl in Nx. discriminate. }
  rewrite X, orb_false_r in R. exact R.
Qed.

(* ====================================================================================== *)
(* Part 3.  The statements                                                                 *)
(* ====================================================================================== *)

(* What is claimed: texts (after trimming) that the gem ecosystem accepts, without upper-case
   letters (go-univers lower-cases, Gem::Version is case-sensitive), in which every "-" is followed
   by something other than "-" or the end (canonicalizeVersion collapses "--" and drops a trailing
   "-", RubyGems reads each "-" as ".pre."), and whose numbers are below 2^63 (larger ones become
   text segments in go-univers).  A "+" build part needs no clause: RubyGems' pattern rejects it. *)
Definition in_scope (s : bytes) : bool :=
  let t := trim_space s in
  pattern t
  && forallb (fun c => negb (is_upper c)) t
  && forallb nonempty_b (split_c "-"%char t)
  && forallb seg_small (G.gem_segments s).

Lemma parse_in_scope s :
  in_scope s = true -> G.spec_valid s = true ->
  Version.parse s
  = Some {| v_core := remove_trailing_zeros (map emb (G.gem_segments s)); v_orig := s |}.
Proof.
  unfold in_scope, G.spec_valid, G.gem_valid, G.gem_segments.
  set (t := trim_space s). intros H Hv.
  repeat (apply andb_true_iff in H; destruct H as [H ?]).
  rename H into Hpat, H0 into Hsm, H1 into Hne, H2 into Hup.
  destruct (gem_pattern_hd t Hv) as (c & r & E & Hc).
  pose proof (vrun_chars t _ Hv) as Hrb.
  pose proof (join_split "-"%char t) as HJ. fold dash in HJ.
  pose proof (split_c_nonempty "-"%char t) as HN.
  destruct (split_c "-"%char t) as [|main F] eqn:ES; [contradiction|].
  assert (Hlc : forallb (forallb lc) (main :: F) = true).
  { pose proof (split_c_pieces "-"%char t) as P1.
    assert (P2 : forallb (forallb (fun c => rb c && negb (is_upper c))) (split_c "-"%char t) = true).
    { apply split_c_class. rewrite forallb_forall in *. intros x Hx.
      rewrite (Hrb x Hx), (Hup x Hx). reflexivity. }
    rewrite ES in P1, P2. rewrite forallb_forall in *. intros p Hp.
    apply piece_lc; [apply P2, Hp|]. apply negb_true_iff, P1, Hp. }
  assert (Hgsub : G.gem_gsub_pre t = join dotpre (main :: F)).
  { rewrite gsub_is_dash_to_pre, <- HJ. apply dash_to_pre_join.
    apply (forallb_impl (forallb lc)); [|exact Hlc]. intros p Hp. unfold nodash.
    rewrite (nosep_no_char "-"%char p eq_refl (lc_nosep p Hp)). reflexivity. }
  unfold Version.parse, VLayer.parse. fold t.
  rewrite Hgsub in *. rewrite <- HJ.
  rewrite (parse_core_join main F c r); [reflexivity| | | | | |]; try assumption.
  - rewrite HJ. exact E.
  - rewrite HJ. exact Hpat.
Qed.

Theorem gem_cmp_is_spec a b :
  in_scope a = true -> in_scope b = true ->
  G.spec_valid a = true -> G.spec_valid b = true ->
  v_cmp Entry.v a b = G.spec_cmp a b.
Proof.
  intros Sa Sb Va Vb.
  unfold Entry.v, mk_vops. cbn [v_cmp].
  change (VLayer.parse parse_core raw_orig a) with (Version.parse a).
  change (VLayer.parse parse_core raw_orig b) with (Version.parse b).
  rewrite (parse_in_scope a Sa Va), (parse_in_scope b Sb Vb).
  unfold G.spec_cmp. rewrite Va, Vb. cbn [andb]. f_equal.
  unfold VLayer.cmp. cbn [v_core]. rewrite cmp_core_is_gem_cmp_segs. reflexivity.
Qed.

Theorem gem_accepts_spec_valid s :
  in_scope s = true -> G.spec_valid s = true -> exists t, v_show Entry.v s = Some t.
Proof.
  intros Ss Vs. unfold Entry.v, mk_vops. cbn [v_show].
  change (VLayer.parse parse_core raw_orig s) with (Version.parse s).
  rewrite (parse_in_scope s Ss Vs). simpl. eauto.
Qed.

(* String() of an accepted text is the text itself *)
Corollary gem_show_spec_valid s :
  in_scope s = true -> G.spec_valid s = true -> v_show Entry.v s = Some s.
Proof.
  intros Ss Vs. unfold Entry.v, mk_vops. cbn [v_show].
  change (VLayer.parse parse_core raw_orig s) with (Version.parse s).
  rewrite (parse_in_scope s Ss Vs). reflexivity.
Qed.

(* ====================================================================================== *)
(* Part 4.  Outside the scope: the unrestricted statements are false                        *)
(* ====================================================================================== *)

Definition has_upper (s : bytes) : bool := existsb is_upper (trim_space s).
Definition has_empty_dash_field (s : bytes) : bool :=
  negb (forallb nonempty_b (split_c "-"%char (trim_space s))).
Definition has_big_number (s : bytes) : bool := negb (forallb seg_small (G.gem_segments s)).
Definition go_rejects (s : bytes) : bool := negb (pattern (trim_space s)).

(* the four classes are exactly the complement of the scope *)
Lemma in_scope_complement s :
  in_scope s = negb (go_rejects s || has_upper s || has_empty_dash_field s || has_big_number s).
Proof.
  unfold in_scope, go_rejects, has_upper, has_empty_dash_field, has_big_number.
  rewrite !negb_orb, !negb_involutive.
  assert (X : forallb (fun c => negb (is_upper c)) (trim_space s) = negb (existsb is_upper (trim_space s))).
  { induction (trim_space s) as [|c t IH]; [reflexivity|]. cbn [forallb existsb].
    rewrite IH, negb_orb. reflexivity. }
  rewrite X. reflexivity.
Qed.

(* without the scope the order statement is false: every class holds a witness *)
Lemma gem_cmp_is_spec_refuted_upper :
  G.spec_valid $"1.A" = true /\ G.spec_valid $"1.a" = true /\
  has_upper $"1.A" = true /\
  v_cmp Entry.v $"1.A" $"1.a" = Some Eq /\ G.spec_cmp $"1.A" $"1.a" = Some Lt.
Proof. vm_compute. repeat split. Qed.

Lemma gem_cmp_is_spec_refuted_double_dash :
  G.spec_valid $"1--a" = true /\ G.spec_valid $"1-a" = true /\
  has_empty_dash_field $"1--a" = true /\
  v_cmp Entry.v $"1--a" $"1-a" = Some Eq /\ G.spec_cmp $"1--a" $"1-a" = Some Gt.
Proof. vm_compute. repeat split. Qed.

Lemma gem_cmp_is_spec_refuted_trailing_dash :
  G.spec_valid $"1-a-" = true /\ has_empty_dash_field $"1-a-" = true /\
  v_cmp Entry.v $"1-a-" $"1-a" = Some Eq /\ G.spec_cmp $"1-a-" $"1-a" = Some Lt.
Proof. vm_compute. repeat split. Qed.

Lemma gem_cmp_is_spec_refuted_big_number :
  G.spec_valid $"1.9223372036854775808" = true /\ G.spec_valid $"1.5" = true /\
  has_big_number $"1.9223372036854775808" = true /\
  v_cmp Entry.v $"1.9223372036854775808" $"1.5" = Some Lt /\
  G.spec_cmp $"1.9223372036854775808" $"1.5" = Some Gt.
Proof. vm_compute. repeat split. Qed.

(* RubyGems-valid texts the gem ecosystem rejects: a number after a letter group, and mixed
   alphanumeric groups that do not have the shape letters-then-digits *)
Lemma gem_accepts_spec_valid_refuted :
  G.spec_valid $"1.rc.1" = true /\ go_rejects $"1.rc.1" = true /\ v_show Entry.v $"1.rc.1" = None /\
  G.spec_valid $"1.2a" = true /\ go_rejects $"1.2a" = true /\ v_show Entry.v $"1.2a" = None /\
  G.spec_valid $"1.a1b" = true /\ go_rejects $"1.a1b" = true /\ v_show Entry.v $"1.a1b" = None.
Proof. vm_compute. repeat split. Qed.

(* conversely the gem ecosystem accepts texts RubyGems rejects ("v" prefix, "+" build part) *)
Lemma gem_accepts_more :
  G.spec_valid $"v1" = false /\ v_show Entry.v $"v1" = Some $"v1" /\
  G.spec_valid $"1+1" = false /\ v_show Entry.v $"1+1" = Some $"1+1".
Proof. vm_compute. repeat split. Qed.
