(* Eco/Gem/Version.v — model of pkg/ecosystem/gem/version.go (definitions only). *)
From Verif.Base Require Import Bytes GoNum.
From Verif.Eco.Gem Require Import FieldsFunc.
From Verif.Eco Require Import VLayer.
Local Open Scope N_scope.

(* ---------- versionPattern ----------
   The Go pattern is, with D = digit, A = ASCII letter, X = alnum or '.' or '-':
       ^ v? ( D+ {. D+} {. A+ D* } {- X+} {+ X+} ) $         ({..} = zero or more times)
   and it is applied to "v" ++ (text with one leading "v" removed); so the text itself must match
   the part after the optional v.  Only MatchString is used, so only the language matters:
     main  = D+ {. D+} {. A+ D* }               (contains neither '-' nor '+')
     pre   = {- X+}  = empty | '-' X+           (X contains '-')
     build = {+ X+}                             (X does not contain '+')
   The first '+' of the text therefore opens the build part, and the first '-' before it opens
   the pre part. *)

Definition is_x (c : ascii) : bool := is_alnum c || ceqb c "."%char || ceqb c "-"%char.

(* [a-zA-Z]+\d* *)
Definition alpha_num (s : bytes) : bool :=
  nonempty_b (take_while is_letter s) && forallb is_digit (drop_while is_letter s).

Definition main_ok (m : bytes) : bool :=
  match split_c "."%char m with
  | first :: rest =>
      nonempty_digits first && forallb alpha_num (drop_while_l nonempty_digits rest)
  | [] => false
  end.

Definition x_run (s : bytes) : bool := nonempty_b s && forallb is_x s.

Definition pattern (v : bytes) : bool :=
  let '(head, build_ok) :=
    match cut $"+" v with
    | Some (a, b) => (a, forallb x_run (split_c "+"%char b))
    | None => (v, true)
    end in
  let '(main, pre_ok) :=
    match cut $"-" head with
    | Some (a, b) => (a, x_run b)
    | None => (head, true)
    end in
  main_ok main && pre_ok && build_ok.

(* ---------- canonicalizeVersion ---------- *)

(* addDotsBetweenNumericAndAlpha *)
Fixpoint add_dots_aux (prev : ascii) (s : bytes) : bytes :=
  match s with
  | [] => []
  | r :: s' =>
      (if xorb (is_digit r) (is_digit prev)
          && negb (ceqb prev "."%char) && negb (ceqb r "."%char)
       then ["."%char; r] else [r]) ++ add_dots_aux r s'
  end.
Definition add_dots (s : bytes) : bytes :=
  match s with
  | [] => []
  | c :: s' => c :: add_dots_aux c s'
  end.

Definition is_sep (c : ascii) : bool := ceqb c "-"%char || ceqb c "+"%char.

(* the separator put back before a later part is "-" whenever "-"+part occurs ANYWHERE in the
   text, else "+" *)
Definition canonicalize (v : bytes) : bytes :=
  match fields_func is_sep v with
  | [] => v
  | main :: rest =>
      add_dots main ++
      flat_map (fun p =>
                  (if contains_sub ("-"%char :: p) v then "-"%char else "+"%char) :: add_dots p)
               rest
  end.

(* ---------- parseSegments ---------- *)

Inductive seg :=
| SNum (n : Z)        (* isNumeric, numValue *)
| SStr (s : bytes).   (* lower-cased value *)

(* createSegment: Atoi succeeds (sign allowed, int64 range) or the part is a string *)
Definition create_segment (part : bytes) : seg :=
  match atoi part with
  | Some z => SNum z
  | None => SStr (to_lower part)
  end.

Definition seg_is_zero (x : seg) : bool :=
  match x with SNum z => Z.eqb z 0 | SStr _ => false end.

(* on the reversed list: drop leading zeros but keep at least one element *)
Fixpoint drop_zeros_rev (l : list seg) : list seg :=
  match l with
  | [] => []
  | x :: t =>
      match t with
      | [] => l
      | _ => if seg_is_zero x then drop_zeros_rev t else l
      end
  end.
Definition remove_trailing_zeros (l : list seg) : list seg := rev (drop_zeros_rev (rev l)).

Definition dot_parts (s : bytes) : list seg :=
  map create_segment (filter nonempty_b (split_c "."%char s)).

(* strings.ReplaceAll(s, "-", ".pre.") *)
Definition dash_to_pre (s : bytes) : bytes :=
  flat_map (fun c => if ceqb c "-"%char then $".pre." else [c]) s.

Definition parse_segments (canon : bytes) : list seg :=
  let '(main0, build) :=
    match cut $"+" canon with Some (a, b) => (a, b) | None => (canon, []) end in
  let '(main, pre) :=
    match cut $"-" main0 with Some (a, b) => (a, b) | None => (main0, []) end in
  remove_trailing_zeros
    (dot_parts main
     ++ (match pre with [] => [] | _ => SStr $"pre" :: dot_parts (dash_to_pre pre) end)
     ++ dot_parts build).

Definition core := list seg.

Definition parse_core (t : bytes) : option core :=
  let v := trim_prefix $"v" t in
  match v with
  | [] => None
  | _ => if pattern v then Some (parse_segments (canonicalize v)) else None
  end.

(* ---------- Compare ---------- *)

Definition seg_is_num (x : seg) : bool := match x with SNum _ => true | SStr _ => false end.

(* splitNumericAndPrerelease *)
Definition numeric_part (c : core) : list seg := take_while_l seg_is_num c.
Definition prerelease_part (c : core) : list seg := drop_while_l seg_is_num c.

(* compareSegments *)
Definition seg_cmp (a b : seg) : comparison :=
  match a, b with
  | SNum x, SNum y => Z.compare x y
  | SNum _, SStr _ => Gt
  | SStr _, SNum _ => Lt
  | SStr x, SStr y => bytes_cmp x y
  end.

(* compareSegmentArrays: the shorter array is padded with numeric 0 *)
Definition segs_cmp : list seg -> list seg -> comparison := lex_pad (SNum 0%Z) seg_cmp.

Definition pre_opt (c : core) : option (list seg) :=
  match prerelease_part c with [] => None | p => Some p end.

Definition key (c : core) : list seg * option (list seg) := (numeric_part c, pre_opt c).

(* numeric parts first; then no prerelease > prerelease; then the prerelease arrays *)
Definition cmp_core : core -> core -> comparison :=
  cmp_on key (lex2 segs_cmp (opt_last segs_cmp)).

Definition raw_orig := true.

Definition ver := VLayer.ver core.
Definition parse : bytes -> option ver := VLayer.parse parse_core raw_orig.
Definition cmp : ver -> ver -> comparison := VLayer.cmp cmp_core.
Definition show : ver -> bytes := VLayer.show.
