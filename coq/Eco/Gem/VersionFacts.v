(* Eco/Gem/VersionFacts.v — Compare of the gem model is a total preorder (C01). *)
From Coq Require Import Lia.
From Verif.Base Require Import Bytes BytesFacts GoNum Ord.
From Verif.Eco.Gem Require Import FieldsFunc DecFacts.
From Verif.Eco Require Import VLayer VLayerFacts RangeCoreFacts.
From Verif.Eco.Gem Require Import Version.

(* compareSegments: strings below numbers; strings bytewise; numbers by value *)
Lemma seg_cmp_tp : TotalPreorder seg_cmp.
Proof.
  pose proof TP_bytes_cmp as TB. pose proof TP_Z as TZ.
  constructor.
  - intros [x|x]; simpl; [apply (tp_refl TZ)|apply (tp_refl TB)].
  - intros [x|x] [y|y]; simpl; try reflexivity; [apply (tp_anti TZ)|apply (tp_anti TB)].
  - intros [x|x] [y|y] [z|z] r; simpl; try congruence;
      [apply (tp_trans TZ)|apply (tp_trans TB)].
  - intros [x|x] [y|y] [z|z]; simpl; try congruence;
      [apply (tp_eq_l TZ)|apply (tp_eq_l TB)].
Qed.

Lemma segs_cmp_tp : TotalPreorder segs_cmp.
Proof. apply TP_lex_pad, seg_cmp_tp. Qed.

Lemma cmp_core_tp : TotalPreorder cmp_core.
Proof.
  unfold cmp_core. apply TP_on, TP_lex2; [|apply TP_opt_last]; apply segs_cmp_tp.
Qed.

Lemma cmp_tp : TotalPreorder cmp.
Proof. apply VLayerFacts.cmp_tp, cmp_core_tp. Qed.


(* the combinator form of [cmp_core] is the control flow of Compare *)
Lemma cmp_core_unfold a b :
  cmp_core a b =
  match segs_cmp (numeric_part a) (numeric_part b) with
  | Eq =>
      match prerelease_part a, prerelease_part b with
      | [], [] => Eq
      | [], _ :: _ => Gt
      | _ :: _, [] => Lt
      | p, q => segs_cmp p q
      end
  | c => c
  end.
Proof.
  unfold cmp_core, cmp_on, lex2, key, pre_opt, thenc. simpl.
  destruct (segs_cmp (numeric_part a) (numeric_part b)); try reflexivity.
  destruct (prerelease_part a), (prerelease_part b); reflexivity.
Qed.

(* ====================================================================================== *)
(* C03 (a): dotted numeric tuples are accepted and compare as integer tuples               *)
(* ====================================================================================== *)

Local Open Scope N_scope.

Definition dots (t : list N) : bytes := join $"." (map dec t).
Definition num_seg (n : N) : seg := SNum (Z.of_N n).

Definition dd (c : ascii) : bool := is_digit c || ceqb c "."%char.

Lemma dd_dec n : forallb dd (dec n) = true.
Proof.
  pose proof (dec_all_digits n) as H. rewrite forallb_forall in *.
  intros c Hc. unfold dd. rewrite (H c Hc). reflexivity.
Qed.

Lemma dd_dots t : forallb dd (dots t) = true.
Proof.
  unfold dots. apply forallb_join; [reflexivity|].
  rewrite forallb_forall. intros x Hx. apply in_map_iff in Hx. destruct Hx as (n & <- & _).
  apply dd_dec.
Qed.

Lemma dd_absent c s : dd c = false -> forallb dd s = true -> contains_c c s = false.
Proof.
  intros Hc. unfold contains_c. induction s as [|x s IH]; simpl; [reflexivity|].
  intros H. apply andb_true_iff in H. destruct H as [Hx Hs]. rewrite (IH Hs), orb_false_r.
  apply ceqb_neq. intros ->. congruence.
Qed.

Lemma digits_no_dot s : forallb is_digit s = true -> contains_c "."%char s = false.
Proof.
  unfold contains_c. induction s as [|x s IH]; simpl; [reflexivity|].
  intros H. apply andb_true_iff in H. destruct H as [Hx Hs]. rewrite (IH Hs), orb_false_r.
  apply ceqb_neq. intros <-. discriminate.
Qed.

Lemma split_dots t : t <> [] -> split_c "."%char (dots t) = map dec t.
Proof.
  intros Hne. unfold dots. apply (split_c_join "."%char).
  - destruct t; [contradiction|discriminate].
  - rewrite forallb_forall. intros x Hx. apply in_map_iff in Hx. destruct Hx as (n & <- & _).
    apply negb_true_iff, digits_no_dot, dec_all_digits.
Qed.

Lemma dots_hd t : t <> [] -> exists c r, dots t = c :: r /\ is_digit c = true.
Proof.
  destruct t as [|n t]; [contradiction|]. intros _.
  destruct (dec_hd_digit n) as (c & r & E & Hc).
  unfold dots. cbn [map]. destruct t as [|m t].
  - simpl. eauto.
  - change (join $"." (dec n :: map dec (m :: t)))
      with (dec n ++ $"." ++ join $"." (map dec (m :: t))).
    rewrite E. simpl. eauto.
Qed.

Lemma drop_while_l_all {A} (p : A -> bool) l : forallb p l = true -> drop_while_l p l = [].
Proof.
  induction l as [|x l IH]; simpl; [reflexivity|].
  intros H. apply andb_true_iff in H. destruct H as [Hx Hl]. rewrite Hx. apply IH, Hl.
Qed.

Lemma take_while_l_all {A} (p : A -> bool) l : forallb p l = true -> take_while_l p l = l.
Proof.
  induction l as [|x l IH]; simpl; [reflexivity|].
  intros H. apply andb_true_iff in H. destruct H as [Hx Hl]. rewrite Hx, (IH Hl). reflexivity.
Qed.

Lemma main_ok_dots t : t <> [] -> main_ok (dots t) = true.
Proof.
  intros Hne. unfold main_ok. rewrite (split_dots t Hne).
  destruct t as [|n t]; [contradiction|]. cbn [map].
  rewrite dec_nonempty_digits. rewrite drop_while_l_all; [reflexivity|].
  rewrite forallb_forall. intros x Hx. apply in_map_iff in Hx. destruct Hx as (m & <- & _).
  apply dec_nonempty_digits.
Qed.

Lemma pattern_dots t : t <> [] -> pattern (dots t) = true.
Proof.
  intros Hne. unfold pattern.
  rewrite (cut_single_absent "+"%char) by (apply dd_absent; [reflexivity|apply dd_dots]).
  rewrite (cut_single_absent "-"%char) by (apply dd_absent; [reflexivity|apply dd_dots]).
  rewrite (main_ok_dots t Hne). reflexivity.
Qed.

Lemma add_dots_aux_dd s : forall prev,
  dd prev = true -> forallb dd s = true -> add_dots_aux prev s = s.
Proof.
  induction s as [|r s IH]; intros prev Hp H; simpl; [reflexivity|].
  simpl in H. apply andb_true_iff in H. destruct H as [Hr Hs].
  rewrite (IH r Hr Hs).
  assert (E : xorb (is_digit r) (is_digit prev) && negb (ceqb prev ".") && negb (ceqb r ".") = false).
  { unfold dd in Hp, Hr. destruct (is_digit r), (is_digit prev); simpl in *;
      try reflexivity; try rewrite Hp; try rewrite Hr; simpl; rewrite ?andb_false_r; reflexivity. }
  rewrite E. reflexivity.
Qed.

Lemma add_dots_dd s : forallb dd s = true -> add_dots s = s.
Proof.
  destruct s as [|c s]; [reflexivity|]. simpl. intros H.
  apply andb_true_iff in H. destruct H as [Hc Hs]. rewrite (add_dots_aux_dd s c Hc Hs). reflexivity.
Qed.

Lemma fields_func_aux_none p s : forall cur,
  forallb (fun c => negb (p c)) s = true -> rev cur ++ s <> [] ->
  fields_func_aux p cur s = [rev cur ++ s].
Proof.
  induction s as [|c s IH]; intros cur H Hne; simpl.
  - rewrite app_nil_r in *. destruct cur; [contradiction|reflexivity].
  - simpl in H. apply andb_true_iff in H. destruct H as [Hc Hs].
    apply negb_true_iff in Hc. rewrite Hc. rewrite (IH (c :: cur) Hs).
    + simpl. rewrite <- app_assoc. reflexivity.
    + simpl. rewrite <- app_assoc. simpl. destruct (rev cur); discriminate.
Qed.

Lemma canonicalize_dd s : s <> [] -> forallb dd s = true -> canonicalize s = s.
Proof.
  intros Hne H. unfold canonicalize, fields_func.
  rewrite (fields_func_aux_none is_sep s []).
  - simpl. rewrite app_nil_r. apply add_dots_dd, H.
  - rewrite forallb_forall in *. intros c Hc. specialize (H c Hc).
    unfold dd in H. unfold is_sep. apply negb_true_iff.
    destruct (is_digit c) eqn:D.
    + rewrite (is_digit_not c "-"%char D eq_refl), (is_digit_not c "+"%char D eq_refl). reflexivity.
    + simpl in H. apply ceqb_eq in H. subst. reflexivity.
  - simpl. assumption.
Qed.

Lemma create_segment_dec n : n < two63 -> create_segment (dec n) = num_seg n.
Proof. intros H. unfold create_segment. rewrite (atoi_dec n H). reflexivity. Qed.

Lemma dot_parts_dots t :
  t <> [] -> Forall (fun n => n < two63) t -> dot_parts (dots t) = map num_seg t.
Proof.
  intros Hne HF. unfold dot_parts. rewrite (split_dots t Hne). clear Hne.
  induction HF as [|n t Hn HF IH]; [reflexivity|].
  cbn [map filter]. pose proof (dec_nonempty n) as Hd.
  destruct (dec n) eqn:E; [contradiction|]. cbn [nonempty_b map]. rewrite <- E.
  rewrite (create_segment_dec n Hn), IH. reflexivity.
Qed.

Lemma parse_segments_dots t :
  t <> [] -> Forall (fun n => n < two63) t ->
  parse_segments (dots t) = remove_trailing_zeros (map num_seg t).
Proof.
  intros Hne HF. unfold parse_segments.
  rewrite (cut_single_absent "+"%char) by (apply dd_absent; [reflexivity|apply dd_dots]).
  rewrite (cut_single_absent "-"%char) by (apply dd_absent; [reflexivity|apply dd_dots]).
  rewrite (dot_parts_dots t Hne HF). simpl. rewrite !app_nil_r. reflexivity.
Qed.

(* every dotted tuple with components below 2^63 is accepted *)
Theorem parse_core_dots t :
  t <> [] -> Forall (fun n => n < two63) t ->
  parse_core (dots t) = Some (remove_trailing_zeros (map num_seg t)).
Proof.
  intros Hne HF. unfold parse_core.
  destruct (dots_hd t Hne) as (c & r & E & Hc).
  assert (Hv : trim_prefix $"v" (dots t) = dots t).
  { unfold trim_prefix. rewrite E. simpl.
    assert (X : ceqb "v" c = false) by (apply ceqb_neq; intros <-; discriminate).
    rewrite X. reflexivity. }
  rewrite Hv. rewrite (pattern_dots t Hne).
  rewrite canonicalize_dd; [|rewrite E; discriminate|apply dd_dots].
  rewrite (parse_segments_dots t Hne HF). rewrite E. reflexivity.
Qed.

(* ---------- trailing zeros do not matter to Compare ---------- *)

Definition zero_seg : seg := SNum 0%Z.

Lemma seg_is_zero_eq x : seg_is_zero x = true -> x = zero_seg.
Proof.
  destruct x as [z|s]; simpl; [|discriminate]. intros H. apply Z.eqb_eq in H. subst. reflexivity.
Qed.

Lemma drop_zeros_rev_spec l :
  exists zs, l = zs ++ drop_zeros_rev l /\ Forall (eq zero_seg) zs.
Proof.
  induction l as [|x t IH]; [exists []; split; [reflexivity|constructor]|].
  destruct t as [|y t'].
  - exists []. split; [reflexivity|constructor].
  - cbn [drop_zeros_rev]. cbn [drop_zeros_rev] in IH.
    destruct (seg_is_zero x) eqn:Z.
    + destruct IH as (zs & E & F). exists (x :: zs). split.
      * simpl. f_equal. exact E.
      * constructor; [symmetry; apply seg_is_zero_eq, Z|exact F].
    + exists []. split; [reflexivity|constructor].
Qed.

Lemma rtz_spec l :
  exists zs, l = remove_trailing_zeros l ++ zs /\ Forall (eq zero_seg) zs.
Proof.
  unfold remove_trailing_zeros.
  destruct (drop_zeros_rev_spec (rev l)) as (zs & E & F).
  exists (rev zs). split.
  - rewrite <- rev_app_distr, <- E. symmetry. apply rev_involutive.
  - apply Forall_rev. exact F.
Qed.

Lemma lex_pad_l_zeros zs : Forall (eq zero_seg) zs -> lex_pad_l zero_seg seg_cmp zs = Eq.
Proof. induction 1 as [|x zs <- _ IH]; simpl; [reflexivity|exact IH]. Qed.

Lemma segs_cmp_app_zeros l zs : Forall (eq zero_seg) zs -> segs_cmp l (l ++ zs) = Eq.
Proof.
  intros F. unfold segs_cmp. induction l as [|x l IH]; cbn [app lex_pad].
  - apply lex_pad_l_zeros, F.
  - rewrite (tp_refl seg_cmp_tp). exact IH.
Qed.

Lemma rtz_cmp_eq l : segs_cmp (remove_trailing_zeros l) l = Eq.
Proof.
  destruct (rtz_spec l) as (zs & E & F). rewrite E at 2. apply segs_cmp_app_zeros, F.
Qed.

Lemma segs_cmp_rtz_l l m : segs_cmp (remove_trailing_zeros l) m = segs_cmp l m.
Proof. apply (tp_eq_l segs_cmp_tp), rtz_cmp_eq. Qed.

Lemma segs_cmp_rtz_r l m : segs_cmp m (remove_trailing_zeros l) = segs_cmp m l.
Proof. apply (tp_eq_r segs_cmp_tp), rtz_cmp_eq. Qed.

Lemma rtz_all_num l :
  forallb seg_is_num l = true -> forallb seg_is_num (remove_trailing_zeros l) = true.
Proof.
  intros H. destruct (rtz_spec l) as (zs & E & _). rewrite E, forallb_app in H.
  apply andb_true_iff in H. tauto.
Qed.

Lemma all_num_map t : forallb seg_is_num (map num_seg t) = true.
Proof. induction t; simpl; auto. Qed.

Lemma numeric_part_all l : forallb seg_is_num l = true -> numeric_part l = l.
Proof. apply take_while_l_all. Qed.
Lemma prerelease_part_all l : forallb seg_is_num l = true -> prerelease_part l = [].
Proof. apply drop_while_l_all. Qed.

(* two all-numeric cores compare by their padded segment arrays *)
Lemma cmp_core_all_num a b :
  forallb seg_is_num a = true -> forallb seg_is_num b = true -> cmp_core a b = segs_cmp a b.
Proof.
  intros Ha Hb. rewrite cmp_core_unfold.
  rewrite (numeric_part_all a Ha), (numeric_part_all b Hb),
          (prerelease_part_all a Ha), (prerelease_part_all b Hb).
  destruct (segs_cmp a b); reflexivity.
Qed.

Lemma seg_cmp_num_seg a b : seg_cmp (num_seg a) (num_seg b) = N.compare a b.
Proof. unfold num_seg, seg_cmp. apply N2Z.inj_compare. Qed.

Lemma segs_cmp_nums t1 t2 :
  segs_cmp (map num_seg t1) (map num_seg t2) = lex_pad 0 N.compare t1 t2.
Proof.
  unfold segs_cmp. change (SNum 0%Z) with (num_seg 0).
  assert (L : forall t, lex_pad_l (num_seg 0) seg_cmp (map num_seg t) = lex_pad_l 0 N.compare t).
  { induction t as [|y t IH]; cbn [map lex_pad_l]; [reflexivity|].
    rewrite IH, seg_cmp_num_seg. reflexivity. }
  revert t2. induction t1 as [|x t1 IH]; intros t2; [apply L|].
  destruct t2 as [|y t2]; cbn [map lex_pad].
  - specialize (IH []). cbn [map] in IH. rewrite IH, seg_cmp_num_seg. reflexivity.
  - rewrite IH, seg_cmp_num_seg. reflexivity.
Qed.

Lemma lex_pad_same_length {A} (pad : A) c l1 : forall l2,
  length l1 = length l2 -> lex_pad pad c l1 l2 = lex_short c l1 l2.
Proof.
  induction l1 as [|x l1 IH]; intros [|y l2] H; simpl in *; try discriminate; [reflexivity|].
  rewrite IH by lia. reflexivity.
Qed.

Theorem cmp_core_dots t1 t2 :
  cmp_core (remove_trailing_zeros (map num_seg t1)) (remove_trailing_zeros (map num_seg t2))
  = lex_pad 0 N.compare t1 t2.
Proof.
  rewrite cmp_core_all_num by (apply rtz_all_num, all_num_map).
  rewrite segs_cmp_rtz_l, segs_cmp_rtz_r. apply segs_cmp_nums.
Qed.

(* ---------- the string-level statement ---------- *)

Lemma dd_not_space c : dd c = true -> is_space c = false.
Proof.
  unfold dd. intros H. apply orb_true_iff in H. destruct H as [H|H].
  - destruct (is_space c) eqn:S; [|reflexivity]. exfalso.
    apply is_digit_range in H. unfold is_space in S.
    apply orb_true_iff in S. destruct S as [S|S].
    + apply N.eqb_eq in S. lia.
    + apply andb_true_iff in S. destruct S as [_ S]. apply N.leb_le in S. lia.
  - apply ceqb_eq in H. subst. reflexivity.
Qed.

Lemma trim_space_dots t : trim_space (dots t) = dots t.
Proof.
  apply RangeCoreFacts.trim_space_no_space. unfold RangeCoreFacts.no_space.
  pose proof (dd_dots t) as H. rewrite forallb_forall in *. intros c Hc.
  rewrite (dd_not_space c (H c Hc)). reflexivity.
Qed.

Definition small (t : list N) : Prop := Forall (fun n => n < two63) t.

Theorem parse_dots t :
  t <> [] -> small t ->
  parse (dots t) = Some {| v_core := remove_trailing_zeros (map num_seg t); v_orig := dots t |}.
Proof.
  intros Hne HF. unfold parse, VLayer.parse. rewrite trim_space_dots.
  rewrite (parse_core_dots t Hne HF). reflexivity.
Qed.

(* C03 (a): for every arity n >= 1, tuples of n components (below 2^63, in particular below 2^31)
   are accepted and compare as integer tuples *)
Theorem c03_tuples t1 t2 :
  t1 <> [] -> small t1 -> small t2 -> length t1 = length t2 ->
  exists v1 v2, parse (dots t1) = Some v1 /\ parse (dots t2) = Some v2 /\
                cmp v1 v2 = lex_short N.compare t1 t2.
Proof.
  intros Hne H1 H2 Hl.
  assert (Hne2 : t2 <> []) by (destruct t1, t2; simpl in *; try congruence; discriminate).
  eexists. eexists. split; [apply parse_dots; assumption|]. split; [apply parse_dots; assumption|].
  unfold cmp, VLayer.cmp. cbn [v_core]. rewrite cmp_core_dots. apply lex_pad_same_length, Hl.
Qed.

(* tuples of different arity: the shorter one is padded with zeros (1.2 = 1.2.0 < 1.2.1) *)
Theorem c03_tuples_padded t1 t2 :
  t1 <> [] -> t2 <> [] -> small t1 -> small t2 ->
  exists v1 v2, parse (dots t1) = Some v1 /\ parse (dots t2) = Some v2 /\
                cmp v1 v2 = lex_pad 0 N.compare t1 t2.
Proof.
  intros Hne Hne2 H1 H2.
  eexists. eexists. split; [apply parse_dots; assumption|]. split; [apply parse_dots; assumption|].
  unfold cmp, VLayer.cmp. cbn [v_core]. apply cmp_core_dots.
Qed.

(* ====================================================================================== *)
(* C03 (b): a pre-release marker makes a version older than the unmarked version           *)
(* ====================================================================================== *)

(* --- on parsed segments: anything after the numeric head starts a prerelease --- *)

Lemma drop_zeros_rev_cons x t :
  t <> [] -> drop_zeros_rev (x :: t) = if seg_is_zero x then drop_zeros_rev t else x :: t.
Proof. destruct t; [contradiction|reflexivity]. Qed.

Lemma drop_zeros_rev_str b w a :
  exists b0, drop_zeros_rev (b ++ SStr w :: a) = b0 ++ SStr w :: a.
Proof.
  induction b as [|x b IH].
  - exists []. simpl. destruct a; reflexivity.
  - destruct IH as [b0 IH]. cbn [app].
    rewrite drop_zeros_rev_cons by (destruct b; discriminate).
    destruct (seg_is_zero x).
    + exists b0. exact IH.
    + exists (x :: b). reflexivity.
Qed.

Lemma rtz_str a w b :
  exists b', remove_trailing_zeros (a ++ SStr w :: b) = a ++ SStr w :: b'.
Proof.
  unfold remove_trailing_zeros. rewrite rev_app_distr. cbn [rev]. rewrite <- app_assoc. cbn [app].
  destruct (drop_zeros_rev_str (rev b) w (rev a)) as [b0 E]. rewrite E.
  exists (rev b0). rewrite rev_app_distr. cbn [rev]. rewrite rev_involutive, <- app_assoc.
  reflexivity.
Qed.

Lemma numeric_part_app_str a w b :
  forallb seg_is_num a = true -> numeric_part (a ++ SStr w :: b) = a.
Proof.
  unfold numeric_part. induction a as [|x a IH]; simpl; [reflexivity|].
  intros H. apply andb_true_iff in H. destruct H as [Hx Ha]. rewrite Hx, (IH Ha). reflexivity.
Qed.

Lemma prerelease_part_app_str a w b :
  forallb seg_is_num a = true -> prerelease_part (a ++ SStr w :: b) = SStr w :: b.
Proof.
  unfold prerelease_part. induction a as [|x a IH]; simpl; [reflexivity|].
  intros H. apply andb_true_iff in H. destruct H as [Hx Ha]. rewrite Hx. apply IH, Ha.
Qed.

Theorem core_marker_lt nums w rest :
  forallb seg_is_num nums = true ->
  cmp_core (remove_trailing_zeros (nums ++ SStr w :: rest)) (remove_trailing_zeros nums) = Lt.
Proof.
  intros H. destruct (rtz_str nums w rest) as [r' E]. rewrite E.
  rewrite cmp_core_unfold.
  rewrite (numeric_part_app_str nums w r' H), (prerelease_part_app_str nums w r' H).
  rewrite (numeric_part_all _ (rtz_all_num nums H)), (prerelease_part_all _ (rtz_all_num nums H)).
  rewrite segs_cmp_rtz_r, (tp_refl segs_cmp_tp). reflexivity.
Qed.

(* --- on version texts --- *)

(* digits, letters and dots *)
Definition dl (c : ascii) : bool := is_digit c || is_letter c || ceqb c "."%char.

Lemma pred_not (p : ascii -> bool) c d : p c = true -> p d = false -> ceqb c d = false.
Proof. intros Hc Hd. apply ceqb_neq. intros ->. congruence. Qed.

Lemma dl_not c d : dl c = true -> dl d = false -> ceqb c d = false.
Proof. apply pred_not. Qed.

Lemma dl_absent c s : dl c = false -> forallb dl s = true -> contains_c c s = false.
Proof.
  intros Hc. unfold contains_c. induction s as [|x s IH]; simpl; [reflexivity|].
  intros H. apply andb_true_iff in H. destruct H as [Hx Hs]. rewrite (IH Hs), orb_false_r.
  apply ceqb_neq. intros ->. congruence.
Qed.

Lemma dd_dl c : dd c = true -> dl c = true.
Proof.
  unfold dd, dl. intros H. apply orb_true_iff in H. destruct H as [H|H]; rewrite H;
    rewrite ?orb_true_r; reflexivity.
Qed.

Lemma forallb_impl {A} (p q : A -> bool) l :
  (forall x, p x = true -> q x = true) -> forallb p l = true -> forallb q l = true.
Proof. intros I H. rewrite forallb_forall in *. auto. Qed.

Lemma is_letter_range c : is_letter c = true -> 65 <= code c <= 122.
Proof.
  unfold is_letter, is_lower, is_upper, in_range. intros H.
  apply orb_true_iff in H. destruct H as [H|H]; apply andb_true_iff in H; destruct H as [H1 H2];
    apply N.leb_le in H1, H2; lia.
Qed.

Lemma dl_not_space c : dl c = true -> is_space c = false.
Proof.
  unfold dl. intros H. apply orb_true_iff in H. destruct H as [H|H];
    [apply orb_true_iff in H; destruct H as [H|H]|].
  - apply dd_not_space. unfold dd. rewrite H. reflexivity.
  - destruct (is_space c) eqn:S; [|reflexivity]. exfalso.
    apply is_letter_range in H. unfold is_space in S.
    apply orb_true_iff in S. destruct S as [S|S].
    + apply N.eqb_eq in S. lia.
    + apply andb_true_iff in S. destruct S as [_ S]. apply N.leb_le in S. lia.
  - apply ceqb_eq in H. subst. reflexivity.
Qed.

Lemma dl_is_x c : dl c = true -> is_x c = true.
Proof.
  unfold dl, is_x, is_alnum. intros H.
  apply orb_true_iff in H. destruct H as [H|H]; rewrite H; rewrite ?orb_true_r; reflexivity.
Qed.

Lemma dl_not_sep c : dl c = true -> is_sep c = false.
Proof.
  intros H. unfold is_sep.
  rewrite (dl_not c "-"%char H eq_refl), (dl_not c "+"%char H eq_refl). reflexivity.
Qed.

(* addDots keeps the character class *)
Lemma add_dots_aux_class (p : ascii -> bool) s : forall prev,
  p "."%char = true -> forallb p s = true -> forallb p (add_dots_aux prev s) = true.
Proof.
  induction s as [|r s IH]; intros prev Hd H; simpl; [reflexivity|].
  simpl in H. apply andb_true_iff in H. destruct H as [Hr Hs].
  rewrite forallb_app, (IH r Hd Hs), andb_true_r.
  destruct (xorb _ _ && _ && _); simpl; rewrite ?Hd, Hr; reflexivity.
Qed.

Lemma add_dots_class (p : ascii -> bool) s :
  p "."%char = true -> forallb p s = true -> forallb p (add_dots s) = true.
Proof.
  destruct s as [|c s]; [reflexivity|]. simpl. intros Hd H.
  apply andb_true_iff in H. destruct H as [Hc Hs]. rewrite Hc. apply add_dots_aux_class; assumption.
Qed.

Lemma add_dots_nonempty s : s <> [] -> add_dots s <> [].
Proof. destruct s; [contradiction|discriminate]. Qed.

Lemma cut_single_first c a b :
  contains_c c a = false -> cut [c] (a ++ c :: b) = Some (a, b).
Proof.
  unfold contains_c. induction a as [|x a IH]; simpl.
  - intros _. rewrite ceqb_refl. reflexivity.
  - intros H. apply orb_false_iff in H. destruct H as [Hx Ha]. rewrite Hx. simpl.
    rewrite (IH Ha). reflexivity.
Qed.

Lemma cut_eq sep s :
  cut sep s =
  if has_prefix sep s then Some ([], skipn (length sep) s)
  else match s with
       | [] => None
       | c :: s' => match cut sep s' with Some (a, b) => Some (c :: a, b) | None => None end
       end.
Proof. destruct s; reflexivity. Qed.

Lemma cut_occurs p b : forall a, exists r, cut p (a ++ p ++ b) = Some r.
Proof.
  induction a as [|x a IH]; rewrite cut_eq.
  - simpl app. rewrite RangeCoreFacts.has_prefix_app. eauto.
  - destruct IH as [[u w] IH].
    destruct (has_prefix p ((x :: a) ++ p ++ b)); [eauto|].
    cbn [app]. rewrite IH. eauto.
Qed.

Lemma contains_sub_occurs p a b : contains_sub p (a ++ p ++ b) = true.
Proof. unfold contains_sub. destruct (cut_occurs p b a) as [r E]. rewrite E. reflexivity. Qed.

Lemma fields_func_two a x :
  a <> [] -> x <> [] ->
  forallb (fun c => negb (is_sep c)) a = true -> forallb (fun c => negb (is_sep c)) x = true ->
  fields_func is_sep (a ++ "-"%char :: x) = [a; x].
Proof.
  intros Ha Hx Na Nx. unfold fields_func.
  assert (G : forall cur, rev cur ++ a <> [] ->
            fields_func_aux is_sep cur (a ++ "-"%char :: x) = [rev cur ++ a; x]).
  { clear Ha. induction a as [|c a IH]; intros cur Hne.
    - cbn [app fields_func_aux]. change (is_sep "-") with true. cbv iota.
      rewrite app_nil_r in *. destruct cur as [|y cur]; [contradiction|].
      rewrite (fields_func_aux_none is_sep x [] Nx) by (simpl; assumption). reflexivity.
    - cbn [app fields_func_aux]. simpl in Na. apply andb_true_iff in Na. destruct Na as [Hc Na].
      apply negb_true_iff in Hc. rewrite Hc. rewrite (IH Na (c :: cur)).
      + simpl. rewrite <- app_assoc. reflexivity.
      + simpl. rewrite <- app_assoc. simpl. destruct (rev cur); discriminate. }
  apply (G []). simpl. assumption.
Qed.

Lemma dash_to_pre_none s : contains_c "-"%char s = false -> dash_to_pre s = s.
Proof.
  unfold contains_c, dash_to_pre. induction s as [|c s IH]; cbn [flat_map existsb]; [reflexivity|].
  intros H. apply orb_false_iff in H. destruct H as [Hc Hs].
  assert (X : ceqb c "-" = false).
  { apply ceqb_neq. intros ->. rewrite ceqb_refl in Hc. discriminate. }
  rewrite X, (IH Hs). reflexivity.
Qed.

Lemma dots_no_sep t : forallb (fun c => negb (is_sep c)) (dots t) = true.
Proof.
  apply (forallb_impl dd); [|apply dd_dots].
  intros c H. apply negb_true_iff, dl_not_sep, dd_dl, H.
Qed.

(* the "-x" spelling: "-rc1", "-alpha", "-beta.2", "-1", ... for any non-empty x made of
   letters, digits and dots *)
Theorem parse_core_dash t x :
  t <> [] -> small t -> x <> [] -> forallb dl x = true ->
  exists rest,
    parse_core (dots t ++ "-"%char :: x)
    = Some (remove_trailing_zeros (map num_seg t ++ SStr $"pre" :: rest)).
Proof.
  intros Hne Hs Hx Hdl.
  set (s := dots t ++ "-"%char :: x).
  destruct (dots_hd t Hne) as (c & r & E & Hc).
  assert (Hx_nosep : forallb (fun c => negb (is_sep c)) x = true).
  { apply (forallb_impl dl); [|exact Hdl]. intros y H. apply negb_true_iff, dl_not_sep, H. }
  assert (Hplus : contains_c "+"%char s = false).
  { unfold s. rewrite contains_c_app. rewrite (dd_absent "+"%char _ eq_refl (dd_dots t)).
    unfold contains_c. cbn [existsb]. change (ceqb "+" "-") with false.
    fold (contains_c "+"%char x). rewrite (dl_absent "+"%char x eq_refl Hdl). reflexivity. }
  assert (Hdash_dots : contains_c "-"%char (dots t) = false)
    by (apply (dd_absent "-"%char _ eq_refl (dd_dots t))).
  assert (Hv : trim_prefix $"v" s = s).
  { unfold trim_prefix, s. rewrite E. simpl.
    assert (X : ceqb "v" c = false) by (apply ceqb_neq; intros <-; discriminate).
    rewrite X. reflexivity. }
  assert (Hpat : pattern s = true).
  { unfold pattern. rewrite (cut_single_absent "+"%char) by exact Hplus.
    unfold s. rewrite (cut_single_first "-"%char) by exact Hdash_dots.
    rewrite (main_ok_dots t Hne). unfold x_run.
    rewrite (forallb_impl dl is_x x dl_is_x Hdl). destruct x; [contradiction|reflexivity]. }
  assert (Hcanon : canonicalize s = dots t ++ "-"%char :: add_dots x).
  { unfold canonicalize, s.
    rewrite (fields_func_two (dots t) x); [|rewrite E; discriminate|assumption|apply dots_no_sep|assumption].
    cbn [flat_map]. rewrite app_nil_r.
    assert (C : contains_sub ("-"%char :: x) (dots t ++ "-"%char :: x) = true).
    { pose proof (contains_sub_occurs ("-"%char :: x) (dots t) []) as C.
      rewrite app_nil_r in C. exact C. }
    rewrite C. rewrite (add_dots_dd (dots t) (dd_dots t)). reflexivity. }
  assert (Hax : forallb dl (add_dots x) = true) by (apply add_dots_class; [reflexivity|exact Hdl]).
  exists (dot_parts (add_dots x) ++ dot_parts []).
  unfold parse_core. rewrite Hv, Hpat, Hcanon.
  assert (Hs_ne : s <> []) by (unfold s; rewrite E; discriminate).
  destruct s eqn:Es; [contradiction|]. f_equal.
  unfold parse_segments.
  rewrite (cut_single_absent "+"%char).
  2:{ rewrite contains_c_app, (dd_absent "+"%char _ eq_refl (dd_dots t)).
      unfold contains_c. cbn [existsb]. change (ceqb "+" "-") with false.
      fold (contains_c "+"%char (add_dots x)).
      rewrite (dl_absent "+"%char _ eq_refl Hax). reflexivity. }
  rewrite (cut_single_first "-"%char) by exact Hdash_dots.
  rewrite (dot_parts_dots t Hne Hs).
  rewrite (dash_to_pre_none (add_dots x) (dl_absent "-"%char _ eq_refl Hax)).
  pose proof (add_dots_nonempty x Hx) as Hn.
  destruct (add_dots x) eqn:Ea; [contradiction|]. rewrite <- Ea. reflexivity.
Qed.

Lemma no_space_dash t x : forallb dl x = true -> trim_space (dots t ++ "-"%char :: x) = dots t ++ "-"%char :: x.
Proof.
  intros Hdl. apply RangeCoreFacts.trim_space_no_space. unfold RangeCoreFacts.no_space.
  rewrite forallb_app. cbn [forallb].
  assert (A : forallb (fun c => negb (is_space c)) (dots t) = true).
  { apply (forallb_impl dd); [|apply dd_dots]. intros c H. rewrite (dd_not_space c H). reflexivity. }
  assert (B : forallb (fun c => negb (is_space c)) x = true).
  { apply (forallb_impl dl); [|exact Hdl]. intros c H. rewrite (dl_not_space c H). reflexivity. }
  rewrite A, B. reflexivity.
Qed.

(* C03 (b), "-" spellings: 1.2.3-rc1 < 1.2.3 etc. *)
Theorem c03_dash_marker_lt t x :
  t <> [] -> small t -> x <> [] -> forallb dl x = true ->
  exists v1 v2, parse (dots t ++ "-"%char :: x) = Some v1 /\ parse (dots t) = Some v2 /\
                cmp v1 v2 = Lt.
Proof.
  intros Hne Hs Hx Hdl.
  destruct (parse_core_dash t x Hne Hs Hx Hdl) as [rest E].
  eexists. eexists. split; [|split; [apply (parse_dots t Hne Hs)|]].
  - unfold parse, VLayer.parse. rewrite (no_space_dash t x Hdl), E. reflexivity.
  - unfold cmp, VLayer.cmp. cbn [v_core]. apply core_marker_lt, all_num_map.
Qed.

(* --- the ".w" / ".wN" spelling: ".pre", ".rc1", ".beta2", ... --- *)

Lemma split_c_nonempty c s : split_c c s <> [].
Proof.
  induction s as [|x s IH]; simpl; [discriminate|].
  destruct (ceqb c x); [discriminate|]. destruct (split_c c s); discriminate.
Qed.

Lemma split_c_app c a b : split_c c (a ++ c :: b) = split_c c a ++ split_c c b.
Proof.
  induction a as [|x a IH]; cbn [app split_c].
  - rewrite ceqb_refl. reflexivity.
  - destruct (ceqb c x); [rewrite IH; reflexivity|].
    rewrite IH. pose proof (split_c_nonempty c a) as N.
    destruct (split_c c a); [contradiction|reflexivity].
Qed.

Lemma dot_parts_app a b : dot_parts (a ++ "."%char :: b) = dot_parts a ++ dot_parts b.
Proof. unfold dot_parts. rewrite split_c_app, filter_app, map_app. reflexivity. Qed.

Lemma last_cons_default {A} (l : list A) : forall x d, last (x :: l) d = last l x.
Proof.
  induction l as [|a l IH]; intros x d; [reflexivity|].
  change (last (x :: a :: l) d) with (last (a :: l) d). rewrite (IH a d), (IH a x). reflexivity.
Qed.

Lemma add_dots_aux_app s1 : forall prev s2,
  add_dots_aux prev (s1 ++ s2) = add_dots_aux prev s1 ++ add_dots_aux (last s1 prev) s2.
Proof.
  induction s1 as [|r s1 IH]; intros prev s2; [reflexivity|].
  cbn [app add_dots_aux]. rewrite IH, <- app_assoc. rewrite last_cons_default. reflexivity.
Qed.

Lemma add_dots_aux_dot prev b : add_dots_aux prev ("."%char :: b) = "."%char :: add_dots b.
Proof.
  cbn [add_dots_aux]. rewrite ceqb_refl. cbn [negb]. rewrite andb_false_r. cbn [app].
  f_equal. destruct b as [|c b]; [reflexivity|].
  cbn [add_dots_aux add_dots]. rewrite ceqb_refl. cbn [negb]. rewrite andb_false_r. reflexivity.
Qed.

Lemma add_dots_app_dot a b :
  a <> [] -> add_dots (a ++ "."%char :: b) = add_dots a ++ "."%char :: add_dots b.
Proof.
  destruct a as [|c a]; [contradiction|]. intros _. cbn [app add_dots].
  rewrite add_dots_aux_app, add_dots_aux_dot. reflexivity.
Qed.

Definition nd (c : ascii) : bool := negb (is_digit c).

Lemma add_dots_aux_nd s : forall prev,
  is_digit prev = false -> forallb nd s = true -> add_dots_aux prev s = s.
Proof.
  induction s as [|r s IH]; intros prev Hp H; [reflexivity|].
  cbn [forallb] in H. apply andb_true_iff in H. destruct H as [Hr Hs].
  unfold nd in Hr. apply negb_true_iff in Hr.
  cbn [add_dots_aux]. rewrite Hr, Hp. cbn [xorb andb app]. rewrite (IH r Hr Hs). reflexivity.
Qed.

Lemma is_letter_not_digit c : is_letter c = true -> is_digit c = false.
Proof.
  intros H. destruct (is_digit c) eqn:D; [|reflexivity].
  apply is_letter_range in H. apply is_digit_range in D. lia.
Qed.

Lemma letters_nd w : forallb is_letter w = true -> forallb nd w = true.
Proof.
  apply forallb_impl. intros c H. unfold nd. rewrite (is_letter_not_digit c H). reflexivity.
Qed.

Lemma last_letter w c :
  forallb is_letter w = true -> is_letter c = true -> is_letter (last w c) = true.
Proof.
  revert c. induction w as [|x w IH]; intros c Hw Hc; [exact Hc|].
  cbn [forallb] in Hw. apply andb_true_iff in Hw. destruct Hw as [Hx Hw].
  destruct w as [|y w]; [exact Hx|]. change (last (x :: y :: w) c) with (last (y :: w) c).
  apply IH; assumption.
Qed.

(* a letter run followed by a digit run gets a dot in between *)
Lemma add_dots_letters_digits w d :
  w <> [] -> forallb is_letter w = true -> forallb is_digit d = true ->
  add_dots (w ++ d) = w ++ match d with [] => [] | _ => "."%char :: d end.
Proof.
  intros Hne Hw Hd. destruct w as [|c w]; [contradiction|].
  cbn [forallb] in Hw. apply andb_true_iff in Hw. destruct Hw as [Hc Hw].
  cbn [app add_dots]. rewrite add_dots_aux_app.
  rewrite (add_dots_aux_nd w c (is_letter_not_digit c Hc) (letters_nd w Hw)).
  f_equal. f_equal.
  pose proof (last_letter w c Hw Hc) as Hl.
  destruct d as [|x d]; [reflexivity|].
  cbn [forallb] in Hd. apply andb_true_iff in Hd. destruct Hd as [Hx Hd].
  cbn [add_dots_aux]. rewrite Hx, (is_letter_not_digit _ Hl). cbn [xorb].
  assert (X1 : ceqb (last w c) "." = false) by (apply (pred_not is_letter); [exact Hl|reflexivity]).
  assert (X2 : ceqb x "." = false) by (apply (pred_not is_digit); [exact Hx|reflexivity]).
  rewrite X1, X2. cbn [negb andb app].
  rewrite add_dots_aux_dd; [reflexivity|unfold dd; rewrite Hx; reflexivity|].
  apply (forallb_impl is_digit); [|exact Hd]. intros y Hy. unfold dd. rewrite Hy. reflexivity.
Qed.

Lemma atoi_letter c r : is_letter c = true -> atoi (c :: r) = None.
Proof.
  intros H. unfold atoi.
  rewrite (pred_not is_letter c "-"%char H eq_refl), (pred_not is_letter c "+"%char H eq_refl).
  unfold nonempty_digits. cbn [forallb]. rewrite (is_letter_not_digit c H). reflexivity.
Qed.

Lemma take_while_app_stop (p : ascii -> bool) a b :
  forallb p a = true -> forallb (fun c => negb (p c)) b = true ->
  take_while p (a ++ b) = a /\ drop_while p (a ++ b) = b.
Proof.
  intros Ha Hb. induction a as [|x a IH]; cbn [app take_while drop_while].
  - destruct b as [|y b]; [split; reflexivity|].
    cbn [forallb] in Hb. apply andb_true_iff in Hb. destruct Hb as [Hy _].
    apply negb_true_iff in Hy. cbn [take_while drop_while]. rewrite Hy. split; reflexivity.
  - cbn [forallb] in Ha. apply andb_true_iff in Ha. destruct Ha as [Hx Ha].
    rewrite Hx. destruct (IH Ha) as [I1 I2]. rewrite I1, I2. split; reflexivity.
Qed.

Lemma drop_while_l_app {A} (p : A -> bool) a b :
  forallb p a = true -> drop_while_l p (a ++ b) = drop_while_l p b.
Proof.
  induction a as [|x a IH]; simpl; [reflexivity|].
  intros H. apply andb_true_iff in H. destruct H as [Hx Ha]. rewrite Hx. apply IH, Ha.
Qed.

Lemma digits_not_letters d :
  forallb is_digit d = true -> forallb (fun c => negb (is_letter c)) d = true.
Proof.
  apply forallb_impl. intros c H. apply negb_true_iff.
  destruct (is_letter c) eqn:L; [|reflexivity]. rewrite (is_letter_not_digit c L) in H. discriminate.
Qed.

Lemma alpha_num_wd w d :
  w <> [] -> forallb is_letter w = true -> forallb is_digit d = true -> alpha_num (w ++ d) = true.
Proof.
  intros Hne Hw Hd. unfold alpha_num.
  destruct (take_while_app_stop is_letter w d Hw (digits_not_letters d Hd)) as [T D].
  rewrite T, D, Hd. destruct w; [contradiction|reflexivity].
Qed.

Theorem parse_core_dot t w d :
  t <> [] -> small t -> w <> [] -> forallb is_letter w = true -> forallb is_digit d = true ->
  exists rest,
    parse_core (dots t ++ "."%char :: w ++ d)
    = Some (remove_trailing_zeros (map num_seg t ++ SStr (to_lower w) :: rest)).
Proof.
  intros Hne Hs Hw Hlw Hd.
  set (x := w ++ d). set (s := dots t ++ "."%char :: x).
  destruct (dots_hd t Hne) as (c & r & E & Hc).
  assert (Hx_dl : forallb dl x = true).
  { unfold x. rewrite forallb_app. apply andb_true_iff. split.
    - apply (forallb_impl is_letter); [|exact Hlw]. intros y H. unfold dl. rewrite H.
      rewrite orb_true_r. reflexivity.
    - apply (forallb_impl is_digit); [|exact Hd]. intros y H. unfold dl. rewrite H. reflexivity. }
  assert (Hs_dl : forallb dl s = true).
  { unfold s. rewrite forallb_app. cbn [forallb]. rewrite Hx_dl.
    rewrite (forallb_impl dd dl _ dd_dl (dd_dots t)). reflexivity. }
  assert (Hx_nodot : contains_c "."%char x = false).
  { unfold x. rewrite contains_c_app, (digits_no_dot d Hd), orb_false_r.
    unfold contains_c. clear -Hlw. induction w as [|y w IH]; [reflexivity|].
    cbn [forallb existsb] in *. apply andb_true_iff in Hlw. destruct Hlw as [Hy Hw].
    rewrite (IH Hw), orb_false_r. apply ceqb_neq. intros <-. discriminate. }
  assert (Hsplit : split_c "."%char s = map dec t ++ [x]).
  { unfold s. rewrite split_c_app, (split_dots t Hne), (split_c_absent _ _ Hx_nodot). reflexivity. }
  assert (Hv : trim_prefix $"v" s = s).
  { unfold trim_prefix, s. rewrite E. simpl.
    assert (X : ceqb "v" c = false) by (apply ceqb_neq; intros <-; discriminate).
    rewrite X. reflexivity. }
  assert (Hx_hd : exists y x', x = y :: x' /\ is_letter y = true).
  { unfold x. destruct w as [|y w]; [contradiction|]. cbn [forallb] in Hlw.
    apply andb_true_iff in Hlw. destruct Hlw as [Hy _]. exists y, (w ++ d). auto. }
  assert (Hpat : pattern s = true).
  { unfold pattern.
    rewrite (cut_single_absent "+"%char) by (apply dl_absent; [reflexivity|exact Hs_dl]).
    rewrite (cut_single_absent "-"%char) by (apply dl_absent; [reflexivity|exact Hs_dl]).
    unfold main_ok. rewrite Hsplit.
    destruct t as [|n t]; [contradiction|]. cbn [map app].
    rewrite dec_nonempty_digits.
    rewrite drop_while_l_app.
    2:{ rewrite forallb_forall. intros z Hz. apply in_map_iff in Hz. destruct Hz as (m & <- & _).
        apply dec_nonempty_digits. }
    destruct Hx_hd as (y & x' & Ex & Hy).
    assert (ND : nonempty_digits x = false).
    { rewrite Ex. unfold nonempty_digits. cbn [forallb]. rewrite (is_letter_not_digit y Hy). reflexivity. }
    cbn [drop_while_l]. rewrite ND. cbn [forallb].
    unfold x. rewrite (alpha_num_wd w d Hw Hlw Hd). reflexivity. }
  assert (Hcanon : canonicalize s = dots t ++ "."%char :: add_dots x).
  { unfold canonicalize, fields_func.
    rewrite (fields_func_aux_none is_sep s []).
    - cbn [rev app flat_map]. rewrite app_nil_r. unfold s.
      rewrite add_dots_app_dot by (rewrite E; discriminate).
      rewrite (add_dots_dd _ (dd_dots t)). reflexivity.
    - apply (forallb_impl dl); [|exact Hs_dl]. intros y H. apply negb_true_iff, dl_not_sep, H.
    - unfold s. rewrite E. discriminate. }
  assert (Hax : add_dots x = w ++ match d with [] => [] | _ => "."%char :: d end)
    by (apply add_dots_letters_digits; assumption).
  assert (Hcs : create_segment w = SStr (to_lower w)).
  { destruct w as [|y w]; [contradiction|]. cbn [forallb] in Hlw.
    apply andb_true_iff in Hlw. destruct Hlw as [Hy _].
    unfold create_segment. rewrite (atoi_letter y w Hy). reflexivity. }
  assert (Hw_nodot : contains_c "."%char w = false).
  { unfold x in Hx_nodot. rewrite contains_c_app in Hx_nodot.
    apply orb_false_iff in Hx_nodot. tauto. }
  assert (Hdp : exists rest, dot_parts (add_dots x) = SStr (to_lower w) :: rest).
  { rewrite Hax. destruct d as [|z d].
    - rewrite app_nil_r. unfold dot_parts. rewrite (split_c_absent _ _ Hw_nodot).
      destruct w; [contradiction|]. cbn [filter nonempty_b map]. rewrite Hcs. eauto.
    - rewrite dot_parts_app. unfold dot_parts at 1. rewrite (split_c_absent _ _ Hw_nodot).
      destruct w; [contradiction|]. cbn [filter nonempty_b map app]. rewrite Hcs. eauto. }
  destruct Hdp as [rest Hdp]. exists rest.
  unfold parse_core. rewrite Hv, Hpat, Hcanon.
  assert (Hs_ne : s <> []) by (unfold s; rewrite E; discriminate).
  destruct s eqn:Es; [contradiction|]. f_equal.
  assert (Hc_dl : forallb dl (dots t ++ "."%char :: add_dots x) = true).
  { rewrite forallb_app. cbn [forallb].
    rewrite (forallb_impl dd dl _ dd_dl (dd_dots t)).
    rewrite (add_dots_class dl x eq_refl Hx_dl). reflexivity. }
  unfold parse_segments.
  rewrite (cut_single_absent "+"%char) by (apply dl_absent; [reflexivity|exact Hc_dl]).
  rewrite (cut_single_absent "-"%char) by (apply dl_absent; [reflexivity|exact Hc_dl]).
  rewrite dot_parts_app, (dot_parts_dots t Hne Hs), Hdp.
  cbn [app]. change (dot_parts []) with (@nil seg). rewrite !app_nil_r. reflexivity.
Qed.

(* C03 (b), "." spellings: 2.0.0.rc1 < 2.0.0, 1.2.pre < 1.2 etc. *)
Theorem c03_dot_marker_lt t w d :
  t <> [] -> small t -> w <> [] -> forallb is_letter w = true -> forallb is_digit d = true ->
  exists v1 v2, parse (dots t ++ "."%char :: w ++ d) = Some v1 /\ parse (dots t) = Some v2 /\
                cmp v1 v2 = Lt.
Proof.
  intros Hne Hs Hw Hlw Hd.
  destruct (parse_core_dot t w d Hne Hs Hw Hlw Hd) as [rest E].
  assert (T : trim_space (dots t ++ "."%char :: w ++ d) = dots t ++ "."%char :: w ++ d).
  { apply RangeCoreFacts.trim_space_no_space. unfold RangeCoreFacts.no_space.
    rewrite forallb_app. cbn [forallb]. rewrite forallb_app.
    assert (A : forallb (fun c => negb (is_space c)) (dots t) = true).
    { apply (forallb_impl dd); [|apply dd_dots]. intros c H. rewrite (dd_not_space c H). reflexivity. }
    assert (B : forallb (fun c => negb (is_space c)) w = true).
    { apply (forallb_impl is_letter); [|exact Hlw]. intros c H.
      rewrite (dl_not_space c); [reflexivity|]. unfold dl. rewrite H, orb_true_r. reflexivity. }
    assert (C : forallb (fun c => negb (is_space c)) d = true).
    { apply (forallb_impl is_digit); [|exact Hd]. intros c H.
      rewrite (dl_not_space c); [reflexivity|]. unfold dl. rewrite H. reflexivity. }
    rewrite A, B, C. reflexivity. }
  eexists. eexists. split; [|split; [apply (parse_dots t Hne Hs)|]].
  - unfold parse, VLayer.parse. rewrite T, E. reflexivity.
  - unfold cmp, VLayer.cmp. cbn [v_core]. apply core_marker_lt, all_num_map.
Qed.

(* instances of the two marker theorems, for the record *)
Example marker_rc1 : forall t k, t <> [] -> small t ->
  exists v1 v2, parse (dots t ++ $".rc" ++ dec k) = Some v1 /\ parse (dots t) = Some v2 /\ cmp v1 v2 = Lt.
Proof.
  intros t k Hne Hs.
  apply (c03_dot_marker_lt t $"rc" (dec k) Hne Hs); [discriminate|reflexivity|apply dec_all_digits].
Qed.

Example marker_dash_beta_n : forall t k, t <> [] -> small t ->
  exists v1 v2, parse (dots t ++ $"-beta." ++ dec k) = Some v1 /\ parse (dots t) = Some v2 /\ cmp v1 v2 = Lt.
Proof.
  intros t k Hne Hs.
  apply (c03_dash_marker_lt t ($"beta." ++ dec k) Hne Hs); [discriminate|].
  rewrite forallb_app. change (forallb dl $"beta.") with true.
  apply (forallb_impl is_digit); [|apply dec_all_digits]. intros c H. unfold dl. rewrite H. reflexivity.
Qed.

(* ---------- findings, as computed facts about the model (which agrees with the code) ---------- *)

Definition v_cmp_str (a b : bytes) : option comparison :=
  match parse a, parse b with Some x, Some y => Some (cmp x y) | _, _ => None end.

(* a component beyond int64 makes Atoi fail; the segment becomes a string, hence a pre-release *)
Lemma finding_overflow_component :
  v_cmp_str $"1.9223372036854775807" $"1.5" = Some Gt /\
  v_cmp_str $"1.9223372036854775808" $"1.5" = Some Lt /\
  v_cmp_str $"1.99999999999999999999" $"1.0" = Some Lt.
Proof. vm_compute. auto. Qed.

(* canonicalizeVersion decides between "-" and "+" by strings.Contains(version, "-"+part): build
   metadata "+1" is read as the pre-release "-1" because "-1" occurs later in the text *)
Lemma finding_plus_read_as_dash :
  v_cmp_str $"1+1" $"1" = Some Gt /\ v_cmp_str $"1+1-11" $"1" = Some Lt /\
  v_cmp_str $"1+1-11" $"1-1-11" = Some Eq.
Proof. vm_compute. auto. Qed.

(* build metadata takes part in the comparison; a signed number can reach the numeric head *)
Lemma finding_build_compared :
  v_cmp_str $"1.0+1" $"1.0.1" = Some Eq /\ v_cmp_str $"1+.-5" $"1" = Some Lt.
Proof. vm_compute. auto. Qed.
