(* Base/DecFacts.v — facts about fmt "%d" ([dec]) and reading it back ([digits_val]). *)
From Coq Require Import Lia.
From Verif.Base Require Import Bytes GoNum BytesFacts.
Local Open Scope N_scope.

Lemma small_cases (m : N) : m < 10 ->
  m = 0 \/ m = 1 \/ m = 2 \/ m = 3 \/ m = 4 \/ m = 5 \/ m = 6 \/ m = 7 \/ m = 8 \/ m = 9.
Proof. lia. Qed.

Lemma digit_chr_is_digit m : m < 10 -> is_digit (chr (48 + m)) = true.
Proof.
  intros H. destruct (small_cases m H) as [->|[->|[->|[->|[->|[->|[->|[->|[->| ->]]]]]]]]];
    reflexivity.
Qed.

Lemma digit_chr_val m : m < 10 -> digit_val (chr (48 + m)) = m.
Proof.
  intros H. destruct (small_cases m H) as [->|[->|[->|[->|[->|[->|[->|[->|[->| ->]]]]]]]]];
    reflexivity.
Qed.

Lemma digits_val_snoc s c : digits_val (s ++ [c]) = digits_val s * 10 + digit_val c.
Proof. unfold digits_val. rewrite fold_left_app. reflexivity. Qed.

Lemma dec_fuel_acc fuel : forall n acc, dec_fuel fuel n acc = dec_fuel fuel n [] ++ acc.
Proof.
  induction fuel as [|k IH]; intros n acc; [reflexivity|].
  cbn [dec_fuel]. destruct (n <? 10); [reflexivity|].
  rewrite (IH (n / 10) (_ :: acc)), (IH (n / 10) [_]), <- app_assoc. reflexivity.
Qed.

Lemma dec_fuel_step k n :
  dec_fuel (S k) n [] =
  if n <? 10 then [chr (48 + n mod 10)] else dec_fuel k (n / 10) [] ++ [chr (48 + n mod 10)].
Proof. cbn [dec_fuel]. destruct (n <? 10); [reflexivity|]. apply dec_fuel_acc. Qed.

Lemma dec_fuel_digits fuel : forall n, forallb is_digit (dec_fuel fuel n []) = true.
Proof.
  induction fuel as [|k IH]; intros n; [reflexivity|].
  rewrite dec_fuel_step.
  assert (D : is_digit (chr (48 + n mod 10)) = true).
  { apply digit_chr_is_digit. apply N.mod_lt. discriminate. }
  destruct (n <? 10).
  - cbn [forallb]. rewrite D. reflexivity.
  - rewrite forallb_app, IH. cbn [forallb]. rewrite D. reflexivity.
Qed.

Lemma dec_fuel_nonempty k n : dec_fuel (S k) n [] <> [].
Proof.
  rewrite dec_fuel_step. destruct (n <? 10); [discriminate|].
  destruct (dec_fuel k (n / 10) []); discriminate.
Qed.

Lemma dec_fuel_val k : forall n, n < 2 ^ N.of_nat k -> digits_val (dec_fuel (S k) n []) = n.
Proof.
  induction k as [|k IH]; intros n Hn.
  - assert (n = 0) by (simpl in Hn; lia). subst. reflexivity.
  - rewrite dec_fuel_step. destruct (n <? 10) eqn:E.
    + apply N.ltb_lt in E. unfold digits_val. cbn [fold_left].
      rewrite digit_chr_val by (apply N.mod_lt; discriminate).
      rewrite N.mod_small by assumption. lia.
    + apply N.ltb_ge in E. rewrite digits_val_snoc.
      rewrite digit_chr_val by (apply N.mod_lt; discriminate).
      rewrite IH.
      * pose proof (N.div_mod n 10). lia.
      * rewrite Nat2N.inj_succ, N.pow_succ_r' in Hn.
        apply N.div_lt_upper_bound; [discriminate|]. lia.
Qed.

Lemma pos_size_nat_bound p : N.pos p < 2 ^ N.of_nat (Pos.size_nat p).
Proof.
  induction p as [p IH|p IH|]; cbn [Pos.size_nat].
  - rewrite Nat2N.inj_succ, N.pow_succ_r'. lia.
  - rewrite Nat2N.inj_succ, N.pow_succ_r'. lia.
  - reflexivity.
Qed.

Lemma size_nat_bound n : n < 2 ^ N.of_nat (N.size_nat n).
Proof. destruct n as [|p]; [reflexivity|apply pos_size_nat_bound]. Qed.

Lemma dec_digits n : forallb is_digit (dec n) = true.
Proof. apply dec_fuel_digits. Qed.

Lemma dec_nonempty n : dec n <> [].
Proof. apply dec_fuel_nonempty. Qed.

Lemma dec_nonempty_digits n : nonempty_digits (dec n) = true.
Proof.
  unfold nonempty_digits. pose proof (dec_nonempty n) as H. pose proof (dec_digits n) as D.
  destruct (dec n); [contradiction|exact D].
Qed.

Lemma dec_val n : digits_val (dec n) = n.
Proof. apply dec_fuel_val, size_nat_bound. Qed.

(* strconv.Atoi (fmt.Sprint n) = n for n in int range *)
Lemma atoi_dec n : n < two63 -> atoi (dec n) = Some (Z.of_N n).
Proof.
  intros H. unfold atoi.
  pose proof (dec_nonempty n) as Hne. pose proof (dec_digits n) as D.
  pose proof (dec_nonempty_digits n) as ND. pose proof (dec_val n) as V.
  destruct (dec n) as [|c r] eqn:E; [contradiction|].
  assert (Hc : is_digit c = true) by (cbn [forallb] in D; apply andb_true_iff in D; tauto).
  assert (ceqb c "-"%char = false).
  { destruct (ceqb c "-"%char) eqn:X; [|reflexivity]. apply ceqb_eq in X. subst. discriminate. }
  assert (ceqb c "+"%char = false).
  { destruct (ceqb c "+"%char) eqn:X; [|reflexivity]. apply ceqb_eq in X. subst. discriminate. }
  rewrite H0, H1, ND, V. apply N.ltb_lt in H. rewrite H. reflexivity.
Qed.

Print Assumptions dec_val.
Print Assumptions atoi_dec.
