From Verif.Base Require Import Bytes.
From Verif.Eco Require Import Iface.
From Verif.Eco.Gentoo Require Version Range.

Definition v : vops := mk_vops Gentoo.Version.parse_core Gentoo.Version.cmp_core Gentoo.Version.raw_orig.
Definition r : rops := mk_simple_rops Gentoo.Range.cfg.
Definition entry : eco := {| e_name := $"gentoo"; e_v := v; e_r := r |}.
