(* Eco/Gentoo/Range.v — model of pkg/ecosystem/gentoo/range.go *)
From Verif.Base Require Import Bytes GoNum Ord.
From Verif.Gen Require Operators.
From Verif.Eco Require Import RangeCore.

(* operators := []string{">=", "<=", "!=", ">", "<", "="} in parseSingleConstraint *)
(* the list is generated from the Go source on every run (tools/gen -> Gen/Operators.v) *)
Definition gentoo_ops : list bytes :=
  Eval cbv delta [Verif.Gen.Operators.gentoo_ops] in Verif.Gen.Operators.gentoo_ops.

(* commas become spaces, strings.Fields; a single field means the whole trimmed text is one
   constraint; HasPrefix loop with "missing version" error; bound parsed at once; String()
   returns the trimmed text *)
Definition cfg : range_cfg := {|
  rc_split := split_comma_space;
  rc_empty_ok := false;
  rc_ops := gentoo_ops;
  rc_style := HasPrefixErr;
  rc_sem := sem6;
  rc_eager := true;
  rc_trimmed_orig := true
|}.
