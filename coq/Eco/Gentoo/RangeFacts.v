(* Eco/Gentoo/RangeFacts.v — the gentoo range parser is an instance of Eco/RangeCore.v; this file
   instantiates the generic C02 / C20 / C18 theorems for it, for ARBITRARY oracles vok / vcmp.
   gentoo has no shorthand operators, so there is no C05 statement. *)
From Coq Require Import Lia.
From Verif.Base Require Import Bytes BytesFacts GoNum Ord.
From Verif.Eco Require Import RangeCore RangeCoreFacts Iface.
From Verif.Eco.Gentoo Require Import Range Entry.

Lemma gentoo_ops_ok : ops_ok gentoo_ops = true.
Proof. vm_compute. reflexivity. Qed.

(* the switch in constraint.matches *)
Lemma gentoo_sem :
  sem6 $">=" = CGe /\ sem6 $"<=" = CLe /\ sem6 $"!=" = CNe /\
  sem6 $">" = CGt /\ sem6 $"<" = CLt /\ sem6 $"=" = CEq.
Proof. repeat split; reflexivity. Qed.

(* ---------- the splitter on texts without separators ---------- *)

Definition is_sep (c : ascii) : bool := is_space c || ceqb ","%char c.
Definition sep_free (s : bytes) : bool := forallb (fun c => negb (is_sep c)) s.

(* the scope clause of C02 for gentoo, as a boolean: a non-empty bound that does not start
   with a comparator character and contains neither whitespace nor a comma *)
Definition in_scope (a : bytes) : bool :=
  match a with [] => false | c :: _ => negb (opchar c) && sep_free a end.

Lemma sep_free_no_space s : sep_free s = true -> no_space s = true.
Proof.
  unfold sep_free, no_space, is_sep. induction s as [|c s IH]; [reflexivity|].
  cbn [forallb]. rewrite !andb_true_iff, !negb_true_iff, orb_false_iff.
  intros [[H _] Hs]. split; [exact H|apply IH, Hs].
Qed.

Lemma sep_free_replace s : sep_free s = true -> replace_c ","%char " "%char s = s.
Proof.
  unfold sep_free, replace_c, is_sep. induction s as [|c s IH]; [reflexivity|].
  cbn [forallb map]. rewrite andb_true_iff, negb_true_iff, orb_false_iff.
  intros [[_ H] Hs]. rewrite H, (IH Hs). reflexivity.
Qed.

Lemma sep_free_app a b : sep_free (a ++ b) = sep_free a && sep_free b.
Proof. unfold sep_free. apply forallb_app. Qed.

Lemma opchar_not_sep c : opchar c = true -> is_sep c = false.
Proof.
  intros H. unfold is_sep. rewrite (opchar_not_space c H). cbn [orb].
  unfold opchar in H. cbn [list_ascii_of_string existsb] in H. rewrite !orb_true_iff in H.
  repeat destruct H as [H|H]; try discriminate; apply ceqb_eq in H; subst; reflexivity.
Qed.

Lemma opchars_sep_free op : forallb opchar op = true -> sep_free op = true.
Proof.
  unfold sep_free. induction op as [|c op IH]; [reflexivity|]. cbn [forallb].
  rewrite andb_true_iff. intros [Hc H]. rewrite (opchar_not_sep c Hc), (IH H). reflexivity.
Qed.

Lemma fields_aux_word w : forall cur rest,
  no_space w = true -> fields_aux cur (w ++ rest) = fields_aux (rev w ++ cur) rest.
Proof.
  unfold no_space. induction w as [|c w IH]; intros cur rest H; [reflexivity|].
  cbn [forallb] in H. apply andb_true_iff in H. destruct H as [Hc Hw].
  apply negb_true_iff in Hc. cbn [app fields_aux]. rewrite Hc, (IH _ _ Hw).
  cbn [rev]. rewrite <- app_assoc. reflexivity.
Qed.

Lemma fields_single t : no_space t = true -> (length (fields t) <= 1)%nat.
Proof.
  intros H. unfold fields. rewrite <- (app_nil_r t), (fields_aux_word t [] [] H).
  cbn [fields_aux]. destruct (rev t ++ []); cbn [length]; lia.
Qed.

Lemma split_sep_free t : sep_free t = true -> split_comma_space t = [t].
Proof.
  intros H. unfold split_comma_space. rewrite (sep_free_replace t H).
  pose proof (fields_single t (sep_free_no_space t H)) as L.
  apply Nat.leb_le in L. rewrite L. reflexivity.
Qed.

Lemma in_scope_bound a : in_scope a = true -> bound_in_scope a /\ sep_free a = true.
Proof.
  unfold in_scope, bound_in_scope. destruct a as [|c a]; [discriminate|].
  rewrite andb_true_iff, negb_true_iff. intros [Hc Hs].
  split; [|exact Hs]. split; [discriminate|]. split; [apply sep_free_no_space, Hs|exact Hc].
Qed.

Lemma op_sep_free op : In op gentoo_ops -> sep_free op = true.
Proof.
  intros H. apply opchars_sep_free.
  pose proof (ops_ok_opchars _ gentoo_ops_ok) as Hoc. rewrite forallb_forall in Hoc. apply Hoc, H.
Qed.

(* ---------- C02: one comparator directly before a valid version ---------- *)

Section Oracles.
  Variable vok : bytes -> bool.
  Variable vcmp : bytes -> bytes -> comparison.

  Notation parse_range := (RangeCore.parse_range bytes (oracle_parse vok) cfg).
  Notation contains := (RangeCore.contains bytes (oracle_parse vok) vcmp cfg).

  Theorem gentoo_c02 op a v :
    In op gentoo_ops -> in_scope a = true -> vok a = true -> vok v = true ->
    r_contains Entry.r vok vcmp (op ++ a) v = Some (sat (sem6 op) (vcmp v a)).
  Proof.
    intros Hin Hsc Ha Hv. destruct (in_scope_bound a Hsc) as [Hb Hsf].
    assert (Hp : oracle_parse vok a = Some a) by (unfold oracle_parse; rewrite Ha; reflexivity).
    assert (Hsplit : rc_split cfg (op ++ a) = [op ++ a]).
    { apply split_sep_free. rewrite sep_free_app, (op_sep_free op Hin), Hsf. reflexivity. }
    destruct (simple_range_c02_single bytes (oracle_parse vok) vcmp cfg op a a
                gentoo_ops_ok Hin Hb Hp Hsplit) as (r & Hr & Hc).
    unfold r_contains, Entry.r, mk_simple_rops. rewrite Hr, Hv, Hc. reflexivity.
  Qed.

  (* a bare version is an exact match *)
  Theorem gentoo_c02_bare a v :
    in_scope a = true -> vok a = true -> vok v = true ->
    r_contains Entry.r vok vcmp a v = Some (sat CEq (vcmp v a)).
  Proof.
    intros Hsc Ha Hv. destruct (in_scope_bound a Hsc) as [Hb Hsf].
    assert (Hp : oracle_parse vok a = Some a) by (unfold oracle_parse; rewrite Ha; reflexivity).
    pose proof (parse_constraint_bare cfg a gentoo_ops_ok Hb) as Hpc.
    assert (Htrim : trim_space a = a) by (apply trim_space_no_space, sep_free_no_space, Hsf).
    unfold r_contains, Entry.r, mk_simple_rops, RangeCore.parse_range.
    rewrite Htrim. destruct a as [|c a']; [discriminate|].
    change (rc_split cfg (c :: a')) with (split_comma_space (c :: a')).
    rewrite (split_sep_free _ Hsf). cbn [parse_constraints]. rewrite Hpc.
    unfold bound_ok. cbn [rc_eager cfg snd]. rewrite Hp. cbn [rc_trimmed_orig].
    rewrite Hv. unfold RangeCore.contains. cbn [r_cs forallb]. unfold sat_constraint.
    cbn [fst snd rc_sem]. rewrite Hp. rewrite andb_true_r. reflexivity.
  Qed.

  (* ---------- C02, AND: constraints joined by commas and/or whitespace ---------- *)

  (* p0 sep1 p1 sep2 p2 ... *)
  Fixpoint glue (p0 : bytes) (rest : list (bytes * bytes)) : bytes :=
    match rest with
    | [] => p0
    | (sp, p) :: r => p0 ++ sp ++ glue p r
    end.

  Definition sep_ok (sp : bytes) : Prop := sp <> [] /\ forallb is_sep sp = true.
  Definition part_ok (p : bytes) : Prop := p <> [] /\ sep_free p = true.

  Lemma replace_sep sp : forallb is_sep sp = true ->
    forallb is_space (replace_c ","%char " "%char sp) = true.
  Proof.
    unfold replace_c, is_sep. induction sp as [|c sp IH]; [reflexivity|].
    cbn [forallb map]. rewrite andb_true_iff. intros [Hc Hs]. rewrite (IH Hs), andb_true_r.
    destruct (ceqb ","%char c); [reflexivity|]. rewrite orb_false_r in Hc. exact Hc.
  Qed.

  Lemma fields_aux_spaces sp : forall rest, forallb is_space sp = true ->
    fields_aux [] (sp ++ rest) = fields_aux [] rest.
  Proof.
    induction sp as [|c sp IH]; intros rest H; [reflexivity|].
    cbn [forallb] in H. apply andb_true_iff in H. destruct H as [Hc Hs].
    cbn [app fields_aux]. rewrite Hc. apply IH, Hs.
  Qed.

  Lemma fields_aux_flush sp cur rest :
    sp <> [] -> forallb is_space sp = true -> cur <> [] ->
    fields_aux cur (sp ++ rest) = rev cur :: fields_aux [] rest.
  Proof.
    intros Hne H Hcur. destruct sp as [|c sp]; [contradiction|].
    cbn [forallb] in H. apply andb_true_iff in H. destruct H as [Hc Hs].
    cbn [app fields_aux]. rewrite Hc. destruct cur as [|x cur]; [contradiction|].
    rewrite (fields_aux_spaces sp rest Hs). reflexivity.
  Qed.

  Lemma fields_glue rest : forall p0 cur,
    part_ok p0 -> Forall (fun sp_p => sep_ok (fst sp_p) /\ part_ok (snd sp_p)) rest ->
    fields_aux cur (replace_c ","%char " "%char (glue p0 rest)) = (rev cur ++ p0) :: map snd rest.
  Proof.
    induction rest as [|[sp p] rest IH]; intros p0 cur [Hne Hsf] HF.
    - cbn [glue map]. rewrite (sep_free_replace p0 Hsf).
      rewrite <- (app_nil_r p0) at 1. rewrite (fields_aux_word p0 cur [] (sep_free_no_space _ Hsf)).
      cbn [fields_aux].
      destruct (rev p0 ++ cur) eqn:E.
      + apply app_eq_nil in E. destruct E as [E _].
        apply (f_equal (@rev ascii)) in E. rewrite rev_involutive in E. contradiction.
      + rewrite <- E, rev_app_distr, rev_involutive. reflexivity.
    - inversion HF as [|x l [[Hspne Hsp] Hp] HF']; subst. cbn [fst snd] in *.
      cbn [glue map snd]. unfold replace_c. rewrite !map_app. fold (replace_c ","%char " "%char p0).
      fold (replace_c ","%char " "%char sp). fold (replace_c ","%char " "%char (glue p rest)).
      rewrite (sep_free_replace p0 Hsf).
      rewrite (fields_aux_word p0 cur _ (sep_free_no_space _ Hsf)).
      rewrite fields_aux_flush.
      + rewrite (IH p [] Hp HF'). rewrite rev_app_distr, rev_involutive. reflexivity.
      + destruct sp; [contradiction|discriminate].
      + apply replace_sep, Hsp.
      + intros E. apply app_eq_nil in E. destruct E as [E _].
        apply (f_equal (@rev ascii)) in E. rewrite rev_involutive in E. contradiction.
  Qed.

  Lemma split_glue p0 sp p rest :
    part_ok p0 -> Forall (fun sp_p => sep_ok (fst sp_p) /\ part_ok (snd sp_p)) ((sp, p) :: rest) ->
    split_comma_space (glue p0 ((sp, p) :: rest)) = p0 :: p :: map snd rest.
  Proof.
    intros H0 HF. unfold split_comma_space, fields.
    rewrite (fields_glue ((sp, p) :: rest) p0 [] H0 HF). reflexivity.
  Qed.

  Lemma glue_no_trim p0 rest :
    part_ok p0 -> Forall (fun sp_p => sep_ok (fst sp_p) /\ part_ok (snd sp_p)) rest ->
    trim_space (glue p0 rest) = glue p0 rest /\ glue p0 rest <> [].
  Proof.
    intros [Hne Hsf] HF.
    assert (Hhd : exists c t, glue p0 rest = c :: t /\ is_space c = false).
    { destruct p0 as [|c p0']; [contradiction|]. exists c.
      cbn [sep_free forallb] in Hsf. apply andb_true_iff in Hsf. destruct Hsf as [Hc _].
      apply negb_true_iff in Hc. unfold is_sep in Hc. apply orb_false_iff in Hc.
      destruct rest as [|[sp p] r]; cbn [glue]; eexists; (split; [reflexivity|tauto]). }
    assert (Hlast : exists c t, rev (glue p0 rest) = c :: t /\ is_space c = false).
    { clear Hhd. revert p0 Hne Hsf. induction HF as [|[sp p] r [_ [Hpne Hpsf]] _ IH]; intros p0 Hne Hsf.
      - cbn [glue]. destruct (rev p0) as [|c t] eqn:E.
        + apply (f_equal (@rev ascii)) in E. rewrite rev_involutive in E. contradiction.
        + exists c, t. split; [reflexivity|].
          unfold sep_free in Hsf. rewrite <- forallb_rev, E in Hsf. cbn [forallb] in Hsf.
          apply andb_true_iff in Hsf. destruct Hsf as [Hc _].
          apply negb_true_iff in Hc. unfold is_sep in Hc. apply orb_false_iff in Hc. tauto.
      - cbn [glue fst snd] in *. rewrite !rev_app_distr.
        destruct (IH p Hpne Hpsf) as (c & t & E & Hc). rewrite E.
        exists c. eexists. split; [reflexivity|exact Hc]. }
    destruct Hhd as (c & t & E & Hc). destruct Hlast as (c' & t' & E' & Hc').
    split; [|rewrite E; discriminate].
    unfold trim_space, trim_left, trim_right. rewrite E. cbn [drop_while]. rewrite Hc.
    rewrite <- E, E'. cbn [drop_while]. rewrite Hc'. rewrite <- E'. apply rev_involutive.
  Qed.

  Definition ctext (c : constraint) : bytes := fst c ++ snd c.
  Definition con_ok (c : constraint) : Prop :=
    In (fst c) gentoo_ops /\ in_scope (snd c) = true /\ vok (snd c) = true.

  Lemma con_ok_part c : con_ok c -> part_ok (ctext c).
  Proof.
    intros (Hin & Hsc & _). destruct (in_scope_bound _ Hsc) as [[Hne _] Hsf].
    unfold part_ok, ctext. split.
    - destruct (fst c); destruct (snd c); try discriminate; try contradiction.
    - rewrite sep_free_app, (op_sep_free _ Hin), Hsf. reflexivity.
  Qed.

  Lemma con_ok_scope c : con_ok c -> cons_in_scope bytes (oracle_parse vok) cfg c.
  Proof.
    intros (Hin & Hsc & Hv). destruct (in_scope_bound _ Hsc) as [Hb _].
    split; [exact Hin|]. split; [exact Hb|]. exists (snd c). unfold oracle_parse. rewrite Hv. reflexivity.
  Qed.

  (* c0 and the constraints cs, joined by arbitrary non-empty runs of commas / whitespace:
     the range contains exactly the versions that satisfy every comparator *)
  Theorem gentoo_c02_and c0 (cs : list (bytes * constraint)) v :
    con_ok c0 -> Forall (fun sc => sep_ok (fst sc) /\ con_ok (snd sc)) cs -> vok v = true ->
    r_contains Entry.r vok vcmp (glue (ctext c0) (map (fun sc => (fst sc, ctext (snd sc))) cs)) v =
    Some (forallb (fun c => sat (sem6 (fst c)) (vcmp v (snd c))) (c0 :: map snd cs)).
  Proof.
    intros H0 HF Hv.
    set (rest := map (fun sc => (fst sc, ctext (snd sc))) cs).
    assert (HF' : Forall (fun sp_p => sep_ok (fst sp_p) /\ part_ok (snd sp_p)) rest).
    { unfold rest. clear -HF. induction HF as [|sc l [Hs Hc] _ IH]; constructor; [|exact IH].
      cbn [fst snd]. split; [exact Hs|apply con_ok_part, Hc]. }
    pose proof (con_ok_part c0 H0) as Hp0.
    destruct (glue_no_trim (ctext c0) rest Hp0 HF') as [Htrim Hne].
    assert (Hscope : Forall (cons_in_scope bytes (oracle_parse vok) cfg) (c0 :: map snd cs)).
    { constructor; [apply con_ok_scope, H0|].
      clear -HF. induction HF as [|sc l [_ Hc] _ IH]; constructor; [apply con_ok_scope, Hc|exact IH]. }
    assert (Hsplit : rc_split cfg (trim_space (glue (ctext c0) rest)) =
                     map (RangeCoreFacts.ctext) (c0 :: map snd cs)).
    { rewrite Htrim. change (rc_split cfg) with split_comma_space.
      destruct cs as [|[sp c1] cs'].
      - cbn [rest map glue]. apply split_sep_free. apply Hp0.
      - cbn [rest map]. cbn [rest map] in HF'. rewrite (split_glue _ _ _ _ Hp0 HF').
        cbn [fst snd]. rewrite !map_map. reflexivity. }
    destruct (simple_range_c02 bytes (oracle_parse vok) vcmp cfg (glue (ctext c0) rest) (c0 :: map snd cs)
                gentoo_ops_ok ltac:(discriminate) Hscope ltac:(rewrite Htrim; exact Hne) Hsplit)
      as (r & Hr & Hc).
    unfold r_contains, Entry.r, mk_simple_rops. rewrite Hr, Hv, Hc. f_equal.
    assert (Hall : forall c, In c (c0 :: map snd cs) -> vok (snd c) = true).
    { intros c [<-|Hin]; [apply H0|].
      apply in_map_iff in Hin. destruct Hin as (sc & <- & Hin).
      rewrite Forall_forall in HF. apply (HF sc Hin). }
    clear -Hall. induction (c0 :: map snd cs) as [|c l IH]; [reflexivity|].
    cbn [forallb]. unfold oracle_parse at 1. rewrite (Hall c (or_introl eq_refl)).
    cbn [rc_sem cfg]. f_equal. apply IH. intros c' Hc'. apply Hall. right. exact Hc'.
  Qed.

  (* ---------- C20 ---------- *)

  Hypothesis TP : TotalPreorder vcmp.

  (* versions that compare equal are in the same ranges *)
  Theorem gentoo_c20_eq rg a b :
    vok a = true -> vok b = true -> vcmp a b = Eq ->
    r_contains Entry.r vok vcmp rg a = r_contains Entry.r vok vcmp rg b.
  Proof.
    intros Ha Hb E. unfold r_contains, Entry.r, mk_simple_rops.
    destruct (parse_range rg) as [r|]; [|reflexivity].
    rewrite Ha, Hb. f_equal. apply (simple_range_c20_eq bytes (oracle_parse vok) vcmp cfg TP r a b E).
  Qed.

  (* a range without "!=" is convex *)
  Theorem gentoo_c20_convex rg r a b c :
    parse_range rg = Some r -> conj_only cfg r = true ->
    le_c (vcmp a b) -> le_c (vcmp b c) ->
    contains r a = true -> contains r c = true -> contains r b = true.
  Proof.
    intros _. apply (simple_range_c20_convex bytes (oracle_parse vok) vcmp cfg TP).
  Qed.
End Oracles.

(* ---------- C18 ---------- *)

Theorem gentoo_range_reparse vok vcmp s r :
  RangeCore.parse_range bytes (oracle_parse vok) cfg s = Some r ->
  exists r', RangeCore.parse_range bytes (oracle_parse vok) cfg (RangeCore.show r) = Some r' /\
    forall v, RangeCore.contains bytes (oracle_parse vok) vcmp cfg r' v =
              RangeCore.contains bytes (oracle_parse vok) vcmp cfg r v.
Proof. apply range_reparse. Qed.

Print Assumptions gentoo_c02.
Print Assumptions gentoo_c02_bare.
Print Assumptions gentoo_c02_and.
Print Assumptions gentoo_c20_eq.
Print Assumptions gentoo_c20_convex.
Print Assumptions gentoo_range_reparse.
