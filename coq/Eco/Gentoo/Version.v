(* Eco/Gentoo/Version.v — model of pkg/ecosystem/gentoo/version.go (definitions only). *)
From Verif.Base Require Import Bytes GoNum.
From Verif.Gen Require Tables.
From Verif.Eco Require Import VLayer RangeCore.
Local Open Scope N_scope.

(* var suffixValues = map[string]int{...} *)
(* generated from the Go source on every run (tools/gen -> Gen/Tables.v) *)
Definition suffixValues : list (bytes * Z) :=
  Eval cbv delta [Verif.Gen.Tables.gentoo_suffixValues] in Verif.Gen.Tables.gentoo_suffixValues.

(* the alternation (alpha|beta|pre|rc|p) of versionPattern, in source order *)
Definition suffix_alts : list bytes := [$"alpha"; $"beta"; $"pre"; $"rc"; $"p"].

(* (?:\.\d+){0,10} : at most ten further components *)
Definition max_components : nat := 11.

(* type Version struct { numbers []int; letter, suffix string; suffixNum, revision int } *)
Record core := {
  numbers : list Z;
  letter : bytes;
  suffix : bytes;
  suffixNum : Z;
  revision : Z
}.

(* \d+(?:\.\d+)* read greedily from a text that starts with a digit: the digit runs and the
   remaining text.  [cur] is the current run, reversed.  A "." that is not followed by a digit
   stays in the remainder.  (Backtracking cannot help the regexp: giving back a digit or a
   whole ".\d+" group leaves a digit or a "." in front of ([a-zA-Z])?(_..)?(-r..)?$, which
   none of them can match.) *)
Fixpoint scan_numbers (s : bytes) (cur : bytes) {struct s} : list bytes * bytes :=
  match s with
  | [] => ([rev cur], [])
  | c :: s' =>
      if is_digit c then scan_numbers s' (c :: cur)
      else if ceqb c "."%char && match s' with d :: _ => is_digit d | [] => false end
      then let (l, r) := scan_numbers s' [] in (rev cur :: l, r)
      else ([rev cur], s)
  end.

(* strconv.Atoi on a non-empty digit run *)
Definition atoi_digits (p : bytes) : option Z :=
  let n := digits_val p in if n <? two63 then Some (Z.of_N n) else None.

Fixpoint atoi_all (ps : list bytes) : option (list Z) :=
  match ps with
  | [] => Some []
  | p :: r =>
      match atoi_digits p with
      | None => None
      | Some z => match atoi_all r with Some zs => Some (z :: zs) | None => None end
      end
  end.

(* "" -> 0 without calling Atoi *)
Definition atoi_opt (p : bytes) : option Z :=
  match p with [] => Some 0%Z | _ => atoi_digits p end.

(* ([a-zA-Z])? *)
Definition scan_letter (s : bytes) : bytes * bytes :=
  match s with
  | c :: s' => if is_letter c then ([c], s') else ([], s)
  | [] => ([], [])
  end.

(* (?:_(alpha|beta|pre|rc|p)([0-9]* ))? : (suffix, digits, rest); None when a "_" is present
   that no alternative can follow (the group is then skipped and "_" cannot match the tail) *)
Definition scan_suffix (s : bytes) : option (bytes * bytes * bytes) :=
  match s with
  | c :: s' =>
      if ceqb c "_"%char then
        match first_prefix suffix_alts s' with
        | Some (name, r) => Some (name, take_while is_digit r, drop_while is_digit r)
        | None => None
        end
      else Some ([], [], s)
  | [] => Some ([], [], [])
  end.

(* (?:-r(\d+))?$ : the revision digits ("" when absent) *)
Definition scan_revision (s : bytes) : option bytes :=
  match s with
  | [] => Some []
  | c1 :: c2 :: ds =>
      if ceqb c1 "-"%char && ceqb c2 "r"%char && nonempty_digits ds then Some ds else None
  | _ => None
  end.

(* the groups after the numeric part, then the Atoi calls in source order *)
Definition parse_rest (nums : list bytes) (r1 : bytes) : option core :=
  if (length nums <=? max_components)%nat then
    let (lt, r2) := scan_letter r1 in
    match scan_suffix r2 with
    | None => None
    | Some (sf, sn, r3) =>
      match scan_revision r3 with
      | None => None
      | Some rv =>
        match atoi_all nums with
        | None => None
        | Some ns =>
          match atoi_opt sn with
          | None => None
          | Some snz =>
            match atoi_opt rv with
            | None => None
            | Some rvz =>
                Some {| numbers := ns; letter := lt; suffix := sf;
                        suffixNum := snz; revision := rvz |}
            end
          end
        end
      end
    end
  else None.

(* versionPattern on the trimmed text *)
Definition parse_core (t : bytes) : option core :=
  match t with
  | [] => None
  | c :: _ =>
      if is_digit c
      then let (nums, r1) := scan_numbers t [] in parse_rest nums r1
      else None
  end.

(* vSuffixValue := 0; if v.suffix != "" { vSuffixValue = suffixValues[v.suffix] } *)
Definition suffix_value (s : bytes) : Z :=
  match s with
  | [] => 0%Z
  | _ => match lookup s suffixValues with Some z => z | None => 0%Z end
  end.

(* Compare: numbers padded with 0, letter as strings.Compare, suffix value, suffix number
   only if the receiver has a suffix, revision *)
Definition cmp_core (a b : core) : comparison :=
  thenc (lex_pad 0%Z Z.compare (numbers a) (numbers b))
  (thenc (bytes_cmp (letter a) (letter b))
  (thenc (Z.compare (suffix_value (suffix a)) (suffix_value (suffix b)))
  (thenc (match suffix a with
          | [] => Eq
          | _ => Z.compare (suffixNum a) (suffixNum b)
          end)
         (Z.compare (revision a) (revision b))))).

Definition raw_orig := true.

Definition ver := VLayer.ver core.
Definition parse : bytes -> option ver := VLayer.parse parse_core raw_orig.
Definition cmp : ver -> ver -> comparison := VLayer.cmp cmp_core.
Definition show : ver -> bytes := VLayer.show.
