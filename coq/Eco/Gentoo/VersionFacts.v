(* Eco/Gentoo/VersionFacts.v — C01 for gentoo: Compare is a total preorder on parsed versions;
   the accepted language (every text of the grammar parses to the expected struct); C03. *)
From Coq Require Import Lia.
From Verif.Base Require Import Bytes GoNum Ord BytesFacts.
From Verif.Eco.Gentoo Require Import DecFacts.
From Verif.Eco Require Import VLayer VLayerFacts RangeCore.
From Verif.Eco.Gentoo Require Import Version.

(* The Go struct invariant Compare relies on: a version whose suffix value is 0 (that is, a
   version without suffix) has suffixNum 0.  Compare skips the suffix-number step when the
   RECEIVER has no suffix; on arbitrary structs that is asymmetric, on parsed ones it is not. *)
Definition wf (c : core) : Prop := suffix_value (suffix c) = 0%Z -> suffixNum c = 0%Z.

(* the same chain with the suffix number compared unconditionally *)
Definition cmp_core_u : core -> core -> comparison :=
  lexc (cmp_on numbers (lex_pad 0%Z Z.compare))
  (lexc (cmp_on letter bytes_cmp)
  (lexc (cmp_on (fun c => suffix_value (suffix c)) Z.compare)
  (lexc (cmp_on suffixNum Z.compare)
        (cmp_on revision Z.compare)))).

Lemma cmp_core_u_tp : TotalPreorder cmp_core_u.
Proof.
  unfold cmp_core_u.
  apply TP_lexc; [apply (TP_on _ _ numbers), TP_lex_pad, TP_Z|].
  apply TP_lexc; [apply (TP_on _ _ letter), TP_bytes_cmp|].
  apply TP_lexc; [apply (TP_on _ _ (fun c => suffix_value (suffix c))), TP_Z|].
  apply TP_lexc; [apply (TP_on _ _ suffixNum), TP_Z|].
  apply (TP_on _ _ revision), TP_Z.
Qed.

Lemma cmp_core_eq_u a b : wf a -> wf b -> cmp_core a b = cmp_core_u a b.
Proof.
  intros Wa Wb. unfold cmp_core, cmp_core_u, lexc, cmp_on.
  destruct (lex_pad 0%Z Z.compare (numbers a) (numbers b)); try reflexivity. cbn [thenc].
  destruct (bytes_cmp (letter a) (letter b)); try reflexivity. cbn [thenc].
  destruct (suffix_value (suffix a) ?= suffix_value (suffix b))%Z eqn:E; try reflexivity.
  cbn [thenc]. apply Z.compare_eq in E.
  destruct (suffix a) as [|x s] eqn:Es; [|reflexivity].
  unfold wf in Wa, Wb. rewrite Es in Wa. cbn [suffix_value] in *.
  rewrite (Wa eq_refl), (Wb (eq_sym E)). reflexivity.
Qed.

Lemma cmp_core_tp : TotalPreorderOn wf cmp_core.
Proof.
  apply (TPO_ext _ wf cmp_core cmp_core_u cmp_core_eq_u).
  apply TPO_of_TP, cmp_core_u_tp.
Qed.

(* ---------- the parser establishes the invariant ---------- *)

Lemma first_prefix_in ops s op r : first_prefix ops s = Some (op, r) -> In op ops.
Proof.
  induction ops as [|o ops IH]; simpl; [discriminate|].
  destruct (has_prefix o s).
  - intros H. injection H as <- _. left. reflexivity.
  - intros H. right. apply IH, H.
Qed.

Lemma suffix_alts_nonzero name : In name suffix_alts -> suffix_value name <> 0%Z.
Proof.
  unfold suffix_alts. simpl.
  intros [<-|[<-|[<-|[<-|[<-|[]]]]]]; vm_compute; discriminate.
Qed.

Lemma scan_suffix_wf s sf sn r snz :
  scan_suffix s = Some (sf, sn, r) -> atoi_opt sn = Some snz ->
  suffix_value sf = 0%Z -> snz = 0%Z.
Proof.
  unfold scan_suffix. destruct s as [|c s'].
  - intros H. injection H as <- <- _. simpl. intros H _. injection H as <-. reflexivity.
  - destruct (ceqb c "_"%char).
    + destruct (first_prefix suffix_alts s') as [[name r']|] eqn:E; [|discriminate].
      intros H. injection H as <- _ _. intros _ Hz.
      exfalso. apply (suffix_alts_nonzero name); [|exact Hz].
      eapply first_prefix_in, E.
    + intros H. injection H as <- <- _. simpl. intros H _. injection H as <-. reflexivity.
Qed.

Lemma parse_core_wf t c : parse_core t = Some c -> wf c.
Proof.
  unfold parse_core. destruct t as [|c0 t0]; [discriminate|].
  destruct (is_digit c0); [|discriminate].
  destruct (scan_numbers (c0 :: t0) []) as [nums r1]. unfold parse_rest.
  destruct (length nums <=? max_components)%nat; [|discriminate].
  destruct (scan_letter r1) as [lt r2].
  destruct (scan_suffix r2) as [[[sf sn] r3]|] eqn:Es; [|discriminate].
  destruct (scan_revision r3) as [rv|]; [|discriminate].
  destruct (atoi_all nums) as [ns|]; [|discriminate].
  destruct (atoi_opt sn) as [snz|] eqn:En; [|discriminate].
  destruct (atoi_opt rv) as [rvz|]; [|discriminate].
  intros H. injection H as <-. unfold wf. cbn [suffix suffixNum].
  eapply scan_suffix_wf; eassumption.
Qed.

(* ---------- the version layer ---------- *)

Definition wf_ver (v : ver) : Prop := wf (v_core v).

Lemma parse_wf s v : parse s = Some v -> wf_ver v.
Proof.
  intros H. unfold wf_ver. eapply parse_core_wf.
  apply (VLayerFacts.parse_core_of _ parse_core raw_orig s v H).
Qed.

Lemma cmp_tp : TotalPreorderOn wf_ver cmp.
Proof.
  pose proof cmp_core_tp as T. unfold cmp, VLayer.cmp, wf_ver.
  constructor.
  - intros a Pa. apply (tpo_refl T); assumption.
  - intros a b Pa Pb. apply (tpo_anti T); assumption.
  - intros a b c x Pa Pb Pc. apply (tpo_trans T); assumption.
  - intros a b c Pa Pb Pc. apply (tpo_eq_l T); assumption.
Qed.

(* C01 in the property's wording, for any three accepted version strings *)
Theorem gentoo_c01 sa sb sc a b c :
  parse sa = Some a -> parse sb = Some b -> parse sc = Some c ->
  preorder_laws cmp a b c.
Proof.
  intros Ha Hb Hc.
  pose proof (parse_wf _ _ Ha) as Wa. pose proof (parse_wf _ _ Hb) as Wb.
  pose proof (parse_wf _ _ Hc) as Wc.
  unfold wf_ver in *.
  pose proof (TP_laws _ _ cmp_core_u_tp (v_core a) (v_core b) (v_core c)) as L.
  unfold preorder_laws, cmp, VLayer.cmp in *.
  rewrite !cmp_core_eq_u by assumption. exact L.
Qed.

(* the invariant is necessary: on raw structs Compare is not antisymmetric *)
Lemma cmp_core_not_antisym_without_wf :
  exists a b, cmp_core a b = Eq /\ cmp_core b a = Gt.
Proof.
  exists {| numbers := [1%Z]; letter := []; suffix := []; suffixNum := 0%Z; revision := 0%Z |},
         {| numbers := [1%Z]; letter := []; suffix := $"zz"; suffixNum := 5%Z; revision := 0%Z |}.
  split; vm_compute; reflexivity.
Qed.

Print Assumptions cmp_core_tp.
Print Assumptions cmp_tp.
Print Assumptions gentoo_c01.
Print Assumptions parse_core_wf.

(* ====================================================================================== *)
(* C03: numeric tuples, pre-/post-release markers                                           *)
(* ====================================================================================== *)
Local Open Scope N_scope.

(* ---------- character classes ---------- *)

Lemma letter_not_others c : is_letter c = true ->
  is_digit c = false /\ ceqb c "."%char = false /\ ceqb c "_"%char = false /\ ceqb c "-"%char = false.
Proof.
  unfold is_letter, is_lower, is_upper, is_digit, in_range, ceqb.
  change (code "."%char) with 46. change (code "_"%char) with 95. change (code "-"%char) with 45.
  intros H. apply orb_true_iff in H.
  rewrite !andb_false_iff, !N.leb_gt, !N.eqb_neq.
  destruct H as [H|H]; apply andb_true_iff in H; destruct H as [H1 H2];
    apply N.leb_le in H1; apply N.leb_le in H2; repeat split; lia.
Qed.

Lemma digit_not_r x : is_digit x = true -> ceqb "r"%char x = false.
Proof.
  intros H. destruct (ceqb "r"%char x) eqn:E; [|reflexivity].
  apply ceqb_eq in E. subst. discriminate.
Qed.

(* ---------- the scanners on well-formed texts ---------- *)

(* the text after the numeric part starts neither with a digit nor with a dot *)
Definition stops (s : bytes) : Prop :=
  match s with [] => True | c :: _ => is_digit c = false /\ ceqb c "."%char = false end.

Lemma scan_numbers_digits d : forall tail cur,
  forallb is_digit d = true -> scan_numbers (d ++ tail) cur = scan_numbers tail (rev d ++ cur).
Proof.
  induction d as [|c d IH]; intros tail cur H; [reflexivity|].
  cbn [forallb] in H. apply andb_true_iff in H. destruct H as [Hc Hd].
  cbn [app scan_numbers]. rewrite Hc. rewrite IH by assumption.
  cbn [rev]. rewrite <- app_assoc. reflexivity.
Qed.

Definition ne_digits (d : bytes) : Prop := nonempty_digits d = true.

Lemma ne_digits_inv d : ne_digits d -> exists c d', d = c :: d' /\ is_digit c = true /\ forallb is_digit d = true.
Proof.
  unfold ne_digits, nonempty_digits. destruct d as [|c d']; [discriminate|].
  intros H. exists c, d'. split; [reflexivity|]. split; [|exact H].
  cbn [forallb] in H. apply andb_true_iff in H. tauto.
Qed.

Lemma join_cons_hd c d' ds : exists t, join $"." ((c :: d') :: ds) = c :: t.
Proof. destruct ds; cbn [join]; eexists; reflexivity. Qed.

Lemma scan_dot_step (J rest cur : bytes) c' t :
  J = c' :: t -> is_digit c' = true -> forall l r,
  scan_numbers (J ++ rest) [] = (l, r) ->
  scan_numbers ("."%char :: J ++ rest) cur = (rev cur :: l, r).
Proof.
  intros -> H l r E. cbn [app scan_numbers] in *.
  change (is_digit "."%char) with false. change (ceqb "."%char "."%char) with true.
  rewrite H. cbn [andb]. rewrite H in E. rewrite E. reflexivity.
Qed.

Lemma scan_numbers_join ds : forall d cur rest,
  Forall ne_digits (d :: ds) -> stops rest ->
  scan_numbers (join $"." (d :: ds) ++ rest) cur = ((rev cur ++ d) :: ds, rest).
Proof.
  induction ds as [|d' ds IH]; intros d cur rest HF Hs.
  - inversion HF as [|x l Hd _]; subst.
    destruct (ne_digits_inv d Hd) as (c & d0 & -> & _ & Hall).
    cbn [join]. rewrite scan_numbers_digits by assumption.
    assert (EX : rev cur ++ c :: d0 = rev (rev (c :: d0) ++ cur))
      by (rewrite rev_app_distr, rev_involutive; reflexivity).
    rewrite EX.
    destruct rest as [|x rest]; [reflexivity|].
    cbn [stops] in Hs. destruct Hs as [H1 H2].
    cbn [scan_numbers]. rewrite H1.
    assert (E : ceqb x "."%char = false) by exact H2.
    rewrite E. reflexivity.
  - inversion HF as [|x l Hd HF']; subst.
    destruct (ne_digits_inv d Hd) as (c & d0 & -> & _ & Hall).
    assert (HF'' := HF'). inversion HF'' as [|x l Hd' _]; subst.
    destruct (ne_digits_inv d' Hd') as (c' & d0' & -> & Hc' & _).
    change (join $"." ((c :: d0) :: (c' :: d0') :: ds))
      with ((c :: d0) ++ $"." ++ join $"." ((c' :: d0') :: ds)).
    rewrite <- !app_assoc. rewrite scan_numbers_digits by assumption.
    destruct (join_cons_hd c' d0' ds) as (t & Et).
    pose proof (IH (c' :: d0') [] rest HF' Hs) as IH'.
    cbn [list_ascii_of_string app].
    rewrite (scan_dot_step _ rest _ c' t Et Hc' _ _ IH').
    change (rev [] ++ c' :: d0') with (c' :: d0').
    rewrite rev_app_distr, rev_involutive. reflexivity.
Qed.

Lemma take_while_app_stop p (a b : bytes) :
  forallb p a = true -> match b with [] => True | c :: _ => p c = false end ->
  take_while p (a ++ b) = a /\ drop_while p (a ++ b) = b.
Proof.
  intros Ha Hb. induction a as [|x a IH].
  - destruct b as [|c b]; [split; reflexivity|]. cbn [app take_while drop_while]. rewrite Hb. split; reflexivity.
  - cbn [forallb] in Ha. apply andb_true_iff in Ha. destruct Ha as [Hx Ha].
    destruct (IH Ha) as [I1 I2]. cbn [app take_while drop_while]. rewrite Hx, I1, I2. split; reflexivity.
Qed.

(* the optional groups as text *)
Definition letter_ok (l : bytes) : Prop := l = [] \/ exists c, l = [c] /\ is_letter c = true.
Definition sfx_text (sf sn : bytes) : bytes :=
  match sf with [] => [] | _ => "_"%char :: sf ++ sn end.
Definition rev_text (rv : bytes) : bytes :=
  match rv with [] => [] | _ => "-"%char :: "r"%char :: rv end.
Definition suffix_ok (sf sn : bytes) : Prop :=
  (sf = [] /\ sn = [] \/ In sf suffix_alts) /\ forallb is_digit sn = true.

Lemma scan_revision_text rv : forallb is_digit rv = true -> scan_revision (rev_text rv) = Some rv.
Proof.
  intros H. destruct rv as [|x rv]; [reflexivity|].
  unfold rev_text, scan_revision.
  change (ceqb "-"%char "-"%char) with true. change (ceqb "r"%char "r"%char) with true.
  unfold nonempty_digits. rewrite H. reflexivity.
Qed.

Lemma rev_text_not_digit rv : match rev_text rv with [] => True | c :: _ => is_digit c = false end.
Proof. destruct rv; [exact I|reflexivity]. Qed.

Lemma first_prefix_alts sf sn rv :
  In sf suffix_alts -> forallb is_digit sn = true ->
  first_prefix suffix_alts (sf ++ sn ++ rev_text rv) = Some (sf, sn ++ rev_text rv).
Proof.
  intros Hin Hsn. unfold suffix_alts in *. cbn [In] in Hin.
  destruct Hin as [<-|[<-|[<-|[<-|[<-|[]]]]]]; try reflexivity.
  (* "p": the alternative "pre" must not match *)
  cbn [first_prefix list_ascii_of_string app has_prefix].
  change (ceqb "a"%char "p"%char) with false. change (ceqb "b"%char "p"%char) with false.
  change (ceqb "r"%char "p"%char) with false. change (ceqb "p"%char "p"%char) with true.
  cbn [andb].
  destruct sn as [|x sn].
  - destruct rv as [|y rv]; reflexivity.
  - cbn [forallb] in Hsn. apply andb_true_iff in Hsn. destruct Hsn as [Hx _].
    cbn [app has_prefix]. rewrite (digit_not_r x Hx). reflexivity.
Qed.

Lemma scan_suffix_text sf sn rv :
  suffix_ok sf sn ->
  scan_suffix (sfx_text sf sn ++ rev_text rv) = Some (sf, sn, rev_text rv).
Proof.
  intros [[[-> ->]|Hin] Hsn].
  - cbn [sfx_text app]. destruct rv as [|y rv]; reflexivity.
  - assert (Hne : sf <> []).
    { intros ->. unfold suffix_alts in Hin. cbn [In] in Hin.
      destruct Hin as [H|[H|[H|[H|[H|[]]]]]]; discriminate. }
    destruct sf as [|s0 sf']; [contradiction|].
    unfold sfx_text. rewrite <- app_comm_cons. unfold scan_suffix.
    change (ceqb "_"%char "_"%char) with true. cbv iota.
    rewrite <- app_assoc, (first_prefix_alts (s0 :: sf') sn rv Hin Hsn).
    destruct (take_while_app_stop is_digit sn (rev_text rv) Hsn (rev_text_not_digit rv)) as [-> ->].
    reflexivity.
Qed.

Lemma tail_not_letter sf sn rv :
  suffix_ok sf sn ->
  match sfx_text sf sn ++ rev_text rv with
  | [] => True
  | c :: _ => is_letter c = false /\ is_digit c = false /\ ceqb c "."%char = false
  end.
Proof.
  intros _. destruct sf as [|s0 sf'].
  - cbn [sfx_text app]. destruct rv; [exact I|]. repeat split; reflexivity.
  - cbn [sfx_text app]. repeat split; reflexivity.
Qed.

Lemma scan_letter_text l rest :
  letter_ok l -> match rest with [] => True | c :: _ => is_letter c = false end ->
  scan_letter (l ++ rest) = (l, rest).
Proof.
  intros [->|(c & -> & Hc)] Hr.
  - cbn [app]. destruct rest as [|x rest]; [reflexivity|]. cbn [scan_letter]. rewrite Hr. reflexivity.
  - cbn [app scan_letter]. rewrite Hc. reflexivity.
Qed.

(* ---------- every text of the grammar parses to the expected struct ---------- *)

Definition version_text (ds : list bytes) (l sf sn rv : bytes) : bytes :=
  join $"." ds ++ l ++ sfx_text sf sn ++ rev_text rv.

Lemma parse_core_unfold (t : bytes) c t' nums r1 :
  t = c :: t' -> is_digit c = true -> scan_numbers t [] = (nums, r1) ->
  parse_core t = parse_rest nums r1.
Proof. intros -> H E. unfold parse_core. rewrite H, E. reflexivity. Qed.

Lemma parse_rest_build nums l sf sn rv :
  (length nums <= max_components)%nat ->
  letter_ok l -> suffix_ok sf sn -> forallb is_digit rv = true ->
  parse_rest nums (l ++ sfx_text sf sn ++ rev_text rv) =
  match atoi_all nums, atoi_opt sn, atoi_opt rv with
  | Some ns, Some a, Some b =>
      Some {| numbers := ns; letter := l; suffix := sf; suffixNum := a; revision := b |}
  | _, _, _ => None
  end.
Proof.
  intros Hlen Hl Hs Hrv.
  pose proof (tail_not_letter sf sn rv Hs) as Htl.
  unfold parse_rest. apply Nat.leb_le in Hlen. rewrite Hlen.
  rewrite scan_letter_text; [|assumption|].
  2:{ destruct (sfx_text sf sn ++ rev_text rv); [exact I|tauto]. }
  rewrite (scan_suffix_text sf sn rv Hs), (scan_revision_text rv Hrv).
  destruct (atoi_all nums); [|reflexivity].
  destruct (atoi_opt sn); [|reflexivity].
  destruct (atoi_opt rv); reflexivity.
Qed.

Theorem parse_core_build d ds l sf sn rv :
  Forall ne_digits (d :: ds) -> (length (d :: ds) <= max_components)%nat ->
  letter_ok l -> suffix_ok sf sn -> forallb is_digit rv = true ->
  parse_core (version_text (d :: ds) l sf sn rv) =
  match atoi_all (d :: ds), atoi_opt sn, atoi_opt rv with
  | Some ns, Some a, Some b =>
      Some {| numbers := ns; letter := l; suffix := sf; suffixNum := a; revision := b |}
  | _, _, _ => None
  end.
Proof.
  intros HF Hlen Hl Hs Hrv. unfold version_text.
  assert (Hd : ne_digits d) by (inversion HF; assumption).
  destruct (ne_digits_inv d Hd) as (c & d0 & Ed & Hc & _).
  assert (exists t, join $"." (d :: ds) = c :: t) as (t & Et).
  { rewrite Ed. apply join_cons_hd. }
  pose proof (tail_not_letter sf sn rv Hs) as Htl.
  assert (Hstops : stops (l ++ sfx_text sf sn ++ rev_text rv)).
  { destruct Hl as [->|(x & -> & Hx)].
    - cbn [app]. unfold stops. destruct (sfx_text sf sn ++ rev_text rv); [exact I|tauto].
    - cbn [app stops]. destruct (letter_not_others x Hx) as (A & B & _). split; assumption. }
  pose proof (scan_numbers_join ds d [] _ HF Hstops) as Hscan.
  assert (Ehd : join $"." (d :: ds) ++ l ++ sfx_text sf sn ++ rev_text rv
                = c :: (t ++ l ++ sfx_text sf sn ++ rev_text rv)).
  { rewrite Et. reflexivity. }
  etransitivity; [exact (parse_core_unfold _ c _ _ _ Ehd Hc Hscan)|].
  apply parse_rest_build; assumption.
Qed.

(* ---------- C03 (a): dotted numbers compare as integer tuples ---------- *)

Definition num_text (t : list N) : bytes := join $"." (map dec t).
Definition opt_num (o : option N) : bytes := match o with None => [] | Some k => dec k end.
Definition opt_val (o : option N) : Z := match o with None => 0%Z | Some k => Z.of_N k end.
Definition opt_small (o : option N) : Prop := match o with None => True | Some k => k < two63 end.

(* the tuples the property speaks about: 1 to 11 components, each within int range
   (the property asks for < 2^31 only) *)
Definition tuple_ok (t : list N) : Prop :=
  t <> [] /\ (length t <= max_components)%nat /\ Forall (fun n => n < two63) t.

Definition plain (ns : list Z) : core :=
  {| numbers := ns; letter := []; suffix := []; suffixNum := 0%Z; revision := 0%Z |}.

Lemma atoi_digits_dec k : k < two63 -> atoi_digits (dec k) = Some (Z.of_N k).
Proof. intros H. unfold atoi_digits. rewrite dec_val. apply N.ltb_lt in H. rewrite H. reflexivity. Qed.

Lemma atoi_opt_num o : opt_small o -> atoi_opt (opt_num o) = Some (opt_val o).
Proof.
  destruct o as [k|]; [|reflexivity]. cbn [opt_small opt_num opt_val]. intros H.
  unfold atoi_opt. pose proof (dec_nonempty k) as Hne.
  destruct (dec k) eqn:E; [contradiction|]. rewrite <- E. apply atoi_digits_dec, H.
Qed.

Lemma opt_num_digits o : forallb is_digit (opt_num o) = true.
Proof. destruct o; [apply dec_digits|reflexivity]. Qed.

Lemma atoi_all_dec t : Forall (fun n => n < two63) t -> atoi_all (map dec t) = Some (map Z.of_N t).
Proof.
  induction t as [|n t IH]; intros H; [reflexivity|].
  inversion H as [|x l Hn Ht]; subst. cbn [map atoi_all].
  rewrite (atoi_digits_dec n Hn), (IH Ht). reflexivity.
Qed.

Lemma ne_digits_dec t : Forall ne_digits (map dec t).
Proof. induction t; constructor; [apply dec_nonempty_digits|assumption]. Qed.

(* every marked form of a numeric tuple parses to the expected struct *)
Theorem parse_marked t l sf (sn rv : option N) :
  tuple_ok t -> letter_ok l -> (sf = [] /\ sn = None \/ In sf suffix_alts) ->
  opt_small sn -> opt_small rv ->
  parse_core (version_text (map dec t) l sf (opt_num sn) (opt_num rv)) =
  Some {| numbers := map Z.of_N t; letter := l; suffix := sf;
          suffixNum := opt_val sn; revision := opt_val rv |}.
Proof.
  intros (Hne & Hlen & Hsm) Hl Hsf Hsn Hrv.
  destruct t as [|n t]; [contradiction|].
  change (map dec (n :: t)) with (dec n :: map dec t).
  rewrite parse_core_build.
  - change (dec n :: map dec t) with (map dec (n :: t)).
    rewrite (atoi_all_dec _ Hsm), (atoi_opt_num sn Hsn), (atoi_opt_num rv Hrv). reflexivity.
  - apply (ne_digits_dec (n :: t)).
  - change (dec n :: map dec t) with (map dec (n :: t)). rewrite map_length. exact Hlen.
  - exact Hl.
  - split; [|apply opt_num_digits].
    destruct Hsf as [[-> ->]|H]; [left; split; reflexivity|right; exact H].
  - apply opt_num_digits.
Qed.

Lemma version_text_plain ds : version_text ds [] [] [] [] = join $"." ds.
Proof. unfold version_text. cbn [sfx_text rev_text app]. apply app_nil_r. Qed.

Theorem c03_numeric_parse t : tuple_ok t -> parse_core (num_text t) = Some (plain (map Z.of_N t)).
Proof.
  intros H. unfold num_text. rewrite <- version_text_plain.
  apply (parse_marked t [] [] None None H); try exact I.
  - left. reflexivity.
  - left. split; reflexivity.
Qed.

Lemma thenc_eq_r c : thenc c Eq = c.
Proof. destruct c; reflexivity. Qed.

Lemma lex_pad_same_length (t1 : list N) : forall t2, length t1 = length t2 ->
  lex_pad 0%Z Z.compare (map Z.of_N t1) (map Z.of_N t2) = lex_short N.compare t1 t2.
Proof.
  induction t1 as [|x t1 IH]; intros [|y t2] H; try discriminate; [reflexivity|].
  cbn [map lex_pad lex_short]. rewrite N2Z.inj_compare. rewrite IH; [reflexivity|].
  injection H as H. exact H.
Qed.

Theorem c03_numeric_cmp t1 t2 : length t1 = length t2 ->
  cmp_core (plain (map Z.of_N t1)) (plain (map Z.of_N t2)) = lex_short N.compare t1 t2.
Proof.
  intros H. unfold cmp_core, plain. cbn [numbers letter suffix suffixNum revision suffix_value bytes_cmp].
  change (0 ?= 0)%Z with Eq. cbn [thenc]. rewrite thenc_eq_r. apply lex_pad_same_length, H.
Qed.

(* the string-level statement of C03 (a) *)
Theorem c03_numeric t1 t2 :
  tuple_ok t1 -> tuple_ok t2 -> length t1 = length t2 ->
  exists c1 c2, parse_core (num_text t1) = Some c1 /\ parse_core (num_text t2) = Some c2 /\
    cmp_core c1 c2 = lex_short N.compare t1 t2.
Proof.
  intros H1 H2 L. exists (plain (map Z.of_N t1)), (plain (map Z.of_N t2)).
  split; [apply c03_numeric_parse, H1|]. split; [apply c03_numeric_parse, H2|].
  apply c03_numeric_cmp, L.
Qed.

(* ---------- C03 (b): pre-release markers are smaller, post-release markers greater ---------- *)

Lemma lex_pad_refl ns : lex_pad 0%Z Z.compare ns ns = Eq.
Proof. apply (tp_refl (TP_lex_pad _ _ TP_Z 0%Z)). Qed.

Definition pre_markers : list bytes := [$"alpha"; $"beta"; $"pre"; $"rc"].

(* X_alpha[k], X_beta[k], X_pre[k], X_rc[k] < X *)
Theorem c03_pre_marker t m (k : option N) :
  tuple_ok t -> In m pre_markers -> opt_small k ->
  exists c c0,
    parse_core (num_text t ++ $"_" ++ m ++ opt_num k) = Some c /\
    parse_core (num_text t) = Some c0 /\
    cmp_core c c0 = Lt /\ cmp_core c0 c = Gt.
Proof.
  intros Ht Hm Hk.
  assert (Hin : In m suffix_alts).
  { unfold pre_markers, suffix_alts in *. cbn [In] in *. tauto. }
  pose proof (parse_marked t [] m k None Ht (or_introl eq_refl) (or_intror Hin) Hk I) as P.
  assert (Hne : m <> []).
  { intros ->. unfold pre_markers in Hm. cbn [In] in Hm.
    destruct Hm as [H|[H|[H|[H|[]]]]]; discriminate. }
  unfold version_text in P. cbn [app rev_text opt_num] in P. rewrite app_nil_r in P.
  assert (Etxt : sfx_text m (opt_num k) = $"_" ++ m ++ opt_num k).
  { destruct m; [contradiction|reflexivity]. }
  rewrite Etxt in P.
  eexists. exists (plain (map Z.of_N t)). split; [exact P|].
  split; [apply c03_numeric_parse, Ht|].
  unfold cmp_core, plain. cbn [numbers letter suffix suffixNum revision bytes_cmp].
  rewrite lex_pad_refl. cbn [thenc].
  unfold pre_markers in Hm. cbn [In] in Hm.
  destruct Hm as [<-|[<-|[<-|[<-|[]]]]]; split; reflexivity.
Qed.

(* X_p[k] > X *)
Theorem c03_post_marker_p t (k : option N) :
  tuple_ok t -> opt_small k ->
  exists c c0,
    parse_core (num_text t ++ $"_p" ++ opt_num k) = Some c /\
    parse_core (num_text t) = Some c0 /\
    cmp_core c c0 = Gt /\ cmp_core c0 c = Lt.
Proof.
  intros Ht Hk.
  assert (Hin : In $"p" suffix_alts) by (unfold suffix_alts; cbn [In]; tauto).
  pose proof (parse_marked t [] $"p" k None Ht (or_introl eq_refl) (or_intror Hin) Hk I) as P.
  unfold version_text in P. cbn [app rev_text opt_num] in P. rewrite app_nil_r in P.
  eexists. exists (plain (map Z.of_N t)). split; [exact P|].
  split; [apply c03_numeric_parse, Ht|].
  unfold cmp_core, plain. cbn [numbers letter suffix suffixNum revision bytes_cmp].
  rewrite lex_pad_refl. split; reflexivity.
Qed.

(* X-rk > X for k >= 1, and X-r0 = X *)
Theorem c03_post_marker_rev t k :
  tuple_ok t -> k < two63 ->
  exists c c0,
    parse_core (num_text t ++ $"-r" ++ dec k) = Some c /\
    parse_core (num_text t) = Some c0 /\
    cmp_core c c0 = (if k =? 0 then Eq else Gt) /\
    cmp_core c0 c = (if k =? 0 then Eq else Lt).
Proof.
  intros Ht Hk.
  pose proof (parse_marked t [] [] None (Some k) Ht (or_introl eq_refl)
                (or_introl (conj eq_refl eq_refl)) I Hk) as P.
  unfold version_text in P. cbn [app sfx_text opt_num] in P.
  assert (Etxt : rev_text (dec k) = $"-r" ++ dec k).
  { pose proof (dec_nonempty k). destruct (dec k); [contradiction|reflexivity]. }
  rewrite Etxt in P.
  eexists. exists (plain (map Z.of_N t)). split; [exact P|].
  split; [apply c03_numeric_parse, Ht|].
  unfold cmp_core, plain.
  cbn [numbers letter suffix suffixNum revision bytes_cmp suffix_value opt_val].
  rewrite lex_pad_refl. change (0 ?= 0)%Z with Eq. cbn [thenc].
  destruct (k =? 0) eqn:E.
  - apply N.eqb_eq in E. subst. split; reflexivity.
  - apply N.eqb_neq in E. split.
    + apply Z.compare_gt_iff. lia.
    + apply Z.compare_lt_iff. lia.
Qed.

(* Xa > X for every letter *)
Theorem c03_post_marker_letter t x :
  tuple_ok t -> is_letter x = true ->
  exists c c0,
    parse_core (num_text t ++ [x]) = Some c /\
    parse_core (num_text t) = Some c0 /\
    cmp_core c c0 = Gt /\ cmp_core c0 c = Lt.
Proof.
  intros Ht Hx.
  assert (Hl : letter_ok [x]) by (right; exists x; split; [reflexivity|exact Hx]).
  pose proof (parse_marked t [x] [] None None Ht Hl
                (or_introl (conj eq_refl eq_refl)) I I) as P.
  unfold version_text in P. cbn [app sfx_text rev_text opt_num] in P.
  eexists. exists (plain (map Z.of_N t)). split; [exact P|].
  split; [apply c03_numeric_parse, Ht|].
  unfold cmp_core, plain. cbn [numbers letter suffix suffixNum revision bytes_cmp].
  rewrite lex_pad_refl. split; reflexivity.
Qed.

(* trailing zero components do not matter: 1.0 = 1.0.0 (Compare pads with 0) *)
Theorem c03_zero_padding ns zs :
  Forall (fun z => z = 0%Z) zs -> cmp_core (plain ns) (plain (ns ++ zs)) = Eq.
Proof.
  intros Hz. unfold cmp_core, plain. cbn [numbers letter suffix suffixNum revision bytes_cmp suffix_value].
  change (0 ?= 0)%Z with Eq. cbn [thenc]. rewrite thenc_eq_r.
  induction ns as [|n ns IH]; cbn [app lex_pad].
  - induction Hz as [|z zs -> _ IHz]; [reflexivity|]. cbn [lex_pad_l]. exact IHz.
  - rewrite Z.compare_refl. exact IH.
Qed.

Print Assumptions parse_core_build.
Print Assumptions c03_numeric.
Print Assumptions c03_pre_marker.
Print Assumptions c03_post_marker_p.
Print Assumptions c03_post_marker_rev.
Print Assumptions c03_post_marker_letter.
Print Assumptions c03_zero_padding.
