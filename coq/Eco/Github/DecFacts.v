(* Base/DecFacts.v — facts about [dec] (fmt "%d"), [digits_val] and [atoi] on the output of
   [dec]; scanner lemmas for [take_while]/[drop_while] over a concatenation. *)
From Coq Require Import Lia ZifyBool.
From Verif.Base Require Import Bytes BytesFacts GoNum.
Local Open Scope N_scope.

(* ---------- fuel of [dec] is sufficient ---------- *)

Lemma pos_size_nat_gt p : Npos p < 2 ^ N.of_nat (Pos.size_nat p).
Proof.
  induction p as [p IH|p IH|]; cbn [Pos.size_nat].
  - rewrite Nat2N.inj_succ, N.pow_succ_r'. lia.
  - rewrite Nat2N.inj_succ, N.pow_succ_r'. lia.
  - simpl. lia.
Qed.

Lemma size_nat_gt n : n < 2 ^ N.of_nat (S (N.size_nat n)).
Proof.
  rewrite Nat2N.inj_succ, N.pow_succ_r'. destruct n as [|p]; simpl N.size_nat.
  - simpl. lia.
  - pose proof (pos_size_nat_gt p). lia.
Qed.

(* ---------- digits ---------- *)

Lemma is_digit_chr d : d < 10 -> is_digit (chr (48 + d)) = true.
Proof.
  intros H. unfold is_digit, in_range, code, chr.
  rewrite N_ascii_embedding by lia. lia.
Qed.

Lemma digit_val_chr d : d < 10 -> digit_val (chr (48 + d)) = d.
Proof.
  intros H. unfold digit_val, code, chr. rewrite N_ascii_embedding by lia. lia.
Qed.

Lemma digits_val_snoc s c : digits_val (s ++ [c]) = digits_val s * 10 + digit_val c.
Proof. unfold digits_val. rewrite fold_left_app. reflexivity. Qed.

Lemma dec_fuel_S k n acc :
  dec_fuel (S k) n acc =
  if n <? 10 then chr (48 + n mod 10) :: acc else dec_fuel k (n / 10) (chr (48 + n mod 10) :: acc).
Proof. reflexivity. Qed.

Lemma dec_fuel_acc fuel : forall n acc, dec_fuel fuel n acc = dec_fuel fuel n [] ++ acc.
Proof.
  induction fuel as [|k IH]; intros n acc; [reflexivity|].
  rewrite !dec_fuel_S. destruct (n <? 10); [reflexivity|].
  rewrite (IH (n / 10) (_ :: acc)), (IH (n / 10) [_]), <- app_assoc. reflexivity.
Qed.

(* the digit string of [n]: what it looks like and what it is worth *)
Record dec_spec (n : N) (ds : bytes) : Prop := {
  ds_digits : forallb is_digit ds = true;
  ds_val : digits_val ds = n;
  ds_len : exists m : nat, length ds = S m /\ n < 10 ^ N.of_nat (S m) /\ (m = O \/ 10 ^ N.of_nat m <= n)
}.

Lemma dec_fuel_spec k : forall n, n < 2 ^ N.of_nat (S k) -> dec_spec n (dec_fuel (S k) n []).
Proof.
  induction k as [|k IH]; intros n Hn.
  - assert (n < 10) by (simpl in Hn; lia).
    rewrite dec_fuel_S. replace (n <? 10) with true by lia.
    rewrite N.mod_small by assumption. constructor.
    + cbn [forallb]. rewrite is_digit_chr by assumption. reflexivity.
    + unfold digits_val. cbn [fold_left]. rewrite digit_val_chr by assumption. reflexivity.
    + exists O. simpl. repeat split; auto.
  - rewrite dec_fuel_S. destruct (N.ltb_spec n 10) as [L|L].
    + rewrite N.mod_small by assumption. constructor.
      * cbn [forallb]. rewrite is_digit_chr by assumption. reflexivity.
      * unfold digits_val. cbn [fold_left]. rewrite digit_val_chr by assumption. reflexivity.
      * exists O. simpl. repeat split; auto.
    + rewrite dec_fuel_acc.
      assert (Hq : n / 10 < 2 ^ N.of_nat (S k)).
      { rewrite (Nat2N.inj_succ (S k)), N.pow_succ_r' in Hn.
        apply N.div_lt_upper_bound; lia. }
      destruct (IH (n / 10) Hq) as [D V (m & Hl & Hub & Hlb)].
      assert (Hr : n mod 10 < 10) by (apply N.mod_lt; lia).
      pose proof (N.div_mod n 10 ltac:(lia)) as Hdm.
      constructor.
      * rewrite forallb_app, D. cbn [forallb]. rewrite is_digit_chr by assumption. reflexivity.
      * rewrite digits_val_snoc, V, digit_val_chr by assumption. lia.
      * exists (S m). rewrite app_length, Hl. simpl length. split; [lia|].
        rewrite (Nat2N.inj_succ (S m)), N.pow_succ_r'. split; [lia|].
        right. destruct Hlb as [->|Hlb].
        -- simpl. lia.
        -- rewrite (Nat2N.inj_succ m), N.pow_succ_r'. clear Hub Hn Hq. generalize dependent (10 ^ N.of_nat m). generalize dependent (n / 10). generalize dependent (n mod 10). intros; lia.
Qed.

Lemma dec_spec_dec n : dec_spec n (dec n).
Proof. unfold dec. apply dec_fuel_spec, size_nat_gt. Qed.

Lemma dec_all_digits n : forallb is_digit (dec n) = true.
Proof. apply (ds_digits _ _ (dec_spec_dec n)). Qed.

Lemma dec_nonempty n : dec n <> [].
Proof.
  destruct (ds_len _ _ (dec_spec_dec n)) as (m & Hl & _). destruct (dec n); [discriminate|discriminate].
Qed.

Lemma dec_cons n : exists c r, dec n = c :: r /\ is_digit c = true.
Proof.
  pose proof (dec_all_digits n) as D. pose proof (dec_nonempty n) as E.
  destruct (dec n) as [|c r]; [contradiction|]. exists c, r. split; [reflexivity|].
  simpl in D. apply andb_true_iff in D. apply D.
Qed.

Lemma nonempty_digits_dec n : nonempty_digits (dec n) = true.
Proof.
  unfold nonempty_digits. pose proof (dec_all_digits n). pose proof (dec_nonempty n).
  destruct (dec n); [contradiction|assumption].
Qed.

Lemma digits_val_dec n : digits_val (dec n) = n.
Proof. apply (ds_val _ _ (dec_spec_dec n)). Qed.

(* number of digits *)
Lemma dec_length_le n k : (length (dec n) <= S k)%nat <-> n < 10 ^ N.of_nat (S k).
Proof.
  destruct (ds_len _ _ (dec_spec_dec n)) as (m & Hl & Hub & Hlb). rewrite Hl. split.
  - intros H. eapply N.lt_le_trans; [exact Hub|]. apply N.pow_le_mono_r; lia.
  - intros H. destruct (Nat.le_gt_cases (S m) (S k)) as [L|G]; [assumption|exfalso].
    destruct Hlb as [->|Hlb]; [lia|].
    assert (10 ^ N.of_nat (S k) <= 10 ^ N.of_nat m) by (apply N.pow_le_mono_r; lia). lia.
Qed.

(* ---------- strconv.Atoi of a printed number ---------- *)

Lemma digit_not_sign c : is_digit c = true -> ceqb c "-"%char = false /\ ceqb c "+"%char = false.
Proof. unfold is_digit, in_range, ceqb. change (code "-"%char) with 45. change (code "+"%char) with 43. intros H. lia. Qed.

Lemma atoi_dec n : n < two63 -> atoi (dec n) = Some (Z.of_N n).
Proof.
  intros H. pose proof (nonempty_digits_dec n) as ND. pose proof (digits_val_dec n) as DV.
  destruct (dec_cons n) as (c & r & E & Dc). rewrite E in *.
  destruct (digit_not_sign c Dc) as [M P].
  unfold atoi. rewrite M, P, ND, DV. replace (n <? two63) with true by lia. reflexivity.
Qed.

Lemma atoi_sat_dec n : n < two63 -> atoi_sat (dec n) = Z.of_N n.
Proof.
  intros H. pose proof (nonempty_digits_dec n) as ND. pose proof (digits_val_dec n) as DV.
  destruct (dec_cons n) as (c & r & E & Dc). rewrite E in *.
  destruct (digit_not_sign c Dc) as [M P].
  unfold atoi_sat. rewrite M, P, ND, DV. replace (n <? two63) with true by lia. reflexivity.
Qed.

(* ---------- scanners over a concatenation ---------- *)

Definition stops (p : ascii -> bool) (s : bytes) : Prop :=
  match s with [] => True | c :: _ => p c = false end.

Lemma take_while_app p a b : forallb p a = true -> stops p b -> take_while p (a ++ b) = a.
Proof.
  intros Ha Hb. induction a as [|x a IH]; simpl in *.
  - destruct b as [|c b]; simpl in *; [reflexivity|]. rewrite Hb. reflexivity.
  - apply andb_true_iff in Ha. destruct Ha as [Hx Ha]. rewrite Hx, IH by assumption. reflexivity.
Qed.

Lemma drop_while_app p a b : forallb p a = true -> stops p b -> drop_while p (a ++ b) = b.
Proof.
  intros Ha Hb. induction a as [|x a IH]; simpl in *.
  - destruct b as [|c b]; simpl in *; [reflexivity|]. rewrite Hb. reflexivity.
  - apply andb_true_iff in Ha. destruct Ha as [Hx Ha]. rewrite Hx. apply IH; assumption.
Qed.
