From Verif.Base Require Import Bytes.
From Verif.Eco Require Import Iface.
From Verif.Eco.Github Require Version Range.

Definition v : vops := mk_vops Github.Version.parse_core Github.Version.cmp_core Github.Version.raw_orig.
Definition r : rops := mk_simple_rops Github.Range.cfg.
Definition entry : eco := {| e_name := $"github"; e_v := v; e_r := r |}.
