(* Eco/Github/RangeFacts.v — the github range parser is an instance of Eco/RangeCore.v; the
   generic theorems of Eco/RangeCoreFacts.v instantiated at the string-level interface
   (Eco/Iface.v), for ARBITRARY version oracles vok / vcmp. *)
From Coq Require Import Lia.
From Verif.Base Require Import Bytes BytesFacts GoNum Ord.
From Verif.Eco Require Import RangeCore RangeCoreFacts Iface.
From Verif.Eco.Github Require Import Range Entry.

Lemma github_ops_ok : ops_ok github_ops = true.
Proof. vm_compute. reflexivity. Qed.

(* strings.Fields of a non-empty text without whitespace is that text *)
Lemma fields_aux_no_space s : forall cur,
  no_space s = true ->
  fields_aux cur s = match rev cur ++ s with [] => [] | x => [x] end.
Proof.
  induction s as [|c s IH]; intros cur H.
  - simpl. rewrite app_nil_r. destruct cur as [|x cur]; [reflexivity|].
    destruct (rev (x :: cur)) eqn:E; [|reflexivity].
    apply (f_equal (@length _)) in E. rewrite rev_length in E. discriminate.
  - unfold no_space in H. cbn [forallb] in H. apply andb_true_iff in H. destruct H as [Hc Hs].
    cbn [fields_aux]. destruct (is_space c); [discriminate|].
    rewrite (IH (c :: cur) Hs). cbn [rev]. rewrite <- app_assoc. reflexivity.
Qed.

Lemma fields_no_space s : no_space s = true -> s <> [] -> fields s = [s].
Proof.
  intros H NE. unfold fields. rewrite fields_aux_no_space by assumption. simpl.
  destruct s; [contradiction|reflexivity].
Qed.

Lemma opchars_of_github_op op : In op github_ops -> forallb opchar op = true /\ op <> [].
Proof.
  unfold github_ops. simpl. intros H.
  repeat (destruct H as [<-|H]; [split; [vm_compute; reflexivity|discriminate]|]). contradiction.
Qed.

Section Oracles.
  Variable vok : bytes -> bool.
  Variable vcmp : bytes -> bytes -> comparison.

  Notation parse_range := (RangeCore.parse_range bytes (oracle_parse vok) cfg).
  Notation contains := (RangeCore.contains bytes (oracle_parse vok) vcmp cfg).

  Lemma split_single op a :
    In op github_ops -> bound_in_scope a -> rc_split cfg (op ++ a) = [op ++ a].
  Proof.
    intros Hin (NE & NS & _). destruct (opchars_of_github_op op Hin) as [OC ONE].
    cbn [rc_split cfg]. unfold split_fields. apply fields_no_space.
    - rewrite no_space_app, (opchars_no_space op OC), NS. reflexivity.
    - destruct op; [contradiction|discriminate].
  Qed.

  (* C02: "op a" contains exactly the versions v with  v op a  according to Compare *)
  Theorem github_c02 op a v :
    In op github_ops -> bound_in_scope a -> vok a = true -> vok v = true ->
    r_contains Entry.r vok vcmp (op ++ a) v = Some (sat (sem5 op) (vcmp v a)).
  Proof.
    intros Hin Hsc Ha Hv.
    destruct (simple_range_c02_single bytes (oracle_parse vok) vcmp cfg op a a) as (r & Hr & Hc).
    - exact github_ops_ok.
    - exact Hin.
    - exact Hsc.
    - unfold oracle_parse. rewrite Ha. reflexivity.
    - apply split_single; assumption.
    - unfold Entry.r, mk_simple_rops, r_contains. rewrite Hr, Hv, Hc. reflexivity.
  Qed.

  (* the five spellings *)
  Corollary github_c02_table a v :
    bound_in_scope a -> vok a = true -> vok v = true ->
    r_contains Entry.r vok vcmp ($">=" ++ a) v = Some (sat CGe (vcmp v a)) /\
    r_contains Entry.r vok vcmp ($"<=" ++ a) v = Some (sat CLe (vcmp v a)) /\
    r_contains Entry.r vok vcmp ($">" ++ a) v = Some (sat CGt (vcmp v a)) /\
    r_contains Entry.r vok vcmp ($"<" ++ a) v = Some (sat CLt (vcmp v a)) /\
    r_contains Entry.r vok vcmp ($"=" ++ a) v = Some (sat CEq (vcmp v a)).
  Proof.
    intros Hsc Ha Hv.
    repeat split; rewrite github_c02; try assumption; try reflexivity;
      unfold github_ops; simpl; tauto.
  Qed.

  (* a bare version is an exact match *)
  Theorem github_c02_bare a v :
    bound_in_scope a -> vok a = true -> vok v = true ->
    r_contains Entry.r vok vcmp a v = Some (sat CEq (vcmp v a)).
  Proof.
    intros Hsc Ha Hv. pose proof Hsc as (NE & NS & HD).
    unfold Entry.r, mk_simple_rops, r_contains, RangeCore.parse_range.
    rewrite (trim_space_no_space a NS).
    destruct a as [|a0 a']; [contradiction|].
    cbn [rc_split cfg]. unfold split_fields. rewrite fields_no_space by (assumption || discriminate).
    cbn [parse_constraints].
    rewrite (parse_constraint_bare cfg (a0 :: a') github_ops_ok Hsc).
    unfold bound_ok. cbn [rc_eager cfg snd]. unfold oracle_parse at 1. rewrite Ha.
    cbn [rc_empty_ok rc_trimmed_orig]. rewrite Hv.
    unfold RangeCore.contains. cbn [r_cs forallb]. unfold sat_constraint. cbn [snd fst].
    unfold oracle_parse. rewrite Ha. rewrite andb_true_r. reflexivity.
  Qed.

  (* C20: membership respects Compare-equality, and every github range is convex (there is no
     != operator and no OR) *)
  Hypothesis TP : TotalPreorder vcmp.

  Theorem github_c20_eq rs a b :
    vok a = true -> vok b = true -> vcmp a b = Eq ->
    r_contains Entry.r vok vcmp rs a = r_contains Entry.r vok vcmp rs b.
  Proof.
    intros Ha Hb E. unfold Entry.r, mk_simple_rops, r_contains.
    destruct (parse_range rs) as [r|]; [|reflexivity]. rewrite Ha, Hb.
    f_equal. apply (simple_range_c20_eq bytes (oracle_parse vok) vcmp cfg TP). exact E.
  Qed.

  Lemma sem5_convex op : convex_op (sem5 op) = true.
  Proof. unfold sem5. repeat (destruct (beq op _); [reflexivity|]). reflexivity. Qed.

  Theorem github_convex rs a b c :
    vok a = true -> vok b = true -> vok c = true ->
    le_c (vcmp a b) -> le_c (vcmp b c) ->
    r_contains Entry.r vok vcmp rs a = Some true ->
    r_contains Entry.r vok vcmp rs c = Some true ->
    r_contains Entry.r vok vcmp rs b = Some true.
  Proof.
    intros Ha Hb Hc Lab Lbc. unfold Entry.r, mk_simple_rops, r_contains.
    destruct (parse_range rs) as [r|]; [|discriminate]. rewrite Ha, Hb, Hc.
    intros [= Ca] [= Cc]. f_equal.
    apply (simple_range_c20_convex bytes (oracle_parse vok) vcmp cfg TP r a b c); try assumption.
    unfold conj_only. apply forallb_forall. intros x _. apply sem5_convex.
  Qed.
End Oracles.

Print Assumptions github_c02.
Print Assumptions github_c02_bare.
Print Assumptions github_c20_eq.
Print Assumptions github_convex.
