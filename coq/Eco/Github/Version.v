(* Eco/Github/Version.v — model of pkg/ecosystem/github/version.go (definitions only). *)
From Verif.Base Require Import Bytes GoNum.
From Verif.Gen Require Tables.
From Verif.Eco Require Import VLayer.
Local Open Scope N_scope.

Record core := {
  c_prefix : bytes;      (* "", "v", "release-", "rel-"; never read by Compare *)
  c_major : Z;
  c_minor : Z;
  c_patch : Z;
  c_qual : bytes;        (* lower-cased qualifier, "" = none *)
  c_num : Z;
  c_date : bool          (* isDateBased *)
}.

(* the optional prefix group (v|release-|rel-)? : the alternatives start differently or differ
   before a digit can follow, so at most one of them can lead to a match *)
Definition github_prefixes : list bytes := [$"v"; $"release-"; $"rel-"].

Fixpoint strip_first_prefix (ps : list bytes) (s : bytes) : bytes * bytes :=
  match ps with
  | [] => ([], s)
  | p :: r => if has_prefix p s then (p, skipn (length p) s) else strip_first_prefix r s
  end.

(* \d+ (greedy; what follows is never a digit) *)
Definition digits1 (s : bytes) : option (bytes * bytes) :=
  match take_while is_digit s with
  | [] => None
  | d => Some (d, drop_while is_digit s)
  end.

(* a literal byte *)
Definition lit (c : ascii) (s : bytes) : option bytes :=
  match s with
  | x :: r => if ceqb c x then Some r else None
  | [] => None
  end.

(* (\d+)\.(\d+)\.(\d+) followed by the rest *)
Definition three (s : bytes) : option (bytes * bytes * bytes * bytes) :=
  match digits1 s with
  | None => None
  | Some (a, s1) =>
    match lit "."%char s1 with
    | None => None
    | Some s2 =>
      match digits1 s2 with
      | None => None
      | Some (b, s3) =>
        match lit "."%char s3 with
        | None => None
        | Some s4 =>
          match digits1 s4 with
          | None => None
          | Some (c, s5) => Some (a, b, c, s5)
          end
        end
      end
    end
  end.

(* githubDatePattern ^(v)?(\d{4})\.(\d{1,2})\.(\d{1,2})$ : (prefix, year, month, day) *)
Definition match_date (t : bytes) : option (bytes * bytes * bytes * bytes) :=
  let '(p, s) := if has_prefix $"v" t then ($"v", skipn 1 t) else ([], t) in
  match three s with
  | Some (y, m, d, []) =>
      if (length y =? 4)%nat && (length m <=? 2)%nat && (length d <=? 2)%nat
      then Some (p, y, m, d) else None
  | _ => None
  end.

(* optional tail group  [-.] letters+  \.?  digits-star  then end of text : (qualifier, number text) *)
Definition match_qual (s : bytes) : option (bytes * bytes) :=
  match s with
  | [] => Some ([], [])
  | c :: r =>
      if ceqb c "-"%char || ceqb c "."%char then
        match take_while is_letter r with
        | [] => None
        | q =>
            let r1 := drop_while is_letter r in
            let r2 := match lit "."%char r1 with Some x => x | None => r1 end in
            if all_digits r2 then Some (q, r2) else None
        end
      else None
  end.

(* githubVersionPattern
   ^(v|release-|rel-)?(\d+)\.(\d+)\.(\d+) followed by the optional tail group and $ *)
Definition match_semantic (t : bytes)
  : option (bytes * bytes * bytes * bytes * bytes * bytes) :=
  let '(p, s) := strip_first_prefix github_prefixes t in
  match three s with
  | Some (a, b, c, rest) =>
      match match_qual rest with
      | Some (q, n) => Some (p, a, b, c, q, n)
      | None => None
      end
  | None => None
  end.

Definition parse_date (p y m d : bytes) : option core :=
  let year := atoi_sat y in
  let month := atoi_sat m in
  let day := atoi_sat d in
  if ((month <? 1) || (12 <? month))%Z then None
  else if ((day <? 1) || (31 <? day))%Z then None
  else Some {| c_prefix := p; c_major := year; c_minor := month; c_patch := day;
               c_qual := []; c_num := 0%Z; c_date := true |}.

Definition parse_semantic (p a b c q n : bytes) : option core :=
  match atoi a, atoi b, atoi c with
  | Some major, Some minor, Some patch =>
      match q with
      | [] => Some {| c_prefix := p; c_major := major; c_minor := minor; c_patch := patch;
                      c_qual := []; c_num := 0%Z; c_date := false |}
      | _ =>
          match n with
          | [] => Some {| c_prefix := p; c_major := major; c_minor := minor; c_patch := patch;
                          c_qual := to_lower q; c_num := 0%Z; c_date := false |}
          | _ => match atoi n with
                 | Some number =>
                     Some {| c_prefix := p; c_major := major; c_minor := minor; c_patch := patch;
                             c_qual := to_lower q; c_num := number; c_date := false |}
                 | None => None
                 end
          end
      end
  | _, _, _ => None
  end.

(* NewVersion on the trimmed text: the date pattern is tried first and its validation errors
   are final (no fall-back to the semantic pattern) *)
Definition parse_core (t : bytes) : option core :=
  match t with
  | [] => None
  | _ =>
    match match_date t with
    | Some (p, y, m, d) => parse_date p y m d
    | None =>
        match match_semantic t with
        | Some (p, a, b, c, q, n) => parse_semantic p a b c q n
        | None => None
        end
    end
  end.

(* getQualifierPrecedence *)
(* generated from the Go source on every run (tools/gen -> Gen/Tables.v) *)
Definition github_qualifier_precedence : list (bytes * Z) :=
  Eval cbv delta [Verif.Gen.Tables.github_getQualifierPrecedence] in Verif.Gen.Tables.github_getQualifierPrecedence.
(* the switch's default branch, also generated *)
Definition qual_prec_default : Z :=
  Eval cbv delta [Verif.Gen.Tables.github_getQualifierPrecedence_default] in Verif.Gen.Tables.github_getQualifierPrecedence_default.
Definition qual_prec (q : bytes) : Z :=
  match lookup q github_qualifier_precedence with Some p => p | None => qual_prec_default end.

Definition is_nil (s : bytes) : bool := match s with [] => true | _ => false end.

(* compareQualifiers *)
Definition cmp_qual (q1 : bytes) (n1 : Z) (q2 : bytes) (n2 : Z) : comparison :=
  if is_nil q1 && is_nil q2 then Eq
  else if is_nil q1 then Gt
  else if is_nil q2 then Lt
  else
    let p1 := qual_prec q1 in
    let p2 := qual_prec q2 in
    if negb (p1 =? p2)%Z then (p1 ?= p2)%Z
    else (n1 ?= n2)%Z.

(* Compare *)
Definition cmp_core (a b : core) : comparison :=
  if negb (Bool.eqb (c_date a) (c_date b)) then
    if c_date a then Lt else Gt
  else if negb (c_major a =? c_major b)%Z then (c_major a ?= c_major b)%Z
  else if negb (c_minor a =? c_minor b)%Z then (c_minor a ?= c_minor b)%Z
  else if negb (c_patch a =? c_patch b)%Z then (c_patch a ?= c_patch b)%Z
  else if c_date a then Eq
  else cmp_qual (c_qual a) (c_num a) (c_qual b) (c_num b).

(* String() returns v.original, which is the TRIMMED text *)
Definition raw_orig := false.

Definition ver := VLayer.ver core.
Definition parse : bytes -> option ver := VLayer.parse parse_core raw_orig.
Definition cmp : ver -> ver -> comparison := VLayer.cmp cmp_core.
Definition show : ver -> bytes := VLayer.show.
