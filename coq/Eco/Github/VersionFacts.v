(* Eco/Github/VersionFacts.v — Compare of the github ecosystem is a total preorder. *)
From Coq Require Import Lia ZifyBool.
From Verif.Base Require Import Bytes GoNum Ord BytesFacts.
From Verif.Eco.Github Require Import DecFacts.
From Verif.Eco Require Import VLayer VLayerFacts.
From Verif.Eco.Github Require Import Version.

(* ---------- the comparison as a combination of order combinators ---------- *)

(* key of the qualifier step: None = "no qualifier" (a release, greatest); date-based
   versions never reach the qualifier comparison, which is the same as all of them having
   the same key *)
Definition qkey (c : core) : option (Z * Z) :=
  if c_date c then None
  else if is_nil (c_qual c) then None
  else Some (qual_prec (c_qual c), c_num c).

Definition cmp_comb : core -> core -> comparison :=
  lexc (cmp_on (fun c => negb (c_date c)) bool_cmp)
  (lexc (cmp_on c_major Z.compare)
  (lexc (cmp_on c_minor Z.compare)
  (lexc (cmp_on c_patch Z.compare)
        (cmp_on qkey (opt_last (lex2 Z.compare Z.compare)))))).

Lemma cmp_comb_tp : TotalPreorder cmp_comb.
Proof.
  unfold cmp_comb.
  repeat (apply TP_lexc; [apply TP_on; first [apply TP_bool | apply TP_Z]|]).
  apply TP_on, TP_opt_last, TP_lex2; apply TP_Z.
Qed.

Lemma ne_step (x y : Z) (k : comparison) :
  (if negb (x =? y)%Z then (x ?= y)%Z else k) = thenc (x ?= y)%Z k.
Proof.
  destruct (Z.eqb_spec x y) as [E|E]; simpl.
  - subst. rewrite Z.compare_refl. reflexivity.
  - destruct (Z.compare_spec x y); try reflexivity. contradiction.
Qed.

Lemma cmp_qual_comb q1 n1 q2 n2 :
  cmp_qual q1 n1 q2 n2 =
  opt_last (lex2 Z.compare Z.compare)
    (if is_nil q1 then None else Some (qual_prec q1, n1))
    (if is_nil q2 then None else Some (qual_prec q2, n2)).
Proof.
  unfold cmp_qual. destruct (is_nil q1), (is_nil q2); simpl; try reflexivity.
  unfold lex2. simpl. apply ne_step.
Qed.

Lemma cmp_core_comb a b : cmp_core a b = cmp_comb a b.
Proof.
  unfold cmp_core, cmp_comb, lexc, cmp_on, qkey.
  rewrite !ne_step, cmp_qual_comb.
  destruct (c_date a), (c_date b); simpl; try reflexivity.
Qed.

Lemma cmp_core_tp : TotalPreorder cmp_core.
Proof. apply (TP_ext _ _ _ cmp_core_comb), cmp_comb_tp. Qed.

Lemma cmp_tp : TotalPreorder cmp.
Proof. apply VLayerFacts.cmp_tp, cmp_core_tp. Qed.


(* ====================================================================================== *)
(* C03: numeric triples, qualifiers                                                        *)
(* ====================================================================================== *)
Local Open Scope N_scope.

Definition dotted3 (a b c : N) : bytes := dec a ++ "."%char :: dec b ++ "."%char :: dec c.

Lemma dotted3_join a b c : dotted3 a b c = join $"." (map dec [a; b; c]).
Proof. unfold dotted3. cbn [map join]. cbn [list_ascii_of_string app]. reflexivity. Qed.

(* the text [a.b.c] has the shape of githubDatePattern: 4-digit a, at most 2-digit b and c *)
Definition date_shaped (a b c : N) : bool :=
  (1000 <=? a) && (a <? 10000) && (b <? 100) && (c <? 100).

Definition sem_core (p : bytes) (a b c : N) (q : bytes) (n : Z) : core :=
  {| c_prefix := p; c_major := Z.of_N a; c_minor := Z.of_N b; c_patch := Z.of_N c;
     c_qual := q; c_num := n; c_date := false |}.
Definition date_core (p : bytes) (a b c : N) : core :=
  {| c_prefix := p; c_major := Z.of_N a; c_minor := Z.of_N b; c_patch := Z.of_N c;
     c_qual := []; c_num := 0%Z; c_date := true |}.

(* ---------- the scanners on printed numbers ---------- *)

Lemma digits1_app ds r :
  forallb is_digit ds = true -> ds <> [] -> stops is_digit r -> digits1 (ds ++ r) = Some (ds, r).
Proof.
  intros D NE S. unfold digits1. rewrite take_while_app, drop_while_app by assumption.
  destruct ds; [contradiction|reflexivity].
Qed.

Lemma digits1_dec n r : stops is_digit r -> digits1 (dec n ++ r) = Some (dec n, r).
Proof. intros S. apply digits1_app; [apply dec_all_digits|apply dec_nonempty|exact S]. Qed.

Lemma three_dotted a b c rest :
  stops is_digit rest ->
  three (dotted3 a b c ++ rest) = Some (dec a, dec b, dec c, rest).
Proof.
  intros S. unfold three, dotted3.
  rewrite <- app_assoc. cbn [app]. rewrite digits1_dec by reflexivity.
  cbn [lit]. rewrite ceqb_refl.
  rewrite <- app_assoc. cbn [app]. rewrite digits1_dec by reflexivity.
  cbn [lit]. rewrite ceqb_refl.
  rewrite digits1_dec by assumption. reflexivity.
Qed.

Lemma digit_not_prefix_start c : is_digit c = true -> ceqb "v"%char c = false /\ ceqb "r"%char c = false.
Proof.
  unfold is_digit, in_range, ceqb. change (code "v"%char) with 118. change (code "r"%char) with 114.
  intros H. lia.
Qed.

Lemma dotted3_head a b c rest : exists d r, dotted3 a b c ++ rest = d :: r /\ is_digit d = true.
Proof.
  unfold dotted3. destruct (dec_cons a) as (d & r & E & D). rewrite E. cbn [app].
  eexists _, _. split; [reflexivity|assumption].
Qed.

Lemma date_lengths a b c :
  ((length (dec a) =? 4)%nat && (length (dec b) <=? 2)%nat && (length (dec c) <=? 2)%nat)%bool
  = date_shaped a b c.
Proof.
  pose proof (dec_length_le a 3) as A4. pose proof (dec_length_le a 2) as A3.
  pose proof (dec_length_le b 1) as B. pose proof (dec_length_le c 1) as C.
  change (10 ^ N.of_nat 4) with 10000 in A4. change (10 ^ N.of_nat 3) with 1000 in A3.
  change (10 ^ N.of_nat 2) with 100 in B, C.
  unfold date_shaped. lia.
Qed.

Lemma match_date_dotted a b c :
  match_date (dotted3 a b c) =
  if date_shaped a b c then Some ([], dec a, dec b, dec c) else None.
Proof.
  unfold match_date.
  destruct (dotted3_head a b c []) as (d & r & E & D). rewrite app_nil_r in E.
  destruct (digit_not_prefix_start d D) as [V _].
  assert (HP : has_prefix $"v" (dotted3 a b c) = false).
  { rewrite E. cbn [list_ascii_of_string has_prefix]. rewrite V. reflexivity. }
  rewrite HP. pose proof (three_dotted a b c [] I) as T. rewrite app_nil_r in T. rewrite T.
  rewrite date_lengths. reflexivity.
Qed.

Lemma match_date_tail a b c x rest :
  is_digit x = false -> match_date (dotted3 a b c ++ x :: rest) = None.
Proof.
  intros X. unfold match_date.
  destruct (dotted3_head a b c (x :: rest)) as (d & r & E & D).
  destruct (digit_not_prefix_start d D) as [V _].
  assert (HP : has_prefix $"v" (dotted3 a b c ++ x :: rest) = false).
  { rewrite E. cbn [list_ascii_of_string has_prefix]. rewrite V. reflexivity. }
  rewrite HP, three_dotted by exact X. reflexivity.
Qed.

Lemma strip_prefix_dotted a b c rest :
  strip_first_prefix github_prefixes (dotted3 a b c ++ rest) = ([], dotted3 a b c ++ rest).
Proof.
  destruct (dotted3_head a b c rest) as (d & r & E & D). rewrite E.
  destruct (digit_not_prefix_start d D) as [V R].
  unfold github_prefixes. cbn [strip_first_prefix list_ascii_of_string has_prefix].
  rewrite V, R. reflexivity.
Qed.

Lemma dotted3_nonempty a b c rest : dotted3 a b c ++ rest <> [].
Proof. destruct (dotted3_head a b c rest) as (d & r & E & _). rewrite E. discriminate. Qed.

(* ---------- C03 (a): what NewVersion makes of a printed triple ---------- *)

(* not date-shaped: the semantic version (a, b, c) *)
Theorem parse_numeric a b c :
  a < two63 -> b < two63 -> c < two63 -> date_shaped a b c = false ->
  parse_core (dotted3 a b c) = Some (sem_core [] a b c [] 0).
Proof.
  intros Ha Hb Hc Hd. unfold parse_core.
  pose proof (dotted3_nonempty a b c []) as NE. rewrite app_nil_r in NE.
  destruct (dotted3 a b c) eqn:E; [contradiction|]. rewrite <- E. clear NE.
  rewrite match_date_dotted, Hd.
  unfold match_semantic.
  pose proof (strip_prefix_dotted a b c []) as SP. rewrite app_nil_r in SP. rewrite SP.
  pose proof (three_dotted a b c [] I) as T. rewrite app_nil_r in T. rewrite T.
  cbn [match_qual]. unfold parse_semantic. rewrite !atoi_dec by assumption. reflexivity.
Qed.

(* date-shaped: a date-based version if month and day are in range, otherwise REJECTED *)
Theorem parse_numeric_date a b c :
  date_shaped a b c = true ->
  parse_core (dotted3 a b c) =
  if ((1 <=? b) && (b <=? 12) && (1 <=? c) && (c <=? 31))%bool then Some (date_core [] a b c) else None.
Proof.
  intros Hd. unfold parse_core.
  pose proof (dotted3_nonempty a b c []) as NE. rewrite app_nil_r in NE.
  destruct (dotted3 a b c) eqn:E; [contradiction|]. rewrite <- E. clear NE.
  rewrite match_date_dotted, Hd. unfold parse_date.
  assert (a < two63 /\ b < two63 /\ c < two63) as (Ha & Hb & Hc).
  { unfold date_shaped in Hd. unfold two63. lia. }
  rewrite !atoi_sat_dec by assumption.
  destruct ((1 <=? b) && (b <=? 12) && (1 <=? c) && (c <=? 31))%bool eqn:R.
  - replace ((Z.of_N b <? 1) || (12 <? Z.of_N b))%Z%bool with false by lia.
    replace ((Z.of_N c <? 1) || (31 <? Z.of_N c))%Z%bool with false by lia. reflexivity.
  - destruct ((Z.of_N b <? 1) || (12 <? Z.of_N b))%Z%bool eqn:M; [reflexivity|].
    replace ((Z.of_N c <? 1) || (31 <? Z.of_N c))%Z%bool with true by lia. reflexivity.
Qed.

Lemma thenc_eq_r c : thenc c Eq = c.
Proof. destruct c; reflexivity. Qed.

Lemma cmp_sem_numeric p a b c p' a' b' c' :
  cmp_core (sem_core p a b c [] 0) (sem_core p' a' b' c' [] 0) =
  lex_short N.compare [a; b; c] [a'; b'; c'].
Proof.
  rewrite cmp_core_comb. unfold cmp_comb, lexc, cmp_on, qkey, sem_core. cbn.
  rewrite !N2Z.inj_compare. reflexivity.
Qed.

Lemma cmp_date_numeric p a b c p' a' b' c' :
  cmp_core (date_core p a b c) (date_core p' a' b' c') =
  lex_short N.compare [a; b; c] [a'; b'; c'].
Proof.
  rewrite cmp_core_comb. unfold cmp_comb, lexc, cmp_on, qkey, date_core. cbn.
  rewrite !N2Z.inj_compare. reflexivity.
Qed.

(* C03 (a) for the github ecosystem (arity 3 is the only accepted arity): components below
   2^63 (so in particular below 2^31), neither triple of the date shape *)
Theorem c03_numeric a b c a' b' c' :
  a < two63 -> b < two63 -> c < two63 -> a' < two63 -> b' < two63 -> c' < two63 ->
  date_shaped a b c = false -> date_shaped a' b' c' = false ->
  exists x y,
    parse_core (join $"." (map dec [a; b; c])) = Some x /\
    parse_core (join $"." (map dec [a'; b'; c'])) = Some y /\
    cmp_core x y = lex_short N.compare [a; b; c] [a'; b'; c'].
Proof.
  intros. rewrite <- !dotted3_join. eexists _, _.
  rewrite !parse_numeric by assumption. repeat split. apply cmp_sem_numeric.
Qed.

(* among date-shaped valid triples the order is numeric as well *)
Theorem c03_numeric_dates a b c a' b' c' x y :
  date_shaped a b c = true -> date_shaped a' b' c' = true ->
  parse_core (dotted3 a b c) = Some x -> parse_core (dotted3 a' b' c') = Some y ->
  cmp_core x y = lex_short N.compare [a; b; c] [a'; b'; c'].
Proof.
  intros D D'. rewrite !parse_numeric_date by assumption.
  destruct (_ && _ && _ && _)%bool; [|discriminate].
  destruct (_ && _ && _ && _)%bool; [|discriminate].
  intros [= <-] [= <-]. apply cmp_date_numeric.
Qed.

(* ... but every accepted date-shaped triple is below every other triple (FINDING: the order of
   plain numeric triples is not the numeric order) *)
Theorem date_below_semantic a b c a' b' c' x :
  a' < two63 -> b' < two63 -> c' < two63 ->
  date_shaped a b c = true -> date_shaped a' b' c' = false ->
  parse_core (dotted3 a b c) = Some x ->
  exists y, parse_core (dotted3 a' b' c') = Some y /\ cmp_core x y = Lt.
Proof.
  intros Ha Hb Hc D D'. rewrite parse_numeric_date by assumption.
  destruct (_ && _ && _ && _)%bool; [|discriminate]. intros [= <-].
  rewrite parse_numeric by assumption. eexists. split; [reflexivity|]. reflexivity.
Qed.

Lemma numeric_order_counterexample :
  exists x y, parse_core $"2024.1.15" = Some x /\ parse_core $"3.0.0" = Some y /\
              cmp_core x y = Lt /\ lex_short N.compare [2024; 1; 15] [3; 0; 0] = Gt.
Proof. eexists _, _. repeat split; vm_compute; reflexivity. Qed.

(* FINDING: a date-shaped text with month/day out of range is rejected although the semantic
   pattern matches it, while its neighbours outside the 4-digit window are accepted *)
Lemma date_validation_is_final :
  parse_core $"2024.13.1" = None /\ parse_core $"2024.1.0" = None /\
  parse_core $"999.13.1" <> None /\ parse_core $"10000.13.1" <> None /\
  parse_core $"2024.13.1-rc" <> None /\ parse_core $"2024.013.1" <> None.
Proof. repeat split; vm_compute; congruence. Qed.

(* ---------- C03 (b): qualifiers ---------- *)

(* the qualifier tail: separator, letters, optional dot, optional number *)
Definition num_text (n : option N) : bytes := match n with Some k => dec k | None => [] end.
Definition num_val (n : option N) : Z := match n with Some k => Z.of_N k | None => 0%Z end.
Definition qtail (sep : ascii) (q : bytes) (dot : bool) (n : option N) : bytes :=
  sep :: q ++ (if dot then ["."%char] else []) ++ num_text n.

Definition is_sep (c : ascii) : bool := ceqb c "-"%char || ceqb c "."%char.

Lemma sep_not_digit c : is_sep c = true -> is_digit c = false.
Proof.
  unfold is_sep, is_digit, in_range, ceqb. change (code "-"%char) with 45. change (code "."%char) with 46.
  intros H. lia.
Qed.

Lemma digit_not_letter c : is_digit c = true -> is_letter c = false /\ ceqb "."%char c = false.
Proof.
  unfold is_digit, is_letter, is_lower, is_upper, in_range, ceqb. change (code "."%char) with 46.
  intros H. lia.
Qed.

Lemma num_text_digits n : forallb is_digit (num_text n) = true.
Proof. destruct n; [apply dec_all_digits|reflexivity]. Qed.

Lemma num_text_stops_letter n : stops is_letter (num_text n).
Proof.
  destruct n as [k|]; simpl; [|exact I].
  destruct (dec_cons k) as (d & r & E & D). rewrite E. simpl. apply (digit_not_letter d D).
Qed.

Lemma lit_dot_num_text n : lit "."%char (num_text n) = None.
Proof.
  destruct n as [k|]; simpl; [|reflexivity].
  destruct (dec_cons k) as (d & r & E & D). rewrite E. simpl.
  destruct (digit_not_letter d D) as [_ ->]. reflexivity.
Qed.

Lemma match_qual_qtail sep q dot n :
  is_sep sep = true -> q <> [] -> forallb is_letter q = true ->
  match_qual (qtail sep q dot n) = Some (q, num_text n).
Proof.
  intros S NE L. unfold match_qual, qtail. fold (is_sep sep). rewrite S.
  assert (ST : stops is_letter ((if dot then ["."%char] else []) ++ num_text n)).
  { destruct dot; [reflexivity|apply num_text_stops_letter]. }
  rewrite take_while_app, drop_while_app by assumption.
  destruct q as [|q0 q']; [contradiction|].
  destruct dot.
  - cbn [app lit]. rewrite ceqb_refl. unfold all_digits. rewrite num_text_digits. reflexivity.
  - cbn [app]. rewrite lit_dot_num_text. unfold all_digits. rewrite num_text_digits. reflexivity.
Qed.

Lemma to_lower_nonempty q : q <> [] -> is_nil (to_lower q) = false.
Proof. destruct q; [contradiction|reflexivity]. Qed.

(* a triple followed by a qualifier tail is always a SEMANTIC version (the date pattern has no tail) *)
Theorem parse_qualified a b c sep q dot n :
  a < two63 -> b < two63 -> c < two63 ->
  is_sep sep = true -> q <> [] -> forallb is_letter q = true ->
  match n with Some k => k < two63 | None => True end ->
  parse_core (dotted3 a b c ++ qtail sep q dot n) =
  Some (sem_core [] a b c (to_lower q) (num_val n)).
Proof.
  intros Ha Hb Hc S NE L Hn. unfold parse_core.
  pose proof (dotted3_nonempty a b c (qtail sep q dot n)) as NE'.
  destruct (dotted3 a b c ++ qtail sep q dot n) eqn:E; [contradiction|]. rewrite <- E. clear NE'.
  pose proof (sep_not_digit sep S) as SD.
  unfold qtail at 1. rewrite match_date_tail by exact SD. fold (qtail sep q dot n).
  unfold match_semantic. rewrite strip_prefix_dotted.
  rewrite three_dotted by (unfold qtail; exact SD).
  rewrite match_qual_qtail by assumption.
  unfold parse_semantic. rewrite !atoi_dec by assumption.
  destruct q as [|q0 q']; [contradiction|].
  destruct n as [k|]; cbn [num_text num_val]; [|reflexivity].
  pose proof (atoi_dec k Hn) as AK.
  destruct (dec_cons k) as (d & r & E' & _). rewrite E' in *. rewrite AK. reflexivity.
Qed.

(* every qualifier is a PRE-release marker: below the unqualified version (there are no
   post-release markers at all: "final", "post", "patch", "hotfix" are below the release too) *)
Lemma cmp_qualified_release p a b c q n p' :
  is_nil q = false -> cmp_core (sem_core p a b c q n) (sem_core p' a b c [] 0) = Lt.
Proof.
  intros Q. rewrite cmp_core_comb. unfold cmp_comb, lexc, cmp_on, qkey, sem_core. cbn.
  rewrite !Z.compare_refl. cbn. rewrite Q. reflexivity.
Qed.

Theorem c03_prerelease a b c sep q dot n :
  a < two63 -> b < two63 -> c < two63 -> date_shaped a b c = false ->
  is_sep sep = true -> q <> [] -> forallb is_letter q = true ->
  match n with Some k => k < two63 | None => True end ->
  exists x y,
    parse_core (dotted3 a b c ++ qtail sep q dot n) = Some x /\
    parse_core (dotted3 a b c) = Some y /\ cmp_core x y = Lt.
Proof.
  intros. eexists _, _. rewrite parse_qualified, parse_numeric by assumption.
  repeat split. apply cmp_qualified_release, to_lower_nonempty. assumption.
Qed.

(* FINDING: when the base is an accepted date-shaped triple, the qualified version is semantic and
   therefore ABOVE its own release *)
Theorem prerelease_above_date_release a b c sep q dot n y :
  date_shaped a b c = true ->
  is_sep sep = true -> q <> [] -> forallb is_letter q = true ->
  match n with Some k => k < two63 | None => True end ->
  parse_core (dotted3 a b c) = Some y ->
  exists x, parse_core (dotted3 a b c ++ qtail sep q dot n) = Some x /\ cmp_core x y = Gt.
Proof.
  intros D S NE L Hn.
  assert (a < two63 /\ b < two63 /\ c < two63) as (Ha & Hb & Hc).
  { unfold date_shaped in D. unfold two63. lia. }
  rewrite parse_numeric_date by assumption.
  destruct (_ && _ && _ && _)%bool; [|discriminate]. intros [= <-].
  rewrite parse_qualified by assumption. eexists. split; reflexivity.
Qed.

Lemma prerelease_above_release_example :
  exists x y, parse_core $"2024.1.15-rc1" = Some x /\ parse_core $"2024.1.15" = Some y /\ cmp_core x y = Gt.
Proof. eexists _, _. repeat split; vm_compute; reflexivity. Qed.

(* order among qualifiers of the same triple: by precedence class, then by number *)
Lemma cmp_qualifiers p a b c q n p' q' n' :
  is_nil q = false -> is_nil q' = false ->
  cmp_core (sem_core p a b c q n) (sem_core p' a b c q' n') =
  thenc (qual_prec q ?= qual_prec q')%Z (n ?= n')%Z.
Proof.
  intros Q Q'. rewrite cmp_core_comb. unfold cmp_comb, lexc, cmp_on, qkey, sem_core. cbn.
  rewrite !Z.compare_refl. cbn. rewrite Q, Q'. reflexivity.
Qed.

Lemma qualifier_chain :
  (qual_prec $"dev" < qual_prec $"alpha" < qual_prec $"beta")%Z /\
  (qual_prec $"beta" < qual_prec $"rc" < qual_prec $"snapshot")%Z /\
  (qual_prec $"snapshot" < qual_prec $"anythingelse")%Z.
Proof. vm_compute. repeat split; reflexivity. Qed.

(* FINDING (Compare is a preorder, not an order): distinct unknown qualifiers compare equal, and
   the prefix is ignored *)
Lemma distinct_versions_compare_equal :
  exists x y z w,
    parse_core $"1.0.0-foo" = Some x /\ parse_core $"1.0.0-bar" = Some y /\ cmp_core x y = Eq /\
    parse_core $"v1.0.0" = Some z /\ parse_core $"release-1.0.0" = Some w /\ cmp_core z w = Eq.
Proof. eexists _, _, _, _. repeat split; vm_compute; reflexivity. Qed.

Print Assumptions cmp_core_tp.
Print Assumptions cmp_tp.
Print Assumptions c03_numeric.
Print Assumptions c03_prerelease.
Print Assumptions prerelease_above_date_release.
Print Assumptions date_below_semantic.
