(* Base/DecFacts.v — facts about [dec] (fmt "%d") and the digit scanners: [dec n] is a
   non-empty digit string whose value is [n]; Atoi reads it back; [take_while]/[drop_while]
   split a digit run from what follows. *)
From Coq Require Import Lia.
From Verif.Base Require Import Bytes BytesFacts GoNum Ord.
Local Open Scope N_scope.

Lemma code_chr n : n < 256 -> code (chr n) = n.
Proof. intros H. unfold code, chr. apply N_ascii_embedding. exact H. Qed.

Lemma is_digit_chr m : m < 10 -> is_digit (chr (48 + m)) = true.
Proof.
  intros H. unfold is_digit, in_range. rewrite code_chr by lia.
  apply andb_true_intro. split; apply N.leb_le; lia.
Qed.

Lemma digit_val_chr m : m < 10 -> digit_val (chr (48 + m)) = m.
Proof. intros H. unfold digit_val. rewrite code_chr by lia. lia. Qed.

Lemma dec_fuel_app fuel : forall n acc, dec_fuel fuel n acc = dec_fuel fuel n [] ++ acc.
Proof.
  induction fuel as [|k IH]; intros n acc; simpl; [reflexivity|].
  destruct (n <? 10); [reflexivity|].
  rewrite (IH (n / 10) (_ :: acc)), (IH (n / 10) [_]).
  rewrite <- app_assoc. reflexivity.
Qed.

Lemma digits_val_snoc s c : digits_val (s ++ [c]) = digits_val s * 10 + digit_val c.
Proof. unfold digits_val. rewrite fold_left_app. reflexivity. Qed.

Lemma pos_lt_pow_size p : N.pos p < 2 ^ N.of_nat (Pos.size_nat p).
Proof.
  induction p as [p IH|p IH|]; cbn [Pos.size_nat].
  - rewrite Nat2N.inj_succ, N.pow_succ_r'. lia.
  - rewrite Nat2N.inj_succ, N.pow_succ_r'. lia.
  - reflexivity.
Qed.

Lemma lt_pow_size n : n < 2 ^ N.of_nat (N.size_nat n).
Proof. destruct n as [|p]; [reflexivity|apply pos_lt_pow_size]. Qed.

Lemma dec_fuel_S k n acc :
  dec_fuel (S k) n acc =
  if n <? 10 then chr (48 + n mod 10) :: acc
  else dec_fuel k (n / 10) (chr (48 + n mod 10) :: acc).
Proof. reflexivity. Qed.

Section DecFuel.
  (* the three facts are proved by the same induction on the fuel *)
  Lemma dec_fuel_spec k : forall n, n < 2 ^ N.of_nat k ->
    dec_fuel (S k) n [] <> [] /\ forallb is_digit (dec_fuel (S k) n []) = true
    /\ digits_val (dec_fuel (S k) n []) = n.
  Proof.
    induction k as [|k IH]; intros n Hn.
    - simpl in Hn. assert (n = 0) by lia. subst n. cbv. repeat split; congruence.
    - rewrite (dec_fuel_S (S k)). destruct (n <? 10) eqn:E.
      + apply N.ltb_lt in E.
        assert (Hm : n mod 10 = n) by (apply N.mod_small; lia).
        rewrite Hm. repeat split.
        * discriminate.
        * cbn [forallb]. rewrite is_digit_chr by lia. reflexivity.
        * unfold digits_val. cbn [fold_left]. rewrite digit_val_chr by lia. lia.
      + apply N.ltb_ge in E.
        rewrite dec_fuel_app.
        assert (Hq : n / 10 < 2 ^ N.of_nat k).
        { rewrite Nat2N.inj_succ, N.pow_succ_r' in Hn.
          apply N.div_lt_upper_bound; lia. }
        destruct (IH (n / 10) Hq) as (H1 & H2 & H3).
        assert (Hm : n mod 10 < 10) by (apply N.mod_lt; lia).
        repeat split.
        * intros Hnil. apply app_eq_nil in Hnil. destruct Hnil as [_ Hnil]. discriminate.
        * rewrite forallb_app, H2. cbn [forallb]. rewrite is_digit_chr by lia. reflexivity.
        * rewrite digits_val_snoc, H3, digit_val_chr by lia.
          pose proof (N.div_mod n 10). lia.
  Qed.
End DecFuel.

Lemma dec_spec n : dec n <> [] /\ forallb is_digit (dec n) = true /\ digits_val (dec n) = n.
Proof. unfold dec. apply dec_fuel_spec. apply lt_pow_size. Qed.

Lemma dec_nonempty n : dec n <> [].
Proof. apply dec_spec. Qed.
Lemma dec_digits n : forallb is_digit (dec n) = true.
Proof. apply dec_spec. Qed.
Lemma digits_val_dec n : digits_val (dec n) = n.
Proof. apply dec_spec. Qed.

Lemma nonempty_digits_dec n : nonempty_digits (dec n) = true.
Proof.
  unfold nonempty_digits. pose proof (dec_nonempty n) as H. pose proof (dec_digits n) as D.
  destruct (dec n); [contradiction|exact D].
Qed.

(* a digit is neither a sign nor any given non-digit byte *)
Lemma digit_not c x : is_digit c = true -> is_digit x = false -> ceqb c x = false.
Proof.
  intros Hc Hx. destruct (ceqb c x) eqn:E; [|reflexivity].
  apply ceqb_eq in E. subst. congruence.
Qed.

Lemma atoi_dec n : n < two63 -> atoi (dec n) = Some (Z.of_N n).
Proof.
  intros Hn. pose proof (nonempty_digits_dec n) as ND. pose proof (dec_digits n) as D.
  pose proof (digits_val_dec n) as Hv.
  unfold atoi. destruct (dec n) as [|c r] eqn:E; [discriminate|].
  cbn [forallb] in D. apply andb_prop in D. destruct D as [Dc _].
  rewrite (digit_not c "-"%char Dc eq_refl), (digit_not c "+"%char Dc eq_refl).
  rewrite ND, Hv. apply N.ltb_lt in Hn. rewrite Hn. reflexivity.
Qed.

Lemma atoi_sat_dec n : n < two63 -> atoi_sat (dec n) = Z.of_N n.
Proof.
  intros Hn. pose proof (nonempty_digits_dec n) as ND. pose proof (dec_digits n) as D.
  pose proof (digits_val_dec n) as Hv.
  unfold atoi_sat. destruct (dec n) as [|c r] eqn:E; [discriminate|].
  cbn [forallb] in D. apply andb_prop in D. destruct D as [Dc _].
  rewrite (digit_not c "-"%char Dc eq_refl), (digit_not c "+"%char Dc eq_refl).
  rewrite ND, Hv. apply N.ltb_lt in Hn. rewrite Hn. reflexivity.
Qed.

(* ---------- scanners ---------- *)

Lemma take_while_app_all p (a r : bytes) :
  forallb p a = true -> take_while p (a ++ r) = a ++ take_while p r.
Proof.
  induction a as [|c a IH]; intros H; simpl in *; [reflexivity|].
  apply andb_prop in H. destruct H as [Hc Ha]. rewrite Hc, (IH Ha). reflexivity.
Qed.

Lemma drop_while_app_all' p (a r : bytes) :
  forallb p a = true -> drop_while p (a ++ r) = drop_while p r.
Proof.
  induction a as [|c a IH]; intros H; simpl in *; [reflexivity|].
  apply andb_prop in H. destruct H as [Hc Ha]. rewrite Hc. apply IH, Ha.
Qed.

Lemma take_while_all p (a : bytes) : forallb p a = true -> take_while p a = a.
Proof.
  intros H. rewrite <- (app_nil_r a) at 1. rewrite take_while_app_all by exact H.
  simpl. apply app_nil_r.
Qed.

Lemma drop_while_all p (a : bytes) : forallb p a = true -> drop_while p a = [].
Proof.
  intros H. rewrite <- (app_nil_r a) at 1. rewrite drop_while_app_all' by exact H. reflexivity.
Qed.

(* a digit run followed by a non-digit (or nothing) *)
Lemma take_digits_stop (a r : bytes) c :
  forallb is_digit a = true -> is_digit c = false ->
  take_while is_digit (a ++ c :: r) = a /\ drop_while is_digit (a ++ c :: r) = c :: r.
Proof.
  intros Ha Hc. rewrite take_while_app_all, drop_while_app_all' by exact Ha.
  simpl. rewrite Hc. rewrite app_nil_r. auto.
Qed.
