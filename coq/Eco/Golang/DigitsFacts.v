(* Base/DigitsFacts.v — [digits_cmp] (strip leading zeros, compare lengths, then bytes: how
   the Go code compares digit strings of any length) is the comparison of the VALUES:
   digits_cmp a b = N.compare (digits_val a) (digits_val b) on digit strings. *)
From Coq Require Import Lia.
From Verif.Base Require Import Bytes BytesFacts GoNum Ord.
Local Open Scope N_scope.

Definition dstep (acc : N) (c : ascii) : N := acc * 10 + digit_val c.

Lemma digits_val_fold s : digits_val s = fold_left dstep s 0.
Proof. reflexivity. Qed.

Lemma fold_dstep_acc s : forall acc,
  fold_left dstep s acc = acc * 10 ^ N.of_nat (length s) + fold_left dstep s 0.
Proof.
  induction s as [|c s IH]; intros acc.
  - cbn [fold_left length]. change (N.of_nat 0) with 0. rewrite N.pow_0_r. lia.
  - cbn [fold_left length]. rewrite (IH (dstep acc c)), (IH (dstep 0 c)).
    rewrite Nat2N.inj_succ, N.pow_succ_r'. unfold dstep. lia.
Qed.

Lemma digits_val_cons c s :
  digits_val (c :: s) = digit_val c * 10 ^ N.of_nat (length s) + digits_val s.
Proof.
  rewrite !digits_val_fold. cbn [fold_left]. rewrite fold_dstep_acc. unfold dstep. lia.
Qed.

Lemma digit_val_le9 c : is_digit c = true -> digit_val c <= 9.
Proof.
  unfold is_digit, in_range, digit_val. intros H. apply andb_prop in H. destruct H as [H1 H2].
  apply N.leb_le in H1, H2. lia.
Qed.

Lemma digits_val_bound s : forallb is_digit s = true -> digits_val s < 10 ^ N.of_nat (length s).
Proof.
  induction s as [|c s IH]; intros H.
  - reflexivity.
  - cbn [forallb] in H. apply andb_prop in H. destruct H as [Hc Hs].
    rewrite digits_val_cons. cbn [length]. rewrite Nat2N.inj_succ, N.pow_succ_r'.
    pose proof (digit_val_le9 c Hc). specialize (IH Hs).
    set (P := 10 ^ N.of_nat (length s)) in *. nia.
Qed.

(* ---------- leading zeros ---------- *)

Lemma strip_zeros_val s : digits_val (strip_zeros s) = digits_val s.
Proof.
  unfold strip_zeros. induction s as [|c s IH]; [reflexivity|].
  cbn [drop_while]. destruct (ceqb "0"%char c) eqn:E.
  - apply ceqb_eq in E. subst c. rewrite IH, digits_val_cons.
    change (digit_val "0"%char) with 0. lia.
  - reflexivity.
Qed.

Lemma strip_zeros_digits s : forallb is_digit s = true -> forallb is_digit (strip_zeros s) = true.
Proof.
  unfold strip_zeros. induction s as [|c s IH]; [reflexivity|]. intros H.
  cbn [drop_while]. destruct (ceqb "0"%char c); [|exact H].
  cbn [forallb] in H. apply andb_prop in H. apply IH, H.
Qed.

Lemma strip_zeros_hd s c t : strip_zeros s = c :: t -> ceqb "0"%char c = false.
Proof.
  unfold strip_zeros. induction s as [|x s IH]; [discriminate|].
  cbn [drop_while]. destruct (ceqb "0"%char x) eqn:E; [exact IH|].
  intros H. injection H as -> _. exact E.
Qed.

Lemma digit_val_pos c : is_digit c = true -> ceqb "0"%char c = false -> 1 <= digit_val c.
Proof.
  unfold is_digit, in_range, digit_val, ceqb. intros H E. apply andb_prop in H. destruct H as [H1 _].
  apply N.leb_le in H1. apply N.eqb_neq in E. change (code "0"%char) with 48 in E. set (n := code c) in *. clearbody n. lia.
Qed.

Lemma digits_val_lower c t :
  1 <= digit_val c -> 10 ^ N.of_nat (length t) <= digits_val (c :: t).
Proof. intros H. rewrite digits_val_cons. set (P := 10 ^ N.of_nat (length t)). nia. Qed.

(* ---------- equal lengths: bytewise = by value ---------- *)

Lemma digit_code_cmp x y :
  is_digit x = true -> is_digit y = true -> (code x ?= code y) = (digit_val x ?= digit_val y).
Proof.
  unfold is_digit, in_range, digit_val. intros Hx Hy.
  apply andb_prop in Hx, Hy. destruct Hx as [Hx _], Hy as [Hy _]. apply N.leb_le in Hx, Hy.
  destruct (code x ?= code y) eqn:E; symmetry.
  - apply N.compare_eq in E. rewrite E. apply N.compare_refl.
  - rewrite N.compare_lt_iff in E. apply N.compare_lt_iff. lia.
  - rewrite N.compare_gt_iff in E. apply N.compare_gt_iff. lia.
Qed.

Lemma bytes_cmp_digits_same_length a : forall b,
  forallb is_digit a = true -> forallb is_digit b = true -> length a = length b ->
  bytes_cmp a b = (digits_val a ?= digits_val b).
Proof.
  induction a as [|x a IH]; intros [|y b] Ha Hb L; try discriminate.
  - reflexivity.
  - cbn [forallb] in Ha, Hb. apply andb_prop in Ha, Hb.
    destruct Ha as [Hx Ha], Hb as [Hy Hb]. cbn [length] in L. injection L as L.
    cbn [bytes_cmp]. rewrite (digit_code_cmp x y Hx Hy), (IH b Ha Hb L).
    rewrite !digits_val_cons, <- L.
    pose proof (digits_val_bound a Ha) as Ba. pose proof (digits_val_bound b Hb) as Bb.
    rewrite <- L in Bb.
    set (P := 10 ^ N.of_nat (length a)) in *.
    set (va := digits_val a) in *. set (vb := digits_val b) in *.
    set (dx := digit_val x). set (dy := digit_val y).
    destruct (dx ?= dy) eqn:E; cbn [thenc].
    + apply N.compare_eq in E. rewrite E.
      destruct (va ?= vb) eqn:E2; symmetry.
      * apply N.compare_eq in E2. rewrite E2. apply N.compare_refl.
      * rewrite N.compare_lt_iff in E2. apply N.compare_lt_iff. lia.
      * rewrite N.compare_gt_iff in E2. apply N.compare_gt_iff. lia.
    + rewrite N.compare_lt_iff in E. symmetry. apply N.compare_lt_iff. nia.
    + rewrite N.compare_gt_iff in E. symmetry. apply N.compare_gt_iff. nia.
Qed.

(* ---------- the theorem ---------- *)

Lemma pow10_mono n m : (n <= m)%nat -> 10 ^ N.of_nat n <= 10 ^ N.of_nat m.
Proof. intros H. apply N.pow_le_mono_r; lia. Qed.

Lemma shorter_is_less a b :
  forallb is_digit a = true -> forallb is_digit b = true ->
  (length (strip_zeros a) < length (strip_zeros b))%nat -> digits_val a < digits_val b.
Proof.
  intros Ha Hb L. rewrite <- (strip_zeros_val a), <- (strip_zeros_val b).
  pose proof (strip_zeros_digits a Ha) as Da. pose proof (strip_zeros_digits b Hb) as Db.
  pose proof (digits_val_bound _ Da) as Ba.
  destruct (strip_zeros b) as [|c t] eqn:E; [simpl in L; lia|].
  pose proof (strip_zeros_hd b c t E) as Hc.
  cbn [forallb] in Db. apply andb_prop in Db. destruct Db as [Dc _].
  pose proof (digits_val_lower c t (digit_val_pos c Dc Hc)) as Lb.
  cbn [length] in L.
  pose proof (pow10_mono (length (strip_zeros a)) (length t) ltac:(lia)). lia.
Qed.

Theorem digits_cmp_val a b :
  forallb is_digit a = true -> forallb is_digit b = true ->
  digits_cmp a b = (digits_val a ?= digits_val b).
Proof.
  intros Ha Hb. unfold digits_cmp.
  destruct (Nat.compare (length (strip_zeros a)) (length (strip_zeros b))) eqn:E; cbn [thenc].
  - apply Nat.compare_eq in E.
    rewrite (bytes_cmp_digits_same_length _ _ (strip_zeros_digits a Ha) (strip_zeros_digits b Hb) E).
    rewrite !strip_zeros_val. reflexivity.
  - rewrite Nat.compare_lt_iff in E. symmetry. apply N.compare_lt_iff.
    apply shorter_is_less; assumption.
  - rewrite Nat.compare_gt_iff in E. symmetry. apply N.compare_gt_iff.
    apply shorter_is_less; assumption.
Qed.
