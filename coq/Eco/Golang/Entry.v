From Verif.Base Require Import Bytes.
From Verif.Eco Require Import Iface.
From Verif.Eco.Golang Require Version Range.

Definition v : vops := mk_vops Golang.Version.parse_core Golang.Version.cmp_core Golang.Version.raw_orig.
Definition r : rops := mk_simple_rops Golang.Range.cfg.
Definition entry : eco := {| e_name := $"golang"; e_v := v; e_r := r |}.
