(* Eco/Golang/Range.v — model of pkg/ecosystem/golang/range.go: an instance of RangeCore.
   TrimSpace; "" rejected; if the text contains a literal space it is split with
   strings.Fields, otherwise it is one constraint; each constraint is trimmed, the first
   operator of [golang_ops] that is a prefix is stripped (an empty remainder is kept) and
   the bound text is only parsed in Contains (an unparsable bound matches nothing). *)
From Verif.Base Require Import Bytes GoNum Ord.
From Verif.Gen Require Operators.
From Verif.Eco Require Import RangeCore.

(* operators := []string{">=", "<=", "!=", ">", "<", "="} in parseSingleGoConstraint *)
(* generated from the Go source on every run (tools/gen -> Gen/Operators.v) *)
Definition golang_ops : list bytes :=
  Eval cbv delta [Verif.Gen.Operators.golang_ops] in Verif.Gen.Operators.golang_ops.

(* the switch in constraint.matches: "=", "==", "!=", ">", ">=", "<", "<=" *)
Definition golang_sem (op : bytes) : cop :=
  if beq op $"=" then CEq
  else if beq op $"==" then CEq
  else if beq op $"!=" then CNe
  else if beq op $">" then CGt
  else if beq op $">=" then CGe
  else if beq op $"<" then CLt
  else if beq op $"<=" then CLe
  else CNever.

Definition cfg : range_cfg := {|
  rc_split := split_golang;
  rc_empty_ok := true;
  rc_ops := golang_ops;
  rc_style := HasPrefixAny;
  rc_sem := golang_sem;
  rc_eager := false;
  rc_trimmed_orig := true
|}.
