(* Eco/Golang/RangeFacts.v — the golang range parser is an instance of RangeCore; this file
   instantiates the generic C02 / C20 theorems at the string-level interface [Entry.r]
   (ARBITRARY oracles vok / vcmp) and proves what is specific to golang's splitter:
   a text with a literal space is split by strings.Fields, AND = intersection. *)
From Coq Require Import Lia.
From Verif.Base Require Import Bytes BytesFacts GoNum Ord.
From Verif.Eco Require Import RangeCore RangeCoreFacts Iface.
From Verif.Eco.Golang Require Import Range Entry.

Lemma golang_ops_ok : ops_ok golang_ops = true.
Proof. vm_compute. reflexivity. Qed.

(* the switch of constraint.matches on the six spellings the parser can produce *)
Lemma golang_sem_table :
  map golang_sem golang_ops = [CGe; CLe; CNe; CGt; CLt; CEq].
Proof. reflexivity. Qed.

Lemma golang_sem_sem6 op : In op golang_ops -> golang_sem op = sem6 op.
Proof.
  unfold golang_ops. cbn [In]. intros H.
  repeat destruct H as [H|H]; try contradiction; subst; reflexivity.
Qed.

(* ---------- the splitter ---------- *)

Definition word (w : bytes) : Prop := w <> [] /\ no_space w = true.

Lemma no_space_no_blank w : no_space w = true -> contains_c " "%char w = false.
Proof.
  unfold no_space, contains_c. induction w as [|c w IH]; [reflexivity|].
  cbn [forallb existsb]. intros H. apply andb_prop in H. destruct H as [Hc Hw].
  rewrite (IH Hw), orb_false_r.
  destruct (ceqb " "%char c) eqn:E; [|reflexivity].
  apply ceqb_eq in E. subst c. discriminate.
Qed.

Lemma split_golang_word w : no_space w = true -> split_golang w = [w].
Proof. intros H. unfold split_golang. rewrite (no_space_no_blank w H). reflexivity. Qed.

Lemma fields_aux_word w cur rest :
  no_space w = true -> fields_aux cur (w ++ rest) = fields_aux (rev w ++ cur) rest.
Proof.
  revert cur. induction w as [|c w IH]; intros cur H; [reflexivity|].
  unfold no_space in H. cbn [forallb] in H. apply andb_prop in H. destruct H as [Hc Hw].
  apply negb_true_iff in Hc. cbn [app fields_aux]. rewrite Hc.
  rewrite (IH (c :: cur) Hw). cbn [rev]. rewrite <- app_assoc. reflexivity.
Qed.

Lemma join_cons2 (x y : bytes) l :
  join $" " (x :: y :: l) = x ++ " "%char :: join $" " (y :: l).
Proof. reflexivity. Qed.

Lemma fields_join l : Forall word l -> fields (join $" " l) = l.
Proof.
  unfold fields. induction l as [|w l IH]; intros F; [reflexivity|].
  inversion F as [|w' l' [Hne Hns] F']; subst.
  assert (Hr : rev w ++ [] <> []).
  { rewrite app_nil_r. intros E. apply Hne. rewrite <- (rev_involutive w), E. reflexivity. }
  destruct l as [|w2 l].
  - cbn [join]. rewrite <- (app_nil_r w) at 1. rewrite (fields_aux_word w [] [] Hns).
    cbn [fields_aux]. destruct (rev w ++ []) eqn:E; [contradiction|].
    rewrite <- E, app_nil_r, rev_involutive. reflexivity.
  - rewrite join_cons2. rewrite (fields_aux_word w [] _ Hns).
    cbn [app fields_aux]. change (is_space " "%char) with true. cbv iota.
    destruct (rev w ++ []) eqn:E; [contradiction|].
    rewrite <- E, app_nil_r, rev_involutive. rewrite (IH F'). reflexivity.
Qed.

Lemma contains_blank_join w w2 l : contains_c " "%char (join $" " (w :: w2 :: l)) = true.
Proof.
  rewrite join_cons2. unfold contains_c. rewrite existsb_app. cbn [existsb].
  change (ceqb " "%char " "%char) with true. cbn [orb]. apply orb_true_r.
Qed.

Lemma split_golang_join l : l <> [] -> Forall word l -> split_golang (join $" " l) = l.
Proof.
  intros Hne F. destruct l as [|w [|w2 l]]; [contradiction| |].
  - inversion F as [|? ? [_ Hns] _]; subst. apply split_golang_word, Hns.
  - unfold split_golang. rewrite contains_blank_join. apply fields_join, F.
Qed.

(* a joined text begins and ends with a non-space byte, so TrimSpace leaves it alone *)
Definition hd_ok (s : bytes) : bool :=
  match s with c :: _ => negb (is_space c) | [] => true end.

Lemma trim_space_fix s : hd_ok s = true -> hd_ok (rev s) = true -> trim_space s = s.
Proof.
  intros H1 H2. unfold trim_space, trim_left, trim_right.
  assert (L : drop_while is_space s = s).
  { destruct s as [|c s]; [reflexivity|]. cbn [hd_ok] in H1. apply negb_true_iff in H1.
    cbn [drop_while]. rewrite H1. reflexivity. }
  rewrite L. destruct (rev s) as [|d t] eqn:E.
  - rewrite <- (rev_involutive s), E. reflexivity.
  - cbn [hd_ok] in H2. apply negb_true_iff in H2. cbn [drop_while]. rewrite H2.
    rewrite <- E. apply rev_involutive.
Qed.

Lemma hd_ok_app_l a b : a <> [] -> hd_ok (a ++ b) = hd_ok a.
Proof. destruct a; [contradiction|reflexivity]. Qed.

Lemma word_hd_ok w : word w -> hd_ok w = true /\ hd_ok (rev w) = true.
Proof.
  intros [Hne Hns]. split.
  - destruct w as [|c w]; [reflexivity|]. unfold no_space in Hns. cbn [forallb] in Hns.
    apply andb_prop in Hns. apply Hns.
  - unfold no_space in Hns. rewrite <- forallb_rev in Hns.
    destruct (rev w) as [|c t]; [reflexivity|]. cbn [forallb] in Hns.
    apply andb_prop in Hns. apply Hns.
Qed.

Lemma join_ends l :
  l <> [] -> Forall word l ->
  join $" " l <> [] /\ hd_ok (join $" " l) = true /\ hd_ok (rev (join $" " l)) = true.
Proof.
  induction l as [|w l IH]; intros Hne F; [contradiction|].
  inversion F as [|? ? Hw F']; subst. destruct (word_hd_ok w Hw) as [H1 H2].
  destruct Hw as [Hwne Hns].
  destruct l as [|w2 l].
  - cbn [join]. auto.
  - destruct (IH ltac:(discriminate) F') as (J1 & J2 & J3).
    rewrite join_cons2. repeat split.
    + intros E. apply app_eq_nil in E. destruct E as [E _]. contradiction.
    + rewrite hd_ok_app_l by assumption. exact H1.
    + rewrite rev_app_distr. cbn [rev]. rewrite <- app_assoc. rewrite hd_ok_app_l; [exact J3|].
      intros E. apply J1. rewrite <- (rev_involutive (join _ _)), E. reflexivity.
Qed.

(* ---------- C02 at the interface ---------- *)

Section C02.
  Variable vok : bytes -> bool.
  Variable vcmp : bytes -> bytes -> comparison.

  Definition in_scope (c : constraint) : Prop :=
    In (fst c) golang_ops /\ bound_in_scope (snd c) /\ vok (snd c) = true.

  Lemma in_scope_generic c : in_scope c -> cons_in_scope bytes (oracle_parse vok) cfg c.
  Proof.
    intros (Hin & Hsc & Hv). split; [exact Hin|]. split; [exact Hsc|].
    exists (snd c). unfold oracle_parse. rewrite Hv. reflexivity.
  Qed.

  Lemma ctext_word c : in_scope c -> word (ctext c).
  Proof.
    intros (Hin & (Hne & Hns & _) & _). unfold ctext. split.
    - intros E. apply app_eq_nil in E. destruct E as [_ E]. contradiction.
    - rewrite no_space_app, Hns, andb_true_r. apply opchars_no_space.
      pose proof (ops_ok_opchars _ golang_ops_ok) as Hoc. rewrite forallb_forall in Hoc.
      apply Hoc. exact Hin.
  Qed.

  (* comparators joined by single spaces: the range contains exactly the versions that
     satisfy every comparator (AND = intersection); a single comparator is the case [cs = [c]] *)
  Theorem golang_c02 cs v :
    cs <> [] -> Forall in_scope cs -> vok v = true ->
    r_contains r vok vcmp (join $" " (map ctext cs)) v =
    Some (forallb (fun c => sat (golang_sem (fst c)) (vcmp v (snd c))) cs).
  Proof.
    intros Hne HF Hv.
    assert (HW : Forall word (map ctext cs)).
    { rewrite Forall_map. revert HF. apply Forall_impl. intros c. apply ctext_word. }
    assert (Hmne : map ctext cs <> []) by (destruct cs; [contradiction|discriminate]).
    destruct (join_ends _ Hmne HW) as (J1 & J2 & J3).
    pose proof (trim_space_fix _ J2 J3) as Htrim.
    destruct (simple_range_c02 bytes (oracle_parse vok) vcmp cfg (join $" " (map ctext cs)) cs)
      as (rg & Hr & Hc).
    - exact golang_ops_ok.
    - exact Hne.
    - revert HF. apply Forall_impl. intros c. apply in_scope_generic.
    - rewrite Htrim. exact J1.
    - rewrite Htrim. cbn [rc_split cfg]. apply split_golang_join; assumption.
    - unfold r, mk_simple_rops. cbn [r_contains]. rewrite Hr, Hv, Hc. f_equal.
      cbn [rc_sem cfg]. clear - HF. induction cs as [|c cs IH]; [reflexivity|].
      inversion HF as [|? ? (_ & _ & Hb) HF']; subst. cbn [forallb].
      unfold oracle_parse at 1. rewrite Hb. rewrite (IH HF'). reflexivity.
  Qed.

  (* property C02, single comparator: for every supported spelling [op] *)
  Corollary golang_c02_single op a v :
    In op golang_ops -> bound_in_scope a -> vok a = true -> vok v = true ->
    r_contains r vok vcmp (op ++ a) v = Some (sat (golang_sem op) (vcmp v a)).
  Proof.
    intros Hin Hsc Ha Hv.
    pose proof (golang_c02 [(op, a)] v ltac:(discriminate)) as H.
    cbn [map ctext join fst snd forallb] in H. rewrite andb_true_r in H.
    apply H; [|exact Hv]. constructor; [|constructor]. repeat split; try assumption; apply Hsc.
  Qed.

  (* a bare version is an exact match *)
  Theorem golang_c02_bare a v :
    bound_in_scope a -> vok a = true -> vok v = true ->
    r_contains r vok vcmp a v = Some (sat CEq (vcmp v a)).
  Proof.
    intros Hsc Ha Hv. destruct Hsc as (Hne & Hns & Hhd).
    unfold r, mk_simple_rops. cbn [r_contains]. unfold parse_range.
    rewrite (trim_space_no_space a Hns). rewrite (match_nonempty a _ Hne).
    cbn [rc_split cfg]. rewrite (split_golang_word a Hns). cbn [parse_constraints].
    rewrite (parse_constraint_bare cfg a golang_ops_ok (conj Hne (conj Hns Hhd))).
    unfold bound_ok. cbn [rc_eager cfg rc_empty_ok rc_trimmed_orig]. rewrite Hv.
    unfold contains. cbn [r_cs forallb]. unfold sat_constraint. cbn [fst snd rc_sem cfg].
    unfold oracle_parse. rewrite Ha. rewrite andb_true_r. reflexivity.
  Qed.
End C02.

(* ---------- C20: membership respects Compare-equality (any total-preorder oracle) ---------- *)

Theorem golang_c20 vok vcmp rg a b :
  TotalPreorder vcmp -> vok a = true -> vok b = true -> vcmp a b = Eq ->
  r_contains r vok vcmp rg a = r_contains r vok vcmp rg b.
Proof.
  intros TP Ha Hb E. unfold r, mk_simple_rops. cbn [r_contains].
  destruct (parse_range bytes (oracle_parse vok) cfg rg) as [x|]; [|reflexivity].
  rewrite Ha, Hb. f_equal. apply simple_range_c20_eq; assumption.
Qed.

(* conjunctions without != are convex *)
Theorem golang_c20_convex vok vcmp rg x a b c :
  TotalPreorder vcmp ->
  parse_range bytes (oracle_parse vok) cfg rg = Some x -> conj_only cfg x = true ->
  vok a = true -> vok b = true -> vok c = true ->
  le_c (vcmp a b) -> le_c (vcmp b c) ->
  r_contains r vok vcmp rg a = Some true -> r_contains r vok vcmp rg c = Some true ->
  r_contains r vok vcmp rg b = Some true.
Proof.
  intros TP Hp Hcv Ha Hb Hc Hab Hbc. unfold r, mk_simple_rops. cbn [r_contains].
  rewrite Hp, Ha, Hb, Hc. intros H1 H2. injection H1 as H1. injection H2 as H2. f_equal.
  apply (simple_range_c20_convex bytes (oracle_parse vok) vcmp cfg TP x a b c); assumption.
Qed.

(* ---------- things the Go parser does that a reader may not expect (vm_compute witnesses,
   oracle = "everything is a version, all equal") ---------- *)

(* ">= v1.0.0" contains a space, is split into ">=" and "v1.0.0"; the first constraint has an
   empty bound, which no version matches *)
Lemma op_space_bound_splits :
  option_map (r_cs) (parse_range bytes (oracle_parse (fun _ => true)) cfg $">= v1.0.0") =
  Some [($">=", []); ($"=", $"v1.0.0")].
Proof. vm_compute. reflexivity. Qed.

(* a TAB does not split: the whole text is one bound *)
Lemma tab_does_not_split :
  option_map (r_cs) (parse_range bytes (oracle_parse (fun _ => true)) cfg (
     $">=v1.0.0" ++ [chr 9] ++ $"<v2.0.0")) =
  Some [($">=", $"v1.0.0" ++ [chr 9] ++ $"<v2.0.0")].
Proof. vm_compute. reflexivity. Qed.
