(* Eco/Golang/SpecFacts.v — the golang Compare model orders versions as the reference order
   Spec/SemVer.v does under the denotation [den_golang] (optional "v", then loose SemVer; a
   pseudo-version denotes its literal SemVer spelling): property C08 for golang. *)
From Coq Require Import Lia.
From Verif.Base Require Import Bytes BytesFacts GoNum Ord.
From Verif.Eco.Golang Require Import DecFacts DigitsFacts.
From Verif.Eco Require Import VLayer VLayerFacts Iface RangeCoreFacts.
From Verif.Eco.Golang Require Import Version VersionFacts Entry.
From Verif.Spec Require SemVer SemVerFacts.
From Verif.Spec Require All.
Local Open Scope N_scope.

(* ------------------------------------------------------------------ *)
(* scope                                                               *)
(* ------------------------------------------------------------------ *)

(* the text of the numeric core as the reference reads it: after the optional "v", before the
   first "+", before the first "-" *)
Definition spec_core (s : bytes) : bytes :=
  fst (split2_c "-"%char (fst (split2_c "+"%char (trim_prefix $"v" s)))).

(* NOT claimed: versions with a numeric component >= 2^63 (strconv.Atoi fails / saturates).
   Nothing else is excluded: pre-release identifiers are unrestricted, and a reference-valid
   text has no whitespace at all (lemma [den_no_space]). *)
Definition in_scope (s : bytes) : bool :=
  forallb (fun p => digits_val p <? two63) (split_c "."%char (spec_core s)).

(* ------------------------------------------------------------------ *)
(* identifiers and pre-release                                         *)
(* ------------------------------------------------------------------ *)

Definition ident_of (s : bytes) : SemVer.ident :=
  if all_digits s then SemVer.INum (digits_val s) else SemVer.IAlnum s.

Lemma is_num_ident_all_digits s : is_num_ident s = all_digits s.
Proof.
  unfold is_num_ident, all_digits. induction s as [|c s IH]; [reflexivity|].
  cbn [drop_while forallb]. destruct (is_digit c); [exact IH|reflexivity].
Qed.

Lemma compare_identifier_spec a b :
  compare_identifier a b = SemVer.ident_cmp (ident_of a) (ident_of b).
Proof.
  unfold compare_identifier, ident_of. rewrite !is_num_ident_all_digits.
  destruct (all_digits a) eqn:Ea, (all_digits b) eqn:Eb; cbn [SemVer.ident_cmp]; try reflexivity.
  apply digits_cmp_val; assumption.
Qed.

Lemma lex_short_map {A B} (f : A -> B) c1 c2 :
  (forall x y, c1 x y = c2 (f x) (f y)) ->
  forall l1 l2, lex_short c1 l1 l2 = lex_short c2 (map f l1) (map f l2).
Proof.
  intros H. induction l1 as [|x l1 IH]; intros [|y l2]; cbn [map lex_short]; try reflexivity.
  rewrite H, IH. reflexivity.
Qed.

Lemma split_c_nonempty sep s : split_c sep s <> [].
Proof.
  destruct s as [|c s]; cbn [split_c]; [discriminate|].
  destruct (ceqb sep c); [discriminate|]. destruct (split_c sep s); discriminate.
Qed.

(* the identifier list of a pre-release text ("" = release) *)
Definition pre_ids (p : bytes) : list SemVer.ident :=
  match p with [] => [] | _ => map ident_of (split_c "."%char p) end.

Lemma compare_prerelease_spec p q :
  compare_prerelease p q = SemVer.pre_cmp (pre_ids p) (pre_ids q).
Proof.
  unfold SemVer.pre_cmp, cmp_on.
  destruct p as [|a p], q as [|b q]; cbn [compare_prerelease pre_ids].
  - reflexivity.
  - pose proof (split_c_nonempty "."%char (b :: q)) as H.
    destruct (split_c "."%char (b :: q)); [contradiction|reflexivity].
  - pose proof (split_c_nonempty "."%char (a :: p)) as H.
    destruct (split_c "."%char (a :: p)); [contradiction|reflexivity].
  - rewrite (lex_short_map ident_of _ SemVer.ident_cmp compare_identifier_spec).
    pose proof (split_c_nonempty "."%char (a :: p)) as H1.
    pose proof (split_c_nonempty "."%char (b :: q)) as H2.
    destruct (split_c "."%char (a :: p)); [contradiction|].
    destruct (split_c "."%char (b :: q)); [contradiction|]. reflexivity.
Qed.

(* ------------------------------------------------------------------ *)
(* parsed structure -> reference version                               *)
(* ------------------------------------------------------------------ *)

Definition core_sv (c : core) : SemVer.sv :=
  {| SemVer.nums := [Z.to_N (major c); Z.to_N (minor c); Z.to_N (patch c)];
     SemVer.pre := pre_ids (pre c) |}.

Definition core_nonneg (c : core) : Prop :=
  (0 <= major c)%Z /\ (0 <= minor c)%Z /\ (0 <= patch c)%Z.

Lemma cmp_core_prec c1 c2 :
  core_nonneg c1 -> core_nonneg c2 ->
  cmp_core c1 c2 = SemVer.prec (core_sv c1) (core_sv c2).
Proof.
  intros (A1 & B1 & C1) (A2 & B2 & C2).
  unfold cmp_core, SemVer.prec, lexc, cmp_on, core_sv. cbn [SemVer.nums SemVer.pre].
  rewrite SemVerFacts.nums_cmp_3, compare_prerelease_spec.
  rewrite !Z2N.inj_compare by assumption.
  destruct (major c1 ?= major c2)%Z; cbn [thenc]; try reflexivity.
  destruct (minor c1 ?= minor c2)%Z; cbn [thenc]; reflexivity.
Qed.

(* ------------------------------------------------------------------ *)
(* the reference's splitters as scanners                               *)
(* ------------------------------------------------------------------ *)

Definition nsep (sep c : ascii) : bool := negb (ceqb sep c).

Lemma cut1 sep s :
  cut [sep] s = match drop_while (nsep sep) s with
                | [] => None
                | _ :: b => Some (take_while (nsep sep) s, b)
                end.
Proof.
  induction s as [|c s IH]; [reflexivity|].
  cbn [cut has_prefix drop_while take_while length skipn]. unfold nsep at 1 3.
  destruct (ceqb sep c); cbn [andb negb]; [reflexivity|].
  rewrite IH. destruct (drop_while (nsep sep) s); reflexivity.
Qed.

Lemma split2_c_spec sep s :
  split2_c sep s = (take_while (nsep sep) s,
                    match drop_while (nsep sep) s with [] => None | _ :: b => Some b end).
Proof.
  unfold split2_c. rewrite cut1.
  destruct (drop_while (nsep sep) s) eqn:E; [|reflexivity].
  f_equal. symmetry. apply take_while_all. apply drop_while_nil_iff. exact E.
Qed.

Lemma take_drop_while p (s : bytes) : take_while p s ++ drop_while p s = s.
Proof.
  induction s as [|c s IH]; [reflexivity|]. cbn [take_while drop_while].
  destruct (p c); [cbn [app]; rewrite IH|]; reflexivity.
Qed.

Lemma take_while_forallb p (s : bytes) : forallb p (take_while p s) = true.
Proof.
  induction s as [|c s IH]; [reflexivity|]. cbn [take_while].
  destruct (p c) eqn:E; [|reflexivity]. cbn [forallb]. rewrite E, IH. reflexivity.
Qed.

Lemma drop_while_hd p (s : bytes) c t : drop_while p s = c :: t -> p c = false.
Proof.
  induction s as [|x s IH]; [discriminate|]. cbn [drop_while].
  destruct (p x) eqn:E; [exact IH|]. intros H. injection H as -> _. exact E.
Qed.

Lemma nsep_false sep c : nsep sep c = false -> c = sep.
Proof.
  unfold nsep. intros H. apply negb_false_iff in H. apply ceqb_eq in H. congruence.
Qed.

Lemma ceqb_sym a b : ceqb a b = ceqb b a.
Proof. unfold ceqb. apply N.eqb_sym. Qed.

Lemma join_split_c sep s : join [sep] (split_c sep s) = s.
Proof.
  induction s as [|c s IH]; [reflexivity|]. cbn [split_c].
  pose proof (split_c_nonempty sep s) as Hne.
  destruct (ceqb sep c) eqn:E.
  - apply ceqb_eq in E. subst c.
    destruct (split_c sep s) as [|f fs]; [contradiction|].
    change (join [sep] ([] :: f :: fs)) with (sep :: join [sep] (f :: fs)). rewrite IH. reflexivity.
  - destruct (split_c sep s) as [|f fs]; [contradiction|].
    destruct fs as [|g fs]; cbn [join app] in *; rewrite IH; reflexivity.
Qed.

(* ------------------------------------------------------------------ *)
(* all-or-nothing map                                                  *)
(* ------------------------------------------------------------------ *)

Lemma map_opt_spec {A B} (f : A -> option B) (g : A -> B) (q : A -> bool) :
  (forall x y, f x = Some y -> y = g x /\ q x = true) ->
  forall l r, SemVer.map_opt f l = Some r -> r = map g l /\ forallb q l = true.
Proof.
  intros H. induction l as [|x l IH]; intros r; cbn [SemVer.map_opt map forallb].
  - intros E. injection E as <-. auto.
  - destruct (f x) as [y|] eqn:Ex; [|discriminate].
    destruct (SemVer.map_opt f l) as [ys|]; [|discriminate].
    intros E. injection E as <-. destruct (H x y Ex) as [-> Hq].
    destruct (IH ys eq_refl) as [-> Hl]. rewrite Hq, Hl. auto.
Qed.

Lemma numeric_loose_some s n :
  SemVer.numeric false s = Some n -> n = digits_val s /\ nonempty_digits s = true.
Proof.
  unfold SemVer.numeric. destruct (nonempty_digits s); cbn [andb negb orb]; [|discriminate].
  intros H. injection H as <-. auto.
Qed.

Lemma pre_ident_loose_some s i :
  SemVer.pre_ident false s = Some i -> i = ident_of s /\ ident_ok s = true.
Proof.
  unfold SemVer.pre_ident, ident_of, ident_ok. destruct s as [|c s]; [discriminate|].
  destruct (all_digits (c :: s)) eqn:D.
  - unfold SemVer.numeric.
    destruct (nonempty_digits (c :: s)); cbn [andb negb orb option_map]; [|discriminate].
    intros H. injection H as <-. split; [reflexivity|].
    revert D. unfold all_digits. apply forallb_impl. apply digit_ident.
  - destruct (forallb SemVer.is_ident_char (c :: s)) eqn:I; [|discriminate].
    intros H. injection H as <-. split; [reflexivity|exact I].
Qed.

Lemma parse_pre_loose_some p ids :
  SemVer.parse_pre false p = Some ids ->
  ids = map ident_of (split_c "."%char p) /\ idents_ok p = true.
Proof. unfold SemVer.parse_pre, idents_ok. apply map_opt_spec. apply pre_ident_loose_some. Qed.

Lemma build_ok_idents_ok b : SemVer.build_ok b = idents_ok b.
Proof. reflexivity. Qed.

(* ------------------------------------------------------------------ *)
(* the shape of a reference-valid text                                 *)
(* ------------------------------------------------------------------ *)

Definition pre_part (pp pt : bytes) : Prop :=
  (pp = [] /\ pt = []) \/
  (pp = "-"%char :: pt /\ idents_ok pt = true /\ forallb not_plus pt = true).
Definition build_part (bp : bytes) : Prop :=
  bp = [] \/ exists b, bp = "+"%char :: b /\ idents_ok b = true.

Lemma den_structure t v :
  SemVer.parse_loose 3 3 t = Some v ->
  exists ma mi pa pp pt bp,
    t = ma ++ "."%char :: mi ++ "."%char :: pa ++ pp ++ bp /\
    split_c "."%char (fst (split2_c "-"%char (fst (split2_c "+"%char t)))) = [ma; mi; pa] /\
    nonempty_digits ma = true /\ nonempty_digits mi = true /\ nonempty_digits pa = true /\
    pre_part pp pt /\ build_part bp /\
    v = {| SemVer.nums := [digits_val ma; digits_val mi; digits_val pa];
           SemVer.pre := pre_ids pt |}.
Proof.
  unfold SemVer.parse_loose, SemVer.parse_gen. rewrite !split2_c_spec. cbn [fst].
  set (main := take_while (nsep "+"%char) t).
  set (core := take_while (nsep "-"%char) main).
  intros H.
  assert (Ht : t = core ++ drop_while (nsep "-"%char) main ++ drop_while (nsep "+"%char) t).
  { rewrite app_assoc. unfold core. rewrite take_drop_while. unfold main.
    rewrite take_drop_while. reflexivity. }
  assert (Hmain : forallb not_plus main = true).
  { unfold main. generalize (take_while_forallb (nsep "+"%char) t). apply forallb_impl.
    intros c. unfold nsep, not_plus. rewrite ceqb_sym. auto. }
  (* build metadata *)
  assert (HB : build_part (drop_while (nsep "+"%char) t) /\
               match SemVer.parse_nums false 3 3 core with
               | Some ns =>
                   match match drop_while (nsep "-"%char) main with [] => None | _ :: b => Some b end with
                   | Some p => match SemVer.parse_pre false p with
                               | Some ids => Some {| SemVer.nums := SemVer.pad_nums 3 ns; SemVer.pre := ids |}
                               | None => None end
                   | None => Some {| SemVer.nums := SemVer.pad_nums 3 ns; SemVer.pre := [] |}
                   end
               | None => None
               end = Some v).
  { destruct (drop_while (nsep "+"%char) t) as [|cb b] eqn:EB.
    - split; [left; reflexivity|exact H].
    - pose proof (nsep_false _ _ (drop_while_hd _ _ _ _ EB)) as ->.
      destruct (SemVer.build_ok b) eqn:Eb; [|discriminate].
      split; [right; exists b; split; [reflexivity|exact Eb]|exact H]. }
  destruct HB as [HB H']. clear H.
  (* numeric core *)
  unfold SemVer.parse_nums in H'.
  destruct (SemVer.map_opt (SemVer.numeric false) (split_c "."%char core)) as [ns|] eqn:EN; [|discriminate].
  destruct (map_opt_spec _ digits_val nonempty_digits numeric_loose_some _ _ EN) as [-> HD].
  rewrite map_length in H'.
  pose proof (join_split_c "."%char core) as Hjoin.
  destruct (split_c "."%char core) as [|ma [|mi [|pa [|x l]]]] eqn:ES; try discriminate H'.
  cbn [length Nat.leb andb map SemVer.pad_nums] in H'.
  cbn [forallb] in HD. apply andb_prop in HD. destruct HD as [Hma HD].
  apply andb_prop in HD. destruct HD as [Hmi HD]. apply andb_prop in HD. destruct HD as [Hpa _].
  cbn [join app] in Hjoin.
  (* pre-release *)
  assert (HP : exists pt, pre_part (drop_while (nsep "-"%char) main) pt /\
               v = {| SemVer.nums := [digits_val ma; digits_val mi; digits_val pa];
                      SemVer.pre := pre_ids pt |}).
  { destruct (drop_while (nsep "-"%char) main) as [|cp p] eqn:EP.
    - exists []. split; [left; auto|]. injection H' as <-. reflexivity.
    - pose proof (nsep_false _ _ (drop_while_hd _ _ _ _ EP)) as ->.
      destruct (SemVer.parse_pre false p) as [ids|] eqn:Ep; [|discriminate].
      destruct (parse_pre_loose_some p ids Ep) as [-> Hok].
      exists p. split.
      + right. split; [reflexivity|]. split; [exact Hok|].
        assert (Hm : main = core ++ "-"%char :: p).
        { rewrite <- EP. unfold core. symmetry. apply take_drop_while. }
        rewrite Hm, forallb_app in Hmain. apply andb_prop in Hmain. destruct Hmain as [_ Hm2].
        cbn [forallb] in Hm2. apply andb_prop in Hm2. apply Hm2.
      + injection H' as <-. unfold pre_ids.
        pose proof (idents_ok_nonempty p Hok) as Hne. destruct p; [contradiction|reflexivity]. }
  destruct HP as (pt & HPP & Hv).
  exists ma, mi, pa, (drop_while (nsep "-"%char) main), pt, (drop_while (nsep "+"%char) t).
  split.
  { rewrite Ht at 1. rewrite <- Hjoin. rewrite <- !app_assoc. cbn [app].
    rewrite <- !app_assoc. reflexivity. }
  split; [reflexivity|]. repeat (split; [assumption|]). exact Hv.
Qed.

(* ------------------------------------------------------------------ *)
(* the model reads that shape                                          *)
(* ------------------------------------------------------------------ *)

Lemma split_mmp_digits ma mi pa rest :
  nonempty_digits ma = true -> nonempty_digits mi = true -> nonempty_digits pa = true ->
  no_digit_hd rest = true ->
  split_mmp (ma ++ "."%char :: mi ++ "."%char :: pa ++ rest) = Some (ma, mi, pa, rest).
Proof.
  intros Hma Hmi Hpa Hr. unfold split_mmp.
  rewrite (num_dot_digits ma _ Hma), (num_dot_digits mi _ Hmi).
  assert (Dpa : forallb is_digit pa = true).
  { unfold nonempty_digits in Hpa. destruct pa; [discriminate|exact Hpa]. }
  destruct (take_digits_end pa rest Dpa Hr) as [Ht Hd]. rewrite Ht, Hd.
  destruct pa; [discriminate|reflexivity].
Qed.

Lemma semver_tail_shape pp pt bp :
  pre_part pp pt -> build_part bp -> semver_tail (pp ++ bp) = Some pt.
Proof.
  intros [[-> ->]|(-> & Hok & Hnp)] [->|(b & -> & Hb)].
  - reflexivity.
  - cbn [app]. unfold semver_tail. change (ceqb "+"%char "-"%char) with false.
    change (ceqb "+"%char "+"%char) with true. cbv iota. rewrite Hb. reflexivity.
  - rewrite app_nil_r. unfold semver_tail. change (ceqb "-"%char "-"%char) with true. cbv iota.
    rewrite (take_while_all _ _ Hnp), (drop_while_all _ _ Hnp), Hok. reflexivity.
  - cbn [app]. unfold semver_tail. change (ceqb "-"%char "-"%char) with true. cbv iota.
    rewrite take_while_app_all, drop_while_app_all' by exact Hnp.
    cbn [take_while drop_while]. change (not_plus "+"%char) with false. cbv iota.
    rewrite app_nil_r, Hok, Hb. reflexivity.
Qed.

Lemma shape_no_digit_hd pp pt bp : pre_part pp pt -> build_part bp -> no_digit_hd (pp ++ bp) = true.
Proof. intros [[-> ->]|(-> & _)] [->|(b & -> & _)]; reflexivity. Qed.

Lemma atoi_digits s :
  nonempty_digits s = true -> digits_val s < two63 -> atoi s = Some (Z.of_N (digits_val s)).
Proof.
  intros ND Hn. unfold atoi. destruct s as [|c r]; [discriminate|].
  assert (Dc : is_digit c = true).
  { unfold nonempty_digits in ND. cbn [forallb] in ND. apply andb_prop in ND. apply ND. }
  rewrite (digit_not c "-"%char Dc eq_refl), (digit_not c "+"%char Dc eq_refl).
  rewrite ND. apply N.ltb_lt in Hn. rewrite Hn. reflexivity.
Qed.

(* the body (text after the optional "v") *)
Lemma den_body t v :
  SemVer.parse_loose 3 3 t = Some v ->
  forallb (fun p => digits_val p <? two63)
    (split_c "."%char (fst (split2_c "-"%char (fst (split2_c "+"%char t))))) = true ->
  exists c, parse_body t = Some c /\ core_nonneg c /\ core_sv c = v.
Proof.
  intros H Hsc.
  destruct (den_structure t v H) as (ma & mi & pa & pp & pt & bp & Ht & Hs & Hma & Hmi & Hpa & HP & HB & Hv).
  rewrite Hs in Hsc. cbn [forallb] in Hsc.
  apply andb_prop in Hsc. destruct Hsc as [Sa Hsc]. apply andb_prop in Hsc. destruct Hsc as [Sb Hsc].
  apply andb_prop in Hsc. destruct Hsc as [Sc _]. apply N.ltb_lt in Sa, Sb, Sc.
  exists {| major := Z.of_N (digits_val ma); minor := Z.of_N (digits_val mi);
            patch := Z.of_N (digits_val pa); pre := pt |}.
  split; [|split].
  - apply (pseudo_detection_irrelevant t ma mi pa (pp ++ bp)).
    + rewrite Ht. apply split_mmp_digits; try assumption. apply (shape_no_digit_hd pp pt bp HP HB).
    + apply semver_tail_shape; assumption.
    + apply atoi_digits; assumption.
    + apply atoi_digits; assumption.
    + apply atoi_digits; assumption.
  - unfold core_nonneg. cbn [major minor patch]. lia.
  - unfold core_sv. cbn [major minor patch pre]. rewrite !N2Z.id. symmetry. exact Hv.
Qed.

(* the optional "v" *)
Lemma parse_core_trim_prefix s :
  s <> [] -> parse_core s = parse_body (trim_prefix $"v" s).
Proof.
  destruct s as [|c r]; [contradiction|]. intros _.
  unfold parse_core, trim_prefix. change (list_ascii_of_string "v") with ["v"%char].
  cbn [has_prefix length skipn]. rewrite andb_true_r, (ceqb_sym c "v"%char).
  destruct (ceqb "v"%char c); reflexivity.
Qed.

Lemma den_nonempty s v : SemVer.den_golang s = Some v -> s <> [].
Proof. intros H E. subst. discriminate. Qed.

Lemma den_core s v :
  SemVer.den_golang s = Some v -> in_scope s = true ->
  exists c, parse_core s = Some c /\ core_nonneg c /\ core_sv c = v.
Proof.
  intros H Hsc. rewrite (parse_core_trim_prefix s (den_nonempty s v H)).
  apply den_body; assumption.
Qed.

(* ------------------------------------------------------------------ *)
(* a reference-valid text contains no whitespace                       *)
(* ------------------------------------------------------------------ *)

Definition spaces : list ascii := [chr 9; chr 10; chr 11; chr 12; chr 13; chr 32].

Lemma code_eq_chr c n : n < 256 -> code c = n -> c = chr n.
Proof. intros L H. apply code_inj. rewrite code_chr by exact L. exact H. Qed.

Lemma is_space_cases c : is_space c = true -> In c spaces.
Proof.
  unfold is_space. intros H.
  assert (K : code c = 9 \/ code c = 10 \/ code c = 11 \/ code c = 12 \/ code c = 13 \/ code c = 32).
  { apply orb_prop in H. destruct H as [H|H].
    - apply N.eqb_eq in H. lia.
    - apply andb_prop in H. destruct H as [H1 H2]. apply N.leb_le in H1, H2. lia. }
  unfold spaces. cbn [In].
  destruct K as [K|[K|[K|[K|[K|K]]]]]; apply code_eq_chr in K; try lia; subst c; auto 10.
Qed.

Lemma not_space_by (q : ascii -> bool) :
  forallb (fun c => negb (q c)) spaces = true ->
  forall c, q c = true -> negb (is_space c) = true.
Proof.
  intros H c Hq. destruct (is_space c) eqn:S; [|reflexivity].
  apply is_space_cases in S. rewrite forallb_forall in H. specialize (H c S).
  rewrite Hq in H. discriminate.
Qed.

Definition body_char (c : ascii) : bool :=
  is_digit c || ceqb "."%char c || is_ident_char c || ceqb "+"%char c || ceqb "v"%char c.

Lemma body_char_not_space c : body_char c = true -> negb (is_space c) = true.
Proof. apply not_space_by. reflexivity. Qed.

Lemma idents_ok_chars p :
  idents_ok p = true -> forallb (fun c => ceqb "."%char c || is_ident_char c) p = true.
Proof.
  intros H. unfold idents_ok in H. apply split_segments_chars.
  revert H. apply forallb_impl. intros seg. unfold ident_ok. destruct seg; [discriminate|auto].
Qed.

Lemma digits_body s : nonempty_digits s = true -> forallb body_char s = true.
Proof.
  intros H. assert (D : forallb is_digit s = true).
  { unfold nonempty_digits in H. destruct s; [reflexivity|exact H]. }
  revert D. apply forallb_impl. intros c Hc. unfold body_char. rewrite Hc. reflexivity.
Qed.

Lemma idents_body p : idents_ok p = true -> forallb body_char p = true.
Proof.
  intros H. generalize (idents_ok_chars p H). apply forallb_impl.
  intros c Hc. unfold body_char. apply orb_prop in Hc. destruct Hc as [Hc|Hc]; rewrite Hc.
  - rewrite orb_true_r. reflexivity.
  - rewrite !orb_true_r. reflexivity.
Qed.

Lemma den_body_chars t v : SemVer.parse_loose 3 3 t = Some v -> forallb body_char t = true.
Proof.
  intros H.
  destruct (den_structure t v H) as (ma & mi & pa & pp & pt & bp & Ht & _ & Hma & Hmi & Hpa & HP & HB & _).
  rewrite Ht. repeat (rewrite forallb_app || cbn [forallb]).
  rewrite (digits_body ma Hma), (digits_body mi Hmi), (digits_body pa Hpa).
  change (body_char "."%char) with true. cbn [andb].
  assert (Hpp : forallb body_char pp = true).
  { destruct HP as [[-> _]|(-> & Hok & _)]; [reflexivity|].
    cbn [forallb]. rewrite (idents_body pt Hok). reflexivity. }
  assert (Hbp : forallb body_char bp = true).
  { destruct HB as [->|(b & -> & Hok)]; [reflexivity|].
    cbn [forallb]. rewrite (idents_body b Hok). reflexivity. }
  rewrite Hpp, Hbp. reflexivity.
Qed.

Lemma den_golang_unfold s : SemVer.den_golang s = SemVer.parse_loose 3 3 (trim_prefix $"v" s).
Proof. reflexivity. Qed.

Lemma den_no_space s v : SemVer.den_golang s = Some v -> no_space s = true.
Proof.
  rewrite den_golang_unfold. intros H. pose proof (den_body_chars _ _ H) as HB.
  assert (Hs : forallb body_char s = true).
  { unfold trim_prefix in HB. destruct (has_prefix $"v" s) eqn:E; [|exact HB].
    apply has_prefix_spec in E. destruct E as [t ->].
    rewrite skipn_app_exact in HB. change (list_ascii_of_string "v") with ["v"%char].
    cbn [app forallb]. rewrite HB. reflexivity. }
  unfold no_space. revert Hs. apply forallb_impl. apply body_char_not_space.
Qed.

Lemma den_trim s v : SemVer.den_golang s = Some v -> trim_space s = s.
Proof. intros H. apply trim_space_no_space. apply (den_no_space s v H). Qed.

(* ------------------------------------------------------------------ *)
(* the theorems                                                        *)
(* ------------------------------------------------------------------ *)

(* the reference for golang, as registered in Spec/All.v *)
Definition spec_valid (s : bytes) : bool := SemVer.isSome (SemVer.den_golang s).
Definition spec_cmp : bytes -> bytes -> option comparison := SemVer.spec_cmp_with SemVer.den_golang.

Lemma spec_registered :
  exists sp, Verif.Spec.All.find_spec $"golang" Verif.Spec.All.specs = Some sp /\
    (forall s, Verif.Spec.All.sp_valid sp s = spec_valid s) /\
    (forall a b, Verif.Spec.All.sp_cmp sp a b = spec_cmp a b).
Proof. eexists. split; [reflexivity|]. split; intros; reflexivity. Qed.

Lemma model_parse_of_den s v :
  SemVer.den_golang s = Some v -> in_scope s = true ->
  exists c, Version.parse s = Some {| v_core := c; v_orig := s |} /\ core_nonneg c /\ core_sv c = v.
Proof.
  intros H Hsc. destruct (den_core s v H Hsc) as (c & Hc & Hnn & Hv).
  exists c. split; [|auto].
  unfold Version.parse, VLayer.parse. rewrite (den_trim s v H), Hc. reflexivity.
Qed.

Theorem golang_cmp_is_spec a b :
  in_scope a = true -> in_scope b = true ->
  spec_valid a = true -> spec_valid b = true ->
  v_cmp Entry.v a b = spec_cmp a b.
Proof.
  intros Sa Sb Va Vb. unfold spec_valid in Va, Vb. unfold spec_cmp, SemVer.spec_cmp_with.
  destruct (SemVer.den_golang a) as [va|] eqn:Da; [|discriminate].
  destruct (SemVer.den_golang b) as [vb|] eqn:Db; [|discriminate].
  destruct (model_parse_of_den a va Da Sa) as (ca & Pa & Na & Ea).
  destruct (model_parse_of_den b vb Db Sb) as (cb & Pb & Nb & Eb).
  unfold Entry.v, mk_vops. cbn [v_cmp].
  unfold Version.parse in Pa, Pb. rewrite Pa, Pb.
  unfold VLayer.cmp. cbn [v_core]. rewrite (cmp_core_prec ca cb Na Nb), Ea, Eb. reflexivity.
Qed.

Theorem golang_accepts_spec_valid s :
  in_scope s = true -> spec_valid s = true -> exists t, v_show Entry.v s = Some t.
Proof.
  intros Ss Vs. unfold spec_valid in Vs.
  destruct (SemVer.den_golang s) as [v|] eqn:D; [|discriminate].
  destruct (model_parse_of_den s v D Ss) as (c & P & _).
  exists s. unfold Entry.v, mk_vops. cbn [v_show].
  unfold Version.parse in P. rewrite P. reflexivity.
Qed.

(* ------------------------------------------------------------------ *)
(* outside the scope the model (= the Go code) deviates                *)
(* ------------------------------------------------------------------ *)

(* a component >= 2^63: reference-valid, rejected by NewVersion *)
Lemma golang_accepts_refuted :
  spec_valid $"v9223372036854775808.0.0" = true /\
  in_scope $"v9223372036854775808.0.0" = false /\
  v_show Entry.v $"v9223372036854775808.0.0" = None.
Proof. vm_compute. auto. Qed.

(* ... unless the text is a pseudo-version: then the Atoi error is ignored, the component
   saturates at MaxInt64 and Compare differs from the reference *)
Lemma golang_cmp_refuted :
  let a := $"v99999999999999999999.0.0-20190101000000-abcdef123456" in
  let b := $"v9223372036854775807.0.0-20190101000000-abcdef123456" in
  spec_valid a = true /\ spec_valid b = true /\ in_scope a = false /\
  v_cmp Entry.v a b = Some Eq /\ spec_cmp a b = Some Gt.
Proof. vm_compute. auto 10. Qed.

(* ------------------------------------------------------------------ *)
(* converse direction: texts of the shape vMA.MI.PA-P are reference-valid *)
(* ------------------------------------------------------------------ *)

Definition spelled (ma mi pa p : bytes) : bytes :=
  "v"%char :: ma ++ "."%char :: mi ++ "."%char :: pa ++ "-"%char :: p.

Lemma map_opt_conv {A B} (f : A -> option B) (g : A -> B) (q : A -> bool) :
  (forall x, q x = true -> f x = Some (g x)) ->
  forall l, forallb q l = true -> SemVer.map_opt f l = Some (map g l).
Proof.
  intros H. induction l as [|x l IH]; [reflexivity|]. cbn [forallb SemVer.map_opt map].
  intros Hq. apply andb_prop in Hq. destruct Hq as [Hx Hl]. rewrite (H x Hx), (IH Hl). reflexivity.
Qed.

Lemma numeric_of_digits s : nonempty_digits s = true -> SemVer.numeric false s = Some (digits_val s).
Proof. intros H. unfold SemVer.numeric. rewrite H. reflexivity. Qed.

Lemma pre_ident_of_ok s : ident_ok s = true -> SemVer.pre_ident false s = Some (ident_of s).
Proof.
  unfold ident_ok, SemVer.pre_ident, ident_of. destruct s as [|c s]; [discriminate|]. intros H.
  destruct (all_digits (c :: s)) eqn:D.
  - rewrite numeric_of_digits; [reflexivity|]. exact D.
  - change (forallb SemVer.is_ident_char (c :: s)) with (forallb is_ident_char (c :: s)).
    rewrite H. reflexivity.
Qed.

Lemma parse_pre_of_ok p :
  idents_ok p = true -> SemVer.parse_pre false p = Some (map ident_of (split_c "."%char p)).
Proof. unfold idents_ok, SemVer.parse_pre. apply map_opt_conv. apply pre_ident_of_ok. Qed.

Lemma split_c_app_sep sep a r :
  forallb (nsep sep) a = true -> split_c sep (a ++ sep :: r) = a :: split_c sep r.
Proof.
  induction a as [|c a IH]; intros H.
  - cbn [app split_c]. rewrite ceqb_refl. reflexivity.
  - cbn [forallb] in H. apply andb_prop in H. destruct H as [Hc Ha].
    unfold nsep in Hc. apply negb_true_iff in Hc.
    cbn [app split_c]. rewrite Hc, (IH Ha). reflexivity.
Qed.

Lemma digits_nsep sep s :
  is_digit sep = false -> nonempty_digits s = true -> forallb (nsep sep) s = true.
Proof.
  intros Hs H. assert (D : forallb is_digit s = true).
  { unfold nonempty_digits in H. destruct s; [reflexivity|exact H]. }
  revert D. apply forallb_impl. intros c Hc. unfold nsep. rewrite ceqb_sym.
  rewrite (digit_not c sep Hc Hs). reflexivity.
Qed.

Definition core_text (ma mi pa : bytes) : bytes := ma ++ "."%char :: mi ++ "."%char :: pa.

Lemma core_text_nsep sep ma mi pa :
  is_digit sep = false -> ceqb sep "."%char = false ->
  nonempty_digits ma = true -> nonempty_digits mi = true -> nonempty_digits pa = true ->
  forallb (nsep sep) (core_text ma mi pa) = true.
Proof.
  intros Hs Hd Hma Hmi Hpa. unfold core_text.
  repeat (rewrite forallb_app || cbn [forallb]).
  rewrite (digits_nsep sep ma Hs Hma), (digits_nsep sep mi Hs Hmi), (digits_nsep sep pa Hs Hpa).
  unfold nsep at 1 2. rewrite Hd. reflexivity.
Qed.

Lemma split_core_text ma mi pa :
  nonempty_digits ma = true -> nonempty_digits mi = true -> nonempty_digits pa = true ->
  split_c "."%char (core_text ma mi pa) = [ma; mi; pa].
Proof.
  intros Hma Hmi Hpa. unfold core_text.
  rewrite (split_c_app_sep _ ma _ (digits_nsep "."%char ma eq_refl Hma)).
  rewrite (split_c_app_sep _ mi _ (digits_nsep "."%char mi eq_refl Hmi)).
  rewrite (split_c_no_sep _ pa (digits_nsep "."%char pa eq_refl Hpa)). reflexivity.
Qed.

Lemma spelled_body ma mi pa p :
  spelled ma mi pa p = "v"%char :: core_text ma mi pa ++ "-"%char :: p.
Proof. unfold spelled, core_text. rewrite <- !app_assoc. cbn [app]. rewrite <- !app_assoc. reflexivity. Qed.

Section Spelled.
  Variables ma mi pa p : bytes.
  Hypothesis Hma : nonempty_digits ma = true.
  Hypothesis Hmi : nonempty_digits mi = true.
  Hypothesis Hpa : nonempty_digits pa = true.
  Hypothesis Hp : idents_ok p = true.

  Local Notation t := (core_text ma mi pa ++ "-"%char :: p).

  Lemma spelled_no_plus : forallb (nsep "+"%char) t = true.
  Proof.
    rewrite forallb_app. cbn [forallb].
    rewrite (core_text_nsep "+"%char ma mi pa eq_refl eq_refl Hma Hmi Hpa).
    change (nsep "+"%char "-"%char) with true. cbn [andb].
    generalize (idents_ok_no_plus p Hp). apply forallb_impl.
    intros c. unfold nsep, not_plus. rewrite ceqb_sym. auto.
  Qed.

  Lemma spelled_main : fst (split2_c "+"%char t) = t /\ snd (split2_c "+"%char t) = None.
  Proof.
    rewrite split2_c_spec. cbn [fst snd].
    rewrite (take_while_all _ _ spelled_no_plus), (drop_while_all _ _ spelled_no_plus). auto.
  Qed.

  Lemma spelled_core_pre : split2_c "-"%char t = (core_text ma mi pa, Some p).
  Proof.
    rewrite split2_c_spec.
    pose proof (core_text_nsep "-"%char ma mi pa eq_refl eq_refl Hma Hmi Hpa) as Hc.
    rewrite (take_while_app_all _ _ _ Hc), (drop_while_app_all' _ _ _ Hc).
    cbn [take_while drop_while]. change (nsep "-"%char "-"%char) with false. cbv iota.
    rewrite app_nil_r. reflexivity.
  Qed.

  Lemma spelled_spec_core : spec_core (spelled ma mi pa p) = core_text ma mi pa.
  Proof.
    unfold spec_core. rewrite spelled_body.
    change (trim_prefix $"v" ("v"%char :: t)) with t.
    destruct spelled_main as [-> _]. rewrite spelled_core_pre. reflexivity.
  Qed.

  Lemma spelled_den :
    SemVer.den_golang (spelled ma mi pa p) =
    Some {| SemVer.nums := [digits_val ma; digits_val mi; digits_val pa]; SemVer.pre := pre_ids p |}.
  Proof.
    rewrite den_golang_unfold, spelled_body.
    change (trim_prefix $"v" ("v"%char :: t)) with t.
    unfold SemVer.parse_loose, SemVer.parse_gen.
    destruct spelled_main as [Hm Hb].
    destruct (split2_c "+"%char t) as [main build]. cbn [fst snd] in Hm, Hb. subst main build.
    rewrite spelled_core_pre.
    unfold SemVer.parse_nums. rewrite (split_core_text ma mi pa Hma Hmi Hpa).
    cbn [SemVer.map_opt]. rewrite !numeric_of_digits by assumption.
    cbn [length Nat.leb andb SemVer.pad_nums].
    rewrite (parse_pre_of_ok p Hp). unfold pre_ids.
    pose proof (idents_ok_nonempty p Hp) as Hne. destruct p; [contradiction|reflexivity].
  Qed.

  Lemma spelled_in_scope :
    digits_val ma < two63 -> digits_val mi < two63 -> digits_val pa < two63 ->
    in_scope (spelled ma mi pa p) = true.
  Proof.
    intros Ba Bb Bc. unfold in_scope.
    rewrite spelled_spec_core, (split_core_text ma mi pa Hma Hmi Hpa). cbn [forallb].
    apply N.ltb_lt in Ba, Bb, Bc. rewrite Ba, Bb, Bc. reflexivity.
  Qed.
End Spelled.

(* ------------------------------------------------------------------ *)
(* C08: Go pseudo-versions order exactly as their SemVer spelling does  *)
(* ------------------------------------------------------------------ *)

Definition num_ok (s : bytes) : Prop := nonempty_digits s = true /\ digits_val s < two63.

(* the three pseudo-version forms, syntactically (no assumption on what time.Parse says about
   the timestamp: by [pseudo_detection_irrelevant] it does not matter here).  Form 2 is
   restricted to a "pre" part that is a SemVer identifier; the Go pattern [^.]+ allows more,
   and those texts have no SemVer reading at all. *)
Inductive pseudo_spelling : bytes -> Prop :=
| PS1 ma ts h : num_ok ma -> stamp_ok ts -> rev_ok h ->
    pseudo_spelling ("v"%char :: ma ++ $".0.0-" ++ ts ++ "-"%char :: h)
| PS2 ma mi pa pr ts h : num_ok ma -> num_ok mi -> num_ok pa -> ident_ok pr = true ->
    stamp_ok ts -> rev_ok h ->
    pseudo_spelling ("v"%char :: ma ++ "."%char :: mi ++ "."%char :: pa ++ "-"%char :: pr ++ $".0." ++ ts ++ "-"%char :: h)
| PS3 ma mi pa ts h : num_ok ma -> num_ok mi -> num_ok pa -> stamp_ok ts -> rev_ok h ->
    pseudo_spelling ("v"%char :: ma ++ "."%char :: mi ++ "."%char :: pa ++ $"-0." ++ ts ++ "-"%char :: h).

Lemma ident_ok_chars a : ident_ok a = true -> forallb is_ident_char a = true.
Proof. unfold ident_ok. destruct a; [discriminate|auto]. Qed.

Lemma idents_ok_cons a r :
  forallb is_ident_char a = true -> idents_ok (a ++ "."%char :: r) = ident_ok a && idents_ok r.
Proof.
  intros H. unfold idents_ok. rewrite split_c_app_sep; [reflexivity|].
  revert H. apply forallb_impl. intros c Hc. unfold nsep. apply ident_not_dot. exact Hc.
Qed.

Lemma stamp_rev_idents_ok ts h : stamp_ok ts -> rev_ok h -> idents_ok (ts ++ "-"%char :: h) = true.
Proof.
  intros Hts Hh. apply ident_chars_idents_ok; [|apply stamp_rev_ident; assumption].
  intros E. apply app_eq_nil in E. destruct E as [_ E]. discriminate.
Qed.

Lemma pseudo_spelling_spelled s :
  pseudo_spelling s ->
  exists ma mi pa p, s = spelled ma mi pa p /\ num_ok ma /\ num_ok mi /\ num_ok pa /\ idents_ok p = true.
Proof.
  assert (Z0 : num_ok $"0") by (split; reflexivity).
  intros [ma ts h Na Hts Hh | ma mi pa pr ts h Na Nb Nc Hpr Hts Hh | ma mi pa ts h Na Nb Nc Hts Hh].
  - exists ma, $"0", $"0", (ts ++ "-"%char :: h). split; [reflexivity|].
    repeat (split; [assumption|]). apply stamp_rev_idents_ok; assumption.
  - exists ma, mi, pa, (pr ++ "."%char :: $"0" ++ "."%char :: (ts ++ "-"%char :: h)).
    split; [reflexivity|]. repeat (split; [assumption|]).
    rewrite (idents_ok_cons pr _ (ident_ok_chars pr Hpr)), Hpr.
    rewrite (idents_ok_cons $"0" _ eq_refl). rewrite (stamp_rev_idents_ok ts h Hts Hh). reflexivity.
  - exists ma, mi, pa, ($"0" ++ "."%char :: (ts ++ "-"%char :: h)).
    split; [reflexivity|]. repeat (split; [assumption|]).
    rewrite (idents_ok_cons $"0" _ eq_refl). rewrite (stamp_rev_idents_ok ts h Hts Hh). reflexivity.
Qed.

(* a pseudo-version is reference-valid and in scope, and denotes its literal SemVer reading *)
Lemma pseudo_spelling_valid s :
  pseudo_spelling s -> in_scope s = true /\ spec_valid s = true.
Proof.
  intros H. destruct (pseudo_spelling_spelled s H) as (ma & mi & pa & p & -> & [Ha Ba] & [Hb Bb] & [Hc Bc] & Hp).
  split.
  - apply spelled_in_scope; assumption.
  - unfold spec_valid. rewrite (spelled_den ma mi pa p Ha Hb Hc Hp). reflexivity.
Qed.

(* property C08 for golang: a pseudo-version compares with any (in-scope, reference-valid)
   version — in particular with another pseudo-version or a tagged release / pre-release —
   exactly as SemVer section 11 orders their literal spellings *)
Corollary golang_pseudo_orders_as_semver a b :
  pseudo_spelling a -> in_scope b = true -> spec_valid b = true ->
  v_cmp Entry.v a b = spec_cmp a b /\ v_cmp Entry.v b a = spec_cmp b a.
Proof.
  intros Ha Sb Vb. destruct (pseudo_spelling_valid a Ha) as [Sa Va].
  split; apply golang_cmp_is_spec; assumption.
Qed.

Corollary golang_pseudo_pair_orders_as_semver a b :
  pseudo_spelling a -> pseudo_spelling b -> v_cmp Entry.v a b = spec_cmp a b.
Proof.
  intros Ha Hb. destruct (pseudo_spelling_valid b Hb) as [Sb Vb].
  apply (golang_pseudo_orders_as_semver a b Ha Sb Vb).
Qed.

(* what the spelling means: the pseudo-version sorts below the release it is spelled on, and
   two pseudo-versions on the same base sort by timestamp text, then revision (witnesses) *)
Lemma pseudo_examples :
  spec_cmp $"v1.2.3-0.20190101000000-abcdef123456" $"v1.2.3" = Some Lt /\
  v_cmp Entry.v $"v1.2.3-0.20190101000000-abcdef123456" $"v1.2.3" = Some Lt /\
  v_cmp Entry.v $"v1.2.3-0.20190101000000-abcdef123456" $"v1.2.3-0.20190101000001-000000000000" = Some Lt /\
  v_cmp Entry.v $"v1.2.3-rc1.0.20190101000000-abcdef123456" $"v1.2.3-rc1" = Some Gt /\
  v_cmp Entry.v $"v1.0.0-20190101000000-abcdef123456" $"v1.0.0-0.20190101000000-abcdef123456" = Some Gt.
Proof. vm_compute. auto 10. Qed.

(* ------------------------------------------------------------------ *)
(* the scope contains every version whose components have <= 18 digits *)
(* ------------------------------------------------------------------ *)

Definition in_scope18 (s : bytes) : bool :=
  forallb (fun p => (length p <=? 18)%nat) (split_c "."%char (spec_core s)).

Lemma digits_le18 p :
  nonempty_digits p = true -> (length p <=? 18)%nat = true -> digits_val p <? two63 = true.
Proof.
  intros H L. apply Nat.leb_le in L. apply N.ltb_lt.
  assert (D : forallb is_digit p = true).
  { unfold nonempty_digits in H. destruct p; [reflexivity|exact H]. }
  pose proof (digits_val_bound p D) as B. pose proof (pow10_mono _ _ L) as M.
  assert (K : 10 ^ N.of_nat 18 < two63) by reflexivity. lia.
Qed.

Lemma in_scope18_in_scope s : spec_valid s = true -> in_scope18 s = true -> in_scope s = true.
Proof.
  unfold spec_valid, in_scope18, in_scope, spec_core. rewrite den_golang_unfold.
  destruct (SemVer.parse_loose 3 3 (trim_prefix $"v" s)) as [v|] eqn:D; [|discriminate]. intros _.
  destruct (den_structure _ v D) as (ma & mi & pa & pp & pt & bp & _ & Hs & Hma & Hmi & Hpa & _).
  rewrite Hs. cbn [forallb]. intros H.
  apply andb_prop in H. destruct H as [La H]. apply andb_prop in H. destruct H as [Lb H].
  apply andb_prop in H. destruct H as [Lc _].
  rewrite (digits_le18 ma Hma La), (digits_le18 mi Hmi Lb), (digits_le18 pa Hpa Lc). reflexivity.
Qed.

Corollary golang_cmp_is_spec_18 a b :
  in_scope18 a = true -> in_scope18 b = true -> spec_valid a = true -> spec_valid b = true ->
  v_cmp Entry.v a b = spec_cmp a b.
Proof.
  intros Sa Sb Va Vb. apply golang_cmp_is_spec; try assumption; apply in_scope18_in_scope; assumption.
Qed.

Print Assumptions golang_cmp_is_spec.
Print Assumptions golang_accepts_spec_valid.
Print Assumptions golang_accepts_refuted.
Print Assumptions golang_cmp_refuted.
Print Assumptions golang_pseudo_orders_as_semver.
Print Assumptions golang_pseudo_pair_orders_as_semver.
Print Assumptions pseudo_spelling_valid.
Print Assumptions golang_cmp_is_spec_18.
Print Assumptions spec_registered.
Print Assumptions den_no_space.
