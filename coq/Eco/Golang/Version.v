(* Eco/Golang/Version.v — model of pkg/ecosystem/golang/version.go (definitions only).

   NewVersion: TrimSpace; reject ""; prepend "v" unless the text starts with "v"; try the three
   pseudo-version patterns (in order; a syntactic match whose 14-digit timestamp is rejected by
   time.Parse("20060102150405", ...) makes parsePseudoVersion fail as a whole); otherwise the
   SemVer pattern and strconv.Atoi on the three numbers.

   Compare: major, minor, patch as ints, then comparePrerelease on the SemVer pre-release text.
   For a pseudo-version that text is re-read from TrimSpace(original): everything after the
   first "-" up to the first "+" (pattern 2's [^.]+ may contain "+", spaces, ...). *)
From Verif.Base Require Import Bytes GoNum.
From Verif.Eco Require Import VLayer.
Local Open Scope N_scope.

Record core := { major : Z; minor : Z; patch : Z; pre : bytes }.

(* ---------- scanners for the anchored patterns ---------- *)

(* (\d+)\. *)
Definition num_dot (s : bytes) : option (bytes * bytes) :=
  match take_while is_digit s, drop_while is_digit s with
  | (_ :: _) as d, c :: r => if ceqb c "."%char then Some (d, r) else None
  | _, _ => None
  end.

(* (\d+)\.(\d+)\.(\d+) and the remaining text; the text is the one after the leading "v" *)
Definition split_mmp (body : bytes) : option (bytes * bytes * bytes * bytes) :=
  match num_dot body with
  | Some (ma, r1) =>
      match num_dot r1 with
      | Some (mi, r2) =>
          match take_while is_digit r2 with
          | [] => None
          | pa => Some (ma, mi, pa, drop_while is_digit r2)
          end
      | None => None
      end
  | None => None
  end.

Definition is_hex_lower (c : ascii) : bool := is_digit c || in_range 97 102 c.
Definition not_dot (c : ascii) : bool := negb (ceqb c "."%char).
Definition not_plus (c : ascii) : bool := negb (ceqb c "+"%char).

(* (\d{14})-([a-f0-9]{12})$ : the timestamp text *)
Definition stamp_rev (s : bytes) : option bytes :=
  let ts := firstn 14 s in
  if (length ts =? 14)%nat && all_digits ts then
    match skipn 14 s with
    | c :: h =>
        if ceqb c "-"%char && (length h =? 12)%nat && forallb is_hex_lower h
        then Some ts else None
    | [] => None
    end
  else None.

(* pseudoPattern1: ^v(\d+)\.0\.0-(\d{14})-([a-f0-9]{12})$        (x = text after the "-") *)
Definition pseudo1 (mi pa x : bytes) : option bytes :=
  if beq mi $"0" && beq pa $"0" then stamp_rev x else None.
(* pseudoPattern2: ^v(\d+)\.(\d+)\.(\d+)-([^.]+)\.0\.(\d{14})-([a-f0-9]{12})$ *)
Definition pseudo2 (x : bytes) : option bytes :=
  match take_while not_dot x with
  | [] => None
  | _ => match strip_prefix $".0." (drop_while not_dot x) with
         | Some z => stamp_rev z
         | None => None
         end
  end.
(* pseudoPattern3: ^v(\d+)\.(\d+)\.(\d+)-0\.(\d{14})-([a-f0-9]{12})$ *)
Definition pseudo3 (x : bytes) : option bytes :=
  match strip_prefix $"0." x with
  | Some z => stamp_rev z
  | None => None
  end.

(* the timestamp text of the first pseudo-version pattern that matches syntactically *)
Definition pseudo_stamp (mi pa rest : bytes) : option bytes :=
  match rest with
  | c :: x =>
      if ceqb c "-"%char then
        match pseudo1 mi pa x with
        | Some ts => Some ts
        | None =>
            match pseudo2 x with
            | Some ts => Some ts
            | None => pseudo3 x
            end
        end
      else None
  | [] => None
  end.

(* ---------- time.Parse("20060102150405", ts) succeeds, ts being 14 digits ---------- *)

Definition is_leap (y : N) : bool :=
  (y mod 4 =? 0) && (negb (y mod 100 =? 0) || (y mod 400 =? 0)).
Definition days_in (m y : N) : N :=
  if m =? 2 then (if is_leap y then 29 else 28)
  else if (m =? 4) || (m =? 6) || (m =? 9) || (m =? 11) then 30
  else 31.
Definition num2 (i : nat) (ts : bytes) : N := digits_val (firstn 2 (skipn i ts)).

(* year 0000-9999 (any four digits), month 01-12, day valid for the month (leap years),
   hour 00-23, minute and second 00-59 *)
Definition calendar_ok (y mo d h mi s : N) : bool :=
  (1 <=? mo) && (mo <=? 12) && (1 <=? d) && (d <=? days_in mo y)
  && (h <? 24) && (mi <? 60) && (s <? 60).
Definition time_ok (ts : bytes) : bool :=
  calendar_ok (digits_val (firstn 4 ts)) (num2 4 ts) (num2 6 ts) (num2 8 ts) (num2 10 ts) (num2 12 ts).

(* ---------- the SemVer pattern's tail ---------- *)

Definition is_ident_char (c : ascii) : bool := is_alnum c || ceqb c "-"%char.
Definition ident_ok (p : bytes) : bool :=
  match p with [] => false | _ => forallb is_ident_char p end.
(* [0-9A-Za-z-]+(?:\.[0-9A-Za-z-]+)* *)
Definition idents_ok (s : bytes) : bool := forallb ident_ok (split_c "."%char s).

(* (?:-(pre))?(?:\+(build))?$ : the pre-release text *)
Definition semver_tail (rest : bytes) : option bytes :=
  match rest with
  | [] => Some []
  | c :: x =>
      if ceqb c "-"%char then
        let p := take_while not_plus x in
        if idents_ok p then
          match drop_while not_plus x with
          | [] => Some p
          | _ :: b => if idents_ok b then Some p else None
          end
        else None
      else if ceqb c "+"%char then (if idents_ok x then Some [] else None)
      else None
  end.

(* semverPrerelease of a pseudo-version: after the first "-", up to the first "+" *)
Definition pseudo_pre (rest : bytes) : bytes :=
  match rest with
  | _ :: x => take_while not_plus x
  | [] => []
  end.

Definition is_pseudo (mi pa rest : bytes) : bool :=
  match pseudo_stamp mi pa rest with
  | Some ts => time_ok ts
  | None => false
  end.

(* the text after the leading "v" *)
Definition parse_body (body : bytes) : option core :=
  match split_mmp body with
  | None => None
  | Some (ma, mi, pa, rest) =>
      if is_pseudo mi pa rest then
        (* Atoi errors ignored *)
        Some {| major := atoi_sat ma; minor := atoi_sat mi; patch := atoi_sat pa;
                pre := pseudo_pre rest |}
      else
        match semver_tail rest with
        | None => None
        | Some p =>
            match atoi ma, atoi mi, atoi pa with
            | Some x, Some y, Some z => Some {| major := x; minor := y; patch := z; pre := p |}
            | _, _, _ => None
            end
        end
  end.

Definition parse_core (t : bytes) : option core :=
  match t with
  | [] => None
  | c :: r => parse_body (if ceqb c "v"%char then r else t)
  end.

(* ---------- Compare ---------- *)

(* strings.TrimLeft(a, "0123456789") == "" *)
Definition is_num_ident (s : bytes) : bool :=
  match drop_while is_digit s with [] => true | _ => false end.

Definition compare_identifier (a b : bytes) : comparison :=
  if is_num_ident a then (if is_num_ident b then digits_cmp a b else Lt)
  else if is_num_ident b then Gt
  else bytes_cmp a b.

Definition compare_prerelease (a b : bytes) : comparison :=
  match a, b with
  | [], [] => Eq
  | [], _ => Gt
  | _, [] => Lt
  | _, _ => lex_short compare_identifier (split_c "."%char a) (split_c "."%char b)
  end.

Definition cmp_core : core -> core -> comparison :=
  lexc (cmp_on major Z.compare)
    (lexc (cmp_on minor Z.compare)
       (lexc (cmp_on patch Z.compare)
          (cmp_on pre compare_prerelease))).

Definition raw_orig := true.

Definition ver := VLayer.ver core.
Definition parse : bytes -> option ver := VLayer.parse parse_core raw_orig.
Definition cmp : ver -> ver -> comparison := VLayer.cmp cmp_core.
Definition show : ver -> bytes := VLayer.show.
