(* Eco/Golang/VersionFacts.v — C01 (Compare is a total preorder on every core value) and the
   C03 lemmas for pkg/ecosystem/golang. *)
From Coq Require Import Lia.
From Verif.Base Require Import Bytes BytesFacts GoNum Ord.
From Verif.Eco.Golang Require Import DecFacts.
From Verif.Eco Require Import VLayer VLayerFacts.
From Verif.Eco.Golang Require Import Version.
Local Open Scope N_scope.

(* ---------- C01 ---------- *)

(* compareIdentifier as a combination of the order combinators: numeric identifiers first,
   numeric ones by value, the others bytewise *)
Definition ident_cmp_comb : bytes -> bytes -> comparison :=
  lexc (cmp_on (fun s => negb (is_num_ident s)) bool_cmp)
    (lexc (cmp_on (fun s => if is_num_ident s then s else []) digits_cmp)
          (cmp_on (fun s => if is_num_ident s then [] else s) bytes_cmp)).

Lemma compare_identifier_comb a b : compare_identifier a b = ident_cmp_comb a b.
Proof.
  unfold compare_identifier, ident_cmp_comb, lexc, cmp_on.
  destruct (is_num_ident a), (is_num_ident b); cbn [negb bool_cmp thenc].
  - destruct (digits_cmp a b); reflexivity.
  - reflexivity.
  - reflexivity.
  - reflexivity.
Qed.

Lemma TP_compare_identifier : TotalPreorder compare_identifier.
Proof.
  apply (TP_ext _ _ _ compare_identifier_comb).
  apply TP_lexc; [apply TP_on, TP_bool|].
  apply TP_lexc; apply TP_on; [apply TP_digits_cmp|apply TP_bytes_cmp].
Qed.

(* comparePrerelease: "" (a release) is greatest, otherwise identifier lists, prefix first *)
Definition pre_key (s : bytes) : option (list bytes) :=
  match s with [] => None | _ => Some (split_c "."%char s) end.

Lemma compare_prerelease_key a b :
  compare_prerelease a b = cmp_on pre_key (opt_last (lex_short compare_identifier)) a b.
Proof. destruct a, b; reflexivity. Qed.

Lemma TP_compare_prerelease : TotalPreorder compare_prerelease.
Proof.
  apply (TP_ext _ _ _ compare_prerelease_key).
  apply TP_on, TP_opt_last, TP_lex_short, TP_compare_identifier.
Qed.

Lemma cmp_core_tp : TotalPreorder cmp_core.
Proof.
  unfold cmp_core.
  repeat apply TP_lexc; apply TP_on; try apply TP_Z. apply TP_compare_prerelease.
Qed.

Lemma cmp_tp : TotalPreorder cmp.
Proof. apply VLayerFacts.cmp_tp, cmp_core_tp. Qed.

(* ---------- C03: X.Y.Z compares as the integer triple ---------- *)

Definition dots3 (a b c : N) : bytes := dec a ++ "."%char :: dec b ++ "."%char :: dec c.

Lemma dots3_join a b c : join $"." (map dec [a; b; c]) = dots3 a b c.
Proof. reflexivity. Qed.

Definition no_digit_hd (r : bytes) : bool :=
  match r with [] => true | c :: _ => negb (is_digit c) end.

Lemma take_digits_end (a r : bytes) :
  forallb is_digit a = true -> no_digit_hd r = true ->
  take_while is_digit (a ++ r) = a /\ drop_while is_digit (a ++ r) = r.
Proof.
  intros Ha Hr. destruct r as [|c r].
  - rewrite app_nil_r. split; [apply take_while_all|apply drop_while_all]; exact Ha.
  - apply take_digits_stop; [exact Ha|]. simpl in Hr. destruct (is_digit c); [discriminate|reflexivity].
Qed.

Lemma num_dot_dec n r : num_dot (dec n ++ "."%char :: r) = Some (dec n, r).
Proof.
  unfold num_dot.
  destruct (take_digits_stop (dec n) r "."%char (dec_digits n) eq_refl) as [Ht Hd].
  rewrite Ht, Hd. pose proof (dec_nonempty n) as Hne.
  destruct (dec n); [contradiction|reflexivity].
Qed.

Lemma split_mmp_dots a b c rest :
  no_digit_hd rest = true ->
  split_mmp (dots3 a b c ++ rest) = Some (dec a, dec b, dec c, rest).
Proof.
  intros Hr. unfold split_mmp, dots3.
  rewrite <- app_assoc. cbn [app]. rewrite num_dot_dec.
  rewrite <- app_assoc. cbn [app]. rewrite num_dot_dec.
  destruct (take_digits_end (dec c) rest (dec_digits c) Hr) as [Ht Hd].
  rewrite Ht, Hd. pose proof (dec_nonempty c) as Hne.
  destruct (dec c); [contradiction|reflexivity].
Qed.

(* a text that starts with a digit has no "v" to strip *)
Lemma parse_core_digit_hd t :
  match t with c :: _ => is_digit c | [] => false end = true -> parse_core t = parse_body t.
Proof.
  destruct t as [|c r]; [discriminate|]. intros H. unfold parse_core.
  rewrite (digit_not c "v"%char H eq_refl). reflexivity.
Qed.

Lemma parse_core_v t : parse_core ("v"%char :: t) = parse_body t.
Proof. reflexivity. Qed.

Lemma dots3_digit_hd a b c rest :
  match dots3 a b c ++ rest with ch :: _ => is_digit ch | [] => false end = true.
Proof.
  unfold dots3. pose proof (dec_nonempty a) as Hne. pose proof (dec_digits a) as D.
  destruct (dec a) as [|d ds]; [contradiction|].
  cbn [app]. cbn [forallb] in D. apply andb_prop in D. apply D.
Qed.

Definition mk (a b c : N) (p : bytes) : core :=
  {| major := Z.of_N a; minor := Z.of_N b; patch := Z.of_N c; pre := p |}.

Lemma parse_body_release a b c :
  a < two63 -> b < two63 -> c < two63 ->
  parse_body (dots3 a b c) = Some (mk a b c []).
Proof.
  intros Ha Hb Hc. unfold parse_body.
  rewrite <- (app_nil_r (dots3 a b c)), (split_mmp_dots a b c [] eq_refl).
  cbn [is_pseudo pseudo_stamp semver_tail].
  rewrite !atoi_dec by assumption. reflexivity.
Qed.

(* property C03, numbers: both spellings (with and without "v") of X.Y.Z parse, and Compare
   is the lexicographic comparison of the integer triples (the bound is where Atoi rejects) *)
Theorem c03_release_parses a b c :
  a < two63 -> b < two63 -> c < two63 ->
  parse_core (dots3 a b c) = Some (mk a b c []) /\
  parse_core ("v"%char :: dots3 a b c) = Some (mk a b c []).
Proof.
  intros Ha Hb Hc. split.
  - rewrite parse_core_digit_hd.
    + apply parse_body_release; assumption.
    + rewrite <- (app_nil_r (dots3 a b c)). apply dots3_digit_hd.
  - rewrite parse_core_v. apply parse_body_release; assumption.
Qed.

Lemma cmp_core_mk a b c p a' b' c' p' :
  cmp_core (mk a b c p) (mk a' b' c' p') =
  thenc (a ?= a') (thenc (b ?= b') (thenc (c ?= c') (compare_prerelease p p'))).
Proof.
  unfold cmp_core, lexc, cmp_on, mk. cbn [major minor patch pre].
  rewrite <- !N2Z.inj_compare. reflexivity.
Qed.

Theorem c03_tuples t1 t2 :
  length t1 = 3%nat -> length t2 = 3%nat ->
  Forall (fun x => x < 2 ^ 31) t1 -> Forall (fun x => x < 2 ^ 31) t2 ->
  exists v1 v2,
    parse_core (join $"." (map dec t1)) = Some v1 /\
    parse_core (join $"." (map dec t2)) = Some v2 /\
    cmp_core v1 v2 = lex_short N.compare t1 t2.
Proof.
  intros L1 L2 F1 F2.
  destruct t1 as [|a [|b [|c [|]]]]; try discriminate.
  destruct t2 as [|a' [|b' [|c' [|]]]]; try discriminate.
  assert (B : 2 ^ 31 < two63) by reflexivity.
  repeat match goal with H : Forall _ (_ :: _) |- _ => inversion H; clear H; subst end.
  exists (mk a b c []), (mk a' b' c' []).
  rewrite !dots3_join.
  split; [apply c03_release_parses; lia|].
  split; [apply c03_release_parses; lia|].
  rewrite cmp_core_mk. cbn [lex_short compare_prerelease]. reflexivity.
Qed.

(* the same with the bound at which Atoi starts to reject *)
Theorem c03_tuples_int64 a b c a' b' c' :
  a < two63 -> b < two63 -> c < two63 -> a' < two63 -> b' < two63 -> c' < two63 ->
  exists v1 v2,
    parse_core ("v"%char :: dots3 a b c) = Some v1 /\
    parse_core ("v"%char :: dots3 a' b' c') = Some v2 /\
    cmp_core v1 v2 = lex_short N.compare [a; b; c] [a'; b'; c'].
Proof.
  intros. exists (mk a b c []), (mk a' b' c' []).
  split; [apply c03_release_parses; assumption|].
  split; [apply c03_release_parses; assumption|].
  rewrite cmp_core_mk. reflexivity.
Qed.

(* three components is the only arity NewVersion accepts *)
Lemma dec_digit_hd a rest :
  match dec a ++ rest with ch :: _ => is_digit ch | [] => false end = true.
Proof.
  pose proof (dec_nonempty a) as Hne. pose proof (dec_digits a) as D.
  destruct (dec a) as [|d ds]; [contradiction|].
  cbn [app]. cbn [forallb] in D. apply andb_prop in D. apply D.
Qed.

Lemma num_dot_dec_end n : num_dot (dec n) = None.
Proof.
  unfold num_dot. rewrite (drop_while_all _ _ (dec_digits n)).
  destruct (take_while is_digit (dec n)); reflexivity.
Qed.

Lemma join_dot_cons2 (x y : bytes) l :
  join $"." (x :: y :: l) = x ++ "."%char :: join $"." (y :: l).
Proof. reflexivity. Qed.

Theorem c03_arity t : length t <> 3%nat -> parse_core (join $"." (map dec t)) = None.
Proof.
  intros L. destruct t as [|a [|b [|c [|d t]]]]; cbn [map].
  - reflexivity.
  - cbn [join]. rewrite parse_core_digit_hd.
    + unfold parse_body, split_mmp. rewrite num_dot_dec_end. reflexivity.
    + rewrite <- (app_nil_r (dec a)). apply dec_digit_hd.
  - rewrite join_dot_cons2. cbn [join]. rewrite parse_core_digit_hd by apply dec_digit_hd.
    unfold parse_body, split_mmp. rewrite num_dot_dec, num_dot_dec_end. reflexivity.
  - contradiction L. reflexivity.
  - rewrite !join_dot_cons2. rewrite parse_core_digit_hd by apply dec_digit_hd.
    set (J := join _ _).
    change (dec a ++ "."%char :: dec b ++ "."%char :: dec c ++ "."%char :: J)
      with (dec a ++ "."%char :: dec b ++ "."%char :: (dec c ++ "."%char :: J)).
    unfold parse_body, split_mmp. rewrite !num_dot_dec.
    destruct (take_digits_stop (dec c) J "."%char (dec_digits c) eq_refl) as [Ht Hd].
    rewrite Ht, Hd. pose proof (dec_nonempty c) as Hne.
    destruct (dec c) eqn:E; [contradiction|]. reflexivity.
Qed.

(* ---------- C03: pre-release texts sort before the release, build metadata is ignored ---------- *)

Lemma split_segments_chars (q : ascii -> bool) sep (s : bytes) :
  forallb (fun seg => forallb q seg) (split_c sep s) = true ->
  forallb (fun c => ceqb sep c || q c) s = true.
Proof.
  induction s as [|c s IH]; [reflexivity|].
  cbn [split_c forallb]. destruct (ceqb sep c) eqn:E.
  - cbn [forallb orb]. intros H. apply IH. exact H.
  - cbn [orb]. destruct (split_c sep s) as [|f fs].
    + cbn [forallb]. intros H. rewrite andb_true_r in H. apply andb_prop in H.
      destruct H as [H _]. rewrite H. apply IH. reflexivity.
    + cbn [forallb]. intros H. apply andb_prop in H. destruct H as [H1 H2].
      apply andb_prop in H1. destruct H1 as [Hc Hf]. rewrite Hc. apply IH.
      cbn [forallb]. rewrite Hf, H2. reflexivity.
Qed.

Lemma forallb_impl {A} (p q : A -> bool) l :
  (forall x, p x = true -> q x = true) -> forallb p l = true -> forallb q l = true.
Proof.
  intros I. induction l as [|x l IH]; [reflexivity|]. cbn [forallb]. intros H.
  apply andb_prop in H. destruct H as [Hx Hl]. rewrite (I x Hx), (IH Hl). reflexivity.
Qed.

Lemma idents_ok_no_plus p : idents_ok p = true -> forallb not_plus p = true.
Proof.
  intros H. unfold idents_ok in H.
  assert (H' : forallb (fun seg => forallb is_ident_char seg) (split_c "."%char p) = true).
  { revert H. apply forallb_impl. intros seg. unfold ident_ok. destruct seg; [discriminate|auto]. }
  apply split_segments_chars in H'. revert H'. apply forallb_impl.
  intros c Hc. unfold not_plus. destruct (ceqb c "+"%char) eqn:E; [|reflexivity].
  apply ceqb_eq in E. subst c. discriminate.
Qed.

Lemma idents_ok_nonempty p : idents_ok p = true -> p <> [].
Proof. intros H E. subst. discriminate. Qed.

Lemma parse_body_prerelease a b c p :
  a < two63 -> b < two63 -> c < two63 -> idents_ok p = true ->
  parse_body (dots3 a b c ++ "-"%char :: p) = Some (mk a b c p).
Proof.
  intros Ha Hb Hc Hp. unfold parse_body.
  rewrite (split_mmp_dots a b c ("-"%char :: p) eq_refl).
  pose proof (idents_ok_no_plus p Hp) as NP.
  destruct (is_pseudo (dec b) (dec c) ("-"%char :: p)).
  - cbn [pseudo_pre]. rewrite (take_while_all _ _ NP), !atoi_sat_dec by assumption. reflexivity.
  - unfold semver_tail. cbn [ceqb]. change (ceqb "-"%char "-"%char) with true. cbv iota.
    rewrite (take_while_all _ _ NP), (drop_while_all _ _ NP), Hp.
    rewrite !atoi_dec by assumption. reflexivity.
Qed.

Lemma parse_body_build a b c bld :
  a < two63 -> b < two63 -> c < two63 -> idents_ok bld = true ->
  parse_body (dots3 a b c ++ "+"%char :: bld) = Some (mk a b c []).
Proof.
  intros Ha Hb Hc Hp. unfold parse_body.
  rewrite (split_mmp_dots a b c ("+"%char :: bld) eq_refl).
  change (is_pseudo (dec b) (dec c) ("+"%char :: bld)) with false. cbv iota.
  unfold semver_tail. change (ceqb "+"%char "-"%char) with false.
  change (ceqb "+"%char "+"%char) with true. cbv iota. rewrite Hp.
  rewrite !atoi_dec by assumption. reflexivity.
Qed.

Lemma compare_prerelease_nonempty_nil p : p <> [] -> compare_prerelease p [] = Lt.
Proof. destruct p; [contradiction|reflexivity]. Qed.

(* every SemVer pre-release text (this includes the "0.<timestamp>-<revision>" of a form-3
   pseudo-version, which is why the model may take either branch) orders vX.Y.Z-p before vX.Y.Z *)
Theorem c03_prerelease_lt a b c p :
  a < two63 -> b < two63 -> c < two63 -> idents_ok p = true ->
  exists v1 v2,
    parse_core ("v"%char :: dots3 a b c ++ "-"%char :: p) = Some v1 /\
    parse_core ("v"%char :: dots3 a b c) = Some v2 /\
    cmp_core v1 v2 = Lt /\ cmp_core v2 v1 = Gt.
Proof.
  intros Ha Hb Hc Hp. exists (mk a b c p), (mk a b c []).
  rewrite !parse_core_v.
  split; [apply parse_body_prerelease; assumption|].
  split; [apply parse_body_release; assumption|].
  rewrite !cmp_core_mk, !N.compare_refl. cbn [thenc].
  pose proof (idents_ok_nonempty p Hp) as Hne.
  destruct p; [contradiction|]. split; reflexivity.
Qed.

(* build metadata does not take part in Compare *)
Theorem c03_build_eq a b c bld :
  a < two63 -> b < two63 -> c < two63 -> idents_ok bld = true ->
  exists v1 v2,
    parse_core ("v"%char :: dots3 a b c ++ "+"%char :: bld) = Some v1 /\
    parse_core ("v"%char :: dots3 a b c) = Some v2 /\
    cmp_core v1 v2 = Eq.
Proof.
  intros Ha Hb Hc Hp. exists (mk a b c []), (mk a b c []).
  rewrite !parse_core_v.
  split; [apply parse_body_build; assumption|].
  split; [apply parse_body_release; assumption|].
  apply (tp_refl cmp_core_tp).
Qed.

(* golang has no post-release markers. *)

(* ---------- identifiers: numeric ones by value and below alphanumeric ones ---------- *)

Lemma is_num_ident_dec n : is_num_ident (dec n) = true.
Proof. unfold is_num_ident. rewrite (drop_while_all _ _ (dec_digits n)). reflexivity. Qed.

Lemma compare_identifier_numeric_alnum a b :
  is_num_ident a = true -> is_num_ident b = false -> compare_identifier a b = Lt.
Proof. intros Ha Hb. unfold compare_identifier. rewrite Ha, Hb. reflexivity. Qed.

(* ---------- pseudo-versions: witnesses (vm_compute) ---------- *)

(* the verdict of time.Parse is observable: with an overflowing major only the pseudo-version
   path (which ignores the Atoi error) can accept *)
Lemma pseudo_leap_day_accepted :
  parse_core $"v99999999999999999999.0.0-20000229000000-abcdef123456" =
  Some {| major := max_int64; minor := 0; patch := 0; pre := $"20000229000000-abcdef123456" |}.
Proof. vm_compute. reflexivity. Qed.

Lemma pseudo_non_leap_day_rejected :
  parse_core $"v99999999999999999999.0.0-19000229000000-abcdef123456" = None.
Proof. vm_compute. reflexivity. Qed.

(* form 2: the part before ".0." is [^.]+ ; a "+" in it truncates the pre-release that Compare
   sees, down to the empty string, which Compare treats as "release" *)
Lemma pseudo_plus_is_release :
  exists v1 v2,
    parse_core $"v1.2.3-+.0.20190101000000-abcdef123456" = Some v1 /\
    parse_core $"v1.2.3" = Some v2 /\ cmp_core v1 v2 = Eq.
Proof. eexists. eexists. split; [vm_compute; reflexivity|]. split; vm_compute; reflexivity. Qed.

(* ---------- the pseudo-version branch only matters outside the SemVer pattern ---------- *)

Lemma atoi_sat_of_atoi s x : atoi s = Some x -> atoi_sat s = x.
Proof.
  unfold atoi, atoi_sat. destruct s as [|c r]; [discriminate|].
  cbv zeta.
  destruct (ceqb c "-"%char).
  - destruct (nonempty_digits r); [|discriminate].
    destruct (digits_val r <=? two63); [|discriminate]. congruence.
  - match goal with |- context [nonempty_digits ?d] => set (D := d) end.
    destruct (nonempty_digits D); [|discriminate].
    destruct (digits_val D <? two63); [|discriminate].
    congruence.
Qed.

(* Whenever the SemVer pattern and Atoi accept the text, the result (hence Compare) is the
   same whether or not one of the pseudo-version patterns matched and whatever time.Parse
   said about the timestamp: the pseudo-version path is observable only on texts with a
   number beyond int64 or, for form 2, a byte outside [0-9A-Za-z-+] before ".0.". *)
Theorem pseudo_detection_irrelevant body ma mi pa rest p x y z :
  split_mmp body = Some (ma, mi, pa, rest) ->
  semver_tail rest = Some p ->
  atoi ma = Some x -> atoi mi = Some y -> atoi pa = Some z ->
  parse_body body = Some {| major := x; minor := y; patch := z; pre := p |}.
Proof.
  intros Hs Ht Hx Hy Hz. unfold parse_body. rewrite Hs.
  destruct (is_pseudo mi pa rest) eqn:P.
  - rewrite (atoi_sat_of_atoi _ _ Hx), (atoi_sat_of_atoi _ _ Hy), (atoi_sat_of_atoi _ _ Hz).
    do 2 f_equal.
    unfold is_pseudo, pseudo_stamp in P. destruct rest as [|c r]; [discriminate|].
    unfold semver_tail in Ht. destruct (ceqb c "-"%char); [|discriminate].
    cbn [pseudo_pre]. destruct (idents_ok (take_while not_plus r)); [|discriminate].
    destruct (drop_while not_plus r) as [|c' b]; [congruence|].
    destruct (idents_ok b); [congruence|discriminate].
  - rewrite Ht, Hx, Hy, Hz. reflexivity.
Qed.

(* ---------- form-1 pseudo-versions: the role of the calendar predicate ---------- *)

Definition stamp_ok (ts : bytes) : Prop := length ts = 14%nat /\ all_digits ts = true.
Definition rev_ok (h : bytes) : Prop := length h = 12%nat /\ forallb is_hex_lower h = true.

Lemma stamp_rev_ok ts h : stamp_ok ts -> rev_ok h -> stamp_rev (ts ++ "-"%char :: h) = Some ts.
Proof.
  intros [L D] [L2 H2]. unfold stamp_rev.
  assert (F : firstn 14 (ts ++ "-"%char :: h) = ts).
  { rewrite <- L. rewrite firstn_app, Nat.sub_diag, firstn_all. simpl. apply app_nil_r. }
  assert (S : skipn 14 (ts ++ "-"%char :: h) = "-"%char :: h).
  { rewrite <- L. rewrite skipn_app, Nat.sub_diag, skipn_all. reflexivity. }
  rewrite F, S, L, D, L2, H2. reflexivity.
Qed.

Lemma num_dot_digits d r : nonempty_digits d = true -> num_dot (d ++ "."%char :: r) = Some (d, r).
Proof.
  intros H. unfold nonempty_digits in H. destruct d as [|c d]; [discriminate|].
  unfold num_dot.
  destruct (take_digits_stop (c :: d) r "."%char H eq_refl) as [Ht Hd].
  rewrite Ht, Hd. reflexivity.
Qed.

Lemma split_c_no_sep sep s :
  forallb (fun c => negb (ceqb sep c)) s = true -> split_c sep s = [s].
Proof.
  induction s as [|c s IH]; [reflexivity|]. cbn [forallb split_c]. intros H.
  apply andb_prop in H. destruct H as [Hc Hs]. apply negb_true_iff in Hc.
  rewrite Hc, (IH Hs). reflexivity.
Qed.

Lemma hex_ident c : is_hex_lower c = true -> is_ident_char c = true.
Proof.
  unfold is_hex_lower, is_ident_char, is_alnum, is_letter, is_lower.
  destruct (is_digit c); [reflexivity|]. cbn [orb]. unfold in_range.
  intros H. apply andb_prop in H. destruct H as [H1 H2]. rewrite H1. cbn [andb].
  apply N.leb_le in H2.
  assert (E : (code c <=? 122) = true) by (apply N.leb_le; lia).
  rewrite E. reflexivity.
Qed.

Lemma digit_ident c : is_digit c = true -> is_ident_char c = true.
Proof. unfold is_ident_char, is_alnum. intros H. rewrite H. reflexivity. Qed.

Lemma ident_not_dot c : is_ident_char c = true -> negb (ceqb "."%char c) = true.
Proof.
  intros H. destruct (ceqb "."%char c) eqn:E; [|reflexivity].
  apply ceqb_eq in E. subst c. discriminate.
Qed.

Lemma ident_chars_idents_ok s :
  s <> [] -> forallb is_ident_char s = true -> idents_ok s = true.
Proof.
  intros Hne H. unfold idents_ok.
  rewrite split_c_no_sep.
  - cbn [forallb]. unfold ident_ok. destruct s; [contradiction|]. rewrite H. reflexivity.
  - revert H. apply forallb_impl. apply ident_not_dot.
Qed.

Lemma stamp_rev_ident ts h :
  stamp_ok ts -> rev_ok h -> forallb is_ident_char (ts ++ "-"%char :: h) = true.
Proof.
  intros [_ D] [_ H]. rewrite forallb_app. cbn [forallb].
  unfold all_digits in D.
  rewrite (forallb_impl _ _ _ digit_ident D), (forallb_impl _ _ _ hex_ident H). reflexivity.
Qed.

(* vX.0.0-<timestamp>-<revision>: accepted as a pseudo-version exactly when the timestamp is a
   calendar date and time; otherwise the text is read as SemVer, which gives the same value
   unless X overflows int64 (then: rejected) *)
Theorem pseudo_form1 ma ts h :
  nonempty_digits ma = true -> stamp_ok ts -> rev_ok h ->
  parse_core ("v"%char :: ma ++ $".0.0-" ++ ts ++ "-"%char :: h) =
  if time_ok ts
  then Some {| major := atoi_sat ma; minor := 0; patch := 0; pre := ts ++ "-"%char :: h |}
  else option_map (fun x => {| major := x; minor := 0; patch := 0; pre := ts ++ "-"%char :: h |})
         (atoi ma).
Proof.
  intros Hma Hts Hh. rewrite parse_core_v.
  set (P := ts ++ "-"%char :: h).
  assert (HS : split_mmp (ma ++ $".0.0-" ++ P) = Some (ma, $"0", $"0", "-"%char :: P)).
  { unfold split_mmp.
    change (ma ++ $".0.0-" ++ P) with (ma ++ "."%char :: ($"0" ++ "."%char :: ($"0" ++ "-"%char :: P))).
    rewrite (num_dot_digits ma _ Hma). rewrite (num_dot_digits $"0" _ eq_refl).
    destruct (take_digits_end $"0" ("-"%char :: P) eq_refl eq_refl) as [Ht Hd].
    rewrite Ht, Hd. reflexivity. }
  pose proof (stamp_rev_ident ts h Hts Hh) as HI. fold P in HI.
  assert (HP : P <> []).
  { unfold P. intros E. apply app_eq_nil in E. destruct E as [_ E]. discriminate. }
  assert (NP : forallb not_plus P = true).
  { apply idents_ok_no_plus, ident_chars_idents_ok; assumption. }
  assert (HT : semver_tail ("-"%char :: P) = Some P).
  { unfold semver_tail. change (ceqb "-"%char "-"%char) with true. cbv iota.
    rewrite (take_while_all _ _ NP), (drop_while_all _ _ NP).
    rewrite (ident_chars_idents_ok P HP HI). reflexivity. }
  assert (HPS : is_pseudo $"0" $"0" ("-"%char :: P) = time_ok ts).
  { unfold is_pseudo, pseudo_stamp. change (ceqb "-"%char "-"%char) with true. cbv iota.
    unfold pseudo1. change (beq $"0" $"0" && beq $"0" $"0") with true. cbv iota.
    unfold P. rewrite (stamp_rev_ok ts h Hts Hh). reflexivity. }
  unfold parse_body. rewrite HS, HPS.
  destruct (time_ok ts).
  - cbn [pseudo_pre]. rewrite (take_while_all _ _ NP). reflexivity.
  - rewrite HT. destruct (atoi ma); reflexivity.
Qed.
